import AtreeProofs.Codec.RoundTrip
import AtreeProofs.Codec.EncLemmasC
import AtreeProofs.Codec.SlabAll
import AtreeProofs.ArrayInv
/-
  C06 — Reported slab sizes equal the bytes actually written.
  PROPERTY THEOREMS about the byte-level model (`AtreeModel/Codec`).

  First part (this section of the file, unchanged): standalone array data slabs (root / non-root),
  array index slabs, large-value slabs, with the harness's elements (byte strings of every CBOR head
  width, the three gap sizes, slab references) and type infos.  For these kinds the only deviation
  between encoded length and reported size is the omitted 16-byte sibling link of a non-root data
  slab with undefined `next`, plus the root's extra-data section.  `SlabOK` (the hypotheses of these
  three kinds, used by the E2E proofs) is `False` for the slab kinds added later (`adata`, `mdata`,
  `mindex`, `storableG`); the general statements `enc_len` / `decoded_size_eq` are phrased with
  `SlabOKG` (Codec/SlabAll.lean), which per kind is the hypothesis of the kind-specific
  theorem (array / map data slabs with general elements: with the exact nesting clause
  `Slab.vdepth ≤ maxNestedLevels`), and hold for all SEVEN kinds (`enc_len_flat` / `decoded_size_eq_flat` are the former,
  three-kind statements; `SlabOK s → SlabOKG s`).

  The byte-level model now also covers map data / index / collision-group slabs, inlined arrays and
  maps, wrappers, the shared inlined-extra-data section and compact maps; the model's sizes of these
  kinds are functions of the content (`Stor.size`, `MEls.size`, `MapData.size`, …) and the trace
  replayer checks on every `ENC` line that every size the implementation keeps in a header field
  equals the computed one and that the EXACT length law holds (`Slab.hoisted`, Props/C06Exact.lean:
  written + omitted sibling link + bytes hoisted by compact maps = reported + extra-data sections).
-/
namespace Atree.C06
open Atree Atree.Codec Atree.Gen

/-- For every valid element (all CBOR head widths, the three gap sizes 25 / 258 / 65539, slab
    references) the encoded length is the size the element reports. -/
theorem elem_size_eq_enc_len (e : Elem) (hv : validElem e) : (encodeElem e).length = e.size :=
  Codec.elem_size_eq_enc_len e hv

/-- Data slab: encoded length, plus 16 exactly when a non-root slab has no right sibling, equals the
    reported size plus the extra-data section.  (`hroot`: a root has no sibling, as in every tree.) -/
theorem enc_len_data (ty : TyInfo) (s : DataSlab)
    (hsize : s.hdr.size = s.prefixSize + sumSizes s.elems)
    (hinl : s.inlined = false)
    (hroot : s.root = true → s.next = SlabID.undef)
    (hv : ∀ e ∈ s.elems, validElem e) :
    (encodeDataSlab ty s).length + (if s.root = false ∧ s.next = SlabID.undef then 16 else 0)
      = s.hdr.size + (if s.root then (encodeExtraData ty).length else 0) :=
  Codec.enc_len_data ty s hsize hinl hroot hv

/-- Index slab: encoded length = reported size + extra-data section. -/
theorem enc_len_meta {α : Type} (ty : TyInfo) (m : MetaSlab α)
    (hsize : m.hdr.size = arrayMetaDataSlabPrefixSize + arraySlabHeaderSize * m.childHdrs.length) :
    (encodeMetaSlab ty m).length = m.hdr.size + (if m.root then (encodeExtraData ty).length else 0) :=
  Codec.enc_len_meta ty m hsize

/-- Large-value slab: encoded length = `ByteSize()` = 2 + size of the value. -/
theorem enc_len_storable (e : Elem) (hv : validElem e) :
    (encodeStorableSlab e).length = versionAndFlagSize + e.size :=
  Codec.enc_len_storable e hv

/-- The three kinds of the first part at once (`SlabOK`), in the form of the first oracle:
    `len(EncodeSlab(s)) + omittedNext(s) = s.ByteSize() + extraDataLen(s)`. -/
theorem enc_len_flat (s : Slab) (ok : SlabOK s)
    (hroot : ∀ ty d, s = .data ty d → d.root = true → d.next = SlabID.undef) :
    (encodeSlab s).length +
        (match s with
         | .data _ d => if d.root = false ∧ d.next = SlabID.undef then 16 else 0
         | _ => 0)
      = s.byteSize + s.extraDataLen := by
  cases s with
  | data ty d =>
    obtain ⟨hok, _⟩ := ok
    simp only [encodeSlab, Slab.byteSize, Slab.extraDataLen]
    exact Codec.enc_len_data _ d hok.size hok.notInlined (hroot ty d rfl) hok.elems
  | index ty m =>
    obtain ⟨hok, _⟩ := ok
    simp only [encodeSlab, Slab.byteSize, Slab.extraDataLen, Nat.add_zero]
    exact Codec.enc_len_meta _ m hok.size
  | storable id e =>
    simp only [encodeSlab, Slab.byteSize, Slab.extraDataLen, Nat.add_zero]
    exact Codec.enc_len_storable e ok
  | adata _ => exact ok.elim
  | mdata _ => exact ok.elim
  | mindex _ => exact ok.elim
  | storableG _ _ => exact ok.elim

/-- ALL SEVEN slab kinds at once, in the form of the oracle (and of the replayer's check on every
    `ENC` line): encoded length, plus the 16 bytes of an omitted sibling link, plus the bytes that
    compact-encoded inlined maps hoist into the shared section, equals `ByteSize()` plus the root's
    extra-data section plus the shared inlined-extra-data section.  `SlabOKG`: per kind the hypotheses
    of the kind-specific theorem (never `False`); `rootNoSibling`: a root has no sibling. -/
theorem enc_len (s : Slab) (ok : SlabOKG s) (hroot : s.rootNoSibling) :
    (encodeSlab s).length + s.omittedNext + s.hoisted = s.byteSize + s.extraDataLen :=
  enc_len_slab_all s ok hroot

/-- The three kinds of the first part: a slab decoded from its register reports the same size. -/
theorem decoded_size_eq_flat (s : Slab) (ok : SlabOK s) (n : Nat) :
    ∃ s' k, decodeSlab s.id (encodeSlab s) n = .ok s' k ∧ s'.byteSize = s.byteSize :=
  ⟨s, _, decodeSlab_encodeSlab s ok n, rfl⟩

/-- ALL SEVEN kinds: a slab decoded from its register reports the same size as the slab that produced
    the register — including the non-root data slab whose sibling link was omitted from the register
    and the slab whose compact children come back in their decoded form. -/
theorem decoded_size_eq (s : Slab) (ok : SlabOKG s) (n : Nat) :
    ∃ s' k, decodeSlab s.id (encodeSlab s) n = .ok s' k ∧ s'.byteSize = s.byteSize :=
  ⟨normSlab s, _, decodeSlab_encodeSlab_all s ok n, byteSize_normSlab s ok⟩

theorem length_le_sumSizes (l : List Elem) (h : ∀ e ∈ l, 1 ≤ e.size) : l.length ≤ sumSizes l := by
  induction l with
  | nil => simp [sumSizes]
  | cons e es ih =>
    have h1 := h e (List.mem_cons_self ..)
    have h2 := ih (fun x hx => h x (List.mem_cons_of_mem _ hx))
    simp only [sumSizes, List.map_cons, List.sum_cons, List.length_cons] at *
    omega

/-- The `uint16` casts of the encoders never truncate on slabs satisfying the tree invariant of C05:
    size and element count of a data slab stay below 65536 for every legal threshold. -/
theorem no_uint16_truncation (T : Nat) (hT : legalThreshold T = true) (top : Bool) (s : DataSlab)
    (h : DataInv T top s) : s.hdr.size < 65536 ∧ s.elems.length < 65536 := by
  have hmax := h.le_max
  have hT' : T ≤ 32768 := by
    unfold legalThreshold at hT
    simp only [Bool.and_eq_true, maxSlabSize] at hT
    exact of_decide_eq_true hT.2
  have hs : s.hdr.size < 65536 := by unfold maxThr at hmax; omega
  refine ⟨hs, ?_⟩
  have hl := length_le_sumSizes s.elems (fun e he => (h.elems_ok e he).1)
  have := h.size_eq
  omega

/-! ## Second part of the model: map slabs, inlined children, wrappers, compact maps

  Sizes of these kinds are functions of the content (`Stor.size`, `MEls.size`, `MapData.size`,
  `ArrData.size`, `MapMeta.size`: what the decoders compute); that the implementation's header
  fields hold these values is checked on every `ENC` line of the `codec` stream.  Hypotheses:
  `Stor.OK` / `MEls.OK` (plain values are values of the harness, one digest per element of an
  `hkeyElements`), `noCompact` (no inlined map is written in the compact form) resp. `nodupKeys`
  (the keys of a compact-encoded map are distinct).  `hroot`: a root has no sibling. -/

/-- A storable of any shape (wrapped, inlined array / map at any depth, collision groups) that holds
    no compact map: the bytes written in place are exactly its computed size. -/
theorem enc_len_stor (s : Stor) (xs : List XD) (ok : s.OK) (nc : s.noCompact) :
    (encSt s xs).1.length = s.size :=
  lenSt_eq s xs ok nc

/-- With compact maps (keys and digests hoisted into the shared section): at most the computed size. -/
theorem enc_len_stor_compact (s : Stor) (xs : List XD) (ok : s.OK) (nd : s.nodupKeys) :
    (encSt s xs).1.length ≤ s.size :=
  lenSt_le s xs ok nd

/-- `hkeyElements` / `singleElements` with inline and external collision groups. -/
theorem enc_len_elements (els : MEls) (xs : List XD) (ok : els.OK) (nc : els.noCompact) :
    (encMEls els xs).1.length = els.size :=
  lenMEls_eq els xs ok nc

/-- Map index slab: encoded length = computed size + extra-data section. -/
theorem enc_len_mindex (m : MapMeta) : (encodeMapMeta m).length = m.size + mapExtraLen m.extra :=
  Codec.enc_len_mindex m

/-- Map data slab (root / non-root / external collision group), inlined children allowed, no compact
    map: encoded length, plus 16 exactly when a non-root slab has no right sibling, equals the
    computed size plus the root's extra-data section plus the shared inlined-extra-data section. -/
theorem enc_len_mdata (s : MapData) (ok : s.els.OK) (nc : s.els.noCompact)
    (hroot : s.extra.isSome = true → s.next = SlabID.undef) :
    (encodeMapData s).length + (if s.extra.isNone ∧ s.next = SlabID.undef then 16 else 0)
      = s.size + mapExtraLen s.extra + (encodeIEDSection (encMEls s.els []).2).length :=
  Codec.enc_len_mdata s ok nc hroot

/-- The same with compact maps: the written bytes are at most what is reported (the hoisted keys and
    digests are in the shared section, which is accounted on the right-hand side). -/
theorem enc_len_mdata_compact (s : MapData) (ok : s.els.OK) (nd : s.els.nodupKeys)
    (hroot : s.extra.isSome = true → s.next = SlabID.undef) :
    (encodeMapData s).length + (if s.extra.isNone ∧ s.next = SlabID.undef then 16 else 0)
      ≤ s.size + mapExtraLen s.extra + (encodeIEDSection (encMEls s.els []).2).length :=
  Codec.enc_len_mdata_le s ok nd hroot

/-- Array data slab whose elements are general storables (wrapped values, inlined arrays / maps). -/
theorem enc_len_adata (a : ArrData) (ok : okSts a.elems) (nc : noCompactSts a.elems)
    (hroot : a.ty.isSome = true → a.next = SlabID.undef) :
    (encodeArrData a).length + (if a.ty.isNone ∧ a.next = SlabID.undef then 16 else 0)
      = a.size + (match a.ty with | some t => (encodeExtraData t).length | none => 0) +
          (encodeIEDSection (encSts a.elems []).2).length :=
  Codec.enc_len_adata a ok nc hroot

theorem enc_len_adata_compact (a : ArrData) (ok : okSts a.elems) (nd : nodupKeysSts a.elems)
    (hroot : a.ty.isSome = true → a.next = SlabID.undef) :
    (encodeArrData a).length + (if a.ty.isNone ∧ a.next = SlabID.undef then 16 else 0)
      ≤ a.size + (match a.ty with | some t => (encodeExtraData t).length | none => 0) +
          (encodeIEDSection (encSts a.elems []).2).length :=
  Codec.enc_len_adata_le a ok nd hroot

/-- Large-value slab holding a wrapped value. -/
theorem enc_len_storableG (s : Stor) (ok : s.OK) (nc : s.noCompact) :
    (encodeStorableSlabG s).length = versionAndFlagSize + s.size :=
  Codec.enc_len_storableG s ok nc

end Atree.C06
