import AtreeProofs.Codec.RoundTrip
import AtreeProofs.ArrayInv
/-
  C06 — Reported slab sizes equal the bytes actually written.
  PROPERTY THEOREMS about the byte-level model (`AtreeModel/Codec`).

  First part (this section of the file, unchanged): standalone array data slabs (root / non-root),
  array index slabs, large-value slabs, with the harness's elements (byte strings of every CBOR head
  width, the three gap sizes, slab references) and type infos.  For these kinds the only deviation
  between encoded length and reported size is the omitted 16-byte sibling link of a non-root data
  slab with undefined `next`, plus the root's extra-data section.  `SlabOK` is `False` for the slab
  kinds added later (`adata`, `mdata`, `mindex`, `storableG`), which have their own theorems.

  The byte-level model now also covers map data / index / collision-group slabs, inlined arrays and
  maps, wrappers, the shared inlined-extra-data section and compact maps; the model's sizes of these
  kinds are functions of the content (`Stor.size`, `MEls.size`, `MapData.size`, …) and the trace
  replayer checks on every `ENC` line that every size the implementation keeps in a header field
  equals the computed one and that the length law holds (`≤` when compact maps hoist their keys).
-/
namespace Atree.C06
open Atree Atree.Codec Atree.Gen

/-- For every valid element (all CBOR head widths, the three gap sizes 25 / 258 / 65539, slab
    references) the encoded length is the size the element reports. -/
theorem elem_size_eq_enc_len (e : Elem) (hv : validElem e) : (encodeElem e).length = e.size :=
  Codec.elem_size_eq_enc_len e hv

/-- Data slab: encoded length, plus 16 exactly when a non-root slab has no right sibling, equals the
    reported size plus the extra-data section.  (`hroot`: a root has no sibling, as in every tree.) -/
theorem enc_len_data (ty : TyInfo) (s : DataSlab)
    (hsize : s.hdr.size = s.prefixSize + sumSizes s.elems)
    (hinl : s.inlined = false)
    (hroot : s.root = true → s.next = SlabID.undef)
    (hv : ∀ e ∈ s.elems, validElem e) :
    (encodeDataSlab ty s).length + (if s.root = false ∧ s.next = SlabID.undef then 16 else 0)
      = s.hdr.size + (if s.root then (encodeExtraData ty).length else 0) :=
  Codec.enc_len_data ty s hsize hinl hroot hv

/-- Index slab: encoded length = reported size + extra-data section. -/
theorem enc_len_meta {α : Type} (ty : TyInfo) (m : MetaSlab α)
    (hsize : m.hdr.size = arrayMetaDataSlabPrefixSize + arraySlabHeaderSize * m.childHdrs.length) :
    (encodeMetaSlab ty m).length = m.hdr.size + (if m.root then (encodeExtraData ty).length else 0) :=
  Codec.enc_len_meta ty m hsize

/-- Large-value slab: encoded length = `ByteSize()` = 2 + size of the value. -/
theorem enc_len_storable (e : Elem) (hv : validElem e) :
    (encodeStorableSlab e).length = versionAndFlagSize + e.size :=
  Codec.enc_len_storable e hv

/-- All kinds at once, in the form of the oracle:
    `len(EncodeSlab(s)) + omittedNext(s) = s.ByteSize() + extraDataLen(s)`. -/
theorem enc_len (s : Slab) (ok : SlabOK s)
    (hroot : ∀ ty d, s = .data ty d → d.root = true → d.next = SlabID.undef) :
    (encodeSlab s).length +
        (match s with
         | .data _ d => if d.root = false ∧ d.next = SlabID.undef then 16 else 0
         | _ => 0)
      = s.byteSize + s.extraDataLen := by
  cases s with
  | data ty d =>
    obtain ⟨hok, _⟩ := ok
    simp only [encodeSlab, Slab.byteSize, Slab.extraDataLen]
    exact Codec.enc_len_data _ d hok.size hok.notInlined (hroot ty d rfl) hok.elems
  | index ty m =>
    obtain ⟨hok, _⟩ := ok
    simp only [encodeSlab, Slab.byteSize, Slab.extraDataLen, Nat.add_zero]
    exact Codec.enc_len_meta _ m hok.size
  | storable id e =>
    simp only [encodeSlab, Slab.byteSize, Slab.extraDataLen, Nat.add_zero]
    exact Codec.enc_len_storable e ok
  | adata _ => exact ok.elim
  | mdata _ => exact ok.elim
  | mindex _ => exact ok.elim
  | storableG _ _ => exact ok.elim

/-- A slab decoded from its register reports the same size as the slab that produced the register
    — including the non-root data slab whose sibling link was omitted from the register. -/
theorem decoded_size_eq (s : Slab) (ok : SlabOK s) (n : Nat) :
    ∃ s' k, decodeSlab s.id (encodeSlab s) n = .ok s' k ∧ s'.byteSize = s.byteSize :=
  ⟨s, _, decodeSlab_encodeSlab s ok n, rfl⟩

theorem length_le_sumSizes (l : List Elem) (h : ∀ e ∈ l, 1 ≤ e.size) : l.length ≤ sumSizes l := by
  induction l with
  | nil => simp [sumSizes]
  | cons e es ih =>
    have h1 := h e (List.mem_cons_self ..)
    have h2 := ih (fun x hx => h x (List.mem_cons_of_mem _ hx))
    simp only [sumSizes, List.map_cons, List.sum_cons, List.length_cons] at *
    omega

/-- The `uint16` casts of the encoders never truncate on slabs satisfying the tree invariant of C05:
    size and element count of a data slab stay below 65536 for every legal threshold. -/
theorem no_uint16_truncation (T : Nat) (hT : legalThreshold T = true) (top : Bool) (s : DataSlab)
    (h : DataInv T top s) : s.hdr.size < 65536 ∧ s.elems.length < 65536 := by
  have hmax := h.le_max
  have hT' : T ≤ 32768 := by
    unfold legalThreshold at hT
    simp only [Bool.and_eq_true, maxSlabSize] at hT
    exact of_decide_eq_true hT.2
  have hs : s.hdr.size < 65536 := by unfold maxThr at hmax; omega
  refine ⟨hs, ?_⟩
  have hl := length_le_sumSizes s.elems (fun e he => (h.elems_ok e he).1)
  have := h.size_eq
  omega

end Atree.C06
