import AtreeProofs.MapRefs
import AtreeProofs.Map.Refs
import AtreeProofs.Props.C09Map
import AtreeProofs.E2EMapSpec
import AtreeProofs.E2EMap.History
/-
  C09 (maps, also C02 / C05) - REFERENCES TO LARGE-VALUE SLABS.

  A value above the inline limit is externalised: the pair stores `⟨19, .ref id⟩` and the value
  lives in a slab of its own.  `MapInv` / `MIdsOk` / `CtxOk` constrain the slab ids of the TREE only
  (audit a1, finding F2: `c05map/ref.lean` builds a map satisfying all of them in which two
  different keys hold the SAME reference `7.10`).  `MRefsOk m ctr` (`AtreeProofs/MapRefs.lean`) is
  the missing invariant: the referenced ids are pairwise different, are not slabs of the tree, are
  owned by the map's address and were handed out by the allocator (`1 ≤ idx ≤ ctr`).

  This file: `MRefsOk` holds for a new map and is preserved by `Set` (new key / overwrite, any value
  size; a refused `Set` changes nothing), `Remove`, `PopIterate`, `SetType`, with respect to the NEW
  allocation counter; what `Set` (overwrite) and `Remove` hand back is no longer referenced and is
  not a slab of the new map (ownership passes to the caller exactly once); ids allocated by `Set`
  are fresh against the tree AND the references.  Hypotheses as in `C09Map.set_effects_complete`.

  Keys are plain values in the model (`MKey.pay : Nat`), they are never references.
  Proofs: `AtreeProofs/Map/Refs.lean`.
-/
namespace Atree.C09Map
open Atree Gen

variable {r : Nat}

/-- A new map holds no reference. -/
theorem refs_new (addr ty : Nat) (seedOf : SlabID → Nat) (c : Ctx) :
    (OMap.new (r := r) addr ty seedOf c).1.refIds = [] ∧
    MRefsOk (OMap.new (r := r) addr ty seedOf c).1 (OMap.new (r := r) addr ty seedOf c).2.ctr := by
  have h : (OMap.new (r := r) addr ty seedOf c).1.refIds = [] := rfl
  refine ⟨h, ?_⟩
  unfold MRefsOk
  rw [h]
  exact ⟨List.nodup_nil, fun _ hid => by cases hid⟩

/-- `Set` (new key or overwrite, value of any size) preserves `MRefsOk` w.r.t. the new counter.
    The references of the new map are the old ones and possibly the reference created for `v`;
    an OVERWRITTEN reference (`old = some ⟨_, .ref id⟩`) was one of the old references, is NOT a
    reference of the new map and NOT a slab of the new tree: it is handed to the caller;
    a CREATED reference is `⟨m.addr, c.ctr + 1⟩`, is held by the new map, was not referenced
    before, and is a slab neither of the old nor of the new tree; NO reference is lost: every old
    reference is still held by the map or is the one handed back. -/
theorem refs_set (T : Nat) (hT : legalThreshold T = true) (D : DigestFn (r + 1)) (cfg : MCfg) (m : OMap r)
    (hcfg : CfgOk cfg T m) (h : MapInv T D m) (hids : MIdsOk m) (k : MKey) (hk : KeyOk T (r + 1) D k)
    (v : Elem) (hv : ValueOkM v) (c : Ctx) (hc : CtxOk m c) (hrefs : MRefsOk m c.ctr)
    (old : Option Elem) (m' : OMap r) (c' : Ctx) (hr : m.set cfg k v c = .ok (old, m', c')) :
    MRefsOk m' c'.ctr ∧ c.ctr ≤ c'.ctr ∧
    (∀ id ∈ m'.refIds, id ∈ m.refIds ∨ (storedValue cfg k v c).pay = .ref id) ∧
    (∀ v0 id, old = some v0 → v0.pay = .ref id →
      id ∈ m.refIds ∧ id ∉ m'.refIds ∧ id ∉ AList.keys (MTree.slabs m'.d m'.root)) ∧
    (∀ id, (storedValue cfg k v c).pay = .ref id →
      id = ⟨m.addr, c.ctr + 1⟩ ∧ id ∈ m'.refIds ∧ id ∉ m.refIds ∧
      id ∉ AList.keys (MTree.slabs m.d m.root) ∧ id ∉ AList.keys (MTree.slabs m'.d m'.root)) ∧
    (∀ id ∈ m.refIds, id ∈ m'.refIds ∨ ∃ v0, old = some v0 ∧ v0.pay = .ref id) := by
  obtain ⟨g1, g2, g3, g4, g5, g6, _⟩ := omap_set_refs hT hcfg h hk hv c hc hids hrefs hr
  refine ⟨g1, g2, g3, g4, ?_, g6⟩
  intro id hid
  obtain ⟨q1, q2, q3, q4, q5, _⟩ := g5 id hid
  exact ⟨q1, q2, q3, q4, q5⟩

/-- A `Set` that is not carried out is refused with the collision-limit error (C12) - the only
    way `Set` fails under the invariant; the operation returns no new map, the caller keeps `m`
    (and `MRefsOk m c.ctr`). -/
theorem refs_set_refused (T : Nat) (hT : legalThreshold T = true) (D : DigestFn (r + 1)) (cfg : MCfg) (m : OMap r)
    (hcfg : CfgOk cfg T m) (h : MapInv T D m) (k : MKey) (hk : KeyOk T (r + 1) D k)
    (v : Elem) (hv : ValueOkM v) (c : Ctx) (e : MErr) (hr : m.set cfg k v c = .error e) :
    e = .collisionLimit := by
  have hs := OMap.set_spec hT hcfg h hk hv c
  by_cases hl : TLimited cfg m.d m.root k
  · rw [hs.1 hl] at hr
    simp only [Except.error.injEq] at hr
    exact hr.symm
  · obtain ⟨old, m', c', heq, _⟩ := hs.2 hl
    rw [heq] at hr; cases hr

/-- `Remove` preserves `MRefsOk`; nothing is created; a removed reference was one of the old
    references, is NOT a reference of the new map and NOT a slab of the new tree; every other old
    reference is still held by the map. -/
theorem refs_remove (T : Nat) (hT : legalThreshold T = true) (D : DigestFn (r + 1)) (cfg : MCfg) (m : OMap r)
    (hcfg : CfgOk cfg T m) (h : MapInv T D m) (hids : MIdsOk m) (k : MKey) (hk : KeyOk T (r + 1) D k) (c : Ctx)
    (hc : CtxOk m c) (hrefs : MRefsOk m c.ctr)
    (k0 : MKey) (v0 : Elem) (m' : OMap r) (c' : Ctx) (hr : m.remove cfg k c = .ok (k0, v0, m', c')) :
    MRefsOk m' c'.ctr ∧ c.ctr ≤ c'.ctr ∧ c'.created = c.created ∧
    (∀ id ∈ m'.refIds, id ∈ m.refIds) ∧
    (∀ id, v0.pay = .ref id →
      id ∈ m.refIds ∧ id ∉ m'.refIds ∧ id ∉ AList.keys (MTree.slabs m'.d m'.root)) ∧
    (∀ id ∈ m.refIds, id ∈ m'.refIds ∨ v0.pay = .ref id) :=
  omap_remove_refs hT hcfg h hk c hc hids hrefs hr

/-- `PopIterate`: the emptied map holds no reference (`MRefsOk` w.r.t. the unchanged counter);
    the pairs handed to the caller are the old pairs in reverse order, so the references handed
    back are exactly the old references: pairwise different and none of them a slab of the
    emptied map (which is its root slab only). -/
theorem refs_popIterate (T : Nat) (hT : legalThreshold T = true) (D : DigestFn (r + 1)) (m : OMap r)
    (h : MapInv T D m) (c : Ctx) (hc : CtxOk m c) (hrefs : MRefsOk m c.ctr) :
    let res := m.popIterate c
    res.2.1.refIds = [] ∧ MRefsOk res.2.1 res.2.2.ctr ∧ res.2.2.ctr = c.ctr ∧ res.2.2.created = c.created ∧
    res.1 = m.toList.reverse ∧ OMap.refsOf res.1 = m.refIds.reverse ∧ (OMap.refsOf res.1).Nodup ∧
    AList.keys (MTree.slabs res.2.1.d res.2.1.root) = [m.rootID] ∧
    ∀ id ∈ OMap.refsOf res.1, id ∉ AList.keys (MTree.slabs res.2.1.d res.2.1.root) := by
  intro res
  obtain ⟨h1, h2, _, _, _⟩ := C02.pop_refines T hT D m h c hc
  obtain ⟨_, hkeys, _⟩ := pop_releases_all T hT D m h c hc
  obtain ⟨hctr, hcre⟩ := E2EM.omap_popKeep m c
  have hkeys' : AList.keys (MTree.slabs res.2.1.d res.2.1.root) = [m.rootID] := hkeys
  have hnil : res.2.1.refIds = [] := by
    show OMap.refsOf res.2.1.toList = []
    rw [show res.2.1.toList = [] from h2]; rfl
  have hrefs1 : OMap.refsOf res.1 = m.refIds.reverse := by
    rw [show res.1 = m.toList.reverse from h1, OMap.refsOf_reverse]; rfl
  refine ⟨hnil, ?_, hctr, hcre, h1, hrefs1, ?_, hkeys', ?_⟩
  · unfold MRefsOk
    rw [hnil]
    exact ⟨List.nodup_nil, fun _ hid => by cases hid⟩
  · rw [hrefs1]; exact OMap.nodup_reverse hrefs.1
  · intro id hid
    rw [hrefs1, List.mem_reverse] at hid
    rw [hkeys', List.mem_singleton]
    intro he
    exact (hrefs.2 id hid).1 (he ▸ hdr_id_mem_keys m.d m.root)

/-- `SetType` changes neither the pairs nor the slab ids nor the counter. -/
theorem refs_setType (m : OMap r) (ty : Nat) (c : Ctx) (ctr : Nat) (hrefs : MRefsOk m ctr) :
    MRefsOk (m.setType ty c).1 ctr ∧ (m.setType ty c).2.ctr = c.ctr ∧ (m.setType ty c).2.created = c.created ∧
    (m.setType ty c).1.refIds = m.refIds := by
  refine ⟨hrefs, ?_, ?_, rfl⟩
  · unfold OMap.setType; simp only; split <;> rfl
  · unfold OMap.setType; simp only; split <;> rfl

/-- EVERY REQUEST of a history (`E2EM.stepM`: a refused request changes nothing) preserves
    `MRefsOk` w.r.t. the allocation counter. -/
theorem refs_stepM (T : Nat) (hT : legalThreshold T = true) (D : DigestFn (r + 1)) (cfg : MCfg)
    (st : OMap r × Ctx) (hcfg : CfgOk cfg T st.1) (h : MapInv T D st.1) (hids : MIdsOk st.1)
    (hc : CtxOk st.1 st.2) (hrefs : MRefsOk st.1 st.2.ctr) (op : E2EM.MOp) (hop : op.Ok T D) :
    MRefsOk (E2EM.stepM cfg st op).1 (E2EM.stepM cfg st op).2.ctr := by
  obtain ⟨m, c⟩ := st
  cases op with
  | set k v =>
    simp only [E2EM.stepM]
    cases hr : m.set cfg k v c with
    | error e => exact hrefs
    | ok res =>
      obtain ⟨old, m', c'⟩ := res
      exact (refs_set T hT D cfg m hcfg h hids k hop.1 v hop.2 c hc hrefs old m' c' hr).1
  | remove k =>
    simp only [E2EM.stepM]
    cases hr : m.remove cfg k c with
    | error e => exact hrefs
    | ok res =>
      obtain ⟨k0, v0, m', c'⟩ := res
      exact (refs_remove T hT D cfg m hcfg h hids k hop c hc hrefs k0 v0 m' c' hr).1
  | popIterate => exact (refs_popIterate T hT D m h c hc hrefs).2.1
  | setType ty =>
    obtain ⟨g1, g2, _⟩ := refs_setType m ty c c.ctr hrefs
    show MRefsOk (m.setType ty c).1 (m.setType ty c).2.ctr
    rw [g2]; exact g1

/-- Slab ids handed out during a `Set` are fresh against the TREE and against the REFERENCES
    (strengthening of `allocated_ids_fresh`). -/
theorem allocated_ids_fresh_refs (T : Nat) (hT : legalThreshold T = true) (D : DigestFn (r + 1)) (cfg : MCfg)
    (m : OMap r) (hcfg : CfgOk cfg T m) (h : MapInv T D m) (k : MKey) (hk : KeyOk T (r + 1) D k)
    (v : Elem) (hv : ValueOkM v) (c : Ctx) (hc : CtxOk m c) (hrefs : MRefsOk m c.ctr)
    (old : Option Elem) (m' : OMap r) (c' : Ctx) (hr : m.set cfg k v c = .ok (old, m', c')) :
    ∀ addr id, Eff.alloc addr id ∈ newEffects c c' →
      id ∉ AList.keys (MTree.slabs m.d m.root) ∧ id ∉ m.refIds ∧ c.ctr < id.idx ∧ id.idx ≤ c'.ctr := by
  intro addr id hmem
  obtain ⟨h1, h2, h3⟩ := allocated_ids_fresh T hT D cfg m hcfg h k hk v hv c hc old m' c' hr addr id hmem
  refine ⟨h1, ?_, h2, h3⟩
  intro hin
  have := (hrefs.2 id hin).2.2.2
  omega

/-! ### Non-vacuity, and the audit's counterexample is excluded -/
section NonVacuity
open MapExample

/-- a 200-byte value: above `maxInlineMapValue 256 10`, so it is externalised -/
def big (n : Nat) : Elem := { size := 200, pay := .val n }
theorem big_ok (n : Nat) : ValueOkM (big n) := ⟨(by decide : 1 ≤ 200), n, rfl⟩

/-- new map `7.1`; key 111 := big value (slab `7.2`); key 222 := big value (slab `7.3`);
    key 333 := small value -/
def g1 : OMap 1 × Ctx := stepSet cfg2 st0 (key 111) (big 1)
def g2 : OMap 1 × Ctx := stepSet cfg2 g1 (key 222) (big 2)
def g3 : OMap 1 × Ctx := stepSet cfg2 g2 (key 333) (val 3)

theorem g1_good : Good 256 D2 cfg2 g1 := Good.set legal256 (Good.new legal256 rfl rfl _ _ _) (key_ok _) (big_ok _)
theorem g2_good : Good 256 D2 cfg2 g2 := Good.set legal256 g1_good (key_ok _) (big_ok _)
theorem g3_good : Good 256 D2 cfg2 g3 := Good.set legal256 g2_good (key_ok _) (val_ok _)

example : g3.1.toList.map (fun p => (p.1.pay, p.2.pay)) =
    [(111, .ref ⟨7, 2⟩), (222, .ref ⟨7, 3⟩), (333, .val 3)] := by decide
example : g3.1.refIds = [⟨7, 2⟩, ⟨7, 3⟩] := by decide
example : AList.keys (MTree.slabs g3.1.d g3.1.root) = [⟨7, 1⟩] := by decide
example : g3.2.ctr = 3 := by decide
/-- a state holding two real references satisfies the invariant -/
theorem g3_refs : MRefsOk g3.1 g3.2.ctr := by decide
theorem g2_refs : MRefsOk g2.1 g2.2.ctr := by decide
theorem g2_ids : MIdsOk g2.1 := by decide
theorem g3_ids : MIdsOk g3.1 := by decide

/-- overwriting key 111 (reference `7.2`) with another big value: `7.2` is handed back, the new
    reference is `7.4` -/
def g4 : OMap 1 × Ctx := stepSet cfg2 g3 (key 111) (big 4)
theorem step4 : g3.1.set cfg2 (key 111) (big 4) g3.2 = .ok (some ⟨19, .ref ⟨7, 2⟩⟩, g4.1, g4.2) := by rfl
example : g4.1.refIds = [⟨7, 4⟩, ⟨7, 3⟩] := by decide
/-- `refs_set` instantiated on this step -/
theorem g4_refs : MRefsOk g4.1 g4.2.ctr :=
  (refs_set 256 legal256 D2 cfg2 g3.1 g3_good.cfgok g3_good.inv g3_ids (key 111) (key_ok _) (big 4) (big_ok _)
    g3.2 g3_good.ctx g3_refs _ g4.1 g4.2 step4).1
example : (⟨7, 2⟩ : SlabID) ∉ g4.1.refIds ∧ (⟨7, 2⟩ : SlabID) ∉ AList.keys (MTree.slabs g4.1.d g4.1.root) :=
  ((refs_set 256 legal256 D2 cfg2 g3.1 g3_good.cfgok g3_good.inv g3_ids (key 111) (key_ok _) (big 4) (big_ok _)
    g3.2 g3_good.ctx g3_refs _ g4.1 g4.2 step4).2.2.2.1 _ ⟨7, 2⟩ rfl rfl).2

/-- removing key 222 hands back the reference `7.3` -/
def g5 : OMap 1 × Ctx := stepRemove cfg2 g3 (key 222)
theorem step5 : g3.1.remove cfg2 (key 222) g3.2 = .ok (key 222, ⟨19, .ref ⟨7, 3⟩⟩, g5.1, g5.2) := by rfl
example : g5.1.refIds = [⟨7, 2⟩] := by decide
theorem g5_refs : MRefsOk g5.1 g5.2.ctr :=
  (refs_remove 256 legal256 D2 cfg2 g3.1 g3_good.cfgok g3_good.inv g3_ids (key 222) (key_ok _)
    g3.2 g3_good.ctx g3_refs _ _ g5.1 g5.2 step5).1

/-! #### the audit's state (`/tmp/audit/a1/c05map/ref.lean`) -/

def c9 : Ctx := { ctr := 9, eff := [], created := [] }
/-- key 111 := big value with the counter at 9: value slab `7.10` -/
def a1 : OMap 1 × Ctx := stepSet cfg2 (st0.1, c9) (key 111) (big 1)
/-- the counter is put back to 9 (`CtxOk` only looks at TREE slab ids) and key 222 := another big
    value: slab `7.10` again -/
def a2 : OMap 1 × Ctx := stepSet cfg2 (a1.1, c9) (key 222) (big 2)

/-- two DIFFERENT keys whose stored values are the SAME large-value slab reference … -/
example : a2.1.toList.map (fun p => p.2.pay) = [.ref ⟨7, 10⟩, .ref ⟨7, 10⟩] := by decide
/-- … this state satisfies `MIdsOk` (and `MapInv`, `CtxOk`: see ref.lean) but NOT `MRefsOk`, for any counter -/
example : MIdsOk a2.1 := by decide
theorem audit_state_excluded : ∀ ctr, ¬ MRefsOk a2.1 ctr := by
  intro ctr h
  have h1 := h.1
  revert h1
  decide
/-- and the step that produced it started from a state violating `MRefsOk` w.r.t. ITS counter (the
    reference `7.10` is above the reset counter 9): `refs_set` does not apply to it -/
example : a1.1.refIds = [⟨7, 10⟩] ∧ ¬ MRefsOk a1.1 c9.ctr := by decide

end NonVacuity

end Atree.C09Map
