import AtreeProofs.Map.Ids
import AtreeProofs.Props.C05Map
/-
  C05 / C09 / C13 (MAPS) — slab identifiers are part of the preserved invariant.
  PROPERTY THEOREMS.  `MapInvI T D m ctr` (AtreeProofs/MapIds.lean) = `MapInv T D m` ∧ `MapIdsOk m ctr`:
  besides the structural invariant, ALL slab identifiers of the map (data slabs, index slabs,
  external collision-group slabs) are pairwise different, belong to the map's owner address, have an
  index ≥ 1 (hence are never the undefined identifier) and ≤ the owner's allocation counter.

  * `mapIds_new / _set / _remove / _popIterate / _setType`: every operation takes `MapInvI` w.r.t.
    the counter before to `MapInvI` w.r.t. the counter after, keeps the root identifier and the
    owner address, and the counter never decreases; `mapIds_step`: the same for an arbitrary
    request INCLUDING rejected ones (collision limit reached, key not found), which change nothing.
  * `mapIdsOk_implies`: `MapIdsOk` subsumes the older separate predicates `MIdsOk` (distinct),
    `MAddrOk` (owner address), `CtxOk` (counter) and the hypothesis `leafIdsOk` of the read-only
    iterator theorem (C13) and gives defined-ness without any `addr ≠ 0` hypothesis.
  * `map_history_wellformed`: after EVERY prefix of EVERY history of requests from `NewMap`.
  * the remaining members of the C05 map family (`map_inv_setType`, `_full` variants, size facts,
    `map_access_agree`) and `C09Map.tree_ownership`.
-/
namespace Atree.C05
open Atree Gen

variable {r : Nat}

/-! ## `MapInvI` is kept by every operation -/

/-- `NewMap`: the new map satisfies the invariant with identifiers w.r.t. the advanced counter; its
    only slab is the root, whose identifier is the one just allocated (`counter + 1` of `addr`). -/
theorem mapIds_new (T : Nat) (hT : legalThreshold T = true) (D : DigestFn (r + 1)) (addr ty : Nat)
    (seedOf : SlabID → Nat) (c : Ctx) :
    MapInvI T D (OMap.new (r := r) addr ty seedOf c).1 (OMap.new (r := r) addr ty seedOf c).2.ctr ∧
    (OMap.new (r := r) addr ty seedOf c).1.rootID = ⟨addr, c.ctr + 1⟩ ∧
    (OMap.new (r := r) addr ty seedOf c).1.addr = addr ∧
    (OMap.new (r := r) addr ty seedOf c).2.ctr = c.ctr + 1 ∧
    (OMap.new (r := r) addr ty seedOf c).1.slabIds = [⟨addr, c.ctr + 1⟩] ∧
    (OMap.new (r := r) addr ty seedOf c).1.toList = [] ∧ (OMap.new (r := r) addr ty seedOf c).1.count = 0 := by
  obtain ⟨h1, h2, h3⟩ := mapIdsOk_new (r := r) addr ty seedOf c
  refine ⟨⟨(C02.inv_new T hT D addr ty seedOf c).1, h1⟩, h2, rfl, h3, ?_, rfl, rfl⟩
  rw [OMap.slabIds_eq_keys]; rfl

/-- `Set` (insert or overwrite; any splits / group creation it causes). -/
theorem mapIds_set (T : Nat) (hT : legalThreshold T = true) (D : DigestFn (r + 1)) (cfg : MCfg) (m : OMap r)
    (hcfg : CfgOk cfg T m) (k : MKey) (hk : KeyOk T (r + 1) D k) (v : Elem) (hv : ValueOkM v) (c : Ctx)
    (h : MapInvI T D m c.ctr)
    (old : Option Elem) (m' : OMap r) (c' : Ctx) (hr : m.set cfg k v c = .ok (old, m', c')) :
    MapInvI T D m' c'.ctr ∧ m'.rootID = m.rootID ∧ m'.addr = m.addr ∧ c.ctr ≤ c'.ctr ∧ CfgOk cfg T m' ∧
    m'.count = (if old.isSome then m.count else m.count + 1) ∧ m'.ty = m.ty ∧ m'.seed = m.seed := by
  obtain ⟨hids', hrid, hle⟩ := mapIdsOk_set hT hcfg h.1 hk hv c h.2 hr
  have haddr : m'.addr = m.addr := by unfold OMap.addr; rw [hrid]
  rcases C02.set_refines T hT D cfg m hcfg h.1 k hk v hv c h.2.ctxOk with
    ⟨old2, m2, c2, heq, hold, _, hcnt, hinv, _, _, hty, hseed⟩ | ⟨herr, _⟩
  · rw [heq] at hr
    cases hr
    refine ⟨⟨hinv, hids'⟩, hrid, haddr, hle, ⟨hcfg.1, hcfg.2.1, by rw [hcfg.2.2, haddr]⟩, ?_, hty, hseed⟩
    rw [hcnt, hold]
  · rw [herr] at hr; cases hr

/-- `Remove` (any merges / rebalancing / group collapse it causes). -/
theorem mapIds_remove (T : Nat) (hT : legalThreshold T = true) (D : DigestFn (r + 1)) (cfg : MCfg) (m : OMap r)
    (hcfg : CfgOk cfg T m) (k : MKey) (hk : KeyOk T (r + 1) D k) (c : Ctx) (h : MapInvI T D m c.ctr)
    (k0 : MKey) (v0 : Elem) (m' : OMap r) (c' : Ctx) (hr : m.remove cfg k c = .ok (k0, v0, m', c')) :
    MapInvI T D m' c'.ctr ∧ m'.rootID = m.rootID ∧ m'.addr = m.addr ∧ c.ctr ≤ c'.ctr ∧ CfgOk cfg T m' ∧
    m'.count = m.count - 1 ∧ 1 ≤ m.count ∧ m'.ty = m.ty ∧ m'.seed = m.seed := by
  obtain ⟨hids', hrid, hle⟩ := mapIdsOk_remove hT hcfg h.1 hk c h.2 hr
  have haddr : m'.addr = m.addr := by unfold OMap.addr; rw [hrid]
  have hs := C02.remove_refines T hT D cfg m hcfg h.1 k hk c h.2.ctxOk
  cases hd : dictLookup m.toList k with
  | none =>
    rw [hd] at hs
    rw [hs] at hr
    cases hr
  | some w =>
    rw [hd] at hs
    obtain ⟨k1, m1, c1, heq, _, _, hcnt, hinv, _, _, hty, hseed⟩ := hs
    rw [heq] at hr
    cases hr
    refine ⟨⟨hinv, hids'⟩, hrid, haddr, hle, ⟨hcfg.1, hcfg.2.1, by rw [hcfg.2.2, haddr]⟩, (by omega), ?_, hty, hseed⟩
    have hmem := mem_of_dictLookup_some h.1.allKeyOk hk hd
    rw [h.1.count_eq]
    exact List.length_pos_of_mem hmem

/-- `PopIterate`: afterwards the map is the empty root data slab under the SAME identifier; the
    allocation counter is unchanged. -/
theorem mapIds_popIterate (T : Nat) (hT : legalThreshold T = true) (D : DigestFn (r + 1)) (m : OMap r) (c : Ctx)
    (h : MapInvI T D m c.ctr) :
    MapInvI T D (m.popIterate c).2.1 (m.popIterate c).2.2.ctr ∧ (m.popIterate c).2.1.rootID = m.rootID ∧
    (m.popIterate c).2.1.addr = m.addr ∧ (m.popIterate c).2.2.ctr = c.ctr ∧
    (m.popIterate c).2.1.slabIds = [m.rootID] ∧ (m.popIterate c).2.1.count = 0 ∧
    (m.popIterate c).2.1.ty = m.ty ∧ (m.popIterate c).2.1.seed = m.seed := by
  obtain ⟨h1, h2, h3⟩ := mapIdsOk_pop c h.2
  obtain ⟨_, _, hcnt, hinv, _⟩ := C02.pop_refines T hT D m h.1 c h.2.ctxOk
  exact ⟨⟨hinv, h1⟩, h2, by unfold OMap.addr; rw [h2], h3, slabIds_pop m c, hcnt, rfl, rfl⟩

/-- `SetType`: only the type information changes. -/
theorem mapIds_setType (T : Nat) (D : DigestFn (r + 1)) (m : OMap r) (ty : Nat) (c : Ctx)
    (h : MapInvI T D m c.ctr) :
    MapInvI T D (m.setType ty c).1 (m.setType ty c).2.ctr ∧ (m.setType ty c).1.rootID = m.rootID ∧
    (m.setType ty c).1.addr = m.addr ∧ (m.setType ty c).2.ctr = c.ctr ∧
    (m.setType ty c).1.toList = m.toList ∧ (m.setType ty c).1.count = m.count ∧ (m.setType ty c).1.ty = ty ∧
    (m.setType ty c).1.seed = m.seed := by
  obtain ⟨h1, h2, h3⟩ := mapIdsOk_setType ty c h.2
  obtain ⟨g1, g2, g3, g4, g5⟩ := mapInv_setType h.1 ty c
  exact ⟨⟨g1, h1⟩, h2, rfl, h3, g2, g3, g4, g5⟩

/-- ANY request of a history (`E2EM.stepM`: set / remove / popIterate / setType; a REJECTED request —
    collision limit reached for a new key, key not found — leaves map and counter as they were):
    `MapInvI` w.r.t. the current counter is kept, and so are root identifier, owner address and the
    configuration match; the counter never decreases. -/
theorem mapIds_step (T : Nat) (hT : legalThreshold T = true) (D : DigestFn (r + 1)) (cfg : MCfg)
    (st : OMap r × Ctx) (hcfg : CfgOk cfg T st.1) (h : MapInvI T D st.1 st.2.ctr)
    (op : E2EM.MOp) (hop : op.Ok T D) :
    MapInvI T D (E2EM.stepM cfg st op).1 (E2EM.stepM cfg st op).2.ctr ∧
    (E2EM.stepM cfg st op).1.rootID = st.1.rootID ∧ (E2EM.stepM cfg st op).1.addr = st.1.addr ∧
    st.2.ctr ≤ (E2EM.stepM cfg st op).2.ctr ∧ CfgOk cfg T (E2EM.stepM cfg st op).1 ∧
    (E2EM.stepM cfg st op).1.seed = st.1.seed := by
  obtain ⟨m, c⟩ := st
  cases op with
  | set k v =>
    simp only [E2EM.stepM]
    cases hr : m.set cfg k v c with
    | error e => exact ⟨h, rfl, rfl, Nat.le_refl _, hcfg, rfl⟩
    | ok res =>
      obtain ⟨old, m', c'⟩ := res
      obtain ⟨a1, a2, a3, a4, a5, _, _, a8⟩ := mapIds_set T hT D cfg m hcfg k hop.1 v hop.2 c h old m' c' hr
      exact ⟨a1, a2, a3, a4, a5, a8⟩
  | remove k =>
    simp only [E2EM.stepM]
    cases hr : m.remove cfg k c with
    | error e => exact ⟨h, rfl, rfl, Nat.le_refl _, hcfg, rfl⟩
    | ok res =>
      obtain ⟨k0, v0, m', c'⟩ := res
      obtain ⟨a1, a2, a3, a4, a5, _, _, _, a9⟩ := mapIds_remove T hT D cfg m hcfg k hop c h k0 v0 m' c' hr
      exact ⟨a1, a2, a3, a4, a5, a9⟩
  | popIterate =>
    obtain ⟨a1, a2, a3, a4, _⟩ := mapIds_popIterate T hT D m c h
    exact ⟨a1, a2, a3, Nat.le_of_eq a4.symm, ⟨hcfg.1, hcfg.2.1, by rw [hcfg.2.2]; exact a3.symm⟩, rfl⟩
  | setType ty =>
    obtain ⟨a1, a2, a3, a4, _⟩ := mapIds_setType T D m ty c h
    exact ⟨a1, a2, a3, Nat.le_of_eq a4.symm, ⟨hcfg.1, hcfg.2.1, by rw [hcfg.2.2]; exact a3.symm⟩, rfl⟩

/-- What the identifier clause gives: the older separate predicates (`MIdsOk`: pairwise different,
    `E2EM.MAddrOk`: one owner address, `CtxOk`: at or below the counter), the hypothesis `leafIdsOk`
    of the read-only iterator, and no slab identifier is the undefined one — with NO hypothesis on
    the owner address. -/
theorem mapIdsOk_implies (m : OMap r) (c : Ctx) (h : MapIdsOk m c.ctr) :
    MIdsOk m ∧ E2EM.MAddrOk m ∧ CtxOk m c ∧ m.leafIdsOk = true ∧ (∀ id ∈ m.slabIds, id ≠ SlabID.undef) ∧
    m.rootID ∈ m.slabIds :=
  ⟨h.mIdsOk, h.mAddrOk, h.ctxOk, h.leafIdsOk, h.ne_undef, m.rootID_mem_slabIds⟩

/-! ## History level -/

/-- EVERY history of requests issued against a new map (any legal threshold `T`, ANY digest
    function, any number of digest levels, any owner address, any initial allocation counter;
    requests that are rejected included): after EVERY prefix of the history the map satisfies the
    structural invariant AND the identifier clause w.r.t. the current allocation counter, its root
    identifier is still the first identifier allocated by `NewMap`, and its seed is still the seed
    chosen at creation. -/
theorem map_history_wellformed (T : Nat) (hT : legalThreshold T = true) (D : DigestFn (r + 1)) (cfg : MCfg)
    (hcT : cfg.T = T) (hcL : cfg.L = r + 1) (ty : Nat) (seedOf : SlabID → Nat) (c0 : Ctx)
    (ops : List E2EM.MOp) (hok : ∀ op ∈ ops, op.Ok T D) (n : Nat) :
    MapInv T D (E2EM.runM cfg (OMap.new (r := r) cfg.addr ty seedOf c0) (ops.take n)).1 ∧
    MapIdsOk (E2EM.runM cfg (OMap.new (r := r) cfg.addr ty seedOf c0) (ops.take n)).1
      (E2EM.runM cfg (OMap.new (r := r) cfg.addr ty seedOf c0) (ops.take n)).2.ctr ∧
    (E2EM.runM cfg (OMap.new (r := r) cfg.addr ty seedOf c0) (ops.take n)).1.rootID = ⟨cfg.addr, c0.ctr + 1⟩ ∧
    c0.ctr + 1 ≤ (E2EM.runM cfg (OMap.new (r := r) cfg.addr ty seedOf c0) (ops.take n)).2.ctr ∧
    (E2EM.runM cfg (OMap.new (r := r) cfg.addr ty seedOf c0) (ops.take n)).1.seed = seedOf ⟨cfg.addr, c0.ctr + 1⟩ := by
  have key : ∀ (l : List E2EM.MOp) (st : OMap r × Ctx), (∀ op ∈ l, op.Ok T D) → CfgOk cfg T st.1 →
      MapInvI T D st.1 st.2.ctr →
      MapInvI T D (E2EM.runM cfg st l).1 (E2EM.runM cfg st l).2.ctr ∧
      (E2EM.runM cfg st l).1.rootID = st.1.rootID ∧ st.2.ctr ≤ (E2EM.runM cfg st l).2.ctr ∧
      (E2EM.runM cfg st l).1.seed = st.1.seed := by
    intro l
    induction l with
    | nil => intro st _ _ h; exact ⟨h, rfl, Nat.le_refl _, rfl⟩
    | cons op l ih =>
      intro st hl hcfg h
      obtain ⟨a1, a2, _, a4, a5, a6⟩ := mapIds_step T hT D cfg st hcfg h op (hl op (by simp))
      obtain ⟨b1, b2, b3, b4⟩ := ih (E2EM.stepM cfg st op) (fun o ho => hl o (by simp [ho])) a5 a1
      exact ⟨b1, b2.trans a2, Nat.le_trans a4 b3, b4.trans a6⟩
  obtain ⟨h1, h2, h3, h4, _⟩ := mapIds_new (r := r) T hT D cfg.addr ty seedOf c0
  obtain ⟨g1, g2, g3, g4⟩ := key (ops.take n) (OMap.new (r := r) cfg.addr ty seedOf c0)
    (fun o ho => hok o (List.mem_of_mem_take ho)) ⟨hcT, hcL, h3.symm⟩ h1
  exact ⟨g1.1, g1.2, g2.trans h2, by rw [← h4]; exact g3, g4⟩

/-- The same for the histories run against the storage state machine (`E2EM.newS` / `runS`, the
    setting of `E2EM.mgood_runS` and `E2EM.map_rep_history`): the map component of the run satisfies
    `MapInvI` w.r.t. the run's allocation counter and keeps the root identifier `⟨addr, 1⟩` — without
    the `cfg.addr ≠ 0` hypothesis those theorems need. -/
theorem mapIds_runS {β : Type} (c : Codec (E2EM.MSSlab r) β) (T : Nat) (hT : legalThreshold T = true)
    (D : DigestFn (r + 1)) (cfg : MCfg) (hcT : cfg.T = T) (hcL : cfg.L = r + 1) (ty : Nat) (seedOf : SlabID → Nat)
    (ops : List E2EM.MOp) (hok : ∀ op ∈ ops, op.Ok T D) :
    MapInvI T D (E2EM.runS c cfg (E2EM.newS c cfg.addr ty seedOf) ops).1.1
      (E2EM.runS c cfg (E2EM.newS c cfg.addr ty seedOf) ops).1.2.ctr ∧
    (E2EM.runS c cfg (E2EM.newS c cfg.addr ty seedOf) ops).1.1.rootID = ⟨cfg.addr, 1⟩ := by
  rw [E2EM.runS_fst]
  have h := map_history_wellformed T hT D cfg hcT hcL ty seedOf ⟨0, [], []⟩ ops hok ops.length
  rw [List.take_length] at h
  exact ⟨⟨h.1, h.2.1⟩, h.2.2.1⟩

/-! ## The remaining members of the C05 map family (audit a1, F6) -/

/-- `SetType` keeps `MapInv` and the counter hypothesis; root identifier, entries and count unchanged. -/
theorem map_inv_setType (T : Nat) (D : DigestFn (r + 1)) (m : OMap r) (h : MapInv T D m) (ty : Nat) (c : Ctx)
    (hc : CtxOk m c) :
    MapInv T D (m.setType ty c).1 ∧ CtxOk (m.setType ty c).1 (m.setType ty c).2 ∧
    (m.setType ty c).1.rootID = m.rootID ∧ (m.setType ty c).1.toList = m.toList ∧
    (m.setType ty c).1.count = m.count ∧ (m.setType ty c).1.ty = ty := by
  obtain ⟨g1, g2, g3, g4, _⟩ := mapInv_setType h ty c
  have hctr : (m.setType ty c).2.ctr = c.ctr := by unfold OMap.setType; split <;> rfl
  refine ⟨g1, ?_, rfl, g2, g3, g4⟩
  intro id hid ha
  rw [hctr]
  exact hc id hid ha

/-- `map_inv_new` with everything the construction establishes: counter hypothesis, root
    identifier = the identifier just allocated, no entries. -/
theorem map_inv_new_full (T : Nat) (hT : legalThreshold T = true) (D : DigestFn (r + 1)) (addr ty : Nat)
    (seedOf : SlabID → Nat) (c : Ctx) :
    MapInv T D (OMap.new (r := r) addr ty seedOf c).1 ∧
    CtxOk (OMap.new (r := r) addr ty seedOf c).1 (OMap.new (r := r) addr ty seedOf c).2 ∧
    (OMap.new (r := r) addr ty seedOf c).1.rootID = ⟨addr, c.ctr + 1⟩ ∧
    (OMap.new (r := r) addr ty seedOf c).1.toList = [] ∧ (OMap.new (r := r) addr ty seedOf c).1.count = 0 := by
  obtain ⟨h1, h2, _⟩ := mapIds_new (r := r) T hT D addr ty seedOf c
  exact ⟨h1.1, h1.2.ctxOk, h2, rfl, rfl⟩

/-- `map_inv_set` with root identifier and count relation (same hypotheses as `map_inv_set`). -/
theorem map_inv_set_full (T : Nat) (hT : legalThreshold T = true) (D : DigestFn (r + 1)) (cfg : MCfg) (m : OMap r)
    (hcfg : CfgOk cfg T m) (h : MapInv T D m) (k : MKey) (hk : KeyOk T (r + 1) D k)
    (v : Elem) (hv : ValueOkM v) (c : Ctx) (hc : CtxOk m c)
    (old : Option Elem) (m' : OMap r) (c' : Ctx) (hr : m.set cfg k v c = .ok (old, m', c')) :
    MapInv T D m' ∧ CtxOk m' c' ∧ m'.rootID = m.rootID ∧ CfgOk cfg T m' ∧
    m'.count = (if old.isSome then m.count else m.count + 1) ∧ m'.ty = m.ty ∧ m'.seed = m.seed := by
  rcases C02.set_refines T hT D cfg m hcfg h k hk v hv c hc with
    ⟨old2, m2, c2, heq, hold, _, hcnt, hinv, hctx, hrid, hty, hseed⟩ | ⟨herr, _⟩
  · rw [heq] at hr
    cases hr
    refine ⟨hinv, hctx, hrid, ⟨hcfg.1, hcfg.2.1, by rw [hcfg.2.2]; unfold OMap.addr; rw [hrid]⟩, ?_, hty, hseed⟩
    rw [hcnt, hold]
  · rw [herr] at hr; cases hr

/-- `map_inv_remove` with root identifier and count relation (same hypotheses as `map_inv_remove`). -/
theorem map_inv_remove_full (T : Nat) (hT : legalThreshold T = true) (D : DigestFn (r + 1)) (cfg : MCfg) (m : OMap r)
    (hcfg : CfgOk cfg T m) (h : MapInv T D m) (k : MKey) (hk : KeyOk T (r + 1) D k) (c : Ctx) (hc : CtxOk m c)
    (k0 : MKey) (v : Elem) (m' : OMap r) (c' : Ctx) (hr : m.remove cfg k c = .ok (k0, v, m', c')) :
    MapInv T D m' ∧ CtxOk m' c' ∧ m'.rootID = m.rootID ∧ CfgOk cfg T m' ∧ m'.count = m.count - 1 ∧
    m'.ty = m.ty ∧ m'.seed = m.seed := by
  have hs := C02.remove_refines T hT D cfg m hcfg h k hk c hc
  cases hd : dictLookup m.toList k with
  | none =>
    rw [hd] at hs
    rw [hs] at hr
    cases hr
  | some w =>
    rw [hd] at hs
    obtain ⟨k1, m1, c1, heq, _, _, hcnt, hinv, hctx, hrid, hty, hseed⟩ := hs
    rw [heq] at hr
    cases hr
    exact ⟨hinv, hctx, hrid, ⟨hcfg.1, hcfg.2.1, by rw [hcfg.2.2]; unfold OMap.addr; rw [hrid]⟩, (by omega), hty, hseed⟩

/-- `map_inv_popIterate` with the counter hypothesis, the root identifier, and emptiness. -/
theorem map_inv_popIterate_full (T : Nat) (hT : legalThreshold T = true) (D : DigestFn (r + 1)) (m : OMap r)
    (h : MapInv T D m) (c : Ctx) (hc : CtxOk m c) :
    MapInv T D (m.popIterate c).2.1 ∧ CtxOk (m.popIterate c).2.1 (m.popIterate c).2.2 ∧
    (m.popIterate c).2.1.rootID = m.rootID ∧ (m.popIterate c).2.1.slabIds = [m.rootID] ∧
    (m.popIterate c).2.1.toList = [] ∧ (m.popIterate c).2.1.count = 0 := by
  obtain ⟨_, htl, hcnt, hinv, hrid⟩ := C02.pop_refines T hT D m h c hc
  refine ⟨hinv, ?_, hrid, slabIds_pop m c, htl, hcnt⟩
  intro id hid ha
  have hid' : id ∈ (m.popIterate c).2.1.slabIds := hid
  rw [slabIds_pop, List.mem_singleton] at hid'
  subst hid'
  rw [(E2EM.omap_popKeep m c).1]
  exact hc _ m.rootID_mem_slabIds (by rw [ha]; unfold OMap.addr; rw [hrid])

/-- Two maximal first-level entries (digest + element at the per-element inline limit) always fit
    into one data slab of the target size. -/
theorem map_two_max_elems_fit (T : Nat) (hT : legalThreshold T = true) :
    mapDataSlabPrefixSize + hkeyElementsPrefixSize + 2 * (digestSize + maxInlineMapElem T) ≤ T := by
  have := map_legal_bounds hT
  rw [maxInlineMapElem_eq]
  simp only [mapDataSlabPrefixSize, hkeyElementsPrefixSize, digestSize]
  omega

/-- A data slab whose size reaches the target size holds at least two first-level elements (so a
    full slab can always be split into two non-empty halves). -/
theorem map_full_slab_has_two_elems (T : Nat) (hT : legalThreshold T = true) (D : DigestFn (r + 1)) (top : Bool)
    (s : MDataSlab r) (h : MDataInv T D top s) (hfull : T ≤ s.hdr.size) : 2 ≤ s.elems.elems.length := by
  have hb := map_legal_bounds hT
  have hsz : s.elems.size = hkeyElementsPrefixSize + HkeyElems.elemSizes (MElems.ops r) s.elems.elems :=
    h.loose.hinv.2.2.2.2.1
  have hpre : s.prefixSize ≤ mapDataSlabPrefixSize := by
    unfold MDataSlab.prefixSize
    split
    · simp [inlinedMapDataSlabPrefixSize, mapDataSlabPrefixSize]
    · split
      · simp [mapRootDataSlabPrefixSize, mapDataSlabPrefixSize]
      · exact Nat.le_refl _
  have hsize := h.size_eq
  have hel := h.elem_le
  have hme := maxInlineMapElem_eq T
  simp only [mapDataSlabPrefixSize, hkeyElementsPrefixSize] at hpre hsz
  rcases hl : s.elems.elems with _ | ⟨e1, _ | ⟨e2, rest⟩⟩
  · rw [hl] at hsz
    simp only [HkeyElems.elemSizes, List.map_nil, List.sum_nil] at hsz
    omega
  · rw [hl] at hsz hel
    have h1 := hel e1 (by simp)
    simp only [HkeyElems.elemSizes, List.map_cons, List.map_nil, List.sum_cons, List.sum_nil, digestSize] at hsz
    omega
  · simp

/-- Index data agrees with the data it summarises (maps): the traversal along the sibling links,
    the traversal by successive lookups from the root, the count, and `Get` by key of every pair of
    the enumeration all agree. -/
theorem map_access_agree (T : Nat) (hT : legalThreshold T = true) (D : DigestFn (r + 1)) (cfg : MCfg) (m : OMap r)
    (hcfg : CfgOk cfg T m) (ctr : Nat) (h : MapInvI T D m ctr) :
    m.iterReadOnly = .ok m.toList ∧ m.iterMutable cfg = .ok m.toList ∧ m.count = m.toList.length ∧
    (∀ p ∈ m.toList, m.get cfg p.1 = .ok (p.1, p.2) ∧ m.has cfg p.1 = .ok true) := by
  refine ⟨IterM.iterReadOnly_eq hT m hcfg h.1 h.2.leafIdsOk, IterM.iterMutable_eq hT m hcfg h.1, h.1.count_eq, ?_⟩
  intro p hp
  have hk : KeyOk T (r + 1) D p.1 := h.1.allKeyOk p hp
  have hl : dictLookup m.toList p.1 = some p.2 := dictLookup_some_of_mem h.1.distinct hp
  have hg := OMap.get_spec hT hcfg h.1 hk
  rw [hl] at hg
  refine ⟨hg, ?_⟩
  have := C02.has_refines T hT D cfg m hcfg h.1 p.1 hk
  rw [hl] at this
  exact this

/-! ## Non-vacuity, and the audit's counterexample states are excluded -/
section NonVacuity
open MapExample E2EM

/-- the multi-slab example map of C02 (index-slab root `7.1` over the data slabs `7.3`, `7.4`; one
    external collision group `7.2` inside the first; allocation counter 4) satisfies `MapInvI` -/
example : run.1.slabIds = [⟨7, 1⟩, ⟨7, 3⟩, ⟨7, 2⟩, ⟨7, 4⟩] := by decide
example : run.2.ctr = 4 := by decide
theorem run_invI : MapInvI 256 D2 run.1 run.2.ctr := ⟨run_good.inv, by decide⟩
example := mapIds_set 256 legal256 D2 cfg2 run.1 run_good.cfgok (key 122) (key_ok _) (val 0) (val_ok _) run.2 run_invI
example := mapIds_popIterate 256 legal256 D2 run.1 run.2 run_invI
example := mapIdsOk_implies run.1 run.2 run_invI.2
example := map_access_agree 256 legal256 D2 cfg2 run.1 run_good.cfgok _ run_invI
example := map_inv_setType 256 D2 run.1 run_good.inv 9 run.2 run_good.ctx
/-- both data slabs of `run.1` have reached the target size 256 (265 bytes each): the hypotheses of
    `map_full_slab_has_two_elems` hold for them -/
theorem run_leaves_full : ∀ s ∈ MTree.leaves run.1.d run.1.root, 256 ≤ s.hdr.size := by decide
example (s : MDataSlab 1) (hs : s ∈ MTree.leaves run.1.d run.1.root) : 2 ≤ s.elems.elems.length := by
  obtain ⟨top', h⟩ := IterM.leaf_inv run.1.d true run.1.root run_good.inv.tree s
    (by rw [IterM.dataSlabs_eq_leaves]; exact hs)
  exact map_full_slab_has_two_elems 256 legal256 D2 top' s h (run_leaves_full s hs)
example := map_inv_popIterate_full 256 legal256 D2 run.1 run_good.inv run.2 run_good.ctx

/-- a history with 25 requests: the 20 of `MapExample.run`, then a `remove` of an absent key
    (REJECTED: key not found), a `set` of a fifth fully colliding key (REJECTED: collision limit),
    `setType`, `popIterate`, and a `set` into the emptied map -/
def hist : List MOp :=
  [.set (key 211) (val 1), .set (key 111) (val 2), .set (key 112) (val 3), .set (key 121) (val 4),
   .set (key 311) (val 5), .set (key 312) (val 6), .set (key 313) (val 7), .set (key 314) (val 8),
   .set (key 321) (val 9), .set (key 411) (val 10), .set (key 511) (val 11), .set (key 611) (val 12),
   .remove (key 411), .set (key 711) (val 13), .set (key 811) (val 14), .set (key 911) (val 15),
   .set (key 11) (val 16), .set (key 521) (val 17), .set (key 621) (val 18), .set (key 221) (val 19),
   .remove (key 999), .set (key 315) (val 20), .setType 5, .popIterate, .set (key 1) (val 1)]

theorem hist_ok : ∀ op ∈ hist, op.Ok 256 D2 := by
  intro op hop
  simp only [hist, List.mem_cons, List.not_mem_nil, or_false] at hop
  rcases hop with h | h | h | h | h | h | h | h | h | h | h | h | h | h | h | h | h | h | h | h | h | h | h | h | h <;>
    subst h <;> first | exact ⟨key_ok _, val_ok _⟩ | exact key_ok _ | trivial

def stN (n : Nat) : OMap 1 × Ctx :=
  runM cfg2 (OMap.new (r := 1) cfg2.addr 0 (fun id => id.idx) ⟨0, [], []⟩) (hist.take n)

/-- the history theorem applies to every prefix … -/
example (n : Nat) := map_history_wellformed 256 legal256 D2 cfg2 rfl rfl 0 (fun id => id.idx) ⟨0, [], []⟩ hist hist_ok n
/-- … whose states are non-trivial: four slabs after 20 requests, -/
example : (stN 20).1.slabIds = [⟨7, 1⟩, ⟨7, 3⟩, ⟨7, 2⟩, ⟨7, 4⟩] ∧ (stN 20).2.ctr = 4 ∧ (stN 20).1.count = 18 := by decide
/-- requests 21 and 22 are rejected by the model and change nothing, -/
example : (match (stN 20).1.remove cfg2 (key 999) (stN 20).2 with | .ok _ => true | .error _ => false) = false := by decide
example : (match (stN 21).1.set cfg2 (key 315) (val 20) (stN 21).2 with | .ok _ => true | .error _ => false) = false := by decide
example : (stN 22).1.slabIds = (stN 20).1.slabIds ∧ (stN 22).2.ctr = 4 ∧ (stN 22).1.count = 18 := by decide
/-- and the bulk pop leaves the root alone, under the old identifier and the old counter. -/
example : (stN 24).1.slabIds = [⟨7, 1⟩] ∧ (stN 24).2.ctr = 4 ∧ (stN 24).1.count = 0 := by decide
example : (stN 25).1.count = 1 := by decide

/-! ### audit a1, F3 (`c13map/Dup.lean`): both data slabs of `run.1` relabelled `7.2` (the identifier of
    the external collision group of the first one), the `next`
    links and the parent's header table adjusted so that `MLeafChain` and `childHdrs = children.map
    hdr` still hold.  `MapInv` does not look at identifiers, `leafIdsOk` is false, the read-only
    iterator does not return `toList`.  The state violates `MapIdsOk` for EVERY counter. -/
def relabelLeaves (x : SlabID) : List (MDataSlab 1) → List (MDataSlab 1)
  | [] => []
  | [s] => [{ s with hdr := { s.hdr with id := x }, next := SlabID.undef }]
  | s :: t :: rest => { s with hdr := { s.hdr with id := x }, next := x } :: relabelLeaves x (t :: rest)

def dup : OMap 1 :=
  match run.1 with
  | ⟨1, (m : MMetaSlab (MDataSlab 1)), ty, cnt, seed⟩ =>
    let kids := relabelLeaves ⟨7, 2⟩ m.children
    ⟨1, ({ m with children := kids, childHdrs := kids.map (·.hdr) } : MMetaSlab (MDataSlab 1)), ty, cnt, seed⟩
  | o => o

example : dup.slabIds = [⟨7, 1⟩, ⟨7, 2⟩, ⟨7, 2⟩, ⟨7, 2⟩] := by decide
example : dup.leafIdsOk = false := by decide
example : dup.toList = run.1.toList := by decide
/-- the read-only iterator returns the first leaf three times (it stops on fuel; Go would not stop) -/
example : (match dup.iterReadOnly with | .ok l => l.map (fun (p : MKey × Elem) => p.1.pay) | .error _ => [])
    = [11, 111, 112, 121, 211, 221, 311, 312, 313, 314, 321, 11, 111, 112, 121, 211, 221, 311, 312, 313, 314, 321,
       11, 111, 112, 121, 211, 221, 311, 312, 313, 314, 321] := by decide
example : dup.toList.map (fun (p : MKey × Elem) => p.1.pay)
    = [11, 111, 112, 121, 211, 221, 311, 312, 313, 314, 321, 511, 521, 611, 621, 711, 811, 911] := by decide
theorem dup_excluded (ctr : Nat) : ¬ MapIdsOk dup ctr := fun h => absurd h.1 (by decide)

/-! ### audit a1, F6 (`c05map/addr.lean`): the fourth fully colliding key inserted into `C09Map.s7`
    with a configuration whose owner address is 9 (the configuration of the request disagrees
    with the map: `CfgOk` violated): the exported collision group becomes slab `9.2` under the root
    `7.1`.  `MIdsOk` holds (the identifiers are distinct), `MapIdsOk` does not, for EVERY counter. -/
def cfg9 : MCfg := { cfg2 with addr := 9 }
def x8 : OMap 1 := (stepSet cfg9 C09Map.s7 (key 314) (val 8)).1

example : x8.slabIds = [⟨7, 1⟩, ⟨9, 2⟩] := by decide
example : MIdsOk x8 := by decide
theorem x8_excluded (ctr : Nat) : ¬ MapIdsOk x8 ctr := fun h => absurd (h.2 ⟨9, 2⟩ (by decide)).1 (by decide)

end NonVacuity

end Atree.C05

namespace Atree.C09Map
open Atree Gen

variable {r : Nat}

/-- (maps) Inside a valid tree no slab is owned twice, every slab — data slab, index slab, external
    collision group — is owned by the map's address, the stored slabs are exactly the listed
    identifiers, none is the undefined identifier, and all are at or below the allocation counter. -/
theorem tree_ownership (T : Nat) (D : DigestFn (r + 1)) (m : OMap r) (ctr : Nat) (h : MapInvI T D m ctr) :
    m.slabIds.Nodup ∧
    (∀ id ∈ m.slabIds, id.addr = m.addr) ∧
    (AList.keys (MTree.slabs m.d m.root) = m.slabIds) ∧
    (∀ id ∈ m.slabIds, id ≠ SlabID.undef ∧ 1 ≤ id.idx ∧ id.idx ≤ ctr) ∧
    m.rootID ∈ m.slabIds :=
  ⟨h.2.1, fun id hid => (h.2.2 id hid).1, (OMap.slabIds_eq_keys m).symm,
    fun id hid => ⟨h.2.ne_undef id hid, (h.2.2 id hid).2⟩, m.rootID_mem_slabIds⟩

example := tree_ownership 256 MapExample.D2 MapExample.run.1 _ C05.run_invI

/-! ### the C09 map theorems from the ONE preserved invariant `MapInvI` (as the array theorems of
    `Props/C09.lean` are stated from `ArrInv`): the hypotheses `MIdsOk` and `CtxOk` of
    `set_effects_complete`, `remove_effects_complete`, `pop_releases_all`, `allocated_ids_fresh` are
    discharged, and the invariant is returned for the result. -/

theorem set_effects_complete_I (T : Nat) (hT : legalThreshold T = true) (D : DigestFn (r + 1)) (cfg : MCfg)
    (m : OMap r) (hcfg : CfgOk cfg T m) (k : MKey) (hk : KeyOk T (r + 1) D k) (v : Elem) (hv : ValueOkM v)
    (c : Ctx) (h : MapInvI T D m c.ctr)
    (old : Option Elem) (m' : OMap r) (c' : Ctx) (hr : m.set cfg k v c = .ok (old, m', c')) :
    c'.eff = c.eff ++ newEffects c c' ∧ MEffectsComplete m m' (newEffects c c') (newCreated c c') ∧
    (∀ addr id, Eff.alloc addr id ∈ newEffects c c' → id ∉ m.slabIds ∧ c.ctr < id.idx ∧ id.idx ≤ c'.ctr) ∧
    MapInvI T D m' c'.ctr ∧ m'.rootID = m.rootID := by
  obtain ⟨h1, h2⟩ := set_effects_complete T hT D cfg m hcfg h.1 h.2.mIdsOk k hk v hv c h.2.ctxOk old m' c' hr
  have h3 := allocated_ids_fresh T hT D cfg m hcfg h.1 k hk v hv c h.2.ctxOk old m' c' hr
  obtain ⟨h4, h5, _⟩ := C05.mapIds_set T hT D cfg m hcfg k hk v hv c h old m' c' hr
  refine ⟨h1, h2, ?_, h4, h5⟩
  intro addr id hmem
  obtain ⟨a1, a2, a3⟩ := h3 addr id hmem
  exact ⟨by rw [OMap.slabIds_eq_keys]; exact a1, a2, a3⟩

theorem remove_effects_complete_I (T : Nat) (hT : legalThreshold T = true) (D : DigestFn (r + 1)) (cfg : MCfg)
    (m : OMap r) (hcfg : CfgOk cfg T m) (k : MKey) (hk : KeyOk T (r + 1) D k) (c : Ctx) (h : MapInvI T D m c.ctr)
    (k0 : MKey) (v0 : Elem) (m' : OMap r) (c' : Ctx) (hr : m.remove cfg k c = .ok (k0, v0, m', c')) :
    c'.eff = c.eff ++ newEffects c c' ∧ MEffectsComplete m m' (newEffects c c') (newCreated c c') ∧
    MapInvI T D m' c'.ctr ∧ m'.rootID = m.rootID := by
  obtain ⟨h1, h2⟩ := remove_effects_complete T hT D cfg m hcfg h.1 h.2.mIdsOk k hk c h.2.ctxOk k0 v0 m' c' hr
  obtain ⟨h4, h5, _⟩ := C05.mapIds_remove T hT D cfg m hcfg k hk c h k0 v0 m' c' hr
  exact ⟨h1, h2, h4, h5⟩

theorem pop_releases_all_I (T : Nat) (hT : legalThreshold T = true) (D : DigestFn (r + 1)) (m : OMap r) (c : Ctx)
    (h : MapInvI T D m c.ctr) :
    MEffectsComplete m (m.popIterate c).2.1 (newEffects c (m.popIterate c).2.2) [] ∧
    (m.popIterate c).2.1.slabIds = [m.rootID] ∧
    (∀ id ∈ m.slabIds, id ≠ m.rootID → lastAction (newEffects c (m.popIterate c).2.2) id = some false) ∧
    MapInvI T D (m.popIterate c).2.1 (m.popIterate c).2.2.ctr ∧ (m.popIterate c).2.2.ctr = c.ctr := by
  obtain ⟨h1, _, h3⟩ := pop_releases_all T hT D m h.1 c h.2.ctxOk
  obtain ⟨g1, _, _, g4, g5, _⟩ := C05.mapIds_popIterate T hT D m c h
  refine ⟨h1, g5, ?_, g1, g4⟩
  intro id hid hne
  exact h3 id (by rw [OMap.slabIds_eq_keys] at hid; exact hid) hne

example := set_effects_complete_I 256 MapExample.legal256 MapExample.D2 MapExample.cfg2 MapExample.run.1
  MapExample.run_good.cfgok (MapExample.key 122) (MapExample.key_ok _) (MapExample.val 0) (MapExample.val_ok _)
  MapExample.run.2 C05.run_invI
example := pop_releases_all_I 256 MapExample.legal256 MapExample.D2 MapExample.run.1 MapExample.run.2 C05.run_invI

end Atree.C09Map
