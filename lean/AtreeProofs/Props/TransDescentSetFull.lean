import AtreeProofs.Props.TransDescentSet
import AtreeProofs.Props.TransDescentSplit
import AtreeProofs.Props.TransDescentMor
import AtreeProofs.Props.TransDescentInsertFull
/-
  TRANSLATION EQUIVALENCE, the DESCENT (WP12), part 3c: the tail hypotheses of the SET descent
  (`SplitTailHyp T d`, `MorTailHyp T d` of Props/TransDescentSet.lean) DISCHARGED, and the hypothesis-free final
  theorems.

  1. `splitTailHyp_all`: from `SetTailPre` + "the updated child is full" the preconditions of `Sl_SplitChildSlab_heap`
     (`ins_splitAgreesH_of_shape`, the bookkeeping of `Book`), and `ins_split_heapPost` for the heap after the three
     stores (as `insSplitTail_all` of Props/TransDescentInsertFull.lean).
  2. the merge-or-rebalance tail:
     * `heapPost_local`: `HeapPost` for a parent whose children `P ++ X ++ Q` become `P ++ X' ++ Q` (the new ones are
       held, their identifiers are among the old ones, the rest of the heap is untouched, the dropped ones are gone);
       `rebal_heapPost` (two slabs and the parent stored, identifiers kept, descendants re-distributed but untouched),
       `merge_heapPost` (merged slab and parent stored, right slab removed = `gone`);
     * `lend_below` / `borrow_below` / `merge_below`, `rebalOp_ids`, `merge_ids`: the descendants of the results are
       descendants of the two slabs (still held), identifiers;
     * `mor_heap_cases`: which cell of the decision table was taken, for the model result AND for `morHeap`;
       `mor_heapPost`: `HeapPost s1.heap (morHeap ..).heap (ofMeta m1) (ofMeta m2)`;
     * `mor_child_facts`, `dataWork_of_shape`, `dataWork_of_treeInv`, `meta_child_facts`, `metaSibOK_of`: the
       preconditions of `Sl_MergeOrRebalanceChildSlab_data_heap` / `_meta_heap` from `SetTailPre` (siblings read from
       the heap: `HoldsChildren` + `Book`);
     * `morTailHyp_all`.
  3. `Sl_ArraySlab_Set_heap_full`, `Sl_ArrayMetaDataSlab_Set_heap_full`: no hypothesis about the tails (`FreshFree`
     stays).
  4. non-vacuity: a `Set` whose child splits, a `Set` whose child merges with its sibling.
  Core Lean only.
-/
set_option linter.unusedVariables false
namespace Atree.TransEq
open Atree Atree.Gen

/-! ## 1. the split tail -/

section splitTail
open MetaSlab ATree

/-- **the split tail of the Set descent holds at every depth** -/
theorem splitTailHyp_all (T : Nat) (hT : legalThreshold T = true) : ∀ d, SplitTailHyp T d := by
  intro d addr m1 A B child' s1 hpre hfull
  have hch := hpre.kids
  obtain ⟨l, r, c1, hsplit, hc1, hl, hr, hflat, hid, hcnt, hrepl⟩ :=
    split_ok hT d child' s1.ctx hpre.shape hfull (by have := hpre.size_hi; omega)
  obtain ⟨m2, c2, heq, _, hbook', hch2, hid2, _, _, _⟩ :=
    splitChildSlab_spec m1 A B child' l r A.length s1.ctx c1 hpre.book hch rfl hsplit hcnt
  rw [heq]
  obtain ⟨_, hlid, hrid, _⟩ := split_struct d child' s1.ctx l r c1 hsplit
  obtain ⟨hsubids, hbelow⟩ := ins_split_heap_facts d child' s1.ctx l r c1 hsplit
  have hh : m1.childHdrs = A.map (hdr d) ++ hdr d child' :: B.map (hdr d) := by
    rw [hpre.book.hdrs_eq, hch]; simp
  have hcs : m1.countSum = prefixSums (A.map (hdr d)) 0 ++
      (sumCounts (A.map (hdr d)) + (hdr d child').count) ::
        prefixSums (B.map (hdr d)) (sumCounts (A.map (hdr d)) + (hdr d child').count) := by
    rw [hpre.book.sums_eq, hh, prefixSums_mid]
  have hkc : (prefixSums (A.map (hdr d)) 0).length = A.length := by simp [MetaSlab.prefixSums_length]
  have hk' : A.length < m1.childHdrs.length := by rw [hh]; simp
  have hk0 : A.length < m1.countSum.length := by rw [hpre.book.sums_eq, MetaSlab.prefixSums_length]; exact hk'
  have hbase : (hdr d child').count ≤ m1.countSum.getD A.length 0 := by
    rw [hcs, getD_mid hkc]; omega
  have hg := Sl_SplitChildSlab_heap T m1 child' A.length s1
    (ins_splitAgreesH_of_shape T hT d child' s1 hpre.shape hpre.size_hi) hk0 hk' hbase
  rw [hsplit, heq] at hg
  refine ⟨_, _, hg, Sl_SplitChildSlab_heap_ctx m1 child' A.length s1 l r c1 m2 c2 hsplit heq _ _ _, ?_⟩
  refine (ins_split_heapPost hch hch2 hid2 hpre.ids hlid (by rw [hrid]; exact Nat.lt_succ_self _) hsubids
    (hbelow s1.heap) hpre.holds ?_).1
  intro id
  simp only [HSt.store_heap, HSt.withCtx_heap]

end splitTail

/-! ## 2. the merge-or-rebalance tail -/

section morTail
open MetaSlab ATree
variable {d : Nat}

theorem heapPost_local {m1 m2 : MetaSlab (ATree d)} {P X X' Q : List (ATree d)} {h1 h2 : SlabID → Option GSlab}
    (hch : m1.children = P ++ X ++ Q) (hch2 : m2.children = P ++ X' ++ Q) (hid2 : m2.hdr.id = m1.hdr.id)
    (hnd : (slabIds (d + 1) (ofMeta m1)).Nodup)
    (hh : HoldsChildren h1 m1)
    (hroot : h2 m1.hdr.id = some (.metaSlab (trMeta m2)))
    (hX' : ∀ c ∈ X', Holds h2 d c)
    (hsub : ∀ id ∈ X'.flatMap (slabIds d), id ∈ X.flatMap (slabIds d))
    (hkeep : ∀ id, id ≠ m1.hdr.id → id ∉ X.flatMap (slabIds d) → h2 id = h1 id)
    (hgone : ∀ id ∈ X.flatMap (slabIds d), id ∉ X'.flatMap (slabIds d) → h2 id = none) :
    HeapPost h1 h2 (ofMeta m1) (ofMeta m2) := by
  have e1 : ∀ id, id ∈ slabIds (d + 1) (ofMeta m1) ↔ id = m1.hdr.id ∨ id ∈ P.flatMap (slabIds d) ∨
      id ∈ X.flatMap (slabIds d) ∨ id ∈ Q.flatMap (slabIds d) := by
    intro id; rw [slabIds_succ, hch]; simp [List.flatMap_append]
  have e2 : ∀ id, id ∈ slabIds (d + 1) (ofMeta m2) ↔ id = m1.hdr.id ∨ id ∈ P.flatMap (slabIds d) ∨
      id ∈ X'.flatMap (slabIds d) ∨ id ∈ Q.flatMap (slabIds d) := by
    intro id; rw [slabIds_succ, hch2, hid2]; simp [List.flatMap_append]
  rw [slabIds_succ, hch] at hnd
  simp only [List.flatMap_append] at hnd
  obtain ⟨hr, hnd⟩ := List.nodup_cons.1 hnd
  simp only [List.mem_append, not_or] at hr
  obtain ⟨hPX, _, hPXQ⟩ := List.nodup_append.1 hnd
  obtain ⟨_, _, hPXd⟩ := List.nodup_append.1 hPX
  have sib : ∀ c, (c ∈ P ∨ c ∈ Q) → Holds h2 d c := by
    intro c hc
    have hmem : c ∈ m1.children := by
      rw [hch]; simp only [List.mem_append]
      rcases hc with h | h
      · exact Or.inl (Or.inl h)
      · exact Or.inr h
    refine (hh c hmem).congr (fun id hid => hkeep id ?_ ?_)
    · rintro rfl
      rcases hc with h | h
      · exact hr.1.1 (List.mem_flatMap.2 ⟨c, h, hid⟩)
      · exact hr.2 (List.mem_flatMap.2 ⟨c, h, hid⟩)
    · intro hx
      rcases hc with h | h
      · exact hPXd id (List.mem_flatMap.2 ⟨c, h, hid⟩) id hx rfl
      · exact hPXQ id (List.mem_append_right _ hx) id (List.mem_flatMap.2 ⟨c, h, hid⟩) rfl
  have hroot' : h2 m2.hdr.id = some (.metaSlab (trMeta m2)) := by rw [hid2]; exact hroot
  have hkids2 : ∀ c ∈ m2.children, Holds h2 d c := by
    intro c hc
    rw [hch2] at hc
    simp only [List.mem_append] at hc
    rcases hc with (hc | hc) | hc
    · exact sib c (Or.inl hc)
    · exact hX' c hc
    · exact sib c (Or.inr hc)
  refine ⟨⟨hroot', hkids2⟩, ?_, ?_⟩
  · intro id hin hnot
    rw [e1] at hin; rw [e2] at hnot
    simp only [not_or] at hnot
    rcases hin with h | h | h | h
    · exact absurd h hnot.1
    · exact absurd h hnot.2.1
    · exact hgone id h hnot.2.2.1
    · exact absurd h hnot.2.2.2
  · intro id hn1 _
    rw [e1] at hn1
    simp only [not_or] at hn1
    exact hkeep id hn1.1 hn1.2.2.1

theorem nodup_pair_facts {rt : SlabID} {P Q : List (ATree d)} {l r : ATree d}
    (hnd : (rt :: (P ++ l :: r :: Q).flatMap (slabIds d)).Nodup) :
    ((hdr d l).id :: (subIds d l ++ (hdr d r).id :: subIds d r)).Nodup ∧
    rt ∉ ((hdr d l).id :: (subIds d l ++ (hdr d r).id :: subIds d r)) := by
  obtain ⟨hr, hnd⟩ := List.nodup_cons.1 hnd
  simp only [List.flatMap_append, List.flatMap_cons, slabIds_eq d l, slabIds_eq d r] at hr hnd
  obtain ⟨_, hnd, _⟩ := List.nodup_append.1 hnd
  have e : (hdr d l).id :: subIds d l ++ ((hdr d r).id :: subIds d r ++ List.flatMap (slabIds d) Q) =
      ((hdr d l).id :: (subIds d l ++ (hdr d r).id :: subIds d r)) ++ List.flatMap (slabIds d) Q := by simp
  rw [e] at hnd hr
  obtain ⟨hnd, _, _⟩ := List.nodup_append.1 hnd
  refine ⟨hnd, fun h => hr ?_⟩
  exact List.mem_append_right _ (List.mem_append_left _ h)

theorem rebal_heapPost {m1 m2 : MetaSlab (ATree d)} {P Q : List (ATree d)} {l r l' r' : ATree d}
    {h1 h2 : SlabID → Option GSlab}
    (hch : m1.children = P ++ l :: r :: Q) (hch2 : m2.children = P ++ l' :: r' :: Q) (hid2 : m2.hdr.id = m1.hdr.id)
    (hnd : (slabIds (d + 1) (ofMeta m1)).Nodup)
    (hlid : (hdr d l').id = (hdr d l).id) (hrid : (hdr d r').id = (hdr d r).id)
    (hsub : subIds d l' ++ subIds d r' = subIds d l ++ subIds d r)
    (hbl : InsHoldsBelow h1 d l → InsHoldsBelow h1 d r → InsHoldsBelow h1 d l' ∧ InsHoldsBelow h1 d r')
    (hh : HoldsChildren h1 m1)
    (hheap : ∀ id, h2 id = if id = m1.hdr.id then some (.metaSlab (trMeta m2))
      else if id = (hdr d r').id then some (trTree d r')
      else if id = (hdr d l').id then some (trTree d l') else h1 id) :
    HeapPost h1 h2 (ofMeta m1) (ofMeta m2) := by
  have hnd0 := hnd
  rw [slabIds_succ, hch] at hnd0
  obtain ⟨hndX, hrt⟩ := nodup_pair_facts hnd0
  have hsubm : ∀ id, (id ∈ subIds d l' ∨ id ∈ subIds d r') ↔ (id ∈ subIds d l ∨ id ∈ subIds d r) := by
    intro id; rw [← List.mem_append, ← List.mem_append, hsub]
  have memX : ∀ id, id ∈ [l, r].flatMap (slabIds d) ↔
      id = (hdr d l).id ∨ id ∈ subIds d l ∨ id = (hdr d r).id ∨ id ∈ subIds d r := by
    intro id; simp [slabIds_eq d l, slabIds_eq d r]
  have memX' : ∀ id, id ∈ [l', r'].flatMap (slabIds d) ↔
      id = (hdr d l).id ∨ id ∈ subIds d l' ∨ id = (hdr d r).id ∨ id ∈ subIds d r' := by
    intro id; simp [slabIds_eq d l', slabIds_eq d r', hlid, hrid]
  have hlmem : l ∈ m1.children := by rw [hch]; simp
  have hrmem : r ∈ m1.children := by rw [hch]; simp
  obtain ⟨hbL, hbR⟩ := hbl (hh l hlmem).insBelow (hh r hrmem).insBelow
  simp only [List.nodup_cons, List.nodup_append, List.mem_append, List.mem_cons, not_or] at hndX hrt
  have keepBelow : ∀ id, (id ∈ subIds d l ∨ id ∈ subIds d r) → h2 id = h1 id := by
    intro id hid
    have a : id ≠ m1.hdr.id := by rintro rfl; rcases hid with h | h <;> grind
    have b : id ≠ (hdr d r).id := by rintro rfl; rcases hid with h | h <;> grind
    have c : id ≠ (hdr d l).id := by rintro rfl; rcases hid with h | h <;> grind
    rw [hheap, hlid, hrid]; simp [a, b, c]
  refine heapPost_local (P := P) (Q := Q) (X := [l, r]) (X' := [l', r']) (by rw [hch]; simp) (by rw [hch2]; simp) hid2 hnd hh ?_ ?_ ?_ ?_ ?_
  · rw [hheap]; simp
  · intro c hc
    simp only [List.mem_cons, List.not_mem_nil, or_false] at hc
    rcases hc with rfl | rfl
    · refine ins_holds_of_root_below d c ?_ (hbL.congr (fun id hid => keepBelow id ((hsubm id).1 (Or.inl hid))))
      have a : (hdr d l).id ≠ m1.hdr.id := by grind
      have b : (hdr d l).id ≠ (hdr d r).id := by grind
      rw [hheap, hlid, hrid]; simp [a, b]
    · refine ins_holds_of_root_below d c ?_ (hbR.congr (fun id hid => keepBelow id ((hsubm id).1 (Or.inr hid))))
      have a : (hdr d r).id ≠ m1.hdr.id := by grind
      rw [hheap, hlid, hrid]; simp [a]
  · intro id hid
    rw [memX'] at hid; rw [memX]
    have := hsubm id
    grind
  · intro id a hx
    rw [memX] at hx
    simp only [not_or] at hx
    rw [hheap, hlid, hrid]; simp [a, hx.1, hx.2.2.1]
  · intro id hx hx'
    rw [memX] at hx; rw [memX'] at hx'
    have := hsubm id
    grind

theorem merge_heapPost {m1 m2 : MetaSlab (ATree d)} {P Q : List (ATree d)} {l r mg : ATree d}
    {h1 h2 : SlabID → Option GSlab}
    (hch : m1.children = P ++ l :: r :: Q) (hch2 : m2.children = P ++ mg :: Q) (hid2 : m2.hdr.id = m1.hdr.id)
    (hnd : (slabIds (d + 1) (ofMeta m1)).Nodup)
    (hmid : (hdr d mg).id = (hdr d l).id)
    (hsub : subIds d mg = subIds d l ++ subIds d r)
    (hbl : InsHoldsBelow h1 d l → InsHoldsBelow h1 d r → InsHoldsBelow h1 d mg)
    (hh : HoldsChildren h1 m1)
    (hheap : ∀ id, h2 id = if id = (hdr d r).id then none
      else if id = m1.hdr.id then some (.metaSlab (trMeta m2))
      else if id = (hdr d mg).id then some (trTree d mg) else h1 id) :
    HeapPost h1 h2 (ofMeta m1) (ofMeta m2) := by
  have hnd0 := hnd
  rw [slabIds_succ, hch] at hnd0
  obtain ⟨hndX, hrt⟩ := nodup_pair_facts hnd0
  have hsubm : ∀ id, id ∈ subIds d mg ↔ (id ∈ subIds d l ∨ id ∈ subIds d r) := by
    intro id; rw [hsub, List.mem_append]
  have memX : ∀ id, id ∈ [l, r].flatMap (slabIds d) ↔
      id = (hdr d l).id ∨ id ∈ subIds d l ∨ id = (hdr d r).id ∨ id ∈ subIds d r := by
    intro id; simp [slabIds_eq d l, slabIds_eq d r]
  have memX' : ∀ id, id ∈ [mg].flatMap (slabIds d) ↔ id = (hdr d l).id ∨ id ∈ subIds d mg := by
    intro id; simp [slabIds_eq d mg, hmid]
  have hlmem : l ∈ m1.children := by rw [hch]; simp
  have hrmem : r ∈ m1.children := by rw [hch]; simp
  have hbM := hbl (hh l hlmem).insBelow (hh r hrmem).insBelow
  simp only [List.nodup_cons, List.nodup_append, List.mem_append, List.mem_cons, not_or] at hndX hrt
  have keepBelow : ∀ id, (id ∈ subIds d l ∨ id ∈ subIds d r) → h2 id = h1 id := by
    intro id hid
    have a : id ≠ m1.hdr.id := by rintro rfl; rcases hid with h | h <;> grind
    have b : id ≠ (hdr d r).id := by rintro rfl; rcases hid with h | h <;> grind
    have c : id ≠ (hdr d l).id := by rintro rfl; rcases hid with h | h <;> grind
    rw [hheap, hmid]; simp [a, b, c]
  refine heapPost_local (P := P) (Q := Q) (X := [l, r]) (X' := [mg]) (by rw [hch]; simp) (by rw [hch2]; simp)
    hid2 hnd hh ?_ ?_ ?_ ?_ ?_
  · have a : m1.hdr.id ≠ (hdr d r).id := by grind
    rw [hheap]; simp [a]
  · intro c hc
    simp only [List.mem_cons, List.not_mem_nil, or_false] at hc
    subst hc
    refine ins_holds_of_root_below d c ?_ (hbM.congr (fun id hid => keepBelow id ((hsubm id).1 hid)))
    have a : (hdr d l).id ≠ m1.hdr.id := by grind
    have b : (hdr d l).id ≠ (hdr d r).id := by grind
    rw [hheap, hmid]; simp [a, b]
  · intro id hid
    rw [memX'] at hid; rw [memX]
    have := hsubm id
    grind
  · intro id a hx
    rw [memX] at hx
    simp only [not_or] at hx
    rw [hheap, hmid]; simp [a, hx.1, hx.2.2.1]
  · intro id hx hx'
    rw [memX] at hx; rw [memX'] at hx'
    have := hsubm id
    have e : id = (hdr d r).id := by grind
    rw [hheap]; simp [e]

theorem lend_below (T : Nat) : ∀ (d : Nat) (l r : ATree d) (h : SlabID → Option GSlab),
    InsHoldsBelow h d l → InsHoldsBelow h d r →
    InsHoldsBelow h d (ATree.lendToRight T d l r).1 ∧ InsHoldsBelow h d (ATree.lendToRight T d l r).2
  | 0, _, _, _, _, _ => ⟨trivial, trivial⟩
  | d + 1, l, r, h, hl, hr => by
    revert hl hr
    refine forall_ofMeta ?_ l; intro l
    refine forall_ofMeta ?_ r; intro r hl hr
    constructor
    · intro x hx
      have hx : x ∈ l.children.take _ := hx
      exact hl x (List.mem_of_mem_take hx)
    · intro x hx
      have hx : x ∈ l.children.drop _ ++ r.children := hx
      rcases List.mem_append.1 hx with hx | hx
      · exact hl x (List.mem_of_mem_drop hx)
      · exact hr x hx

theorem borrow_below (T : Nat) : ∀ (d : Nat) (l r : ATree d) (h : SlabID → Option GSlab),
    InsHoldsBelow h d l → InsHoldsBelow h d r →
    InsHoldsBelow h d (ATree.borrowFromRight T d l r).1 ∧ InsHoldsBelow h d (ATree.borrowFromRight T d l r).2
  | 0, _, _, _, _, _ => ⟨trivial, trivial⟩
  | d + 1, l, r, h, hl, hr => by
    revert hl hr
    refine forall_ofMeta ?_ l; intro l
    refine forall_ofMeta ?_ r; intro r hl hr
    constructor
    · intro x hx
      have hx : x ∈ l.children ++ r.children.take _ := hx
      rcases List.mem_append.1 hx with hx | hx
      · exact hl x hx
      · exact hr x (List.mem_of_mem_take hx)
    · intro x hx
      have hx : x ∈ r.children.drop _ := hx
      exact hr x (List.mem_of_mem_drop hx)

theorem merge_below : ∀ (d : Nat) (l r : ATree d) (h : SlabID → Option GSlab),
    InsHoldsBelow h d l → InsHoldsBelow h d r → InsHoldsBelow h d (ATree.merge d l r)
  | 0, _, _, _, _, _ => trivial
  | d + 1, l, r, h, hl, hr => by
    revert hl hr
    refine forall_ofMeta ?_ l; intro l
    refine forall_ofMeta ?_ r; intro r hl hr
    intro x hx
    have hx : x ∈ l.children ++ r.children := hx
    rcases List.mem_append.1 hx with hx | hx
    · exact hl x hx
    · exact hr x hx

theorem merge_ids (d : Nat) (l r : ATree d) :
    subIds d (ATree.merge d l r) = subIds d l ++ subIds d r ∧ (hdr d (ATree.merge d l r)).id = (hdr d l).id := by
  obtain ⟨h1, h2⟩ := merge_struct d l r
  refine ⟨?_, h2⟩
  have := congrArg AList.keys h1
  rwa [keys_append, keys_sub, keys_sub, keys_sub] at this

theorem rebalOp_ids (T d : Nat) (l r : ATree d) (flag : Bool) :
    subIds d (rebalOp T d l r flag).1 ++ subIds d (rebalOp T d l r flag).2 = subIds d l ++ subIds d r ∧
    (hdr d (rebalOp T d l r flag).1).id = (hdr d l).id ∧ (hdr d (rebalOp T d l r flag).2).id = (hdr d r).id := by
  cases flag
  · obtain ⟨h1, h2, h3⟩ := lend_struct T d l r
    refine ⟨?_, h2, h3⟩
    have := congrArg AList.keys h1
    rwa [keys_append, keys_append, keys_sub, keys_sub, keys_sub, keys_sub] at this
  · obtain ⟨h1, h2, h3⟩ := borrow_struct T d l r
    refine ⟨?_, h2, h3⟩
    have := congrArg AList.keys h1
    rwa [keys_append, keys_append, keys_sub, keys_sub, keys_sub, keys_sub] at this

theorem rebalOp_below (T d : Nat) (l r : ATree d) (flag : Bool) (h : SlabID → Option GSlab)
    (hl : InsHoldsBelow h d l) (hr : InsHoldsBelow h d r) :
    InsHoldsBelow h d (rebalOp T d l r flag).1 ∧ InsHoldsBelow h d (rebalOp T d l r flag).2 := by
  cases flag
  · exact lend_below T d l r h hl hr
  · exact borrow_below T d l r h hl hr

theorem rebal_children (T : Nat) {m : MetaSlab (ATree d)} {P Q : List (ATree d)} {l r : ATree d} {li : Nat}
    (flag : Bool) (c : Ctx) (hch : m.children = P ++ l :: r :: Q) (hli : P.length = li) :
    (m.rebalanceChildren T l r li (li + 1) flag c).1.children =
        P ++ (rebalOp T d l r flag).1 :: (rebalOp T d l r flag).2 :: Q ∧
      (m.rebalanceChildren T l r li (li + 1) flag c).1.hdr.id = m.hdr.id := by
  have hA1 : ∀ (x y : ATree d) (R : List (ATree d)), P ++ x :: y :: R = (P ++ [x]) ++ y :: R := by simp
  have hA1l : ∀ x : ATree d, (P ++ [x]).length = li + 1 := by simp [hli]
  refine ⟨?_, rfl⟩
  unfold MetaSlab.rebalanceChildren rebalOp
  simp only [hch, set_mid hli]
  rw [hA1, set_mid (hA1l _)]
  simp

theorem merge_children {m : MetaSlab (ATree d)} {P Q : List (ATree d)} {l r : ATree d} {li : Nat}
    (c : Ctx) (hch : m.children = P ++ l :: r :: Q) (hli : P.length = li) :
    (m.mergeChildren l r li (li + 1) c).1.children = P ++ ATree.merge d l r :: Q ∧
      (m.mergeChildren l r li (li + 1) c).1.hdr.id = m.hdr.id := by
  refine ⟨?_, rfl⟩
  unfold MetaSlab.mergeChildren
  simp only [hch, set_mid hli, eraseIdx_mid_succ hli]

theorem mor_heap_cases (T : Nat) (m : MetaSlab (ATree d)) (child : ATree d) (k u : Nat) (s : HSt)
    (lsib rsib : Option (ATree d)) (m2 : MetaSlab (ATree d)) (c2 : Ctx)
    (hposL : ∀ l, lsib = some l → 0 < k)
    (h : morTable T m child k u s.ctx lsib rsib = .ok (m2, c2)) :
    ∃ l r li, ((li = k ∧ l = child ∧ rsib = some r) ∨ (li + 1 = k ∧ lsib = some l ∧ r = child)) ∧
      ((∃ flag, (m2, c2) = m.rebalanceChildren T l r li (li + 1) flag s.ctx ∧
          morHeap T m child k u s lsib rsib = rebalHeap T m l r li (li + 1) flag s) ∨
       ((m2, c2) = m.mergeChildren l r li (li + 1) s.ctx ∧
          morHeap T m child k u s lsib rsib = mergeHeap m l r li (li + 1) s)) := by
  have left : ∀ l, lsib = some l →
      ((∃ flag, (m2, c2) = m.rebalanceChildren T l child (k - 1) k flag s.ctx ∧
          morHeap T m child k u s lsib rsib = rebalHeap T m l child (k - 1) k flag s) ∨
       ((m2, c2) = m.mergeChildren l child (k - 1) k s.ctx ∧
          morHeap T m child k u s lsib rsib = mergeHeap m l child (k - 1) k s)) →
      ∃ l r li, ((li = k ∧ l = child ∧ rsib = some r) ∨ (li + 1 = k ∧ lsib = some l ∧ r = child)) ∧
      ((∃ flag, (m2, c2) = m.rebalanceChildren T l r li (li + 1) flag s.ctx ∧
          morHeap T m child k u s lsib rsib = rebalHeap T m l r li (li + 1) flag s) ∨
       ((m2, c2) = m.mergeChildren l r li (li + 1) s.ctx ∧
          morHeap T m child k u s lsib rsib = mergeHeap m l r li (li + 1) s)) := by
    intro l hl hx
    have h0 := hposL l hl
    have e : k - 1 + 1 = k := by omega
    refine ⟨l, child, k - 1, Or.inr ⟨e, hl, rfl⟩, ?_⟩
    rw [e]; exact hx
  have right : ∀ r, rsib = some r →
      ((∃ flag, (m2, c2) = m.rebalanceChildren T child r k (k + 1) flag s.ctx ∧
          morHeap T m child k u s lsib rsib = rebalHeap T m child r k (k + 1) flag s) ∨
       ((m2, c2) = m.mergeChildren child r k (k + 1) s.ctx ∧
          morHeap T m child k u s lsib rsib = mergeHeap m child r k (k + 1) s)) →
      ∃ l r li, ((li = k ∧ l = child ∧ rsib = some r) ∨ (li + 1 = k ∧ lsib = some l ∧ r = child)) ∧
      ((∃ flag, (m2, c2) = m.rebalanceChildren T l r li (li + 1) flag s.ctx ∧
          morHeap T m child k u s lsib rsib = rebalHeap T m l r li (li + 1) flag s) ∨
       ((m2, c2) = m.mergeChildren l r li (li + 1) s.ctx ∧
          morHeap T m child k u s lsib rsib = mergeHeap m l r li (li + 1) s)) := by
    intro r hr hx
    exact ⟨child, r, k, Or.inl ⟨rfl, rfl, hr⟩, hx⟩
  cases lsib with
  | none =>
    cases rsib with
    | none => simp [morTable] at h
    | some r =>
      refine right r rfl ?_
      cases hcr : ATree.canLendToLeft T d r u <;>
        simp only [morTable, hcr, Bool.or_false, Bool.false_or, Bool.false_eq_true, if_false, if_true,
          Except.ok.injEq] at h
      · exact Or.inr ⟨h.symm, by simp [morHeap, hcr]⟩
      · exact Or.inl ⟨true, h.symm, by simp [morHeap, hcr]⟩
  | some l =>
    cases rsib with
    | none =>
      refine left l rfl ?_
      cases hcl : ATree.canLendToRight T d l u <;>
        simp only [morTable, hcl, Bool.or_false, Bool.false_eq_true, if_false, if_true,
          Except.ok.injEq] at h
      · exact Or.inr ⟨h.symm, by simp [morHeap, hcl]⟩
      · exact Or.inl ⟨false, h.symm, by simp [morHeap, hcl]⟩
    | some r =>
      cases hcl : ATree.canLendToRight T d l u <;> cases hcr : ATree.canLendToLeft T d r u <;>
        simp only [morTable, hcl, hcr, Bool.or_false, Bool.or_true,
          Bool.not_true, Bool.not_false, Bool.false_eq_true, if_false, if_true] at h
      · by_cases hlt : (ATree.hdr d l).size < (ATree.hdr d r).size
        · simp only [hlt, if_true, Except.ok.injEq] at h
          exact left l rfl (Or.inr ⟨h.symm, by simp [morHeap, hcl, hcr, hlt]⟩)
        · simp only [hlt, if_false, Except.ok.injEq] at h
          exact right r rfl (Or.inr ⟨h.symm, by simp [morHeap, hcl, hcr, hlt]⟩)
      · simp only [Except.ok.injEq] at h
        exact right r rfl (Or.inl ⟨true, h.symm, by simp [morHeap, hcl, hcr]⟩)
      · simp only [Except.ok.injEq] at h
        exact left l rfl (Or.inl ⟨false, h.symm, by simp [morHeap, hcl, hcr]⟩)
      · by_cases hgt : (ATree.hdr d l).size > (ATree.hdr d r).size
        · simp only [hgt, if_true, Except.ok.injEq] at h
          exact left l rfl (Or.inl ⟨false, h.symm, by simp [morHeap, hcl, hcr, hgt]⟩)
        · simp only [hgt, if_false, Except.ok.injEq] at h
          exact right r rfl (Or.inl ⟨true, h.symm, by simp [morHeap, hcl, hcr, hgt]⟩)

/-- the heap after `MergeOrRebalanceChildSlab` (`morHeap`) satisfies `HeapPost` -/
theorem mor_heapPost (T : Nat) {m1 m2 : MetaSlab (ATree d)} {A B : List (ATree d)} {child' : ATree d} {u : Nat}
    {s1 : HSt} {c2 : Ctx}
    (hch : m1.children = A ++ child' :: B) (hnd : (slabIds (d + 1) (ofMeta m1)).Nodup)
    (hh : HoldsChildren s1.heap m1)
    (h : m1.mergeOrRebalanceChildSlab T child' A.length u s1.ctx = .ok (m2, c2)) :
    HeapPost s1.heap (morHeap T m1 child' A.length u s1 (morLeftSib m1 A.length) (morRightSib m1 A.length)).heap
      (ofMeta m1) (ofMeta m2) := by
  rw [mor_eq_table] at h
  have hposL : ∀ l, morLeftSib m1 A.length = some l → 0 < A.length := by
    intro l hl
    by_cases h0 : A.length > 0
    · exact h0
    · rw [morLeftSib, if_neg h0] at hl; cases hl
  obtain ⟨l, r, li, hpos, hact⟩ := mor_heap_cases T m1 child' A.length u s1 _ _ m2 c2 hposL h
  have hshape : ∃ P Q, m1.children = P ++ l :: r :: Q ∧ P.length = li := by
    rcases hpos with ⟨rfl, rfl, hr⟩ | ⟨hli, hl, rfl⟩
    · have hr : m1.children[A.length + 1]? = some r := by
        change (if A.length + 1 < m1.childHdrs.length then m1.children[A.length + 1]? else none) = some r at hr
        by_cases h1 : A.length + 1 < m1.childHdrs.length
        · rw [if_pos h1] at hr; exact hr
        · rw [if_neg h1] at hr; cases hr
      rw [hch, getElem?_mid_succ rfl] at hr
      cases B with
      | nil => simp at hr
      | cons b B' =>
        simp only [List.getElem?_cons_zero, Option.some.injEq] at hr
        subst hr
        exact ⟨A, B', hch, rfl⟩
    · have hl2 : m1.children[li]? = some l := by
        have h0 : A.length > 0 := by omega
        change (if A.length > 0 then m1.children[A.length - 1]? else none) = some l at hl
        rw [if_pos h0] at hl
        have e : A.length - 1 = li := by omega
        rw [e] at hl; exact hl
      rcases List.eq_nil_or_concat A with hn | ⟨P, x, hA⟩
      · subst hn; simp at hli
      · rw [List.concat_eq_append] at hA
        subst hA
        have hP : P.length = li := by simp at hli; omega
        have e1 : P ++ [x] ++ r :: B = P ++ x :: r :: B := by simp
        rw [hch, e1, getElem?_mid hP] at hl2
        simp only [Option.some.injEq] at hl2
        subst hl2
        exact ⟨P, B, by rw [hch, e1], hP⟩
  obtain ⟨P, Q, hch', hli⟩ := hshape
  rcases hact with ⟨flag, heq, hheap⟩ | ⟨heq, hheap⟩
  · have hm2 : m2 = (m1.rebalanceChildren T l r li (li + 1) flag s1.ctx).1 := congrArg Prod.fst heq
    obtain ⟨hch2, hid2⟩ := rebal_children T flag s1.ctx hch' hli
    obtain ⟨hsub, hlid, hrid⟩ := rebalOp_ids T d l r flag
    rw [← hm2] at hch2 hid2
    rw [hheap]
    refine rebal_heapPost hch' hch2 hid2 hnd hlid hrid hsub (rebalOp_below T d l r flag s1.heap) hh ?_
    intro id
    rw [rebalHeap_heap, ← hm2]
  · have hm2 : m2 = (m1.mergeChildren l r li (li + 1) s1.ctx).1 := congrArg Prod.fst heq
    obtain ⟨hch2, hid2⟩ := merge_children s1.ctx hch' hli
    obtain ⟨hsub, hmid⟩ := merge_ids d l r
    rw [← hm2] at hch2 hid2
    rw [hheap]
    refine merge_heapPost hch' hch2 hid2 hnd hmid hsub (merge_below d l r s1.heap) hh ?_
    intro id
    rw [mergeHeap_heap, ← hm2]

theorem prefixSums_getD_ge : ∀ (H : List Hdr) (b j : Nat) (h : Hdr), H[j]? = some h →
    h.count ≤ (prefixSums H b).getD j 0
  | [], _, _, _, hj => by simp at hj
  | x :: H, b, 0, h, hj => by
    simp only [List.getElem?_cons_zero, Option.some.injEq] at hj
    subst hj; simp [prefixSums]
  | x :: H, b, j + 1, h, hj => by
    simp only [List.getElem?_cons_succ] at hj
    simpa [prefixSums] using prefixSums_getD_ge H _ j h hj

/-- a child of an index slab with `Book`, held by the heap: its header copy, its count, its stored record -/
theorem mor_child_facts {m : MetaSlab (ATree d)} {h : SlabID → Option GSlab} (hb : Book m) (hh : HoldsChildren h m)
    (j : Nat) (c : ATree d) (hc : m.children[j]? = some c) :
    m.childHdrs[j]? = some (hdr d c) ∧ (hdr d c).count ≤ m.countSum.getD j 0 ∧
      h (hdr d c).id = some (trTree d c) := by
  have e1 : m.childHdrs[j]? = some (hdr d c) := by rw [hb.hdrs_eq, List.getElem?_map, hc]; rfl
  refine ⟨e1, ?_, (hh c (List.mem_of_getElem? hc)).root⟩
  rw [hb.sums_eq]
  exact prefixSums_getD_ge _ _ _ _ e1

theorem dataWork_of_shape {T : Nat} (t : ATree 0) (hs : Shape T 0 false t)
    (hsz : (hdr 0 t).size ≤ 2 * maxThr T) : DataWork T t := by
  revert hs hsz
  refine forall_ofData ?_ t
  intro t hs hsz
  have hs := (shape_zero T false t).1 hs
  exact ⟨hs.count_eq, hs.size_eq, fun e he => (hs.elems_ok e he).1, ⟨hs.root_eq, hs.not_inl⟩, hsz⟩

theorem dataWork_of_treeInv {T : Nat} (t : ATree 0) (h : TreeInv T 0 false t) : DataWork T t := by
  revert h
  refine forall_ofData ?_ t
  intro t h
  exact DataWork.of_inv ((treeInv_zero T false t).1 h)

theorem meta_child_facts {T : Nat} (hT : legalThreshold T = true) (child : MetaSlab (ATree d))
    (hs : MShape T d false child) (hlo : minThr T ≤ child.hdr.size + 14) :
    child.countSum.length = child.childHdrs.length ∧ child.countSum ≠ [] ∧
      arrayMetaDataSlabPrefixSize ≤ child.hdr.size := by
  have F := thrFacts hT
  have TF := thresholds_fit hT
  have e2 := hs.size_eq
  have l2 : child.childHdrs.length = child.children.length := by rw [hs.hdrs_eq]; simp
  have l3 : child.countSum.length = child.childHdrs.length := by rw [hs.sums_eq, MetaSlab.prefixSums_length]
  rw [F.mpfx, F.hsz] at e2
  refine ⟨l3, ?_, by rw [F.mpfx]; omega⟩
  intro hn
  have l4 : child.childHdrs.length = 0 := by rw [← l3, hn]; rfl
  have := TF.2.2.2.2.1
  omega

theorem metaSibOK_of {T : Nat} (hT : legalThreshold T = true) (child sib : MetaSlab (ATree d))
    (hc : MShape T d false child) (hu : child.hdr.size < minThr T) (hs : TreeInv T (d + 1) false (ofMeta sib)) :
    MetaSibOK child sib := by
  have F := thrFacts hT
  have TF := thresholds_fit hT
  obtain ⟨hm, hmax, hmin, _⟩ := (treeInv_succ T d false sib).1 hs
  have hmin := hmin rfl
  have e1 := hm.size_eq
  have e2 := hc.size_eq
  have l1 : sib.childHdrs.length = sib.children.length := by rw [hm.hdrs_eq]; simp
  have l2 : child.childHdrs.length = child.children.length := by rw [hc.hdrs_eq]; simp
  have l3 : sib.countSum.length = sib.childHdrs.length := by rw [hm.sums_eq, MetaSlab.prefixSums_length]
  rw [F.mpfx, F.hsz] at e1 e2
  refine ⟨by omega, by rw [F.mpfx]; omega, l3, ?_, by omega⟩
  intro hn
  rw [hn] at l3
  simp at l3
  omega

/-- **the merge-or-rebalance tail of the Set descent holds at every depth**: under `SetTailPre`, when the updated
    child underflows, the generated `MergeOrRebalanceChildSlab` over the heap (the siblings are READ from the heap)
    returns the model's `mergeOrRebalanceChildSlab` result, the `Ctx` is the model's and the heap (`morHeap`) satisfies
    `HeapPost`: after a rebalance no identifier leaves the tree, after a merge the right slab of the pair is gone -/
theorem morTailHyp_all (T : Nat) (hT : legalThreshold T = true) : ∀ d, MorTailHyp T d := by
  intro d addr m1 A B child' s1 hpre hu
  have F := thrFacts hT
  have TF := thresholds_fit hT
  have hch := hpre.kids
  have hb := hpre.book
  have hlenH : m1.childHdrs.length = A.length + 1 + B.length := by
    rw [hb.hdrs_eq, hch]; simp; omega
  have hk : A.length < m1.childHdrs.length := by omega
  have hlen : m1.countSum.length = m1.childHdrs.length := by rw [hb.sums_eq, MetaSlab.prefixSums_length]
  have hsz : arraySlabHeaderSize ≤ m1.hdr.size := by
    have e := hpre.msize
    have t := hpre.two
    rw [F.hsz, F.mpfx] at e
    rw [F.hsz]
    omega
  have hu32 : minThr T - (hdr d child').size + Gen.arraySlabHeaderSize ≤ 2^32 := by
    have e1 := F.hsz
    have e2 := F.minE
    have e3 := F.hi
    omega
  have hcget : m1.children[A.length]? = some child' := by rw [hch]; exact getElem?_mid rfl
  have hbase : (hdr d child').count ≤ m1.countSum.getD A.length 0 :=
    (mor_child_facts hb hpre.holds A.length child' hcget).2.1
  have hLmem : ∀ l, 0 < A.length → m1.children[A.length - 1]? = some l → l ∈ A := by
    intro l h0 hl
    rw [hch, List.getElem?_append_left (by omega)] at hl
    exact List.mem_of_getElem? hl
  have hRmem : ∀ r, m1.children[A.length + 1]? = some r → r ∈ B := by
    intro r hr
    rw [hch, getElem?_mid_succ rfl] at hr
    exact List.mem_of_getElem? hr
  have hheapL : A.length > 0 → ∃ h l, m1.childHdrs[A.length - 1]? = some h ∧ m1.children[A.length - 1]? = some l ∧
      s1.heap h.id = some (trTree d l) := by
    intro h0
    have hlt : A.length - 1 < m1.children.length := by rw [hch]; simp; omega
    obtain ⟨e1, _, e3⟩ := mor_child_facts hb hpre.holds (A.length - 1) _ (List.getElem?_eq_getElem hlt)
    exact ⟨_, _, e1, List.getElem?_eq_getElem hlt, e3⟩
  have hheapR : A.length + 1 < m1.childHdrs.length → ∃ h r, m1.childHdrs[A.length + 1]? = some h ∧
      m1.children[A.length + 1]? = some r ∧ s1.heap h.id = some (trTree d r) := by
    intro h1
    have hlt : A.length + 1 < m1.children.length := by rw [hch]; simp; omega
    obtain ⟨e1, _, e3⟩ := mor_child_facts hb hpre.holds (A.length + 1) _ (List.getElem?_eq_getElem hlt)
    exact ⟨_, _, e1, List.getElem?_eq_getElem hlt, e3⟩
  have hgen : ∀ m2 c2, m1.mergeOrRebalanceChildSlab T child' A.length (minThr T - (hdr d child').size) s1.ctx =
        .ok (m2, c2) →
      (∃ out, TransSl.ArrayMetaDataSlab_MergeOrRebalanceChildSlab (envH T) (trMeta m1) s1
          (some (trTree d child')) (Int.ofNat A.length) (u32 (minThr T - (hdr d child').size)) =
            some (none, trMeta m2, morHeap T m1 child' A.length (minThr T - (hdr d child').size) s1
              (morLeftSib m1 A.length) (morRightSib m1 A.length), out)) ∧
          (morHeap T m1 child' A.length (minThr T - (hdr d child').size) s1
              (morLeftSib m1 A.length) (morRightSib m1 A.length)).ctx = c2 := by
    intro m2 c2 hres
    cases d with
    | zero =>
      have etr : trTree 0 child' = .dataSlab (trData child') := rfl
      rw [etr]
      have h := Sl_MergeOrRebalanceChildSlab_data_heap T m1 child' A.length
        (minThr T - (hdr 0 child').size) s1 hT hu32 ?_ ?_ ?_ hk hlen hsz (fun _ => hbase) ?_ hheapL hheapR
      · rw [hres] at h; exact h
      · refine dataWork_of_shape child' hpre.shape ?_
        have : (hdr 0 child').size < minThr T := hu
        have := F.minE; have := F.maxE; omega
      · intro l h0 hl
        exact dataWork_of_treeInv l (hpre.left l (hLmem l h0 hl))
      · intro r _ hr
        exact dataWork_of_treeInv r (hpre.right r (hRmem r hr))
      · intro l h0 hl
        exact (mor_child_facts hb hpre.holds (A.length - 1) l hl).2.1
    | succ d =>
      have hs : MShape T d false child' := (shape_succ T d false child').1 hpre.shape
      have hu' : (child' : MetaSlab (ATree d)).hdr.size < minThr T := hu
      obtain ⟨l3, hne, hpre12⟩ := meta_child_facts hT child' hs (hpre.size_lo_meta (by omega))
      have etr : trTree (d + 1) child' = .metaSlab (trMeta (child' : MetaSlab (ATree d))) := rfl
      rw [etr]
      have h := Sl_MergeOrRebalanceChildSlab_meta_heap T m1 child' A.length
        (minThr T - (hdr (d + 1) child').size) s1 TF.2.1 hu32 l3 hne hpre12 ?_ ?_ hk hlen hsz
        (fun _ => hbase) ?_ hheapL hheapR
      · rw [hres] at h; exact h
      · intro l h0 hl
        exact metaSibOK_of hT child' l hs hu' (hpre.left l (hLmem l h0 hl))
      · intro r _ hr
        exact metaSibOK_of hT child' r hs hu' (hpre.right r (hRmem r hr))
      · intro l h0 hl
        exact (mor_child_facts hb hpre.holds (A.length - 1) l hl).2.1
  cases hres : m1.mergeOrRebalanceChildSlab T child' A.length (minThr T - (hdr d child').size) s1.ctx with
  | error e => trivial
  | ok p =>
    obtain ⟨m2, c2⟩ := p
    obtain ⟨⟨out, e⟩, hc⟩ := hgen m2 c2 hres
    exact ⟨_, out, e, hc, mor_heapPost T hch hpre.ids.1 hpre.holds hres⟩

end morTail

/-! ## 3. the final theorems, without hypotheses about the tails -/

section final
open MetaSlab ATree

/-- **`ArraySlab.Set` over a heap**, with no hypothesis about the tails: on a heap that holds a valid tree `t`
    (`Holds`, `TreeInv`, identifiers below the counter, nothing stored above the counter: `FreshFree`), with a depth
    argument that covers the tree, the generated code returns what the model's `ATree.set` returns - the old element,
    the new tree as `trTree` (children that became full are split, children that underflow are merged or rebalanced),
    the model's `Ctx` - and the heap afterwards holds the new tree, the slabs that left the tree are gone and
    everything else is untouched (`HeapPost`).  Past the end: `IndexOutOfBoundsError`, nothing was touched. -/
theorem Sl_ArraySlab_Set_heap_full (T : Nat) (hT : legalThreshold T = true) (d : Nat) (t : ATree d) (top : Bool)
    (i : Nat) (v : Elem) (s : HSt) (depth addr : Nat) (hd : d ≤ depth) (hh : Holds s.heap d t)
    (hids : IdsOk addr s.ctx.ctr (slabIds d t)) (hfree : FreshFree addr s) (hinv : TreeInv T d top t)
    (hni : NotInl d t) (hv : ValueOk v) (hcnt : (hdr d t).count < 2^32) (hi : i < 2^64) :
    match ATree.set T d t i v s.ctx with
    | .ok (old, t', c') => ∃ s',
        TransSl.ArraySlab_Set (envH T) (TransSl.ArrayMetaDataSlab_Set (envH T) depth) (trTree d t) s addr (u64 i)
          (some v) = some (some old, none, trTree d t', s') ∧ s'.ctx = c' ∧ HeapPost s.heap s'.heap t t'
    | .error e => e = .indexOutOfBounds ∧
        TransSl.ArraySlab_Set (envH T) (TransSl.ArrayMetaDataSlab_Set (envH T) depth) (trTree d t) s addr (u64 i)
          (some v) = some (none, some .indexOutOfBounds, trTree d t, s) :=
  Sl_ArraySlab_Set_heap_of_tails T hT d (fun d' _ => ⟨splitTailHyp_all T hT d', morTailHyp_all T hT d'⟩)
    t top i v s depth addr hd hh hids hfree hinv hni hv hcnt hi

/-- **`ArrayMetaDataSlab.Set` over a heap**, with no hypothesis about the tails: the receiver is the translation of a
    model index slab (passed by value), its children are held by the heap; depth argument `depth + 1` for children of
    depth `d ≤ depth`. -/
theorem Sl_ArrayMetaDataSlab_Set_heap_full (T : Nat) (hT : legalThreshold T = true) (d : Nat) (m : MetaSlab (ATree d))
    (top : Bool) (i : Nat) (v : Elem) (s : HSt) (depth addr : Nat) (hd : d ≤ depth) (hh : HoldsChildren s.heap m)
    (hids : IdsOk addr s.ctx.ctr (slabIds (d + 1) (ofMeta m))) (hfree : FreshFree addr s)
    (hinv : TreeInv T (d + 1) top (ofMeta m)) (hv : ValueOk v) (hcnt : m.hdr.count < 2^32) (hi : i < 2^64) :
    match ATree.set T (d + 1) (ofMeta m) i v s.ctx with
    | .ok (old, t', c') => ∃ s',
        TransSl.ArrayMetaDataSlab_Set (envH T) (depth + 1) (trMeta m) s addr (u64 i) (some v) =
          some (some old, none, trMeta (t' : MetaSlab (ATree d)), s') ∧ s'.ctx = c' ∧
          HeapPost s.heap s'.heap (ofMeta m) t'
    | .error e => e = .indexOutOfBounds ∧
        TransSl.ArrayMetaDataSlab_Set (envH T) (depth + 1) (trMeta m) s addr (u64 i) (some v) =
          some (none, some .indexOutOfBounds, trMeta m, s) :=
  Sl_ArrayMetaDataSlab_Set_heap T hT d m top i v s depth addr hd hh hids hfree hinv hv hcnt hi
    (setTailsOn_of_hyps T addr hT (d + 1) (ofMeta m) i v s.ctx
      (fun d' _ => ⟨splitTailHyp_all T hT d', morTailHyp_all T hT d'⟩))

end final

/-! ## 4. non-vacuity: a `Set` that SPLITS the child, a `Set` that MERGES it -/

section examples
open MetaSlab ATree

theorem setF_ids (m : MetaSlab (ATree 0)) (h : ATree.slabIds 1 (ofMeta m) = [⟨1, 1⟩, ⟨1, 2⟩, ⟨1, 3⟩]) :
    IdsOk 1 5 (slabIds 1 (ofMeta m)) := by
  rw [h]
  refine ⟨by decide, ?_⟩
  intro id hid
  simp only [List.mem_cons, List.not_mem_nil, or_false] at hid
  rcases hid with rfl | rfl | rfl <;> decide

theorem setF_fresh (s : HSt) (hc : s.ctx.ctr = 5) (h : ∀ id : SlabID, id ≠ ⟨1, 2⟩ → id ≠ ⟨1, 3⟩ → s.heap id = none) :
    FreshFree 1 s := by
  intro id _ hlt
  rw [hc] at hlt
  have h2 : id ≠ ⟨1, 2⟩ := by rintro rfl; simp at hlt
  have h3 : id ≠ ⟨1, 3⟩ := by rintro rfl; simp at hlt
  exact h id h2 h3

/-- the child SPLITS: `insFMeta` (leaves of 100+100+100+60 and 60+60 bytes, T = 256), index 3 set to a 110-byte value:
    the first leaf grows to 431 > 384 bytes and is split; the new index slab has three children -/
example : ∃ (m2 : MetaSlab (ATree 0)) (s' : HSt), TransSl.ArrayMetaDataSlab_Set (envH 256) 1 (trMeta insFMeta) insFHeap 1 (u64 3)
        (some ⟨110, .val 99⟩) = some (some ⟨60, .val 3⟩, none, trMeta m2, s') ∧
      HeapPost insFHeap.heap s'.heap (ofMeta insFMeta) (ofMeta m2) ∧ m2.children.length = 3 ∧
      s'.ctx.eff = [.store ⟨1, 2⟩, .alloc 1 ⟨1, 6⟩, .store ⟨1, 2⟩, .store ⟨1, 6⟩, .store ⟨1, 1⟩] := by
  have h := Sl_ArrayMetaDataSlab_Set_heap_full 256 (by decide) 0 insFMeta true 3 ⟨110, .val 99⟩ insFHeap 0 1
    (Nat.le_refl _)
    (by intro c hc; rcases insF_kids c hc with rfl | rfl <;> rfl)
    (setF_ids insFMeta rfl)
    (setF_fresh insFHeap rfl (by intro id h2 h3; simp [insFHeap, h2, h3]))
    insF_inv ⟨by decide, 99, rfl⟩ (by decide) (by decide)
  have hev : (ATree.set 256 1 (ofMeta insFMeta) 3 ⟨110, .val 99⟩ insFHeap.ctx).toOption.map
      (fun r => (r.1, (r.2.1 : MetaSlab (ATree 0)).children.length, r.2.2.eff)) =
      some (⟨60, .val 3⟩, 3, [.store ⟨1, 2⟩, .alloc 1 ⟨1, 6⟩, .store ⟨1, 2⟩, .store ⟨1, 6⟩, .store ⟨1, 1⟩]) := by rfl
  cases hset : ATree.set 256 1 (ofMeta insFMeta) 3 ⟨110, .val 99⟩ insFHeap.ctx with
  | error e => rw [hset] at hev; cases hev
  | ok r =>
    obtain ⟨old, t', c'⟩ := r
    rw [hset] at h hev
    obtain ⟨s', e, hc, hp⟩ := h
    simp only [Except.toOption, Option.map_some, Option.some.injEq, Prod.mk.injEq] at hev
    obtain ⟨rfl, hlen, heff⟩ := hev
    exact ⟨t', s', e, hp, hlen, by rw [hc]; exact heff⟩

/-- two small leaves: 100 + 60 and 60 + 60 bytes -/
def setFC1 : DataSlab :=
  { hdr := ⟨⟨1, 2⟩, 181, 2⟩, next := ⟨1, 3⟩, elems := [⟨100, .val 0⟩, ⟨60, .val 1⟩], root := false, inlined := false }
def setFC2 : DataSlab :=
  { hdr := ⟨⟨1, 3⟩, 141, 2⟩, next := SlabID.undef, elems := [⟨60, .val 10⟩, ⟨60, .val 11⟩], root := false,
    inlined := false }
def setFCMeta : MetaSlab (ATree 0) :=
  { hdr := ⟨⟨1, 1⟩, 40, 4⟩, childHdrs := [setFC1.hdr, setFC2.hdr], countSum := [2, 4],
    children := [setFC1, setFC2], root := true }
def setFCHeap : HSt :=
  ⟨fun id => if id = ⟨1, 2⟩ then some (.dataSlab (trData setFC1))
     else if id = ⟨1, 3⟩ then some (.dataSlab (trData setFC2)) else none, ⟨5, [], []⟩⟩

theorem setFC_kids (c : ATree 0) (hc : c ∈ setFCMeta.children) : c = setFC1 ∨ c = setFC2 := by
  have h : setFCMeta.children = [setFC1, setFC2] := rfl
  rw [h] at hc
  rcases List.mem_cons.mp hc with h | h
  · exact Or.inl h
  · exact Or.inr (List.mem_singleton.mp h)

theorem setFC1_inv : DataInv 256 false setFC1 := by
  refine ⟨rfl, rfl, ?_, rfl, by simp [setFC1], ?_, fun _ => ?_⟩
  · intro e he
    simp only [setFC1, List.mem_cons, List.not_mem_nil, or_false] at he
    rcases he with rfl | rfl <;> exact ⟨by decide, by decide⟩
  · show 181 ≤ maxThr 256; decide
  · show minThr 256 ≤ 181; decide

theorem setFC2_inv : DataInv 256 false setFC2 := by
  refine ⟨rfl, rfl, ?_, rfl, by simp [setFC2], ?_, fun _ => ?_⟩
  · intro e he
    simp only [setFC2, List.mem_cons, List.not_mem_nil, or_false] at he
    rcases he with rfl | rfl <;> exact ⟨by decide, by decide⟩
  · show 141 ≤ maxThr 256; decide
  · show minThr 256 ≤ 141; decide

theorem setFC_inv : TreeInv 256 1 true (ofMeta setFCMeta) := by
  refine ⟨rfl, rfl, rfl, rfl, rfl, ?_, ?_, by decide, by simp, fun _ => by decide⟩
  · intro c hc
    rcases setFC_kids c hc with rfl | rfl
    · exact setFC1_inv
    · exact setFC2_inv
  · intro c hc
    rcases setFC_kids c hc with rfl | rfl <;> rfl

/-- the child MERGES: index 0 set to a 1-byte value: the first leaf shrinks to 82 < 128 bytes, the right sibling
    (141 bytes) cannot lend, the two leaves are merged (the right one is removed); the new index slab has one child -/
example : ∃ (m2 : MetaSlab (ATree 0)) (s' : HSt), TransSl.ArrayMetaDataSlab_Set (envH 256) 1 (trMeta setFCMeta) setFCHeap 1 (u64 0)
        (some ⟨1, .val 99⟩) = some (some ⟨100, .val 0⟩, none, trMeta m2, s') ∧
      HeapPost setFCHeap.heap s'.heap (ofMeta setFCMeta) (ofMeta m2) ∧ m2.children.length = 1 ∧
      s'.heap ⟨1, 3⟩ = none ∧
      s'.ctx.eff = [.store ⟨1, 2⟩, .store ⟨1, 2⟩, .store ⟨1, 1⟩, .remove ⟨1, 3⟩] := by
  have h := Sl_ArrayMetaDataSlab_Set_heap_full 256 (by decide) 0 setFCMeta true 0 ⟨1, .val 99⟩ setFCHeap 0 1
    (Nat.le_refl _)
    (by intro c hc; rcases setFC_kids c hc with rfl | rfl <;> rfl)
    (setF_ids setFCMeta rfl)
    (setF_fresh setFCHeap rfl (by intro id h2 h3; simp [setFCHeap, h2, h3]))
    setFC_inv ⟨by decide, 99, rfl⟩ (by decide) (by decide)
  have hev : (ATree.set 256 1 (ofMeta setFCMeta) 0 ⟨1, .val 99⟩ setFCHeap.ctx).toOption.map
      (fun r => (r.1, (r.2.1 : MetaSlab (ATree 0)).children.length, slabIds 1 r.2.1, r.2.2.eff)) =
      some (⟨100, .val 0⟩, 1, [⟨1, 1⟩, ⟨1, 2⟩], [.store ⟨1, 2⟩, .store ⟨1, 2⟩, .store ⟨1, 1⟩, .remove ⟨1, 3⟩]) := by rfl
  cases hset : ATree.set 256 1 (ofMeta setFCMeta) 0 ⟨1, .val 99⟩ setFCHeap.ctx with
  | error e => rw [hset] at hev; cases hev
  | ok r =>
    obtain ⟨old, t', c'⟩ := r
    rw [hset] at h hev
    obtain ⟨s', e, hc, hp⟩ := h
    simp only [Except.toOption, Option.map_some, Option.some.injEq, Prod.mk.injEq] at hev
    obtain ⟨rfl, hlen, hids, heff⟩ := hev
    refine ⟨t', s', e, hp, hlen, ?_, by rw [hc]; exact heff⟩
    refine hp.gone ⟨1, 3⟩ (by decide) ?_
    rw [hids]; decide

end examples

end Atree.TransEq
