import AtreeProofs.WorldOkFrame
import AtreeProofs.World.WPopAll
import AtreeProofs.Props.C10WPopOps
/-
  C10 / C11 — EVERY mutating operation through a current handle keeps ALL current handles current
  and leaves everything that is not above the target untouched.  PROPERTY THEOREMS (audit a5, S2 and
  the frame half of S4).

  The operation theorems of `Props/C10W.lean` / `Props/C10WPopOps.lean` return current-ness only for
  the handle used (`HandleOk w' p`), so they do not chain along a history that switches handles.
  The theorems below have the same hypotheses and conclude in addition
  * `HandlesKept w w'` — every current handle of a container that is still there is current
    afterwards (the stored child becomes a current child handle, a container handed back becomes a
    current root handle, the children of `p` whose index shifted are still current, …);
  * `AncFrame w w' p M` — the STRONG FRAME: a container that is neither the target `p`, nor one of
    the containers `p` is nested in, nor moved by the operation (`M = Moved v old`: the stored child,
    the container handed back) has the SAME entry in the container table (content, element sizes,
    header size, inlined / standalone form, type), and no index table other than `p`'s changes.
    (`SigFrame` only says that kinds, keys and payloads are unchanged.)
  `*_all` are the deciding statements; the pinned `worldOk(')_arrInsert` … are their projections.
-/
namespace Atree.C10W
open Atree Gen World

/-! ### `WorldOk` -/

theorem worldOk_arrInsert_all (D : SlabID → DigestFn 4) (w : World) (p : SlabID) (i : Nat) (v : WVal) (cx : Ctx)
    (w' : World) (cx' : Ctx) (H : WorldOk D w cx.ctr) (hh : HandleOk w p)
    (hv : WValOk w p (maxInlineArr w.T) v) (h : w.arrInsert p i v cx = .ok (w', cx')) :
    WorldOk D w' cx'.ctr ∧ cx.ctr ≤ cx'.ctr ∧ InsertedAt w w' p i v ∧ HandleOk w' p ∧ SigFrame w w' p ∧
      HandlesKept w w' ∧ AncFrame w w' p (Moved (some v) none) := by
  obtain ⟨rank0, R0⟩ := H
  obtain ⟨g1, g2, g3, g4, g5, _⟩ := arrInsert_okA R0 hh hv h
  obtain ⟨k1, k2⟩ := all_of_opFrame R0 (fun r Hr => (arrInsert_okA Hr hh hv h).2.2.2.2.2)
  exact ⟨g1, g2, g3, g4, g5, k1, k2⟩

theorem worldOk_arrSet_all (D : SlabID → DigestFn 4) (w : World) (p : SlabID) (i : Nat) (v : WVal) (cx : Ctx)
    (old : Elem) (w' : World) (cx' : Ctx) (H : WorldOk D w cx.ctr) (hh : HandleOk w p)
    (hv : WValOk w p (maxInlineArr w.T) v) (h : w.arrSet p i v cx = .ok (old, w', cx')) :
    WorldOk D w' cx'.ctr ∧ cx.ctr ≤ cx'.ctr ∧ SetAt w w' p i v old ∧ HandleOk w' p ∧ SigFrame w w' p ∧
      HandlesKept w w' ∧ AncFrame w w' p (Moved (some v) (some old)) := by
  obtain ⟨rank0, R0⟩ := H
  obtain ⟨g1, g2, g3, g4, g5, _⟩ := arrSet_okA R0 hh hv h
  obtain ⟨k1, k2⟩ := all_of_opFrame R0 (fun r Hr => (arrSet_okA Hr hh hv h).2.2.2.2.2)
  exact ⟨g1, g2, g3, g4, g5, k1, k2⟩

theorem worldOk_arrRemove_all (D : SlabID → DigestFn 4) (w : World) (p : SlabID) (i : Nat) (cx : Ctx)
    (old : Elem) (w' : World) (cx' : Ctx) (H : WorldOk D w cx.ctr) (hh : HandleOk w p)
    (h : w.arrRemove p i cx = .ok (old, w', cx')) :
    WorldOk D w' cx'.ctr ∧ cx.ctr ≤ cx'.ctr ∧ RemovedAt w w' p i old ∧ HandleOk w' p ∧ SigFrame w w' p ∧
      HandlesKept w w' ∧ AncFrame w w' p (Moved none (some old)) := by
  obtain ⟨rank0, R0⟩ := H
  obtain ⟨g1, g2, g3, g4, g5, _⟩ := arrRemove_okA R0 hh h
  obtain ⟨k1, k2⟩ := all_of_opFrame R0 (fun r Hr => (arrRemove_okA Hr hh h).2.2.2.2.2)
  exact ⟨g1, g2, g3, g4, g5, k1, k2⟩

theorem worldOk_mapSet_all (D : SlabID → DigestFn 4) (w : World) (p : SlabID) (k : MKey) (v : WVal) (cx : Ctx)
    (old : Option Elem) (w' : World) (cx' : Ctx) (H : WorldOk D w cx.ctr) (hh : HandleOk w p)
    (hk : KeyOk w.T 4 (D p) k) (hv : WValOk w p (maxInlineMapValue w.T k.size) v)
    (h : w.mapSet p k v cx = .ok (old, w', cx')) :
    WorldOk D w' cx'.ctr ∧ cx.ctr ≤ cx'.ctr ∧ MapSetAt w w' p k v old ∧ HandleOk w' p ∧ SigFrame w w' p ∧
      HandlesKept w w' ∧ AncFrame w w' p (Moved (some v) old) := by
  obtain ⟨rank0, R0⟩ := H
  obtain ⟨g1, g2, g3, g4, g5, _⟩ := mapSet_okA R0 hh hk hv h
  obtain ⟨k1, k2⟩ := all_of_opFrame R0 (fun r Hr => (mapSet_okA Hr hh hk hv h).2.2.2.2.2)
  exact ⟨g1, g2, g3, g4, g5, k1, k2⟩

theorem worldOk_mapRemove_all (D : SlabID → DigestFn 4) (w : World) (p : SlabID) (k : MKey) (cx : Ctx)
    (rk : MKey) (rv : Elem) (w' : World) (cx' : Ctx) (H : WorldOk D w cx.ctr) (hh : HandleOk w p)
    (hk : KeyOk w.T 4 (D p) k) (h : w.mapRemove p k cx = .ok (rk, rv, w', cx')) :
    WorldOk D w' cx'.ctr ∧ cx.ctr ≤ cx'.ctr ∧ MapRemovedAt w w' p k rk rv ∧ HandleOk w' p ∧ SigFrame w w' p ∧
      HandlesKept w w' ∧ AncFrame w w' p (Moved none (some rv)) := by
  obtain ⟨rank0, R0⟩ := H
  obtain ⟨g1, g2, g3, g4, g5, _⟩ := mapRemove_okA R0 hh hk h
  obtain ⟨k1, k2⟩ := all_of_opFrame R0 (fun r Hr => (mapRemove_okA Hr hh hk h).2.2.2.2.2)
  exact ⟨g1, g2, g3, g4, g5, k1, k2⟩

theorem worldOk_setType_all (D : SlabID → DigestFn 4) (w : World) (p : SlabID) (ty : Nat) (cx : Ctx) (w' : World)
    (cx' : Ctx) (H : WorldOk D w cx.ctr) (hh : HandleOk w p) (h : w.setType p ty cx = .ok (w', cx')) :
    WorldOk D w' cx'.ctr ∧ cx.ctr ≤ cx'.ctr ∧
      (∃ c c', w.cont? p = some c ∧ w'.cont? p = some c' ∧ c'.storedElems = c.storedElems ∧ c'.vid = c.vid) ∧
      HandleOk w' p ∧ ContsSig w w' ∧ HandlesKept w w' ∧ AncFrame w w' p (Moved none none) := by
  obtain ⟨rank0, R0⟩ := H
  obtain ⟨g1, g2, g3, g4, g5, _⟩ := setType_okA R0 hh h
  obtain ⟨k1, k2⟩ := all_of_opFrame R0 (fun r Hr => (setType_okA Hr hh h).2.2.2.2.2)
  exact ⟨g1, g2, g3, g4, g5, k1, k2⟩

/-! ### `WorldOk'` (the invariant of ALL operations, pops and disposal included) -/

/-- `Array.Insert` through a current handle: `WorldOk'`, the list-level result, ALL current handles
    stay current, and everything that is not `p`, above `p`, or the stored child is untouched. -/
theorem worldOk'_arrInsert_all (D : SlabID → DigestFn 4) (w : World) (p : SlabID) (i : Nat) (v : WVal) (cx : Ctx)
    (w' : World) (cx' : Ctx) (H : WorldOk' D w cx.ctr) (hh : HandleOk w p)
    (hv : WValOk w p (maxInlineArr w.T) v) (h : w.arrInsert p i v cx = .ok (w', cx')) :
    WorldOk' D w' cx'.ctr ∧ cx.ctr ≤ cx'.ctr ∧ InsertedAt w w' p i v ∧ HandleOk w' p ∧ SigFrame w w' p ∧
      HandlesKept w w' ∧ AncFrame w w' p (Moved (some v) none) := by
  obtain ⟨H0, S⟩ := H.down
  obtain ⟨w0', h0, S'⟩ := sim_arrInsert S h
  obtain ⟨g1, g2, g3, g4, g5, k1, k2⟩ :=
    worldOk_arrInsert_all D _ p i v cx _ cx' H0 (S.handleOk_down hh) (S.wValOk hv) h0
  exact ⟨WorldOk'.up g1 S' g2, g2, S.insertedAt S' g3, S'.handleOk_up g4, S.sigFrame S' g5,
    S.handlesKept S' k1, S.ancFrame S' k2⟩

/-- `Array.Set` -/
theorem worldOk'_arrSet_all (D : SlabID → DigestFn 4) (w : World) (p : SlabID) (i : Nat) (v : WVal) (cx : Ctx)
    (old : Elem) (w' : World) (cx' : Ctx) (H : WorldOk' D w cx.ctr) (hh : HandleOk w p)
    (hv : WValOk w p (maxInlineArr w.T) v) (h : w.arrSet p i v cx = .ok (old, w', cx')) :
    WorldOk' D w' cx'.ctr ∧ cx.ctr ≤ cx'.ctr ∧ SetAt w w' p i v old ∧ HandleOk w' p ∧ SigFrame w w' p ∧
      HandlesKept w w' ∧ AncFrame w w' p (Moved (some v) (some old)) := by
  obtain ⟨H0, S⟩ := H.down
  obtain ⟨w0', h0, S'⟩ := sim_arrSet S h
  obtain ⟨g1, g2, g3, g4, g5, k1, k2⟩ :=
    worldOk_arrSet_all D _ p i v cx old _ cx' H0 (S.handleOk_down hh) (S.wValOk hv) h0
  exact ⟨WorldOk'.up g1 S' g2, g2, S.setAt S' g3, S'.handleOk_up g4, S.sigFrame S' g5,
    S.handlesKept S' k1, S.ancFrame S' k2⟩

/-- `Array.Remove` -/
theorem worldOk'_arrRemove_all (D : SlabID → DigestFn 4) (w : World) (p : SlabID) (i : Nat) (cx : Ctx)
    (old : Elem) (w' : World) (cx' : Ctx) (H : WorldOk' D w cx.ctr) (hh : HandleOk w p)
    (h : w.arrRemove p i cx = .ok (old, w', cx')) :
    WorldOk' D w' cx'.ctr ∧ cx.ctr ≤ cx'.ctr ∧ RemovedAt w w' p i old ∧ HandleOk w' p ∧ SigFrame w w' p ∧
      HandlesKept w w' ∧ AncFrame w w' p (Moved none (some old)) := by
  obtain ⟨H0, S⟩ := H.down
  obtain ⟨w0', h0, S'⟩ := sim_arrRemove S h
  obtain ⟨g1, g2, g3, g4, g5, k1, k2⟩ := worldOk_arrRemove_all D _ p i cx old _ cx' H0 (S.handleOk_down hh) h0
  exact ⟨WorldOk'.up g1 S' g2, g2, S.removedAt S' g3, S'.handleOk_up g4, S.sigFrame S' g5,
    S.handlesKept S' k1, S.ancFrame S' k2⟩

/-- `OrderedMap.Set` -/
theorem worldOk'_mapSet_all (D : SlabID → DigestFn 4) (w : World) (p : SlabID) (k : MKey) (v : WVal) (cx : Ctx)
    (old : Option Elem) (w' : World) (cx' : Ctx) (H : WorldOk' D w cx.ctr) (hh : HandleOk w p)
    (hk : KeyOk w.T 4 (D p) k) (hv : WValOk w p (maxInlineMapValue w.T k.size) v)
    (h : w.mapSet p k v cx = .ok (old, w', cx')) :
    WorldOk' D w' cx'.ctr ∧ cx.ctr ≤ cx'.ctr ∧ MapSetAt w w' p k v old ∧ HandleOk w' p ∧ SigFrame w w' p ∧
      HandlesKept w w' ∧ AncFrame w w' p (Moved (some v) old) := by
  obtain ⟨H0, S⟩ := H.down
  obtain ⟨w0', h0, S'⟩ := sim_mapSet S h
  obtain ⟨g1, g2, g3, g4, g5, k1, k2⟩ :=
    worldOk_mapSet_all D _ p k v cx old _ cx' H0 (S.handleOk_down hh) hk (S.wValOk hv) h0
  exact ⟨WorldOk'.up g1 S' g2, g2, S.mapSetAt S' g3, S'.handleOk_up g4, S.sigFrame S' g5,
    S.handlesKept S' k1, S.ancFrame S' k2⟩

/-- `OrderedMap.Remove` -/
theorem worldOk'_mapRemove_all (D : SlabID → DigestFn 4) (w : World) (p : SlabID) (k : MKey) (cx : Ctx)
    (rk : MKey) (rv : Elem) (w' : World) (cx' : Ctx) (H : WorldOk' D w cx.ctr) (hh : HandleOk w p)
    (hk : KeyOk w.T 4 (D p) k) (h : w.mapRemove p k cx = .ok (rk, rv, w', cx')) :
    WorldOk' D w' cx'.ctr ∧ cx.ctr ≤ cx'.ctr ∧ MapRemovedAt w w' p k rk rv ∧ HandleOk w' p ∧ SigFrame w w' p ∧
      HandlesKept w w' ∧ AncFrame w w' p (Moved none (some rv)) := by
  obtain ⟨H0, S⟩ := H.down
  obtain ⟨w0', h0, S'⟩ := sim_mapRemove S h
  obtain ⟨g1, g2, g3, g4, g5, k1, k2⟩ := worldOk_mapRemove_all D _ p k cx rk rv _ cx' H0 (S.handleOk_down hh) hk h0
  exact ⟨WorldOk'.up g1 S' g2, g2, S.mapRemovedAt S' g3, S'.handleOk_up g4, S.sigFrame S' g5,
    S.handlesKept S' k1, S.ancFrame S' k2⟩

/-- `SetType` -/
theorem worldOk'_setType_all (D : SlabID → DigestFn 4) (w : World) (p : SlabID) (ty : Nat) (cx : Ctx) (w' : World)
    (cx' : Ctx) (H : WorldOk' D w cx.ctr) (hh : HandleOk w p) (h : w.setType p ty cx = .ok (w', cx')) :
    WorldOk' D w' cx'.ctr ∧ cx.ctr ≤ cx'.ctr ∧
      (∃ c c', w.cont? p = some c ∧ w'.cont? p = some c' ∧ c'.storedElems = c.storedElems ∧ c'.vid = c.vid) ∧
      HandleOk w' p ∧ ContsSig w w' ∧ HandlesKept w w' ∧ AncFrame w w' p (Moved none none) := by
  obtain ⟨H0, S⟩ := H.down
  obtain ⟨w0', h0, S'⟩ := sim_setType S h
  obtain ⟨g1, g2, ⟨c, c', g3, g4, g5, g6⟩, g7, g8, k1, k2⟩ :=
    worldOk_setType_all D _ p ty cx _ cx' H0 (S.handleOk_down hh) h0
  exact ⟨WorldOk'.up g1 S' g2, g2, ⟨c, c', by rw [← S.cont?]; exact g3, by rw [← S'.cont?]; exact g4, g5, g6⟩,
    S'.handleOk_up g7, ⟨by rw [← S'.T, g8.T, S.T], fun q => by rw [← S'.cont?, g8.sig q, S.cont?]⟩,
    S.handlesKept S' k1, S.ancFrame S' k2⟩

end Atree.C10W
