import AtreeProofs.MapInv
import AtreeProofs.MapLemmas
import AtreeProofs.Map.Empty
import AtreeProofs.Map.TreeTop
/-
  C02 — Ordered map behaves as a dictionary under every operation history.
  PROPERTY THEOREMS: refinement of `OMap` operations to dictionary operations, for an arbitrary
  legal threshold `T`, an ARBITRARY digest function (any hash distribution, any collisions), any
  number of digest levels `r + 1`, arbitrary values (any size ≥ 1), keys up to the inline key limit.
-/
namespace Atree.C02
open Atree Gen

variable {r : Nat}

theorem inv_new (T : Nat) (hT : legalThreshold T = true) (D : DigestFn (r + 1)) (addr ty : Nat)
    (seedOf : SlabID → Nat) (c : Ctx) :
    MapInv T D (OMap.new (r := r) addr ty seedOf c).1 ∧ (OMap.new (r := r) addr ty seedOf c).1.toList = [] := by
  constructor
  · exact emptyMap_inv hT _ _ _
  · rfl

/-- Lookup: the value of a present key, key-not-found for an absent one; never any other error. -/
theorem get_refines (T : Nat) (hT : legalThreshold T = true) (D : DigestFn (r + 1)) (cfg : MCfg) (m : OMap r)
    (hcfg : CfgOk cfg T m) (h : MapInv T D m) (k : MKey) (hk : KeyOk T (r + 1) D k) :
    match dictLookup m.toList k with
    | some v => ∃ k', m.get cfg k = .ok (k', v) ∧ k'.same k = true
    | none => m.get cfg k = .error .keyNotFound := by
  have hg := OMap.get_spec hT hcfg h hk
  cases hd : dictLookup m.toList k with
  | none => rw [hd] at hg; exact hg
  | some v => rw [hd] at hg; exact ⟨k, hg, MKey.same_self k⟩

theorem has_refines (T : Nat) (hT : legalThreshold T = true) (D : DigestFn (r + 1)) (cfg : MCfg) (m : OMap r)
    (hcfg : CfgOk cfg T m) (h : MapInv T D m) (k : MKey) (hk : KeyOk T (r + 1) D k) :
    m.has cfg k = .ok (dictLookup m.toList k).isSome := by
  have hg := OMap.get_spec hT hcfg h hk
  cases hd : dictLookup m.toList k with
  | none => rw [hd] at hg; simp only [OMap.has, hg]; rfl
  | some v => rw [hd] at hg; simp only [OMap.has, hg]; rfl

/-- Insert / overwrite: succeeds unless the collision limit refuses a NEW key (C12); returns the
    previous value; afterwards the dictionary is the old one updated at `k`; the count follows;
    the invariant is preserved; root ID, type and seed are unchanged. -/
theorem set_refines (T : Nat) (hT : legalThreshold T = true) (D : DigestFn (r + 1)) (cfg : MCfg) (m : OMap r)
    (hcfg : CfgOk cfg T m) (h : MapInv T D m) (k : MKey) (hk : KeyOk T (r + 1) D k)
    (v : Elem) (hv : ValueOkM v) (c : Ctx) (hc : CtxOk m c) :
    (∃ old m' c', m.set cfg k v c = .ok (old, m', c') ∧
        old = dictLookup m.toList k ∧
        (∀ k', KeyOk T (r + 1) D k' →
           dictLookup m'.toList k' = if k'.same k then some (storedValue cfg k v c) else dictLookup m.toList k') ∧
        m'.count = (if (dictLookup m.toList k).isSome then m.count else m.count + 1) ∧
        MapInv T D m' ∧ CtxOk m' c' ∧ m'.rootID = m.rootID ∧ m'.ty = m.ty ∧ m'.seed = m.seed) ∨
    (m.set cfg k v c = .error .collisionLimit ∧ dictLookup m.toList k = none) := by
  sorry

/-- Removal: key-not-found for an absent key (and nothing else can go wrong); otherwise returns the
    stored key and value and the dictionary loses exactly that key. -/
theorem remove_refines (T : Nat) (hT : legalThreshold T = true) (D : DigestFn (r + 1)) (cfg : MCfg) (m : OMap r)
    (hcfg : CfgOk cfg T m) (h : MapInv T D m) (k : MKey) (hk : KeyOk T (r + 1) D k) (c : Ctx) (hc : CtxOk m c) :
    match dictLookup m.toList k with
    | none => m.remove cfg k c = .error .keyNotFound
    | some v =>
      ∃ k0 m' c', m.remove cfg k c = .ok (k0, v, m', c') ∧ k0.same k = true ∧
        (∀ k', KeyOk T (r + 1) D k' →
           dictLookup m'.toList k' = if k'.same k then none else dictLookup m.toList k') ∧
        m'.count = m.count - 1 ∧ MapInv T D m' ∧ CtxOk m' c' ∧
        m'.rootID = m.rootID ∧ m'.ty = m.ty ∧ m'.seed = m.seed := by
  sorry

/-- Bulk pop: every pair exactly once (in reverse iteration order), the map ends up empty. -/
theorem pop_refines (T : Nat) (hT : legalThreshold T = true) (D : DigestFn (r + 1)) (m : OMap r)
    (h : MapInv T D m) (c : Ctx) (hc : CtxOk m c) :
    (m.popIterate c).1 = m.toList.reverse ∧ (m.popIterate c).2.1.toList = [] ∧ (m.popIterate c).2.1.count = 0 ∧
    MapInv T D (m.popIterate c).2.1 ∧ (m.popIterate c).2.1.rootID = m.rootID := by
  have hinl : m.isInlined = false := h.standalone
  have hres : (m.popIterate c).2.1 = ⟨0, emptyRoot r m.rootID, m.ty, 0, m.seed⟩ := by
    simp only [OMap.popIterate, hinl, emptyRoot]
    rfl
  refine ⟨?_, ?_, ?_, ?_, ?_⟩
  · simp only [OMap.popIterate, OMap.toList]
    exact MTree.popIterate_fst m.d m.root c
  · rw [hres]; rfl
  · rw [hres]
  · rw [hres]; exact emptyMap_inv hT _ _ _
  · rw [hres]; rfl

theorem count_refines (T : Nat) (D : DigestFn (r + 1)) (m : OMap r) (h : MapInv T D m) :
    m.count = m.toList.length := h.count_eq

end Atree.C02
