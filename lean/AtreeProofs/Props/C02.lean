import AtreeProofs.MapInv
import AtreeProofs.MapLemmas
import AtreeProofs.Map.Empty
import AtreeProofs.Map.TreeTop
import AtreeProofs.Map.Limit
import AtreeProofs.Map.Example
/-
  C02 — Ordered map behaves as a dictionary under every operation history.
  PROPERTY THEOREMS: refinement of `OMap` operations to dictionary operations, for an arbitrary
  legal threshold `T`, an ARBITRARY digest function (any hash distribution, any collisions), any
  number of digest levels `r + 1`, arbitrary values (any size ≥ 1), keys up to the inline key limit.
-/
namespace Atree.C02
open Atree Gen

variable {r : Nat}

theorem inv_new (T : Nat) (hT : legalThreshold T = true) (D : DigestFn (r + 1)) (addr ty : Nat)
    (seedOf : SlabID → Nat) (c : Ctx) :
    MapInv T D (OMap.new (r := r) addr ty seedOf c).1 ∧ (OMap.new (r := r) addr ty seedOf c).1.toList = [] := by
  constructor
  · exact emptyMap_inv hT _ _ _
  · rfl

/-- Lookup: the value of a present key, key-not-found for an absent one; never any other error. -/
theorem get_refines (T : Nat) (hT : legalThreshold T = true) (D : DigestFn (r + 1)) (cfg : MCfg) (m : OMap r)
    (hcfg : CfgOk cfg T m) (h : MapInv T D m) (k : MKey) (hk : KeyOk T (r + 1) D k) :
    match dictLookup m.toList k with
    | some v => ∃ k', m.get cfg k = .ok (k', v) ∧ k'.same k = true
    | none => m.get cfg k = .error .keyNotFound := by
  have hg := OMap.get_spec hT hcfg h hk
  cases hd : dictLookup m.toList k with
  | none => rw [hd] at hg; exact hg
  | some v => rw [hd] at hg; exact ⟨k, hg, MKey.same_self k⟩

theorem has_refines (T : Nat) (hT : legalThreshold T = true) (D : DigestFn (r + 1)) (cfg : MCfg) (m : OMap r)
    (hcfg : CfgOk cfg T m) (h : MapInv T D m) (k : MKey) (hk : KeyOk T (r + 1) D k) :
    m.has cfg k = .ok (dictLookup m.toList k).isSome := by
  have hg := OMap.get_spec hT hcfg h hk
  cases hd : dictLookup m.toList k with
  | none => rw [hd] at hg; simp only [OMap.has, hg]; rfl
  | some v => rw [hd] at hg; simp only [OMap.has, hg]; rfl

/-- Insert / overwrite: succeeds unless the collision limit refuses a NEW key (C12); returns the
    previous value; afterwards the dictionary is the old one updated at `k`; the count follows;
    the invariant is preserved; root ID, type and seed are unchanged. -/
theorem set_refines (T : Nat) (hT : legalThreshold T = true) (D : DigestFn (r + 1)) (cfg : MCfg) (m : OMap r)
    (hcfg : CfgOk cfg T m) (h : MapInv T D m) (k : MKey) (hk : KeyOk T (r + 1) D k)
    (v : Elem) (hv : ValueOkM v) (c : Ctx) (hc : CtxOk m c) :
    (∃ old m' c', m.set cfg k v c = .ok (old, m', c') ∧
        old = dictLookup m.toList k ∧
        (∀ k', KeyOk T (r + 1) D k' →
           dictLookup m'.toList k' = if k'.same k then some (storedValue cfg k v c) else dictLookup m.toList k') ∧
        m'.count = (if (dictLookup m.toList k).isSome then m.count else m.count + 1) ∧
        MapInv T D m' ∧ CtxOk m' c' ∧ m'.rootID = m.rootID ∧ m'.ty = m.ty ∧ m'.seed = m.seed) ∨
    (m.set cfg k v c = .error .collisionLimit ∧ dictLookup m.toList k = none) := by
  have hs := OMap.set_spec hT hcfg h hk hv c
  by_cases hl : TLimited cfg m.d m.root k
  · right
    exact ⟨hs.1 hl, (dictLookup_none_iff h.allKeyOk hk).mpr (tlimited_absent hT m.d true m.root h.sinv hl)⟩
  · left
    obtain ⟨old, m', c', heq, hp⟩ := hs.2 hl
    obtain ⟨e1, _, _, e4⟩ := hp.eff.spec h.allKeyOk h.distinct hk
    refine ⟨old, m', c', heq, e1, e4, ?_, hp.inv, hp.ctx hc, hp.rootID, hp.ty, hp.seed⟩
    rw [hp.count, ← e1]
    cases old <;> simp

/-- Removal: key-not-found for an absent key (and nothing else can go wrong); otherwise returns the
    stored key and value and the dictionary loses exactly that key; the count goes down by exactly
    one (stated without truncated subtraction: `m'.count + 1 = m.count`). -/
theorem remove_refines (T : Nat) (hT : legalThreshold T = true) (D : DigestFn (r + 1)) (cfg : MCfg) (m : OMap r)
    (hcfg : CfgOk cfg T m) (h : MapInv T D m) (k : MKey) (hk : KeyOk T (r + 1) D k) (c : Ctx) (hc : CtxOk m c) :
    match dictLookup m.toList k with
    | none => m.remove cfg k c = .error .keyNotFound
    | some v =>
      ∃ k0 m' c', m.remove cfg k c = .ok (k0, v, m', c') ∧ k0.same k = true ∧
        (∀ k', KeyOk T (r + 1) D k' →
           dictLookup m'.toList k' = if k'.same k then none else dictLookup m.toList k') ∧
        m'.count + 1 = m.count ∧ MapInv T D m' ∧ CtxOk m' c' ∧
        m'.rootID = m.rootID ∧ m'.ty = m.ty ∧ m'.seed = m.seed := by
  have hs := OMap.remove_spec hT hcfg h hk c hc
  cases hd : dictLookup m.toList k with
  | none =>
    simp only
    exact hs.1 ((dictLookup_none_iff h.allKeyOk hk).mp hd)
  | some v =>
    simp only
    have hmem := mem_of_dictLookup_some h.allKeyOk hk hd
    obtain ⟨m', c', heq, hp⟩ := hs.2 v hmem
    obtain ⟨_, _, _, e4⟩ := hp.eff.spec h.allKeyOk h.distinct hk
    have hpos : 1 ≤ m.count := by
      rw [h.count_eq]; exact List.length_pos_of_mem hmem
    exact ⟨k, m', c', heq, MKey.same_self k, e4, by rw [hp.count]; omega, hp.inv, hp.ctx, hp.rootID, hp.ty,
      hp.seed⟩

/-- Bulk pop: every pair exactly once (in reverse iteration order), the map ends up empty. -/
theorem pop_refines (T : Nat) (hT : legalThreshold T = true) (D : DigestFn (r + 1)) (m : OMap r)
    (h : MapInv T D m) (c : Ctx) (hc : CtxOk m c) :
    (m.popIterate c).1 = m.toList.reverse ∧ (m.popIterate c).2.1.toList = [] ∧ (m.popIterate c).2.1.count = 0 ∧
    MapInv T D (m.popIterate c).2.1 ∧ (m.popIterate c).2.1.rootID = m.rootID := by
  have _ := hc
  have hinl : m.isInlined = false := h.standalone
  have hres : (m.popIterate c).2.1 = ⟨0, emptyRoot r m.rootID, m.ty, 0, m.seed⟩ := by
    simp only [OMap.popIterate, hinl, emptyRoot]
    rfl
  refine ⟨?_, ?_, ?_, ?_, ?_⟩
  · simp only [OMap.popIterate, OMap.toList]
    exact MTree.popIterate_fst m.d m.root c
  · rw [hres]; rfl
  · rw [hres]
  · rw [hres]; exact emptyMap_inv hT _ _ _
  · rw [hres]; rfl

theorem count_refines (T : Nat) (D : DigestFn (r + 1)) (m : OMap r) (h : MapInv T D m) :
    m.count = m.toList.length := h.count_eq

/-! ### Non-vacuity

A concrete map is built by RUNNING the model: two digest levels (`r = 1`), threshold 256, a digest
function that maps a key to the hundreds and tens digit of its payload (so collisions at the
first level, at both levels, and none all occur), collision limit 1; 19 `set`s and one `remove`
(`MapExample.run`).  The invariant and the context hypothesis hold for it, the map has an index
slab root over several data slabs, an inline group, an external group and last-level lists, so
the hypotheses of the theorems above are satisfiable in a non-trivial state. -/
section NonVacuity
open MapExample

example : MapInv 256 D2 run.1 := run_good.inv
example : CtxOk run.1 run.2 := run_good.ctx
example : CfgOk cfg2 256 run.1 := run_good.cfgok

/-- the root has been split: an index slab over data slabs -/
example : run.1.d = 1 := by decide
example : run.1.count = 18 := by decide
/-- first-level elements, leaf by leaf: singles, inline groups and one external group -/
example : kinds run.1 =
    ["single", "inline", "inline", "external", "inline", "inline", "single", "single", "single"] := by decide
/-- iteration order = digest order; the fully colliding keys 311..314 in insertion order -/
example : run.1.toList.map (fun p => p.1.pay) =
    [11, 111, 112, 121, 211, 221, 311, 312, 313, 314, 321, 511, 521, 611, 621, 711, 811, 911] := by decide

/-- the theorems apply to this state (all hypotheses discharged) -/
example := get_refines 256 legal256 D2 cfg2 run.1 run_good.cfgok run_good.inv (key 313) (key_ok _)
example := set_refines 256 legal256 D2 cfg2 run.1 run_good.cfgok run_good.inv (key 122) (key_ok _) (val 0)
  (val_ok _) run.2 run_good.ctx
example := remove_refines 256 legal256 D2 cfg2 run.1 run_good.cfgok run_good.inv (key 313) (key_ok _) run.2
  run_good.ctx
example := pop_refines 256 legal256 D2 run.1 run_good.inv run.2 run_good.ctx

/-- and the model agrees with them on concrete instances -/
example : dictLookup run.1.toList (key 313) = some (val 7) := by decide
example : (run.1.has cfg2 (key 313)).toOption = some true := by decide
example : (run.1.has cfg2 (key 315)).toOption = some false := by decide

end NonVacuity

end Atree.C02
