import AtreeProofs.Trans.MapDescent
/-
  WP13 (pop): the generated `MapDataSlab_PopIterate`, `MapSlab_PopIterate`, `MapMetaDataSlab_PopIterate` (+ `loop1`) of
  `Gen/TransMapDescent.lean` over a heap (`envD`) are the model's `MDataSlab.popIterate` / `MTree.popIterate`.

  HISTORY (finding 1 of the first version, FIXED in the translation table).  Go's `MapDataSlab.PopIterate` calls
  `m.elements.PopIterate(storage, fn)`; the receiver `*hkeyElements` resets ITSELF there (`e.hkeys = nil; e.elems = nil;
  e.size = hkeyElementsPrefixSize`).  The first generated text did not return the receiver of `elements_PopIterate`, so
  the generated data slab kept its old elements.  Now `elements.PopIterate` is declared as mutating its receiver
  (`elements_PopIterate : G → S → Option ε × G × S`, the generated `MapDataSlab_PopIterate` does
  `m.elements := r1_.2.1`) and `envD` returns the emptied elements: the generated result IS the model's
  `MDataSlab.popIterate` unconditionally, at every depth.
-/
namespace Atree.TransEq
open Atree Atree.Gen.TransMapD

variable {r : Nat}

/-! ### the data slab -/

/-- the elements are already the empty `hkeyElements` (what `elements.PopIterate` leaves behind) -/
def mdp_ElemsEmpty (g : DG r) : Prop := g.hkeys = [] ∧ g.elems = [] ∧ g.size = Gen.hkeyElementsPrefixSize

/-- what the generated `MapDataSlab_PopIterate` returns as the receiver: the model's popped slab -/
abbrev mdp_dataRes (sl : MDataSlab r) (x : Option DX) (c : Ctx) : MapDataSlab (DG r) DX :=
  md_data (sl.popIterate c).2.1 x

/-- the storage after `elements.PopIterate` of a data slab -/
def mdp_dataPost (sl : MDataSlab r) (s : MHSt r) : MHSt r :=
  { s with ctx := (sl.popIterate s.ctx).2.2, popped := s.popped ++ (sl.popIterate s.ctx).1 }

theorem mdp_u32_add (a b : Nat) : u32 a + u32 b = u32 (a + b) := by
  simp [u32]

/-- `MapDataSlab.PopIterate` (map_data_slab.go) over a heap: the model's `MDataSlab.popIterate` (elements emptied,
    `header.size = getPrefixSize() + hkeyElementsPrefixSize`, `header.firstKey = 0`).  `x.isSome = sl.root`:
    `getPrefixSize` tests `extraData != nil`, the model the flag `root`. -/
theorem Ob_MapDataSlab_PopIterate_heap (T : Nat) (eb : DEnvB r) (rs : DRestruct r) (sl : MDataSlab r)
    (x : Option DX) (s : MHSt r) (hx : x.isSome = sl.root) :
    MapDataSlab_PopIterate (envD T eb rs) (md_data sl x) s =
      (none, md_data (sl.popIterate s.ctx).2.1 x, mdp_dataPost sl s) := by
  have hp : MapDataSlab_getPrefixSize (envD T eb rs) (md_data sl x) = u32 sl.prefixSize := by
    unfold MapDataSlab_getPrefixSize MDataSlab.prefixSize
    cases hi : sl.inlined <;> cases hr : sl.root <;> cases x <;> simp_all [md_data]
  unfold MapDataSlab_PopIterate
  simp only [envD, mdp_dataPost, MDataSlab.popIterate, md_data, md_hdr, MDataSlab.eops]
  simp only [Option.isNone_none, Bool.not_true, Bool.false_eq_true, if_false]
  have hp' := hp
  simp only [md_data, md_hdr] at hp'
  refine Prod.ext rfl (Prod.ext ?_ rfl)
  simp only
  congr 1
  simp [MapDataSlab_getPrefixSize] at hp' ⊢
  exact hp'

/-- model and generated text agree on a data slab (the same statement as `Ob_MapDataSlab_PopIterate_heap` since the
    translation returns the emptied elements; kept under its old name, the hypothesis `mdp_ElemsEmpty` is gone) -/
theorem Ob_MapDataSlab_PopIterate_heap_model (T : Nat) (eb : DEnvB r) (rs : DRestruct r) (sl : MDataSlab r)
    (x : Option DX) (s : MHSt r) (hx : x.isSome = sl.root) :
    MapDataSlab_PopIterate (envD T eb rs) (md_data sl x) s =
      (none, md_data (sl.popIterate s.ctx).2.1 x, mdp_dataPost sl s) :=
  Ob_MapDataSlab_PopIterate_heap T eb rs sl x s hx

/-! ### the tree -/

/-- membership of an identifier in a list, decidable through `DecidableEq SlabID` (the derived `BEq SlabID` is a
    separate instance, so the library instance does not apply) -/
instance mdp_decMem : (id : SlabID) → (l : List SlabID) → Decidable (id ∈ l)
  | _, [] => isFalse (by simp)
  | id, a :: l =>
    if h : id = a then isTrue (by simp [h])
    else match mdp_decMem id l with
      | isTrue h' => isTrue (by simp [h'])
      | isFalse h' => isFalse (by simp [h, h'])

/-- the children headers of every index slab are the headers of its children (part of `MTreeInv`) -/
def mdp_Wf : (d : Nat) → MTree r d → Prop
  | 0, _ => True
  | d + 1, (m : MMetaSlab (MTree r d)) => m.childHdrs = m.children.map (MTree.hdr d) ∧ ∀ c ∈ m.children, mdp_Wf d c

theorem mdp_Wf_of_inv {T : Nat} {D : DigestFn (r + 1)} : ∀ (d : Nat) (top : Bool) (t : MTree r d),
    MTreeInv T D d top t → mdp_Wf d t
  | 0, _, _, _ => trivial
  | d + 1, _, (_ : MMetaSlab (MTree r d)), h => ⟨h.2.1, fun c hc => mdp_Wf_of_inv d false c (h.2.2.2.2.1 c hc)⟩

/-- the model's loop of `MapMetaDataSlab.PopIterate` on the children LAST TO FIRST (the list is already reversed) -/
def mdp_popList (d : Nat) : List (MTree r d) → Ctx → List (MKey × Elem) × Ctx
  | [], c => ([], c)
  | a :: rest, c =>
    let q := MTree.popIterate d a c
    let p := mdp_popList d rest (q.2.2.emit (.remove (MTree.hdr d a).id))
    (q.1 ++ p.1, p.2)

theorem mdp_foldl_eq (d : Nat) : ∀ (xs : List (MTree r d)) (a : List (MKey × Elem)) (c : Ctx),
    xs.foldl (fun (acc : List (MKey × Elem) × Ctx) child =>
        let (es, _, c) := MTree.popIterate d child acc.2
        (acc.1 ++ es, c.emit (.remove (MTree.hdr d child).id))) (a, c) =
      (a ++ (mdp_popList d xs c).1, (mdp_popList d xs c).2)
  | [], a, c => by simp [mdp_popList]
  | x :: xs, a, c => by
    rw [List.foldl_cons]
    simp only [mdp_popList]
    rw [mdp_foldl_eq d xs]
    simp [List.append_assoc]

theorem mdp_popIterate_succ (d : Nat) (m : MMetaSlab (MTree r d)) (c : Ctx) :
    MTree.popIterate (d + 1) m c =
      ((mdp_popList d m.children.reverse c).1,
       ({ m with childHdrs := [], children := [],
                 hdr := { m.hdr with firstKey := 0, size := Gen.mapMetaDataSlabPrefixSize } } : MMetaSlab (MTree r d)),
       (mdp_popList d m.children.reverse c).2) := by
  simp only [MTree.popIterate]
  rw [mdp_foldl_eq d]
  rfl

/-- the storage after `PopIterate` of a subtree root: the slabs BELOW the root are gone, the rest is untouched -/
def mdp_post (d : Nat) (t : MTree r d) (s : MHSt r) : MHSt r :=
  { heap := fun id => if id ∈ (md_ids d t).tail then none else s.heap id,
    ctx := (MTree.popIterate d t s.ctx).2.2,
    popped := s.popped ++ (MTree.popIterate d t s.ctx).1 }

/-- what the generated `MapSlab_PopIterate` returns as the receiver: the model's popped tree -/
abbrev mdp_treeRes (d : Nat) (t : MTree r d) (x : Option DX) (c : Ctx) : DSlab r :=
  md_tree d (MTree.popIterate d t c).2.1 x

theorem mdp_treeRes_succ (d : Nat) (t : MTree r (d + 1)) (x : Option DX) (c : Ctx) :
    mdp_treeRes (d + 1) t x c = md_tree (d + 1) (MTree.popIterate (d + 1) t c).2.1 x := rfl

/-- `x` is present iff the subtree root carries the flag `root` (only a data slab's prefix size looks at it) -/
def mdp_RootOk : (d : Nat) → MTree r d → Option DX → Prop
  | 0, (sl : MDataSlab r), x => x.isSome = sl.root
  | _ + 1, _, _ => True

/-- the data slabs of the tree below the root do not carry the flag `root` -/
def mdp_LeafOk : (d : Nat) → MTree r d → Prop
  | 0, _ => True
  | d + 1, (m : MMetaSlab (MTree r d)) => ∀ c ∈ m.children, mdp_RootOk d c none ∧ mdp_LeafOk d c

theorem mdp_ids_cons (d : Nat) (t : MTree r d) : md_ids d t = (MTree.hdr d t).id :: (md_ids d t).tail := by
  cases d <;> rfl

theorem mdp_tree_isNil (d : Nat) (t : MTree r d) (x : Option DX) : (md_tree d t x).isNil = false := by
  cases d <;> rfl

theorem mdp_getMapSlab_some (T : Nat) (eb : DEnvB r) (rs : DRestruct r) (s : MHSt r) (id : SlabID) (v : DSlab r)
    (h : s.heap id = some v) (hv : v.isNil = false) : getMapSlab (envD T eb rs) s id = (v, none, s) := by
  unfold getMapSlab
  simp [h, hv]

theorem mdp_getMapSlab_none (T : Nat) (eb : DEnvB r) (rs : DRestruct r) (s : MHSt r) (id : SlabID)
    (h : s.heap id = none) : getMapSlab (envD T eb rs) s id = (.nil, some .slabNotFound, s) := by
  unfold getMapSlab
  simp [h]

/-- a heap that agrees with `h` on the identifiers of a tree holds it too -/
theorem mdp_holds_congr {h h' : SlabID → Option (DSlab r)} : ∀ (d : Nat) (t : MTree r d) (x : Option DX),
    MHolds h d t x → (∀ id ∈ md_ids d t, h' id = h id) → MHolds h' d t x
  | 0, (sl : MDataSlab r), x, hh, he => by
    have := he sl.hdr.id (by simp [md_ids])
    simp only [MHolds] at hh ⊢
    rw [this]; exact hh
  | d + 1, (m : MMetaSlab (MTree r d)), x, hh, he => by
    refine ⟨?_, fun c hc => mdp_holds_congr d c none (hh.2 c hc) (fun id hid => he id ?_)⟩
    · rw [he m.hdr.id (by simp [md_ids])]; exact hh.1
    · simp only [md_ids, List.mem_cons, List.mem_flatMap]
      exact Or.inr ⟨c, hc, hid⟩

/-- the specification of the recursive call used by the loop -/
def mdp_RecSpec (T : Nat) (eb : DEnvB r) (rs : DRestruct r) (d : Nat)
    (rec_ : MapMetaDataSlab DX → MHSt r → Option (Option GE × MapMetaDataSlab DX × MHSt r)) : Prop :=
  ∀ (t : MTree r d) (x : Option DX) (s : MHSt r), MHolds s.heap d t x → (md_ids d t).Nodup → mdp_Wf d t →
    mdp_RootOk d t x → mdp_LeafOk d t →
    MapSlab_PopIterate (envD T eb rs) rec_ (md_tree d t x) s = some (none, mdp_treeRes d t x s.ctx, mdp_post d t s)

/-- loop 1 of `MapMetaDataSlab.PopIterate` with `n` iterations left: the children `0 .. n-1` are popped last to first,
    each one fetched from the heap, popped, removed -/
theorem mdp_popLoop (T : Nat) (eb : DEnvB r) (rs : DRestruct r) (d : Nat)
    (rec_ : MapMetaDataSlab DX → MHSt r → Option (Option GE × MapMetaDataSlab DX × MHSt r))
    (hrec : mdp_RecSpec T eb rs d rec_) (m : MMetaSlab (MTree r d)) (x : Option DX)
    (hw : m.childHdrs = m.children.map (MTree.hdr d)) :
    ∀ (n : Nat) (s : MHSt r), n ≤ m.children.length →
      (∀ c ∈ m.children.take n, MHolds s.heap d c none) →
      ((m.children.take n).flatMap (md_ids d)).Nodup →
      (∀ c ∈ m.children.take n, mdp_Wf d c ∧ mdp_RootOk d c none ∧ mdp_LeafOk d c) →
      MapMetaDataSlab_PopIterate.loop1 (envD T eb rs) (md_meta m x) rec_ n s =
        .done { heap := fun id => if id ∈ (m.children.take n).flatMap (md_ids d) then none else s.heap id,
                ctx := (mdp_popList d (m.children.take n).reverse s.ctx).2,
                popped := s.popped ++ (mdp_popList d (m.children.take n).reverse s.ctx).1 }
  | 0, s, _, _, _, _ => by
    simp [MapMetaDataSlab_PopIterate.loop1, mdp_popList]
  | n + 1, s, hn, hh, hnd, hok => by
    have hlt : n < m.children.length := hn
    have htake : m.children.take (n + 1) = m.children.take n ++ [m.children[n]] := by
      rw [List.take_succ_eq_append_getElem hlt]
    have hmemn : m.children[n] ∈ m.children.take (n + 1) := by
      rw [htake]; exact List.mem_append_right _ (List.mem_singleton.mpr rfl)
    have hsub : ∀ c ∈ m.children.take n, c ∈ m.children.take (n + 1) := fun c hc => by rw [htake]; exact List.mem_append_left _ hc
    have hcn := hh m.children[n] hmemn
    have hokn := hok m.children[n] hmemn
    rw [htake] at hnd ⊢
    rw [List.flatMap_append, List.nodup_append] at hnd
    obtain ⟨hnd1, hnd2, hdisj⟩ := hnd
    simp only [List.flatMap_cons, List.flatMap_nil, List.append_nil] at hnd2 hdisj
    have hidx : goIdx (md_meta m x).childrenHeaders (Int.ofNat n) = some (md_hdr (MTree.hdr d m.children[n])) := by
      simp [goIdx, md_meta, hw, hlt]
    unfold MapMetaDataSlab_PopIterate.loop1
    simp only [hidx]
    have hid : (md_hdr (MTree.hdr d m.children[n])).slabID = (MTree.hdr d m.children[n]).id := rfl
    rw [hid, mdp_getMapSlab_some T eb rs s _ _ hcn.root (mdp_tree_isNil _ _ _)]
    simp only [Option.isNone_none, Bool.not_true, Bool.false_eq_true, if_false]
    rw [hrec m.children[n] none s hcn hnd2 hokn.1 hokn.2.1 hokn.2.2]
    simp only [Option.isNone_none, Bool.not_true, Bool.false_eq_true, if_false, envD_remove]
    rw [mdp_popLoop T eb rs d rec_ hrec m x hw n _ (Nat.le_of_lt hlt)]
    · simp only [MHSt.remove, mdp_post, List.reverse_append, List.reverse_cons, List.reverse_nil, List.nil_append,
        List.cons_append, mdp_popList, List.flatMap_append, List.flatMap_cons, List.flatMap_nil, List.append_nil,
        List.mem_append, List.append_assoc]
      congr 2
      funext id
      rw [mdp_ids_cons d m.children[n]]
      simp only [List.mem_cons]
      by_cases h1 : id ∈ (m.children.take n).flatMap (md_ids d) <;> by_cases h2 : id = (MTree.hdr d m.children[n]).id <;>
        by_cases h3 : id ∈ (md_ids d m.children[n]).tail <;> simp [h1, h2, h3]
    · intro c hc
      refine mdp_holds_congr d c none (hh c (hsub c hc)) (fun id hid => ?_)
      have hmem : id ∈ (m.children.take n).flatMap (md_ids d) := List.mem_flatMap.mpr ⟨c, hc, hid⟩
      have hne := hdisj id hmem
      have hnot : id ∉ md_ids d m.children[n] := fun h => hne id h rfl
      rw [mdp_ids_cons] at hnot
      simp only [List.mem_cons, not_or] at hnot
      simp [MHSt.remove, mdp_post, hnot.1, hnot.2]
    · exact hnd1
    · intro c hc; exact hok c (hsub c hc)

theorem mdp_count (m : MMetaSlab (MTree r d)) (x : Option DX) (hw : m.childHdrs = m.children.map (MTree.hdr d)) :
    (((Int.ofNat (md_meta m x).childrenHeaders.length) - (1 : Int)) + 1).toNat = m.children.length := by
  simp [md_meta, hw]

/-- `MapMetaDataSlab.PopIterate` at depth `d + 1` from the specification of the recursive call at depth `d` -/
theorem mdp_popMeta (T : Nat) (eb : DEnvB r) (rs : DRestruct r) (d depth : Nat)
    (hrec : mdp_RecSpec T eb rs d (MapMetaDataSlab_PopIterate (envD T eb rs) depth))
    (m : MMetaSlab (MTree r d)) (x : Option DX) (s : MHSt r)
    (hh : MHolds s.heap (d + 1) m x) (hnd : (md_ids (d + 1) m).Nodup) (hw : mdp_Wf (d + 1) m)
    (hl : mdp_LeafOk (d + 1) m) :
    MapMetaDataSlab_PopIterate (envD T eb rs) (depth + 1) (md_meta m x) s =
      some (none, md_meta (MTree.popIterate (d + 1) m s.ctx).2.1 x, mdp_post (d + 1) m s) := by
  have hloop := mdp_popLoop T eb rs d _ hrec m x hw.1 m.children.length s (Nat.le_refl _)
  rw [List.take_length] at hloop
  have hnd' : (m.children.flatMap (md_ids d)).Nodup := (List.nodup_cons.mp hnd).2
  have hloop' := hloop hh.2 hnd' (fun c hc => ⟨hw.2 c hc, (hl c hc).1, (hl c hc).2⟩)
  unfold MapMetaDataSlab_PopIterate
  simp only [mdp_count m x hw.1, hloop']
  rw [mdp_popIterate_succ]
  simp only [mdp_post, mdp_popIterate_succ, md_ids, List.tail_cons]
  rfl

/-- the specification of `MapSlab.PopIterate` holds at every depth the recursion argument covers -/
theorem mdp_recSpec (T : Nat) (eb : DEnvB r) (rs : DRestruct r) :
    ∀ (depth d : Nat), d ≤ depth → mdp_RecSpec T eb rs d (MapMetaDataSlab_PopIterate (envD T eb rs) depth)
  | depth, 0, _ => by
    intro (sl : MDataSlab r) x s hh _ _ hx _
    show MapSlab_PopIterate _ _ (.dataSlab (md_data sl x)) s = _
    unfold MapSlab_PopIterate
    simp only [Ob_MapDataSlab_PopIterate_heap T eb rs sl x s hx, mdp_treeRes]
    have hpost : mdp_dataPost sl s = mdp_post 0 sl s := by
      simp [mdp_post, mdp_dataPost, md_ids, MTree.popIterate]
    rw [hpost]
    rfl
  | 0, d + 1, h => absurd h (by omega)
  | depth + 1, d + 1, h => by
    intro (m : MMetaSlab (MTree r d)) x s hh hnd hw _ hl
    have hrec := mdp_recSpec T eb rs depth d (by omega)
    show MapSlab_PopIterate _ _ (.metaSlab (md_meta m x)) s = _
    unfold MapSlab_PopIterate
    simp only [mdp_popMeta T eb rs d depth hrec m x s hh hnd hw hl]
    rfl

/-- `MapSlab.PopIterate` (dispatcher; `MapMetaDataSlab.PopIterate`, map_metadata_slab.go, with its loop) over a heap that
    holds the tree `t`: the model's `MTree.popIterate`.  The callback received the model's list, the `Ctx` is the
    model's, every slab of the tree BELOW the root has been removed from the storage, nothing else changed.
    Hypotheses: the identifiers of the tree are pairwise distinct (`Nodup`: removing a popped child must not remove a
    sibling that is still to be popped), the children headers are the children's headers (`mdp_Wf`, from `MTreeInv`),
    extra data present iff `root` on data slabs (`mdp_RootOk`, `mdp_LeafOk`: `getPrefixSize`). -/
theorem Ob_MapSlab_PopIterate_heap (T : Nat) (eb : DEnvB r) (rs : DRestruct r) (depth d : Nat) (hd : d ≤ depth)
    (t : MTree r d) (x : Option DX) (s : MHSt r)
    (hh : MHolds s.heap d t x) (hnd : (md_ids d t).Nodup) (hw : mdp_Wf d t)
    (hx : mdp_RootOk d t x) (hl : mdp_LeafOk d t) :
    ∃ s' : MHSt r,
      MapSlab_PopIterate (envD T eb rs) (MapMetaDataSlab_PopIterate (envD T eb rs) depth) (md_tree d t x) s =
        some (none, md_tree d (MTree.popIterate d t s.ctx).2.1 x, s') ∧
      s'.ctx = (MTree.popIterate d t s.ctx).2.2 ∧
      s'.popped = s.popped ++ (MTree.popIterate d t s.ctx).1 ∧
      (∀ id ∈ md_ids d t, id ≠ (MTree.hdr d t).id → s'.heap id = none) ∧
      s'.heap (MTree.hdr d t).id = s.heap (MTree.hdr d t).id ∧
      (∀ id, id ∉ md_ids d t → s'.heap id = s.heap id) := by
  refine ⟨mdp_post d t s, mdp_recSpec T eb rs depth d hd t x s hh hnd hw hx hl, rfl, rfl, ?_, ?_, ?_⟩
  · intro id hid hne
    rw [mdp_ids_cons] at hid
    have : id ∈ (md_ids d t).tail := by
      rcases List.mem_cons.mp hid with h | h
      · exact absurd h hne
      · exact h
    simp [mdp_post, this]
  · have hnd' := hnd
    rw [mdp_ids_cons] at hnd'
    simp [mdp_post, (List.nodup_cons.mp hnd').1]
  · intro id hid
    have : id ∉ (md_ids d t).tail := fun h => hid (by rw [mdp_ids_cons]; exact List.mem_cons_of_mem _ h)
    simp [mdp_post, this]

/-- the generated receiver IS the model's popped tree: above a data slab -/
theorem Ob_MapSlab_PopIterate_heap_res_succ (d : Nat) (t : MTree r (d + 1)) (x : Option DX) (c : Ctx) :
    mdp_treeRes (d + 1) t x c = md_tree (d + 1) (MTree.popIterate (d + 1) t c).2.1 x := rfl

/-- on a data slab too (no hypothesis on the elements any more) -/
theorem Ob_MapSlab_PopIterate_heap_res_zero (sl : MDataSlab r) (x : Option DX) (c : Ctx) :
    mdp_treeRes 0 sl x c = md_tree 0 (MTree.popIterate 0 sl c).2.1 x := rfl

/-! ### the failing case: a child the heap does not hold -/

theorem mdp_goIdx {d : Nat} (m : MMetaSlab (MTree r d)) (x : Option DX)
    (hw : m.childHdrs = m.children.map (MTree.hdr d)) (n : Nat) (hn : n < m.children.length) :
    goIdx (md_meta m x).childrenHeaders (Int.ofNat n) = some (md_hdr (MTree.hdr d m.children[n])) := by
  simp [goIdx, md_meta, hw, hn]

/-- the storage after the children in `l` (given FIRST TO LAST) were popped last to first and removed -/
def mdp_kidsPost (d : Nat) (l : List (MTree r d)) (s : MHSt r) : MHSt r :=
  { heap := fun id => if id ∈ l.flatMap (md_ids d) then none else s.heap id,
    ctx := (mdp_popList d l.reverse s.ctx).2,
    popped := s.popped ++ (mdp_popList d l.reverse s.ctx).1 }

/-- loop 1 when child `j` is not in the heap: the children to its right (`j+1 .. j+k`) are popped and removed, then
    `getMapSlab` fails with `SlabNotFound` and the loop returns the receiver unchanged -/
theorem mdp_popLoop_notFound (T : Nat) (eb : DEnvB r) (rs : DRestruct r) (d : Nat)
    (rec_ : MapMetaDataSlab DX → MHSt r → Option (Option GE × MapMetaDataSlab DX × MHSt r))
    (hrec : mdp_RecSpec T eb rs d rec_) (m : MMetaSlab (MTree r d)) (x : Option DX)
    (hw : m.childHdrs = m.children.map (MTree.hdr d)) (j : Nat) (hj : j < m.children.length) :
    ∀ (k : Nat) (s : MHSt r), j + 1 + k ≤ m.children.length →
      s.heap (MTree.hdr d m.children[j]).id = none →
      (∀ c ∈ (m.children.take (j + 1 + k)).drop (j + 1), MHolds s.heap d c none) →
      (((m.children.take (j + 1 + k)).drop (j + 1)).flatMap (md_ids d)).Nodup →
      (∀ c ∈ (m.children.take (j + 1 + k)).drop (j + 1), mdp_Wf d c ∧ mdp_RootOk d c none ∧ mdp_LeafOk d c) →
      MapMetaDataSlab_PopIterate.loop1 (envD T eb rs) (md_meta m x) rec_ (j + 1 + k) s =
        .ret (some (some .slabNotFound, md_meta m x,
          mdp_kidsPost d ((m.children.take (j + 1 + k)).drop (j + 1)) s))
  | 0, s, _, hnone, _, _, _ => by
    have hidx : goIdx (md_meta m x).childrenHeaders (Int.ofNat j) = some (md_hdr (MTree.hdr d m.children[j])) := by
      simp [goIdx, md_meta, hw, hj]
    have hid : (md_hdr (MTree.hdr d m.children[j])).slabID = (MTree.hdr d m.children[j]).id := rfl
    have hnil : (m.children.take (j + 1 + 0)).drop (j + 1) = [] := by simp
    rw [hnil]
    show MapMetaDataSlab_PopIterate.loop1 (envD T eb rs) (md_meta m x) rec_ (j + 1) s = _
    unfold MapMetaDataSlab_PopIterate.loop1
    simp only [hidx]
    rw [hid, mdp_getMapSlab_none T eb rs s _ hnone]
    simp [mdp_kidsPost, mdp_popList]
  | k + 1, s, hn, hnone, hh, hnd, hok => by
    have hlt : j + 1 + k < m.children.length := by omega
    have htake : (m.children.take (j + 1 + (k + 1))).drop (j + 1) =
        (m.children.take (j + 1 + k)).drop (j + 1) ++ [m.children[j + 1 + k]] := by
      rw [show j + 1 + (k + 1) = j + 1 + k + 1 from rfl, List.take_succ_eq_append_getElem hlt,
        List.drop_append_of_le_length (by simp; omega)]
    generalize hL : (m.children.take (j + 1 + k)).drop (j + 1) = L at htake
    have hmemn : m.children[j + 1 + k] ∈ (m.children.take (j + 1 + (k + 1))).drop (j + 1) := by
      rw [htake]; exact List.mem_append_right _ (List.mem_singleton.mpr rfl)
    have hsub : ∀ c ∈ L, c ∈ (m.children.take (j + 1 + (k + 1))).drop (j + 1) := fun c hc => by
      rw [htake]; exact List.mem_append_left _ hc
    have hcn := hh _ hmemn
    have hokn := hok _ hmemn
    rw [htake] at hnd ⊢
    rw [List.flatMap_append, List.nodup_append] at hnd
    obtain ⟨hnd1, hnd2, hdisj⟩ := hnd
    simp only [List.flatMap_cons, List.flatMap_nil, List.append_nil] at hnd2 hdisj
    have hidx : goIdx (md_meta m x).childrenHeaders (Int.ofNat (j + 1 + k)) =
        some (md_hdr (MTree.hdr d m.children[j + 1 + k])) := mdp_goIdx m x hw _ hlt
    show MapMetaDataSlab_PopIterate.loop1 (envD T eb rs) (md_meta m x) rec_ (j + 1 + k + 1) s = _
    unfold MapMetaDataSlab_PopIterate.loop1
    simp only [hidx]
    have hid : (md_hdr (MTree.hdr d m.children[j + 1 + k])).slabID = (MTree.hdr d m.children[j + 1 + k]).id := rfl
    rw [hid, mdp_getMapSlab_some T eb rs s _ _ hcn.root (mdp_tree_isNil _ _ _)]
    simp only [Option.isNone_none, Bool.not_true, Bool.false_eq_true, if_false]
    rw [hrec m.children[j + 1 + k] none s hcn hnd2 hokn.1 hokn.2.1 hokn.2.2]
    simp only [Option.isNone_none, Bool.not_true, Bool.false_eq_true, if_false, envD_remove]
    rw [mdp_popLoop_notFound T eb rs d rec_ hrec m x hw j hj k _ (Nat.le_of_lt hlt)]
    · rw [hL]
      simp only [mdp_kidsPost, MHSt.remove, mdp_post, List.reverse_append, List.reverse_cons, List.reverse_nil,
        List.nil_append, List.cons_append, mdp_popList, List.flatMap_append, List.flatMap_cons, List.flatMap_nil,
        List.append_nil, List.mem_append, List.append_assoc]
      congr 5
      funext id
      rw [mdp_ids_cons d m.children[j + 1 + k]]
      simp only [List.mem_cons]
      by_cases h1 : id ∈ L.flatMap (md_ids d) <;> by_cases h2 : id = (MTree.hdr d m.children[j + 1 + k]).id <;>
        by_cases h3 : id ∈ (md_ids d m.children[j + 1 + k]).tail <;> simp [h1, h2, h3]
    · simp [MHSt.remove, mdp_post, hnone]
    · rw [hL]
      intro c hc
      refine mdp_holds_congr d c none (hh c (hsub c hc)) (fun id hid => ?_)
      have hmem : id ∈ L.flatMap (md_ids d) := List.mem_flatMap.mpr ⟨c, hc, hid⟩
      have hne := hdisj id hmem
      have hnot : id ∉ md_ids d m.children[j + 1 + k] := fun h => hne id h rfl
      rw [mdp_ids_cons] at hnot
      simp only [List.mem_cons, not_or] at hnot
      simp [MHSt.remove, mdp_post, hnot.1, hnot.2]
    · rw [hL]; exact hnd1
    · rw [hL]; intro c hc; exact hok c (hsub c hc)

/-- `MapSlab.PopIterate` on an index slab one of whose children (`j`) the heap does not hold, the children to its right
    being held: the `SlabNotFound` error, the receiver UNCHANGED (headers not cleared, size not reset), the siblings to
    the right of `j` already popped (the callback saw their entries) and removed from the storage -/
theorem Ob_MapSlab_PopIterate_heap_notFound (T : Nat) (eb : DEnvB r) (rs : DRestruct r) (depth d : Nat)
    (hd : d + 1 ≤ depth) (m : MMetaSlab (MTree r d)) (x : Option DX) (s : MHSt r)
    (hw : m.childHdrs = m.children.map (MTree.hdr d)) (j : Nat) (hj : j < m.children.length)
    (hnone : s.heap (MTree.hdr d m.children[j]).id = none)
    (hh : ∀ c ∈ m.children.drop (j + 1), MHolds s.heap d c none)
    (hnd : ((m.children.drop (j + 1)).flatMap (md_ids d)).Nodup)
    (hok : ∀ c ∈ m.children.drop (j + 1), mdp_Wf d c ∧ mdp_RootOk d c none ∧ mdp_LeafOk d c) :
    MapSlab_PopIterate (envD T eb rs) (MapMetaDataSlab_PopIterate (envD T eb rs) depth) (md_tree (d + 1) m x) s =
      some (some .slabNotFound, md_tree (d + 1) m x, mdp_kidsPost d (m.children.drop (j + 1)) s) := by
  obtain ⟨depth, rfl⟩ : ∃ k, depth = k + 1 := ⟨depth - 1, by omega⟩
  have hrec := mdp_recSpec T eb rs depth d (by omega)
  have hlen : j + 1 + (m.children.length - (j + 1)) = m.children.length := by omega
  have hloop := mdp_popLoop_notFound T eb rs d _ hrec m x hw j hj (m.children.length - (j + 1)) s (by omega) hnone
  rw [hlen, List.take_length] at hloop
  have hloop' := hloop hh hnd hok
  show MapSlab_PopIterate _ _ (.metaSlab (md_meta m x)) s = _
  unfold MapSlab_PopIterate MapMetaDataSlab_PopIterate
  simp only [mdp_count m x hw, hloop']
  rfl

/-! ### non-vacuity: a depth-1 tree with two data slabs -/

def mdp_exKA : MKey := ⟨1, 7, [5]⟩
def mdp_exKB : MKey := ⟨1, 8, [9]⟩
def mdp_exA : MDataSlab 0 :=
  { hdr := ⟨⟨1, 2⟩, 36, 5⟩, next := ⟨1, 3⟩,
    elems := { hkeys := [5], elems := [.single ⟨mdp_exKA, default, 10⟩], size := 26, level := 0 },
    root := false, inlined := false }
def mdp_exB : MDataSlab 0 :=
  { hdr := ⟨⟨1, 3⟩, 36, 9⟩, next := SlabID.undef,
    elems := { hkeys := [9], elems := [.single ⟨mdp_exKB, default, 10⟩], size := 26, level := 0 },
    root := false, inlined := false }
def mdp_exM : MMetaSlab (MTree 0 0) :=
  { hdr := ⟨⟨1, 1⟩, 44, 5⟩, childHdrs := [mdp_exA.hdr, mdp_exB.hdr], children := [mdp_exA, mdp_exB], root := true }
def mdp_exX : Option DX := some (0, 2, 0)
def mdp_exSt : MHSt 0 := { heap := md_heapOf 1 mdp_exM mdp_exX, ctx := ⟨7, [], []⟩ }

theorem mdp_ex_hyps : MHolds mdp_exSt.heap 1 mdp_exM mdp_exX ∧ (md_ids 1 mdp_exM).Nodup ∧ mdp_Wf 1 mdp_exM ∧
    mdp_RootOk 1 mdp_exM mdp_exX ∧ mdp_LeafOk 1 mdp_exM := by
  refine ⟨⟨rfl, ?_⟩, by decide, ⟨rfl, fun _ _ => trivial⟩, trivial, ?_⟩
  · intro c hc
    rcases List.mem_cons.mp hc with rfl | hc
    · exact (rfl : md_heapOf 1 mdp_exM mdp_exX ⟨1, 2⟩ = _)
    · rcases List.mem_cons.mp hc with rfl | hc
      · exact (rfl : md_heapOf 1 mdp_exM mdp_exX ⟨1, 3⟩ = _)
      · cases hc
  · intro c hc
    rcases List.mem_cons.mp hc with rfl | hc
    · exact ⟨rfl, trivial⟩
    · rcases List.mem_cons.mp hc with rfl | hc
      · exact ⟨rfl, trivial⟩
      · cases hc

/-- `Ob_MapDataSlab_PopIterate_heap` on a concrete non-root data slab: size 18 + 8, first key 0, elements emptied,
    one entry popped -/
example (T : Nat) (eb : DEnvB 0) (rs : DRestruct 0) :
    ∃ q, MapDataSlab_PopIterate (envD T eb rs) (md_data mdp_exA none) mdp_exSt = q ∧
      q.1 = none ∧ q.2.1.header.size = 26 ∧ q.2.1.header.firstKey = 0 ∧ q.2.1.elements = ⟨[], [], 8, 0⟩ ∧
      q.2.2.popped = [(mdp_exKA, default)] :=
  ⟨_, Ob_MapDataSlab_PopIterate_heap T eb rs mdp_exA none mdp_exSt rfl, rfl, rfl, rfl, rfl, rfl⟩

/-- `Ob_MapSlab_PopIterate_heap` on the depth-1 tree: both children popped LAST TO FIRST, both removed, the root kept -/
example (T : Nat) (eb : DEnvB 0) (rs : DRestruct 0) :
    ∃ s' : MHSt 0,
      MapSlab_PopIterate (envD T eb rs) (MapMetaDataSlab_PopIterate (envD T eb rs) 1) (md_tree 1 mdp_exM mdp_exX)
        mdp_exSt = some (none, .metaSlab ⟨⟨⟨1, 1⟩, 12, 0⟩, [], mdp_exX⟩, s') ∧
      s'.popped = [(mdp_exKB, default), (mdp_exKA, default)] ∧
      s'.ctx.eff = [.remove ⟨1, 3⟩, .remove ⟨1, 2⟩] ∧
      s'.heap ⟨1, 2⟩ = none ∧ s'.heap ⟨1, 3⟩ = none ∧ s'.heap ⟨1, 1⟩ = mdp_exSt.heap ⟨1, 1⟩ := by
  obtain ⟨h1, h2, h3, h4, h5⟩ := mdp_ex_hyps
  obtain ⟨s', he, hc, hp, hg, hr, _⟩ := Ob_MapSlab_PopIterate_heap T eb rs 1 1 (Nat.le_refl _) mdp_exM mdp_exX mdp_exSt
    h1 h2 h3 h4 h5
  refine ⟨s', he, hp, ?_, hg ⟨1, 2⟩ (by decide) (by decide), hg ⟨1, 3⟩ (by decide) (by decide), hr⟩
  rw [hc]; rfl

/-- `Ob_MapSlab_PopIterate_heap_notFound`: the heap holds child 1 only; child 1 is popped and removed, then child 0 is
    not found: the error, the receiver unchanged -/
example (T : Nat) (eb : DEnvB 0) (rs : DRestruct 0) :
    let s : MHSt 0 := { heap := fun id => if id = ⟨1, 3⟩ then some (md_tree 0 mdp_exB none) else none, ctx := ⟨7, [], []⟩ }
    ∃ s' : MHSt 0,
      MapSlab_PopIterate (envD T eb rs) (MapMetaDataSlab_PopIterate (envD T eb rs) 1) (md_tree 1 mdp_exM mdp_exX) s =
        some (some .slabNotFound, md_tree 1 mdp_exM mdp_exX, s') ∧
      s'.popped = [(mdp_exKB, default)] ∧ s'.ctx.eff = [.remove ⟨1, 3⟩] ∧ s'.heap ⟨1, 3⟩ = none := by
  intro s
  refine ⟨_, Ob_MapSlab_PopIterate_heap_notFound T eb rs 1 0 (Nat.le_refl _) mdp_exM mdp_exX s rfl 0 (by decide) rfl
    ?_ (by decide) ?_, rfl, rfl, rfl⟩
  · intro c hc
    rcases List.mem_cons.mp hc with rfl | hc
    · exact (rfl : s.heap ⟨1, 3⟩ = _)
    · cases hc
  · intro c hc
    rcases List.mem_cons.mp hc with rfl | hc
    · exact ⟨trivial, rfl, trivial⟩
    · cases hc

end Atree.TransEq
