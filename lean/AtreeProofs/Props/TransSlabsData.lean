import AtreeProofs.Trans.Slabs
import AtreeProofs.Trans.Loops
import AtreeProofs.Props.TransSafe
/-
  TRANSLATION EQUIVALENCE for the functions that MOVE the elements of array data slabs:
  the generated `TransSl.ArrayDataSlab_Split / Merge / LendToRight / BorrowFromRight` (Gen/TransSlabs.lean, with the
  slice_utils generics `split / merge / lendToRight / borrowFromRight` they call) against the model's
  `DataSlab.split / merge / lendToRight / borrowFromRight` - in FULL: elements, header size and count, next link,
  allocated identifier, effects.
-/
namespace Atree.TransEq
open Atree Atree.Gen

/-! ## the slice generics of slice_utils.go, for any environment -/

section slu
variable {σ υ ξ ε S Φ : Type} {E : Type} [Inhabited E] (env : TransSl.Env σ υ ξ ε S Φ)

/-- `split(s, n)`: `(s[:n], s[n:])`; panics if `n > len(s)` -/
theorem slu_split (s : List E) (n : Nat) :
    TransSl.split env s (Int.ofNat n) = if n ≤ s.length then some (s.take n, s.drop n) else none := by
  simp only [TransSl.split, goSlice_ofNat, goDelete_ofNat]
  by_cases h : n ≤ s.length <;> simp [h, List.take_of_length_le]

/-- `merge(left, right)`: `left ++ right`, and the right slice is CLEARED (zero values, same length) -/
theorem slu_merge (l r : List E) :
    TransSl.merge env l r = (l ++ r, List.replicate r.length default) := rfl

/-- `lendToRight(left, right, n)`: the last `n` elements of `left` move to the front of `right` -/
theorem slu_lendToRight (l r : List E) (n : Nat) (h : n ≤ l.length) :
    TransSl.lendToRight env l r (Int.ofNat n) =
      some (l.take (l.length - n), l.drop (l.length - n) ++ r) := by
  have e : (Int.ofNat l.length - Int.ofNat n) = Int.ofNat (l.length - n) := by
    simp only [Int.ofNat_eq_natCast]; omega
  simp only [TransSl.lendToRight, e, goSlice_ofNat, goDelete_ofNat]
  have h0 : (0 : Int) = Int.ofNat 0 := rfl
  rw [h0]
  simp only [goInsert_ofNat]
  have h1 : l.length - n ≤ l.length := by omega
  simp [h1, List.take_of_length_le]

/-- `borrowFromRight(left, right, n)`: the first `n` elements of `right` move to the end of `left` -/
theorem slu_borrowFromRight (l r : List E) (n : Nat) (h : n ≤ r.length) :
    TransSl.borrowFromRight env l r (Int.ofNat n) = some (l ++ r.take n, r.drop n) := by
  have h0 : (0 : Int) = Int.ofNat 0 := rfl
  simp only [TransSl.borrowFromRight]
  rw [h0]
  simp only [goSlice_ofNat, goInsert_ofNat]
  simp [h, List.take_of_length_le]
end slu

/-! ## Merge -/

/-- `ArrayDataSlab.Merge`: the left slab becomes the model's merged slab (elements, size, count, `next`); the right
    slab keeps its header and `next` and is left with `len` NIL elements (Go's `merge` clears the right slice).
    Only hypothesis: the two header sizes add up to at least the 21-byte prefix that is subtracted (else Go wraps
    around and the model truncates, see `exTiny` below).  Additions need no range (uint32 is a ring mod 2^32). -/
theorem Sl_ArrayDataSlab_Merge_eq_model (T : Nat) (look) (l r : DataSlab)
    (hpre : Gen.arrayDataSlabPrefixSize ≤ l.hdr.size + r.hdr.size) :
    TransSl.ArrayDataSlab_Merge (envA T look) (trData l) (some (.dataSlab (trData r))) =
      some (none, trData (DataSlab.merge l r),
            some (.dataSlab { trData r with elements := List.replicate r.elems.length none })) := by
  have e21 : UInt32.ofNat Gen.arrayDataSlabPrefixSize = u32 Gen.arrayDataSlabPrefixSize := rfl
  simp only [TransSl.ArrayDataSlab_Merge, slu_merge, trData_elements, trData_header, trHdr_size, trHdr_count,
    trData_next, List.length_map, e21, u32_add', u32_sub' hpre]
  simp [trData, trHdr, DataSlab.merge]
  exact Or.inr rfl

/-! ## Split -/

/-- the split-point loop on translated elements (the `nil` branch of the generated `match` is dead) -/
theorem sl_split_loop (T : Nat) (look) (mid data : Nat) (hd : data < 2^32) (hmid : mid < 2^32) (rest : List Elem)
    (i ls : Nat) (hsum : ls + sumSizes rest ≤ data) :
    TransSl.ArrayDataSlab_Split.loop1 (envA T look) (u32 data) (u32 mid) (rest.map some) (Int.ofNat i) (u32 ls) 0 =
      .done (u32 (DataSlab.splitLoop mid data rest i ls).2, Int.ofNat (DataSlab.splitLoop mid data rest i ls).1) := by
  induction rest generalizing i ls with
  | nil => simp [TransSl.ArrayDataSlab_Split.loop1, DataSlab.splitLoop]
  | cons x t ih =>
    rw [sumSizes_cons] at hsum
    simp only [List.map_cons, TransSl.ArrayDataSlab_Split.loop1, DataSlab.splitLoop, envA_byteSize]
    simp only [u32_add (show ls + x.size < 2^32 by omega), u32_dge (show ls + x.size < 2^32 by omega) hmid,
      u32_sub (show ls ≤ data by omega) hd,
      u32_sub (show x.size ≤ data - ls by omega) (show data - ls < 2^32 by omega),
      u32_dle (show ls < 2^32 by omega) (show data - ls - x.size < 2^32 by omega)]
    by_cases c1 : ls + x.size ≥ mid
    · by_cases c2 : ls ≤ data - ls - x.size
      · simp [c1, c2]
      · simp [c1, c2]
    · simp only [c1, decide_false, if_false, Bool.false_eq_true]
      have := ih (i + 1) (ls + x.size) (by omega)
      simpa using this

theorem dsplitLoop_bounds (mid data : Nat) (rest : List Elem) (i ls : Nat) :
    (DataSlab.splitLoop mid data rest i ls).2 ≤ ls + sumSizes rest ∧
    (DataSlab.splitLoop mid data rest i ls).1 ≤ i + rest.length := by
  have := splitLoop_bounds mid data (sizesOf rest) i ls
  rw [arr_splitLoop_eq, sumSizes_eq]
  simpa [sizesOf] using this

/-- `ArrayDataSlab.Split`: `SlabSplitError` and no change below two elements; else both result slabs (elements,
    sizes, counts, the allocated id, the `next` links), the receiver's final state (= the left slab) and the storage
    (one `alloc`) are the model's.  Needs: the header size fits `uint32` and accounts for the prefix and the elements. -/
theorem Sl_ArrayDataSlab_Split_eq_model (T : Nat) (look) (s : DataSlab) (c : Ctx) (hs : s.hdr.size < 2^32)
    (hpre : Gen.arrayDataSlabPrefixSize + sumSizes s.elems ≤ s.hdr.size) :
    TransSl.ArrayDataSlab_Split (envA T look) (trData s) c =
      match s.split c with
      | .error e => some (none, none, some e, trData s, c)
      | .ok (l, r, c') => some (some (.dataSlab (trData l)), some (.dataSlab (trData r)), none, trData l, c') := by
  simp only [TransSl.ArrayDataSlab_Split, DataSlab.split, trData_elements, List.length_map, int_dlt_two, envA_split]
  by_cases hl : s.elems.length < 2
  · simp [hl]
  · simp only [hl, decide_false, if_false, Bool.false_eq_true]
    simp only [Gen.arrayDataSlabPrefixSize] at hpre ⊢
    have e21 : UInt32.ofNat 21 = u32 21 := rfl
    have e1 : (1 : UInt32) = u32 1 := rfl
    have e0 : (0 : UInt32) = u32 0 := rfl
    simp only [trData_header, trHdr_size, trHdr_slabID, trData_next]
    simp only [e21, e1, e0, u32_sub (show 21 ≤ s.hdr.size by omega) hs,
      u32_add (show s.hdr.size - 21 + 1 < 2^32 by omega), u32_half' (show s.hdr.size - 21 + 1 < 2^32 by omega)]
    have hloop : TransSl.ArrayDataSlab_Split.loop1 (envA T look) _ _ (s.elems.map some) (0 : Int) (u32 0) 0 = _ :=
      sl_split_loop T look ((s.hdr.size - 21 + 1) / 2) (s.hdr.size - 21) (by omega) (by omega)
        s.elems 0 0 (by omega)
    have hb := dsplitLoop_bounds ((s.hdr.size - 21 + 1) / 2) (s.hdr.size - 21) s.elems 0 0
    generalize DataSlab.splitLoop ((s.hdr.size - 21 + 1) / 2) (s.hdr.size - 21) s.elems 0 0 = r at *
    obtain ⟨lc, ls⟩ := r
    simp only at hloop hb
    rw [hloop]
    simp only [slu_split, List.length_map]
    have hlc : lc ≤ s.elems.length := by omega
    simp only [hlc, if_true, envA_gen, Option.isSome_none, Bool.false_eq_true, if_false, u32_ofInt,
      List.length_drop, List.length_map]
    rw [u32_add (show 21 + ls < 2^32 by omega), u32_add (show 21 + (s.hdr.size - 21) < 2^32 by omega),
      u32_sub (show ls ≤ 21 + (s.hdr.size - 21) by omega) (by omega)]
    simp [trData, trHdr, trExtra, List.map_take, List.map_drop]

/-! ## BorrowFromRight -/

theorem sl_borrow_loop (T : Nat) (look) (size mid : Nat) (hm : minThr T < 2^32) (hsz : size < 2^32)
    (hmid : mid < 2^32) (rest : List Elem) (lc ls : Nat) (hls : ls + sumSizes rest ≤ size) :
    TransSl.ArrayDataSlab_BorrowFromRight.loop1 (envA T look) (u32 size) (u32 mid) (rest.map some) (u32 lc) (u32 ls) =
      .done (u32 (DataSlab.borrowLoop T size mid rest lc ls).1, u32 (DataSlab.borrowLoop T size mid rest lc ls).2) := by
  induction rest generalizing lc ls with
  | nil => simp [TransSl.ArrayDataSlab_BorrowFromRight.loop1, DataSlab.borrowLoop]
  | cons x t ih =>
    rw [sumSizes_cons] at hls
    have e1 : (1 : UInt32) = u32 1 := rfl
    simp only [List.map_cons, TransSl.ArrayDataSlab_BorrowFromRight.loop1, DataSlab.borrowLoop, envA_byteSize,
      envA_minThreshold, e1]
    simp only [u32_add',
      u32_sub (show ls ≤ size by omega) hsz,
      u32_sub (show x.size ≤ size - ls by omega) (show size - ls < 2^32 by omega),
      u32_dgt (show ls + x.size < 2^32 by omega) hmid, u32_dge (show size - ls - x.size < 2^32 by omega) hm]
    by_cases c1 : ls + x.size > mid
    · by_cases c2 : size - ls - x.size ≥ minThr T
      · simp [c1, c2]
      · simp [c1, c2]
    · simp only [c1, decide_false, if_false, Bool.false_eq_true]
      exact ih (lc + 1) (ls + x.size) (by omega)

theorem dborrowLoop_bounds (T size mid : Nat) (rest : List Elem) (lc ls : Nat) :
    lc ≤ (DataSlab.borrowLoop T size mid rest lc ls).1 ∧
    (DataSlab.borrowLoop T size mid rest lc ls).1 ≤ lc + rest.length ∧
    ls ≤ (DataSlab.borrowLoop T size mid rest lc ls).2 ∧
    (DataSlab.borrowLoop T size mid rest lc ls).2 ≤ ls + sumSizes rest := by
  have := borrowLoop_bounds (minThr T) size mid (sizesOf rest) lc ls
  rw [arr_borrowLoop_eq, sumSizes_eq]
  simpa [sizesOf] using this

/-- `ArrayDataSlab.BorrowFromRight`: both slabs afterwards (elements, sizes, counts; `next` untouched) are the model's.
    Needs: `minThreshold` fits; the two sizes + 1 do not reach 2^32 (midpoint); the RIGHT header size covers its
    elements (no wrap in `size - leftSize - elemSize`), its count is at least its length (no wrap in
    `count - leftCount`), and its length fits `uint32` (`moveCount` is a `uint32` difference used as a slice count). -/
theorem Sl_ArrayDataSlab_BorrowFromRight_eq_model (T : Nat) (look) (l r : DataSlab) (hT : minThr T < 2^32)
    (hsz : l.hdr.size + r.hdr.size + 1 < 2^32) (hsum : sumSizes r.elems ≤ r.hdr.size)
    (hlen : r.elems.length ≤ r.hdr.count) (hlen2 : r.elems.length < 2^32) :
    TransSl.ArrayDataSlab_BorrowFromRight (envA T look) (trData l) (some (.dataSlab (trData r))) =
      some (none, trData (DataSlab.borrowFromRight T l r).1,
            some (.dataSlab (trData (DataSlab.borrowFromRight T l r).2))) := by
  have e1 : (1 : UInt32) = u32 1 := rfl
  simp only [TransSl.ArrayDataSlab_BorrowFromRight, DataSlab.borrowFromRight, trData_header, trHdr_size, trHdr_count,
    trData_elements, e1]
  simp only [u32_add', u32_half' (show l.hdr.size + r.hdr.size + 1 < 2^32 by omega)]
  have hloop := sl_borrow_loop T look (l.hdr.size + r.hdr.size) ((l.hdr.size + r.hdr.size + 1) / 2) hT
    (by omega) (by omega) r.elems l.hdr.count l.hdr.size (by omega)
  have hb := dborrowLoop_bounds T (l.hdr.size + r.hdr.size) ((l.hdr.size + r.hdr.size + 1) / 2)
    r.elems l.hdr.count l.hdr.size
  generalize DataSlab.borrowLoop T (l.hdr.size + r.hdr.size) ((l.hdr.size + r.hdr.size + 1) / 2)
    r.elems l.hdr.count l.hdr.size = res at *
  obtain ⟨lc, ls⟩ := res
  simp only at hloop hb
  rw [hloop]
  simp only [u32_sub' (show l.hdr.count ≤ lc by omega), u32_toNat (show lc - l.hdr.count < 2^32 by omega)]
  rw [slu_borrowFromRight _ _ _ _ (by simp only [List.length_map]; omega)]
  simp only [u32_sub' (show ls ≤ l.hdr.size + r.hdr.size by omega),
    u32_sub' (show lc ≤ l.hdr.count + r.hdr.count by omega)]
  simp [trData, trHdr, List.map_take, List.map_drop]

/-! ## LendToRight -/

theorem take_succ_reverse_elem (l : List Elem) (n : Nat) (h : n < l.length) :
    (l.take (n + 1)).reverse = l[n] :: (l.take n).reverse := by
  rw [List.take_add_one, List.reverse_append]
  simp [List.getElem?_eq_getElem h]

theorem sumSizes_take_succ (l : List Elem) (n : Nat) (h : n < l.length) :
    sumSizes (l.take (n + 1)) = sumSizes (l.take n) + l[n].size := by
  rw [List.take_add_one, sumSizes_append]
  simp [List.getElem?_eq_getElem h, sumSizes]

theorem sumSizes_take_le (l : List Elem) (n : Nat) : sumSizes (l.take n) ≤ sumSizes l := by
  have := sum_take_le (sizesOf l) n
  simpa [sumSizes, sizesOf, List.map_take] using this

/-- the backwards loop of `LendToRight` (fuel = index + 1) is the model's loop on the reversed prefix -/
theorem sl_lend_loop (T : Nat) (look) (a : DataSlab) (size mid : Nat) (hm : minThr T < 2^32) (hsz : size < 2^32)
    (hmid : mid < 2^32) (n : Nat) (hn : n ≤ a.elems.length) (lc ls : Nat) (hlc : n ≤ lc)
    (hls : sumSizes (a.elems.take n) ≤ ls) (hls2 : ls ≤ size) :
    TransSl.ArrayDataSlab_LendToRight.loop1 (envA T look) (trData a) (u32 size) (u32 mid) n (Int.ofNat n - 1)
        (u32 lc) (u32 ls) =
      .done (u32 (DataSlab.lendLoop T size mid (a.elems.take n).reverse lc ls).1,
             u32 (DataSlab.lendLoop T size mid (a.elems.take n).reverse lc ls).2) := by
  induction n generalizing lc ls with
  | zero => simp [TransSl.ArrayDataSlab_LendToRight.loop1, DataSlab.lendLoop]
  | succ n ih =>
    have hlt : n < a.elems.length := by omega
    rw [sumSizes_take_succ _ _ hlt] at hls
    rw [take_succ_reverse_elem _ _ hlt]
    have hi : (Int.ofNat (n + 1) - 1) = Int.ofNat n := by simp
    have e1 : (1 : UInt32) = u32 1 := rfl
    rw [hi]
    simp only [TransSl.ArrayDataSlab_LendToRight.loop1, DataSlab.lendLoop, int_dge0, if_true, trData_elements,
      goIdx_map_some, List.getElem?_eq_getElem hlt, Option.map_some, envA_byteSize, envA_minThreshold, e1]
    have ih' := fun lc ls h1 h3 h4 => ih (by omega) lc ls h1 h3 h4
    generalize a.elems[n] = x at *
    simp only [u32_sub (show x.size ≤ ls by omega) (show ls < 2^32 by omega), u32_sub hls2 hsz,
      u32_sub' (show 1 ≤ lc by omega),
      u32_dlt (show ls - x.size < 2^32 by omega) hmid, u32_dge (show size - ls < 2^32 by omega) hm]
    by_cases c : ls - x.size < mid ∧ size - ls ≥ minThr T
    · have c' : (decide (ls - x.size < mid) && decide (size - ls ≥ minThr T)) = true := by simp [c]
      simp [c']
    · have c' : (decide (ls - x.size < mid) && decide (size - ls ≥ minThr T)) = false := by
        simp only [Bool.and_eq_false_iff, decide_eq_false_iff_not]; omega
      simp only [c', Bool.false_eq_true, if_false]
      exact ih' (lc - 1) (ls - x.size) (by omega) (by omega) (by omega)

theorem dlendLoop_bounds (T size mid : Nat) (rest : List Elem) (lc ls : Nat) :
    (DataSlab.lendLoop T size mid rest lc ls).1 ≤ lc ∧ lc - rest.length ≤ (DataSlab.lendLoop T size mid rest lc ls).1 ∧
    (DataSlab.lendLoop T size mid rest lc ls).2 ≤ ls := by
  induction rest generalizing lc ls with
  | nil => simp [DataSlab.lendLoop]
  | cons x t ih =>
    simp only [DataSlab.lendLoop, List.length_cons]
    split
    · simp
    · have := ih (lc - 1) (ls - x.size); omega

/-- `ArrayDataSlab.LendToRight`, likewise, with the conditions on the LEFT slab (whose elements the loop walks
    backwards, decrementing `leftCount` and `leftSize`). -/
theorem Sl_ArrayDataSlab_LendToRight_eq_model (T : Nat) (look) (l r : DataSlab) (hT : minThr T < 2^32)
    (hsz : l.hdr.size + r.hdr.size + 1 < 2^32) (hsum : sumSizes l.elems ≤ l.hdr.size)
    (hlen : l.elems.length ≤ l.hdr.count) (hlen2 : l.elems.length < 2^32) :
    TransSl.ArrayDataSlab_LendToRight (envA T look) (trData l) (some (.dataSlab (trData r))) =
      some (none, trData (DataSlab.lendToRight T l r).1,
            some (.dataSlab (trData (DataSlab.lendToRight T l r).2))) := by
  have e1 : (1 : UInt32) = u32 1 := rfl
  have efuel : (Int.ofNat l.elems.length - 1 + 1).toNat = l.elems.length := by simp
  simp only [TransSl.ArrayDataSlab_LendToRight, DataSlab.lendToRight, trData_header, trHdr_size, trHdr_count,
    trData_elements, List.length_map, efuel, e1]
  simp only [u32_add', u32_half' (show l.hdr.size + r.hdr.size + 1 < 2^32 by omega)]
  have hloop := sl_lend_loop T look l (l.hdr.size + r.hdr.size) ((l.hdr.size + r.hdr.size + 1) / 2) hT
    (by omega) (by omega) l.elems.length (by omega) l.hdr.count l.hdr.size (by omega)
    (by have := sumSizes_take_le l.elems l.elems.length; omega) (by omega)
  rw [List.take_length] at hloop
  have hb := dlendLoop_bounds T (l.hdr.size + r.hdr.size) ((l.hdr.size + r.hdr.size + 1) / 2)
    l.elems.reverse l.hdr.count l.hdr.size
  rw [List.length_reverse] at hb
  generalize DataSlab.lendLoop T (l.hdr.size + r.hdr.size) ((l.hdr.size + r.hdr.size + 1) / 2)
    l.elems.reverse l.hdr.count l.hdr.size = res at *
  obtain ⟨lc, ls⟩ := res
  simp only at hloop hb
  rw [hloop]
  simp only [u32_sub' (show lc ≤ l.hdr.count by omega), u32_toNat (show l.hdr.count - lc < 2^32 by omega)]
  rw [slu_lendToRight _ _ _ _ (by simp only [List.length_map]; omega)]
  simp only [u32_sub' (show ls ≤ l.hdr.size + r.hdr.size by omega),
    u32_sub' (show lc ≤ l.hdr.count + r.hdr.count by omega)]
  simp [trData, trHdr, List.map_take, List.map_drop]

/-! ## the type assertion `slab.(*ArrayDataSlab)`: a nil or index-slab argument panics (any environment) -/

section wrongType
variable {σ υ ξ ε S Φ : Type} (env : TransSl.Env σ υ ξ ε S Φ) (a : TransSl.ArrayDataSlab σ ξ)

theorem Sl_ArrayDataSlab_Merge_wrongType (slab : Option (TransSl.ArraySlabV σ ξ))
    (h : slab = none ∨ ∃ m, slab = some (.metaSlab m)) : TransSl.ArrayDataSlab_Merge env a slab = none := by
  rcases h with rfl | ⟨m, rfl⟩ <;> rfl

theorem Sl_ArrayDataSlab_LendToRight_wrongType (slab : Option (TransSl.ArraySlabV σ ξ))
    (h : slab = none ∨ ∃ m, slab = some (.metaSlab m)) : TransSl.ArrayDataSlab_LendToRight env a slab = none := by
  rcases h with rfl | ⟨m, rfl⟩ <;> rfl

theorem Sl_ArrayDataSlab_BorrowFromRight_wrongType (slab : Option (TransSl.ArraySlabV σ ξ))
    (h : slab = none ∨ ∃ m, slab = some (.metaSlab m)) : TransSl.ArrayDataSlab_BorrowFromRight env a slab = none := by
  rcases h with rfl | ⟨m, rfl⟩ <;> rfl
end wrongType

/-! ## Split when `GenerateSlabID` fails (any environment): the state Go leaves behind -/

section allocError
variable {σ υ ξ ε S Φ : Type} (env : TransSl.Env σ υ ξ ε S Φ)

/-- on non-nil elements the split-point loop always ends normally, with a count inside the slice - whatever the
    `uint32` sizes do (no no-wrap hypothesis) -/
theorem sl_split_loop_any (ds mp : UInt32) (es : List σ) (i : Nat) (ls : UInt32) :
    ∃ ls' k, TransSl.ArrayDataSlab_Split.loop1 env ds mp (es.map some) (Int.ofNat i) ls 0 =
        .done (ls', Int.ofNat k) ∧ k ≤ i + es.length := by
  induction es generalizing i ls with
  | nil => exact ⟨ls, 0, rfl, by omega⟩
  | cons x t ih =>
    simp only [List.map_cons, TransSl.ArrayDataSlab_Split.loop1, List.length_cons]
    split
    · split
      · exact ⟨ls + env.Storable_ByteSize x, i + 1, by simp, by omega⟩
      · exact ⟨ls, i, rfl, by omega⟩
    · obtain ⟨ls', k, h1, h2⟩ := ih (i + 1) (ls + env.Storable_ByteSize x)
      refine ⟨ls', k, ?_, by omega⟩
      have e : (Int.ofNat i + 1) = Int.ofNat (i + 1) := by simp
      rw [e]; exact h1

/-- `Split` when the storage cannot allocate an identifier: Go has ALREADY truncated `a.elements` to the left part
    (`split(a.elements, leftCount)` runs before `GenerateSlabID`), while `a.header` (size, count) and `a.next` are
    still those of the whole slab, and the right part lives only in a local variable that is dropped: the receiver is
    left INCONSISTENT (`header.count`, `header.size` account for elements that `a.elements` no longer has). -/
theorem Sl_ArrayDataSlab_Split_allocError (a : TransSl.ArrayDataSlab σ ξ) (st : S) (es : List σ)
    (hes : a.elements = es.map some) (h2 : 2 ≤ es.length) (e : ε)
    (herr : (env.SlabStorage_GenerateSlabID st a.header.slabID.addr).2.1 = some e) :
    ∃ k, k ≤ a.elements.length ∧
      TransSl.ArrayDataSlab_Split env a st =
        some (none, none, env.wrapErrorfAsExternalErrorIfNeeded (some e),
              { a with elements := a.elements.take k },
              (env.SlabStorage_GenerateSlabID st a.header.slabID.addr).2.2) := by
  obtain ⟨ls', k, h1, hk⟩ := sl_split_loop_any env (a.header.size - UInt32.ofNat Gen.arrayDataSlabPrefixSize)
    (((a.header.size - UInt32.ofNat Gen.arrayDataSlabPrefixSize) + 1) >>> 1) es 0 0
  have hlen : a.elements.length = es.length := by rw [hes]; simp
  refine ⟨k, by omega, ?_⟩
  have hlt : ¬ (es.length < 2) := by omega
  simp only [TransSl.ArrayDataSlab_Split, hlen, int_dlt_two, hlt, decide_false, Bool.false_eq_true, if_false]
  have h1' : TransSl.ArrayDataSlab_Split.loop1 env _ _ a.elements (0 : Int) (0 : UInt32) (0 : Int) = _ := hes ▸ h1
  rw [h1']
  simp only [slu_split, show k ≤ a.elements.length by omega, if_true, herr, Option.isSome_some]
end allocError

/-! ## on the slabs these functions are called on (`DataWork`, Props/TransSafe.lean): no numeric side conditions -/

section safe
variable {T : Nat} {s l r : DataSlab}

theorem safe_Sl_ArrayDataSlab_Split (look) (hT : legalThreshold T = true) (h : DataWork T s) (c : Ctx) :
    TransSl.ArrayDataSlab_Split (envA T look) (trData s) c =
      match s.split c with
      | .error e => some (none, none, some e, trData s, c)
      | .ok (l, r, c') => some (some (.dataSlab (trData l)), some (.dataSlab (trData r)), none, trData l, c') := by
  have := dataWork_fits hT h
  exact Sl_ArrayDataSlab_Split_eq_model T look s c (by omega) (by omega)

theorem safe_Sl_ArrayDataSlab_Merge (look) (hl : DataWork T l) :
    TransSl.ArrayDataSlab_Merge (envA T look) (trData l) (some (.dataSlab (trData r))) =
      some (none, trData (DataSlab.merge l r),
            some (.dataSlab { trData r with elements := List.replicate r.elems.length none })) := by
  have h2 := hl.size_eq
  rw [dataWork_prefix hl] at h2
  exact Sl_ArrayDataSlab_Merge_eq_model T look l r (by omega)

theorem safe_Sl_ArrayDataSlab_LendToRight (look) (hT : legalThreshold T = true) (hl : DataWork T l)
    (hr : DataWork T r) :
    TransSl.ArrayDataSlab_LendToRight (envA T look) (trData l) (some (.dataSlab (trData r))) =
      some (none, trData (DataSlab.lendToRight T l r).1,
            some (.dataSlab (trData (DataSlab.lendToRight T l r).2))) := by
  have ht := thresholds_fit hT
  have h1 := dataWork_fits hT hl
  have h2 := dataWork_fits hT hr
  exact Sl_ArrayDataSlab_LendToRight_eq_model T look l r ht.2.1 (by omega) (by omega) (by omega) (by omega)

theorem safe_Sl_ArrayDataSlab_BorrowFromRight (look) (hT : legalThreshold T = true) (hl : DataWork T l)
    (hr : DataWork T r) :
    TransSl.ArrayDataSlab_BorrowFromRight (envA T look) (trData l) (some (.dataSlab (trData r))) =
      some (none, trData (DataSlab.borrowFromRight T l r).1,
            some (.dataSlab (trData (DataSlab.borrowFromRight T l r).2))) := by
  have ht := thresholds_fit hT
  have h1 := dataWork_fits hT hl
  have h2 := dataWork_fits hT hr
  exact Sl_ArrayDataSlab_BorrowFromRight_eq_model T look l r ht.2.1 (by omega) (by omega) (by omega) (by omega)
end safe

/-! ## non-vacuity: the generated functions evaluated on concrete slabs -/

section examples
/-- a plain data slab (not root, not inlined) with elements of the given sizes; bookkeeping exact -/
def exData (id next : Nat) (sizes : List Nat) : DataSlab :=
  { hdr := ⟨⟨1, id⟩, 21 + sizes.sum, sizes.length⟩, next := ⟨1, next⟩,
    elems := sizes.mapIdx (fun i sz => ⟨sz, .val i⟩), root := false, inlined := false }

def exLook : SlabID → Option GSlab := fun _ => none

/-- Split: three elements of 100 / 150 / 200 bytes (471 bytes) split after the second; the left slab keeps its id,
    gets 271 bytes, count 2 and the NEW id as `next`; the right slab gets the new id, 221 bytes, count 1 and the old
    `next`; one `alloc` effect -/
example : TransSl.ArrayDataSlab_Split (envA 256 exLook) (trData (exData 2 9 [100, 150, 200])) ⟨5, [], []⟩ =
    some (some (.dataSlab { next := ⟨1, 6⟩, header := { slabID := ⟨1, 2⟩, size := 271, count := 2 },
                            elements := [some ⟨100, .val 0⟩, some ⟨150, .val 1⟩], extraData := none, inlined := false }),
          some (.dataSlab { next := ⟨1, 9⟩, header := { slabID := ⟨1, 6⟩, size := 221, count := 1 },
                            elements := [some ⟨200, .val 2⟩], extraData := none, inlined := false }),
          none,
          { next := ⟨1, 6⟩, header := { slabID := ⟨1, 2⟩, size := 271, count := 2 },
            elements := [some ⟨100, .val 0⟩, some ⟨150, .val 1⟩], extraData := none, inlined := false },
          ⟨6, [.alloc 1 ⟨1, 6⟩], []⟩) := by rfl

/-- … and it is the model's split -/
example : (exData 2 9 [100, 150, 200]).split ⟨5, [], []⟩ =
    .ok ({ exData 2 6 [100, 150] with hdr := ⟨⟨1, 2⟩, 271, 2⟩ },
         { exData 6 9 [] with hdr := ⟨⟨1, 6⟩, 221, 1⟩, elems := [⟨200, .val 2⟩] }, ⟨6, [.alloc 1 ⟨1, 6⟩], []⟩) := by rfl

/-- Split of a slab with one element: `SlabSplitError`, nothing changes -/
example : TransSl.ArrayDataSlab_Split (envA 256 exLook) (trData (exData 2 9 [100])) ⟨5, [], []⟩ =
    some (none, none, some .slabSplit, trData (exData 2 9 [100]), ⟨5, [], []⟩) := by rfl

/-- Merge: the left slab gets all elements, 21 + 100 + 150 + 200 bytes, count 3 and the right slab's `next`; the
    right slab keeps its header and is left with one NIL element -/
example : TransSl.ArrayDataSlab_Merge (envA 256 exLook) (trData (exData 2 3 [100, 150]))
      (some (.dataSlab (trData (exData 3 9 [200])))) =
    some (none,
          { next := ⟨1, 9⟩, header := { slabID := ⟨1, 2⟩, size := 471, count := 3 },
            elements := [some ⟨100, .val 0⟩, some ⟨150, .val 1⟩, some ⟨200, .val 0⟩], extraData := none,
            inlined := false },
          some (.dataSlab { next := ⟨1, 9⟩, header := { slabID := ⟨1, 3⟩, size := 221, count := 1 },
                            elements := [none], extraData := none, inlined := false })) := by rfl

/-- LendToRight (T = 256): left 21 + 4·60 bytes, right 21 + 30: the last two 60-byte elements move to the front -/
example : TransSl.ArrayDataSlab_LendToRight (envA 256 exLook) (trData (exData 2 3 [60, 60, 60, 60]))
      (some (.dataSlab (trData (exData 3 9 [30])))) =
    some (none,
          { next := ⟨1, 3⟩, header := { slabID := ⟨1, 2⟩, size := 141, count := 2 },
            elements := [some ⟨60, .val 0⟩, some ⟨60, .val 1⟩], extraData := none, inlined := false },
          some (.dataSlab { next := ⟨1, 9⟩, header := { slabID := ⟨1, 3⟩, size := 171, count := 3 },
                            elements := [some ⟨60, .val 2⟩, some ⟨60, .val 3⟩, some ⟨30, .val 0⟩],
                            extraData := none, inlined := false })) := by rfl

/-- BorrowFromRight (T = 256): left 21 + 30 bytes, right 21 + 4·60: the first two 60-byte elements move to the end -/
example : TransSl.ArrayDataSlab_BorrowFromRight (envA 256 exLook) (trData (exData 2 3 [30]))
      (some (.dataSlab (trData (exData 3 9 [60, 60, 60, 60])))) =
    some (none,
          { next := ⟨1, 3⟩, header := { slabID := ⟨1, 2⟩, size := 171, count := 3 },
            elements := [some ⟨30, .val 0⟩, some ⟨60, .val 0⟩, some ⟨60, .val 1⟩], extraData := none,
            inlined := false },
          some (.dataSlab { next := ⟨1, 9⟩, header := { slabID := ⟨1, 3⟩, size := 141, count := 2 },
                            elements := [some ⟨60, .val 2⟩, some ⟨60, .val 3⟩], extraData := none,
                            inlined := false })) := by rfl

/-- the hypotheses of the `safe_` corollaries are satisfiable -/
theorem exData_work (id next : Nat) : DataWork 256 (exData id next [60, 60, 60, 60]) :=
  ⟨rfl, rfl, by intro e he; simp [exData] at he; rcases he with rfl | rfl | rfl | rfl <;> decide, ⟨rfl, rfl⟩,
   by show 261 ≤ 2 * maxThr 256; decide⟩

example : TransSl.ArrayDataSlab_LendToRight (envA 256 exLook) (trData (exData 2 3 [60, 60, 60, 60]))
      (some (.dataSlab (trData (exData 3 9 [60, 60, 60, 60])))) =
    some (none, trData (DataSlab.lendToRight 256 (exData 2 3 [60, 60, 60, 60]) (exData 3 9 [60, 60, 60, 60])).1,
          some (.dataSlab (trData (DataSlab.lendToRight 256 (exData 2 3 [60, 60, 60, 60]) (exData 3 9 [60, 60, 60, 60])).2))) :=
  safe_Sl_ArrayDataSlab_LendToRight exLook (by decide) (exData_work 2 3) (exData_work 3 9)

/-- where Go and the model DIFFER (excluded by `hpre` of the Merge theorem): two "slabs" whose header sizes add up to
    less than the 21-byte prefix - Go's `uint32` subtraction wraps to 2^32 - 21, the model's `Nat` subtraction gives 0 -/
def exTiny (id : Nat) : DataSlab := { exData id 0 [] with hdr := ⟨⟨1, id⟩, 0, 0⟩ }
example : (TransSl.ArrayDataSlab_Merge (envA 256 exLook) (trData (exTiny 2)) (some (.dataSlab (trData (exTiny 3))))).map
      (·.2.1.header.size) = some 4294967275 ∧ (DataSlab.merge (exTiny 2) (exTiny 3)).hdr.size = 0 := ⟨by rfl, by rfl⟩

/-- `Split` with a storage that cannot allocate: the receiver is returned with its elements already cut to the
    left part, but with the header (471 bytes, 3 elements) and `next` of the whole slab -/
def envFail : SEnv := { envA 256 exLook with SlabStorage_GenerateSlabID := fun c _ => (SlabID.undef, some .slabNotFound, c) }
example : TransSl.ArrayDataSlab_Split envFail (trData (exData 2 9 [100, 150, 200])) ⟨5, [], []⟩ =
    some (none, none, some .slabNotFound,
          { next := ⟨1, 9⟩, header := { slabID := ⟨1, 2⟩, size := 471, count := 3 },
            elements := [some ⟨100, .val 0⟩, some ⟨150, .val 1⟩], extraData := none, inlined := false },
          ⟨5, [], []⟩) := by rfl
end examples

end Atree.TransEq
