import AtreeProofs.Props.C13
import AtreeProofs.Props.C05MapIds
/-
  C13 (MAPS) — the read-only iterator after EVERY history, with NO hypothesis about slab
  identifiers.  PROPERTY THEOREM.  `C13.map_ro_iter_eq_toList` / `map_keys_values_projections`
  need the identifier clause `MapIdsOk` for the read-only iterator (it follows the `next` links BY
  IDENTIFIER); `C05.map_history_wellformed` shows that clause after every prefix of every history
  from `NewMap`; composed here.
-/
namespace Atree.C13
open Atree Gen

variable {r : Nat}

/-- For EVERY history of requests (set / remove / popIterate / setType, rejected requests included)
    issued against a new map — any legal threshold, ANY digest function, any owner address, any
    initial allocation counter — and after EVERY prefix of it: the read-only iterator (sibling
    links) visits exactly `toList`, its keys-only and values-only flavours are the projections, and
    the mutable iterator (lookups from the root) yields the same enumeration. -/
theorem map_ro_iter_history (T : Nat) (hT : legalThreshold T = true) (D : DigestFn (r + 1)) (cfg : MCfg)
    (hcT : cfg.T = T) (hcL : cfg.L = r + 1) (ty : Nat) (seedOf : SlabID → Nat) (c0 : Ctx)
    (ops : List E2EM.MOp) (hok : ∀ op ∈ ops, op.Ok T D) (n : Nat) :
    ∀ m, m = (E2EM.runM cfg (OMap.new (r := r) cfg.addr ty seedOf c0) (ops.take n)).1 →
      m.iterReadOnly = .ok m.toList ∧
      m.iterReadOnlyKeys = .ok (m.toList.map (·.1)) ∧
      m.iterReadOnlyValues = .ok (m.toList.map (·.2)) ∧
      m.iterMutable cfg = .ok m.toList := by
  intro m hm
  obtain ⟨hinv, hids, hrid, _⟩ := C05.map_history_wellformed T hT D cfg hcT hcL ty seedOf c0 ops hok n
  rw [← hm] at hinv hids hrid
  have hcfg : CfgOk cfg T m := ⟨hcT, hcL, by unfold OMap.addr; rw [hrid]⟩
  have h1 := map_ro_iter_eq_toList T hT D cfg m hcfg _ ⟨hinv, hids⟩
  obtain ⟨_, _, h2⟩ := map_keys_values_projections T hT D cfg m hcfg hinv
  obtain ⟨h3, h4⟩ := h2 _ hids
  exact ⟨h1, h3, h4, map_mut_iter_eq_toList T hT D cfg m hcfg hinv⟩

/-! ### Non-vacuity: the 25-request history of `C05.hist` (multi-slab map with an external collision
    group, two rejected requests, a bulk pop); the theorem applies to every prefix, and the model
    computes what it says. -/
section NonVacuity
open MapExample

example (n : Nat) := map_ro_iter_history 256 legal256 D2 cfg2 rfl rfl 0 (fun id => id.idx) ⟨0, [], []⟩
  C05.hist C05.hist_ok n _ rfl
example : (match (C05.stN 20).1.iterReadOnly with | .ok l => l.map (fun (p : MKey × Elem) => p.1.pay) | .error _ => [])
    = [11, 111, 112, 121, 211, 221, 311, 312, 313, 314, 321, 511, 521, 611, 621, 711, 811, 911] := by decide

end NonVacuity

end Atree.C13
