import AtreeProofs.Props.C17
import AtreeProofs.Batch.BytesMore
import AtreeProofs.Batch.CopyKeys
/-
  C17 — additions for audit a1, F9: freshness of the byte array's slab IDs, rejection of a plain
  non-byte element by `ByteArrayToByteSlice`, the key conjunct of the map copyability predicate.
-/
namespace Atree.C17
open Atree Gen ATree MetaSlab

/-- `result_ids_fresh` for `ByteSliceToByteArray` (fast path and bulk-build fallback, every
    estimate): every slab ID of the byte array was allocated during the call — owner `addr`, index
    above the counter before the call, at most the counter after it — so the array shares no slab
    with anything that existed before. -/
theorem bytes_ids_fresh (T addr ty est : Nat) (hT : legalThreshold T = true) (bsize : Nat → Nat)
    (bs : List Nat) (hb : ∀ b ∈ bs, 1 ≤ bsize b ∧ bsize b ≤ maxInlineArr T)
    (hlen : bs.length ≤ maxArrayElementCount) (c : Ctx) (a : Arr) (c' : Ctx)
    (h : Bytes.byteSliceToByteArray T addr ty bsize bs est c = .ok (a, c')) :
    ∀ id ∈ ATree.slabIds a.d a.root, id.addr = addr ∧ c.ctr < id.idx ∧ id.idx ≤ c'.ctr :=
  byteSliceToByteArray_ids_fresh hT addr ty est bsize bs hb (by omega) c a c' h

/-- `ByteArrayToByteSlice` REJECTS (UnexpectedElementTypeError) every valid array one of whose
    elements — in any data slab — is not a plain value of the caller's byte type `T`: a reference,
    or a plain value of another type (`isT e = false`). -/
theorem bytes_rejects_nonbyte (T : Nat) (isT : Elem → Bool) (a : Arr) (ctr : Nat) (h : ArrInv T a ctr)
    (hbad : ∃ e ∈ a.toList, ¬ (e.isPlain ∧ isT e = true)) :
    Bytes.byteArrayToByteSlice isT a = .error .unexpectedElemType :=
  byteArrayToByteSlice_rejects isT a ctr h hbad

/-- … and accepts every valid array whose elements all are, returning their payloads in order. -/
theorem bytes_accepts_iff (T : Nat) (isT : Elem → Bool) (a : Arr) (ctr : Nat) (h : ArrInv T a ctr) :
    (∃ bs, Bytes.byteArrayToByteSlice isT a = .ok bs) ↔ ∀ e ∈ a.toList, e.isPlain ∧ isT e = true := by
  constructor
  · rintro ⟨bs, hbs⟩
    apply Classical.byContradiction
    intro hn
    have : ∃ e ∈ a.toList, ¬ (e.isPlain ∧ isT e = true) := by
      simpa [Classical.not_forall] using hn
    rw [byteArrayToByteSlice_rejects isT a ctr h this] at hbs
    cases hbs
  · intro hall
    exact ⟨_, byteArrayToByteSlice_spec isT a ctr h hall⟩

/-- non-vacuity of `bytes_rejects_nonbyte` and the audit's state: the array holding the single plain
    element `⟨4, val 7⟩` is rejected as soon as the element is not of the byte type, accepted when
    it is (the first model accepted it unconditionally). -/
def exNonByte : Arr := ⟨0, ofData (rootSlab ⟨1, 1⟩ [{ size := 4, pay := .val 7 }]), 1⟩

example : Bytes.byteArrayToByteSlice (fun _ => false) exNonByte = .error .unexpectedElemType := rfl
example : Bytes.byteArrayToByteSlice (fun _ => true) exNonByte = .ok [7] := rfl

/-- Key conjunct of `singleElement.canCopyNonRefSimple` (`e.key.CanCopyNonRefSimple() && …`): for
    a valid map (all keys within the inline key limit, `MapInv`) the Go predicate with the key
    conjunct equals the value-only predicate the other copy theorems speak about; hence
    `can_copy_iff_map` / `copy_succeeds_when_offered_map` are statements about the Go function on
    every map the model covers. -/
theorem can_copy_key_conjunct {T r : Nat} (D : DigestFn (r + 1)) (m : OMap r) (h : MapInv T D m) :
    m.canCopyNonRefSimpleK T = m.canCopyNonRefSimple :=
  OMap.canCopyK_eq T m (fun p hp => (h.allKeyOk p hp).2.2)

/-- … and outside the key limit the conjunct decides: a single-slab map with one plain pair whose
    key is larger than `maxInlineMapKey` (T = 1024: 245) is NOT copyable for Go, while the value-only
    predicate says it is (the audit's disagreement; such maps are outside `MapInv`). -/
def exBigKey : SElem := { key := { size := 255, pay := 1, digs := [5, 6] }, val := { size := 4, pay := .val 1 }, size := 261 }

example : exBigKey.canCopyK 1024 = false := by decide
example : exBigKey.canCopy = true := by decide

end Atree.C17
