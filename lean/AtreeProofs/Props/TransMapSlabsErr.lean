import AtreeProofs.Trans.MapSlabs
/-
  Error exits of the regenerated map restructuring code that the hand-written model does not have (its storage never
  fails, its comparator never fails): what the GENERATED code returns and which state it leaves when the slab storage
  or a callback reports an error.  For ANY environment (no `EnvS`): the failing call is a hypothesis.
-/
namespace Atree.TransEq
open Atree Atree.Gen.TransMap

section
variable {E V W X S ε : Type} (env : Env E V W X S ε)

/-- `storeSlab`: a failing `storage.Store` comes back through `wrapErrorfAsExternalErrorIfNeeded`, with the storage state
    the failing call left -/
theorem msl_storeSlab_storeError (c c' : S) (slab : MapSlab E V X) (id : SlabID) (e : ε)
    (hid : MapSlab_SlabID env slab = some id) (h : env.SlabStorage_Store c id slab = (some e, c')) :
    storeSlab env c slab = some (env.wrapErrorfAsExternalErrorIfNeeded (some e), c') := by
  simp [storeSlab, hid, h]

/-- `storeSlab` on a nil slab panics (method call on a nil interface) -/
theorem msl_storeSlab_nil (c : S) : storeSlab env c (.nil : MapSlab E V X) = none := by
  simp [storeSlab, MapSlab_SlabID]

/-- `MapMetaDataSlab.Split`: a failing `GenerateSlabID` is returned WRAPPED, both results nil, the slab untouched -/
theorem MapMetaDataSlab_Split_genError (m : MapMetaDataSlab X) (c c' : S) (id : SlabID) (e : ε)
    (hn : 2 ≤ m.childrenHeaders.length)
    (h : env.SlabStorage_GenerateSlabID c m.header.slabID.addr = (id, some e, c')) :
    MapMetaDataSlab_Split env m c =
      some ((.nil : MapSlab E V X), .nil, env.wrapErrorfAsExternalErrorIfNeeded (some e), m, c') := by
  have hlt : ¬ ((m.childrenHeaders.length : Int) < (2 : Int)) := by omega
  simp [MapMetaDataSlab_Split, MapMetaDataSlab_SlabID, hlt, h]

/-- `MapDataSlab.Split`: a failing `GenerateSlabID` is returned WRAPPED - but `elements.Split()` has ALREADY run: the slab
    keeps only the LEFT half of its elements (`h'`), with its old header size and next link; the right half is lost.
    (The state Go leaves on this error exit is not a valid slab.) -/
theorem MapDataSlab_Split_genError (m : MapDataSlab E V X) (c c' : S) (id : SlabID) (e : ε)
    (h0 h' : hkeyElements E) (l r : elements E V)
    (hel : m.elements = .hkey h0) (hcnt : ¬ (hkeyElements_Count env h0 < 2))
    (hsplit : hkeyElements_Split env h0 = some (l, r, none, h'))
    (h : env.SlabStorage_GenerateSlabID c m.header.slabID.addr = (id, some e, c')) :
    MapDataSlab_Split env m c =
      some ((.nil : MapSlab E V X), .nil, env.wrapErrorfAsExternalErrorIfNeeded (some e),
            { m with elements := .hkey h' }, c') := by
  simp [MapDataSlab_Split, MapDataSlab_SlabID, elements_Count, elements_Split, hel, hcnt, hsplit, h]

/-- `OrderedMap.splitRoot` (index root): a failing `GenerateSlabID` is returned WRAPPED - after the root's extra data has
    been removed from it: the handle Go leaves has a root WITHOUT extra data (type info, count, seed) -/
theorem OrderedMap_splitRoot_meta_genError (om : OrderedMap E V X S) (mm : MapMetaDataSlab X) (c' : S) (id : SlabID) (e : ε)
    (hroot : om.root = .metaSlab mm)
    (h : env.SlabStorage_GenerateSlabID om.Storage mm.header.slabID.addr = (id, some e, c')) :
    OrderedMap_splitRoot env om =
      some (env.wrapErrorfAsExternalErrorIfNeeded (some e),
            { om with Storage := c', root := .metaSlab { mm with extraData := none } }) := by
  simp [OrderedMap_splitRoot, OrderedMap_Address, MapSlab_IsData, MapMetaDataSlab_IsData, MapSlab_RemoveExtraData,
    MapMetaDataSlab_RemoveExtraData, MapSlab_SlabID, MapMetaDataSlab_SlabID, hroot, h]

/-- `OrderedMap.splitRoot` (data root): likewise, and the root data slab already carries the NON-root prefix size -/
theorem OrderedMap_splitRoot_data_genError (om : OrderedMap E V X S) (d : MapDataSlab E V X) (c' : S) (id : SlabID) (e : ε)
    (hroot : om.root = .dataSlab d)
    (h : env.SlabStorage_GenerateSlabID om.Storage d.header.slabID.addr = (id, some e, c')) :
    OrderedMap_splitRoot env om =
      some (env.wrapErrorfAsExternalErrorIfNeeded (some e),
            { om with
              Storage := c'
              root := .dataSlab { d with
                extraData := none
                header := { d.header with
                  size := d.header.size - UInt32.ofNat Gen.mapRootDataSlabPrefixSize + UInt32.ofNat Gen.mapDataSlabPrefixSize } } }) := by
  simp [OrderedMap_splitRoot, OrderedMap_Address, MapSlab_IsData, MapDataSlab_IsData, MapSlab_RemoveExtraData,
    MapDataSlab_RemoveExtraData, MapSlab_SlabID, MapDataSlab_SlabID, hroot, h]

/-- `mergeChildren`: a failing `storage.Remove` of the merged-away right slab is returned WRAPPED; by then the merged slab
    and the parent (child header removed, size decreased) are already stored -/
theorem MapMetaDataSlab_mergeChildren_removeError (m m1 : MapMetaDataSlab X) (c c1 c2 c3 : S)
    (l l' r : MapSlab E V X) (hd : MapSlabHeader) (li ri : Int) (rid : SlabID) (e : ε)
    (h1 : MapSlab_Merge env l r = some (none, l'))
    (h2 : MapSlab_Header env l' = some hd)
    (h3 : MapMetaDataSlab_updateChildrenHeadersAfterMerge env m hd li ri = some m1)
    (h4 : storeSlab env c l' = some (none, c1))
    (h5 : storeSlab env c1 (.metaSlab
            (if li = 0 then
               { m1 with header := { m1.header with size := m1.header.size - UInt32.ofNat Gen.mapSlabHeaderSize, firstKey := hd.firstKey } }
             else { m1 with header := { m1.header with size := m1.header.size - UInt32.ofNat Gen.mapSlabHeaderSize } })) = some (none, c2))
    (h6 : MapSlab_SlabID env r = some rid)
    (h7 : env.SlabStorage_Remove c2 rid = (some e, c3)) :
    MapMetaDataSlab_mergeChildren env m c l r li ri =
      some (env.wrapErrorfAsExternalErrorIfNeeded (some e),
            (if li = 0 then
               { m1 with header := { m1.header with size := m1.header.size - UInt32.ofNat Gen.mapSlabHeaderSize, firstKey := hd.firstKey } }
             else { m1 with header := { m1.header with size := m1.header.size - UInt32.ofNat Gen.mapSlabHeaderSize } }),
            c3, l') := by
  by_cases hli : li = 0
  · simp only [hli, if_true] at h5 ⊢
    simp [MapMetaDataSlab_mergeChildren, h1, h2, hli ▸ h3, h4, h5, h6, h7]
  · simp only [hli, if_false] at h5 ⊢
    simp [MapMetaDataSlab_mergeChildren, h1, h2, h3, hli, h4, h5, h6, h7]

/-- the promoted index child: the root's slab id and extra data moved to it -/
def msl_promoted (cm rm : MapMetaDataSlab X) : MapMetaDataSlab X :=
  { header := { cm.header with slabID := rm.header.slabID }, childrenHeaders := cm.childrenHeaders, extraData := rm.extraData }

/-- `promoteChildAsNewRoot` (index child): a failing `storage.Remove` of the child's old register is returned WRAPPED; the
    handle already points to the promoted child (root id and extra data moved), which is already stored -/
theorem OrderedMap_promoteChildAsNewRoot_removeError (om : OrderedMap E V X S) (rm cm : MapMetaDataSlab X)
    (cid : SlabID) (c1 c2 c3 : S) (e : ε)
    (hroot : om.root = .metaSlab rm)
    (h1 : getMapSlab env om.Storage cid = (.metaSlab cm, none, c1))
    (h2 : storeSlab env c1 (.metaSlab (msl_promoted cm rm)) = some (none, c2))
    (h3 : env.SlabStorage_Remove c2 cid = (some e, c3)) :
    OrderedMap_promoteChildAsNewRoot env om cid =
      some (env.wrapErrorfAsExternalErrorIfNeeded (some e),
            { Storage := c3, root := .metaSlab (msl_promoted cm rm) }) := by
  simp [OrderedMap_promoteChildAsNewRoot, h1, hroot, MapSlab_IsData, MapMetaDataSlab_IsData, MapSlab_RemoveExtraData,
    MapMetaDataSlab_RemoveExtraData, MapSlab_SlabID, MapMetaDataSlab_SlabID, MapSlab_SetSlabID, MapMetaDataSlab_SetSlabID,
    MapSlab_SetExtraData, MapMetaDataSlab_SetExtraData, msl_promoted, h3] at h2 ⊢
  simp [h2, h3]

/-! ### `singleElements`: a failing comparator (on the first element) is returned WRAPPED, nothing changed -/

theorem singleElements_get_cmpError (e : singleElements V) (x : singleElement V) (rest : List (singleElement V))
    (c c' : S) (level hk : UInt64) (key : W) (b : Bool) (er : ε)
    (he : e.elems = x :: rest) (hlev : level = env.Digester_Levels)
    (h : env.ValueComparator c key x.key = (b, some er, c')) :
    singleElements_get env e c level hk key =
      (none, none, 0, env.wrapErrorfAsExternalErrorIfNeeded (some er), c') := by
  simp [singleElements_get, singleElements_get.loop1, he, hlev, h]

theorem singleElements_Remove_cmpError (e : singleElements V) (x : singleElement V) (rest : List (singleElement V))
    (c c' : S) (level hk : UInt64) (key : W) (b : Bool) (er : ε)
    (he : e.elems = x :: rest) (hlev : level = env.Digester_Levels)
    (h : env.ValueComparator c key x.key = (b, some er, c')) :
    singleElements_Remove env e c level hk key =
      some (none, none, env.wrapErrorfAsExternalErrorIfNeeded (some er), e, c') := by
  simp [singleElements_Remove, singleElements_Remove.loop1, he, hlev, h]

theorem singleElements_Set_cmpError (e : singleElements V) (x : singleElement V) (rest : List (singleElement V))
    (c c' : S) (addr : Nat) (level hk : UInt64) (key value : W) (b : Bool) (er : ε)
    (he : e.elems = x :: rest) (hlev : level = env.Digester_Levels)
    (h : env.ValueComparator c key x.key = (b, some er, c')) :
    singleElements_Set env e c addr level hk key value =
      some (none, none, env.wrapErrorfAsExternalErrorIfNeeded (some er), e, c') := by
  simp [singleElements_Set, singleElements_Set.loop1, goIdx, he, hlev, h]

/-- `singleElements.Set` on an existing key: a failing `value.Storable` is returned WRAPPED, the group unchanged -/
theorem singleElements_Set_storableError (e : singleElements V) (x : singleElement V) (rest : List (singleElement V))
    (c c1 c' : S) (addr : Nat) (level hk : UInt64) (key value : W) (k : V) (vs : Option V) (er : ε)
    (he : e.elems = x :: rest) (hlev : level = env.Digester_Levels) (hk' : x.key = some k)
    (h : env.ValueComparator c key x.key = (true, none, c1))
    (hs : env.Value_Storable value c1 addr (env.maxInlineMapValueSize (env.Storable_ByteSize k)) = (vs, some er, c')) :
    singleElements_Set env e c addr level hk key value =
      some (none, none, env.wrapErrorfAsExternalErrorIfNeeded (some er), e, c') := by
  rw [hk'] at h
  simp [singleElements_Set, singleElements_Set.loop1, goIdx, he, hlev, h, hk', hs]

end

end Atree.TransEq
