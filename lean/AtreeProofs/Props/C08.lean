import AtreeModel.StorageOps
import AtreeProofs.StorageLemmas
import AtreeProofs.CommitLemmas
import AtreeProofs.StorageLemmas2
import AtreeProofs.StorageExample2
/-
  C08 — The read cache is transparent (storage level, value-level model; clients re-fetch their
  handles after a cache drop — see DESIGN.md for the pointer-aliasing part that is exercised by the
  harness only).
-/
namespace Atree.C08
open Atree St

variable {σ β : Type} (c : Codec σ β)

/-- Maintenance actions that a schedule may insert between operations. -/
inductive Maint where
  | commit (kind : CommitKind) (mo dlo : List SlabID)   -- a fault-free commit
  | dropCache
  | commitAndReopen                                     -- fault-free commit, then reopen from the ledger
deriving Repr

def applyMaint (s : St σ β) : Maint → St σ β
  | .commit .det _ _ => (s.fastCommit c (fun _ => false)).st
  | .commit .nondet mo dlo =>
      (s.nondetCommit c (fun _ => false) (normOrder s.modifiedOwned mo) (normOrder s.deletedOwned dlo)).st
  | .dropCache => s.dropCache
  | .commitAndReopen =>
      let r := (s.fastCommit c (fun _ => false)).st
      { (St.fresh r.base r.alloc : St σ β) with tempIx := r.tempIx }

/-- Operations whose outcome the property speaks about (what containers use). -/
def clientOp : Op σ → Bool
  | .store _ _ | .remove _ | .retrieve _ | .genID _ => true
  | _ => false

/-- run a history with a maintenance schedule: before operation `i` the actions `sched i` happen -/
def runWith (s : St σ β) : List (Op σ × List Maint) → St σ β × List (Obs σ)
  | [] => (s, [])
  | (op, ms) :: rest =>
    let s1 := ms.foldl (applyMaint c) s
    let (s2, o) := St.step c s1 op
    let (s3, os) := runWith s2 rest
    (s3, o :: os)

/-- No pending change is owned by the temporary address (containers under test live at real
    addresses; a reopen necessarily forgets uncommitted temporary slabs). -/
def NoTemp (ops : List (Op σ)) : Prop :=
  ∀ op ∈ ops, match op with
    | .store id _ => id.isTemp = false
    | .remove id => id.isTemp = false
    | .genID a => a ≠ 0
    | _ => True

/-- the slab handed to `Store` by this operation (if it is one) can be encoded -/
def EncOp : Op σ → Prop
  | .store _ v => (c.enc v).isSome
  | _ => True

/-- Every slab the history hands to `Store` can be encoded.  This is what real codecs offer: their
    encoder is PARTIAL (it refuses slabs that violate its preconditions, e.g. `E2E.keyedCodec` on a
    slab that is not `OkS`), so a total encoder must not be assumed; the containers only ever store
    slabs that meet the preconditions (`E2E.stored_slabs_encodable`). -/
def StoresEncodable (ops : List (Op σ)) : Prop := ∀ op ∈ ops, EncOp c op

/-! ### Simulation between two runs of the same client history (helpers) -/

/-- no pending change under the temporary address -/
def NoTempDeltas (s : St σ β) : Prop := ∀ id, id.isTemp = true → AList.find? s.deltas id = none

/-- What maintenance actions (and reads) preserve. -/
structure Keeps (s s' : St σ β) : Prop where
  inv : Inv c s'
  view : ∀ id, s'.view c id = s.view c id
  target : ∀ id, target c s' id = target c s id
  alloc : s'.alloc = s.alloc
  noTemp : NoTempDeltas s'
  noEnc : NoEncodeFailure c s'

theorem applyMaint_commit_eq (s : St σ β) (kind : CommitKind) (mo dlo : List SlabID) :
    applyMaint c s (.commit kind mo dlo) = (commitW c kind (fun _ => false) mo dlo s).st := by
  cases kind <;> rfl

theorem noEnc_of_total (hEnc : ∀ v : σ, (c.enc v).isSome) (s : St σ β) : NoEncodeFailure c s :=
  fun _ v _ => hEnc v

theorem applyMaint_keeps (hc : RoundTrip c) (s : St σ β)
    (hI : Inv c s) (hnt : NoTempDeltas s) (hne : NoEncodeFailure c s) (m : Maint) :
    Keeps c s (applyMaint c s m) := by
  cases m with
  | commit kind mo dlo =>
    rw [applyMaint_commit_eq]
    obtain ⟨h1, h2, _⟩ := commitW_spec c hc kind (fun _ => false) mo dlo s hI
    exact ⟨h1, h2.view, h2.target, (commitW_aux c kind _ mo dlo s).1,
      fun id ht => (h2.temp id ht).trans (hnt id ht), h2.noEncodeFailure hne⟩
  | dropCache =>
    exact ⟨inv_dropCache c s hI, view_dropCache c s hI, fun _ => rfl, rfl, hnt, hne⟩
  | commitAndReopen =>
    obtain ⟨h1, h2, _⟩ := commitW_spec c hc .det (fun _ => false) [] [] s hI
    obtain ⟨_, g2, g3⟩ := commitW_complete c hc .det (fun _ => false) (fun _ => rfl) [] [] s hI hne
    have hres : applyMaint c s .commitAndReopen =
        { (St.fresh (commitW c .det (fun _ => false) [] [] s).st.base
            (commitW c .det (fun _ => false) [] [] s).st.alloc : St σ β) with
          tempIx := (commitW c .det (fun _ => false) [] [] s).st.tempIx } := rfl
    have halloc := (commitW_aux c .det (fun _ => false) [] [] s).1
    generalize (commitW c .det (fun _ => false) [] [] s).st = r at h1 h2 g2 g3 hres halloc
    rw [hres]
    have hall : ∀ id, AList.find? r.deltas id = none := by
      intro id
      cases ht : id.isTemp with
      | true => exact (h2.temp id ht).trans (hnt id ht)
      | false => exact g2 id ht
    refine ⟨inv_setAux c _ (inv_fresh c r h1) r.tempIx r.alloc, ?_, ?_, ?_, fun _ _ => rfl, ?_⟩
    · intro id
      rw [← h2.view id, view_of_not_pending c r h1 id (hall id)]
      simp [St.view, St.fresh, St.committed]
    · intro id
      rw [← g3 id]
      simp [target, St.fresh]
    · exact halloc
    · intro id v hv
      simp [St.fresh] at hv

theorem Keeps.refl (s : St σ β) (hI : Inv c s) (hnt : NoTempDeltas s) (hne : NoEncodeFailure c s) :
    Keeps c s s :=
  ⟨hI, fun _ => rfl, fun _ => rfl, rfl, hnt, hne⟩

theorem foldl_applyMaint_keeps (hc : RoundTrip c)
    (ms : List Maint) (s : St σ β) (hI : Inv c s) (hnt : NoTempDeltas s) (hne : NoEncodeFailure c s) :
    Keeps c s (ms.foldl (applyMaint c) s) := by
  induction ms generalizing s with
  | nil => exact Keeps.refl c s hI hnt hne
  | cons m ms ih =>
    have h1 := applyMaint_keeps c hc s hI hnt hne m
    have h2 := ih (applyMaint c s m) h1.inv h1.noTemp h1.noEnc
    exact ⟨h2.inv, fun id => (h2.view id).trans (h1.view id),
      fun id => (h2.target id).trans (h1.target id), h2.alloc.trans h1.alloc, h2.noTemp, h2.noEnc⟩

/-- The simulation relation between the two runs. -/
structure Sim (s1 s2 : St σ β) : Prop where
  inv1 : Inv c s1
  inv2 : Inv c s2
  nt1 : NoTempDeltas s1
  nt2 : NoTempDeltas s2
  ne1 : NoEncodeFailure c s1
  ne2 : NoEncodeFailure c s2
  view : ∀ id, s1.view c id = s2.view c id
  target : ∀ id, target c s1 id = target c s2 id
  alloc : ∀ a, AList.find? s1.alloc a = AList.find? s2.alloc a

theorem Sim.init : Sim c (St.init : St σ β) (St.init : St σ β) :=
  ⟨inv_init c, inv_init c, fun _ _ => rfl, fun _ _ => rfl, fun _ _ h => by simp [St.init, St.fresh] at h,
    fun _ _ h => by simp [St.init, St.fresh] at h, fun _ => rfl, fun _ => rfl, fun _ => rfl⟩

theorem Sim.of_keeps {s1 s2 s1' s2' : St σ β} (h : Sim c s1 s2) (k1 : Keeps c s1 s1')
    (k2 : Keeps c s2 s2') : Sim c s1' s2' :=
  ⟨k1.inv, k2.inv, k1.noTemp, k2.noTemp, k1.noEnc, k2.noEnc,
    fun id => ((k1.view id).trans (h.view id)).trans (k2.view id).symm,
    fun id => ((k1.target id).trans (h.target id)).trans (k2.target id).symm,
    fun a => by rw [k1.alloc, k2.alloc]; exact h.alloc a⟩

theorem Sim.insertDelta {s1 s2 : St σ β} (h : Sim c s1 s2) (id : SlabID) (hid : id.isTemp = false)
    (ov : Option σ) (hov : ∀ v, ov = some v → (c.enc v).isSome) :
    Sim c { s1 with deltas := AList.insert s1.deltas id ov }
          { s2 with deltas := AList.insert s2.deltas id ov } := by
  have hnt : ∀ (s : St σ β), NoTempDeltas s →
      NoTempDeltas ({ s with deltas := AList.insert s.deltas id ov } : St σ β) := by
    intro s hs j hj
    have hne : ¬ id = j := fun e => by rw [e, hj] at hid; cases hid
    show AList.find? (AList.insert s.deltas id ov) j = none
    rw [AList.find?_insert]
    simp only [hne, if_false]
    exact hs j hj
  have hne : ∀ (s : St σ β), NoEncodeFailure c s →
      NoEncodeFailure c ({ s with deltas := AList.insert s.deltas id ov } : St σ β) := by
    intro s hs j v hj
    have hj' : AList.find? (AList.insert s.deltas id ov) j = some (some v) := hj
    rw [AList.find?_insert] at hj'
    split at hj'
    · exact hov v (Option.some.inj hj')
    · exact hs j v hj'
  refine ⟨inv_setDeltas c s1 h.inv1 _ (AList.nodup_keys_insert _ _ _ h.inv1.deltasNodup),
    inv_setDeltas c s2 h.inv2 _ (AList.nodup_keys_insert _ _ _ h.inv2.deltasNodup),
    hnt s1 h.nt1, hnt s2 h.nt2, hne s1 h.ne1, hne s2 h.ne2, ?_, ?_, h.alloc⟩
  · intro j
    rw [view_insertDelta, view_insertDelta, h.view j]
  · intro j
    rw [target_insertDelta c s1 id hid, target_insertDelta c s2 id hid, h.target j]

theorem not_undef_of_owned (id : SlabID) (hid : id.isTemp = false) : id ≠ SlabID.undef := by
  intro e
  rw [e, SlabID.isTemp_undef] at hid
  cases hid

/-- A read keeps everything. -/
theorem retrieve_keeps (s : St σ β) (hI : Inv c s) (hnt : NoTempDeltas s) (hne : NoEncodeFailure c s)
    (id : SlabID) :
    ∃ s', St.step c s (.retrieve id) = (s', .slab (s.view c id)) ∧ Keeps c s s' := by
  obtain ⟨s', h1, h2, h3, h4, h5⟩ := retrieve_spec c s hI id
  refine ⟨s', by simp [St.step, h1], h2, fun j => by rw [h3], target_congr c s s' h4 h5,
    (retrieve_frame c s s' id _ h1).2.2.1, ?_, ?_⟩
  · intro j hj
    rw [h4]
    exact hnt j hj
  · intro j v hj
    rw [h4] at hj
    exact hne j v hj

/-- One client operation from related states: same observation, related states. -/
theorem step_sim {s1 s2 : St σ β} (h : Sim c s1 s2) (op : Op σ)
    (hnt : match op with
      | .store id _ => id.isTemp = false
      | .remove id => id.isTemp = false
      | .genID a => a ≠ 0
      | _ => True)
    (henc : EncOp c op) (hcl : clientOp op = true) :
    (St.step c s1 op).2 = (St.step c s2 op).2 ∧ Sim c (St.step c s1 op).1 (St.step c s2 op).1 := by
  cases op with
  | store id v =>
    have hu := not_undef_of_owned id hnt
    simp only [St.step, St.store, hu, if_false]
    exact ⟨by trivial, h.insertDelta c id hnt (some v) (fun w hw => by cases hw; exact henc)⟩
  | remove id =>
    have hu := not_undef_of_owned id hnt
    simp only [St.step, St.remove, hu, if_false]
    exact ⟨by trivial, h.insertDelta c id hnt none (fun w hw => by cases hw)⟩
  | retrieve id =>
    obtain ⟨t1, e1, k1⟩ := retrieve_keeps c s1 h.inv1 h.nt1 h.ne1 id
    obtain ⟨t2, e2, k2⟩ := retrieve_keeps c s2 h.inv2 h.nt2 h.ne2 id
    rw [e1, e2]
    exact ⟨by rw [h.view id], h.of_keeps c k1 k2⟩
  | genID a =>
    have ha : a ≠ 0 := hnt
    simp only [St.step, St.generateSlabID, ha, if_false]
    refine ⟨by rw [h.alloc a], inv_setAux c s1 h.inv1 s1.tempIx _, inv_setAux c s2 h.inv2 s2.tempIx _,
      h.nt1, h.nt2, h.ne1, h.ne2, h.view, h.target, ?_⟩
    intro b
    show AList.find? (AList.insert s1.alloc a _) b = AList.find? (AList.insert s2.alloc a _) b
    rw [AList.find?_insert, AList.find?_insert, h.alloc a, h.alloc b]
  | retrieveIfLoaded id => simp [clientOp] at hcl
  | retrieveIgnoringDeltas id ch => simp [clientOp] at hcl
  | commit kind faults mo dlo => simp [clientOp] at hcl
  | dropDeltas => simp [clientOp] at hcl
  | dropCache => simp [clientOp] at hcl
  | preload ids => simp [clientOp] at hcl
  | recreate => simp [clientOp] at hcl

theorem runWith_cons (s : St σ β) (op : Op σ) (ms : List Maint) (rest : List (Op σ × List Maint)) :
    runWith c s ((op, ms) :: rest) =
      ((runWith c (St.step c (ms.foldl (applyMaint c) s) op).1 rest).1,
       (St.step c (ms.foldl (applyMaint c) s) op).2 ::
         (runWith c (St.step c (ms.foldl (applyMaint c) s) op).1 rest).2) := rfl

/-- The two runs stay related and produce the same observations. -/
theorem runWith_sim (hc : RoundTrip c)
    (ops : List (Op σ)) (hEnc : StoresEncodable c ops) (hcl : ∀ op ∈ ops, clientOp op = true) (hnt : NoTemp ops)
    (sched1 sched2 : List (List Maint)) (h1 : sched1.length = ops.length) (h2 : sched2.length = ops.length)
    (s1 s2 : St σ β) (h : Sim c s1 s2) :
    (runWith c s1 (ops.zip sched1)).2 = (runWith c s2 (ops.zip sched2)).2 ∧
    Sim c (runWith c s1 (ops.zip sched1)).1 (runWith c s2 (ops.zip sched2)).1 := by
  induction ops generalizing sched1 sched2 s1 s2 with
  | nil => exact ⟨rfl, h⟩
  | cons op ops ih =>
    cases sched1 with
    | nil => simp at h1
    | cons ms1 sched1 =>
      cases sched2 with
      | nil => simp at h2
      | cons ms2 sched2 =>
        simp only [List.length_cons, Nat.add_right_cancel_iff] at h1 h2
        rw [List.zip_cons_cons, List.zip_cons_cons, runWith_cons, runWith_cons]
        have k1 := foldl_applyMaint_keeps c hc ms1 s1 h.inv1 h.nt1 h.ne1
        have k2 := foldl_applyMaint_keeps c hc ms2 s2 h.inv2 h.nt2 h.ne2
        have hsim := h.of_keeps c k1 k2
        obtain ⟨hobs, hsim'⟩ := step_sim c hsim op (hnt op (List.mem_cons_self ..))
          (hEnc op (List.mem_cons_self ..)) (hcl op (List.mem_cons_self ..))
        obtain ⟨g1, g2⟩ := ih (fun o ho => hEnc o (List.mem_cons_of_mem _ ho))
          (fun o ho => hcl o (List.mem_cons_of_mem _ ho))
          (fun o ho => hnt o (List.mem_cons_of_mem _ ho)) sched1 sched2 h1 h2 _ _ hsim'
        dsimp only
        exact ⟨by rw [hobs, g1], g2⟩

/-- Whether a slab is served from the write set, the cache or freshly decoded from the ledger never
    changes what is read. -/
theorem reload_is_identity (hc : RoundTrip c) (s : St σ β) (h : Inv c s) (hne : NoEncodeFailure c s)
    (m : Maint) (id : SlabID) (hown : id.isTemp = false) :
    (applyMaint c s m).view c id = s.view c id := by
  cases m with
  | commit kind mo dlo =>
    rw [applyMaint_commit_eq]
    exact (commitW_spec c hc kind (fun _ => false) mo dlo s h).2.1.view id
  | dropCache => exact view_dropCache c s h id
  | commitAndReopen =>
    obtain ⟨h1, h2, _⟩ := commitW_spec c hc .det (fun _ => false) [] [] s h
    obtain ⟨_, g2, _⟩ := commitW_complete c hc .det (fun _ => false) (fun _ => rfl) [] [] s h hne
    rw [← h2.committed_eq_view h1 g2 id hown]
    simp [applyMaint, St.view, St.fresh, St.committed, commitW]

/-- Schedule independence of outcomes: the same client history under ANY two maintenance
    schedules yields the same observations and the same final view.  The encoder may be partial
    (real codecs are): it is only required that the slabs the history stores can be encoded
    (`StoresEncodable`), not that every value of the slab type can. -/
theorem schedule_independent_outcomes (hc : RoundTrip c)
    (ops : List (Op σ)) (hEnc : StoresEncodable c ops) (hcl : ∀ op ∈ ops, clientOp op = true) (hnt : NoTemp ops)
    (sched1 sched2 : List (List Maint)) (h1 : sched1.length = ops.length) (h2 : sched2.length = ops.length) :
    let r1 := runWith c (St.init : St σ β) (ops.zip sched1)
    let r2 := runWith c (St.init : St σ β) (ops.zip sched2)
    r1.2 = r2.2 ∧ (∀ id, r1.1.view c id = r2.1.view c id) := by
  intro r1 r2
  obtain ⟨g1, g2⟩ := runWith_sim c hc ops hEnc hcl hnt sched1 sched2 h1 h2 _ _ (Sim.init c)
  exact ⟨g1, g2.view⟩

/-- … and after a final commit the ledger registers are identical (as a function of the
    identifier) under all such schedules (same hypothesis on the encoder: partial, but defined on
    what the history stores). -/
theorem schedule_independent_ledger (hc : RoundTrip c)
    (ops : List (Op σ)) (hEnc : StoresEncodable c ops) (hcl : ∀ op ∈ ops, clientOp op = true) (hnt : NoTemp ops)
    (sched1 sched2 : List (List Maint)) (h1 : sched1.length = ops.length) (h2 : sched2.length = ops.length) :
    let f1 := ((runWith c (St.init : St σ β) (ops.zip sched1)).1.fastCommit c (fun _ => false)).st
    let f2 := ((runWith c (St.init : St σ β) (ops.zip sched2)).1.fastCommit c (fun _ => false)).st
    ∀ id, AList.find? f1.base id = AList.find? f2.base id := by
  intro f1 f2 id
  obtain ⟨_, g2⟩ := runWith_sim c hc ops hEnc hcl hnt sched1 sched2 h1 h2 _ _ (Sim.init c)
  obtain ⟨_, _, a3⟩ := commitW_complete c hc .det (fun _ => false) (fun _ => rfl) [] []
    (runWith c (St.init : St σ β) (ops.zip sched1)).1 g2.inv1 g2.ne1
  obtain ⟨_, _, b3⟩ := commitW_complete c hc .det (fun _ => false) (fun _ => rfl) [] []
    (runWith c (St.init : St σ β) (ops.zip sched2)).1 g2.inv2 g2.ne2
  show AList.find? (commitW c .det (fun _ => false) [] []
      (runWith c (St.init : St σ β) (ops.zip sched1)).1).st.base id =
    AList.find? (commitW c .det (fun _ => false) [] []
      (runWith c (St.init : St σ β) (ops.zip sched2)).1).st.base id
  rw [a3 id, b3 id, g2.target id]

/-- A total encoder is a special case of `StoresEncodable` (the hypothesis of the earlier version of
    the two theorems above). -/
theorem storesEncodable_of_total (hEnc : ∀ v : σ, (c.enc v).isSome) (ops : List (Op σ)) :
    StoresEncodable c ops := by
  intro op _
  cases op <;> first | exact hEnc _ | trivial

/-! ### Non-vacuity

A 5-operation client history is run under two different maintenance schedules (none at all, versus
cache drops, commits of both kinds and reopen-from-ledger between the operations); the theorems are
instantiated on it and compared with direct evaluation of the model. -/
section NonVacuity
open Atree.Example

deriving instance DecidableEq for Obs

def exHist : List (Op Nat) :=
  [.genID 1, .store ⟨1, 1⟩ 5, .store ⟨1, 2⟩ 6, .remove ⟨1, 2⟩, .retrieve ⟨1, 1⟩]

/-- no maintenance at all -/
def schedA : List (List Maint) := [[], [], [], [], []]
/-- maintenance before every operation -/
def schedB : List (List Maint) :=
  [[.dropCache], [.commit .det [] []], [.commitAndReopen], [.commit .nondet [⟨1, 2⟩] [], .dropCache],
   [.commitAndReopen, .dropCache]]

theorem natEnc : ∀ v : Nat, (natCodec.enc v).isSome := fun _ => rfl

/-- a PARTIAL codec on `Nat` (the encoder refuses 13), as real codecs are: the theorems apply to it
    for histories that do not store 13, and the hypothesis is necessary (see the last example). -/
def oddCodec : Codec Nat Nat := { natCodec with enc := fun v => if v = 13 then none else some v }
theorem oddCodec_roundTrip : RoundTrip oddCodec := by
  intro id v b h
  simp only [oddCodec] at h
  split at h
  · cases h
  · cases h; rfl
theorem exHist_enc : StoresEncodable oddCodec exHist := by
  intro op hop
  simp only [exHist, List.mem_cons, List.not_mem_nil, or_false] at hop
  rcases hop with rfl | rfl | rfl | rfl | rfl <;> first | trivial | decide
example : ¬ (∀ v : Nat, (oddCodec.enc v).isSome) := fun h => by have := h 13; revert this; decide

example : (∀ op ∈ exHist, clientOp op = true) ∧ schedA.length = exHist.length ∧
    schedB.length = exHist.length := by decide
theorem exHist_noTemp : NoTemp exHist := by
  intro op hop
  simp only [exHist, List.mem_cons, List.not_mem_nil, or_false] at hop
  rcases hop with rfl | rfl | rfl | rfl | rfl <;> simp [SlabID.isTemp]

/-- The two runs are internally very different: under `schedA` nothing ever reaches the ledger and
    everything is pending, under `schedB` the write set is empty and the ledger holds `1.1`. -/
example :
    let r1 := runWith natCodec (St.init : St Nat Nat) (exHist.zip schedA)
    let r2 := runWith natCodec (St.init : St Nat Nat) (exHist.zip schedB)
    r1.1.base = [] ∧ r1.1.deltas = [(⟨1, 2⟩, none), (⟨1, 1⟩, some 5)] ∧
    r2.1.base = [(⟨1, 1⟩, 5)] ∧ r2.1.deltas = [] ∧ r2.1.cache = [(⟨1, 1⟩, some 5)] := by decide

/-- … yet the observations and the final views agree (evaluation, then the theorem's instance). -/
example :
    let r1 := runWith natCodec (St.init : St Nat Nat) (exHist.zip schedA)
    let r2 := runWith natCodec (St.init : St Nat Nat) (exHist.zip schedB)
    r1.2 = [.id ⟨1, 1⟩, .unit, .unit, .unit, .slab (some 5)] ∧ r2.2 = r1.2 ∧
    r1.1.view natCodec ⟨1, 1⟩ = some 5 ∧ r2.1.view natCodec ⟨1, 1⟩ = some 5 ∧
    r1.1.view natCodec ⟨1, 2⟩ = none ∧ r2.1.view natCodec ⟨1, 2⟩ = none := by decide
example := schedule_independent_outcomes natCodec roundTrip exHist (storesEncodable_of_total natCodec natEnc _)
  (by decide) exHist_noTemp schedA schedB rfl rfl
example := schedule_independent_outcomes oddCodec oddCodec_roundTrip exHist exHist_enc
  (by decide) exHist_noTemp schedA schedB rfl rfl

/-- `schedule_independent_ledger`: after a final commit both ledgers hold exactly `1.1 ↦ 5`. -/
example :
    let f1 := ((runWith natCodec (St.init : St Nat Nat) (exHist.zip schedA)).1.fastCommit natCodec (fun _ => false)).st
    let f2 := ((runWith natCodec (St.init : St Nat Nat) (exHist.zip schedB)).1.fastCommit natCodec (fun _ => false)).st
    f1.base = [(⟨1, 1⟩, 5)] ∧ f2.base = [(⟨1, 1⟩, 5)] := by decide
example := schedule_independent_ledger natCodec roundTrip exHist (storesEncodable_of_total natCodec natEnc _)
  (by decide) exHist_noTemp schedA schedB rfl rfl
example := schedule_independent_ledger oddCodec oddCodec_roundTrip exHist exHist_enc
  (by decide) exHist_noTemp schedA schedB rfl rfl

/-- `StoresEncodable` is a necessary hypothesis: if the history stores a slab the encoder refuses,
    a commit-and-reopen in the schedule fails to persist it and the read that follows sees the
    schedule (without maintenance the slab is served from the write set). -/
example :
    let hist : List (Op Nat) := [.store ⟨1, 1⟩ 13, .retrieve ⟨1, 1⟩]
    (runWith oddCodec (St.init : St Nat Nat) (hist.zip [[], []])).2 = [.unit, .slab (some 13)] ∧
    (runWith oddCodec (St.init : St Nat Nat) (hist.zip [[], [.commitAndReopen]])).2 = [.unit, .slab none] := by
  decide

/-- `NoTemp` is a necessary hypothesis: a slab stored under the temporary address is forgotten by
    a reopen, so the read that follows observes the schedule. -/
example :
    let hist : List (Op Nat) := [.store ⟨0, 1⟩ 8, .retrieve ⟨0, 1⟩]
    (runWith natCodec (St.init : St Nat Nat) (hist.zip [[], []])).2 = [.unit, .slab (some 8)] ∧
    (runWith natCodec (St.init : St Nat Nat) (hist.zip [[], [.commitAndReopen]])).2 = [.unit, .slab none] := by
  decide

/-- `reload_is_identity` on `exSt` for every kind of maintenance action (the pending store `1.1`,
    the pending deletion `1.2` of a committed register, the cached `1.3`, the committed `1.4`). -/
example : ∀ m ∈ [Maint.commit .det [] [], .commit .nondet [] [], .dropCache, .commitAndReopen],
    ∀ id ∈ [(⟨1, 1⟩ : SlabID), ⟨1, 2⟩, ⟨1, 3⟩, ⟨1, 4⟩],
      (applyMaint natCodec exSt m).view natCodec id = exSt.view natCodec id := by decide
example := reload_is_identity natCodec roundTrip exSt inv (noEncodeFailure exSt) .commitAndReopen ⟨1, 2⟩ rfl
/-- … and the restriction to owned identifiers is necessary for `commitAndReopen`. -/
example : exSt.view natCodec ⟨0, 1⟩ = some 8 ∧
    (applyMaint natCodec exSt .commitAndReopen).view natCodec ⟨0, 1⟩ = none := by decide

end NonVacuity

end Atree.C08
