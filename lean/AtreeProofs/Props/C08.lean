import AtreeModel.StorageOps
import AtreeProofs.StorageLemmas
import AtreeProofs.CommitLemmas
/-
  C08 — The read cache is transparent (storage level, value-level model; clients re-fetch their
  handles after a cache drop — see DESIGN.md for the pointer-aliasing part that is exercised by the
  harness only).
-/
namespace Atree.C08
open Atree St

variable {σ β : Type} (c : Codec σ β)

/-- Maintenance actions that a schedule may insert between operations. -/
inductive Maint where
  | commit (kind : CommitKind) (mo dlo : List SlabID)   -- a fault-free commit
  | dropCache
  | commitAndReopen                                     -- fault-free commit, then reopen from the ledger
deriving Repr

def applyMaint (s : St σ β) : Maint → St σ β
  | .commit .det _ _ => (s.fastCommit c (fun _ => false)).st
  | .commit .nondet mo dlo =>
      (s.nondetCommit c (fun _ => false) (normOrder s.modifiedOwned mo) (normOrder s.deletedOwned dlo)).st
  | .dropCache => s.dropCache
  | .commitAndReopen =>
      let r := (s.fastCommit c (fun _ => false)).st
      { (St.fresh r.base r.alloc : St σ β) with tempIx := r.tempIx }

/-- Operations whose outcome the property speaks about (what containers use). -/
def clientOp : Op σ → Bool
  | .store _ _ | .remove _ | .retrieve _ | .genID _ => true
  | _ => false

/-- run a history with a maintenance schedule: before operation `i` the actions `sched i` happen -/
def runWith (s : St σ β) : List (Op σ × List Maint) → St σ β × List (Obs σ)
  | [] => (s, [])
  | (op, ms) :: rest =>
    let s1 := ms.foldl (applyMaint c) s
    let (s2, o) := St.step c s1 op
    let (s3, os) := runWith s2 rest
    (s3, o :: os)

/-- No pending change is owned by the temporary address (containers under test live at real
    addresses; a reopen necessarily forgets uncommitted temporary slabs). -/
def NoTemp (ops : List (Op σ)) : Prop :=
  ∀ op ∈ ops, match op with
    | .store id _ => id.isTemp = false
    | .remove id => id.isTemp = false
    | .genID a => a ≠ 0
    | _ => True

/-- Whether a slab is served from the write set, the cache or freshly decoded from the ledger never
    changes what is read. -/
theorem reload_is_identity (hc : RoundTrip c) (s : St σ β) (h : Inv c s) (hne : NoEncodeFailure c s)
    (m : Maint) (id : SlabID) (hown : id.isTemp = false) :
    (applyMaint c s m).view c id = s.view c id := by
  sorry

/-- Schedule independence of outcomes: the same client history under ANY two maintenance
    schedules yields the same observations and the same final view. -/
theorem schedule_independent_outcomes (hc : RoundTrip c) (hEnc : ∀ v : σ, (c.enc v).isSome)
    (ops : List (Op σ)) (hcl : ∀ op ∈ ops, clientOp op = true) (hnt : NoTemp ops)
    (sched1 sched2 : List (List Maint)) (h1 : sched1.length = ops.length) (h2 : sched2.length = ops.length) :
    let r1 := runWith c (St.init : St σ β) (ops.zip sched1)
    let r2 := runWith c (St.init : St σ β) (ops.zip sched2)
    r1.2 = r2.2 ∧ (∀ id, r1.1.view c id = r2.1.view c id) := by
  sorry

/-- … and after a final commit the ledger registers are identical (as a function of the
    identifier) under all such schedules. -/
theorem schedule_independent_ledger (hc : RoundTrip c) (hEnc : ∀ v : σ, (c.enc v).isSome)
    (ops : List (Op σ)) (hcl : ∀ op ∈ ops, clientOp op = true) (hnt : NoTemp ops)
    (sched1 sched2 : List (List Maint)) (h1 : sched1.length = ops.length) (h2 : sched2.length = ops.length) :
    let f1 := ((runWith c (St.init : St σ β) (ops.zip sched1)).1.fastCommit c (fun _ => false)).st
    let f2 := ((runWith c (St.init : St σ β) (ops.zip sched2)).1.fastCommit c (fun _ => false)).st
    ∀ id, AList.find? f1.base id = AList.find? f2.base id := by
  sorry

end Atree.C08
