import AtreeProofs.Trans.Loops
/-
  TRANSLATION EQUIVALENCE, part 2 (functions with loops).  See Props/Trans.lean for the setting.

  The range hypotheses are: every number fits its Go type, and the header fields account for the elements
  (`sumSizes elems ≤ hdr.size` etc.).  Props/TransSafe.lean derives them from the tree invariants.
-/
namespace Atree.TransEq
open Atree Atree.Gen.Trans

/-! ## ArrayDataSlab.CanLendToLeft / CanLendToRight -/

/-- asking for more than the slab holds never succeeds (model loop) -/
theorem canLendLoop_false_of_gt (minS h w : Nat) (rest : List Nat) (lend : Nat) (hs : lend + rest.sum ≤ h)
    (hw : h < w) : HkeyElems.canLendLoop minS h w rest lend = false := by
  induction rest generalizing lend with
  | nil => rfl
  | cons x t ih =>
    simp only [List.sum_cons] at hs
    simp only [HkeyElems.canLendLoop]
    have : ¬ (lend + x ≥ w) := by omega
    simp only [this, if_false]
    split
    · rfl
    · exact ih (lend + x) (by omega)

/-- `ArrayDataSlab.CanLendToLeft(size)`: Go's wrap-around computation equals the model's for EVERY request size,
    provided the header size accounts for the elements.  (For `size > header.size` the first guard
    `a.header.size-size < minThreshold` wraps around in Go and does not fire where the model's truncated
    subtraction does - see `ArrayDataSlab_CanLendToLeft_guard_differs_at` - but then the loop cannot reach `size`
    and both return false.) -/
theorem ArrayDataSlab_CanLendToLeft_eq_model (T : Nat) (s : DataSlab) (want : Nat)
    (hs : s.hdr.size < 2^32) (hT : minThr T < 2^32) (hw : want < 2^32)
    (hsum : sumSizes s.elems ≤ s.hdr.size) :
    ArrayDataSlab_CanLendToLeft (u32 s.hdr.size) (u32s (sizesOf s.elems)) (u32 want) (u32 (minThr T)) =
      s.canLendToLeft T want := by
  have hloop := arrCanLendLeft_loop (minThr T) s.hdr.size want hT hs hw (sizesOf s.elems) 0 0
    (by rw [sumSizes_eq] at hsum; omega)
  have hlen : (u32s (sizesOf s.elems)).length = s.elems.length := by simp [u32s, sizesOf]
  have e0 : (0 : UInt32) = u32 0 := rfl
  simp only [ArrayDataSlab_CanLendToLeft, DataSlab.canLendToLeft, hlen, arr_canLendLoop_eq, int_dlt_two, e0]
  by_cases hl : s.elems.length < 2
  · simp [hl]
  · simp only [hl, decide_false, if_false, Bool.false_eq_true]
    by_cases hwh : want ≤ s.hdr.size
    · rw [u32_sub hwh hs, u32_dlt (by omega) hT]
      by_cases c : s.hdr.size - want < minThr T
      · simp [c]
      · simp only [c, decide_false, if_false, Bool.false_eq_true]
        split <;> rename_i heq <;> rw [heq] at hloop <;> simpa [loopBool] using hloop
    · have hf := canLendLoop_false_of_gt (minThr T) s.hdr.size want (sizesOf s.elems) 0
        (by rw [sumSizes_eq] at hsum; omega) (by omega)
      rw [hf] at hloop
      have hm : (if s.hdr.size - want < minThr T then false else false) = false := by split <;> rfl
      simp only [hf, hm]
      split
      · rfl
      · split <;> rename_i heq <;> rw [heq] at hloop <;> simpa [loopBool] using hloop

/-- `ArrayDataSlab.CanLendToRight(size)`: as `CanLendToLeft`, scanning from the back -/
theorem ArrayDataSlab_CanLendToRight_eq_model (T : Nat) (s : DataSlab) (want : Nat)
    (hs : s.hdr.size < 2^32) (hT : minThr T < 2^32) (hw : want < 2^32)
    (hsum : sumSizes s.elems ≤ s.hdr.size) :
    ArrayDataSlab_CanLendToRight (u32 s.hdr.size) (u32s (sizesOf s.elems)) (u32 want) (u32 (minThr T)) =
      s.canLendToRight T want := by
  have hloop := arrCanLendRight_loop (minThr T) s.hdr.size want hT hs hw (sizesOf s.elems)
    (sizesOf s.elems).length (Nat.le_refl _) 0 (by rw [sumSizes_eq] at hsum; simp only [List.take_length]; omega)
  rw [List.take_length] at hloop
  have hlen : (u32s (sizesOf s.elems)).length = s.elems.length := by simp [u32s, sizesOf]
  have hlen' : (sizesOf s.elems).length = s.elems.length := by simp [sizesOf]
  have hrev : sizesOf s.elems.reverse = (sizesOf s.elems).reverse := by simp [sizesOf]
  have e0 : (0 : UInt32) = u32 0 := rfl
  have efuel : (Int.ofNat s.elems.length - 1 + 1).toNat = s.elems.length := by simp
  rw [hlen'] at hloop
  simp only [ArrayDataSlab_CanLendToRight, DataSlab.canLendToRight, hlen, arr_canLendLoop_eq, int_dlt_two, e0,
    efuel, hrev]
  by_cases hl : s.elems.length < 2
  · simp [hl]
  · simp only [hl, decide_false, if_false, Bool.false_eq_true]
    by_cases hwh : want ≤ s.hdr.size
    · rw [u32_sub hwh hs, u32_dlt (by omega) hT]
      by_cases c : s.hdr.size - want < minThr T
      · simp [c]
      · simp only [c, decide_false, if_false, Bool.false_eq_true]
        split <;> rename_i heq <;> rw [heq] at hloop <;> simpa [loopBool] using hloop
    · have hf := canLendLoop_false_of_gt (minThr T) s.hdr.size want (sizesOf s.elems).reverse 0
        (by rw [sumSizes_eq] at hsum; simp only [List.sum_reverse]; omega) (by omega)
      rw [hf] at hloop
      have hm : (if s.hdr.size - want < minThr T then false else false) = false := by split <;> rfl
      simp only [hf, hm]
      split
      · rfl
      · split <;> rename_i heq <;> rw [heq] at hloop <;> simpa [loopBool] using hloop

/-- The first guard alone DOES differ: a request larger than the slab.  Go: 100 - 200 wraps to 2^32 - 100, which is
    not below minThreshold, so the guard does not fire; model: 100 - 200 = 0 < 512, the guard fires.  Both
    functions still return false (theorems above). -/
theorem ArrayDataSlab_CanLendToLeft_guard_differs_at :
    decide (u32 100 - u32 200 < u32 (minThr 1024)) = false ∧ decide (100 - 200 < minThr 1024) = true := by decide

/-- Without the hypothesis that the header size accounts for the elements the functions differ: a (corrupt) slab
    whose header says 600 bytes but holds two 400-byte elements.  Go: 600 - 800 wraps, the second element is
    "lendable"; model: 600 - 800 = 0 < minThreshold, not lendable.  `ArrInv` excludes such slabs
    (Props/TransSafe.lean). -/
theorem ArrayDataSlab_CanLendToLeft_differs_at :
    ArrayDataSlab_CanLendToLeft (u32 600) (u32s [400, 400]) (u32 700) (u32 (minThr 256)) = true ∧
    DataSlab.canLendToLeft 256
      { hdr := ⟨⟨1, 1⟩, 600, 2⟩, next := SlabID.undef, elems := [⟨400, .val 0⟩, ⟨400, .val 1⟩], root := false,
        inlined := false } 700 = false := by decide

/-! ## ArrayDataSlab.Split: split point and size arithmetic -/

/-- `ArrayDataSlab.Split`: the split point (`leftCount`, `leftSize`), the size of the new right slab and the new
    `header.size` / `header.count` of the left slab that Go computes with `uint32` arithmetic are the model's;
    `SlabSplitError` in the same case.  Needs: the header size covers prefix + elements. -/
theorem ArrayDataSlab_Split_eq_model (s : DataSlab) (c : Ctx) (hs : s.hdr.size < 2^32)
    (hpre : Gen.arrayDataSlabPrefixSize + sumSizes s.elems ≤ s.hdr.size) :
    ArrayDataSlab_Split (u32 s.hdr.size) (u32s (sizesOf s.elems)) =
      match s.split c with
      | .error _ => none
      | .ok (l, r, _) =>
        some (Int.ofNat l.hdr.count, u32 (l.hdr.size - Gen.arrayDataSlabPrefixSize), u32 r.hdr.size,
              u32 l.hdr.size, u32 l.hdr.count) := by
  have hlen : (u32s (sizesOf s.elems)).length = s.elems.length := by simp [u32s, sizesOf]
  have hlen' : (sizesOf s.elems).length = s.elems.length := by simp [sizesOf]
  simp only [ArrayDataSlab_Split, DataSlab.split, hlen, int_dlt_two, arr_splitLoop_eq]
  by_cases hl : s.elems.length < 2
  · simp [hl]
  · simp only [hl, decide_false, if_false, Bool.false_eq_true]
    simp only [Gen.arrayDataSlabPrefixSize, sumSizes_eq] at hpre ⊢
    have e21 : UInt32.ofNat 21 = u32 21 := rfl
    have e1 : (1 : UInt32) = u32 1 := rfl
    have e0 : (0 : UInt32) = u32 0 := rfl
    have ei0 : (0 : Int) = Int.ofNat 0 := rfl
    rw [e21, e1, e0, u32_sub (by omega) hs, u32_add (by omega), u32_half' (by omega)]
    have hloop : ArrayDataSlab_Split.loop1 _ _ _ 0 (u32 0, 0) = _ :=
      arrSplit_loop ((s.hdr.size - 21 + 1) / 2) (s.hdr.size - 21) (by omega) (by omega)
        (sizesOf s.elems) 0 0 (by omega)
    have hb := splitLoop_bounds ((s.hdr.size - 21 + 1) / 2) (s.hdr.size - 21) (sizesOf s.elems) 0 0
    rw [hlen'] at hb
    generalize HkeyElems.splitLoop ((s.hdr.size - 21 + 1) / 2) (s.hdr.size - 21) (sizesOf s.elems) 0 0 = r at *
    obtain ⟨lc, ls⟩ := r
    simp only at hloop hb
    rw [hloop]
    simp only [Option.some.injEq, Prod.mk.injEq, true_and]
    rw [u32_add (by omega), u32_sub (by omega) (by omega), u32_add (by omega), u32_ofInt]
    refine ⟨?_, ?_, rfl, rfl⟩
    · congr 1; omega
    · congr 1

/-- non-vacuity: three elements of 100, 150 and 200 bytes split after the second -/
example : ArrayDataSlab_Split (u32 471) (u32s [100, 150, 200]) = some (2, 250, 221, 271, 2) := by decide

/-! ## ArrayDataSlab.LendToRight / BorrowFromRight: how many elements move, and the four new header fields -/

/-- `ArrayDataSlab.LendToRight`: `leftCount`, `leftSize`, `moveCount` and the new `header.size` / `header.count` of
    both slabs, computed in `uint32`, are the model's.  Needs: the two header sizes and counts do not add up to
    2^32 - 1, and the left header accounts for its elements. -/
theorem ArrayDataSlab_LendToRight_eq_model (T : Nat) (l r : DataSlab) (hT : minThr T < 2^32)
    (hsz : l.hdr.size + r.hdr.size + 1 < 2^32) (hct : l.hdr.count + r.hdr.count < 2^32)
    (hsum : sumSizes l.elems ≤ l.hdr.size) (hlen : l.elems.length ≤ l.hdr.count) :
    ArrayDataSlab_LendToRight (u32 l.hdr.size) (u32 l.hdr.count) (u32s (sizesOf l.elems)) (u32 r.hdr.size)
        (u32 r.hdr.count) (u32 (minThr T)) =
      some (u32 (l.lendToRight T r).1.hdr.count, u32 (l.lendToRight T r).1.hdr.size,
            u32 (l.hdr.count - (l.lendToRight T r).1.hdr.count),
            u32 (l.lendToRight T r).1.hdr.size, u32 (l.lendToRight T r).1.hdr.count,
            u32 (l.lendToRight T r).2.hdr.size, u32 (l.lendToRight T r).2.hdr.count) := by
  have hlen1 : (u32s (sizesOf l.elems)).length = l.elems.length := by simp [u32s, sizesOf]
  have hlen2 : (sizesOf l.elems).length = l.elems.length := by simp [sizesOf]
  have hrev : sizesOf l.elems.reverse = (sizesOf l.elems).reverse := by simp [sizesOf]
  have efuel : (Int.ofNat l.elems.length - 1 + 1).toNat = l.elems.length := by simp
  have e1 : (1 : UInt32) = u32 1 := rfl
  simp only [ArrayDataSlab_LendToRight, DataSlab.lendToRight, hlen1, efuel, arr_lendLoop_eq, hrev, e1]
  rw [u32_add (show l.hdr.size + r.hdr.size < 2^32 by omega), u32_add hct, u32_add hsz, u32_half' (by omega)]
  rw [sumSizes_eq] at hsum
  have hloop := arrLend_loop (minThr T) (l.hdr.size + r.hdr.size) ((l.hdr.size + r.hdr.size + 1) / 2) hT
    (by omega) (by omega) (sizesOf l.elems) l.elems.length (by omega) l.hdr.count l.hdr.size (by omega) (by omega)
    (by have := sum_take_le (sizesOf l.elems) l.elems.length; omega) (by omega)
  rw [← hlen2, List.take_length, hlen2] at hloop
  have hb := lendLoop_bounds (minThr T) (l.hdr.size + r.hdr.size) ((l.hdr.size + r.hdr.size + 1) / 2)
    (sizesOf l.elems).reverse l.hdr.count l.hdr.size
  generalize HkeyElems.lendLoop (minThr T) (l.hdr.size + r.hdr.size) ((l.hdr.size + r.hdr.size + 1) / 2)
    (sizesOf l.elems).reverse l.hdr.count l.hdr.size = res at *
  obtain ⟨lc, ls⟩ := res
  simp only at hloop hb
  obtain ⟨h1, h2⟩ := hloop
  simp only [h1, h2, Option.some.injEq, Prod.mk.injEq, true_and]
  rw [u32_sub (by omega) (by omega), u32_sub (by omega) (by omega), u32_sub (by omega) (by omega)]
  exact ⟨rfl, rfl, rfl⟩

/-- `ArrayDataSlab.BorrowFromRight`, likewise.  Needs: sizes and counts do not add up to 2^32, the RIGHT header
    accounts for its elements. -/
theorem ArrayDataSlab_BorrowFromRight_eq_model (T : Nat) (l r : DataSlab) (hT : minThr T < 2^32)
    (hsz : l.hdr.size + r.hdr.size + 1 < 2^32) (hct : l.hdr.count + r.hdr.count < 2^32)
    (hsum : sumSizes r.elems ≤ r.hdr.size) (hlen : r.elems.length ≤ r.hdr.count) :
    ArrayDataSlab_BorrowFromRight (u32 l.hdr.size) (u32 l.hdr.count) (u32 r.hdr.size) (u32 r.hdr.count)
        (u32s (sizesOf r.elems)) (u32 (minThr T)) =
      some (u32 (l.borrowFromRight T r).1.hdr.count, u32 (l.borrowFromRight T r).1.hdr.size,
            u32 ((l.borrowFromRight T r).1.hdr.count - l.hdr.count),
            u32 (l.borrowFromRight T r).1.hdr.size, u32 (l.borrowFromRight T r).1.hdr.count,
            u32 (l.borrowFromRight T r).2.hdr.size, u32 (l.borrowFromRight T r).2.hdr.count) := by
  have hlen2 : (sizesOf r.elems).length = r.elems.length := by simp [sizesOf]
  have e1 : (1 : UInt32) = u32 1 := rfl
  simp only [ArrayDataSlab_BorrowFromRight, DataSlab.borrowFromRight, arr_borrowLoop_eq, e1]
  rw [u32_add (show l.hdr.size + r.hdr.size < 2^32 by omega), u32_add hct, u32_add hsz, u32_half' (by omega)]
  rw [sumSizes_eq] at hsum
  have hloop := arrBorrow_loop (minThr T) (l.hdr.size + r.hdr.size) ((l.hdr.size + r.hdr.size + 1) / 2) hT
    (by omega) (by omega) (sizesOf r.elems) 0 l.hdr.count l.hdr.size (by omega) (by omega)
  have hb := borrowLoop_bounds (minThr T) (l.hdr.size + r.hdr.size) ((l.hdr.size + r.hdr.size + 1) / 2)
    (sizesOf r.elems) l.hdr.count l.hdr.size
  rw [hlen2] at hb
  generalize HkeyElems.borrowLoop (minThr T) (l.hdr.size + r.hdr.size) ((l.hdr.size + r.hdr.size + 1) / 2)
    (sizesOf r.elems) l.hdr.count l.hdr.size = res at *
  obtain ⟨lc, ls⟩ := res
  simp only at hloop hb
  rw [hloop]
  simp only [Option.some.injEq, Prod.mk.injEq, true_and]
  rw [u32_sub (by omega) (by omega), u32_sub (by omega) (by omega), u32_sub (by omega) (by omega)]
  exact ⟨rfl, rfl, rfl⟩

/-- non-vacuity (T = 256): left slab 21 + 4·60 bytes, right slab 21 + 30: two 60-byte elements move (either way) -/
example : ArrayDataSlab_LendToRight (u32 261) (u32 4) (u32s [60, 60, 60, 60]) (u32 51) (u32 1) (u32 (minThr 256)) =
    some (2, 141, 2, 141, 2, 171, 3) := by rfl
example : ArrayDataSlab_BorrowFromRight (u32 51) (u32 1) (u32 261) (u32 4) (u32s [60, 60, 60, 60]) (u32 (minThr 256)) =
    some (3, 171, 2, 171, 3, 141, 2) := by rfl

/-! ## ArrayMetaDataSlab.childSlabIndexInfo: routing of an index to a child -/

def countsOf (l : List Hdr) : List Nat := l.map (·.count)

/-- `childSlabIndexInfo(index)`: Go (uint64 / uint32 / int arithmetic, linear scan below 32 children, binary search
    from 32 on) rejects the same indexes as the model and routes to the same child `k`; the adjusted index
    `index + count[k] - countSum[k]` is the same when that subtraction does not underflow (it wraps in Go and is
    truncated in the model otherwise; the invariant `countSum = prefix sums` excludes that, Props/TransSafe.lean).
    Where the model says "Go panics" (index past the end of `childrenHeaders`) nothing is claimed: the translation
    does not model panics. -/
theorem ArrayMetaDataSlab_childSlabIndexInfo_eq_model {α : Type} (m : MetaSlab α) (index : Nat)
    (hidx : index < 2^63) (hcnt : m.hdr.count < 2^32) (hcs : ∀ x ∈ m.countSum, x < 2^32)
    (hch : ∀ x ∈ countsOf m.childHdrs, x < 2^32) (hlen : m.countSum.length < 2^63) :
    match m.childSlabIndexInfo index with
    | .error .indexOutOfBounds =>
        ArrayMetaDataSlab_childSlabIndexInfo (u32 m.hdr.count) (u32s m.countSum) (u32s (countsOf m.childHdrs))
          (u64 index) = none
    | .ok (k, adj) =>
        m.countSum.getD k 0 ≤ index + (countsOf m.childHdrs).getD k 0 →
        ArrayMetaDataSlab_childSlabIndexInfo (u32 m.hdr.count) (u32s m.countSum) (u32s (countsOf m.childHdrs))
          (u64 index) = some (Int.ofNat k, u64 adj)
    | .error _ => True := by
  have hlen1 : (u32s m.countSum).length = m.countSum.length := by simp [u32s]
  have hi64 : index < 2^64 := by omega
  simp only [MetaSlab.childSlabIndexInfo]
  by_cases hge : index ≥ m.hdr.count
  · simp only [hge, if_true]
    simp only [ArrayMetaDataSlab_childSlabIndexInfo]
    rw [u32_toUInt64 hcnt, u64_dge hi64 (by omega)]
    simp [hge]
  · simp only [hge, if_false]
    -- the routing decision
    have hk : (if decide (Int.ofNat m.countSum.length < Int.ofNat Gen.linearScanThreshold) = true then
          ArrayMetaDataSlab_childSlabIndexInfo.loop1 (u64 index) (u32s m.countSum) 0 0
        else (ArrayMetaDataSlab_childSlabIndexInfo.loop2 (u32s m.countSum) (u64 index)
          (Int.ofNat m.countSum.length - 0).toNat (0, Int.ofNat m.countSum.length)).1) =
        Int.ofNat (if m.countSum.length < Gen.linearScanThreshold then MetaSlab.scanLinear index m.countSum 0
          else MetaSlab.scanBinary index m.countSum 0 m.countSum.length (m.countSum.length + 1)) := by
      rw [int_dlt]
      by_cases c : m.countSum.length < Gen.linearScanThreshold
      · simp only [c, decide_true, if_true]
        exact scanLinear_loop index hi64 m.countSum hcs 0
      · simp only [c, decide_false, if_false, Bool.false_eq_true]
        have e : (Int.ofNat m.countSum.length - 0).toNat = m.countSum.length := by simp
        rw [e, scanBinary_fuel index m.countSum 0 m.countSum.length (m.countSum.length + 1) m.countSum.length
          (by omega) (by omega)]
        exact scanBinary_loop index hi64 m.countSum hcs m.countSum.length 0 m.countSum.length (by omega) hlen
    generalize (if m.countSum.length < Gen.linearScanThreshold then MetaSlab.scanLinear index m.countSum 0
          else MetaSlab.scanBinary index m.countSum 0 m.countSum.length (m.countSum.length + 1)) = k at *
    cases h1 : m.childHdrs[k]? with
    | none => simp
    | some h =>
      cases h2 : m.countSum[k]? with
      | none => simp
      | some cs =>
        simp only
        intro hadj
        have e1 : (countsOf m.childHdrs).getD k 0 = h.count := by
          simp [countsOf, List.getD_eq_getElem?_getD, List.getElem?_map, h1]
        have e2 : m.countSum.getD k 0 = cs := by simp [List.getD_eq_getElem?_getD, h2]
        rw [e1, e2] at hadj
        have hc1 : h.count < 2^32 := by
          rw [← e1]; exact getD_lt_of_all _ _ (by omega) hch k
        have hc2 : cs < 2^32 := by rw [← e2]; exact getD_lt_of_all _ _ (by omega) hcs k
        simp only [ArrayMetaDataSlab_childSlabIndexInfo, hlen1]
        rw [u32_toUInt64 hcnt, u64_dge hi64 (by omega)]
        simp only [hge, decide_false, if_false, Bool.false_eq_true]
        have hk' : (if decide (Int.ofNat m.countSum.length < Int.ofNat Gen.linearScanThreshold) = true then
            ArrayMetaDataSlab_childSlabIndexInfo.loop1 (u64 index) (u32s m.countSum) 0 0
            else (ArrayMetaDataSlab_childSlabIndexInfo.loop2 (u32s m.countSum) (u64 index)
              (Int.ofNat m.countSum.length - 0).toNat (0, Int.ofNat m.countSum.length)).1) = Int.ofNat k := hk
        rw [hk']
        simp only [Int.ofNat_eq_natCast, Int.toNat_natCast, u32s_getD, e1, e2]
        rw [u32_toUInt64 hc1, u32_toUInt64 hc2, u64_add (by omega), u64_sub hadj (by omega)]

/-! ## hkeyElements (map_elements_hashkey.go) and MapDataSlab.CanLendToLeft / Right -/

/-- the `Size()` of the elements of a group (without the digests) -/
def rawSizes {α : Type} (o : ElemsOps α) (e : HkeyElems α) : List Nat := e.elems.map (fun el => el.size o)

theorem dg_rawSizes {α : Type} (o : ElemsOps α) (e : HkeyElems α) :
    e.elems.map (fun el => el.size o + Gen.digestSize) = dg (rawSizes o e) := by
  simp [dg, rawSizes, List.map_map]

theorem hkey_canLend_core (left : Bool) (minT esize want : Nat) (raw : List Nat)
    (hs : esize < 2^32) (hT : minT < 2^32) (hT2 : Gen.mapDataSlabPrefixSize ≤ minT) (hw : want < 2^32)
    (hsum : (dg raw).sum ≤ esize) :
    (if left then hkeyElements_CanLendToLeft (u32 esize) (u32s raw) (u32 want) (u32 minT)
     else hkeyElements_CanLendToRight (u32 esize) (u32s raw) (u32 want) (u32 minT)) =
    (if raw.length < 2 then false
     else if esize - want < minT - Gen.mapDataSlabPrefixSize then false
     else HkeyElems.canLendLoop (minT - Gen.mapDataSlabPrefixSize) esize want
       (if left then dg raw else (dg raw).reverse) 0) := by
  have hlen : (u32s raw).length = raw.length := by simp [u32s]
  have e0 : (0 : UInt32) = u32 0 := rfl
  have efuel : (Int.ofNat raw.length - 1 + 1).toNat = raw.length := by simp
  have hmin : UInt32.ofNat (minT) - UInt32.ofNat Gen.mapDataSlabPrefixSize = u32 (minT - Gen.mapDataSlabPrefixSize) :=
    u32_sub hT2 hT
  have hm' : minT - Gen.mapDataSlabPrefixSize < 2^32 := by omega
  generalize hms : minT - Gen.mapDataSlabPrefixSize = minS at *
  cases left with
  | true =>
    simp only [if_true, hkeyElements_CanLendToLeft, hlen, int_dlt_two, int_deq_zero, e0, hmin]
    have hloop := hkeyCanLendLeft_loop minS esize want hm' hs hw raw 0 0 (by omega)
    by_cases hl : raw.length < 2
    · have : (if decide (raw.length = 0) = true then false else false) = false := by split <;> rfl
      simp [hl]
    · have h0 : ¬ raw.length = 0 := by omega
      simp only [hl, h0, decide_false, if_false, Bool.false_eq_true]
      by_cases hwh : want ≤ esize
      · rw [u32_sub hwh hs, u32_dlt (by omega) hm']
        by_cases c : esize - want < minS
        · simp [c]
        · simp only [c, decide_false, if_false, Bool.false_eq_true]
          split <;> rename_i heq <;> rw [heq] at hloop <;> simpa [loopBool] using hloop
      · have hf := canLendLoop_false_of_gt minS esize want (dg raw) 0 (by omega) (by omega)
        rw [hf] at hloop
        have hm : (if esize - want < minS then false else false) = false := by split <;> rfl
        simp only [hf, hm]
        split
        · rfl
        · split <;> rename_i heq <;> rw [heq] at hloop <;> simpa [loopBool] using hloop
  | false =>
    simp only [Bool.false_eq_true, if_false, hkeyElements_CanLendToRight, hlen, int_dlt_two, int_deq_zero, e0, hmin,
      efuel]
    have hloop := hkeyCanLendRight_loop minS esize want hm' hs hw raw raw.length (Nat.le_refl _) 0
      (by have := sum_take_le (dg raw) raw.length; omega)
    rw [← dg_length raw, List.take_length, dg_length] at hloop
    by_cases hl : raw.length < 2
    · simp [hl]
    · have h0 : ¬ raw.length = 0 := by omega
      simp only [hl, h0, decide_false, if_false, Bool.false_eq_true]
      by_cases hwh : want ≤ esize
      · rw [u32_sub hwh hs, u32_dlt (by omega) hm']
        by_cases c : esize - want < minS
        · simp [c]
        · simp only [c, decide_false, if_false, Bool.false_eq_true]
          split <;> rename_i heq <;> rw [heq] at hloop <;> simpa [loopBool] using hloop
      · have hf := canLendLoop_false_of_gt minS esize want (dg raw).reverse 0
          (by simp only [List.sum_reverse]; omega) (by omega)
        rw [hf] at hloop
        have hm : (if esize - want < minS then false else false) = false := by split <;> rfl
        simp only [hf, hm]
        split
        · rfl
        · split <;> rename_i heq <;> rw [heq] at hloop <;> simpa [loopBool] using hloop

/-- `hkeyElements.CanLendToLeft(size)` = the model's `canLend … false`, for every request size; needs
    `mapDataSlabPrefixSize ≤ minThreshold` (true for every legal slab size) and that `e.size` accounts for the
    elements and their digests. -/
theorem hkeyElements_CanLendToLeft_eq_model {α : Type} (o : ElemsOps α) (T : Nat) (e : HkeyElems α) (want : Nat)
    (hs : e.size < 2^32) (hT : minThr T < 2^32) (hT2 : Gen.mapDataSlabPrefixSize ≤ minThr T) (hw : want < 2^32)
    (hsum : (dg (rawSizes o e)).sum ≤ e.size) :
    hkeyElements_CanLendToLeft (u32 e.size) (u32s (rawSizes o e)) (u32 want) (u32 (minThr T)) =
      HkeyElems.canLend o T e want false := by
  have h := hkey_canLend_core true (minThr T) e.size want (rawSizes o e) hs hT hT2 hw hsum
  simp only [if_true] at h
  rw [h]
  simp only [HkeyElems.canLend, dg_rawSizes, Bool.false_eq_true, if_false]
  have : (rawSizes o e).length = e.elems.length := by simp [rawSizes]
  rw [this]

theorem hkeyElements_CanLendToRight_eq_model {α : Type} (o : ElemsOps α) (T : Nat) (e : HkeyElems α) (want : Nat)
    (hs : e.size < 2^32) (hT : minThr T < 2^32) (hT2 : Gen.mapDataSlabPrefixSize ≤ minThr T) (hw : want < 2^32)
    (hsum : (dg (rawSizes o e)).sum ≤ e.size) :
    hkeyElements_CanLendToRight (u32 e.size) (u32s (rawSizes o e)) (u32 want) (u32 (minThr T)) =
      HkeyElems.canLend o T e want true := by
  have h := hkey_canLend_core false (minThr T) e.size want (rawSizes o e) hs hT hT2 hw hsum
  simp only [Bool.false_eq_true, if_false] at h
  rw [h]
  simp only [HkeyElems.canLend, dg_rawSizes, if_true]
  have : (rawSizes o e).length = e.elems.length := by simp [rawSizes]
  rw [this]

/-- `MapDataSlab.CanLendToLeft / CanLendToRight` of a size-limited data slab -/
theorem MapDataSlab_CanLendToLeft_eq_model {r : Nat} (T : Nat) (s : MDataSlab r) (want : Nat)
    (hs : s.elems.size < 2^32) (hT : minThr T < 2^32) (hT2 : Gen.mapDataSlabPrefixSize ≤ minThr T)
    (hw : want < 2^32) (hsum : (dg (rawSizes (MDataSlab.eops r) s.elems)).sum ≤ s.elems.size) :
    MapDataSlab_CanLendToLeft false (u32 s.elems.size) (u32s (rawSizes (MDataSlab.eops r) s.elems)) (u32 want)
        (u32 (minThr T)) = s.canLendToLeft T want := by
  simp only [MapDataSlab_CanLendToLeft, Bool.false_eq_true, if_false, MDataSlab.canLendToLeft]
  exact hkeyElements_CanLendToLeft_eq_model _ T s.elems want hs hT hT2 hw hsum

theorem MapDataSlab_CanLendToRight_eq_model {r : Nat} (T : Nat) (s : MDataSlab r) (want : Nat)
    (hs : s.elems.size < 2^32) (hT : minThr T < 2^32) (hT2 : Gen.mapDataSlabPrefixSize ≤ minThr T)
    (hw : want < 2^32) (hsum : (dg (rawSizes (MDataSlab.eops r) s.elems)).sum ≤ s.elems.size) :
    MapDataSlab_CanLendToRight false (u32 s.elems.size) (u32s (rawSizes (MDataSlab.eops r) s.elems)) (u32 want)
        (u32 (minThr T)) = s.canLendToRight T want := by
  simp only [MapDataSlab_CanLendToRight, Bool.false_eq_true, if_false, MDataSlab.canLendToRight]
  exact hkeyElements_CanLendToRight_eq_model _ T s.elems want hs hT hT2 hw hsum

/-- `hkeyElements.Split`: split point and the two new group sizes.  Needs: `e.size` covers prefix + elements. -/
theorem hkeyElements_Split_eq_model {α : Type} (o : ElemsOps α) (e : HkeyElems α) (hs : e.size < 2^32)
    (hpre : Gen.hkeyElementsPrefixSize + (dg (rawSizes o e)).sum ≤ e.size) :
    hkeyElements_Split (u32 e.size) (u32s (rawSizes o e)) =
      some (Int.ofNat (HkeyElems.split o e).1.elems.length,
            u32 ((HkeyElems.split o e).1.size - Gen.hkeyElementsPrefixSize),
            u32 (HkeyElems.split o e).2.size, u32 (HkeyElems.split o e).1.size) := by
  have hlen' : (dg (rawSizes o e)).length = e.elems.length := by simp [dg, rawSizes]
  simp only [hkeyElements_Split, HkeyElems.split, dg_rawSizes]
  simp only [Gen.hkeyElementsPrefixSize] at hpre ⊢
  have e8 : UInt32.ofNat 8 = u32 8 := rfl
  have e1 : (1 : UInt32) = u32 1 := rfl
  have e0 : (0 : UInt32) = u32 0 := rfl
  rw [e8, e1, e0, u32_sub (by omega) hs, u32_add (by omega), u32_half' (by omega)]
  have hloop : hkeyElements_Split.loop1 _ _ _ 0 (u32 0, 0) = _ :=
    hkeySplit_loop ((e.size - 8 + 1) / 2) (e.size - 8) (by omega) (by omega) (rawSizes o e) 0 0 (by omega)
  have hb := splitLoop_bounds ((e.size - 8 + 1) / 2) (e.size - 8) (dg (rawSizes o e)) 0 0
  rw [hlen'] at hb
  generalize HkeyElems.splitLoop ((e.size - 8 + 1) / 2) (e.size - 8) (dg (rawSizes o e)) 0 0 = r at *
  obtain ⟨lc, ls⟩ := r
  simp only at hloop hb
  rw [hloop]
  simp only [Option.some.injEq, Prod.mk.injEq, List.length_take]
  rw [u32_sub (by omega) (by omega), u32_add (by omega), u32_add (by omega)]
  refine ⟨?_, ?_, rfl, rfl⟩
  · congr 1; omega
  · congr 1; omega

/-- `hkeyElements.LendToRight`: the hash-level error in the same case; otherwise `leftCount`, `leftSize`,
    `moveCount` and the two new group sizes are the model's.  Needs: `mapDataSlabPrefixSize + hkeyElementsPrefixSize
    ≤ minThreshold`, both sizes ≥ the prefix and their sum below 2^32, the left size covers its elements. -/
theorem hkeyElements_LendToRight_eq_model {α : Type} (o : ElemsOps α) (T : Nat) (l r : HkeyElems α)
    (hT : minThr T < 2^32) (hT2 : Gen.mapDataSlabPrefixSize + Gen.hkeyElementsPrefixSize ≤ minThr T)
    (hlv : l.level < 2^64) (hrv : r.level < 2^64) (hsz : l.size + r.size < 2^32)
    (hr8 : Gen.hkeyElementsPrefixSize ≤ r.size)
    (hpre : Gen.hkeyElementsPrefixSize + (dg (rawSizes o l)).sum ≤ l.size) :
    match HkeyElems.lendToRight o T l r with
    | .error _ =>
        hkeyElements_LendToRight (u64 l.level) (u32 l.size) (u32s (rawSizes o l)) (u64 r.level) (u32 r.size)
          (u32 (minThr T)) = none
    | .ok (l', r') =>
        hkeyElements_LendToRight (u64 l.level) (u32 l.size) (u32s (rawSizes o l)) (u64 r.level) (u32 r.size)
          (u32 (minThr T)) =
        some (Int.ofNat l'.elems.length, u32 (l'.size - Gen.hkeyElementsPrefixSize),
              Int.ofNat (l.elems.length - l'.elems.length), u32 l'.size, u32 r'.size) := by
  have hlen1 : (u32s (rawSizes o l)).length = l.elems.length := by simp [u32s, rawSizes]
  have hlen2 : (dg (rawSizes o l)).length = l.elems.length := by simp [dg, rawSizes]
  have hlen3 : (rawSizes o l).length = l.elems.length := by simp [rawSizes]
  simp only [HkeyElems.lendToRight, dg_rawSizes]
  by_cases hlev : l.level = r.level
  · simp only [hlev, ne_eq, not_true_eq_false, if_false]
    simp only [hkeyElements_LendToRight, hlen1]
    have hne : decide (u64 r.level ≠ u64 r.level) = false := by simp
    rw [hne]
    simp only [Bool.false_eq_true, if_false]
    simp only [Gen.hkeyElementsPrefixSize, Gen.mapDataSlabPrefixSize] at hpre hT2 hr8 ⊢
    have e8 : UInt32.ofNat 8 = u32 8 := rfl
    have e18 : UInt32.ofNat 18 = u32 18 := rfl
    have e16 : UInt32.ofNat (8 * 2) = u32 16 := rfl
    have e1 : (1 : UInt32) = u32 1 := rfl
    have efuel : (Int.ofNat l.elems.length - 1 + 1).toNat = l.elems.length := by simp
    rw [e8, e18, e16, e1, efuel, u32_sub (by omega) hT, u32_sub (by omega) (by omega), u32_add hsz,
      u32_sub (by omega) (by omega), u32_sub (by omega) (by omega), u32_add (by omega), u32_half' (by omega)]
    have hloop := hkeyLend_loop (minThr T - 18 - 8) (l.size + r.size - 16) ((l.size + r.size - 16 + 1) / 2)
      (by omega) (by omega) (by omega) (rawSizes o l) l.elems.length (by omega) l.elems.length (l.size - 8)
      (by omega) (by have := sum_take_le (dg (rawSizes o l)) l.elems.length; omega) (by omega)
    rw [← hlen2, List.take_length, hlen2] at hloop
    have hb := lendLoop_bounds (minThr T - 18 - 8) (l.size + r.size - 16) ((l.size + r.size - 16 + 1) / 2)
      (dg (rawSizes o l)).reverse l.elems.length (l.size - 8)
    have e82 : 8 * 2 = 16 := rfl
    rw [e82]
    generalize HkeyElems.lendLoop (minThr T - 18 - 8) (l.size + r.size - 16) ((l.size + r.size - 16 + 1) / 2)
      (dg (rawSizes o l)).reverse l.elems.length (l.size - 8) = res at *
    obtain ⟨lc, ls⟩ := res
    simp only at hloop hb
    obtain ⟨h1, h2⟩ := hloop
    simp only [h1, h2, Option.some.injEq, Prod.mk.injEq, List.length_take]
    rw [u32_sub (by omega) (by omega), u32_add (by omega), u32_add (by omega)]
    have hmin : min lc l.elems.length = lc := by omega
    rw [hmin]
    refine ⟨rfl, ?_, ?_, rfl, rfl⟩
    · congr 1; omega
    · simp only [Int.ofNat_eq_natCast]; omega
  · simp only [ne_eq, hlev, not_false_eq_true, if_true]
    simp only [hkeyElements_LendToRight]
    have hne : decide (u64 l.level ≠ u64 r.level) = true := by
      simp only [ne_eq, decide_eq_true_eq, u64, ← UInt64.toNat_inj, UInt64.toNat_ofNat']
      omega
    rw [hne]
    simp

/-- `hkeyElements.BorrowFromRight`, likewise (the RIGHT size must cover its elements). -/
theorem hkeyElements_BorrowFromRight_eq_model {α : Type} (o : ElemsOps α) (T : Nat) (l r : HkeyElems α)
    (hT : minThr T < 2^32) (hT2 : Gen.mapDataSlabPrefixSize + Gen.hkeyElementsPrefixSize ≤ minThr T)
    (hlv : l.level < 2^64) (hrv : r.level < 2^64) (hsz : l.size + r.size < 2^32)
    (hl8 : Gen.hkeyElementsPrefixSize ≤ l.size)
    (hpre : Gen.hkeyElementsPrefixSize + (dg (rawSizes o r)).sum ≤ r.size) :
    match HkeyElems.borrowFromRight o T l r with
    | .error _ =>
        hkeyElements_BorrowFromRight (u64 l.level) (u32 l.size) (Int.ofNat l.elems.length) (u64 r.level) (u32 r.size)
          (u32s (rawSizes o r)) (u32 (minThr T)) = none
    | .ok (l', r') =>
        hkeyElements_BorrowFromRight (u64 l.level) (u32 l.size) (Int.ofNat l.elems.length) (u64 r.level) (u32 r.size)
          (u32s (rawSizes o r)) (u32 (minThr T)) =
        some (Int.ofNat l'.elems.length, u32 (l'.size - Gen.hkeyElementsPrefixSize),
              Int.ofNat (l'.elems.length - l.elems.length), u32 l'.size, u32 r'.size) := by
  have hlen2 : (dg (rawSizes o r)).length = r.elems.length := by simp [dg, rawSizes]
  simp only [HkeyElems.borrowFromRight, dg_rawSizes]
  by_cases hlev : l.level = r.level
  · simp only [hlev, ne_eq, not_true_eq_false, if_false]
    simp only [hkeyElements_BorrowFromRight]
    have hne : decide (u64 r.level ≠ u64 r.level) = false := by simp
    rw [hne]
    simp only [Bool.false_eq_true, if_false]
    simp only [Gen.hkeyElementsPrefixSize, Gen.mapDataSlabPrefixSize] at hpre hT2 hl8 ⊢
    have e8 : UInt32.ofNat 8 = u32 8 := rfl
    have e18 : UInt32.ofNat 18 = u32 18 := rfl
    have e16 : UInt32.ofNat (8 * 2) = u32 16 := rfl
    have e1 : (1 : UInt32) = u32 1 := rfl
    rw [e8, e18, e16, e1, u32_sub (by omega) hT, u32_sub (by omega) (by omega), u32_add hsz,
      u32_sub (by omega) (by omega), u32_sub (by omega) (by omega), u32_add (by omega), u32_half' (by omega)]
    have hloop := hkeyBorrow_loop (minThr T - 18 - 8) (l.size + r.size - 16) ((l.size + r.size - 16 + 1) / 2)
      (by omega) (by omega) (by omega) (rawSizes o r) 0 l.elems.length (l.size - 8) (by omega)
    have hb := borrowLoop_bounds (minThr T - 18 - 8) (l.size + r.size - 16) ((l.size + r.size - 16 + 1) / 2)
      (dg (rawSizes o r)) l.elems.length (l.size - 8)
    rw [hlen2] at hb
    have e82 : 8 * 2 = 16 := rfl
    rw [e82]
    generalize HkeyElems.borrowLoop (minThr T - 18 - 8) (l.size + r.size - 16) ((l.size + r.size - 16 + 1) / 2)
      (dg (rawSizes o r)) l.elems.length (l.size - 8) = res at *
    obtain ⟨lc, ls⟩ := res
    simp only at hloop hb
    rw [hloop]
    simp only [Option.some.injEq, Prod.mk.injEq, List.length_append, List.length_take]
    rw [u32_add (by omega), u32_sub (by omega) (by omega), u32_add (by omega)]
    have hmin : min (lc - l.elems.length) r.elems.length = lc - l.elems.length := by omega
    rw [hmin]
    refine ⟨?_, ?_, ?_, rfl, rfl⟩
    · congr 1; omega
    · congr 1
    · simp only [Int.ofNat_eq_natCast]; omega
  · simp only [ne_eq, hlev, not_false_eq_true, if_true]
    simp only [hkeyElements_BorrowFromRight]
    have hne : decide (u64 l.level ≠ u64 r.level) = true := by
      simp only [ne_eq, decide_eq_true_eq, u64, ← UInt64.toNat_inj, UInt64.toNat_ofNat']
      omega
    rw [hne]
    simp

end Atree.TransEq
