import AtreeProofs.Props.TransMapSlabsData
import AtreeProofs.Props.TransMapSlabsMeta
import AtreeProofs.Props.TransSafe
/-
  TRANSLATION EQUIVALENCE of the map slab restructuring code, "ArithSafe" part: the range hypotheses of the
  `*_full_eq_model` theorems (`TransMapSlabsData.lean`, `TransMapSlabsMeta.lean`) follow from the slab invariants
  (`MDataInv`, `MTreeInv` of `AtreeProofs/MapInv.lean`) and `legalThreshold T`.

  A slab that is split / rebalanced is NOT inside the size band (an element / a child was just inserted or removed), so
  the theorems are stated for a WORKING STATE: exact bookkeeping, but the size bound relaxed to twice the maximum
  (`MDataWork`); for index slabs the exact bookkeeping alone (`MMetaWork`) is all the code needs.  Every slab of a valid
  tree is in the working state (`MDataWork.of_inv`, `MMetaWork.of_inv`), and stays in it when it grows by one
  admissible element (`MDataWork.of_inv_grow`).  The theorems here have NO numeric side conditions.
-/
namespace Atree.TransEq
open Atree Atree.Gen.TransMap

/-! ## the working state of a map data slab -/

/-- The state in which `Split`, `Merge`, `LendToRight`, `BorrowFromRight` see a map data slab of the slab tree: one
    digest per element, the element size exact, hash level representable (it is 0 for tree slabs), but possibly
    outside the size band - by at most one slab's worth. -/
structure MDataWork {r : Nat} (T : Nat) (s : MDataSlab r) : Prop where
  hkeys_len : s.elems.hkeys.length = s.elems.elems.length
  size_eq   : s.elems.size = Gen.hkeyElementsPrefixSize + HkeyElems.elemSizes (MDataSlab.eops r) s.elems.elems
  level_lt  : s.elems.level < 2^64
  size_le   : s.elems.size ≤ 2 * maxThr T

section work
variable {T r : Nat} {D : DigestFn (r + 1)} {top : Bool} {s l rr : MDataSlab r}

/-- the bookkeeping clauses of `ElemsInv` at the first level -/
theorem msafe_elemsInv_top (h : MDataInv T D top s) :
    s.elems.level = 0 ∧ s.elems.hkeys.length = s.elems.elems.length ∧
    s.elems.size = Gen.hkeyElementsPrefixSize + HkeyElems.elemSizes (MDataSlab.eops r) s.elems.elems := by
  have := h.elems_inv
  simp only [ElemsInv] at this
  exact ⟨this.2.1, this.2.2.1, this.2.2.2.2.1⟩

/-- `elemSizes` is the sum the `*_full_eq_model` theorems talk about -/
theorem msafe_elemSizes_eq (s : MDataSlab r) :
    (dg (rawSizes (MDataSlab.eops r) s.elems)).sum = HkeyElems.elemSizes (MDataSlab.eops r) s.elems.elems := by
  rw [← dg_rawSizes]; rfl

/-- every element costs at least its digest: the element count is below the element size -/
theorem msafe_length_le_elemSizes {α : Type} (o : ElemsOps α) (es : List (MElemF α)) :
    es.length ≤ HkeyElems.elemSizes o es := by
  induction es with
  | nil => simp [HkeyElems.elemSizes]
  | cons a t ih =>
    simp only [HkeyElems.elemSizes, List.map_cons, List.sum_cons, List.length_cons, Gen.digestSize] at ih ⊢
    omega

/-- a data slab's prefix is at most 18 bytes, whatever its flags -/
theorem msafe_prefixSize_le (s : MDataSlab r) : s.prefixSize ≤ Gen.mapDataSlabPrefixSize := by
  simp only [MDataSlab.prefixSize, Gen.inlinedMapDataSlabPrefixSize, Gen.mapRootDataSlabPrefixSize,
    Gen.mapDataSlabPrefixSize]
  split
  · omega
  · split <;> omega

/-- 1. every data slab of a valid map (root or not, inlined or not) is in the working state -/
theorem MDataWork.of_inv (_hT : legalThreshold T = true) (h : MDataInv T D top s) : MDataWork T s := by
  obtain ⟨hlv, hlen, hsz⟩ := msafe_elemsInv_top h
  refine ⟨hlen, hsz, by rw [hlv]; decide, ?_⟩
  have h1 := h.le_max
  have h2 := h.size_eq
  omega

/-- the largest admissible first-level element together with its digest is less than a slab's maximum -/
theorem msafe_elem_fits (hT : legalThreshold T = true) : maxInlineMapElem T + Gen.digestSize ≤ maxThr T := by
  have f := thrFacts hT
  have := f.lo; have := f.hi
  rw [f.maxE]
  simp only [maxInlineMapElem, Gen.mapDataSlabPrefixSize, Gen.hkeyElementsPrefixSize, Gen.minElementCountInSlab,
    Gen.digestSize]
  omega

/-- ... and a slab `s'` that has exact bookkeeping and is at most one admissible element (size up to
    `maxInlineMapElem T`, plus its digest) larger than a slab `s` of a valid map is in the working state: the overfull
    slab that `Split` sees after `Set`. -/
theorem MDataWork.of_inv_grow {s' : MDataSlab r} (hT : legalThreshold T = true) (h : MDataInv T D top s)
    (hlen : s'.elems.hkeys.length = s'.elems.elems.length)
    (hsz : s'.elems.size = Gen.hkeyElementsPrefixSize + HkeyElems.elemSizes (MDataSlab.eops r) s'.elems.elems)
    (hlv : s'.elems.level = s.elems.level)
    (hgrow : s'.elems.size ≤ s.elems.size + maxInlineMapElem T + Gen.digestSize) : MDataWork T s' := by
  refine ⟨hlen, hsz, by rw [hlv, (msafe_elemsInv_top h).1]; decide, ?_⟩
  have h1 := h.le_max
  have h2 := h.size_eq
  have := msafe_elem_fits hT
  omega

/-- the working state after one element `e` (with digest `hk`) was inserted at position `i` of a slab of a valid map -/
theorem MDataWork.insert (hT : legalThreshold T = true) (h : MDataInv T D top s) (i hk : Nat)
    (e : MElemF (MElems r)) (hi : i ≤ s.elems.elems.length)
    (he : MElemF.size (MElems.ops r) e ≤ maxInlineMapElem T) :
    MDataWork T { s with elems := { s.elems with hkeys := s.elems.hkeys.insertIdx i hk,
                                                 elems := s.elems.elems.insertIdx i e,
                                                 size := s.elems.size + (MElemF.size (MElems.ops r) e + Gen.digestSize) } } := by
  obtain ⟨_, hlen, hsz⟩ := msafe_elemsInv_top h
  refine MDataWork.of_inv_grow hT h ?_ ?_ rfl ?_
  · simp [List.length_insertIdx, hi, hlen]
  · show s.elems.size + (MElemF.size (MElems.ops r) e + Gen.digestSize) =
      Gen.hkeyElementsPrefixSize + HkeyElems.elemSizes (MDataSlab.eops r) (s.elems.elems.insertIdx i e)
    have hperm : (s.elems.elems.insertIdx i e).Perm (e :: s.elems.elems) := List.perm_insertIdx e s.elems.elems hi
    have hsum : HkeyElems.elemSizes (MDataSlab.eops r) (s.elems.elems.insertIdx i e) =
        (MElemF.size (MElems.ops r) e + Gen.digestSize) + HkeyElems.elemSizes (MDataSlab.eops r) s.elems.elems := by
      simp only [HkeyElems.elemSizes]
      rw [(hperm.map _).sum_nat, List.map_cons, List.sum_cons]; rfl
    rw [hsum, hsz]; omega
  · show s.elems.size + (MElemF.size (MElems.ops r) e + Gen.digestSize) ≤ _
    omega

/-- the numeric content of the working state, as the `*_full_eq_model` theorems want it -/
theorem msafe_work_fits (hT : legalThreshold T = true) (h : MDataWork T s) :
    s.elems.size ≤ 98304 ∧ Gen.hkeyElementsPrefixSize ≤ s.elems.size ∧ s.elems.elems.length ≤ s.elems.size ∧
    Gen.hkeyElementsPrefixSize + (dg (rawSizes (MDataSlab.eops r) s.elems)).sum ≤ s.elems.size := by
  have := thresholds_fit hT
  have h1 := h.size_le
  have h2 := h.size_eq
  have h3 := msafe_length_le_elemSizes (MDataSlab.eops r) s.elems.elems
  have h4 := msafe_elemSizes_eq s
  omega

/-! ## MapDataSlab.Split / Merge / LendToRight / BorrowFromRight without numeric side conditions -/

variable {V W X : Type} {env : Env (MElemF (MElems r)) V W X Ctx GE}

/-- 2. `MapDataSlab.Split` IN FULL on every slab it can be called on -/
theorem safe_MapDataSlab_Split_full (hT : legalThreshold T = true) (hE : EnvH (MDataSlab.eops r) T env) (hS : EnvS env)
    (hw : MDataWork T s) (x : Option X) (c : Ctx) :
    MapDataSlab_Split env (cData s x) c =
      match MDataSlab.split s c with
      | .error _ => some (.nil, .nil, some .slabSplit, cData s x, c)
      | .ok (l, rr, c') => some (.dataSlab (cData l x), .dataSlab (cData rr none), none, cData l x, c') := by
  have hf := msafe_work_fits hT hw
  have hl := hw.hkeys_len
  exact MapDataSlab_Split_full_eq_model T env hE hS s x c (by omega)
    (by simp only [Gen.mapDataSlabPrefixSize]; omega) hf.2.2.2 (by omega)

/-- 3. `MapDataSlab.Merge` IN FULL on every pair of siblings it can be called on -/
theorem safe_MapDataSlab_Merge_full (hT : legalThreshold T = true) (hl : MDataWork T l) (hr : MDataWork T rr)
    (x y : Option X) :
    MapDataSlab_Merge env (cData l x) (.dataSlab (cData rr y)) = some (none, cData (MDataSlab.merge l rr) x) := by
  have h1 := msafe_work_fits hT hl
  have h2 := msafe_work_fits hT hr
  exact MapDataSlab_Merge_full_eq_model env l rr x y h2.2.1 (by omega)

/-- 3. `MapDataSlab.LendToRight` IN FULL on every pair of siblings it can be called on -/
theorem safe_MapDataSlab_LendToRight_full (hT : legalThreshold T = true) (hE : EnvH (MDataSlab.eops r) T env)
    (hl : MDataWork T l) (hr : MDataWork T rr) (x y : Option X) :
    MapDataSlab_LendToRight env (cData l x) (.dataSlab (cData rr y)) =
      match MDataSlab.lendToRight T l rr with
      | .error _ => some (some .slabRebalance, cData l x, .dataSlab (cData rr y))
      | .ok (l', r') => some (none, cData l' x, .dataSlab (cData r' y)) := by
  have ht := thresholds_fit hT
  have h1 := msafe_work_fits hT hl
  have h2 := msafe_work_fits hT hr
  exact MapDataSlab_LendToRight_full_eq_model T env hE l rr x y ht.2.1 ht.2.2.2.2.2.1 hl.level_lt hr.level_lt
    (by omega) h2.2.1 h1.2.2.2 hl.hkeys_len

/-- 3. `MapDataSlab.BorrowFromRight` IN FULL on every pair of siblings it can be called on -/
theorem safe_MapDataSlab_BorrowFromRight_full (hT : legalThreshold T = true) (hE : EnvH (MDataSlab.eops r) T env)
    (hl : MDataWork T l) (hr : MDataWork T rr) (x y : Option X) :
    MapDataSlab_BorrowFromRight env (cData l x) (.dataSlab (cData rr y)) =
      match MDataSlab.borrowFromRight T l rr with
      | .error _ => some (some .slabRebalance, cData l x, .dataSlab (cData rr y))
      | .ok (l', r') => some (none, cData l' x, .dataSlab (cData r' y)) := by
  have ht := thresholds_fit hT
  have h1 := msafe_work_fits hT hl
  have h2 := msafe_work_fits hT hr
  have hlen := hr.hkeys_len
  exact MapDataSlab_BorrowFromRight_full_eq_model T env hE l rr x y ht.2.1 ht.2.2.2.2.2.1 hl.level_lt hr.level_lt
    (by omega) h1.2.1 h2.2.2.2 (by omega)

end work

/-! ## index slabs -/

section metaSlab
variable {E V W X α : Type}

/-- The state in which `Split` / `Merge` see a map index slab: the header size is exact (`12 + 18 · children`).  No
    size bound: a slab that is split is one child over the band, and the code needs none (`UInt32.ofNat` is a ring
    homomorphism; only the two subtractions can go wrong, and exact bookkeeping excludes that). -/
def MMetaWork (m : MMetaSlab α) : Prop :=
  m.hdr.size = Gen.mapMetaDataSlabPrefixSize + Gen.mapSlabHeaderSize * m.childHdrs.length

theorem msafe_metaWork_iff (m : MMetaSlab α) : MMetaWork m ↔ m.hdr.size = 12 + 18 * m.childHdrs.length := Iff.rfl

/-- every index slab of a valid map is in that state -/
theorem MMetaWork.of_inv {T r d : Nat} {D : DigestFn (r + 1)} {top : Bool} {m : MMetaSlab (MTree r d)}
    (h : MTreeInv T D (d + 1) top m) : MMetaWork m := by
  have h' : m.childHdrs = m.children.map (MTree.hdr d) ∧
      m.hdr.size = Gen.mapMetaDataSlabPrefixSize + Gen.mapSlabHeaderSize * m.children.length := ⟨h.2.1, h.2.2.1⟩
  show m.hdr.size = _
  rw [h'.2, h'.1, List.length_map]

/-- ... and stays in it when a child header is inserted and the size grows by one header (the overfull slab that
    `Split` sees after `splitChildSlab`) -/
theorem MMetaWork.insert {m : MMetaSlab α} (h : MMetaWork m) (i : Nat) (hd : MHdr) (cs : List α)
    (hi : i ≤ m.childHdrs.length) :
    MMetaWork { m with childHdrs := m.childHdrs.insertIdx i hd, children := cs,
                       hdr := { m.hdr with size := m.hdr.size + Gen.mapSlabHeaderSize } } := by
  show m.hdr.size + Gen.mapSlabHeaderSize = _ + _ * (m.childHdrs.insertIdx i hd).length
  rw [List.length_insertIdx_of_le_length hi, h]
  simp only [Gen.mapMetaDataSlabPrefixSize, Gen.mapSlabHeaderSize]
  omega

/-- `hcov` of `MapMetaDataSlab_Split_full_eq_model` -/
theorem msafe_meta_hcov {m : MMetaSlab α} (h : MMetaWork m) :
    2 ≤ m.childHdrs.length → (m.childHdrs.length + 1) / 2 * Gen.mapSlabHeaderSize ≤ m.hdr.size := by
  intro h2
  rw [h]
  simp only [Gen.mapMetaDataSlabPrefixSize, Gen.mapSlabHeaderSize]
  omega

/-- `hpre` of `MapMetaDataSlab_Merge_full_eq_model` -/
theorem msafe_meta_hpre {m : MMetaSlab α} (h : MMetaWork m) : Gen.mapMetaDataSlabPrefixSize ≤ m.hdr.size := by
  rw [h]; omega

/-- 4. `MapMetaDataSlab.Split` IN FULL on every index slab with exact bookkeeping -/
theorem safe_MapMetaDataSlab_Split_full (env : Env E V W X Ctx GE) (hS : EnvS env)
    (hsplit : env.NewSlabSplitErrorf = some .slabSplit) {m : MMetaSlab α} (hw : MMetaWork m) (x : Option X) (c : Ctx) :
    MapMetaDataSlab_Split env (cMeta m x) c =
      match m.split c with
      | .error e => some (.nil, .nil, some e, cMeta m x, c)
      | .ok (l, r, c') => some (.metaSlab (cMeta l x), .metaSlab (cMeta r none), none, cMeta l x, c') :=
  MapMetaDataSlab_Split_full_eq_model env hS hsplit m x c (msafe_meta_hcov hw)

/-- 4. `MapMetaDataSlab.Merge` IN FULL whenever the right slab has exact bookkeeping -/
theorem safe_MapMetaDataSlab_Merge_full {S ε : Type} (env : Env E V W X S ε) (l : MMetaSlab α) {r : MMetaSlab α}
    (hr : MMetaWork r) (x y : Option X) :
    MapMetaDataSlab_Merge env (cMeta l x) (.metaSlab (cMeta r y)) = some (none, cMeta (MMetaSlab.merge l r) x) :=
  MapMetaDataSlab_Merge_full_eq_model env l r x y (msafe_meta_hpre hr)

/-- the same for the index slabs of a valid map, from the tree invariant -/
theorem safe_MapMetaDataSlab_Split_full_of_inv {T r d : Nat} {D : DigestFn (r + 1)} {top : Bool}
    (env : Env E V W X Ctx GE) (hS : EnvS env) (hsplit : env.NewSlabSplitErrorf = some .slabSplit)
    {m : MMetaSlab (MTree r d)} (h : MTreeInv T D (d + 1) top m) (x : Option X) (c : Ctx) :
    MapMetaDataSlab_Split env (cMeta m x) c =
      match m.split c with
      | .error e => some (.nil, .nil, some e, cMeta m x, c)
      | .ok (l, r, c') => some (.metaSlab (cMeta l x), .metaSlab (cMeta r none), none, cMeta l x, c') := by
  rw [safe_MapMetaDataSlab_Split_full env hS hsplit (MMetaWork.of_inv h) x c]
  rcases m.split c with e | ⟨l, rs, c'⟩ <;> rfl

theorem safe_MapMetaDataSlab_Merge_full_of_inv {S ε : Type} {T r d : Nat} {D : DigestFn (r + 1)} {top : Bool}
    (env : Env E V W X S ε) (l : MMetaSlab (MTree r d)) {rs : MMetaSlab (MTree r d)}
    (h : MTreeInv T D (d + 1) top rs) (x y : Option X) :
    MapMetaDataSlab_Merge env (cMeta l x) (.metaSlab (cMeta rs y)) = some (none, cMeta (MMetaSlab.merge l rs) x) :=
  safe_MapMetaDataSlab_Merge_full env l (MMetaWork.of_inv h) x y

end metaSlab

/-! ## non-vacuity -/

section examples

private def msafe_exElem (k sz : Nat) : MElemF (MElems 0) :=
  .single { key := ⟨1, k, [k]⟩, val := ⟨1, .val k⟩, size := sz }

/-- a data slab with the digests `ks`, every element `sz` bytes (+ 8 for the digest) -/
private def msafe_exSlab (id : Nat) (ks : List Nat) (sz : Nat) : MDataSlab 0 :=
  { hdr := ⟨⟨1, id⟩, 18 + 8 + (sz + 8) * ks.length, ks.headD 0⟩, next := ⟨0, 0⟩,
    elems := { hkeys := ks, elems := ks.map (fun k => msafe_exElem k sz), size := 8 + (sz + 8) * ks.length, level := 0 },
    root := false, inlined := false }

/-- inside the band of T = 256 (128 .. 384): 18 + 8 + 4 · 50 = 226 bytes -/
example : MDataWork 256 (msafe_exSlab 1 [5, 9, 11, 15] 42) := ⟨by decide, by decide, by decide, by decide⟩

/-- OUTSIDE the band (18 + 8 + 8 · 50 = 426 > 384 = maxThr 256), as `Split` sees it - still in the working state -/
example : MDataWork 256 (msafe_exSlab 1 [5, 9, 11, 15, 17, 19, 23, 29] 42) ∧
    ¬ (msafe_exSlab 1 [5, 9, 11, 15, 17, 19, 23, 29] 42).hdr.size ≤ maxThr 256 :=
  ⟨⟨by decide, by decide, by decide, by decide⟩, by decide⟩

/-- the theorems instantiated on the environment of `TransMapSlabs.lean`; the model does split the overfull slab, 4 + 4 -/
example (c : Ctx) :
    MapDataSlab_Split (envMap (MDataSlab.eops 0) 256 1) (cData (msafe_exSlab 1 [5, 9, 11, 15, 17, 19, 23, 29] 42) none) c =
      match MDataSlab.split (msafe_exSlab 1 [5, 9, 11, 15, 17, 19, 23, 29] 42) c with
      | .error _ => some (.nil, .nil, some .slabSplit, cData (msafe_exSlab 1 [5, 9, 11, 15, 17, 19, 23, 29] 42) none, c)
      | .ok (l, rr, c') => some (.dataSlab (cData l none), .dataSlab (cData rr none), none, cData l none, c') :=
  safe_MapDataSlab_Split_full (by decide) (envMap_EnvH _ _ _) (envMap_EnvS _ _ _)
    ⟨by decide, by decide, by decide, by decide⟩ none c

example : (MDataSlab.split (msafe_exSlab 1 [5, 9, 11, 15, 17, 19, 23, 29] 42) ⟨0, [], []⟩).toOption.map
    (fun p => (p.1.elems.hkeys, p.1.hdr.size, p.2.1.elems.hkeys, p.2.1.hdr.size)) =
      some ([5, 9, 11, 15], 226, [17, 19, 23, 29], 226) := by decide

example : MapDataSlab_Merge (V := Unit) (envMap (MDataSlab.eops 0) 256 1) (cData (msafe_exSlab 1 [5, 9] 42) none)
      (.dataSlab (cData (msafe_exSlab 2 [11, 15] 42) none)) =
    some (none, cData (MDataSlab.merge (msafe_exSlab 1 [5, 9] 42) (msafe_exSlab 2 [11, 15] 42)) none) :=
  safe_MapDataSlab_Merge_full (T := 256) (by decide) ⟨by decide, by decide, by decide, by decide⟩
    ⟨by decide, by decide, by decide, by decide⟩ none none

/-- an index slab with exact bookkeeping -/
private def msafe_exMeta : MMetaSlab Unit :=
  { hdr := ⟨⟨1, 7⟩, 12 + 18 * 3, 10⟩,
    childHdrs := [⟨⟨1, 1⟩, 200, 10⟩, ⟨⟨1, 2⟩, 200, 20⟩, ⟨⟨1, 3⟩, 200, 30⟩],
    children := [(), (), ()], root := false }

example : MMetaWork msafe_exMeta := (msafe_metaWork_iff _).2 (by decide)

end examples

end Atree.TransEq
