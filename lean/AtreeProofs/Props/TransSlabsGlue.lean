import AtreeProofs.Props.TransSlabsTree
import AtreeProofs.Props.TransSlabsData
import AtreeProofs.Props.TransSlabsMeta
import AtreeProofs.Props.TransSlabsDecide
/-
  GLUE between the index-slab restructuring theorems (`Props/TransSlabsTree.lean`: `Sl_SplitChildSlab_eq_model`,
  `Sl_rebalanceChildren_eq_model`, `Sl_mergeChildren_eq_model`, `Sl_MergeOrRebalanceChildSlab_eq_model`), which take the
  agreement of the DYNAMICALLY DISPATCHED child operation with the model as a hypothesis (`SplitAgrees`, `RebalAgrees`,
  `MergeAgrees`, the bundle `MorPre`), and the slab-level theorems that prove this agreement:
  `Props/TransSlabsData.lean` for data-slab children (depth 0), `Props/TransSlabsMeta.lean` for index-slab children
  (depth d + 1), `Props/TransSlabsDecide.lean` for `CanLendToLeft / CanLendToRight`.

  The generated dispatchers `TransSl.ArraySlab_Split / _Merge / _LendToRight / _BorrowFromRight` match on the variant of
  the receiver, call the per-type function and re-wrap the receiver's out-state in the same variant; on
  `trTree 0 s = .dataSlab (trData s)` resp. `trTree (d+1) m = .metaSlab (trMeta m)` they are the per-type functions.

  Result: corollaries WITHOUT any hypothesis about generated code (`Sl_*_data_eq_model`, `Sl_*_meta_eq_model`).
-/
set_option linter.unusedSimpArgs false
set_option linter.unusedVariables false
namespace Atree.TransEq
open Atree Atree.Gen

/-! ## 1. `Split` through the interface -/

/-- a data-slab child: the dispatched `Split` is `ArrayDataSlab.Split`, which is the model's `DataSlab.split` -/
theorem SplitAgrees_data (T : Nat) (look) (s : DataSlab) (c : Ctx) (hs : s.hdr.size < 2^32)
    (hpre : Gen.arrayDataSlabPrefixSize + sumSizes s.elems ≤ s.hdr.size) : SplitAgrees T look 0 s c := by
  have h := Sl_ArrayDataSlab_Split_eq_model T look s c hs hpre
  unfold SplitAgrees
  simp only [trTree, ATree.split, TransSl.ArraySlab_Split, h]
  cases DataSlab.split s c with
  | error e => rfl
  | ok res => rfl

/-- … on the slabs `Split` is called on (`DataWork`): no numeric side condition -/
theorem SplitAgrees_data_safe (T : Nat) (look) (s : DataSlab) (c : Ctx) (hT : legalThreshold T = true)
    (hw : DataWork T s) : SplitAgrees T look 0 s c := by
  have := dataWork_fits hT hw
  exact SplitAgrees_data T look s c (by omega) (by omega)

/-- an index-slab child (hypotheses of `Sl_ArrayMetaDataSlab_Split_eq_model`; all follow from
    `|countSum| = |childHdrs|`, `hdr.size = prefix + n * 14`, `hdr.count = sumCounts childHdrs`) -/
theorem SplitAgrees_meta (T : Nat) (look) {d : Nat} (m : MetaSlab (ATree d)) (c : Ctx)
    (hcs : (m.childHdrs.length + 1) / 2 ≤ m.countSum.length)
    (hcov : (m.childHdrs.length + 1) / 2 * arraySlabHeaderSize ≤ m.hdr.size)
    (hcnt : MetaSlab.sumCounts (m.childHdrs.take ((m.childHdrs.length + 1) / 2)) ≤ m.hdr.count) :
    SplitAgrees T look (d + 1) m c := by
  have h := Sl_ArrayMetaDataSlab_Split_eq_model T look m c hcs hcov hcnt
  unfold SplitAgrees
  simp only [trTree, ATree.split, TransSl.ArraySlab_Split, h]
  cases MetaSlab.split m c with
  | error e => rfl
  | ok res => rfl

/-! ## 2. `BorrowFromRight` / `LendToRight` through the interface -/

@[simp] theorem rebalOp_data_true (T : Nat) (l r : DataSlab) :
    rebalOp T 0 l r true = DataSlab.borrowFromRight T l r := rfl
@[simp] theorem rebalOp_data_false (T : Nat) (l r : DataSlab) :
    rebalOp T 0 l r false = DataSlab.lendToRight T l r := rfl
@[simp] theorem rebalOp_meta_true (T : Nat) {d : Nat} (l r : MetaSlab (ATree d)) :
    rebalOp T (d + 1) l r true = MetaSlab.borrowFromRight l r := rfl
@[simp] theorem rebalOp_meta_false (T : Nat) {d : Nat} (l r : MetaSlab (ATree d)) :
    rebalOp T (d + 1) l r false = MetaSlab.lendToRight l r := rfl

theorem RebalAgrees_data_borrow (T : Nat) (look) (l r : DataSlab) (hT : minThr T < 2^32)
    (hsz : l.hdr.size + r.hdr.size + 1 < 2^32) (hsum : sumSizes r.elems ≤ r.hdr.size)
    (hlen : r.elems.length ≤ r.hdr.count) (hlen2 : r.elems.length < 2^32) :
    RebalAgrees T look 0 l r true := by
  have h := Sl_ArrayDataSlab_BorrowFromRight_eq_model T look l r hT hsz hsum hlen hlen2
  unfold RebalAgrees
  simp only [if_true, trTree, rebalOp, ATree.borrowFromRight, TransSl.ArraySlab_BorrowFromRight, h]
  rfl

theorem RebalAgrees_data_lend (T : Nat) (look) (l r : DataSlab) (hT : minThr T < 2^32)
    (hsz : l.hdr.size + r.hdr.size + 1 < 2^32) (hsum : sumSizes l.elems ≤ l.hdr.size)
    (hlen : l.elems.length ≤ l.hdr.count) (hlen2 : l.elems.length < 2^32) :
    RebalAgrees T look 0 l r false := by
  have h := Sl_ArrayDataSlab_LendToRight_eq_model T look l r hT hsz hsum hlen hlen2
  unfold RebalAgrees
  simp only [Bool.false_eq_true, if_false, trTree, rebalOp, ATree.lendToRight, TransSl.ArraySlab_LendToRight, h]
  rfl

/-- data-slab siblings, both directions.  The conditions are on the slab whose elements Go's loop walks (`w`): the right
    one for `BorrowFromRight` (`flag = true`), the left one for `LendToRight`. -/
theorem RebalAgrees_data (T : Nat) (look) (l r : DataSlab) (flag : Bool) (hT : minThr T < 2^32)
    (hsz : l.hdr.size + r.hdr.size + 1 < 2^32) (w : DataSlab) (hw : w = if flag then r else l)
    (hsum : sumSizes w.elems ≤ w.hdr.size) (hlen : w.elems.length ≤ w.hdr.count) (hlen2 : w.elems.length < 2^32) :
    RebalAgrees T look 0 l r flag := by
  cases flag
  · simp only [Bool.false_eq_true, if_false] at hw; rw [hw] at hsum hlen hlen2
    exact RebalAgrees_data_lend T look l r hT hsz hsum hlen hlen2
  · simp only [if_true] at hw; rw [hw] at hsum hlen hlen2
    exact RebalAgrees_data_borrow T look l r hT hsz hsum hlen hlen2

/-- … on the pairs of siblings these functions are called on: no numeric side condition -/
theorem RebalAgrees_data_safe (T : Nat) (look) (l r : DataSlab) (flag : Bool) (hT : legalThreshold T = true)
    (hl : DataWork T l) (hr : DataWork T r) : RebalAgrees T look 0 l r flag := by
  have ht := thresholds_fit hT
  have h1 := dataWork_fits hT hl
  have h2 := dataWork_fits hT hr
  cases flag
  · exact RebalAgrees_data_lend T look l r ht.2.1 (by omega) (by omega) (by omega) (by omega)
  · exact RebalAgrees_data_borrow T look l r ht.2.1 (by omega) (by omega) (by omega) (by omega)

theorem RebalAgrees_meta_borrow (T : Nat) (look) {d : Nat} (l r : MetaSlab (ATree d))
    (hmove : l.childHdrs.length ≤ (l.childHdrs.length + r.childHdrs.length) / 2)
    (hcs : r.childHdrs.length - ((l.childHdrs.length + r.childHdrs.length) / 2 - l.childHdrs.length) ≤
      r.countSum.length) :
    RebalAgrees T look (d + 1) l r true := by
  have h := Sl_ArrayMetaDataSlab_BorrowFromRight_eq_model T look l r hmove hcs
  unfold RebalAgrees
  simp only [if_true, trTree, rebalOp, ATree.borrowFromRight, TransSl.ArraySlab_BorrowFromRight, h]
  rfl

theorem RebalAgrees_meta_lend (T : Nat) (look) {d : Nat} (l r : MetaSlab (ATree d))
    (hmove : (l.childHdrs.length + r.childHdrs.length) / 2 ≤ l.childHdrs.length)
    (hcs : (l.childHdrs.length + r.childHdrs.length) / 2 ≤ l.countSum.length) :
    RebalAgrees T look (d + 1) l r false := by
  have h := Sl_ArrayMetaDataSlab_LendToRight_eq_model T look l r hmove hcs
  unfold RebalAgrees
  simp only [Bool.false_eq_true, if_false, trTree, rebalOp, ATree.lendToRight, TransSl.ArraySlab_LendToRight, h]
  rfl

/-- index-slab siblings, both directions: the hypotheses of `Sl_ArrayMetaDataSlab_BorrowFromRight_eq_model`
    (`flag = true`: the left slab has at most half of the children ..) resp. `.._LendToRight_..` (`flag = false`: the
    left slab has at least half ..).  In the wrong direction Go panics (negative `moveCount`). -/
theorem RebalAgrees_meta (T : Nat) (look) {d : Nat} (l r : MetaSlab (ATree d)) (flag : Bool)
    (hb : flag = true → l.childHdrs.length ≤ (l.childHdrs.length + r.childHdrs.length) / 2 ∧
      r.childHdrs.length - ((l.childHdrs.length + r.childHdrs.length) / 2 - l.childHdrs.length) ≤ r.countSum.length)
    (hl : flag = false → (l.childHdrs.length + r.childHdrs.length) / 2 ≤ l.childHdrs.length ∧
      (l.childHdrs.length + r.childHdrs.length) / 2 ≤ l.countSum.length) :
    RebalAgrees T look (d + 1) l r flag := by
  cases flag
  · exact RebalAgrees_meta_lend T look l r (hl rfl).1 (hl rfl).2
  · exact RebalAgrees_meta_borrow T look l r (hb rfl).1 (hb rfl).2

/-- the same for index slabs with as many count sums as headers: only the direction condition remains -/
theorem RebalAgrees_meta_of_len (T : Nat) (look) {d : Nat} (l r : MetaSlab (ATree d)) (flag : Bool)
    (hlenL : l.countSum.length = l.childHdrs.length) (hlenR : r.countSum.length = r.childHdrs.length)
    (hdir : if flag then l.childHdrs.length ≤ r.childHdrs.length else r.childHdrs.length ≤ l.childHdrs.length) :
    RebalAgrees T look (d + 1) l r flag := by
  cases flag
  · simp only [Bool.false_eq_true, if_false] at hdir
    exact RebalAgrees_meta_lend T look l r (by omega) (by omega)
  · simp only [if_true] at hdir
    exact RebalAgrees_meta_borrow T look l r (by omega) (by omega)

/-! ## 3. `Merge` through the interface -/

/-- what Go leaves of the right data slab after `Merge`: header and `next` untouched, `len` NIL elements -/
def clearedData (r : DataSlab) : GSlab :=
  .dataSlab { trData r with elements := List.replicate r.elems.length none }

/-- what Go leaves of the right index slab after `Merge`: the header slice is zeroed, the rest (own header, count sums)
    untouched -/
def clearedMeta {α : Type} (r : MetaSlab α) : GSlab :=
  .metaSlab { trMeta r with childrenHeaders := List.replicate r.childHdrs.length default }

theorem clearedData_slabID (T : Nat) (look) (r : DataSlab) :
    TransSl.ArraySlab_SlabID (envA T look) (clearedData r) = r.hdr.id := rfl

theorem clearedMeta_slabID (T : Nat) (look) {α : Type} (r : MetaSlab α) :
    TransSl.ArraySlab_SlabID (envA T look) (clearedMeta r) = r.hdr.id := rfl

theorem disp_Merge_data (T : Nat) (look) (l r : DataSlab)
    (hpre : Gen.arrayDataSlabPrefixSize ≤ l.hdr.size + r.hdr.size) :
    TransSl.ArraySlab_Merge (envA T look) (trTree 0 l) (some (trTree 0 r)) =
      some (none, trTree 0 (ATree.merge 0 l r), some (clearedData r)) := by
  have h := Sl_ArrayDataSlab_Merge_eq_model T look l r hpre
  simp only [trTree, ATree.merge, TransSl.ArraySlab_Merge, h, clearedData]

theorem disp_Merge_meta (T : Nat) (look) {d : Nat} (l r : MetaSlab (ATree d))
    (hne : l.countSum ≠ []) (hpre : arrayMetaDataSlabPrefixSize ≤ r.hdr.size) :
    TransSl.ArraySlab_Merge (envA T look) (trTree (d + 1) l) (some (trTree (d + 1) r)) =
      some (none, trTree (d + 1) (ATree.merge (d + 1) l r), some (clearedMeta r)) := by
  have h := Sl_ArrayMetaDataSlab_Merge_eq_model T look l r hne hpre
  simp only [trTree, ATree.merge, TransSl.ArraySlab_Merge, h, clearedMeta]

/-- data slabs: the witness is the right slab with cleared elements; its `SlabID` is unchanged -/
theorem MergeAgrees_data (T : Nat) (look) (l r : DataSlab)
    (hpre : Gen.arrayDataSlabPrefixSize ≤ l.hdr.size + r.hdr.size) : MergeAgrees T look 0 l r :=
  ⟨clearedData r, rfl, disp_Merge_data T look l r hpre⟩

theorem MergeAgrees_data_safe (T : Nat) (look) (l r : DataSlab) (hl : DataWork T l) : MergeAgrees T look 0 l r := by
  have h2 := hl.size_eq
  rw [dataWork_prefix hl] at h2
  exact MergeAgrees_data T look l r (by omega)

/-- index slabs: the witness is the right slab with zeroed child headers; its `SlabID` is unchanged -/
theorem MergeAgrees_meta (T : Nat) (look) {d : Nat} (l r : MetaSlab (ATree d))
    (hne : l.countSum ≠ []) (hpre : arrayMetaDataSlabPrefixSize ≤ r.hdr.size) : MergeAgrees T look (d + 1) l r :=
  ⟨clearedMeta r, rfl, disp_Merge_meta T look l r hne hpre⟩

/-! ## 4. the index-slab operations on a data-slab child / an index-slab child: no hypothesis on generated code -/

/-- `SplitChildSlab` of a DATA-slab child in the state `Split` sees it (`DataWork`: exact bookkeeping, at most twice
    the maximum size).  `hk hk'`: the child index is inside both bookkeeping slices (else Go panics); `hbase`: the count
    sum up to the child covers the child's count (`uint32` subtraction). -/
theorem Sl_SplitChildSlab_data_eq_model (T : Nat) (look) (m : MetaSlab (ATree 0)) (child : DataSlab) (k : Nat)
    (c : Ctx) (hT : legalThreshold T = true) (hw : DataWork T child)
    (hk : k < m.countSum.length) (hk' : k < m.childHdrs.length)
    (hbase : child.hdr.count ≤ m.countSum.getD k 0) :
    TransSl.ArrayMetaDataSlab_SplitChildSlab (envA T look) (trMeta m) c (some (.dataSlab (trData child))) (Int.ofNat k) =
      match DataSlab.split child c, m.splitChildSlab child k c with
      | .error e, _ => some (some e, trMeta m, c, some (.dataSlab (trData child)))
      | .ok (l, _, _), .ok (m', c') => some (none, trMeta m', c', some (.dataSlab (trData l)))
      | .ok _, .error _ => none := by
  have h := Sl_SplitChildSlab_eq_model T look m child k c (SplitAgrees_data_safe T look child c hT hw) hk hk' hbase
  rw [show ATree.split 0 child c = DataSlab.split child c from rfl] at h
  simp only [trTree] at h
  cases hs : DataSlab.split child c with
  | error e => rw [hs] at h; exact h
  | ok res =>
    rw [hs] at h
    obtain ⟨l, r, c1⟩ := res
    cases hm : m.splitChildSlab child k c with
    | error e => rw [hm] at h; exact h
    | ok res2 => rw [hm] at h; obtain ⟨m', c'⟩ := res2; exact h

/-- `SplitChildSlab` of an INDEX-slab child: the child's own bookkeeping must satisfy the three conditions of
    `Sl_ArrayMetaDataSlab_Split_eq_model` -/
theorem Sl_SplitChildSlab_meta_eq_model (T : Nat) (look) {d : Nat} (m : MetaSlab (ATree (d + 1)))
    (child : MetaSlab (ATree d)) (k : Nat) (c : Ctx)
    (hcs : (child.childHdrs.length + 1) / 2 ≤ child.countSum.length)
    (hcov : (child.childHdrs.length + 1) / 2 * arraySlabHeaderSize ≤ child.hdr.size)
    (hcnt : MetaSlab.sumCounts (child.childHdrs.take ((child.childHdrs.length + 1) / 2)) ≤ child.hdr.count)
    (hk : k < m.countSum.length) (hk' : k < m.childHdrs.length)
    (hbase : child.hdr.count ≤ m.countSum.getD k 0) :
    TransSl.ArrayMetaDataSlab_SplitChildSlab (envA T look) (trMeta m) c (some (.metaSlab (trMeta child))) (Int.ofNat k) =
      match MetaSlab.split child c, m.splitChildSlab child k c with
      | .error e, _ => some (some e, trMeta m, c, some (.metaSlab (trMeta child)))
      | .ok (l, _, _), .ok (m', c') => some (none, trMeta m', c', some (.metaSlab (trMeta l)))
      | .ok _, .error _ => none := by
  have h := Sl_SplitChildSlab_eq_model T look m child k c (SplitAgrees_meta T look child c hcs hcov hcnt) hk hk' hbase
  rw [show ATree.split (d + 1) child c = MetaSlab.split child c from rfl] at h
  simp only [trTree] at h
  cases hs : MetaSlab.split child c with
  | error e => rw [hs] at h; exact h
  | ok res =>
    rw [hs] at h
    obtain ⟨l, r, c1⟩ := res
    cases hm : m.splitChildSlab child k c with
    | error e => rw [hm] at h; exact h
    | ok res2 => rw [hm] at h; obtain ⟨m', c'⟩ := res2; exact h

/-- `rebalanceChildren` on two DATA-slab siblings (`rebalOp T 0 l r true = DataSlab.borrowFromRight T l r`,
    `rebalOp T 0 l r false = DataSlab.lendToRight T l r`) -/
theorem Sl_rebalanceChildren_data_eq_model (T : Nat) (look) (m : MetaSlab (ATree 0)) (left right : DataSlab)
    (li ri : Nat) (flag : Bool) (c : Ctx) (hT : legalThreshold T = true)
    (hl : DataWork T left) (hr : DataWork T right)
    (hli : li < m.countSum.length) (hli' : li < m.childHdrs.length) (hri : ri < m.childHdrs.length)
    (hbase : left.hdr.count ≤ m.countSum.getD li 0) :
    TransSl.ArrayMetaDataSlab_rebalanceChildren (envA T look) (trMeta m) c (some (.dataSlab (trData left)))
        (some (.dataSlab (trData right))) (Int.ofNat li) (Int.ofNat ri) flag =
      some (none, trMeta (m.rebalanceChildren T left right li ri flag c).1, (m.rebalanceChildren T left right li ri flag c).2,
            some (.dataSlab (trData (rebalOp T 0 left right flag).1)),
            some (.dataSlab (trData (rebalOp T 0 left right flag).2))) :=
  Sl_rebalanceChildren_eq_model T look m left right li ri flag c (RebalAgrees_data_safe T look left right flag hT hl hr)
    hli hli' hri hbase

/-- `rebalanceChildren` on two INDEX-slab siblings; `hb` / `hl`: the conditions of the direction taken -/
theorem Sl_rebalanceChildren_meta_eq_model (T : Nat) (look) {d : Nat} (m : MetaSlab (ATree (d + 1)))
    (left right : MetaSlab (ATree d)) (li ri : Nat) (flag : Bool) (c : Ctx)
    (hb : flag = true → left.childHdrs.length ≤ (left.childHdrs.length + right.childHdrs.length) / 2 ∧
      right.childHdrs.length - ((left.childHdrs.length + right.childHdrs.length) / 2 - left.childHdrs.length) ≤
        right.countSum.length)
    (hl : flag = false → (left.childHdrs.length + right.childHdrs.length) / 2 ≤ left.childHdrs.length ∧
      (left.childHdrs.length + right.childHdrs.length) / 2 ≤ left.countSum.length)
    (hli : li < m.countSum.length) (hli' : li < m.childHdrs.length) (hri : ri < m.childHdrs.length)
    (hbase : left.hdr.count ≤ m.countSum.getD li 0) :
    TransSl.ArrayMetaDataSlab_rebalanceChildren (envA T look) (trMeta m) c (some (.metaSlab (trMeta left)))
        (some (.metaSlab (trMeta right))) (Int.ofNat li) (Int.ofNat ri) flag =
      some (none, trMeta (m.rebalanceChildren T left right li ri flag c).1, (m.rebalanceChildren T left right li ri flag c).2,
            some (.metaSlab (trMeta (rebalOp T (d + 1) left right flag).1)),
            some (.metaSlab (trMeta (rebalOp T (d + 1) left right flag).2))) :=
  Sl_rebalanceChildren_eq_model T look m left right li ri flag c (RebalAgrees_meta T look left right flag hb hl)
    hli hli' hri hbase

/-- `Sl_mergeChildren_eq_model` with the right slab's out-state named (the theorem of `TransSlabsTree.lean` only says
    that there is one) -/
theorem Sl_mergeChildren_eq_model_wit (T : Nat) (look) {d : Nat} (m : MetaSlab (ATree d)) (left right : ATree d)
    (li ri : Nat) (c : Ctx) (r' : GSlab)
    (hid : TransSl.ArraySlab_SlabID (envA T look) r' = (ATree.hdr d right).id)
    (hop : TransSl.ArraySlab_Merge (envA T look) (trTree d left) (some (trTree d right)) =
      some (none, trTree d (ATree.merge d left right), some r'))
    (hli : li < m.childHdrs.length) (hri : ri < m.childHdrs.length)
    (hli' : li < m.countSum.length) (hri' : ri < m.countSum.length)
    (hsz : arraySlabHeaderSize ≤ m.hdr.size) :
    TransSl.ArrayMetaDataSlab_mergeChildren (envA T look) (trMeta m) c (some (trTree d left)) (some (trTree d right))
        (Int.ofNat li) (Int.ofNat ri) =
      some (none, trMeta (m.mergeChildren left right li ri c).1, (m.mergeChildren left right li ri c).2,
            some (trTree d (ATree.merge d left right)), some r') := by
  have hupd := Sl_updateChildrenHeadersAfterMerge_spec T look m (ATree.hdr d (ATree.merge d left right)) li ri hli hri hli' hri'
  simp only [TransSl.ArrayMetaDataSlab_mergeChildren, hop, Option.isSome_none, Bool.false_eq_true, if_false, disp_Header,
    hupd, storeSlab_envA, slabID_trTree, hid, envA_remove, envA_wrap, MetaSlab.mergeChildren]
  have e14 : UInt32.ofNat arraySlabHeaderSize = u32 arraySlabHeaderSize := rfl
  rw [trMeta_header, trHdr_size, e14, u32_sub' hsz]
  simp [trMeta, trHdr, TransSl.ArraySlab_SlabID, TransSl.ArrayMetaDataSlab_SlabID]

/-- `mergeChildren` on two DATA-slab siblings: the index slab, the effects (store merged, store parent, remove right)
    and the merged child are the model's; the right child is returned with its elements cleared (`clearedData`) -/
theorem Sl_mergeChildren_data_eq_model (T : Nat) (look) (m : MetaSlab (ATree 0)) (left right : DataSlab)
    (li ri : Nat) (c : Ctx) (hl : DataWork T left)
    (hli : li < m.childHdrs.length) (hri : ri < m.childHdrs.length)
    (hli' : li < m.countSum.length) (hri' : ri < m.countSum.length)
    (hsz : arraySlabHeaderSize ≤ m.hdr.size) :
    TransSl.ArrayMetaDataSlab_mergeChildren (envA T look) (trMeta m) c (some (.dataSlab (trData left)))
        (some (.dataSlab (trData right))) (Int.ofNat li) (Int.ofNat ri) =
      some (none, trMeta (m.mergeChildren left right li ri c).1, (m.mergeChildren left right li ri c).2,
            some (.dataSlab (trData (DataSlab.merge left right))), some (clearedData right)) := by
  have h2 := hl.size_eq
  rw [dataWork_prefix hl] at h2
  exact Sl_mergeChildren_eq_model_wit T look m left right li ri c (clearedData right) rfl
    (disp_Merge_data T look left right (by omega)) hli hri hli' hri' hsz

/-- `mergeChildren` on two INDEX-slab siblings: `hne`: the left sibling has a count sum (Go reads the last one),
    `hpre`: the right sibling's size covers the 12-byte prefix that is subtracted -/
theorem Sl_mergeChildren_meta_eq_model (T : Nat) (look) {d : Nat} (m : MetaSlab (ATree (d + 1)))
    (left right : MetaSlab (ATree d)) (li ri : Nat) (c : Ctx)
    (hne : left.countSum ≠ []) (hpre : arrayMetaDataSlabPrefixSize ≤ right.hdr.size)
    (hli : li < m.childHdrs.length) (hri : ri < m.childHdrs.length)
    (hli' : li < m.countSum.length) (hri' : ri < m.countSum.length)
    (hsz : arraySlabHeaderSize ≤ m.hdr.size) :
    TransSl.ArrayMetaDataSlab_mergeChildren (envA T look) (trMeta m) c (some (.metaSlab (trMeta left)))
        (some (.metaSlab (trMeta right))) (Int.ofNat li) (Int.ofNat ri) =
      some (none, trMeta (m.mergeChildren left right li ri c).1, (m.mergeChildren left right li ri c).2,
            some (.metaSlab (trMeta (MetaSlab.merge left right))), some (clearedMeta right)) :=
  Sl_mergeChildren_eq_model_wit T look m left right li ri c (clearedMeta right) rfl
    (disp_Merge_meta T look left right hne hpre) hli hri hli' hri' hsz

/-! ## 5. `MergeOrRebalanceChildSlab`: the bundle `MorPre` discharged -/

/-- the bundle `MorPre` for a DATA-slab child and data-slab siblings `lsib`, `rsib` (those that exist), from
    * `DataWork T` of the child and of the siblings, `legalThreshold T`, `u + 14 ≤ 2^32` (`u` is an underflow size);
    * the index slab's bookkeeping: `hk` the child index is in range, `hlen` as many count sums as headers, `hsz` the
      size covers one header (it is subtracted on a merge), `posL / posR` a sibling exists only on a side that has one,
      `hbase / hbaseL`: the count sum up to the LEFT slab of the pair that is rebalanced covers that slab's count
      (`uint32` subtraction `childrenCountSum[i] - left.Header().count`); `DataWork` does not give these. -/
theorem MorPre.of_data (T : Nat) (look) (m : MetaSlab (ATree 0)) (child : DataSlab) (k u : Nat)
    (lsib rsib : Option DataSlab) (hT : legalThreshold T = true) (hu : u + Gen.arraySlabHeaderSize ≤ 2^32)
    (hwc : DataWork T child)
    (hwL : ∀ l, lsib = some l → DataWork T l) (hwR : ∀ r, rsib = some r → DataWork T r)
    (hk : k < m.childHdrs.length) (hlen : m.countSum.length = m.childHdrs.length)
    (hsz : arraySlabHeaderSize ≤ m.hdr.size)
    (posL : ∀ l, lsib = some l → 0 < k) (posR : ∀ r, rsib = some r → k + 1 < m.childHdrs.length)
    (hbase : ∀ r, rsib = some r → child.hdr.count ≤ m.countSum.getD k 0)
    (hbaseL : ∀ l, lsib = some l → l.hdr.count ≤ m.countSum.getD (k - 1) 0) :
    MorPre T look m child k u lsib rsib where
  hk := hk
  hlen := hlen
  hsz := hsz
  posL := posL
  posR := posR
  lendL := fun l h => Sl_disp_CanLendToRight' T look 0 l u (DecOK.of_dataWork hT (hwL l h)) hu
  lendR := fun r h => Sl_disp_CanLendToLeft' T look 0 r u (DecOK.of_dataWork hT (hwR r h)) hu
  szL := fun l h => Nat.lt_of_le_of_lt (dataWork_fits hT (hwL l h)).1 (by decide)
  szR := fun r h => Nat.lt_of_le_of_lt (dataWork_fits hT (hwR r h)).1 (by decide)
  rebR := fun r h => ⟨RebalAgrees_data_safe T look child r true hT hwc (hwR r h), hbase r h⟩
  rebL := fun l h => ⟨RebalAgrees_data_safe T look l child false hT (hwL l h) hwc, hbaseL l h⟩
  mrgR := fun r _ => MergeAgrees_data_safe T look child r hwc
  mrgL := fun l h => MergeAgrees_data_safe T look l child (hwL l h)

/-- `MergeOrRebalanceChildSlab` of a DATA-slab child (NO hypothesis on generated code): for the index slab `m`, the
    updated child `child` at position `k` and the underflow size `u`, with siblings that are `DataWork` slabs and that the
    storage returns (`hlookL`, `hlookR`): Go returns no error, the model's index slab and the model's effects in the
    model's order; with no sibling at all both sides panic.  `hbase`, `hbaseL`: see `MorPre.of_data`. -/
theorem Sl_MergeOrRebalanceChildSlab_data_eq_model (T : Nat) (look) (m : MetaSlab (ATree 0)) (child : DataSlab)
    (k u : Nat) (c : Ctx) (hT : legalThreshold T = true) (hu : u + Gen.arraySlabHeaderSize ≤ 2^32)
    (hwc : DataWork T child)
    (hwL : ∀ l : DataSlab, 0 < k → m.children[k - 1]? = some l → DataWork T l)
    (hwR : ∀ r : DataSlab, k + 1 < m.childHdrs.length → m.children[k + 1]? = some r → DataWork T r)
    (hk : k < m.childHdrs.length) (hlen : m.countSum.length = m.childHdrs.length)
    (hsz : arraySlabHeaderSize ≤ m.hdr.size)
    (hbase : k + 1 < m.childHdrs.length → child.hdr.count ≤ m.countSum.getD k 0)
    (hbaseL : ∀ l : DataSlab, 0 < k → m.children[k - 1]? = some l → l.hdr.count ≤ m.countSum.getD (k - 1) 0)
    (hlookL : k > 0 → ∃ h l, m.childHdrs[k - 1]? = some h ∧ m.children[k - 1]? = some l ∧
      look h.id = some (.dataSlab (trData l)))
    (hlookR : k + 1 < m.childHdrs.length →
      ∃ h r, m.childHdrs[k + 1]? = some h ∧ m.children[k + 1]? = some r ∧ look h.id = some (.dataSlab (trData r))) :
    match m.mergeOrRebalanceChildSlab T child k u c with
    | .ok (m', c') => ∃ child', TransSl.ArrayMetaDataSlab_MergeOrRebalanceChildSlab (envA T look) (trMeta m) c
        (some (.dataSlab (trData child))) (Int.ofNat k) (u32 u) = some (none, trMeta m', c', child')
    | .error _ => TransSl.ArrayMetaDataSlab_MergeOrRebalanceChildSlab (envA T look) (trMeta m) c
        (some (.dataSlab (trData child))) (Int.ofNat k) (u32 u) = none := by
  have hp : MorPre T look m child k u (if k > 0 then m.children[k - 1]? else none)
      (if k + 1 < m.childHdrs.length then m.children[k + 1]? else none) := by
    refine MorPre.of_data T look m child k u _ _ hT hu hwc ?_ ?_ hk hlen hsz ?_ ?_ ?_ ?_
    · intro l h; by_cases h0 : k > 0
      · rw [if_pos h0] at h; exact hwL l h0 h
      · rw [if_neg h0] at h; cases h
    · intro r h; by_cases h1 : k + 1 < m.childHdrs.length
      · rw [if_pos h1] at h; exact hwR r h1 h
      · rw [if_neg h1] at h; cases h
    · intro l h; by_cases h0 : k > 0
      · exact h0
      · rw [if_neg h0] at h; cases h
    · intro r h; by_cases h1 : k + 1 < m.childHdrs.length
      · exact h1
      · rw [if_neg h1] at h; cases h
    · intro r h; by_cases h1 : k + 1 < m.childHdrs.length
      · exact hbase h1
      · rw [if_neg h1] at h; cases h
    · intro l h; by_cases h0 : k > 0
      · rw [if_pos h0] at h; exact hbaseL l h0 h
      · rw [if_neg h0] at h; cases h
  have h := Sl_MergeOrRebalanceChildSlab_eq_model T look m child k u c hp hlookL hlookR
  simp only [trTree] at h
  cases hm : m.mergeOrRebalanceChildSlab T child k u c with
  | error e => rw [hm] at h; exact h
  | ok res => rw [hm] at h; obtain ⟨m', c'⟩ := res; exact h

/-- what `MergeOrRebalanceChildSlab` needs of an INDEX-slab sibling `sib` of the (underflowing) index slab `child`:
    its size fits `uint32` and covers the 12-byte prefix, it has as many count sums as headers, at least one, and it
    has at least as many children as `child` (so that the direction of the move is the one Go assumes: with fewer,
    `moveCount` is negative and Go panics).  In a valid tree the child is below the minimum size and the sibling is not,
    and the size of an index slab is `12 + 14 n`. -/
structure MetaSibOK {d : Nat} (child sib : MetaSlab (ATree d)) : Prop where
  size_lt : sib.hdr.size < 2^32
  pre : arrayMetaDataSlabPrefixSize ≤ sib.hdr.size
  len : sib.countSum.length = sib.childHdrs.length
  ne : sib.countSum ≠ []
  more : child.childHdrs.length ≤ sib.childHdrs.length

/-- the bundle `MorPre` for an INDEX-slab child -/
theorem MorPre.of_meta (T : Nat) (look) {d : Nat} (m : MetaSlab (ATree (d + 1))) (child : MetaSlab (ATree d))
    (k u : Nat) (lsib rsib : Option (MetaSlab (ATree d))) (hminT : minThr T < 2^32)
    (hu : u + Gen.arraySlabHeaderSize ≤ 2^32)
    (hlenC : child.countSum.length = child.childHdrs.length) (hneC : child.countSum ≠ [])
    (hpreC : arrayMetaDataSlabPrefixSize ≤ child.hdr.size)
    (hokL : ∀ l, lsib = some l → MetaSibOK child l) (hokR : ∀ r, rsib = some r → MetaSibOK child r)
    (hk : k < m.childHdrs.length) (hlen : m.countSum.length = m.childHdrs.length)
    (hsz : arraySlabHeaderSize ≤ m.hdr.size)
    (posL : ∀ l, lsib = some l → 0 < k) (posR : ∀ r, rsib = some r → k + 1 < m.childHdrs.length)
    (hbase : ∀ r, rsib = some r → child.hdr.count ≤ m.countSum.getD k 0)
    (hbaseL : ∀ l, lsib = some l → l.hdr.count ≤ m.countSum.getD (k - 1) 0) :
    MorPre T look m child k u lsib rsib where
  hk := hk
  hlen := hlen
  hsz := hsz
  posL := posL
  posR := posR
  lendL := fun l h => Sl_disp_CanLendToRight' T look (d + 1) l u ⟨(hokL l h).size_lt, hminT⟩ hu
  lendR := fun r h => Sl_disp_CanLendToLeft' T look (d + 1) r u ⟨(hokR r h).size_lt, hminT⟩ hu
  szL := fun l h => (hokL l h).size_lt
  szR := fun r h => (hokR r h).size_lt
  rebR := fun r h => ⟨RebalAgrees_meta_of_len T look child r true hlenC (hokR r h).len (hokR r h).more, hbase r h⟩
  rebL := fun l h => ⟨RebalAgrees_meta_of_len T look l child false (hokL l h).len hlenC (hokL l h).more, hbaseL l h⟩
  mrgR := fun r h => MergeAgrees_meta T look child r hneC (hokR r h).pre
  mrgL := fun l h => MergeAgrees_meta T look l child (hokL l h).ne hpreC

/-- `MergeOrRebalanceChildSlab` of an INDEX-slab child -/
theorem Sl_MergeOrRebalanceChildSlab_meta_eq_model (T : Nat) (look) {d : Nat} (m : MetaSlab (ATree (d + 1)))
    (child : MetaSlab (ATree d)) (k u : Nat) (c : Ctx) (hminT : minThr T < 2^32)
    (hu : u + Gen.arraySlabHeaderSize ≤ 2^32)
    (hlenC : child.countSum.length = child.childHdrs.length) (hneC : child.countSum ≠ [])
    (hpreC : arrayMetaDataSlabPrefixSize ≤ child.hdr.size)
    (hokL : ∀ l : MetaSlab (ATree d), 0 < k → m.children[k - 1]? = some l → MetaSibOK child l)
    (hokR : ∀ r : MetaSlab (ATree d), k + 1 < m.childHdrs.length → m.children[k + 1]? = some r → MetaSibOK child r)
    (hk : k < m.childHdrs.length) (hlen : m.countSum.length = m.childHdrs.length)
    (hsz : arraySlabHeaderSize ≤ m.hdr.size)
    (hbase : k + 1 < m.childHdrs.length → child.hdr.count ≤ m.countSum.getD k 0)
    (hbaseL : ∀ l : MetaSlab (ATree d), 0 < k → m.children[k - 1]? = some l → l.hdr.count ≤ m.countSum.getD (k - 1) 0)
    (hlookL : k > 0 → ∃ h l, m.childHdrs[k - 1]? = some h ∧ m.children[k - 1]? = some l ∧
      look h.id = some (.metaSlab (trMeta l)))
    (hlookR : k + 1 < m.childHdrs.length →
      ∃ h r, m.childHdrs[k + 1]? = some h ∧ m.children[k + 1]? = some r ∧ look h.id = some (.metaSlab (trMeta r))) :
    match m.mergeOrRebalanceChildSlab T child k u c with
    | .ok (m', c') => ∃ child', TransSl.ArrayMetaDataSlab_MergeOrRebalanceChildSlab (envA T look) (trMeta m) c
        (some (.metaSlab (trMeta child))) (Int.ofNat k) (u32 u) = some (none, trMeta m', c', child')
    | .error _ => TransSl.ArrayMetaDataSlab_MergeOrRebalanceChildSlab (envA T look) (trMeta m) c
        (some (.metaSlab (trMeta child))) (Int.ofNat k) (u32 u) = none := by
  have hp : MorPre T look m child k u (if k > 0 then m.children[k - 1]? else none)
      (if k + 1 < m.childHdrs.length then m.children[k + 1]? else none) := by
    refine MorPre.of_meta T look m child k u _ _ hminT hu hlenC hneC hpreC ?_ ?_ hk hlen hsz ?_ ?_ ?_ ?_
    · intro l h; by_cases h0 : k > 0
      · rw [if_pos h0] at h; exact hokL l h0 h
      · rw [if_neg h0] at h; cases h
    · intro r h; by_cases h1 : k + 1 < m.childHdrs.length
      · rw [if_pos h1] at h; exact hokR r h1 h
      · rw [if_neg h1] at h; cases h
    · intro l h; by_cases h0 : k > 0
      · exact h0
      · rw [if_neg h0] at h; cases h
    · intro r h; by_cases h1 : k + 1 < m.childHdrs.length
      · exact h1
      · rw [if_neg h1] at h; cases h
    · intro r h; by_cases h1 : k + 1 < m.childHdrs.length
      · exact hbase h1
      · rw [if_neg h1] at h; cases h
    · intro l h; by_cases h0 : k > 0
      · rw [if_pos h0] at h; exact hbaseL l h0 h
      · rw [if_neg h0] at h; cases h
  have h := Sl_MergeOrRebalanceChildSlab_eq_model T look m child k u c hp hlookL hlookR
  simp only [trTree] at h
  cases hm : m.mergeOrRebalanceChildSlab T child k u c with
  | error e => rw [hm] at h; exact h
  | ok res => rw [hm] at h; obtain ⟨m', c'⟩ := res; exact h

/-! ## 6. non-vacuity: concrete index slabs over data slabs (T = 256: min 128, max 384) -/

section examples

/-- an index slab `(1,1)` over two leaves: `(1,2)` with 100 + 150 + 200 bytes of elements (471 bytes: too big) and
    `(1,3)` with 60 + 60 -/
def exIdx : MetaSlab (ATree 0) :=
  { hdr := ⟨⟨1, 1⟩, 40, 5⟩,
    childHdrs := [⟨⟨1, 2⟩, 471, 3⟩, ⟨⟨1, 3⟩, 141, 2⟩], countSum := [3, 5],
    children := [exData 2 3 [100, 150, 200], exData 3 0 [60, 60]], root := false }

theorem exBig_work : DataWork 256 (exData 2 3 [100, 150, 200]) :=
  ⟨rfl, rfl, by intro e he; simp [exData] at he; rcases he with rfl | rfl | rfl <;> decide, ⟨rfl, rfl⟩,
   by show 471 ≤ 2 * maxThr 256; decide⟩

theorem exTwo_work (id next : Nat) : DataWork 256 (exData id next [60, 60]) :=
  ⟨rfl, rfl, by intro e he; simp [exData] at he; rcases he with rfl | rfl <;> decide, ⟨rfl, rfl⟩,
   by show 141 ≤ 2 * maxThr 256; decide⟩

theorem exOne_work (id next : Nat) : DataWork 256 (exData id next [60]) :=
  ⟨rfl, rfl, by intro e he; simp [exData] at he; rcases he with rfl; decide, ⟨rfl, rfl⟩,
   by show 81 ≤ 2 * maxThr 256; decide⟩

/-- `SplitChildSlab` of child 0: `Sl_SplitChildSlab_data_eq_model` applies, and its right-hand side evaluates to: no
    error; the index slab has three headers (271 / 2, 221 / 1 under the NEW id `(1,6)`, 141 / 2), count sums 2 3 5 and
    14 bytes more; effects `alloc (1,6)`, `store (1,2)`, `store (1,6)`, `store (1,1)`; the child is the left half. -/
example :
    TransSl.ArrayMetaDataSlab_SplitChildSlab (envA 256 exLook) (trMeta exIdx) ⟨5, [], []⟩
      (some (.dataSlab (trData (exData 2 3 [100, 150, 200])))) (Int.ofNat 0) =
    some (none,
      { header := { slabID := ⟨1, 1⟩, size := 54, count := 5 },
        childrenHeaders := [{ slabID := ⟨1, 2⟩, size := 271, count := 2 }, { slabID := ⟨1, 6⟩, size := 221, count := 1 },
                            { slabID := ⟨1, 3⟩, size := 141, count := 2 }],
        childrenCountSum := [2, 3, 5], extraData := none },
      ⟨6, [.alloc 1 ⟨1, 6⟩, .store ⟨1, 2⟩, .store ⟨1, 6⟩, .store ⟨1, 1⟩], []⟩,
      some (.dataSlab { next := ⟨1, 6⟩, header := { slabID := ⟨1, 2⟩, size := 271, count := 2 },
                        elements := [some ⟨100, .val 0⟩, some ⟨150, .val 1⟩], extraData := none, inlined := false })) :=
  (Sl_SplitChildSlab_data_eq_model 256 exLook exIdx (exData 2 3 [100, 150, 200]) 0 ⟨5, [], []⟩ (by decide) exBig_work
    (by decide) (by decide) (by decide)).trans (by rfl)

/-- `mergeChildren` of the two leaves (as if the left one were small): one header 591 / 5 left, count sum 5, 14 bytes
    less; effects `store (1,2)`, `store (1,1)`, `remove (1,3)`; the right leaf comes back with two NIL elements -/
example :
    TransSl.ArrayMetaDataSlab_mergeChildren (envA 256 exLook) (trMeta exIdx) ⟨5, [], []⟩
      (some (.dataSlab (trData (exData 2 3 [100, 150, 200])))) (some (.dataSlab (trData (exData 3 0 [60, 60]))))
      (Int.ofNat 0) (Int.ofNat 1) =
    some (none,
      { header := { slabID := ⟨1, 1⟩, size := 26, count := 5 },
        childrenHeaders := [{ slabID := ⟨1, 2⟩, size := 591, count := 5 }],
        childrenCountSum := [5], extraData := none },
      ⟨5, [.store ⟨1, 2⟩, .store ⟨1, 1⟩, .remove ⟨1, 3⟩], []⟩,
      some (.dataSlab { next := ⟨1, 0⟩, header := { slabID := ⟨1, 2⟩, size := 591, count := 5 },
                        elements := [some ⟨100, .val 0⟩, some ⟨150, .val 1⟩, some ⟨200, .val 2⟩, some ⟨60, .val 0⟩,
                                     some ⟨60, .val 1⟩], extraData := none, inlined := false }),
      some (.dataSlab { next := ⟨1, 0⟩, header := { slabID := ⟨1, 3⟩, size := 141, count := 2 },
                        elements := [none, none], extraData := none, inlined := false })) :=
  (Sl_mergeChildren_data_eq_model 256 exLook exIdx (exData 2 3 [100, 150, 200]) (exData 3 0 [60, 60]) 0 1 ⟨5, [], []⟩
    exBig_work (by decide) (by decide) (by decide) (by decide) (by decide)).trans (by rfl)

/-- three leaves: `(1,2)` with 4 x 60 bytes (261), `(1,3)` with 60 (81 bytes: 47 short of the minimum 128), `(1,4)` with
    2 x 60 (141) -/
def exIdx3 : MetaSlab (ATree 0) :=
  { hdr := ⟨⟨1, 1⟩, 54, 7⟩,
    childHdrs := [⟨⟨1, 2⟩, 261, 4⟩, ⟨⟨1, 3⟩, 81, 1⟩, ⟨⟨1, 4⟩, 141, 2⟩], countSum := [4, 5, 7],
    children := [exData 2 3 [60, 60, 60, 60], exData 3 4 [60], exData 4 0 [60, 60]], root := false }

/-- the storage holds the two siblings -/
def exLook3 : SlabID → Option GSlab := fun id =>
  if id = ⟨1, 2⟩ then some (.dataSlab (trData (exData 2 3 [60, 60, 60, 60])))
  else if id = ⟨1, 4⟩ then some (.dataSlab (trData (exData 4 0 [60, 60]))) else none

/-- `MergeOrRebalanceChildSlab` of the middle leaf: `Sl_MergeOrRebalanceChildSlab_data_eq_model` applies; only the left
    sibling can lend, so it lends: one element moves (201 / 3 and 141 / 2), count sums 3 5 7; three `store`s -/
example : ∃ child',
    TransSl.ArrayMetaDataSlab_MergeOrRebalanceChildSlab (envA 256 exLook3) (trMeta exIdx3) ⟨5, [], []⟩
      (some (.dataSlab (trData (exData 3 4 [60])))) (Int.ofNat 1) (u32 47) =
    some (none,
      trMeta ({ exIdx3 with
        childHdrs := [⟨⟨1, 2⟩, 201, 3⟩, ⟨⟨1, 3⟩, 141, 2⟩, ⟨⟨1, 4⟩, 141, 2⟩], countSum := [3, 5, 7],
        children := [{ exData 2 3 [60, 60, 60] with hdr := ⟨⟨1, 2⟩, 201, 3⟩ },
                     { exData 3 4 [] with hdr := ⟨⟨1, 3⟩, 141, 2⟩, elems := [⟨60, .val 3⟩, ⟨60, .val 0⟩] },
                     exData 4 0 [60, 60]] } : MetaSlab (ATree 0)),
      ⟨5, [.store ⟨1, 2⟩, .store ⟨1, 3⟩, .store ⟨1, 1⟩], []⟩, child') :=
  Sl_MergeOrRebalanceChildSlab_data_eq_model 256 exLook3 exIdx3 (exData 3 4 [60]) 1 47 ⟨5, [], []⟩ (by decide) (by decide)
    (exOne_work 3 4)
    (fun l _ h => by cases h; exact exData_work 2 3)
    (fun r _ h => by cases h; exact exTwo_work 4 0)
    (by decide) rfl (by decide) (fun _ => by decide)
    (fun l _ h => by cases h; decide)
    (fun _ => ⟨_, _, rfl, rfl, rfl⟩) (fun _ => ⟨_, _, rfl, rfl, rfl⟩)

/-- an index-slab child: `(1,2)` with four children (10, 20, 30, 40 elements) under the root `(1,1)` -/
def exMid : MetaSlab (ATree 0) :=
  { hdr := ⟨⟨1, 2⟩, 68, 100⟩,
    childHdrs := [⟨⟨1, 3⟩, 100, 10⟩, ⟨⟨1, 4⟩, 100, 20⟩, ⟨⟨1, 5⟩, 100, 30⟩, ⟨⟨1, 6⟩, 100, 40⟩],
    countSum := [10, 30, 60, 100], children := [], root := false }
def exTop : MetaSlab (ATree 1) :=
  { hdr := ⟨⟨1, 1⟩, 26, 100⟩, childHdrs := [⟨⟨1, 2⟩, 68, 100⟩], countSum := [100], children := [exMid], root := true }

/-- `SplitChildSlab` of the index-slab child (`Sl_SplitChildSlab_meta_eq_model` applies): two headers stay, two go to the
    new slab `(1,8)`; the root has two headers (40 / 30 and 40 / 70), count sums 30 100, 14 bytes more -/
example :
    TransSl.ArrayMetaDataSlab_SplitChildSlab (envA 256 exLook) (trMeta exTop) ⟨7, [], []⟩
      (some (.metaSlab (trMeta exMid))) (Int.ofNat 0) =
    some (none,
      { header := { slabID := ⟨1, 1⟩, size := 40, count := 100 },
        childrenHeaders := [{ slabID := ⟨1, 2⟩, size := 40, count := 30 }, { slabID := ⟨1, 8⟩, size := 40, count := 70 }],
        childrenCountSum := [30, 100], extraData := some () },
      ⟨8, [.alloc 1 ⟨1, 8⟩, .store ⟨1, 2⟩, .store ⟨1, 8⟩, .store ⟨1, 1⟩], []⟩,
      some (.metaSlab { header := { slabID := ⟨1, 2⟩, size := 40, count := 30 },
                        childrenHeaders := [{ slabID := ⟨1, 3⟩, size := 100, count := 10 },
                                            { slabID := ⟨1, 4⟩, size := 100, count := 20 }],
                        childrenCountSum := [10, 30], extraData := none })) :=
  (Sl_SplitChildSlab_meta_eq_model 256 exLook exTop exMid 0 ⟨7, [], []⟩ (by decide) (by decide) (by decide)
    (by decide) (by decide) (by decide)).trans (by rfl)

end examples

end Atree.TransEq
