import AtreeProofs.World.TotalScenario
/-
  C10 / C01 / C02 — TOTAL CORRECTNESS of the operations on nested containers (audit item S3).
  PROPERTY THEOREMS.

  The operation theorems of `Props/C10W.lean`, `Props/C10WPopOps.lean`, `Props/C10WPop.lean` all have
  the hypothesis `w.op … = .ok …`: they say what a SUCCESSFUL operation did.  The theorems here say
  that an operation through a current handle, with well-formed arguments, SUCCEEDS — the parent
  notification (`notifyParent`, the model of `notifyParentIfNeeded` / `setCallbackWithChild`)
  terminates within the fuel the operations pass and answers none of its internal errors — and
  that it answers an ARGUMENT error exactly when the underlying array / map model rejects the
  argument (index out of range, array full, collision limit, key not found).

  Invariant: `WorldOk'` (AtreeProofs/WorldOkPop.lean), the invariant of all operations.
  Hypotheses shared by the operation theorems:
  * `HandleOk w p` — the operation goes through a current handle;
  * `WValOk w p lim v` — the value stored is well-formed (`Props/C10W.lean`); `KeyOk` for map keys;
  * `KeyedClosures w` — a closure that names a live MAP carries a key.  This is NOT a clause of
    `WorldOk` / `WorldOk'` (which only say: IF the closure of a map parent has a key, the key is
    usable).  It is an invariant of every operation, from the empty world on (§6), and it is
    NEEDED: `fatal_without_keyedClosures` is a world that satisfies `WorldOk` on which an in-range
    `arrInsert` through the current handle of a root answers `.fatal` (the world is unreachable —
    in the Go code the closure of an array parent and of a map parent are different functions; the
    model's `HInfo` is their untyped union).

  TERMINATION (`notify_total`, `fuelOf_suffices`) RESTS ON `CRank` — the acyclicity of the relation
  "is an element of" — and not on the closure pointers (which may form cycles in a valid world,
  `C10W.closure_pointers_may_cycle`): each recursive call of the notification moves from a
  container to a container that HOLDS it, of smaller rank; the live containers ranked below the
  starting point are a duplicate-free set, of at most `w.conts.length` members.
-/
namespace Atree.C10Total
open Atree Gen World

/-! ### 1. The notification chain terminates and never fails -/

/-- THE NOTIFICATION NEVER FAILS.  `WorldOkGen D rank (some y) O w ctr`: the global invariant except
    that the parent slot of `y` may be out of date (`y` has just been mutated) and the bookkeeping
    of the containers of `O` is pending; `FuelOk rank w y fuel`: every duplicate-free list of live
    containers ranked below `y` is shorter than `fuel`. -/
theorem notify_total (D : SlabID → DigestFn 4) (rank : SlabID → Nat) (O : SlabID → Prop) (fuel : Nat)
    (w : World) (y : SlabID) (cx : Ctx)
    (H : WorldOkGen D rank (some y) O w cx.ctr) (hh : HandleOk w y)
    (hO : ∀ z, O z → (w.cont? z).isSome → rank y < rank z) (hlive : (w.cont? y).isSome)
    (hK : KeyedClosures w) (hF : FuelOk rank w y fuel) :
    ∃ w' cx', notifyParent fuel w y cx = .ok (w', cx') :=
  World.notify_total D rank O fuel w y cx H hh hO hlive hK hF

/-- the fuel the public operations pass (`fuelOf w = w.conts.length + 2`) suffices, for every
    container of every world (and every rank function) -/
theorem fuelOf_suffices (rank : SlabID → Nat) (w : World) (y : SlabID) : FuelOk rank w y w.fuelOf :=
  fuelOk_fuelOf rank w y

/-- the fuel bound is about the nesting depth: one step up the containment chain (to a live
    container of smaller rank — `CRank`) consumes one unit -/
theorem fuel_step (rank : SlabID → Nat) (w w2 : World) (y p : SlabID) (fuel : Nat)
    (hF : FuelOk rank w y (fuel + 1)) (hlive : ∀ z, (w2.cont? z).isSome → (w.cont? z).isSome)
    (hp : (w.cont? p).isSome) (hrk : rank p < rank y) : FuelOk rank w2 p fuel :=
  hF.step hlive hp hrk

/-! ### 2. Success under `WorldOk` (no disposed parents) -/

theorem arrInsert_total_worldOk (D : SlabID → DigestFn 4) (w : World) (p : SlabID) (i : Nat) (v : WVal) (cx : Ctx)
    (a : Arr) (H : WorldOk D w cx.ctr) (hK : KeyedClosures w) (hh : HandleOk w p)
    (hv : WValOk w p (maxInlineArr w.T) v) (hpa : w.cont? p = some (.arr a))
    (hi : i ≤ a.toList.length) (hcount : a.count < maxArrayElementCount) :
    ∃ w' cx', w.arrInsert p i v cx = .ok (w', cx') :=
  arrInsert_succeeds H hK hh hv hpa hi hcount

theorem mapSet_total_worldOk (D : SlabID → DigestFn 4) (w : World) (p : SlabID) (k : MKey) (v : WVal) (cx : Ctx)
    (m : OMap 3) (H : WorldOk D w cx.ctr) (hK : KeyedClosures w) (hh : HandleOk w p)
    (hk : KeyOk w.T 4 (D p) k) (hv : WValOk w p (maxInlineMapValue w.T k.size) v)
    (hpm : w.cont? p = some (.map m)) (hnl : ¬ TLimited w.mcfg m.d m.root k) :
    ∃ old w' cx', w.mapSet p k v cx = .ok (old, w', cx') :=
  mapSet_succeeds H hK hh hk hv hpm hnl

/-! ### 3. Success under `WorldOk'`: IN-RANGE REQUESTS NEVER FAIL -/

theorem keyed_prune {w : World} (h : KeyedClosures w) : KeyedClosures w.prune :=
  fun x hi pm hx hp => h x hi pm (find?_prune_some.mp hx).1 hp

/-- `Array.Insert(i, v)` through a current handle: index in range, array not full ⇒ success -/
theorem arrInsert_total (D : SlabID → DigestFn 4) (w : World) (p : SlabID) (i : Nat) (v : WVal) (cx : Ctx)
    (a : Arr) (H : WorldOk' D w cx.ctr) (hK : KeyedClosures w) (hh : HandleOk w p)
    (hv : WValOk w p (maxInlineArr w.T) v) (hpa : w.cont? p = some (.arr a))
    (hi : i ≤ a.toList.length) (hcount : a.count < maxArrayElementCount) :
    ∃ w' cx', w.arrInsert p i v cx = .ok (w', cx') := by
  obtain ⟨H0, S⟩ := H.down
  obtain ⟨w0', cx', h0⟩ := arrInsert_succeeds H0 (keyed_prune hK) (S.handleOk_down hh) (S.wValOk hv)
    (by rw [S.cont?]; exact hpa) hi hcount
  obtain ⟨w', h, _⟩ := rsim_arrInsert S h0
  exact ⟨w', cx', h⟩

/-- `Array.Set(i, v)`: index in range ⇒ success -/
theorem arrSet_total (D : SlabID → DigestFn 4) (w : World) (p : SlabID) (i : Nat) (v : WVal) (cx : Ctx)
    (a : Arr) (H : WorldOk' D w cx.ctr) (hK : KeyedClosures w) (hh : HandleOk w p)
    (hv : WValOk w p (maxInlineArr w.T) v) (hpa : w.cont? p = some (.arr a)) (hi : i < a.toList.length) :
    ∃ old w' cx', w.arrSet p i v cx = .ok (old, w', cx') := by
  obtain ⟨H0, S⟩ := H.down
  obtain ⟨old, w0', cx', h0⟩ := arrSet_succeeds H0 (keyed_prune hK) (S.handleOk_down hh) (S.wValOk hv)
    (by rw [S.cont?]; exact hpa) hi
  obtain ⟨w', h, _⟩ := rsim_arrSet S h0
  exact ⟨old, w', cx', h⟩

/-- `Array.Remove(i)`: index in range ⇒ success -/
theorem arrRemove_total (D : SlabID → DigestFn 4) (w : World) (p : SlabID) (i : Nat) (cx : Ctx)
    (a : Arr) (H : WorldOk' D w cx.ctr) (hK : KeyedClosures w) (hh : HandleOk w p)
    (hpa : w.cont? p = some (.arr a)) (hi : i < a.toList.length) :
    ∃ old w' cx', w.arrRemove p i cx = .ok (old, w', cx') := by
  obtain ⟨H0, S⟩ := H.down
  obtain ⟨old, w0', cx', h0⟩ := arrRemove_succeeds H0 (keyed_prune hK) (S.handleOk_down hh)
    (by rw [S.cont?]; exact hpa) hi
  obtain ⟨w', h, _⟩ := rsim_arrRemove S h0
  exact ⟨old, w', cx', h⟩

/-- `OrderedMap.Set(k, v)`: success unless the collision limit refuses the (new) key -/
theorem mapSet_total (D : SlabID → DigestFn 4) (w : World) (p : SlabID) (k : MKey) (v : WVal) (cx : Ctx)
    (m : OMap 3) (H : WorldOk' D w cx.ctr) (hK : KeyedClosures w) (hh : HandleOk w p)
    (hk : KeyOk w.T 4 (D p) k) (hv : WValOk w p (maxInlineMapValue w.T k.size) v)
    (hpm : w.cont? p = some (.map m)) (hnl : ¬ TLimited w.mcfg m.d m.root k) :
    ∃ old w' cx', w.mapSet p k v cx = .ok (old, w', cx') := by
  obtain ⟨H0, S⟩ := H.down
  obtain ⟨old, w0', cx', h0⟩ := mapSet_succeeds H0 (keyed_prune hK) (S.handleOk_down hh) hk (S.wValOk hv)
    (by rw [S.cont?]; exact hpm) hnl
  obtain ⟨w', h, _⟩ := rsim_mapSet S h0
  exact ⟨old, w', cx', h⟩

/-- a key that is present is never refused by the collision limit: overwriting always succeeds -/
theorem present_key_not_limited (D : SlabID → DigestFn 4) (w : World) (p : SlabID) (k : MKey) (el : Elem)
    (m : OMap 3) (ctr : Nat) (H : WorldOk' D w ctr) (hpm : w.cont? p = some (.map m))
    (hmem : (k, el) ∈ m.toList) : ¬ TLimited w.mcfg m.d m.root k := by
  obtain ⟨rank, H0⟩ := H
  have hmok : MapOk w.T (D p) m ctr := H0.conts p _ hpm
  exact hmok.not_limited_of_mem H0.legal hmem

/-- `OrderedMap.Remove(k)`: key present ⇒ success, and the key handed back is `k` -/
theorem mapRemove_total (D : SlabID → DigestFn 4) (w : World) (p : SlabID) (k : MKey) (cx : Ctx)
    (m : OMap 3) (rv : Elem) (H : WorldOk' D w cx.ctr) (hK : KeyedClosures w) (hh : HandleOk w p)
    (hk : KeyOk w.T 4 (D p) k) (hpm : w.cont? p = some (.map m)) (hmem : (k, rv) ∈ m.toList) :
    ∃ rv' w' cx', w.mapRemove p k cx = .ok (k, rv', w', cx') := by
  obtain ⟨H0, S⟩ := H.down
  obtain ⟨rv', w0', cx', h0⟩ := mapRemove_succeeds H0 (keyed_prune hK) (S.handleOk_down hh) hk
    (by rw [S.cont?]; exact hpm) hmem
  obtain ⟨w', h, _⟩ := rsim_mapRemove S h0
  exact ⟨rv', w', cx', h⟩

/-- `SetType` through a current handle of a live container always succeeds -/
theorem setType_total (D : SlabID → DigestFn 4) (w : World) (p : SlabID) (ty : Nat) (cx : Ctx)
    (H : WorldOk' D w cx.ctr) (hK : KeyedClosures w) (hh : HandleOk w p) (hlive : (w.cont? p).isSome) :
    ∃ w' cx', w.setType p ty cx = .ok (w', cx') := by
  obtain ⟨H0, S⟩ := H.down
  obtain ⟨w0', cx', h0⟩ := setType_succeeds (ty := ty) H0 (keyed_prune hK) (S.handleOk_down hh)
    (by rw [S.cont?]; exact hlive)
  obtain ⟨w', h, _⟩ := rsim_setType S h0
  exact ⟨w', cx', h⟩

/-- `Array.PopIterate` through a current handle, the caller keeping the children `keep`: always
    succeeds, and hands out the elements last to first -/
theorem arrPopKeep_total (D : SlabID → DigestFn 4) (w : World) (h : SlabID) (keep : List SlabID) (cx : Ctx)
    (a : Arr) (H : WorldOk' D w cx.ctr) (hK : KeyedClosures w) (hh : HandleOk w h)
    (hc : w.cont? h = some (.arr a)) :
    ∃ w' cx', w.arrPopKeep h keep cx = .ok (a.toList.reverse, w', cx') :=
  arrPopKeep_succeeds H hK hh hc

/-- `OrderedMap.PopIterate` through a current handle, the caller keeping the children `keep` -/
theorem mapPopKeep_total (D : SlabID → DigestFn 4) (w : World) (h : SlabID) (keep : List SlabID) (cx : Ctx)
    (m : OMap 3) (H : WorldOk' D w cx.ctr) (hK : KeyedClosures w) (hh : HandleOk w h)
    (hc : w.cont? h = some (.map m)) :
    ∃ w' cx', w.mapPopKeep h keep cx = .ok (m.toList.reverse, w', cx') :=
  mapPopKeep_succeeds H hK hh hc

theorem disposed_nil (es : List Elem) : disposed [] es = es := by
  unfold disposed
  apply List.filter_eq_self.mpr
  intro e _
  cases e.pay <;> simp

theorem arrPopKeep_nil (w : World) (h : SlabID) (cx : Ctx) : w.arrPopKeep h [] cx = w.arrPop h cx := by
  unfold arrPopKeep arrPop
  simp only [disposed_nil]

theorem mapPopKeep_nil (w : World) (h : SlabID) (cx : Ctx) : w.mapPopKeep h [] cx = w.mapPop h cx := by
  unfold mapPopKeep mapPop
  simp only [disposed_nil]

/-- `Array.PopIterate` through a current handle always succeeds -/
theorem arrPop_total (D : SlabID → DigestFn 4) (w : World) (h : SlabID) (cx : Ctx)
    (a : Arr) (H : WorldOk' D w cx.ctr) (hK : KeyedClosures w) (hh : HandleOk w h)
    (hc : w.cont? h = some (.arr a)) :
    ∃ w' cx', w.arrPop h cx = .ok (a.toList.reverse, w', cx') := by
  rw [← arrPopKeep_nil]
  exact arrPopKeep_succeeds H hK hh hc

/-- `OrderedMap.PopIterate` through a current handle always succeeds -/
theorem mapPop_total (D : SlabID → DigestFn 4) (w : World) (h : SlabID) (cx : Ctx)
    (m : OMap 3) (H : WorldOk' D w cx.ctr) (hK : KeyedClosures w) (hh : HandleOk w h)
    (hc : w.cont? h = some (.map m)) :
    ∃ w' cx', w.mapPop h cx = .ok (m.toList.reverse, w', cx') := by
  rw [← mapPopKeep_nil]
  exact mapPopKeep_succeeds H hK hh hc

/-- `Array.Get(i)`: in range ⇒ the element; out of range ⇒ `IndexOutOfBoundsError` -/
theorem arrGet_total (D : SlabID → DigestFn 4) (w : World) (p : SlabID) (i : Nat) (a : Arr) (ctr : Nat)
    (H : WorldOk' D w ctr) (hpa : w.cont? p = some (.arr a)) :
    (∀ el, a.toList[i]? = some el → ∃ w', w.arrGet p i = .ok (el, w')) ∧
    (a.toList.length ≤ i → w.arrGet p i = .error (.arr .indexOutOfBounds)) := by
  obtain ⟨rank, H0⟩ := H
  have hok : ArrOk w.T a ctr := H0.conts p _ hpa
  exact ⟨fun el hel => arrGet_succeeds H0.legal hok hpa hel, fun hi => arrGet_oob H0.legal hok hpa hi⟩

/-- `OrderedMap.Get(k)`: key present ⇒ its value; absent ⇒ `KeyNotFoundError` -/
theorem mapGet_total (D : SlabID → DigestFn 4) (w : World) (p : SlabID) (k : MKey) (m : OMap 3) (ctr : Nat)
    (H : WorldOk' D w ctr) (hk : KeyOk w.T 4 (D p) k) (hpm : w.cont? p = some (.map m)) :
    (∀ el, (k, el) ∈ m.toList → ∃ w', w.mapGet p k = .ok (el, w')) ∧
    ((∀ q ∈ m.toList, q.1 ≠ k) → w.mapGet p k = .error (.map .keyNotFound)) := by
  obtain ⟨rank, H0⟩ := H
  have hok : MapOk w.T (D p) m ctr := H0.conts p _ hpm
  have hcfg := H0.cfgOk hpm
  exact ⟨fun el hel => mapGet_succeeds H0.legal hok hcfg hk hpm hel,
    fun habs => mapGet_absent H0.legal hok hcfg hk hpm habs⟩

/-! ### 4. The rejections: which error for which rejected argument -/

/-- `Array.Insert` beyond the end: `IndexOutOfBoundsError` -/
theorem arrInsert_rejects_index (D : SlabID → DigestFn 4) (w : World) (p : SlabID) (i : Nat) (v : WVal) (cx : Ctx)
    (a : Arr) (H : WorldOk' D w cx.ctr) (hpa : w.cont? p = some (.arr a)) (hi : a.toList.length < i) :
    w.arrInsert p i v cx = .error (.arr .indexOutOfBounds) := by
  obtain ⟨rank, H0⟩ := H
  exact arrInsert_oob v cx (H0.conts p _ hpa) hpa hi

/-- `Array.Insert` into a full array (index in range): what `Arr.insert` answers,
    `ArrayElementCannotExceedMaxElementCountError` -/
theorem arrInsert_rejects_full (D : SlabID → DigestFn 4) (w : World) (p : SlabID) (i : Nat) (v : WVal) (cx : Ctx)
    (a : Arr) (H : WorldOk' D w cx.ctr) (hv : WValOk w p (maxInlineArr w.T) v)
    (hpa : w.cont? p = some (.arr a)) (hi : i ≤ a.toList.length) (hfull : a.count = maxArrayElementCount) :
    w.arrInsert p i v cx = .error (.arr .maxElementCount) := by
  obtain ⟨rank, H0⟩ := H
  exact arrInsert_full (H0.conts p _ hpa) hpa hv hi hfull

/-- `Array.Set` / `Array.Remove` at or beyond the end: `IndexOutOfBoundsError` -/
theorem arrSet_rejects_index (D : SlabID → DigestFn 4) (w : World) (p : SlabID) (i : Nat) (v : WVal) (cx : Ctx)
    (a : Arr) (H : WorldOk' D w cx.ctr) (hpa : w.cont? p = some (.arr a)) (hi : a.toList.length ≤ i) :
    w.arrSet p i v cx = .error (.arr .indexOutOfBounds) := by
  obtain ⟨rank, H0⟩ := H
  exact arrSet_oob v cx (H0.conts p _ hpa) hpa hi

theorem arrRemove_rejects_index (D : SlabID → DigestFn 4) (w : World) (p : SlabID) (i : Nat) (cx : Ctx)
    (a : Arr) (H : WorldOk' D w cx.ctr) (hpa : w.cont? p = some (.arr a)) (hi : a.toList.length ≤ i) :
    w.arrRemove p i cx = .error (.arr .indexOutOfBounds) := by
  obtain ⟨rank, H0⟩ := H
  exact arrRemove_oob cx (H0.conts p _ hpa) hpa hi

/-- `OrderedMap.Set` of a key the collision limit refuses: `CollisionLimitError` -/
theorem mapSet_rejects_limited (D : SlabID → DigestFn 4) (w : World) (p : SlabID) (k : MKey) (v : WVal) (cx : Ctx)
    (m : OMap 3) (H : WorldOk' D w cx.ctr) (hk : KeyOk w.T 4 (D p) k)
    (hv : WValOk w p (maxInlineMapValue w.T k.size) v) (hpm : w.cont? p = some (.map m))
    (hl : TLimited w.mcfg m.d m.root k) :
    w.mapSet p k v cx = .error (.map .collisionLimit) :=
  mapSet_limited H hk hv hpm hl

/-- `OrderedMap.Remove` of an absent key: `KeyNotFoundError` -/
theorem mapRemove_rejects_absent (D : SlabID → DigestFn 4) (w : World) (p : SlabID) (k : MKey) (cx : Ctx)
    (m : OMap 3) (H : WorldOk' D w cx.ctr) (hk : KeyOk w.T 4 (D p) k) (hpm : w.cont? p = some (.map m))
    (habs : ∀ q ∈ m.toList, q.1 ≠ k) :
    w.mapRemove p k cx = .error (.map .keyNotFound) := by
  obtain ⟨rank, H0⟩ := H
  exact mapRemove_absent cx H0.legal (H0.conts p _ hpm) (H0.cfgOk hpm) hk hpm habs

/-- a handle that names no container of the right kind: `unknownContainer` (six mutators) -/
theorem unknown_container (w : World) (p : SlabID) :
    ((∀ a, w.cont? p ≠ some (.arr a)) →
      (∀ i v cx, w.arrInsert p i v cx = .error .unknownContainer) ∧
      (∀ i v cx, w.arrSet p i v cx = .error .unknownContainer) ∧
      (∀ i cx, w.arrRemove p i cx = .error .unknownContainer)) ∧
    ((∀ m, w.cont? p ≠ some (.map m)) →
      (∀ k v cx, w.mapSet p k v cx = .error .unknownContainer) ∧
      (∀ k cx, w.mapRemove p k cx = .error .unknownContainer)) ∧
    (w.cont? p = none → ∀ ty cx, w.setType p ty cx = .error .unknownContainer) :=
  ⟨fun h => ⟨fun i v cx => arrInsert_unknown i v cx h, fun i v cx => arrSet_unknown i v cx h,
      fun i cx => arrRemove_unknown i cx h⟩,
    fun h => ⟨fun k v cx => mapSet_unknown k v cx h, fun k cx => mapRemove_unknown k cx h⟩,
    fun h ty cx => setType_unknown ty cx h⟩

/-! ### 5. No internal failure: an error is an argument error, for the reason the array / map model
gives -/

theorem arrOk_count_le {T : Nat} {a : Arr} {ctr : Nat} (h : ArrOk T a ctr) : a.count ≤ maxArrayElementCount := by
  cases hi : a.isInlined
  · have := (h.1 hi).count_lt; omega
  · obtain ⟨s, ty, rfl, _, _, _, _, _, _, _, _, h9⟩ := h.2 hi
    have : s.hdr.count < maxArrayElementCount + 1 := h9
    show s.hdr.count ≤ _
    omega

/-- `Array.Insert`: an error is `IndexOutOfBounds` (index beyond the end) or `MaxElementCount`
    (array full) — never `.fatal`, `.outOfFuel`, `.unknownContainer` or any other -/
theorem arrInsert_errors (D : SlabID → DigestFn 4) (w : World) (p : SlabID) (i : Nat) (v : WVal) (cx : Ctx)
    (a : Arr) (e : WErr) (H : WorldOk' D w cx.ctr) (hK : KeyedClosures w) (hh : HandleOk w p)
    (hv : WValOk w p (maxInlineArr w.T) v) (hpa : w.cont? p = some (.arr a))
    (herr : w.arrInsert p i v cx = .error e) :
    (a.toList.length < i ∧ e = .arr .indexOutOfBounds) ∨
    (i ≤ a.toList.length ∧ a.count = maxArrayElementCount ∧ e = .arr .maxElementCount) := by
  rcases Nat.lt_or_ge a.toList.length i with hi | hi
  · rw [arrInsert_rejects_index D w p i v cx a H hpa hi] at herr
    cases herr; exact Or.inl ⟨hi, rfl⟩
  · have hle : a.count ≤ maxArrayElementCount := by
      obtain ⟨rank, H0⟩ := H
      exact arrOk_count_le (H0.conts p _ hpa)
    rcases Nat.lt_or_ge a.count maxArrayElementCount with hc | hc
    · obtain ⟨w', cx', hok⟩ := arrInsert_total D w p i v cx a H hK hh hv hpa hi hc
      rw [hok] at herr; cases herr
    · have hfull : a.count = maxArrayElementCount := Nat.le_antisymm hle hc
      rw [arrInsert_rejects_full D w p i v cx a H hv hpa hi hfull] at herr
      cases herr; exact Or.inr ⟨hi, hfull, rfl⟩

theorem arrSet_errors (D : SlabID → DigestFn 4) (w : World) (p : SlabID) (i : Nat) (v : WVal) (cx : Ctx)
    (a : Arr) (e : WErr) (H : WorldOk' D w cx.ctr) (hK : KeyedClosures w) (hh : HandleOk w p)
    (hv : WValOk w p (maxInlineArr w.T) v) (hpa : w.cont? p = some (.arr a))
    (herr : w.arrSet p i v cx = .error e) : a.toList.length ≤ i ∧ e = .arr .indexOutOfBounds := by
  rcases Nat.lt_or_ge i a.toList.length with hi | hi
  · obtain ⟨old, w', cx', hok⟩ := arrSet_total D w p i v cx a H hK hh hv hpa hi
    rw [hok] at herr; cases herr
  · rw [arrSet_rejects_index D w p i v cx a H hpa hi] at herr
    cases herr; exact ⟨hi, rfl⟩

theorem arrRemove_errors (D : SlabID → DigestFn 4) (w : World) (p : SlabID) (i : Nat) (cx : Ctx)
    (a : Arr) (e : WErr) (H : WorldOk' D w cx.ctr) (hK : KeyedClosures w) (hh : HandleOk w p)
    (hpa : w.cont? p = some (.arr a)) (herr : w.arrRemove p i cx = .error e) :
    a.toList.length ≤ i ∧ e = .arr .indexOutOfBounds := by
  rcases Nat.lt_or_ge i a.toList.length with hi | hi
  · obtain ⟨old, w', cx', hok⟩ := arrRemove_total D w p i cx a H hK hh hpa hi
    rw [hok] at herr; cases herr
  · rw [arrRemove_rejects_index D w p i cx a H hpa hi] at herr
    cases herr; exact ⟨hi, rfl⟩

theorem mapSet_errors (D : SlabID → DigestFn 4) (w : World) (p : SlabID) (k : MKey) (v : WVal) (cx : Ctx)
    (m : OMap 3) (e : WErr) (H : WorldOk' D w cx.ctr) (hK : KeyedClosures w) (hh : HandleOk w p)
    (hk : KeyOk w.T 4 (D p) k) (hv : WValOk w p (maxInlineMapValue w.T k.size) v)
    (hpm : w.cont? p = some (.map m)) (herr : w.mapSet p k v cx = .error e) :
    TLimited w.mcfg m.d m.root k ∧ e = .map .collisionLimit := by
  classical
  by_cases hl : TLimited w.mcfg m.d m.root k
  · rw [mapSet_rejects_limited D w p k v cx m H hk hv hpm hl] at herr
    cases herr; exact ⟨hl, rfl⟩
  · obtain ⟨old, w', cx', hok⟩ := mapSet_total D w p k v cx m H hK hh hk hv hpm hl
    rw [hok] at herr; cases herr

theorem mapRemove_errors (D : SlabID → DigestFn 4) (w : World) (p : SlabID) (k : MKey) (cx : Ctx)
    (m : OMap 3) (e : WErr) (H : WorldOk' D w cx.ctr) (hK : KeyedClosures w) (hh : HandleOk w p)
    (hk : KeyOk w.T 4 (D p) k) (hpm : w.cont? p = some (.map m)) (herr : w.mapRemove p k cx = .error e) :
    (∀ q ∈ m.toList, q.1 ≠ k) ∧ e = .map .keyNotFound := by
  classical
  by_cases hex : ∃ rv, (k, rv) ∈ m.toList
  · obtain ⟨rv, hmem⟩ := hex
    obtain ⟨rv', w', cx', hok⟩ := mapRemove_total D w p k cx m rv H hK hh hk hpm hmem
    rw [hok] at herr; cases herr
  · have habs : ∀ q ∈ m.toList, q.1 ≠ k := by
      intro q hq he
      exact hex ⟨q.2, by rw [← he]; exact hq⟩
    rw [mapRemove_rejects_absent D w p k cx m H hk hpm habs] at herr
    cases herr; exact ⟨habs, rfl⟩

/-- the internal errors of the World model: the notification ran out of fuel, one of the fatal
    branches of the callbacks / `Inline` / `Uninline`, a container that should be there is not -/
def Internal : WErr → Prop
  | .fatal => True
  | .outOfFuel => True
  | .unknownContainer => True
  | _ => False

/-- NO INTERNAL FAILURE.  Under `WorldOk'` (and `KeyedClosures`), an operation through a current
    handle of a live container of the right kind, with a well-formed value / key, never answers
    an internal error: it succeeds, or answers the error of the array / map model for its argument
    (`*_errors`, `*_rejects_*`); `setType` and the bulk pops always succeed (`*_total`). -/
theorem no_internal_failure (D : SlabID → DigestFn 4) (w : World) (cx : Ctx)
    (H : WorldOk' D w cx.ctr) (hK : KeyedClosures w) (p : SlabID) (hh : HandleOk w p) :
    (∀ a i v e, w.cont? p = some (.arr a) → WValOk w p (maxInlineArr w.T) v →
      (w.arrInsert p i v cx = .error e → ¬ Internal e) ∧ (w.arrSet p i v cx = .error e → ¬ Internal e)) ∧
    (∀ a i e, w.cont? p = some (.arr a) → w.arrRemove p i cx = .error e → ¬ Internal e) ∧
    (∀ m k v e, w.cont? p = some (.map m) → KeyOk w.T 4 (D p) k → WValOk w p (maxInlineMapValue w.T k.size) v →
      w.mapSet p k v cx = .error e → ¬ Internal e) ∧
    (∀ m k e, w.cont? p = some (.map m) → KeyOk w.T 4 (D p) k → w.mapRemove p k cx = .error e → ¬ Internal e) ∧
    ((w.cont? p).isSome → ∀ ty e, w.setType p ty cx ≠ .error e) ∧
    (∀ a keep e, w.cont? p = some (.arr a) → w.arrPopKeep p keep cx ≠ .error e ∧ w.arrPop p cx ≠ .error e) ∧
    (∀ m keep e, w.cont? p = some (.map m) → w.mapPopKeep p keep cx ≠ .error e ∧ w.mapPop p cx ≠ .error e) := by
  refine ⟨fun a i v e hpa hv => ⟨fun herr => ?_, fun herr => ?_⟩, fun a i e hpa herr => ?_,
    fun m k v e hpm hk hv herr => ?_, fun m k e hpm hk herr => ?_, fun hl ty e herr => ?_,
    fun a keep e hpa => ⟨fun herr => ?_, fun herr => ?_⟩, fun m keep e hpm => ⟨fun herr => ?_, fun herr => ?_⟩⟩
  · rcases arrInsert_errors D w p i v cx a e H hK hh hv hpa herr with ⟨_, rfl⟩ | ⟨_, _, rfl⟩ <;> exact id
  · obtain ⟨_, rfl⟩ := arrSet_errors D w p i v cx a e H hK hh hv hpa herr; exact id
  · obtain ⟨_, rfl⟩ := arrRemove_errors D w p i cx a e H hK hh hpa herr; exact id
  · obtain ⟨_, rfl⟩ := mapSet_errors D w p k v cx m e H hK hh hk hv hpm herr; exact id
  · obtain ⟨_, rfl⟩ := mapRemove_errors D w p k cx m e H hK hh hk hpm herr; exact id
  · obtain ⟨w', cx', hok⟩ := setType_total D w p ty cx H hK hh hl
    rw [hok] at herr; cases herr
  · obtain ⟨w', cx', hok⟩ := arrPopKeep_total D w p keep cx a H hK hh hpa
    rw [hok] at herr; cases herr
  · obtain ⟨w', cx', hok⟩ := arrPop_total D w p cx a H hK hh hpa
    rw [hok] at herr; cases herr
  · obtain ⟨w', cx', hok⟩ := mapPopKeep_total D w p keep cx m H hK hh hpm
    rw [hok] at herr; cases herr
  · obtain ⟨w', cx', hok⟩ := mapPop_total D w p cx m H hK hh hpm
    rw [hok] at herr; cases herr

/-! ### 6. `KeyedClosures`: an invariant of every operation, and a needed one -/

/-- the empty world; `NewArray`; `NewMap` (no closure names the ID about to be allocated:
    `HinfoBelow`, a clause of `WorldOk'`); `reopen` -/
theorem keyedClosures_init (D : SlabID → DigestFn 4) :
    (∀ T addr, KeyedClosures { T := T, addr := addr }) ∧
    (∀ w ty cx, KeyedClosures w → KeyedClosures (w.newArr ty cx).2.1) ∧
    (∀ w ty seed cx, WorldOk' D w cx.ctr → KeyedClosures w → KeyedClosures (w.newMap ty seed cx).2.1) ∧
    (∀ w : World, KeyedClosures w.reopen) :=
  ⟨keyed_empty, fun w ty cx h => keyed_newArr ty cx h,
    fun w ty seed cx H h => by obtain ⟨rank, H0⟩ := H; exact keyed_newMap ty seed cx h H0.hinfoBelow,
    keyed_reopen⟩

/-- every successful operation keeps `KeyedClosures` (no hypothesis on the world) -/
theorem keyedClosures_kept (w : World) (hK : KeyedClosures w) :
    (∀ p i v cx w' cx', w.arrInsert p i v cx = .ok (w', cx') → KeyedClosures w') ∧
    (∀ p i v cx old w' cx', w.arrSet p i v cx = .ok (old, w', cx') → KeyedClosures w') ∧
    (∀ p i cx old w' cx', w.arrRemove p i cx = .ok (old, w', cx') → KeyedClosures w') ∧
    (∀ p k v cx old w' cx', w.mapSet p k v cx = .ok (old, w', cx') → KeyedClosures w') ∧
    (∀ p k cx rk rv w' cx', w.mapRemove p k cx = .ok (rk, rv, w', cx') → KeyedClosures w') ∧
    (∀ p ty cx w' cx', w.setType p ty cx = .ok (w', cx') → KeyedClosures w') ∧
    (∀ h keep cx es w' cx', w.arrPopKeep h keep cx = .ok (es, w', cx') → KeyedClosures w') ∧
    (∀ h keep cx kvs w' cx', w.mapPopKeep h keep cx = .ok (kvs, w', cx') → KeyedClosures w') ∧
    (∀ h cx es w' cx', w.arrPop h cx = .ok (es, w', cx') → KeyedClosures w') ∧
    (∀ h cx kvs w' cx', w.mapPop h cx = .ok (kvs, w', cx') → KeyedClosures w') ∧
    (∀ p i el w', w.arrGet p i = .ok (el, w') → KeyedClosures w') ∧
    (∀ p k el w', w.mapGet p k = .ok (el, w') → KeyedClosures w') ∧
    (∀ k, KeyedClosures (forget w.fuelOf w k)) :=
  ⟨fun _ _ _ _ _ _ h => (kstep_arrInsert h).2 hK, fun _ _ _ _ _ _ _ h => (kstep_arrSet h).2 hK,
    fun _ _ _ _ _ _ h => (kstep_arrRemove h).2 hK, fun _ _ _ _ _ _ _ h => (kstep_mapSet h).2 hK,
    fun _ _ _ _ _ _ _ h => (kstep_mapRemove h).2 hK, fun _ _ _ _ _ h => (kstep_setType h).2 hK,
    fun _ _ _ _ _ _ h => (kstep_arrPopKeep h).2 hK, fun _ _ _ _ _ _ h => (kstep_mapPopKeep h).2 hK,
    fun _ _ _ _ _ h => (kstep_arrPopKeep (by rw [arrPopKeep_nil]; exact h)).2 hK,
    fun _ _ _ _ _ h => (kstep_mapPopKeep (by rw [mapPopKeep_nil]; exact h)).2 hK,
    fun _ _ _ _ h => (kstep_arrGet h).2 hK, fun _ _ _ _ h => (kstep_mapGet h).2 hK,
    fun k => (kstep_forget w k).2 hK⟩

/-- `KeyedClosures` IS NEEDED (it does not follow from `WorldOk`): the world `wbad` — two fresh roots,
    the array `R` and the map `M`, and a key-less closure of `R` that names `M` — satisfies
    `WorldOk`; the handle of the root `R` is current; inserting the plain 20-byte value at index 0
    of the empty array `R` is in range; the answer is the INTERNAL error `.fatal` (the branch
    `hi.key = none` of `notifyParent`).  The world is unreachable (`keyedClosures_kept`). -/
theorem fatal_without_keyedClosures :
    WorldOk OkScenario.D OkScenario.wbad OkScenario.t2.2.2.ctr ∧
    HandleOk OkScenario.wbad OkScenario.R ∧
    WValOk OkScenario.wbad OkScenario.R (maxInlineArr OkScenario.wbad.T) (OkScenario.pl 1) ∧
    (∃ a, OkScenario.wbad.cont? OkScenario.R = some (.arr a) ∧ a.toList = []) ∧
    OkScenario.wbad.arrInsert OkScenario.R 0 (OkScenario.pl 1) OkScenario.t2.2.2 = .error .fatal ∧
    ¬ KeyedClosures OkScenario.wbad := by
  obtain ⟨f1, f2, f3, f4⟩ := OkScenario.wbad_facts
  obtain ⟨a, ha⟩ := cont_arr_of f3
  refine ⟨OkScenario.wbad_worldOk, f1, f2, ⟨a, ha, ?_⟩, OkScenario.wbad_fatal, OkScenario.wbad_not_keyed⟩
  rw [ha] at f4
  simp only [Option.map_some, Option.some.injEq, Cont.storedElems] at f4
  exact List.eq_nil_of_length_eq_zero f4

/-! ### 7. Non-vacuity: the hypotheses hold in the depth-3 world of `World/OkScenario.lean`

`t7`: the array `A` (one value) is inlined, behind one wrapper, in the map `M`, itself inlined in
the root array `R`.  A mutation through `A` notifies `M` (map parent) and then `R` (array parent). -/

theorem worldOk'_of_worldOk {D : SlabID → DigestFn 4} {w : World} {ctr : Nat} (H : WorldOk D w ctr) :
    WorldOk' D w ctr := by
  obtain ⟨rank, H0⟩ := H
  exact ⟨rank, WorldOkPK.of_gen H0⟩

/-- `arrInsert_total` applies at depth 3: inserting through the handle of `A` (inside `M` inside `R`)
    succeeds — obtained from the theorem, not by running the model -/
theorem arrInsert_total_at_depth3 :
    Holds OkScenario.t7.1 OkScenario.R OkScenario.M ∧ Holds OkScenario.t7.1 OkScenario.M OkScenario.A ∧
    ∃ w' cx', OkScenario.t7.1.arrInsert OkScenario.A 1 (OkScenario.pl 5) OkScenario.t7.2 = .ok (w', cx') := by
  obtain ⟨s1, s2, s3, _, s5, _, _⟩ := OkScenario.t7_shape
  obtain ⟨a, ha⟩ := cont_arr_of s3
  have hlen : a.toList.length = 1 := by
    rw [ha] at s5
    simpa [Cont.storedElems] using s5
  have H' := worldOk'_of_worldOk OkScenario.ok7.1
  have hcount : a.count < maxArrayElementCount := by
    obtain ⟨rank, H0⟩ := H'
    have hok : ArrOk OkScenario.t7.1.T a OkScenario.t7.2.ctr := H0.conts _ _ ha
    rw [hok.count_eq, hlen]
    decide
  exact ⟨s1, s2, arrInsert_total OkScenario.D _ _ 1 _ _ a H' OkScenario.t7_keyed OkScenario.t7_handles.1
    ⟨⟨by decide, 5, rfl⟩, by decide⟩ ha (by rw [hlen]; exact Nat.le_refl _) hcount⟩

/-- `mapSet_total` applies in the same world: storing a new key through the handle of the map `M`
    (which holds `A` and is inlined in `R`) succeeds -/
theorem mapSet_total_at_depth3 :
    ∃ old w' cx', OkScenario.t7.1.mapSet OkScenario.M OkScenario.K2 (OkScenario.pl 5) OkScenario.t7.2
      = .ok (old, w', cx') := by
  obtain ⟨_, _, _, s4, _, _, _⟩ := OkScenario.t7_shape
  obtain ⟨m, hm⟩ := cont_map_of s4
  have hnl : ¬ TLimited OkScenario.t7.1.mcfg m.d m.root OkScenario.K2 := by
    have := OkScenario.t7_notLim
    rw [hm] at this
    simp only [Option.map_some, Option.some.injEq] at this
    exact notLimB_sound this
  exact mapSet_total OkScenario.D _ _ OkScenario.K2 _ _ m (worldOk'_of_worldOk OkScenario.ok7.1)
    OkScenario.t7_keyed OkScenario.t7_handles.2.1 OkScenario.keyOk_K2 ⟨⟨by decide, 5, rfl⟩, by decide⟩ hm hnl

end Atree.C10Total
