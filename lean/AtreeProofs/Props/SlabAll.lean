import AtreeProofs.Codec.SlabAll
import AtreeProofs.Props.C06Exact
import AtreeModel.Replay.Codec
import AtreeProofs.AListLemmas
/-
  C06 / C07 — the GENERAL statements over all seven slab kinds of the byte-level model.

  `C06.enc_len`, `C06.decoded_size_eq`, `C07.decode_encode`, `C07.reencode_fixpoint` assume
  `SlabOK`, which is `False` for array data slabs with general elements, map data slabs, map index
  slabs and large-value slabs with wrapped values: they say nothing about four of the seven kinds.
  The statements below assume `SlabOKG` (Codec/SlabAll.lean) — per kind exactly the hypotheses of the
  kind-specific theorem — and hold for every kind; `SlabOK s → SlabOKG s`, so they contain the old
  ones.  What changes in the reading:

  * the decoder returns `normSlab s`, which is `s` unless the slab holds an inlined map written in the
    compact form (the documented exception: such a child comes back with the shared entry's key
    order, digests and seed, `C07.compact_child_shape` / `compact_child_extensional`);
  * the length law has the term `s.hoisted`, the exact number of bytes compact maps do not write in
    place (0 without compact maps), and `omittedNext` also covers `.adata` / `.mdata`.
-/
namespace Atree.C07
open Atree Atree.Codec Atree.Gen

/-- Round trip for EVERY slab kind: decoding the register the encoder wrote gives the slab back — in
    its decoded form `normSlab s`, which is `s` itself unless a compact map is written
    (`normSlab_eq_of_noCompact`). -/
theorem decode_encode_all (s : Slab) (ok : SlabOKG s) (n : Nat) :
    ∃ k, decodeSlab s.id (encodeSlab s) n = .ok (normSlab s) k :=
  ⟨_, decodeSlab_encodeSlab_all s ok n⟩

/-- … with the exact number of slice elements the decoder allocates. -/
theorem decode_encode_all_allocs (s : Slab) (ok : SlabOKG s) (n : Nat) :
    decodeSlab s.id (encodeSlab s) n = .ok (normSlab s) (n + s.decodeAllocsG) :=
  decodeSlab_encodeSlab_all s ok n

/-- Re-encoding whatever the decoder returns for a register produced by the encoder yields the
    identical byte string — every slab kind, compact maps included. -/
theorem reencode_fixpoint_all (s : Slab) (ok : SlabOKG s) (n : Nat) (s' : Slab) (k : Nat)
    (h : decodeSlab s.id (encodeSlab s) n = .ok s' k) : encodeSlab s' = encodeSlab s := by
  rw [decodeSlab_encodeSlab_all s ok n] at h
  cases h
  exact encodeSlab_normSlab s ok

/-- The old hypothesis implies the new one: the `_all` statements contain the `SlabOK` ones. -/
theorem slabOKG_of_slabOK (s : Slab) (ok : SlabOK s) : SlabOKG s := SlabOKG_of_SlabOK ok

/-- Without a compact map the decoded form is the slab itself. -/
theorem normSlab_eq_of_noCompact (s : Slab) (nc : s.noCompact) : normSlab s = s :=
  normSlab_noCompact s nc

/-- The kinds of the first part never hold a compact map: for them `decode_encode_all` is the old
    `decode_encode`, result and allocation count included. -/
theorem decode_encode_all_of_slabOK (s : Slab) (ok : SlabOK s) (n : Nat) :
    decodeSlab s.id (encodeSlab s) n = .ok s (n + s.decodeAllocs) := by
  have h := decode_encode_all_allocs s (SlabOKG_of_SlabOK ok) n
  have hn : s.noCompact := by
    cases s with
    | data _ _ => trivial
    | index _ _ => trivial
    | storable _ _ => trivial
    | adata _ => exact ok.elim
    | mdata _ => exact ok.elim
    | mindex _ => exact ok.elim
    | storableG _ _ => exact ok.elim
  rw [normSlab_noCompact s hn, Slab.decodeAllocsG_of_SlabOK ok] at h
  exact h

/-- Every predicate of the kind-specific theorems is covered: a map data slab without inlined
    children (`MapDataOK`), one with inlined children but no compact map (`MapDataOKI`), with inlined
    children in any form under the older nesting clause `vneedI ≤ 32` (`MapDataOKC`) or under the exact
    one `vdepth ≤ 32` (`MapDataOKX`); an array data slab with inlined children but no compact map
    (`ArrDataOKI`), in any form (`ArrDataOKC`, `ArrDataOKX`), with wrapped elements only (`ArrDataOKW`,
    `ArrDataOKWX`). -/
theorem slabOKG_covers :
    (∀ m, MapDataOK m → SlabOKG (.mdata m)) ∧ (∀ m, MapDataOKI m → SlabOKG (.mdata m)) ∧
    (∀ m, MapDataOKC m → SlabOKG (.mdata m)) ∧ (∀ m, MapDataOKX m → SlabOKG (.mdata m)) ∧
    (∀ a, ArrDataOKI a → SlabOKG (.adata a)) ∧ (∀ a, ArrDataOKC a → SlabOKG (.adata a)) ∧
    (∀ a, ArrDataOKX a → SlabOKG (.adata a)) ∧
    (∀ a, ArrDataOKW a → SlabOKG (.adata a)) ∧ (∀ a, ArrDataOKWX a → SlabOKG (.adata a)) ∧
    (∀ m, MapMetaOK m → SlabOKG (.mindex m)) ∧
    (∀ id x, x.RT → x.noInl → x.vneed + 1 ≤ maxNestedLevels → SlabOKG (.storableG id (.some x))) :=
  ⟨fun _ h => h.toC.toX, fun _ h => h.toX, fun _ h => h.toX, fun _ h => h,
   fun _ h => Or.inl h.toX, fun _ h => Or.inl h.toX, fun _ h => Or.inl h,
   fun _ h => Or.inr h.toX, fun _ h => Or.inr h,
   fun _ h => h, fun _ x hrt hni hv => ⟨hrt, hni, rfl, by simpa [Stor.vneed] using hv⟩⟩

/-- The exact nesting clause is what `SlabOKG` asks of the three kinds with general elements. -/
theorem slabOKG_nest (s : Slab) (ok : SlabOKG s) :
    match s with
    | .adata _ | .mdata _ => s.vdepth ≤ maxNestedLevels
    | _ => True := by
  cases s with
  | adata a => rcases ok with ok | ok <;> exact ok.nest
  | mdata m => exact ok.nest
  | data _ _ => trivial
  | index _ _ => trivial
  | storable _ _ => trivial
  | mindex _ => trivial
  | storableG _ _ => trivial

end Atree.C07

namespace Atree.C06
open Atree Atree.Codec Atree.Gen

/-- All seven kinds at once, in the form of the oracle and EXACT:
    `len(EncodeSlab(s)) + omittedNext(s) + hoisted(s) = s.ByteSize() + extraDataLen(s)`.
    `omittedNext`: the 16 bytes of the undefined sibling link a non-root data slab (array, array with
    general elements, map) does not write; `hoisted`: the bytes compact maps keep in the shared
    section instead of in place (0 unless a compact map is written, `hoisted_zero_of_noCompact`);
    `hroot`: a root has no sibling. -/
theorem enc_len_all (s : Slab) (ok : SlabOKG s) (hroot : s.rootNoSibling) :
    (encodeSlab s).length + s.omittedNext + s.hoisted = s.byteSize + s.extraDataLen :=
  enc_len_slab_all s ok hroot

/-- `Slab.omittedNext` is what the trace replayer evaluates on every `ENC` line. -/
theorem omittedNext_eq_replay (s : Slab) : s.omittedNext = Replay.CodecState.omittedNext s := by
  cases s with
  | data ty d =>
    simp only [Slab.omittedNext, Replay.CodecState.omittedNext]
    by_cases h1 : d.root = false <;> by_cases h2 : d.next = SlabID.undef <;> simp [h1, h2]
  | adata a =>
    simp only [Slab.omittedNext, Replay.CodecState.omittedNext]
    by_cases h1 : a.ty.isNone = true <;> by_cases h2 : a.next = SlabID.undef <;> simp [h1, h2]
  | mdata m =>
    simp only [Slab.omittedNext, Replay.CodecState.omittedNext]
    by_cases h1 : m.extra.isNone = true <;> by_cases h2 : m.next = SlabID.undef <;> simp [h1, h2]
  | index _ _ => rfl
  | storable _ _ => rfl
  | mindex _ => rfl
  | storableG _ _ => rfl

/-- Without a compact map the slab hoists nothing: the law is `written + omitted = reported + extra`. -/
theorem hoisted_zero_of_slab_noCompact (s : Slab) (nc : s.noCompact) : s.hoisted = 0 := by
  cases s with
  | adata a => exact hoistedSts_noCompact a.elems nc
  | mdata m => exact MEls.hoisted_noCompact m.els nc
  | storableG _ x => exact Stor.hoisted_noCompact x nc
  | data _ _ => rfl
  | index _ _ => rfl
  | storable _ _ => rfl
  | mindex _ => rfl

/-- A slab decoded from its register reports the same size as the slab that produced the register —
    every kind; including the non-root data slabs whose sibling link was omitted from the register
    and the slabs whose compact children come back in another key order. -/
theorem decoded_size_eq_all (s : Slab) (ok : SlabOKG s) (n : Nat) :
    ∃ s' k, decodeSlab s.id (encodeSlab s) n = .ok s' k ∧ s'.byteSize = s.byteSize :=
  ⟨normSlab s, _, decodeSlab_encodeSlab_all s ok n, byteSize_normSlab s ok⟩

end Atree.C06

/-! ## non-vacuity: one slab of each of the seven kinds (two for `.adata`) -/
namespace Atree.C07.Examples
open Atree Atree.Codec Atree.Gen Atree.C06

instance (id : SlabID) : Decidable (validNext id) := by unfold validNext; infer_instance
instance : (t : TyInfo) → Decidable (validTy t)
  | .plain n => inferInstanceAs (Decidable (n < 2 ^ 64))
  | .composite n => inferInstanceAs (Decidable (n < 2 ^ 64))
instance (x : MapExtra) : Decidable (validMapExtra x) := by unfold validMapExtra; infer_instance
instance (a : Nat) (h : Hdr) : Decidable (validChildHdr a h) := by unfold validChildHdr; infer_instance
instance (a : Nat) (h : MChildHdr) : Decidable (validMChildHdr a h) := by unfold validMChildHdr; infer_instance

/-- 1. array data slab, root, two plain elements and a slab reference -/
def exData : Slab :=
  .data (some (.plain 9))
    { hdr := { id := ⟨1, 1⟩, size := 5 + (2 + 3 + 19), count := 3 }, next := SlabID.undef,
      elems := [⟨2, .val 7⟩, ⟨3, .val 300⟩, ⟨19, .ref ⟨1, 8⟩⟩], root := true, inlined := false }

theorem exData_ok : SlabOKG exData :=
  ⟨{ elems := by decide, count16 := by decide, notInlined := rfl, count := rfl, size := by decide,
     size32 := by decide, next := by decide, ty := fun _ => by decide }, rfl⟩

/-- 2. array index slab, non-root, two children -/
def exIndex : Slab :=
  .index none
    { hdr := { id := ⟨1, 2⟩, size := 12 + 14 * 2, count := 7 },
      childHdrs := [{ id := ⟨1, 3⟩, size := 40, count := 3 }, { id := ⟨1, 4⟩, size := 50, count := 4 }],
      countSum := [3, 7], children := [], root := false }

theorem exIndex_ok : SlabOKG exIndex :=
  ⟨{ addr := by decide, hdrs := by decide, n16 := by decide, sums := by decide, count := by decide,
     total32 := by decide, size := by decide, noChildren := rfl, ty := fun h => by cases h }, rfl⟩

/-- 3. large-value slab with a plain value -/
def exStorable : Slab := .storable ⟨1, 5⟩ ⟨300, .val 77⟩

theorem exStorable_ok : SlabOKG exStorable := by
  show validElem (⟨300, .val 77⟩ : Elem)
  decide

/-- 4a. array data slab with general elements: two same-typed compact maps (keys in opposite
    order) around an inlined array -/
def exAData : Slab :=
  .adata { id := ⟨1, 6⟩, next := ⟨1, 7⟩, ty := none,
           elems := [exCompact1, .arr (.plain 4) 9 [.val 2 1, .some (.val 2 2)], exCompact2] }

theorem exCompact1_rti : exCompact1.RTI := by
  simp only [exCompact1, Stor.RTI, MEls.RTI, rtiMElList, MEl.RTI, SEl.RTI, validMapExtra, validTy, sizeMEl,
    MEl.size, SEl.size, Stor.size, MEls.size]
  decide

theorem exCompact2_rti : exCompact2.RTI := by
  simp only [exCompact2, Stor.RTI, MEls.RTI, rtiMElList, MEl.RTI, SEl.RTI, validMapExtra, validTy, sizeMEl,
    MEl.size, SEl.size, Stor.size, MEls.size]
  decide

theorem exAData_okc :
    ArrDataOKC { id := ⟨1, 6⟩, next := ⟨1, 7⟩, ty := none,
                 elems := [exCompact1, .arr (.plain 4) 9 [.val 2 1, .some (.val 2 2)], exCompact2] } where
  rt := by
    refine ⟨exCompact1_rti, ?_, exCompact2_rti, trivial⟩
    simp only [Stor.RTI, rtiSts, validTy, sizeSts, Stor.size]
    decide
  nodup := ⟨exCompact1_nodup, ⟨trivial, trivial, trivial⟩, exCompact2_nodup, trivial⟩
  nest := by decide
  count := by decide
  inlined := by decide
  entries := by decide
  next := by decide
  ty := fun t h => by cases h
  size := by decide

theorem exAData_ok : SlabOKG exAData := Or.inl exAData_okc.toX

/-- 4b. array data slab with a wrapped element and no inlined child -/
def exADataW : Slab :=
  .adata { id := ⟨1, 6⟩, next := SlabID.undef, ty := some (.composite 2), elems := [.val 2 1, .some (.val 3 300)] }

theorem exADataW_ok : SlabOKG exADataW := by
  refine Or.inr (ArrDataOKW.toX
    { rt := ?_, noInl := ⟨trivial, trivial, trivial⟩, wrapped := ⟨.some (.val 3 300), by simp, rfl⟩,
      nest := by decide, count := by decide, next := by decide, ty := ?_, size := by decide })
  · simp only [rtiSts, Stor.RTI]; decide
  · intro t h; cases h; decide

/-- 5. map data slab, root, whose two values are same-typed compact maps with keys in opposite order
    (`C06.exCompactSlab`) -/
def exMData : Slab := .mdata exCompactSlab

theorem exMData_okc : MapDataOKC exCompactSlab where
  rt := by
    refine ⟨by decide, rfl, by decide, by decide, ⟨⟨?_, exCompact1_rti, ?_⟩, ⟨?_, exCompact2_rti, ?_⟩, trivial⟩, ?_⟩
    · simp only [Stor.RTI]; decide
    · decide
    · simp only [Stor.RTI]; decide
    · decide
    · decide
  nodup := exCompactSlab_nodup
  nest := by decide
  entries := by decide
  next := by decide
  extra := fun x h => by cases h; decide
  size := by decide

theorem exMData_ok : SlabOKG exMData := exMData_okc.toX

/-- 6. map index slab, root -/
def exMIndex : Slab :=
  .mindex { id := ⟨1, 9⟩, extra := some { ty := .plain 1, count := 40, seed := 5 },
            childHdrs := [{ id := ⟨1, 10⟩, size := 200, firstKey := 0 }, { id := ⟨1, 11⟩, size := 180, firstKey := 5000 }] }

theorem exMIndex_ok : SlabOKG exMIndex where
  addr := by decide
  hdrs := by decide
  n16 := by decide
  extra := fun x h => by cases h; decide

/-- 7. large-value slab with a doubly wrapped value -/
def exStorableG : Slab := .storableG ⟨1, 12⟩ (.some (.some (.val 300 77)))

theorem exStorableG_ok : SlabOKG exStorableG := by
  refine ⟨?_, trivial, rfl, by decide⟩
  simp only [Stor.RT]; decide

/-- every kind has a slab meeting the hypotheses of the `_all` theorems (and of `enc_len_all`: the
    roots have no sibling); the slabs with compact maps are really changed by decoding and really
    hoist bytes -/
theorem slabOKG_nonvacuous :
    (SlabOKG exData ∧ exData.rootNoSibling) ∧ (SlabOKG exIndex ∧ exIndex.rootNoSibling) ∧
    (SlabOKG exStorable ∧ exStorable.rootNoSibling) ∧ (SlabOKG exAData ∧ exAData.rootNoSibling) ∧
    (SlabOKG exADataW ∧ exADataW.rootNoSibling) ∧ (SlabOKG exMData ∧ exMData.rootNoSibling) ∧
    (SlabOKG exMIndex ∧ exMIndex.rootNoSibling) ∧ (SlabOKG exStorableG ∧ exStorableG.rootNoSibling) ∧
    exMData.hoisted = 58 ∧ exAData.hoisted = 58 :=
  ⟨⟨exData_ok, fun _ => rfl⟩, ⟨exIndex_ok, trivial⟩, ⟨exStorable_ok, trivial⟩, ⟨exAData_ok, fun h => by cases h⟩,
   ⟨exADataW_ok, fun _ => rfl⟩, ⟨exMData_ok, fun _ => rfl⟩, ⟨exMIndex_ok, trivial⟩, ⟨exStorableG_ok, trivial⟩,
   by decide, by decide⟩

example : ∃ k, decodeSlab exMData.id (encodeSlab exMData) 0 = .ok (normSlab exMData) k :=
  decode_encode_all exMData exMData_ok 0

example : (encodeSlab exAData).length + 0 + 58 = exAData.byteSize + exAData.extraDataLen := by
  have h1 := enc_len_all exAData exAData_ok (fun h => by cases h)
  have h2 : exAData.hoisted = 58 := slabOKG_nonvacuous.2.2.2.2.2.2.2.2.2
  have h3 : exAData.omittedNext = 0 := by decide
  omega

end Atree.C07.Examples
