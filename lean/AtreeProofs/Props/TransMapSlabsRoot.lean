import AtreeProofs.Props.TransMapSlabsData
import AtreeProofs.Props.TransMapSlabsMeta
import AtreeModel.Map.Ops
/-
  `OrderedMap.splitRoot` / `OrderedMap.promoteChildAsNewRoot` (map.go), REGENERATED IN FULL from the Go sources
  (`AtreeModel/Gen/TransMapSlabs.lean`), against the hand-written model (`OMap.splitRoot`, `OMap.promoteIfSingleChild`,
  `AtreeModel/Map/Ops.lean`): the generated function on the translation `cMap m x c` of a model handle (`x` = the
  extra data pointer of the root slab, `c` = the storage state) yields the translation of the model's result - the
  new root slab in full, the extra data pointer moved to it, the storage effects in order, no error.
  What the model does not show: a FAILING `splitRoot` (the old root has fewer than 2 elements / children) returns the
  model's error class but leaves the handle in the state `root_splitFail` - `m.root` is the old root slab under the
  freshly allocated slab id (under which nothing was stored), without its extra data and (data slab) with the
  non-root size.  All helper names of this file start with `root_`.
-/
namespace Atree.TransEq
open Atree Atree.Gen.TransMap

section root
variable {r : Nat} {V W X : Type}

/-- a slab tree as the generated ROOT slab: `cTree` with the extra data pointer `x` (the model's `root : Bool` flag is
    Go's `extraData != nil` and is not part of `cData` / `cMeta`) -/
def root_cTree : (d : Nat) → MTree r d → Option X → MapSlab (MElemF (MElems r)) V X
  | 0, (s : MDataSlab r), x => .dataSlab (cData s x)
  | _ + 1, (m : MMetaSlab _), x => .metaSlab (cMeta m x)

theorem root_cTree_none (d : Nat) (t : MTree r d) : root_cTree (V := V) (X := X) d t none = cTree d t := by
  cases d <;> rfl

/-- a map handle of the model as the generated `OrderedMap`: the storage state is the model's `Ctx`, the root slab
    carries the extra data pointer `x` -/
def cMap (m : OMap r) (x : Option X) (c : Ctx) : OrderedMap (MElemF (MElems r)) V X Ctx :=
  { Storage := c, root := root_cTree m.d m.root x }

/-- the old root as Go's `splitRoot` has it when it calls `Split`: the new slab id; for a data slab the size
    `size - mapRootDataSlabPrefixSize + mapDataSlabPrefixSize` in `uint32`, which is `size + 16` (mod 2^32) -/
def root_deroot : (d : Nat) → MTree r d → SlabID → MTree r d
  | 0, (s : MDataSlab r), sid =>
    ({ s with hdr := { id := sid, size := s.hdr.size + 16, firstKey := s.hdr.firstKey } } : MDataSlab r)
  | _ + 1, (m : MMetaSlab _), sid => ({ m with hdr := { m.hdr with id := sid } } : MMetaSlab _)

/-- the state Go's `splitRoot` leaves behind when the old root cannot be split: the slab id is allocated, `m.root` is
    still the OLD root slab but with the NEW slab id, WITHOUT its extra data, and (data slab) with the non-root size -/
def root_splitFail (m : OMap r) (c : Ctx) : OrderedMap (MElemF (MElems r)) V X Ctx :=
  { Storage := (c.alloc m.rootID.addr).2, root := cTree m.d (root_deroot m.d m.root (c.alloc m.rootID.addr).1) }

theorem root_u32_adjust (a : Nat) :
    u32 a - UInt32.ofNat Gen.mapRootDataSlabPrefixSize + UInt32.ofNat Gen.mapDataSlabPrefixSize = u32 (a + 16) := by
  simp only [Gen.mapRootDataSlabPrefixSize, Gen.mapDataSlabPrefixSize, u32, UInt32.ofNat_add]
  rw [UInt32.sub_eq_add_neg, UInt32.add_assoc]
  rfl

variable (T : Nat) (env : Env (MElemF (MElems r)) V W X Ctx GE)

/-- `splitRoot`, the root is an index slab -/
theorem OrderedMap_splitRoot_meta_eq_model (hS : EnvS env) (hsplit : env.NewSlabSplitErrorf = some .slabSplit)
    (d : Nat) (mm : MMetaSlab (MTree r d)) (ty cnt seed : Nat) (x : Option X) (c : Ctx)
    (hcov : 2 ≤ mm.childHdrs.length → (mm.childHdrs.length + 1) / 2 * Gen.mapSlabHeaderSize ≤ mm.hdr.size) :
    OrderedMap_splitRoot env (cMap (⟨d + 1, mm, ty, cnt, seed⟩ : OMap r) x c) =
      match OMap.splitRoot (⟨d + 1, mm, ty, cnt, seed⟩ : OMap r) c with
      | .ok (m', c') => some (none, cMap m' x c')
      | .error e => some (some e, root_splitFail ⟨d + 1, mm, ty, cnt, seed⟩ c) := by
  rcases ha : c.alloc mm.hdr.id.addr with ⟨sid, c1⟩
  have hsp := MapMetaDataSlab_Split_full_eq_model env hS hsplit
    ({ mm with hdr := { mm.hdr with id := sid }, root := false } : MMetaSlab (MTree r d)) (none : Option X) c1 hcov
  simp only [cMeta, cHdr] at hsp
  simp only [OrderedMap_splitRoot, cMap, root_cTree, root_splitFail, root_deroot, cTree, OMap.rootID, OMap.rootHdr,
    MTree.hdr, MapSlab_IsData, MapMetaDataSlab_IsData,
    Bool.false_eq_true, if_false, MapSlab_RemoveExtraData, MapMetaDataSlab_RemoveExtraData, MapSlab_SlabID,
    MapMetaDataSlab_SlabID, OrderedMap_Address, cMeta, cHdr, hS.gen, ha, Option.isNone_none, Bool.not_true,
    MapSlab_SetSlabID, MapMetaDataSlab_SetSlabID, MapSlab_Split, hsp,
    OMap.splitRoot, MTree.setRoot, MTree.setId, MTree.split, bind, Except.bind, pure, Except.pure]
  cases hres : MMetaSlab.split ({ mm with hdr := { mm.hdr with id := sid }, root := false } : MMetaSlab (MTree r d)) c1 with
  | error e => simp only [Option.isNone_some, Bool.not_false, if_true]
  | ok p =>
    obtain ⟨l, rr, c2⟩ := p
    simp only [Option.isNone_none, Bool.not_true, Bool.false_eq_true, if_false, MapSlab.isNil, Bool.not_false, if_true,
      MapSlab_Header, MapMetaDataSlab_Header, storeSlab, MapSlab_SlabID, MapMetaDataSlab_SlabID, hS.store,
      List.map_cons, List.map_nil, cHdr, u32]

/-- `splitRoot`, the root is a data slab -/
theorem OrderedMap_splitRoot_data_eq_model (hE : EnvH (MDataSlab.eops r) T env) (hS : EnvS env)
    (s : MDataSlab r) (ty cnt seed : Nat) (x : Option X) (c : Ctx)
    (hcnt : s.elems.elems.length < 2^32)
    (hs : s.elems.size + Gen.mapDataSlabPrefixSize < 2^32)
    (hpre : Gen.hkeyElementsPrefixSize + (dg (rawSizes (MDataSlab.eops r) s.elems)).sum ≤ s.elems.size)
    (hlen : s.elems.elems.length ≤ s.elems.hkeys.length) :
    OrderedMap_splitRoot env (cMap (⟨0, s, ty, cnt, seed⟩ : OMap r) x c) =
      match OMap.splitRoot (⟨0, s, ty, cnt, seed⟩ : OMap r) c with
      | .ok (m', c') => some (none, cMap m' x c')
      | .error e => some (some e, root_splitFail ⟨0, s, ty, cnt, seed⟩ c) := by
  rcases ha : c.alloc s.hdr.id.addr with ⟨sid, c1⟩
  have hsp := MapDataSlab_Split_full_eq_model T env hE hS
    ({ s with hdr := { id := sid, size := s.hdr.size + 16, firstKey := s.hdr.firstKey } } : MDataSlab r)
    (none : Option X) c1 hcnt hs hpre hlen
  simp only [cData, cHdr, MDataSlab.split] at hsp
  simp only [OrderedMap_splitRoot, cMap, root_cTree, root_splitFail, root_deroot, cTree, OMap.rootID, OMap.rootHdr,
    MTree.hdr, MapSlab_IsData, MapDataSlab_IsData, if_true, cData, cHdr, root_u32_adjust,
    MapSlab_RemoveExtraData, MapDataSlab_RemoveExtraData, MapSlab_SlabID,
    MapDataSlab_SlabID, OrderedMap_Address, hS.gen, ha, Option.isNone_none, Bool.not_true, Bool.false_eq_true, if_false,
    MapSlab_SetSlabID, MapDataSlab_SetSlabID, MapSlab_Split, hsp,
    OMap.splitRoot, MTree.setRoot, MTree.setId, MTree.split, MDataSlab.split, bind, Except.bind, pure, Except.pure]
  by_cases h2 : s.elems.elems.length < 2
  · simp only [h2, if_true, Option.isNone_some, Bool.not_false]
  · rcases hsplit : HkeyElems.split (MDataSlab.eops r) s.elems with ⟨le, re⟩
    rcases ha2 : c1.alloc sid.addr with ⟨sid2, c2⟩
    simp only [h2, if_false,
      Option.isNone_none, Bool.not_true, Bool.false_eq_true, MapSlab.isNil, Bool.not_false, if_true,
      MapSlab_Header, MapDataSlab_Header, storeSlab, MapSlab_SlabID, MapDataSlab_SlabID, MapMetaDataSlab_SlabID,
      hS.store, cMeta, List.map_cons, List.map_nil, cHdr, u32]

/-- the range hypotheses of the two `Split` theorems for the root slab (they only concern the element group /
    the child headers, which `splitRoot` does not touch before it calls `Split`) -/
def root_splitHyp (m : OMap r) : Prop :=
  match m with
  | ⟨0, (s : MDataSlab r), _, _, _⟩ =>
    s.elems.elems.length < 2^32 ∧ s.elems.size + Gen.mapDataSlabPrefixSize < 2^32 ∧
    Gen.hkeyElementsPrefixSize + (dg (rawSizes (MDataSlab.eops r) s.elems)).sum ≤ s.elems.size ∧
    s.elems.elems.length ≤ s.elems.hkeys.length
  | ⟨_ + 1, (mm : MMetaSlab _), _, _, _⟩ =>
    2 ≤ mm.childHdrs.length → (mm.childHdrs.length + 1) / 2 * Gen.mapSlabHeaderSize ≤ mm.hdr.size

/-- `OrderedMap.splitRoot` IN FULL.  If the model splits the root, the generated code returns no error and the handle
    `cMap m' x c'` of the model's result: the new root is an index slab with the OLD root id, size 12 + 2 * 18, the
    first key of the left child, the two child headers and the extra data `x` of the old root; the effects (alloc of
    the new id of the old root, the alloc of `Split`, store left, store right, store root) are the model's, in order.
    If the old root cannot be split (fewer than 2 elements / children) the error is the model's and the handle is left
    in the state `root_splitFail m c` (the model returns the error only).  No hypothesis on the header size of a data
    root: `size - 2 + 18` is overwritten by `Split` when it succeeds. -/
theorem OrderedMap_splitRoot_eq_model (hE : EnvH (MDataSlab.eops r) T env) (hS : EnvS env)
    (m : OMap r) (x : Option X) (c : Ctx) (hm : root_splitHyp m) :
    OrderedMap_splitRoot env (cMap m x c) =
      match OMap.splitRoot m c with
      | .ok (m', c') => some (none, cMap m' x c')
      | .error e => some (some e, root_splitFail m c) := by
  obtain ⟨d, root, ty, cnt, seed⟩ := m
  cases d with
  | zero =>
    obtain ⟨h1, h2, h3, h4⟩ := hm
    exact OrderedMap_splitRoot_data_eq_model T env hE hS root ty cnt seed x c h1 h2 h3 h4
  | succ d => exact OrderedMap_splitRoot_meta_eq_model env hS hE.eSplit d root ty cnt seed x c hm

/-- the error of a failing `splitRoot` is always `SlabSplitError` -/
theorem root_splitRoot_error (m : OMap r) (c : Ctx) (e : MErr) (h : OMap.splitRoot m c = .error e) : e = .slabSplit := by
  obtain ⟨d, root, ty, cnt, seed⟩ := m
  cases d with
  | zero =>
    simp only [OMap.splitRoot, MTree.hdr, MTree.setRoot, MTree.setId, MTree.split, MDataSlab.split, bind, Except.bind,
      pure, Except.pure] at h
    by_cases h2 : (root : MDataSlab r).elems.elems.length < 2
    · simp only [h2, if_true] at h; cases h; rfl
    · simp only [h2, if_false] at h; cases h
  | succ d =>
    simp only [OMap.splitRoot, MTree.hdr, MTree.setRoot, MTree.setId, MTree.split, MMetaSlab.split, bind, Except.bind,
      pure, Except.pure] at h
    by_cases h2 : (root : MMetaSlab (MTree r d)).childHdrs.length < 2
    · simp only [h2, if_true] at h; cases h; rfl
    · simp only [h2, if_false] at h; cases h

/-- the old root in the fail state against the model's own intermediate value (`setId (setRoot root0 false) sid`):
    the translations agree iff Go's `size - 2` does not wrap around -/
theorem root_deroot_data_eq_model (s : MDataSlab r) (sid : SlabID) (h2 : Gen.mapRootDataSlabPrefixSize ≤ s.hdr.size) :
    cTree (V := V) (X := X) 0 (root_deroot 0 s sid) =
      cTree 0 (MTree.setId 0 (MTree.setRoot 0
        ({ s with hdr := { s.hdr with size := s.hdr.size - Gen.mapRootDataSlabPrefixSize + Gen.mapDataSlabPrefixSize } } : MDataSlab r)
        false) sid) := by
  simp only [Gen.mapRootDataSlabPrefixSize, Gen.mapDataSlabPrefixSize] at h2 ⊢
  have e : s.hdr.size - 2 + 18 = s.hdr.size + 16 := by omega
  simp only [cTree, root_deroot, MTree.setId, MTree.setRoot, cData, e]

theorem root_deroot_meta_eq_model (d : Nat) (mm : MMetaSlab (MTree r d)) (sid : SlabID) :
    cTree (V := V) (X := X) (d + 1) (root_deroot (d + 1) mm sid) =
      cTree (d + 1) (MTree.setId (d + 1) (MTree.setRoot (d + 1) mm false) sid) := by
  simp only [cTree, root_deroot, MTree.setId, MTree.setRoot, cMeta]

/-! ## promoteChildAsNewRoot -/

/-- `getMapSlab` when the storage returns a slab -/
theorem root_getMapSlab_found (c c' : Ctx) (id : SlabID) (d : Nat) (t : MTree r d)
    (hret : env.SlabStorage_Retrieve c id = (cTree d t, true, none, c')) :
    getMapSlab env c id = (cTree d t, none, c') := by
  cases d <;>
    simp only [getMapSlab, hret, cTree, Option.isNone_none, Bool.not_true, Bool.false_eq_true, if_false, MapSlab.isNil,
      Bool.not_false]

/-- `OrderedMap.promoteChildAsNewRoot` IN FULL for a root index slab with exactly one child, when the storage returns
    that child for the child id: no error, the handle of the model's result (the child with the root's slab id and
    the root's extra data `x`; a data child with the root data slab size `size - 18 + 2`), the effects store root id,
    remove child id.  `c'` = the storage state `Retrieve` hands back (`c' = c` for a storage that reads without effect).
    Needs (data child only): the child's size covers the prefix, else Go's `size - 18` wraps around. -/
theorem OrderedMap_promoteChildAsNewRoot_eq_model (hS : EnvS env)
    (d : Nat) (mm : MMetaSlab (MTree r d)) (ty cnt seed : Nat) (x : Option X) (c : Ctx)
    (h : MHdr) (child : MTree r d) (hh : mm.childHdrs = [h]) (hc : mm.children = [child])
    (c' : Ctx) (hret : env.SlabStorage_Retrieve c h.id = (cTree d child, true, none, c'))
    (hsz : d = 0 → Gen.mapDataSlabPrefixSize ≤ (MTree.hdr d child).size) :
    OrderedMap_promoteChildAsNewRoot env (cMap (⟨d + 1, mm, ty, cnt, seed⟩ : OMap r) x c) h.id =
      some (none, cMap (OMap.promoteIfSingleChild (⟨d + 1, mm, ty, cnt, seed⟩ : OMap r) c').1 x
        (OMap.promoteIfSingleChild (⟨d + 1, mm, ty, cnt, seed⟩ : OMap r) c').2) := by
  have hg := root_getMapSlab_found env c c' h.id d child hret
  obtain ⟨mh, mchs, mchildren, mroot⟩ := mm
  simp only at hh hc
  subst hh hc
  cases d with
  | zero =>
    have hsz' := hsz rfl
    simp only [MTree.hdr, Gen.mapDataSlabPrefixSize] at hsz'
    have e : u32 (MDataSlab.hdr child).size - UInt32.ofNat Gen.mapDataSlabPrefixSize +
        UInt32.ofNat Gen.mapRootDataSlabPrefixSize =
        u32 ((MDataSlab.hdr child).size - Gen.mapDataSlabPrefixSize + Gen.mapRootDataSlabPrefixSize) := by
      simp only [Gen.mapDataSlabPrefixSize, Gen.mapRootDataSlabPrefixSize, u32, UInt32.ofNat_add, UInt32.ofNat_sub hsz']
    simp only [cTree] at hg
    simp only [OrderedMap_promoteChildAsNewRoot, cMap, root_cTree, hg, Option.isNone_none, Bool.not_true,
      Bool.false_eq_true, if_false, MapSlab_IsData, MapDataSlab_IsData, if_true, cData, cHdr, e,
      MapSlab_RemoveExtraData, MapMetaDataSlab_RemoveExtraData, MapSlab_SlabID, MapMetaDataSlab_SlabID, cMeta,
      MapSlab_SetSlabID, MapDataSlab_SetSlabID, MapSlab_SetExtraData, MapDataSlab_SetExtraData, storeSlab,
      MapDataSlab_SlabID, hS.store, hS.remove,
      OMap.promoteIfSingleChild, MTree.setRoot, MTree.setId]
  | succ d =>
    simp only [cTree] at hg
    simp only [OrderedMap_promoteChildAsNewRoot, cMap, root_cTree, hg, Option.isNone_none, Bool.not_true,
      Bool.false_eq_true, if_false, MapSlab_IsData, MapMetaDataSlab_IsData, cHdr,
      MapSlab_RemoveExtraData, MapMetaDataSlab_RemoveExtraData, MapSlab_SlabID, MapMetaDataSlab_SlabID, cMeta,
      MapSlab_SetSlabID, MapMetaDataSlab_SetSlabID, MapSlab_SetExtraData, MapMetaDataSlab_SetExtraData, storeSlab,
      hS.store, hS.remove,
      OMap.promoteIfSingleChild, MTree.setRoot, MTree.setId]

end root

/-! ## promoteChildAsNewRoot: the child cannot be retrieved (any handle, any environment) -/

section retrieveFails
variable {E V W X S ε : Type} (env : Env E V W X S ε)

/-- `Retrieve` fails: the (wrapped) error, the handle untouched but for the storage state handed back -/
theorem OrderedMap_promoteChildAsNewRoot_retrieve_error (om : OrderedMap E V X S) (id : SlabID)
    (slab : MapSlab E V X) (found : Bool) (e e' : ε) (c' : S)
    (hret : env.SlabStorage_Retrieve om.Storage id = (slab, found, some e, c'))
    (hw : env.wrapErrorfAsExternalErrorIfNeeded (some e) = some e') :
    OrderedMap_promoteChildAsNewRoot env om id = some (some e', { om with Storage := c' }) := by
  simp only [OrderedMap_promoteChildAsNewRoot, getMapSlab, hret, hw, Option.isNone_some, Bool.not_false, if_true]

/-- the slab is not in the storage: `SlabNotFoundError` -/
theorem OrderedMap_promoteChildAsNewRoot_not_found (om : OrderedMap E V X S) (id : SlabID)
    (slab : MapSlab E V X) (e' : ε) (c' : S)
    (hret : env.SlabStorage_Retrieve om.Storage id = (slab, false, none, c'))
    (hnf : env.NewSlabNotFoundErrorf = some e') :
    OrderedMap_promoteChildAsNewRoot env om id = some (some e', { om with Storage := c' }) := by
  simp only [OrderedMap_promoteChildAsNewRoot, getMapSlab, hret, hnf, Option.isNone_some, Option.isNone_none,
    Bool.not_false, Bool.not_true, Bool.false_eq_true, if_true, if_false]

/-- the storage holds something that is not a `MapSlab`: `SlabDataError` -/
theorem OrderedMap_promoteChildAsNewRoot_not_map_slab (om : OrderedMap E V X S) (id : SlabID) (e' : ε) (c' : S)
    (hret : env.SlabStorage_Retrieve om.Storage id = (.nil, true, none, c'))
    (hde : env.NewSlabDataErrorf = some e') :
    OrderedMap_promoteChildAsNewRoot env om id = some (some e', { om with Storage := c' }) := by
  simp only [OrderedMap_promoteChildAsNewRoot, getMapSlab, hret, hde, Option.isNone_some, Option.isNone_none,
    Bool.not_false, Bool.not_true, Bool.false_eq_true, if_true, if_false, MapSlab.isNil]

end retrieveFails

/-! ## non-vacuity, and where the code and the model part outside the hypotheses (concrete inputs) -/

section examples

/-- an environment that satisfies `EnvH (MDataSlab.eops 0) 1024` and `EnvS`; `Retrieve` always finds `ret` -/
private def root_envEx (ret : MapSlab (MElemF (MElems 0)) Unit Unit) : Env (MElemF (MElems 0)) Unit Unit Unit Ctx GE where
  Digester_Levels := 0
  MapSlab_CanLendToLeft := fun _ _ => false
  MapSlab_CanLendToRight := fun _ _ => false
  NewHashLevelErrorf := none
  NewKeyNotFoundError := none
  NewNotApplicableError := some .notApplicable
  NewSlabDataErrorf := none
  NewSlabMergeError := some .slabMerge
  NewSlabNotFoundErrorf := some .slabNotFound
  NewSlabRebalanceError := some .slabRebalance
  NewSlabRebalanceErrorf := some .slabRebalance
  NewSlabSplitErrorf := some .slabSplit
  SlabStorage_GenerateSlabID := fun c a => ((c.alloc a).1, none, (c.alloc a).2)
  SlabStorage_Remove := fun c id => (none, c.emit (.remove id))
  SlabStorage_Retrieve := fun c _ => (ret, true, none, c)
  SlabStorage_Store := fun c id _ => (none, c.emit (.store id))
  Storable_ByteSize := fun _ => 0
  ValueComparator := fun c _ _ => (false, none, c)
  Value_Storable := fun _ c _ _ => (none, none, c)
  element_Size := fun msl_el => u32 (msl_el.size (MDataSlab.eops 0))
  maxInlineMapValueSize := fun x => x
  minThreshold := u32 (minThr 1024)
  newSingleElement := fun c _ _ _ => ({}, none, c)
  wrapErrorfAsExternalErrorIfNeeded := fun e => e

private theorem root_envEx_EnvS (ret) : EnvS (root_envEx ret) := ⟨fun _ _ => rfl, fun _ _ _ => rfl, fun _ _ => rfl, rfl⟩
private theorem root_envEx_EnvH (ret) : EnvH (MDataSlab.eops 0) 1024 (root_envEx ret) :=
  ⟨fun _ => rfl, rfl, rfl, rfl, rfl, rfl, rfl⟩

private def root_exElem (k sz : Nat) : MElemF (MElems 0) :=
  .single { key := ⟨1, k, [k]⟩, val := ⟨1, .val k⟩, size := sz }

/-- a data slab with slab id (1, id), header size `size` and one element of size 12 + 8 per key -/
private def root_exData (id size : Nat) (ks : List Nat) (isRoot : Bool) : MDataSlab 0 :=
  { hdr := ⟨⟨1, id⟩, size, ks.headD 0⟩, next := ⟨0, 0⟩,
    elems := { hkeys := ks, elems := ks.map (root_exElem · 12), size := 8 + 20 * ks.length, level := 0 },
    root := isRoot, inlined := false }

/-- what the examples look at: is it a data slab, slab id, size, first key, the child ids, is there extra data -/
private def root_obs : MapSlab (MElemF (MElems 0)) Unit Unit → Option (Bool × SlabID × Nat × Nat × List SlabID × Bool)
  | .dataSlab s => some (true, s.header.slabID, s.header.size.toNat, s.header.firstKey.toNat, [], s.extraData.isSome)
  | .metaSlab m => some (false, m.header.slabID, m.header.size.toNat, m.header.firstKey.toNat,
      m.childrenHeaders.map (·.slabID), m.extraData.isSome)
  | .nil => none

/-- a root data slab (1, 7) with the keys 5, 9 (size 2 + 8 + 20 + 20) -/
private def root_exMap : OMap 0 := ⟨0, root_exData 7 50 [5, 9] true, 0, 2, 0⟩

/-- the hypotheses of `OrderedMap_splitRoot_eq_model` hold for it, and the model does split it -/
example : root_splitHyp root_exMap := by
  simp only [root_splitHyp, root_exMap]; decide
example : (OMap.splitRoot root_exMap ⟨40, [], []⟩).toOption.map (fun p => (p.1.d, p.1.rootHdr, p.2.ctr, p.2.eff)) =
    some (1, ⟨⟨1, 7⟩, 12 + 18 * 2, 5⟩, 42,
      [.alloc 1 ⟨1, 41⟩, .alloc 1 ⟨1, 42⟩, .store ⟨1, 41⟩, .store ⟨1, 42⟩, .store ⟨1, 7⟩]) := by decide

/-- ... so the generated code, by the theorem: the new root (1, 7) is an index slab of size 48 over (1, 41), (1, 42),
    first key 5, and it has the extra data -/
example : (OrderedMap_splitRoot (root_envEx .nil) (cMap root_exMap (some ()) ⟨40, [], []⟩)).map
    (fun p => (p.1, root_obs p.2.root, p.2.Storage.eff)) =
    some (none, some (false, ⟨1, 7⟩, 48, 5, [⟨1, 41⟩, ⟨1, 42⟩], true),
      [.alloc 1 ⟨1, 41⟩, .alloc 1 ⟨1, 42⟩, .store ⟨1, 41⟩, .store ⟨1, 42⟩, .store ⟨1, 7⟩]) := by
  rw [OrderedMap_splitRoot_eq_model 1024 _ (root_envEx_EnvH _) (root_envEx_EnvS _) _ _ _
    (by simp only [root_splitHyp, root_exMap]; decide)]
  rfl

/-- a root data slab with ONE element cannot be split.  The model returns `SlabSplitError` only; Go returns it too but
    leaves the handle changed: `m.root` is still the data slab, now under the NEW slab id (1, 41) (never stored under
    it; the storage still has the old root under (1, 7)), with the non-root size (30 - 2 + 18) and WITHOUT the extra
    data; the allocation is the only effect.  (generated code evaluated) -/
example : (OrderedMap_splitRoot (root_envEx .nil) (cMap ⟨0, root_exData 7 30 [5] true, 0, 1, 0⟩ (some ()) ⟨40, [], []⟩)).map
    (fun p => (p.1, root_obs p.2.root, p.2.Storage.eff)) =
    some (some .slabSplit, some (true, ⟨1, 41⟩, 46, 5, [], false), [.alloc 1 ⟨1, 41⟩]) := by rfl
example : (OMap.splitRoot (⟨0, root_exData 7 30 [5] true, 0, 1, 0⟩ : OMap 0) ⟨40, [], []⟩).toOption.isNone = true := by
  decide

/-- the same with a header size below the root prefix (size 0, outside every invariant): Go's `0 - 2 + 18` wraps to 16
    in the state it leaves; the model's intermediate value (invisible: it returns the error only) would be 18 -/
example : (OrderedMap_splitRoot (root_envEx .nil) (cMap ⟨0, root_exData 7 0 [5] true, 0, 1, 0⟩ (some ()) ⟨40, [], []⟩)).map
    (fun p => (p.1, root_obs p.2.root)) =
    some (some .slabSplit, some (true, ⟨1, 41⟩, 16, 5, [], false)) := by rfl

/-- a root index slab (1, 7) whose only child is the data slab (1, 9) -/
private def root_exMetaSlab (child : MDataSlab 0) : MMetaSlab (MTree 0 0) :=
  { hdr := ⟨⟨1, 7⟩, 12 + 18, child.hdr.firstKey⟩, childHdrs := [child.hdr], children := [child], root := true }
private def root_exMeta (child : MDataSlab 0) : OMap 0 := ⟨1, root_exMetaSlab child, 0, 2, 0⟩

/-- promoteChildAsNewRoot, by the theorem: the child becomes the root data slab (1, 7) of size 66 - 18 + 2 with the
    extra data; store (1, 7), remove (1, 9) -/
example : (OrderedMap_promoteChildAsNewRoot (root_envEx (cTree 0 (root_exData 9 66 [5, 9] false)))
    (cMap (root_exMeta (root_exData 9 66 [5, 9] false)) (some ()) ⟨40, [], []⟩) ⟨1, 9⟩).map
    (fun p => (p.1, root_obs p.2.root, p.2.Storage.eff)) =
    some (none, some (true, ⟨1, 7⟩, 50, 5, [], true), [.store ⟨1, 7⟩, .remove ⟨1, 9⟩]) := by
  have h := OrderedMap_promoteChildAsNewRoot_eq_model (root_envEx (cTree 0 (root_exData 9 66 [5, 9] false)))
    (root_envEx_EnvS _) 0 (root_exMetaSlab (root_exData 9 66 [5, 9] false)) 0 2 0 (some ()) ⟨40, [], []⟩ (root_exData 9 66 [5, 9] false).hdr
    (root_exData 9 66 [5, 9] false) rfl rfl ⟨40, [], []⟩ rfl (by decide)
  exact (congrArg _ h).trans (by rfl)

/-- DIFFERENCE outside the hypothesis `18 ≤ size` of the data child (size 10, outside every invariant): Go's
    `10 - 18 + 2` wraps around to 2^32 - 6, the model's truncated subtraction gives 2 -/
example : (OrderedMap_promoteChildAsNewRoot (root_envEx (cTree 0 (root_exData 9 10 [5, 9] false)))
      (cMap (root_exMeta (root_exData 9 10 [5, 9] false)) (some ()) ⟨40, [], []⟩) ⟨1, 9⟩).map
        (fun p => root_obs p.2.root) = some (some (true, ⟨1, 7⟩, 2 ^ 32 - 6, 5, [], true)) ∧
    (OMap.promoteIfSingleChild (root_exMeta (root_exData 9 10 [5, 9] false)) ⟨40, [], []⟩).1.rootHdr.size = 2 :=
  ⟨by rfl, by rfl⟩

end examples

end Atree.TransEq
