import AtreeModel.Gen.TransCoverage
/-
  COVERAGE of the stateful engine (Gen/TransStorage.lean) (FX14, audit a6 F1 / F3): what the engine does NOT read of the Go text of its
  targets is regenerated on every run (Gen/TransCoverage.lean, harness/cmd/gotrans/coverage.go) and proved EQUAL to the
  reviewed literals below.  A change of a skipped statement, of the arguments / the use of the results of a call that is
  an environment parameter or a table view, or of the body of a helper behind such a parameter breaks the theorem
  (also a harmless one: the reviewer re-reads the piece and re-pins).
  Written by `gotrans -repo <atree> -out <Gen> -pin <this directory>`; do not edit by hand, review the diff.
-/
namespace Atree.TransCov
open Atree

namespace Reviewed

def skipped_TransSt : List (String × String) := [
  ("PersistentSlabStorage_Store", "dropped argument: \"failed to store slab with undefined slab ID\""),
  ("PersistentSlabStorage_Remove", "dropped argument: \"failed to remove slab with undefined slab ID\""),
  ("PersistentSlabStorage_RetrieveIgnoringDeltas", "dropped argument: fmt.Sprintf(\"failed to retrieve slab %s\", id)"),
  ("PersistentSlabStorage_RetrieveIgnoringDeltas", "dropped argument: s.cborDecMode"),
  ("PersistentSlabStorage_RetrieveIgnoringDeltas", "dropped argument: s.DecodeStorable"),
  ("PersistentSlabStorage_RetrieveIgnoringDeltas", "dropped argument: s.DecodeTypeInfo"),
  ("PersistentSlabStorage_GenerateSlabID", "dropped argument: fmt.Sprintf(\"failed to generate slab ID for address 0x%x\", address)"),
  ("PersistentSlabStorage_commit", "dropped argument: fmt.Sprintf(\"failed to remove slab %s\", id)"),
  ("PersistentSlabStorage_commit", "dropped argument: s.cborEncMode"),
  ("PersistentSlabStorage_commit", "dropped argument: fmt.Sprintf(\"failed to store slab %s\", id)"),
  ("LedgerBaseStorage_Retrieve", "dropped argument: fmt.Sprintf(\"failed to retrieve slab %s\", id)"),
  ("LedgerBaseStorage_Store", "dropped argument: fmt.Sprintf(\"failed to store slab %s\", id)"),
  ("LedgerBaseStorage_Remove", "dropped argument: fmt.Sprintf(\"failed to remove slab %s\", id)"),
  ("LedgerBaseStorage_GenerateSlabID", "dropped argument: fmt.Sprintf(\"failed to generate slab ID with address 0x%x\", address)")]

def envCalls_TransSt : List (String × String) := [
  ("PersistentSlabStorage_Store", "NewSlabIDError(\"failed to store slab with undefined slab ID\") IN return NewSlabIDError(\"failed to store slab with undefined slab ID\")"),
  ("PersistentSlabStorage_Remove", "NewSlabIDError(\"failed to remove slab with undefined slab ID\") IN return NewSlabIDError(\"failed to remove slab with undefined slab ID\")"),
  ("PersistentSlabStorage_RetrieveIgnoringDeltas", "wrapErrorfAsExternalErrorIfNeeded(err, fmt.Sprintf(\"failed to retrieve slab %s\", id)) IN return nil, ok, wrapErrorfAsExternalErrorIfNeeded(err, fmt.Sprintf(\"failed to retrieve slab %s\", id))"),
  ("PersistentSlabStorage_RetrieveIgnoringDeltas", "DecodeSlab(id, data, s.cborDecMode, s.DecodeStorable, s.DecodeTypeInfo) IN slab, err := DecodeSlab(id, data, s.cborDecMode, s.DecodeStorable, s.DecodeTypeInfo)"),
  ("PersistentSlabStorage_GenerateSlabID", "NewSlabID(address, idx) IN return NewSlabID(address, idx), nil"),
  ("PersistentSlabStorage_GenerateSlabID", "wrapErrorfAsExternalErrorIfNeeded(err, fmt.Sprintf(\"failed to generate slab ID for address 0x%x\", address)) IN return SlabID{}, wrapErrorfAsExternalErrorIfNeeded(err, fmt.Sprintf(\"failed to generate slab ID for address 0x%x\", address))"),
  ("PersistentSlabStorage_DeltasSizeWithoutTempAddresses", "slab.ByteSize() IN size += uint64(slab.ByteSize())"),
  ("PersistentSlabStorage_sortedOwnedDeltaKeys", "a.IndexAsUint64() IN return a.IndexAsUint64() < b.IndexAsUint64()"),
  ("PersistentSlabStorage_sortedOwnedDeltaKeys", "b.IndexAsUint64() IN return a.IndexAsUint64() < b.IndexAsUint64()"),
  ("PersistentSlabStorage_sortedOwnedDeltaKeys", "a.AddressAsUint64() IN return a.AddressAsUint64() < b.AddressAsUint64()"),
  ("PersistentSlabStorage_sortedOwnedDeltaKeys", "b.AddressAsUint64() IN return a.AddressAsUint64() < b.AddressAsUint64()"),
  ("PersistentSlabStorage_commit", "wrapErrorfAsExternalErrorIfNeeded(err, fmt.Sprintf(\"failed to remove slab %s\", id)) IN return wrapErrorfAsExternalErrorIfNeeded(err, fmt.Sprintf(\"failed to remove slab %s\", id))"),
  ("PersistentSlabStorage_commit", "EncodeSlab(slab, s.cborEncMode) IN data, err := EncodeSlab(slab, s.cborEncMode)"),
  ("PersistentSlabStorage_commit", "wrapErrorfAsExternalErrorIfNeeded(err, fmt.Sprintf(\"failed to store slab %s\", id)) IN return wrapErrorfAsExternalErrorIfNeeded(err, fmt.Sprintf(\"failed to store slab %s\", id))"),
  ("BasicSlabStorage_GenerateSlabID", "index.Next() IN nextIndex := index.Next()"),
  ("BasicSlabStorage_GenerateSlabID", "NewSlabID(address, nextIndex) IN return NewSlabID(address, nextIndex), nil"),
  ("LedgerBaseStorage_Retrieve", "s.ledger.GetValue(id.address[:], SlabIndexToLedgerKey(id.index)) IN v, err := s.ledger.GetValue(id.address[:], SlabIndexToLedgerKey(id.index))"),
  ("LedgerBaseStorage_Retrieve", "SlabIndexToLedgerKey(id.index) IN v, err := s.ledger.GetValue(id.address[:], SlabIndexToLedgerKey(id.index))"),
  ("LedgerBaseStorage_Retrieve", "wrapErrorfAsExternalErrorIfNeeded(err, fmt.Sprintf(\"failed to retrieve slab %s\", id)) IN return nil, false, wrapErrorfAsExternalErrorIfNeeded(err, fmt.Sprintf(\"failed to retrieve slab %s\", id))"),
  ("LedgerBaseStorage_Store", "s.ledger.SetValue(id.address[:], SlabIndexToLedgerKey(id.index), data) IN err := s.ledger.SetValue(id.address[:], SlabIndexToLedgerKey(id.index), data)"),
  ("LedgerBaseStorage_Store", "SlabIndexToLedgerKey(id.index) IN err := s.ledger.SetValue(id.address[:], SlabIndexToLedgerKey(id.index), data)"),
  ("LedgerBaseStorage_Store", "wrapErrorfAsExternalErrorIfNeeded(err, fmt.Sprintf(\"failed to store slab %s\", id)) IN return wrapErrorfAsExternalErrorIfNeeded(err, fmt.Sprintf(\"failed to store slab %s\", id))"),
  ("LedgerBaseStorage_Remove", "s.ledger.SetValue(id.address[:], SlabIndexToLedgerKey(id.index), nil) IN err := s.ledger.SetValue(id.address[:], SlabIndexToLedgerKey(id.index), nil)"),
  ("LedgerBaseStorage_Remove", "SlabIndexToLedgerKey(id.index) IN err := s.ledger.SetValue(id.address[:], SlabIndexToLedgerKey(id.index), nil)"),
  ("LedgerBaseStorage_Remove", "wrapErrorfAsExternalErrorIfNeeded(err, fmt.Sprintf(\"failed to remove slab %s\", id)) IN return wrapErrorfAsExternalErrorIfNeeded(err, fmt.Sprintf(\"failed to remove slab %s\", id))"),
  ("LedgerBaseStorage_GenerateSlabID", "s.ledger.AllocateSlabIndex(address[:]) IN idx, err := s.ledger.AllocateSlabIndex(address[:])"),
  ("LedgerBaseStorage_GenerateSlabID", "wrapErrorfAsExternalErrorIfNeeded( err, fmt.Sprintf(\"failed to generate slab ID with address 0x%x\", address), ) IN return SlabID{}, wrapErrorfAsExternalErrorIfNeeded( err, fmt.Sprintf(\"failed to generate slab ID with address 0x%x\", address), )"),
  ("LedgerBaseStorage_GenerateSlabID", "NewSlabID(address, idx) IN return NewSlabID(address, idx), nil")]

def opaqueBodies_TransSt : List (String × String) := [
  ("DecodeSlab", "bece0cbda2863e19"),
  ("EncodeSlab", "f79c3fcdd1b2a7eb"),
  ("NewDecodingError", "e416b170675201ec"),
  ("NewDecodingErrorf", "c63b631d7d5960fb"),
  ("NewEncoder", "5c7c3c470ad6c56c"),
  ("NewEncodingError", "6751d5052f8afe6b"),
  ("NewExternalError", "b800c9615af12c00"),
  ("NewFatalError", "2304e66b7040c8ae"),
  ("NewSlabID", "7dff64c90e2ac3f7"),
  ("NewSlabIDError", "527abae744a2d28b"),
  ("NewSlabIDErrorf", "fd49506dcffbf633"),
  ("NewSlabIDFromRawBytes", "4a7d9d5a9adf143b"),
  ("SlabID.AddressAsUint64", "48bc9ebd3cacda80"),
  ("SlabID.IndexAsUint64", "acb231e940e16bc4"),
  ("SlabIDStorable.ByteSize", "5d204f26f12c453b"),
  ("SlabIndexToLedgerKey", "ebecc4e08b30f420"),
  ("StorableSlab.ByteSize", "0e304ddabc75833a"),
  ("decodeTypeInfoRefIfNeeded", "e079234a6c490e49"),
  ("newArrayDataSlabFromData", "7e816a898d49501d"),
  ("newArrayDataSlabFromDataV0", "37d439abe10f9f10"),
  ("newArrayDataSlabFromDataV1", "721eaecf9b90095c"),
  ("newArrayExtraData", "54a14864503c1350"),
  ("newArrayExtraDataFromData", "6e76024d5e332988"),
  ("newArrayMetaDataSlabFromData", "47d412f3c4d5cc82"),
  ("newArrayMetaDataSlabFromDataV0", "40c0807b8d5927fa"),
  ("newArrayMetaDataSlabFromDataV1", "ff4f2368ae893c44"),
  ("newCompactMapExtraData", "d4ff64ef0076f9e6"),
  ("newElementFromData", "8b29fe48ca382030"),
  ("newElementsFromData", "b4218d69ceba35e3"),
  ("newExternalCollisionGroupFromData", "9ac1d6073fc2bc75"),
  ("newHeadFromData", "219aeecc7599a28b"),
  ("newInlineCollisionGroupFromData", "5c709783971c94db"),
  ("newInlinedExtraDataFromData", "743625a26f6bf8f1"),
  ("newMapDataSlabFromData", "d7d81744d6e507b4"),
  ("newMapDataSlabFromDataV0", "d9996a6a57d835d0"),
  ("newMapDataSlabFromDataV1", "8ba9af714f378409"),
  ("newMapExtraData", "c6a19576bd17a032"),
  ("newMapExtraDataFromData", "c1cae26b9233bd00"),
  ("newMapMetaDataSlabFromData", "31c921bc6e0f267b"),
  ("newMapMetaDataSlabFromDataV0", "2200cf1d0a40a970"),
  ("newMapMetaDataSlabFromDataV1", "02eca0d6484699dd"),
  ("newSingleElementFromData", "698172d9c5c8d643"),
  ("wrapErrorfAsExternalErrorIfNeeded", "dc4d3b43fdff404f")]

end Reviewed

/-- TransSt: (target, why: normalised Go text) of every statement / expression the engine left out or replaced by a table entry - as reviewed -/
theorem skipped_TransSt_pinned : Gen.TransCov.skipped_TransSt = Reviewed.skipped_TransSt := rfl

/-- TransSt: (target, call IN enclosing statement) of every call in a target that is not certainly a call of a translated target of the same unit, a builtin, a conversion or a library function translated by its specification - as reviewed -/
theorem envCalls_TransSt_pinned : Gen.TransCov.envCalls_TransSt = Reviewed.envCalls_TransSt := rfl

/-- TransSt: (function, AST hash as in SourceMap.json) of every function of package atree the unit relies on without translating it - as reviewed -/
theorem opaqueBodies_TransSt_pinned : Gen.TransCov.opaqueBodies_TransSt = Reviewed.opaqueBodies_TransSt := rfl

end Atree.TransCov
