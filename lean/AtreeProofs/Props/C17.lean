import AtreeProofs.Batch.ArrayInvBuild
import AtreeProofs.Batch.BytesProof
import AtreeProofs.Batch.CopyArray
import AtreeProofs.Batch.CopyMap
import AtreeProofs.Batch.MapContent
import AtreeProofs.Batch.MapBuild
import AtreeProofs.Batch.MapInvBuild
/-
  C17 — Bulk build, copy and byte conversion give equivalent, valid, independent values.
  PROPERTY THEOREMS about the transcriptions in `AtreeModel/Array/Batch.lean`,
  `AtreeModel/Map/Batch.lean`, `AtreeModel/Bytes.lean` (tied to the Go code by the `batch` stream).
  For an ARBITRARY legal threshold `T` (256 … 32768), arbitrary input lists, arbitrary element
  sizes (large values are externalised), arbitrary tree depth.
-/
namespace Atree.C17
open Atree Gen

/-- What a value becomes when stored by the bulk build under storage context `c`: itself if it
    fits, a reference to a fresh large-value slab otherwise (`Value.Storable`). -/
def storedForm (T addr : Nat) (v : Elem) (c : Ctx) : Elem := (toStorable T addr v c).1

/-! ## Bulk build of arrays (`NewArrayFromBatchData`) -/

/-- The build never fails, and the array holds — in input order — the stored form of every input
    value, for every input list (any length, any sizes) and every legal threshold.  `cs` are the
    storage contexts in which the successive values were turned into storables. -/
theorem batch_array_content (T addr ty : Nat) (hT : legalThreshold T = true) (vs : List Elem) (c : Ctx) :
    ∃ a c' cs, Arr.fromBatchData T addr ty vs c = .ok (a, c') ∧ cs.length = vs.length ∧
      a.toList = List.zipWith (storedForm T addr) vs cs ∧ a.ty = ty :=
  newWith_content T addr ty hT (toStorable T addr) vs c

/-- Values that fit the inline limit are stored as they are: the array content IS the input. -/
theorem batch_array_content_inline (T addr ty : Nat) (hT : legalThreshold T = true) (vs : List Elem) (c : Ctx)
    (hfit : ∀ v ∈ vs, v.size ≤ maxInlineArr T) :
    ∃ a c', Arr.fromBatchData T addr ty vs c = .ok (a, c') ∧ a.toList = vs := by
  obtain ⟨a, c', cs, h1, h2, h3, _⟩ := batch_array_content T addr ty hT vs c
  refine ⟨a, c', h1, ?_⟩
  rw [h3]
  clear h1 h3
  induction vs generalizing cs with
  | nil => simp
  | cons v vs ih =>
    cases cs with
    | nil => simp at h2
    | cons c0 cs =>
      have hv := hfit v (by simp)
      have : storedForm T addr v c0 = v := by
        unfold storedForm toStorable
        cases hp : v.pay with
        | ref id => simp
        | val n => simp only; rw [if_neg (by omega)]
      simp only [List.zipWith_cons_cons, this]
      rw [ih (fun x hx => hfit x (by simp [hx])) cs (by simpa using h2)]

/-- The result satisfies the array invariant `ArrInv` — the same invariant single operations
    maintain (size bands of every slab at every level including the tail `LendToRight`-or-`Merge`
    step, header copies and cumulative counts of index slabs, sibling links, distinct slab IDs
    below the allocation counter) — for every list of values (size ≥ 1, any size) and every legal
    threshold.  (`NewArrayFromBatchData` does not check the element-count limit; the bound on the
    input length is the hypothesis under which the `uint32` count cannot overflow.) -/
theorem batch_array_inv (T addr ty : Nat) (hT : legalThreshold T = true) (vs : List Elem) (c : Ctx)
    (hvs : ∀ v ∈ vs, ValueOk v) (hlen : vs.length ≤ maxArrayElementCount) :
    ∃ a c', Arr.fromBatchData T addr ty vs c = .ok (a, c') ∧ ArrInv T a c'.ctr ∧ a.addr = addr ∧
      a.ty = ty ∧ a.count = vs.length := by
  obtain ⟨a, c', h1, hb, hto, hty, _⟩ := newWith_inv hT addr ty ValueOk (toStorable T addr)
    (toStorable_toStOk T addr hT) vs hvs (by omega) c
  refine ⟨a, c', h1, hb.inv, hb.addr_eq, hty, ?_⟩
  have hcnt : a.count = a.toList.length := by
    obtain ⟨d, t, ty'⟩ := a
    exact (hb.inv.shape).count_eq_length
  rw [hcnt, hto, List.length_zipWith, fillCtxs_length]
  simp

/-- `result_ids_fresh` for the bulk build: every slab ID of the result was allocated during the
    call (owner address `addr`, index above the counter before the call and at most the counter
    after it) — hence the result shares no slab with anything that existed before. -/
theorem batch_array_ids_fresh (T addr ty : Nat) (hT : legalThreshold T = true) (vs : List Elem) (c : Ctx)
    (hvs : ∀ v ∈ vs, ValueOk v) (hlen : vs.length ≤ maxArrayElementCount)
    (a : Arr) (c' : Ctx) (h : Arr.fromBatchData T addr ty vs c = .ok (a, c')) :
    ∀ id ∈ ATree.slabIds a.d a.root, id.addr = addr ∧ c.ctr < id.idx ∧ id.idx ≤ c'.ctr := by
  obtain ⟨a1, c1, h1, hb, _⟩ := newWith_inv hT addr ty ValueOk (toStorable T addr)
    (toStorable_toStOk T addr hT) vs hvs (by omega) c
  have : Arr.fromBatchData T addr ty vs c = ABatch.newWith T addr ty (toStorable T addr) vs c := rfl
  rw [this, h1] at h
  simp only [Except.ok.injEq, Prod.mk.injEq] at h
  obtain ⟨e1, e2⟩ := h
  subst e1 e2
  exact hb.fresh

/-! ## Bulk build of maps (`NewMapFromBatchData`) -/

/-- If the build succeeds: the seed is the caller's (non-zero) seed, type and count are recorded,
    the count is the number of input pairs, the input was sorted by first-level digest, and the
    pair sequence of the map is the one accumulated by the element loop. -/
theorem batch_map_seed_count_order {r : Nat} (cfg : MCfg) (ty seed : Nat) (kvs : List (MKey × Elem)) (c : Ctx)
    (m : OMap r) (c' : Ctx) (h : OMap.fromBatchData cfg ty seed kvs c = .ok (m, c')) :
    seed ≠ 0 ∧ m.seed = seed ∧ m.ty = ty ∧ m.count = kvs.length ∧
      (kvs.map (fun p => p.1.dig 0)).Pairwise (· ≤ ·) := by
  obtain ⟨a, b, c1, d, e, _⟩ := fromBatchData_ok_facts cfg ty seed kvs c m c' h
  exact ⟨a, b, c1, d, e⟩

/-- A stream that is not sorted by first-level digest is rejected. -/
theorem batch_rejects_unsorted {r : Nat} (cfg : MCfg) (ty seed : Nat) (kvs : List (MKey × Elem)) (c : Ctx)
    (hns : ¬ (kvs.map (fun p => p.1.dig 0)).Pairwise (· ≤ ·)) :
    ∃ e c', (OMap.fromBatchData cfg ty seed kvs c : BRes (OMap r × Ctx)) = .error (e, c') :=
  fromBatchData_rejects_unsorted cfg ty seed kvs c hns

/-- The uninitialised seed is rejected before any storage call. -/
theorem batch_rejects_seed0 {r : Nat} (cfg : MCfg) (ty : Nat) (kvs : List (MKey × Elem)) (c : Ctx) :
    (OMap.fromBatchData cfg ty 0 kvs c : BRes (OMap r × Ctx)) = .error (.seedUninitialized, c) :=
  fromBatchData_rejects_seed0 cfg ty kvs c

/-- Without first-level digest collisions (strictly increasing first-level digests) the pair
    sequence of the result IS the input sequence — same pairs, same order — with every value in
    its stored form (`cs` = the storage contexts of the successive `Value.Storable` calls). -/
theorem batch_map_content_nocollision {r : Nat} (cfg : MCfg) (ty seed : Nat) (kvs : List (MKey × Elem))
    (c : Ctx) (hs : (kvs.map (fun p => p.1.dig 0)).Pairwise (· < ·))
    (m : OMap r) (c' : Ctx) (h : OMap.fromBatchData cfg ty seed kvs c = .ok (m, c')) :
    ∃ cs : List Ctx, cs.length = kvs.length ∧
      m.toList = List.zipWith (fun p c => (p.1, storedValue cfg p.1 p.2 c)) kvs cs := by
  obtain ⟨_, _, _, _, _, st, cf, hfill, hto⟩ := fromBatchData_ok_facts cfg ty seed kvs c m c' h
  obtain ⟨st', cf', hfill', hpairs⟩ := fillLoop_nocollision cfg kvs hs
    ({ id := (c.alloc cfg.addr).1, elements := MBatch.emptyElems r, slabs := [], count := 0, prevHkey := 0 } : MBatch.FillState r)
    (c.alloc cfg.addr).2 (by intro p _; left; rfl) (by intro p _; simp)
  rw [hfill] at hfill'
  simp only [Except.ok.injEq, Prod.mk.injEq] at hfill'
  obtain ⟨e1, _⟩ := hfill'
  subst e1
  refine ⟨appendCtxs cfg kvs
    ({ id := (c.alloc cfg.addr).1, elements := MBatch.emptyElems r, slabs := [], count := 0, prevHkey := 0 } : MBatch.FillState r)
    (c.alloc cfg.addr).2, appendCtxs_length cfg kvs _ _, ?_⟩
  rw [hto, hpairs]
  simp [fillPairs, MBatch.emptyElems, HkeyElems.toList]

/-- With collisions at any level (any digest assignment `D`, keys within the key limit, plain
    values of any size): if the build succeeds then the input keys were pairwise different, the
    pairs of the result are exactly the input pairs with values in stored form — as a multiset; the
    order inside a first-level collision group follows the deeper digests — and the keys of the
    result are pairwise different. -/
theorem batch_map_content {T r : Nat} (D : DigestFn (r + 1)) (hT : legalThreshold T = true) (cfg : MCfg)
    (hcT : cfg.T = T) (hcL : cfg.L = r + 1) (ty seed : Nat) (kvs : List (MKey × Elem))
    (hkv : ∀ p ∈ kvs, KeyOk T (r + 1) D p.1 ∧ ValueOkM p.2) (c : Ctx)
    (m : OMap r) (c' : Ctx) (h : OMap.fromBatchData cfg ty seed kvs c = .ok (m, c')) :
    KeysDistinct kvs ∧
    (∃ cs : List Ctx, cs.length = kvs.length ∧
      m.toList.Perm (List.zipWith (fun p c => (p.1, storedValue cfg p.1 p.2 c)) kvs cs)) ∧
    KeysDistinct m.toList :=
  fromBatchData_sound hT ⟨hcT, hcL⟩ ty seed kvs hkv c m c' h

/-- A stream in which a key occurs twice — adjacent or not, at whatever collision level — is
    rejected. -/
theorem batch_rejects_duplicates {T r : Nat} (D : DigestFn (r + 1)) (hT : legalThreshold T = true)
    (cfg : MCfg) (hcT : cfg.T = T) (hcL : cfg.L = r + 1) (ty seed : Nat) (kvs : List (MKey × Elem))
    (hkv : ∀ p ∈ kvs, KeyOk T (r + 1) D p.1 ∧ ValueOkM p.2) (c : Ctx) (hdup : ¬ KeysDistinct kvs) :
    ∃ e c', (OMap.fromBatchData cfg ty seed kvs c : BRes (OMap r × Ctx)) = .error (e, c') :=
  fromBatchData_rejects_duplicates hT ⟨hcT, hcL⟩ ty seed kvs hkv c hdup

/-- No spurious rejection: the element loop accepts every stream that is sorted by first-level
    digest and has pairwise different keys. -/
theorem batch_map_loop_accepts {T r : Nat} (D : DigestFn (r + 1)) (hT : legalThreshold T = true)
    (cfg : MCfg) (hcT : cfg.T = T) (hcL : cfg.L = r + 1) (kvs : List (MKey × Elem))
    (hkv : ∀ p ∈ kvs, KeyOk T (r + 1) D p.1 ∧ ValueOkM p.2)
    (hs : (kvs.map (fun p => p.1.dig 0)).Pairwise (· ≤ ·)) (hd : KeysDistinct kvs) (id : SlabID)
    (hid : id.addr = cfg.addr) (c : Ctx) :
    ∃ st c', MBatch.fillLoop cfg kvs
      ({ id := id, elements := MBatch.emptyElems r, slabs := [], count := 0, prevHkey := 0 } : MBatch.FillState r) c
        = .ok (st, c') := by
  obtain ⟨st, c', h, _⟩ := fillLoop_complete (D := D) hT ⟨hcT, hcL⟩ kvs hkv hs hd id hid c
  exact ⟨st, c', h⟩

/-- `batch_map_inv`: for every legal threshold, every digest assignment `D`, every stream of pairs
    that is sorted by first-level digest and has pairwise different keys (keys within the key
    limit, plain values of any size ≥ 1), and every non-zero seed, `NewMapFromBatchData` SUCCEEDS
    and its result satisfies the map invariant `MapInv` — element tables valid at every collision
    level, every data and index slab within the size band including the tail
    `LendToRight`-or-`Merge` step at every level, first keys and digest order of the index slabs,
    sibling links, count and key distinctness — keeps the seed, records type and count, and holds
    exactly the input pairs with values in stored form. -/
theorem batch_map_inv {T r : Nat} (D : DigestFn (r + 1)) (hT : legalThreshold T = true)
    (cfg : MCfg) (hcT : cfg.T = T) (hcL : cfg.L = r + 1) (ty seed : Nat) (hseed : seed ≠ 0)
    (kvs : List (MKey × Elem)) (hkv : ∀ p ∈ kvs, KeyOk T (r + 1) D p.1 ∧ ValueOkM p.2)
    (hs : (kvs.map (fun p => p.1.dig 0)).Pairwise (· ≤ ·)) (hd : KeysDistinct kvs) (c : Ctx) :
    ∃ (m : OMap r) (c' : Ctx), OMap.fromBatchData cfg ty seed kvs c = .ok (m, c') ∧ MapInv T D m ∧
      m.seed = seed ∧ m.ty = ty ∧ m.count = kvs.length ∧
      ∃ cs : List Ctx, cs.length = kvs.length ∧
        m.toList.Perm (List.zipWith (fun p c => (p.1, storedValue cfg p.1 p.2 c)) kvs cs) :=
  fromBatchData_inv hT ⟨hcT, hcL⟩ ty seed hseed kvs hkv hs hd c

/-! ## Copy (`CanCopyNonRefSimple` / `CopyNonRefSimple`) -/

/-- Arrays: the copy is offered exactly when the array is a single data slab with no right sibling
    whose elements are all plain (non-reference) values. -/
theorem can_copy_iff_array (a : Arr) :
    a.canCopyNonRefSimple = true ↔
      ∃ s, a.singleData = some s ∧ s.next = SlabID.undef ∧ ∀ e ∈ s.elems, e.isPlain :=
  Arr.canCopy_iff a

/-- Maps: the copy is offered exactly when the map is a single data slab with no right sibling,
    every key and value — through inline collision groups at every level — is a plain value, and
    there is no external collision group (`MElems.plain`, see `MElems.plain_iff`). -/
theorem can_copy_iff_map {r : Nat} (m : OMap r) :
    m.canCopyNonRefSimple = true ↔
      ∃ s, m.singleData = some s ∧ s.next = SlabID.undef ∧ MElems.plain (r + 1) s.elems :=
  OMap.canCopy_iff m

/-- `MElems.plain` spelled out: no external group anywhere, and every value is a plain value. -/
theorem plain_iff_values {r : Nat} (e : MElems r) :
    MElems.plain r e ↔ (MElems.noExt r e ∧ ∀ p ∈ (MElems.ops r).toList e, p.2.isPlain) :=
  MElems.plain_iff r e

/-- An offered copy succeeds, and a copy succeeds only when it is offered (arrays). -/
theorem copy_succeeds_when_offered_array (a : Arr) (addr : Nat) (c : Ctx) :
    (∃ a' c', a.copyNonRefSimple addr c = .ok (a', c')) ↔ a.canCopyNonRefSimple = true :=
  Arr.copy_ok_iff a addr c

/-- An offered copy succeeds, and a copy succeeds only when it is offered (maps). -/
theorem copy_succeeds_when_offered_map {r : Nat} (m : OMap r) (addr : Nat) (c : Ctx) :
    (∃ m' c', m.copyNonRefSimple addr c = .ok (m', c')) ↔ m.canCopyNonRefSimple = true :=
  OMap.copy_ok_iff m addr c

/-- The copy of an array has the elements (in order), the type and the count of the source and is
    a standalone single slab. -/
theorem copy_content_eq_array (a : Arr) (addr : Nat) (c : Ctx) (a' : Arr) (c' : Ctx)
    (h : a.copyNonRefSimple addr c = .ok (a', c')) :
    a'.toList = a.toList ∧ a'.ty = a.ty ∧ a'.count = a.count ∧ a'.isInlined = false := by
  obtain ⟨h1, h2, h3, h4, _⟩ := Arr.copy_content a addr c a' c' h
  exact ⟨h1, h2, h3, h4⟩

/-- The copy of a map has the pairs (in order), the type, the count and the SEED of the source and
    is a standalone single slab. -/
theorem copy_content_eq_map {r : Nat} (m : OMap r) (addr : Nat) (c : Ctx) (m' : OMap r) (c' : Ctx)
    (h : m.copyNonRefSimple addr c = .ok (m', c')) :
    m'.toList = m.toList ∧ m'.ty = m.ty ∧ m'.count = m.count ∧ m'.seed = m.seed ∧ m'.isInlined = false := by
  obtain ⟨h1, h2, h3, h4, h5, _⟩ := OMap.copy_content m addr c m' c' h
  exact ⟨h1, h2, h3, h4, h5⟩

/-- The size of the copy is root prefix + Σ element sizes — also when the source is inlined
    (its size is then based on the inlined prefix). -/
theorem copy_size_rebased_array (a : Arr) (addr : Nat) (c : Ctx) (a' : Arr) (c' : Ctx)
    (h : a.copyNonRefSimple addr c = .ok (a', c')) (s : DataSlab) (hs : a.singleData = some s)
    (hsz : s.hdr.size = s.prefixSize + sumSizes s.elems) (hroot : s.root = true) :
    a'.rootHdr.size = arrayRootDataSlabPrefixSize + sumSizes a'.toList :=
  Arr.copy_size_rebased a addr c a' c' h s hs hsz hroot

theorem copy_size_rebased_map {r : Nat} (m : OMap r) (addr : Nat) (c : Ctx) (m' : OMap r) (c' : Ctx)
    (h : m.copyNonRefSimple addr c = .ok (m', c')) (s : MDataSlab r) (hs : m.singleData = some s)
    (hsz : s.hdr.size = s.prefixSize + s.elems.size) (hroot : s.root = true) :
    ∃ s', m'.singleData = some s' ∧ s'.hdr.size = mapRootDataSlabPrefixSize + s'.elems.size ∧
      s'.elems = s.elems :=
  OMap.copy_size_rebased m addr c m' c' h s hs hsz hroot

/-- The copy of a valid root data slab — standalone or inlined — is a valid standalone array. -/
theorem copy_inv_array (T : Nat) (a : Arr) (addr : Nat) (c : Ctx) (a' : Arr) (c' : Ctx)
    (h : a.copyNonRefSimple addr c = .ok (a', c')) (s : DataSlab) (hs : a.singleData = some s)
    (hinv : DataInv T true s) (hcnt : s.hdr.count < maxArrayElementCount + 1) : ArrInv T a' c'.ctr :=
  Arr.copy_inv T a addr c a' c' h s hs hinv hcnt

theorem copy_inv_map {r : Nat} (T : Nat) (D : DigestFn (r + 1)) (m : OMap r) (addr : Nat) (c : Ctx)
    (m' : OMap r) (c' : Ctx) (h : m.copyNonRefSimple addr c = .ok (m', c'))
    (s : MDataSlab r) (hs : m.singleData = some s) (hinv : MDataInv T D true s)
    (hcount : m.count = m.toList.length) (hdist : KeysDistinct m.toList) : MapInv T D m' :=
  OMap.copy_inv T D m addr c m' c' h s hs hinv hcount hdist

/-- `result_ids_fresh` (array copy): the copy's only slab ID was allocated during the call; source
    and copy share no slab. -/
theorem result_ids_fresh_array_copy (a : Arr) (addr : Nat) (c : Ctx) (a' : Arr) (c' : Ctx)
    (h : a.copyNonRefSimple addr c = .ok (a', c'))
    (hold : ∀ id ∈ ATree.slabIds a.d a.root, id.addr = addr → id.idx ≤ c.ctr) :
    (∀ id ∈ ATree.slabIds a'.d a'.root, id.addr = addr ∧ c.ctr < id.idx ∧ id.idx ≤ c'.ctr) ∧
    (∀ id ∈ ATree.slabIds a'.d a'.root, id ∉ ATree.slabIds a.d a.root) :=
  Arr.copy_ids_fresh a addr c a' c' h hold

/-- `result_ids_fresh` (map copy): the copy is one slab (no external collision group) whose ID was
    allocated during the call and differs from every ID in use before. -/
theorem result_ids_fresh_map_copy {r : Nat} (m : OMap r) (addr : Nat) (c : Ctx) (m' : OMap r) (c' : Ctx)
    (h : m.copyNonRefSimple addr c = .ok (m', c')) (used : List SlabID)
    (hold : ∀ id ∈ used, id.addr = addr → id.idx ≤ c.ctr) :
    m'.rootID.addr = addr ∧ c.ctr < m'.rootID.idx ∧ m'.rootID.idx ≤ c'.ctr ∧ m'.rootID ∉ used ∧
      ∃ s', m'.singleData = some s' ∧ MElems.noExt (r + 1) s'.elems :=
  OMap.copy_ids_fresh m addr c m' c' h used hold

/-! ## Byte conversion -/

/-- `ByteArrayToByteSlice (ByteSliceToByteArray bs) = bs`, and the intermediate array is valid and
    holds one element per byte — for every legal threshold, every byte list, every size estimate
    (fast path and `NewArrayFromBatchData` fallback), every byte-element size function within the
    inline limit.  `isT` is the type assertion `e.(T)` of `ByteArrayToByteSlice` (the dynamic Go
    type of an element is not part of a model element): every `T(b)` passes it. -/
theorem bytes_roundtrip (T addr ty est : Nat) (hT : legalThreshold T = true) (bsize : Nat → Nat)
    (isT : Elem → Bool) (hisT : ∀ b, isT (Bytes.byteElem bsize b) = true)
    (bs : List Nat) (hb : ∀ b ∈ bs, 1 ≤ bsize b ∧ bsize b ≤ maxInlineArr T)
    (hlen : bs.length ≤ maxArrayElementCount) (c : Ctx) :
    ∃ a c', Bytes.byteSliceToByteArray T addr ty bsize bs est c = .ok (a, c') ∧
      Bytes.byteArrayToByteSlice isT a = .ok bs ∧ ArrInv T a c'.ctr ∧
      a.toList = bs.map (Bytes.byteElem bsize) := by
  obtain ⟨a, c', h1, h2, h3, _, h5⟩ := bytes_roundtrip_full hT addr ty est bsize isT hisT bs hb (by omega) c
  exact ⟨a, c', h1, h5, h2, h3⟩

end Atree.C17
