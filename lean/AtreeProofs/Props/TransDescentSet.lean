import AtreeProofs.Props.TransDescentGet
import AtreeProofs.Props.TransDescentRoute
import AtreeProofs.Props.TransSlabsDecide
import AtreeProofs.Props.TransSafe
import AtreeProofs.Array.TreeOps
import AtreeProofs.Array.EffectsTree
/-
  TRANSLATION EQUIVALENCE, the DESCENT (WP12), part 3: `ArrayMetaDataSlab.Set` / `ArraySlab.Set` over a HEAP.

  The generated `ArrayMetaDataSlab_Set` (Gen/TransSlabs.lean, regenerated from array_metadata_slab.go on every run) routes
  the index (`childSlabIndexInfo`), reads the child from the storage (`getArraySlab`), calls `Set` on it through dynamic
  dispatch (recursion on a depth argument), overwrites the header copy of the child, and then runs the TAIL:
  `SplitChildSlab` if the updated child is full, `MergeOrRebalanceChildSlab` if it underflows, `storeSlab(a)` otherwise.
  Over the heap environment `envH T` (Trans/Descent.lean), on a heap that HOLDS a valid model tree, it returns what the
  model's `ATree.set` returns on the embedded tree - old element, new tree (as `trTree`), `Ctx` - and the heap after it
  satisfies `HeapPost` (holds the new tree, slabs that left the tree are gone, everything else untouched).

  * `Sl_ArrayDataSlab_Set_envH`: the leaf over the heap (port of `Sl_ArrayDataSlab_Set_eq_model`).
  * `metaSet_step`: the generated function after a successful child operation, for ANY environment.
  * `SetTailPre`: what is known when the tail runs; `SetTailOk`: the tail does what the model's `afterSet` does;
    `SetTailsOn`: `SetTailPre → SetTailOk` at every index slab on the path (the HYPOTHESIS about the tails);
    `setTailOk_plain`: the plain-store tail, PROVED; `SplitTailHyp` / `MorTailHyp`: the statements about
    `SplitChildSlab` / `MergeOrRebalanceChildSlab` (proved in other files) and `setTailsOn_of_hyps`;
    `NoRestructure` and `setTailsOn_of_noRestructure`.
  * `SetDisp` / `SetMeta`, `setDisp_zero`, `setMeta_of_disp`, `setDisp_succ`, `setDisp_all`: the induction.
  * `Sl_ArraySlab_Set_heap`, `Sl_ArrayMetaDataSlab_Set_heap`, `Sl_ArraySlab_Set_heap_of_tails`,
    `Sl_ArraySlab_Set_heap_noRestructure` (unconditional), `Sl_ArraySlab_Set_heap_rootData` (unconditional),
    `Sl_ArrayMetaDataSlab_Set_depth0`.
  ADDED HYPOTHESIS `FreshFree addr s`: no slab is stored under an identifier of the owner address above the allocation
  counter.  It is what makes the FRAME clause of `HeapPost` compose (see `HeapPost.parent`): an identifier that the
  child operation allocated and that the tail dropped again is not in the final heap, so it must not have been in the
  initial one.  It is preserved (`FreshFree.post`).
  Core Lean only.
-/
namespace Atree.TransEq
open Atree Atree.Gen

/-- the size loop of `ArrayDataSlab.Set` over the heap environment -/
theorem Sl_Set_loop1_envH (T : Nat) (l : List Elem) (z : Nat) :
    TransSl.ArrayDataSlab_Set.loop1 (envH T) (l.map some) (u32 z) = .done (u32 (z + sumSizes l)) := by
  induction l generalizing z with
  | nil => simp [TransSl.ArrayDataSlab_Set.loop1, sumSizes_nil]
  | cons e t ih =>
    simp only [List.map_cons, TransSl.ArrayDataSlab_Set.loop1, envH_byteSize, u32_add', ih, sumSizes_cons,
      Nat.add_assoc]

theorem setH_storeSlab_data (T : Nat) (s : HSt) (a : GData) :
    TransSl.storeSlab (envH T) s (some (.dataSlab a)) = some (none, s.store a.header.slabID (some (.dataSlab a))) := by
  rw [storeSlab_envH]; rfl

theorem setH_storeSlab_meta (T : Nat) (s : HSt) (a : GMeta) :
    TransSl.storeSlab (envH T) s (some (.metaSlab a)) = some (none, s.store a.header.slabID (some (.metaSlab a))) := by
  rw [storeSlab_envH]; rfl

/-- the storage after the leaf `Set` -/
def dataSetSt (T : Nat) (sl sl' : DataSlab) (v : Elem) (s : HSt) : HSt :=
  let s1 := s.withCtx (toStorable T sl.hdr.id.addr v s.ctx).2
  if sl.inlined then s1 else s1.store sl.hdr.id (some (.dataSlab (trData sl')))

/-- **`ArrayDataSlab.Set` over the heap** (port of `Sl_ArrayDataSlab_Set_eq_model`): the model's `DataSlab.set`; the
    storage afterwards is `dataSetSt`: the `Ctx` after `toStorable`, and - for a slab that is not inlined - the NEW slab
    stored under its identifier (one `store` effect) -/
theorem Sl_ArrayDataSlab_Set_envH (T : Nat) (sl : DataSlab) (i : Nat) (v : Elem) (s : HSt)
    (hi : i < 2^64) (hlen : sl.elems.length < 2^63) (hmax : maxInlineArr T < 2^32) :
    TransSl.ArrayDataSlab_Set (envH T) (trData sl) s sl.hdr.id.addr (u64 i) (some v) =
      match sl.set T i v s.ctx with
      | .error e => some (none, some e, trData sl, s)
      | .ok (old, sl', _) => some (some old, none, trData sl', dataSetSt T sl sl' v s) := by
  have hidx : (u64 i).toNat = i := u64_toNat hi
  simp only [TransSl.ArrayDataSlab_Set, DataSlab.set, trData_elements, List.length_map, u64_len,
    u64_dge hi (show sl.elems.length < 2^64 by omega), hidx, goIdx_map_some, envH_ioob]
  by_cases hge : i ≥ sl.elems.length
  · simp [hge]
  · have hlt : i < sl.elems.length := by omega
    have hget : sl.elems[i]? = some sl.elems[i] := List.getElem?_eq_getElem hlt
    simp only [hge, decide_false, Bool.false_eq_true, if_false, hget, Option.map_some,
      envH_storable, envH_maxInline, u32_toNat hmax, toStorableMax_eq, Option.isSome_none, goSet_ofNat,
      List.length_map, hlt, if_true, envH_wrap]
    generalize hts : toStorable T sl.hdr.id.addr v s.ctx = ts
    obtain ⟨e, c'⟩ := ts
    have hmap : (sl.elems.map some).set i (some e) = (sl.elems.set i e).map some := by
      rw [List.map_set]
    simp only [Sl_getPrefixSize_eq, trData_inlined, trData_extraData, trExtra_isSome, Sl_gPrefix_eq, hmap,
      Sl_Set_loop1_envH, setH_storeSlab_data, trData_header, trHdr_slabID,
      Option.isSome_none, Bool.false_eq_true, if_false, dataSetSt, hts]
    cases hin : sl.inlined <;> simp [trData, trHdr]


theorem setH_Header (T d : Nat) (t : ATree d) :
    TransSl.ArraySlab_Header (envH T) (trTree d t) = trHdr (ATree.hdr d t) := by
  cases d <;> rfl

theorem setH_IsFull (T d : Nat) (t : ATree d) (hs : (ATree.hdr d t).size < 2^32) (hT : maxThr T < 2^32) :
    TransSl.ArraySlab_IsFull (envH T) (trTree d t) = ATree.isFull T d t := by
  cases d with
  | zero => exact Sl_ArrayDataSlab_IsFull T (fun _ => none) t hs hT
  | succ d => exact Sl_ArrayMetaDataSlab_IsFull T (fun _ => none) (t : MetaSlab (ATree d)) hs hT

theorem setH_IsUnderflow (T d : Nat) (t : ATree d) (hs : (ATree.hdr d t).size < 2^32) (hT : minThr T < 2^32) :
    TransSl.ArraySlab_IsUnderflow (envH T) (trTree d t) =
      (match ATree.isUnderflow T d t with | some n => (u32 n, true) | none => (0, false)) := by
  cases d with
  | zero => exact Sl_ArrayDataSlab_IsUnderflow T (fun _ => none) t hs hT
  | succ d => exact Sl_ArrayMetaDataSlab_IsUnderflow T (fun _ => none) (t : MetaSlab (ATree d)) hs hT


section
variable {σ υ ξ ε S Φ : Type}

/-- `ArrayMetaDataSlab.Set` after a successful child operation: the bookkeeping and the three-way tail -/
theorem metaSet_step (env : TransSl.Env σ υ ξ ε S Φ) (depth : Nat) (a : TransSl.ArrayMetaDataSlab ξ) (s s1 : S)
    (addr : Nat) (idx adj : UInt64) (val : Option υ) (k : Int) (cid : SlabID)
    (child child1 : TransSl.ArraySlabV σ ξ) (old : Option σ) (l6 : List TransSl.ArraySlabHeader)
    (h1 : env.ArrayMetaDataSlab_childSlabIndexInfo a idx = (k, adj, cid, none))
    (h2 : env.getArraySlab s cid = (some child, none, s))
    (h3 : TransSl.ArraySlab_Set env (TransSl.ArrayMetaDataSlab_Set env depth) child s addr adj val =
      some (old, none, child1, s1))
    (h4 : TransSl.goSet a.childrenHeaders k (TransSl.ArraySlab_Header env child1) = some l6) :
    TransSl.ArrayMetaDataSlab_Set env (depth + 1) a s addr idx val =
      if TransSl.ArraySlab_IsFull env child1 then
        (TransSl.ArrayMetaDataSlab_SplitChildSlab env { a with childrenHeaders := l6 } s1 (some child1) k).map
          (fun r => if r.1.isSome then (none, r.1, r.2.1, r.2.2.1) else (old, none, r.2.1, r.2.2.1))
      else if (TransSl.ArraySlab_IsUnderflow env child1).2 then
        (TransSl.ArrayMetaDataSlab_MergeOrRebalanceChildSlab env { a with childrenHeaders := l6 } s1
            (some child1) k (TransSl.ArraySlab_IsUnderflow env child1).1).map
          (fun r => if r.1.isSome then (none, r.1, r.2.1, r.2.2.1) else (old, none, r.2.1, r.2.2.1))
      else
        (TransSl.storeSlab env s1 (some (.metaSlab { a with childrenHeaders := l6 }))).map
          (fun r => if r.1.isSome then (none, r.1, { a with childrenHeaders := l6 }, r.2)
                    else (old, none, { a with childrenHeaders := l6 }, r.2)) := by
  simp only [TransSl.ArrayMetaDataSlab_Set, h1, h2, h3, h4, Option.isSome_none, Bool.false_eq_true, if_false]
  split
  · generalize TransSl.ArrayMetaDataSlab_SplitChildSlab env _ s1 (some child1) k = x
    cases x with
    | none => rfl
    | some r => by_cases h : r.1.isSome = true <;> simp [h]
  · split
    · generalize TransSl.ArrayMetaDataSlab_MergeOrRebalanceChildSlab env _ s1 (some child1) k _ = x
      cases x with
      | none => rfl
      | some r => by_cases h : r.1.isSome = true <;> simp [h]
    · generalize TransSl.storeSlab env s1 _ = x
      cases x with
      | none => rfl
      | some r => by_cases h : r.1.isSome = true <;> simp [h]
end

/-- identifiers of the owner address that the allocation counter has not reached yet are not in the heap -/
def FreshFree (addr : Nat) (s : HSt) : Prop :=
  ∀ id : SlabID, id.addr = addr → s.ctx.ctr < id.idx → s.heap id = none

theorem FreshFree.post {addr : Nat} {s s' : HSt} {d d' : Nat} {t : ATree d} {t' : ATree d'}
    (hf : FreshFree addr s) (hp : HeapPost s.heap s'.heap t t')
    (hids : IdsOk addr s.ctx.ctr (ATree.slabIds d t)) (hids' : IdsOk addr s'.ctx.ctr (ATree.slabIds d' t'))
    (hle : s.ctx.ctr ≤ s'.ctx.ctr) : FreshFree addr s' := by
  intro id ha hlt
  have h1 : id ∉ ATree.slabIds d t := fun h => by have := (hids.2 id h).2.2; omega
  have h2 : id ∉ ATree.slabIds d' t' := fun h => by have := (hids'.2 id h).2.2; omega
  rw [hp.frame id h1 h2]
  exact hf id ha (by omega)

section
open ATree MetaSlab
variable {d : Nat}

/-- composition of the child's heap post-condition with the tail's -/
theorem HeapPost.parent {h h1 h2 : SlabID → Option GSlab} {m m1 m2 : MetaSlab (ATree d)} {A B : List (ATree d)}
    {child child' : ATree d}
    (hch : m.children = A ++ child :: B) (hch1 : m1.children = A ++ child' :: B) (hid : m1.hdr.id = m.hdr.id)
    (hfresh : ∀ id ∈ slabIds d child', id ∉ slabIds d child → h id = none)
    (p1 : HeapPost h h1 child child') (p2 : HeapPost h1 h2 (ofMeta m1) (ofMeta m2)) :
    HeapPost h h2 (ofMeta m) (ofMeta m2) := by
  have hm : ∀ id, id ∈ slabIds (d + 1) (ofMeta m) ↔
      id = m.hdr.id ∨ id ∈ A.flatMap (slabIds d) ∨ id ∈ slabIds d child ∨ id ∈ B.flatMap (slabIds d) := by
    intro id; rw [slabIds_succ, hch]; simp [List.flatMap_append]
  have hm1 : ∀ id, id ∈ slabIds (d + 1) (ofMeta m1) ↔
      id = m.hdr.id ∨ id ∈ A.flatMap (slabIds d) ∨ id ∈ slabIds d child' ∨ id ∈ B.flatMap (slabIds d) := by
    intro id; rw [slabIds_succ, hch1, hid]; simp [List.flatMap_append]
  refine ⟨p2.holds, ?_, ?_⟩
  · intro id hin hnot
    by_cases h1m : id ∈ slabIds (d + 1) (ofMeta m1)
    · exact p2.gone id h1m hnot
    · have hc : id ∈ slabIds d child := by
        rcases (hm id).1 hin with h | h | h | h
        · exact absurd ((hm1 id).2 (Or.inl h)) h1m
        · exact absurd ((hm1 id).2 (Or.inr (Or.inl h))) h1m
        · exact h
        · exact absurd ((hm1 id).2 (Or.inr (Or.inr (Or.inr h)))) h1m
      have hc' : id ∉ slabIds d child' := fun h => h1m ((hm1 id).2 (Or.inr (Or.inr (Or.inl h))))
      rw [p2.frame id h1m hnot]
      exact p1.gone id hc hc'
  · intro id hnin hnot
    by_cases h1m : id ∈ slabIds (d + 1) (ofMeta m1)
    · have hc' : id ∈ slabIds d child' := by
        rcases (hm1 id).1 h1m with h | h | h | h
        · exact absurd ((hm id).2 (Or.inl h)) hnin
        · exact absurd ((hm id).2 (Or.inr (Or.inl h))) hnin
        · exact h
        · exact absurd ((hm id).2 (Or.inr (Or.inr (Or.inr h)))) hnin
      have hc : id ∉ slabIds d child := fun h => hnin ((hm id).2 (Or.inr (Or.inr (Or.inl h))))
      rw [p2.gone id h1m hnot, hfresh id hc' hc]
    · have hc : id ∉ slabIds d child := fun h => hnin ((hm id).2 (Or.inr (Or.inr (Or.inl h))))
      have hc' : id ∉ slabIds d child' := fun h => h1m ((hm1 id).2 (Or.inr (Or.inr (Or.inl h))))
      rw [p2.frame id h1m hnot, p1.frame id hc hc']

end

section
open ATree MetaSlab
variable {d : Nat}


/-- what is known when the tail of `ArrayMetaDataSlab.Set` runs -/
structure SetTailPre (T d addr : Nat) (m1 : MetaSlab (ATree d)) (A B : List (ATree d)) (child' : ATree d) (s1 : HSt) :
    Prop where
  kids : m1.children = A ++ child' :: B
  book : Book m1
  left : ∀ t ∈ A, TreeInv T d false t
  right : ∀ t ∈ B, TreeInv T d false t
  shape : Shape T d false child'
  size_hi : (ATree.hdr d child').size ≤ maxThr T + maxInlineArr T
  size_lo : minThr T ≤ (ATree.hdr d child').size + maxInlineArr T
  size_lo_meta : d ≠ 0 → minThr T ≤ (ATree.hdr d child').size + 14
  two : 2 ≤ m1.children.length
  msize : m1.hdr.size = arrayMetaDataSlabPrefixSize + arraySlabHeaderSize * m1.children.length
  msize_le : m1.hdr.size ≤ maxThr T
  mcount : m1.hdr.count = sumCounts m1.childHdrs
  mcount_lt : m1.hdr.count < 2^32
  ids : IdsOk addr s1.ctx.ctr (ATree.slabIds (d + 1) (ofMeta m1))
  holds : HoldsChildren s1.heap m1
  fresh : FreshFree addr s1

/-- the tail of `ArrayMetaDataSlab.Set` at ONE index slab: on the parent `m1` (header copy of the child already
    overwritten), the updated child `child'` at position `k` and the storage `s1`, the generated tail - `SplitChildSlab`
    if the child is full, `MergeOrRebalanceChildSlab` if it underflows, `storeSlab` otherwise - returns the parent of
    the model's `afterSet`, with the model's `Ctx` and a heap that satisfies `HeapPost` relative to `s1.heap` -/
def SetTailOk (T d : Nat) (m1 : MetaSlab (ATree d)) (child' : ATree d) (k : Nat) (s1 : HSt) : Prop :=
  match ATree.afterSet T m1 child' k s1.ctx with
  | .ok (m2, c2) => ∃ s2, s2.ctx = c2 ∧ HeapPost s1.heap s2.heap (ofMeta m1) (ofMeta m2) ∧
      (if ATree.isFull T d child' = true then
        ∃ out, TransSl.ArrayMetaDataSlab_SplitChildSlab (envH T) (trMeta m1) s1 (some (trTree d child')) (Int.ofNat k) =
          some (none, trMeta m2, s2, out)
      else match ATree.isUnderflow T d child' with
        | some u => ∃ out, TransSl.ArrayMetaDataSlab_MergeOrRebalanceChildSlab (envH T) (trMeta m1) s1
            (some (trTree d child')) (Int.ofNat k) (u32 u) = some (none, trMeta m2, s2, out)
        | none => TransSl.storeSlab (envH T) s1 (some (.metaSlab (trMeta m1))) = some (none, s2))
  | .error _ => True

/-- storing the parent on a heap that holds its children -/
theorem set_heapPost_store_parent {h : SlabID → Option GSlab} (m1 : MetaSlab (ATree d)) (hh : HoldsChildren h m1)
    (hnd : (slabIds (d + 1) (ofMeta m1)).Nodup) (c : Ctx) :
    HeapPost h ((HSt.mk h c).store m1.hdr.id (some (.metaSlab (trMeta m1)))).heap (ofMeta m1) (ofMeta m1) := by
  have hroot : ((HSt.mk h c).store m1.hdr.id (some (.metaSlab (trMeta m1)))).heap m1.hdr.id =
      some (.metaSlab (trMeta m1)) := by simp [HSt.store]
  refine ⟨⟨hroot, fun c hc => (hh c hc).congr ?_⟩, fun id h1 h2 => absurd h1 h2, ?_⟩
  · intro id hid
    have : id ≠ m1.hdr.id := by
      rintro rfl
      rw [slabIds_succ] at hnd
      exact (List.nodup_cons.1 hnd).1 (List.mem_flatMap.2 ⟨c, hc, hid⟩)
    simp [HSt.store, this]
  · intro id h1 _
    have : id ≠ m1.hdr.id := by
      rintro rfl; exact h1 (by rw [slabIds_succ]; exact List.mem_cons_self)
    simp [HSt.store, this]

/-- the PLAIN-STORE tail (the updated child is neither full nor underflowing): one `storeSlab` of the parent -/
theorem setTailOk_plain {T addr : Nat} {m1 : MetaSlab (ATree d)} {A B : List (ATree d)} {child' : ATree d} {s1 : HSt}
    (hpre : SetTailPre T d addr m1 A B child' s1) (k : Nat)
    (hfull : ATree.isFull T d child' = false) (hunder : ATree.isUnderflow T d child' = none) :
    SetTailOk T d m1 child' k s1 := by
  unfold SetTailOk ATree.afterSet
  simp only [hfull, hunder, Bool.false_eq_true, if_false]
  refine ⟨s1.store m1.hdr.id (some (.metaSlab (trMeta m1))), rfl, ?_, setH_storeSlab_meta T s1 (trMeta m1)⟩
  exact set_heapPost_store_parent m1 hpre.holds hpre.ids.1 s1.ctx
end

/-! ## the statements -/
section
open ATree MetaSlab
variable {d : Nat}

theorem dataSet_ok_inv {T : Nat} {sl sl' : DataSlab} {i : Nat} {v old : Elem} {c c' : Ctx}
    (h : sl.set T i v c = .ok (old, sl', c')) :
    sl'.hdr.id = sl.hdr.id ∧ sl'.inlined = sl.inlined ∧
      c' = (if sl.inlined then (toStorable T sl.hdr.id.addr v c).2
            else (toStorable T sl.hdr.id.addr v c).2.emit (.store sl.hdr.id)) := by
  unfold DataSlab.set at h
  split at h
  · cases h
  · simp only [Except.ok.injEq, Prod.mk.injEq] at h
    obtain ⟨_, rfl, rfl⟩ := h
    refine ⟨rfl, rfl, ?_⟩
    simp only [DataSlab.storeIfNotInlined]

theorem dataSet_err_inv {T : Nat} {sl : DataSlab} {i : Nat} {v : Elem} {c : Ctx} {e : AErr}
    (h : sl.set T i v c = .error e) : e = .indexOutOfBounds := by
  unfold DataSlab.set at h
  split at h
  · cases h; rfl
  · cases h

/-- the tails along the path of `Set(i, v)` from the context `c`: at every index slab of the path, IF the facts
    `SetTailPre` hold for the parent with its bookkeeping updated (`setM1`), the updated child and a storage whose `Ctx`
    is the model's after the child operation, THEN the generated tail does what the model's `afterSet` does
    (`SetTailOk`).  `setTailsOn_of_hyps` derives it from the statements about `SplitChildSlab` and
    `MergeOrRebalanceChildSlab`, `setTailsOn_of_noRestructure` proves it when no child on the path becomes full or
    underflows. -/
def SetTailsOn (T addr : Nat) : (d : Nat) → ATree d → Nat → Elem → Ctx → Prop
  | 0, _, _, _, _ => True
  | d + 1, (m : MetaSlab (ATree d)), i, v, c =>
    match m.childSlabIndexInfo i with
    | .ok (k, adj) => ∀ child, m.children[k]? = some child →
        SetTailsOn T addr d child adj v c ∧
        match ATree.set T d child adj v c with
        | .ok (_, child', c1) => ∀ (s1 : HSt) (A B : List (ATree d)), s1.ctx = c1 → A.length = k →
            SetTailPre T d addr (setM1 m k child') A B child' s1 → SetTailOk T d (setM1 m k child') child' k s1
        | .error _ => True
    | .error _ => True

theorem setTailsOn_succ (T addr d : Nat) (m : MetaSlab (ATree d)) (i : Nat) (v : Elem) (c : Ctx) :
    SetTailsOn T addr (d + 1) (ofMeta m) i v c =
      match m.childSlabIndexInfo i with
      | .ok (k, adj) => ∀ child, m.children[k]? = some child →
          SetTailsOn T addr d child adj v c ∧
          match ATree.set T d child adj v c with
          | .ok (_, child', c1) => ∀ (s1 : HSt) (A B : List (ATree d)), s1.ctx = c1 → A.length = k →
              SetTailPre T d addr (setM1 m k child') A B child' s1 → SetTailOk T d (setM1 m k child') child' k s1
          | .error _ => True
      | .error _ => True := rfl

/-- what the dispatcher `ArraySlab.Set` must do on the tree `t` at depth `d` -/
def SetDispPost (T d depth addr : Nat) (t : ATree d) (i : Nat) (v : Elem) (s : HSt) : Prop :=
  match ATree.set T d t i v s.ctx with
  | .ok (old, t', c') => ∃ s',
      TransSl.ArraySlab_Set (envH T) (TransSl.ArrayMetaDataSlab_Set (envH T) depth) (trTree d t) s addr (u64 i) (some v) =
        some (some old, none, trTree d t', s') ∧ s'.ctx = c' ∧ HeapPost s.heap s'.heap t t'
  | .error e => e = .indexOutOfBounds ∧
      TransSl.ArraySlab_Set (envH T) (TransSl.ArrayMetaDataSlab_Set (envH T) depth) (trTree d t) s addr (u64 i) (some v) =
        some (none, some .indexOutOfBounds, trTree d t, s)

/-- what `ArrayMetaDataSlab.Set` must do on the index slab `m` (children of depth `d`) -/
def SetMetaPost (T d depth addr : Nat) (m : MetaSlab (ATree d)) (i : Nat) (v : Elem) (s : HSt) : Prop :=
  match ATree.set T (d + 1) (ofMeta m) i v s.ctx with
  | .ok (old, t', c') => ∃ s',
      TransSl.ArrayMetaDataSlab_Set (envH T) (depth + 1) (trMeta m) s addr (u64 i) (some v) =
        some (some old, none, trMeta (t' : MetaSlab (ATree d)), s') ∧ s'.ctx = c' ∧
        HeapPost s.heap s'.heap (ofMeta m) t'
  | .error e => e = .indexOutOfBounds ∧
      TransSl.ArrayMetaDataSlab_Set (envH T) (depth + 1) (trMeta m) s addr (u64 i) (some v) =
        some (none, some .indexOutOfBounds, trMeta m, s)

/-- the statement for the dispatcher at tree depth `d` -/
def SetDisp (T d : Nat) : Prop :=
  ∀ (t : ATree d) (top : Bool) (i : Nat) (v : Elem) (s : HSt) (depth addr : Nat), d ≤ depth →
    Holds s.heap d t → IdsOk addr s.ctx.ctr (slabIds d t) → FreshFree addr s → TreeInv T d top t → NotInl d t →
    ValueOk v → (hdr d t).count < 2^32 → i < 2^64 → SetTailsOn T addr d t i v s.ctx →
    SetDispPost T d depth addr t i v s

/-- the statement for an index slab whose children have depth `d` (the receiver is passed by value: only its
    children have to be in the heap) -/
def SetMeta (T d : Nat) : Prop :=
  ∀ (m : MetaSlab (ATree d)) (top : Bool) (i : Nat) (v : Elem) (s : HSt) (depth addr : Nat), d ≤ depth →
    HoldsChildren s.heap m → IdsOk addr s.ctx.ctr (slabIds (d + 1) (ofMeta m)) → FreshFree addr s →
    TreeInv T (d + 1) top (ofMeta m) → ValueOk v → m.hdr.count < 2^32 → i < 2^64 →
    SetTailsOn T addr (d + 1) (ofMeta m) i v s.ctx →
    SetMetaPost T d depth addr m i v s

/-! ## the data slab -/

/-- the data slab: no hypothesis about the heap -/
theorem setPost_data (T : Nat) (hT : legalThreshold T = true) (sl : DataSlab) (top : Bool) (i : Nat) (v : Elem)
    (s : HSt) (depth addr : Nat) (hids : IdsOk addr s.ctx.ctr (slabIds 0 (ofData sl)))
    (hinv : TreeInv T 0 top (ofData sl)) (hni : NotInl 0 (ofData sl)) (hcnt : (hdr 0 (ofData sl)).count < 2^32)
    (hi : i < 2^64) : SetDispPost T 0 depth addr (ofData sl) i v s := by
  have hinv : DataInv T top sl := (treeInv_zero T top sl).1 hinv
  have hni : sl.inlined = false := hni
  have hcnt : sl.hdr.count < 2^32 := hcnt
  have haddr : sl.hdr.id.addr = addr := (hids.2 sl.hdr.id (by simp)).1
  have hlen : sl.elems.length < 2^63 := by have := hinv.count_eq; omega
  have hmax : maxInlineArr T < 2^32 := by
    have F := thrFacts hT; have := F.inlE; have := F.hi; omega
  have hgen := Sl_ArrayDataSlab_Set_envH T sl i v s hi hlen hmax
  rw [haddr] at hgen
  unfold SetDispPost
  have e : ATree.set T 0 (ofData sl) i v s.ctx = sl.set T i v s.ctx := rfl
  have etr : trTree 0 (ofData sl) = .dataSlab (trData sl) := rfl
  rw [e, etr]
  cases hset : sl.set T i v s.ctx with
  | error e =>
    rw [hset] at hgen
    have he := dataSet_err_inv hset
    subst he
    exact ⟨rfl, by simp only [TransSl.ArraySlab_Set, hgen]⟩
  | ok r =>
    obtain ⟨old, sl', c'⟩ := r
    rw [hset] at hgen
    obtain ⟨hid, _, hc'⟩ := dataSet_ok_inv hset
    simp only [hni, Bool.false_eq_true, if_false] at hc'
    refine ⟨dataSetSt T sl sl' v s, ?_, ?_, ?_⟩
    · simp only [TransSl.ArraySlab_Set, hgen]; rfl
    · simp [dataSetSt, hni, hc']
    · have hh : (dataSetSt T sl sl' v s).heap = fun j => if j = sl.hdr.id then some (.dataSlab (trData sl')) else s.heap j := by
        simp [dataSetSt, hni, HSt.store, HSt.withCtx]
      rw [hh]
      refine ⟨?_, ?_, ?_⟩
      · show (if sl'.hdr.id = sl.hdr.id then _ else _) = _
        rw [if_pos hid]
      · intro id h1 h2
        have h1 : id = sl.hdr.id := List.mem_singleton.1 h1
        have h2 : id ≠ sl'.hdr.id := fun h => h2 (List.mem_singleton.2 h)
        rw [hid] at h2
        exact absurd h1 h2
      · intro id h1 _
        have h1 : id ≠ sl.hdr.id := fun h => h1 (List.mem_singleton.2 h)
        simp [h1]


theorem setDisp_zero (T : Nat) (hT : legalThreshold T = true) : SetDisp T 0 := by
  intro t top i v s depth addr _ _ hids _ hinv hni _ hcnt hi _
  exact setPost_data T hT t top i v s depth addr hids hinv hni hcnt hi

end

/-! ## the index slab -/
section
open ATree MetaSlab
variable {d : Nat}

theorem set_succ_error {T : Nat} (m : MetaSlab (ATree d)) (i k adj : Nat) (e old : Elem) (c c1 : Ctx)
    (child child' : ATree d) (h1 : m.childSlabIndexInfo i = .ok (k, adj)) (h2 : m.children[k]? = some child)
    (h3 : ATree.set T d child adj e c = .ok (old, child', c1)) (err : AErr)
    (h4 : afterSet T (setM1 m k child') child' k c1 = .error err) :
    ATree.set T (d + 1) (ofMeta m) i e c = .error err := by
  unfold setM1 at h4
  unfold ofMeta; rw [ATree.set]; simp only [h1, h2, h3, h4, bind, Except.bind]

theorem set_sibling_ids_disjoint {m : MetaSlab (ATree d)} {A B : List (ATree d)} {x : ATree d}
    (hch : m.children = A ++ x :: B) (hnd : (slabIds (d + 1) (ofMeta m)).Nodup) (c : ATree d) (hc : c ∈ A ∨ c ∈ B) :
    ∀ id ∈ slabIds d c, id ∉ slabIds d x := by
  intro id hid hx
  rw [slabIds_succ, hch] at hnd
  simp only [List.flatMap_append, List.flatMap_cons] at hnd
  obtain ⟨_, hnd⟩ := List.nodup_cons.1 hnd
  obtain ⟨_, hnd2, hAB⟩ := List.nodup_append.1 hnd
  obtain ⟨_, _, hxB⟩ := List.nodup_append.1 hnd2
  rcases hc with hc | hc
  · exact hAB id (List.mem_flatMap.2 ⟨c, hc, hid⟩) id (List.mem_append_left _ hx) rfl
  · exact hxB id hx id (List.mem_flatMap.2 ⟨c, hc, hid⟩) rfl

theorem trMeta_setM1 (m : MetaSlab (ATree d)) (k : Nat) (child' : ATree d) :
    ({ trMeta m with childrenHeaders := (m.childHdrs.map trHdr).set k (trHdr (hdr d child')) } : GMeta) =
      trMeta (setM1 m k child') := by
  simp [trMeta, setM1, List.map_set]

theorem setMeta_of_disp (T : Nat) (hT : legalThreshold T = true) (d : Nat) (ih : SetDisp T d) : SetMeta T d := by
  intro m top i v s depth addr hd hh hids hfree hinv hv hcnt hi htails
  have F := thrFacts hT
  have TF := thresholds_fit hT
  obtain ⟨hs, hmax, _, _⟩ := (treeInv_succ T d top m).1 hinv
  unfold SetMetaPost
  rcases Nat.lt_or_ge i m.hdr.count with hlt | hge
  case inr =>
    have hmodel : ATree.set T (d + 1) (ofMeta m) i v s.ctx = .error .indexOutOfBounds :=
      set_succ_err m i v s.ctx _ (route_err m i hge)
    rw [hmodel]
    have e1 := childInfoOf_trMeta_none m i (some .indexOutOfBounds) (childSlabIndexInfo_past_end m i hi hcnt hge)
    refine ⟨rfl, ?_⟩
    simp [TransSl.ArrayMetaDataSlab_Set, envH_childInfo, e1]
  case inl =>
    obtain ⟨A, child, B, adj, hch, hroute, hi2, hadj, hget⟩ := route_flat hT hs i hlt
    have hpos : ∀ c ∈ m.children, 1 ≤ (hdr d c).count := fun c hc => (hs.kids_inv c hc).count_pos hT
    obtain ⟨k', adj', hr', htr⟩ := safe_childSlabIndexInfo m hs.book hs.count_eq hpos hcnt i hlt
    rw [hroute] at hr'
    simp only [Except.ok.injEq, Prod.mk.injEq] at hr'
    obtain ⟨rfl, rfl⟩ := hr'
    have e1 : (envH T).ArrayMetaDataSlab_childSlabIndexInfo (trMeta m) (u64 i) = _ :=
      childInfoOf_trMeta_ok m i A.length adj (some .indexOutOfBounds) htr
    have e2 := childID_of_hdrs m A.length child hs.hdrs_eq hget
    rw [e2] at e1
    have hmem : child ∈ m.children := by rw [hch]; simp
    have hchild : Holds s.heap d child := hh _ hmem
    have hA : ∀ t ∈ A, TreeInv T d false t := fun t ht => hs.kids_inv t (by rw [hch]; simp [ht])
    have hB : ∀ t ∈ B, TreeInv T d false t := fun t ht => hs.kids_inv t (by rw [hch]; simp [ht])
    have hc : TreeInv T d false child := hs.kids_inv child hmem
    have hidsc : IdsOk addr s.ctx.ctr (slabIds d child) := ids_child hch hids
    have hccnt : (hdr d child).count < 2^32 := by
      have := count_le_sumCounts _ _ hmem
      rw [← hs.hdrs_eq, ← hs.count_eq] at this
      omega
    obtain ⟨child', c1, hset, hstep, hflat, hcnt', hsz1, hsz2, hsz3⟩ :=
      set_gen hT d child false adj v s.ctx hc hc.notInl_of_false hv hadj
    -- the tails on the path
    have htails' : SetTailsOn T addr d child adj v s.ctx ∧
        ∀ (s1 : HSt) (A' B' : List (ATree d)), s1.ctx = c1 → A'.length = A.length →
          SetTailPre T d addr (setM1 m A.length child') A' B' child' s1 →
          SetTailOk T d (setM1 m A.length child') child' A.length s1 := by
      have h := htails
      rw [setTailsOn_succ] at h
      rw [hroute] at h
      have h := h child hget
      rw [hset] at h
      exact h
    obtain ⟨htc, htail⟩ := htails'
    -- the child operation
    have IH := ih child false adj v s depth addr hd hchild hidsc hfree hc hc.notInl_of_false hv hccnt (by omega) htc
    unfold SetDispPost at IH
    rw [hset] at IH
    obtain ⟨s1, e3, hctx1, hp1⟩ := IH
    -- the parent with the new child written back
    have hh' : m.childHdrs = A.map (hdr d) ++ hdr d child :: B.map (hdr d) := by
      rw [hs.hdrs_eq, hch]; simp
    have hch1 : (setM1 m A.length child').children = A ++ child' :: B := by
      rw [setM1_children, hch, set_mid rfl]
    have hbook1 : Book (setM1 m A.length child') := by
      refine ⟨?_, ?_⟩
      · rw [hch1]; show m.childHdrs.set A.length (hdr d child') = _
        rw [hh', set_mid (by simp)]; simp
      · show m.countSum = prefixSums (m.childHdrs.set A.length (hdr d child')) 0
        rw [hs.sums_eq, hh', set_mid (by simp), prefixSums_mid, prefixSums_mid, hcnt']
    have hlen1 : (setM1 m A.length child').children.length = m.children.length := by
      rw [hch1, hch]; simp
    have hcount1 : (setM1 m A.length child').hdr.count = sumCounts (setM1 m A.length child').childHdrs := by
      rw [hbook1.hdrs_eq, hch1, setM1_hdr, hs.count_eq, hs.hdrs_eq, hch]
      simp only [List.map_append, List.map_cons, sumCounts_append, sumCounts_cons, hcnt']
    have hids1 : IdsOk addr c1.ctr (slabIds (d + 1) (ofMeta (setM1 m A.length child'))) :=
      ids_after_child (m1 := setM1 m A.length child') hch hch1 rfl hstep.repl hids
    have hidsc' : IdsOk addr c1.ctr (slabIds d child') := repl_single_ids hstep.repl addr hidsc
    have hle : s.ctx.ctr ≤ c1.ctr := hstep.repl.ctr
    have hpre : SetTailPre T d addr (setM1 m A.length child') A B child' s1 := by
      refine ⟨hch1, hbook1, hA, hB, hstep.shape, ?_, ?_, ?_, ?_, ?_, hmax, hcount1, hcnt, ?_, ?_, ?_⟩
      · have := hc.le_max; omega
      · have := hc.ge_min; omega
      · intro hd0; have := hc.ge_min; have := hsz3 hd0; omega
      · rw [hlen1]; exact two_kids hT hinv
      · rw [hlen1]; exact hs.size_eq
      · rw [hctx1]; exact hids1
      · intro c hcm
        rw [hch1] at hcm
        simp only [List.mem_append, List.mem_cons] at hcm
        have hsib : ∀ c, (c ∈ A ∨ c ∈ B) → Holds s1.heap d c := by
          intro c hcAB
          have hcm' : c ∈ m.children := by rw [hch]; rcases hcAB with h | h <;> simp [h]
          refine (hh c hcm').congr (fun id hid => hp1.frame id ?_ ?_)
          · exact set_sibling_ids_disjoint hch hids.1 c hcAB id hid
          · exact set_sibling_ids_disjoint hch1 hids1.1 c hcAB id hid
        rcases hcm with h | rfl | h
        · exact hsib c (Or.inl h)
        · exact hp1.holds
        · exact hsib c (Or.inr h)
      · exact FreshFree.post hfree hp1 hidsc (by rw [hctx1]; exact hidsc') (by rw [hctx1]; exact hle)
    have htl := htail s1 A B hctx1 rfl hpre
    -- the model
    obtain ⟨t', c', hok, _⟩ := set_gen hT (d + 1) (ofMeta m) top i v s.ctx hinv trivial hv
      (by rw [flatten_succ, ← hs.flat_length]; exact hlt)
    cases haft : afterSet T (setM1 m A.length child') child' A.length c1 with
    | error err =>
      rw [set_succ_error m i A.length adj v _ s.ctx c1 child child' hroute hget hset err haft] at hok
      cases hok
    | ok p =>
      obtain ⟨m2, c2⟩ := p
      have hmodel := set_succ_ok m m2 i A.length adj v _ s.ctx c1 c2 child child' hroute hget hset haft
      rw [hmodel]
      unfold SetTailOk at htl
      rw [hctx1, haft] at htl
      obtain ⟨s2, hctx2, hp2, hgen⟩ := htl
      refine ⟨s2, ?_, hctx2, ?_⟩
      · -- the generated code
        have hk : A.length < (trMeta m).childrenHeaders.length := by
          rw [trMeta_childrenHeaders, List.length_map, hh']; simp
        have e4 : TransSl.goSet (trMeta m).childrenHeaders (Int.ofNat A.length)
            (TransSl.ArraySlab_Header (envH T) (trTree d child')) =
              some ((m.childHdrs.map trHdr).set A.length (trHdr (hdr d child'))) := by
          rw [setH_Header, goSet_ofNat, if_pos hk]; rfl
        have e2' : (envH T).getArraySlab s (hdr d child).id = (some (trTree d child), none, s) :=
          getArraySlab_envH_some T s _ _ hchild.root
        have hstepG := metaSet_step (envH T) depth (trMeta m) s s1 addr (u64 i) (u64 adj) (some v) (Int.ofNat A.length)
          (hdr d child).id (trTree d child) (trTree d child') (some ((flatten d child).getD adj default))
          _ e1 e2' e3 e4
        rw [hstepG, trMeta_setM1]
        have hsize' : (hdr d child').size < 2^32 := by
          have := hc.le_max; have := F.inlE; omega
        rw [setH_IsFull T d child' hsize' TF.2.2.1, setH_IsUnderflow T d child' hsize' TF.2.1]
        by_cases hfull : ATree.isFull T d child' = true
        · rw [if_pos hfull] at hgen
          obtain ⟨out, hgen⟩ := hgen
          rw [if_pos hfull, hgen]; rfl
        · rw [if_neg hfull] at hgen
          rw [if_neg hfull]
          cases hu : ATree.isUnderflow T d child' with
          | some u =>
            rw [hu] at hgen
            obtain ⟨out, hgen⟩ := hgen
            simp only [if_true, hgen]; rfl
          | none =>
            rw [hu] at hgen
            have hm2 : m2 = setM1 m A.length child' := by
              unfold afterSet at haft
              rw [if_neg hfull, hu] at haft
              simp only [Except.ok.injEq, Prod.mk.injEq] at haft
              exact haft.1.symm
            simp only [Bool.false_eq_true, if_false, hgen, hm2]; rfl
      · refine HeapPost.parent hch hch1 rfl ?_ hp1 hp2
        intro id hid' hnid
        have h1 := (hstep.repl.ids addr (by simpa using hidsc)).2 id (by simpa using hid')
        rcases h1 with h1 | h1
        · exact absurd (by simpa using h1) hnid
        · exact hfree id (hidsc'.2 id hid').1 h1

end

/-! ## the recursion -/
section
open ATree MetaSlab
variable {d : Nat}

theorem setDisp_succ (T d : Nat) (ih : SetMeta T d) : SetDisp T (d + 1) := by
  intro t top i v s depth addr hd hh hids hfree hinv _ hv hcnt hi htails
  obtain ⟨depth, rfl⟩ : ∃ n, depth = n + 1 := ⟨depth - 1, by omega⟩
  have h := ih t top i v s depth addr (by omega) hh.2 hids hfree hinv hv hcnt hi htails
  unfold SetMetaPost at h
  unfold SetDispPost
  have e : ATree.set T (d + 1) (ofMeta t) i v s.ctx = ATree.set T (d + 1) t i v s.ctx := rfl
  have etr : trTree (d + 1) t = .metaSlab (trMeta (t : MetaSlab (ATree d))) := rfl
  rw [e] at h
  rw [etr]
  cases hset : ATree.set T (d + 1) t i v s.ctx with
  | error err =>
    rw [hset] at h
    obtain ⟨he, h⟩ := h
    exact ⟨he, by simp only [TransSl.ArraySlab_Set, h]⟩
  | ok r =>
    obtain ⟨old, t', c'⟩ := r
    rw [hset] at h
    obtain ⟨s', e1, hc, hp⟩ := h
    exact ⟨s', by simp only [TransSl.ArraySlab_Set, e1]; rfl, hc, hp⟩

theorem setDisp_all (T : Nat) (hT : legalThreshold T = true) : ∀ d, SetDisp T d
  | 0 => setDisp_zero T hT
  | d + 1 => setDisp_succ T d (setMeta_of_disp T hT d (setDisp_all T hT d))

/-! ## the tails: from the statements about `SplitChildSlab` / `MergeOrRebalanceChildSlab`, and without restructuring -/

/-- HYPOTHESIS (proved elsewhere, Props/TransDescentSplit.lean): `SplitChildSlab` over the heap on an index slab whose
    children have depth `d`, when the updated child is full -/
def SplitTailHyp (T d : Nat) : Prop :=
  ∀ (addr : Nat) (m1 : MetaSlab (ATree d)) (A B : List (ATree d)) (child' : ATree d) (s1 : HSt),
    SetTailPre T d addr m1 A B child' s1 → maxThr T < (hdr d child').size →
    match m1.splitChildSlab child' A.length s1.ctx with
    | .ok (m2, c2) => ∃ s2 out,
        TransSl.ArrayMetaDataSlab_SplitChildSlab (envH T) (trMeta m1) s1 (some (trTree d child')) (Int.ofNat A.length) =
          some (none, trMeta m2, s2, out) ∧ s2.ctx = c2 ∧ HeapPost s1.heap s2.heap (ofMeta m1) (ofMeta m2)
    | .error _ => True

/-- HYPOTHESIS (proved elsewhere, Props/TransDescentMor.lean): `MergeOrRebalanceChildSlab` over the heap, when the
    updated child underflows -/
def MorTailHyp (T d : Nat) : Prop :=
  ∀ (addr : Nat) (m1 : MetaSlab (ATree d)) (A B : List (ATree d)) (child' : ATree d) (s1 : HSt),
    SetTailPre T d addr m1 A B child' s1 → (hdr d child').size < minThr T →
    match m1.mergeOrRebalanceChildSlab T child' A.length (minThr T - (hdr d child').size) s1.ctx with
    | .ok (m2, c2) => ∃ s2 out,
        TransSl.ArrayMetaDataSlab_MergeOrRebalanceChildSlab (envH T) (trMeta m1) s1 (some (trTree d child'))
            (Int.ofNat A.length) (u32 (minThr T - (hdr d child').size)) =
          some (none, trMeta m2, s2, out) ∧ s2.ctx = c2 ∧ HeapPost s1.heap s2.heap (ofMeta m1) (ofMeta m2)
    | .error _ => True

theorem setTailOk_of_hyps {T addr : Nat} (hT : legalThreshold T = true) (hsp : SplitTailHyp T d) (hmr : MorTailHyp T d)
    {m1 : MetaSlab (ATree d)} {A B : List (ATree d)} {child' : ATree d} {s1 : HSt}
    (hpre : SetTailPre T d addr m1 A B child' s1) : SetTailOk T d m1 child' A.length s1 := by
  have F := thrFacts hT
  by_cases hfull : ATree.isFull T d child' = true
  · have h := hsp addr m1 A B child' s1 hpre ((isFull_iff T d child').1 hfull)
    unfold SetTailOk
    rw [afterSet_full _ _ _ _ hfull]
    cases hres : m1.splitChildSlab child' A.length s1.ctx with
    | error e => trivial
    | ok p =>
      obtain ⟨m2, c2⟩ := p
      rw [hres] at h
      obtain ⟨s2, out, e, hc, hp⟩ := h
      exact ⟨s2, hc, hp, by rw [if_pos hfull]; exact ⟨out, e⟩⟩
  · by_cases hu : (hdr d child').size < minThr T
    · have h := hmr addr m1 A B child' s1 hpre hu
      unfold SetTailOk
      rw [afterSet_under _ _ _ _ hfull hu]
      cases hres : m1.mergeOrRebalanceChildSlab T child' A.length (minThr T - (hdr d child').size) s1.ctx with
      | error e => trivial
      | ok p =>
        obtain ⟨m2, c2⟩ := p
        rw [hres] at h
        obtain ⟨s2, out, e, hc, hp⟩ := h
        refine ⟨s2, hc, hp, ?_⟩
        rw [if_neg hfull, isUnderflow_some T d child' hu]
        exact ⟨out, e⟩
    · exact setTailOk_plain hpre A.length (by simpa using hfull) (isUnderflow_none T d child' (by omega))

/-- the path predicate from the two statements at every smaller depth -/
theorem setTailsOn_of_hyps (T addr : Nat) (hT : legalThreshold T = true) : ∀ (d : Nat) (t : ATree d) (i : Nat) (v : Elem)
    (c : Ctx), (∀ d', d' < d → SplitTailHyp T d' ∧ MorTailHyp T d') → SetTailsOn T addr d t i v c
  | 0, _, _, _, _, _ => trivial
  | d + 1, t, i, v, c, h => by
    refine forall_ofMeta ?_ t; intro m
    rw [setTailsOn_succ]
    cases hr : m.childSlabIndexInfo i with
    | error e => trivial
    | ok p =>
      obtain ⟨k, adj⟩ := p
      intro child _
      refine ⟨setTailsOn_of_hyps T addr hT d child adj v c (fun d' hd' => h d' (by omega)), ?_⟩
      cases hs : ATree.set T d child adj v c with
      | error e => trivial
      | ok r =>
        obtain ⟨old, child', c1⟩ := r
        intro s1 A B _ hk hpre
        subst hk
        exact setTailOk_of_hyps hT (h d (by omega)).1 (h d (by omega)).2 hpre

/-- no child on the path of `Set(i, v)` becomes full or underflows -/
def NoRestructure (T : Nat) : (d : Nat) → ATree d → Nat → Elem → Ctx → Prop
  | 0, _, _, _, _ => True
  | d + 1, (m : MetaSlab (ATree d)), i, v, c =>
    match m.childSlabIndexInfo i with
    | .ok (k, adj) => ∀ child, m.children[k]? = some child →
        NoRestructure T d child adj v c ∧
        match ATree.set T d child adj v c with
        | .ok (_, child', _) => ATree.isFull T d child' = false ∧ ATree.isUnderflow T d child' = none
        | .error _ => True
    | .error _ => True

theorem noRestructure_succ (T d : Nat) (m : MetaSlab (ATree d)) (i : Nat) (v : Elem) (c : Ctx) :
    NoRestructure T (d + 1) (ofMeta m) i v c =
      match m.childSlabIndexInfo i with
      | .ok (k, adj) => ∀ child, m.children[k]? = some child →
          NoRestructure T d child adj v c ∧
          match ATree.set T d child adj v c with
          | .ok (_, child', _) => ATree.isFull T d child' = false ∧ ATree.isUnderflow T d child' = none
          | .error _ => True
      | .error _ => True := rfl

theorem setTailsOn_of_noRestructure (T addr : Nat) : ∀ (d : Nat) (t : ATree d) (i : Nat) (v : Elem) (c : Ctx),
    NoRestructure T d t i v c → SetTailsOn T addr d t i v c
  | 0, _, _, _, _, _ => trivial
  | d + 1, t, i, v, c, h => by
    revert h
    refine forall_ofMeta ?_ t; intro m h
    rw [noRestructure_succ] at h
    rw [setTailsOn_succ]
    cases hr : m.childSlabIndexInfo i with
    | error e => trivial
    | ok p =>
      obtain ⟨k, adj⟩ := p
      rw [hr] at h
      intro child hget
      obtain ⟨h1, h2⟩ := h child hget
      refine ⟨setTailsOn_of_noRestructure T addr d child adj v c h1, ?_⟩
      cases hs : ATree.set T d child adj v c with
      | error e => trivial
      | ok r =>
        obtain ⟨old, child', c1⟩ := r
        rw [hs] at h2
        intro s1 A B _ _ hpre
        exact setTailOk_plain hpre k h2.1 h2.2

end

/-! ## the final theorems -/
section
open ATree MetaSlab

/-- **`ArraySlab.Set` over a heap** (dynamic dispatch; an index slab descends through the storage).  On a heap that
    holds a valid tree `t` (`Holds`, `TreeInv`, identifiers below the counter, nothing stored above the counter), with
    a depth argument that covers the tree and the tails on the path as hypothesis (`SetTailsOn`), the generated code
    returns what the model's `ATree.set` returns - the old element, the new tree as `trTree`, the model's `Ctx` - and
    the heap after it holds the new tree, the slabs that left the tree are gone and everything else is untouched
    (`HeapPost`).  Past the end: `IndexOutOfBoundsError`, nothing was touched. -/
theorem Sl_ArraySlab_Set_heap (T : Nat) (hT : legalThreshold T = true) (d : Nat) (t : ATree d) (top : Bool) (i : Nat)
    (v : Elem) (s : HSt) (depth addr : Nat) (hd : d ≤ depth) (hh : Holds s.heap d t)
    (hids : IdsOk addr s.ctx.ctr (slabIds d t)) (hfree : FreshFree addr s) (hinv : TreeInv T d top t)
    (hni : NotInl d t) (hv : ValueOk v) (hcnt : (hdr d t).count < 2^32) (hi : i < 2^64)
    (htails : SetTailsOn T addr d t i v s.ctx) :
    match ATree.set T d t i v s.ctx with
    | .ok (old, t', c') => ∃ s',
        TransSl.ArraySlab_Set (envH T) (TransSl.ArrayMetaDataSlab_Set (envH T) depth) (trTree d t) s addr (u64 i)
          (some v) = some (some old, none, trTree d t', s') ∧ s'.ctx = c' ∧ HeapPost s.heap s'.heap t t'
    | .error e => e = .indexOutOfBounds ∧
        TransSl.ArraySlab_Set (envH T) (TransSl.ArrayMetaDataSlab_Set (envH T) depth) (trTree d t) s addr (u64 i)
          (some v) = some (none, some .indexOutOfBounds, trTree d t, s) :=
  setDisp_all T hT d t top i v s depth addr hd hh hids hfree hinv hni hv hcnt hi htails

/-- **`ArrayMetaDataSlab.Set` over a heap**: the receiver is the translation of a model index slab (passed by value),
    its children are held by the heap; depth argument `depth + 1` for children of depth `d ≤ depth`. -/
theorem Sl_ArrayMetaDataSlab_Set_heap (T : Nat) (hT : legalThreshold T = true) (d : Nat) (m : MetaSlab (ATree d))
    (top : Bool) (i : Nat) (v : Elem) (s : HSt) (depth addr : Nat) (hd : d ≤ depth) (hh : HoldsChildren s.heap m)
    (hids : IdsOk addr s.ctx.ctr (slabIds (d + 1) (ofMeta m))) (hfree : FreshFree addr s)
    (hinv : TreeInv T (d + 1) top (ofMeta m)) (hv : ValueOk v) (hcnt : m.hdr.count < 2^32) (hi : i < 2^64)
    (htails : SetTailsOn T addr (d + 1) (ofMeta m) i v s.ctx) :
    match ATree.set T (d + 1) (ofMeta m) i v s.ctx with
    | .ok (old, t', c') => ∃ s',
        TransSl.ArrayMetaDataSlab_Set (envH T) (depth + 1) (trMeta m) s addr (u64 i) (some v) =
          some (some old, none, trMeta (t' : MetaSlab (ATree d)), s') ∧ s'.ctx = c' ∧
          HeapPost s.heap s'.heap (ofMeta m) t'
    | .error e => e = .indexOutOfBounds ∧
        TransSl.ArrayMetaDataSlab_Set (envH T) (depth + 1) (trMeta m) s addr (u64 i) (some v) =
          some (none, some .indexOutOfBounds, trMeta m, s) :=
  setMeta_of_disp T hT d (setDisp_all T hT d) m top i v s depth addr hd hh hids hfree hinv hv hcnt hi htails

/-- the same with the tails as the two statements about `SplitChildSlab` and `MergeOrRebalanceChildSlab` at every
    depth below the tree's -/
theorem Sl_ArraySlab_Set_heap_of_tails (T : Nat) (hT : legalThreshold T = true) (d : Nat)
    (htl : ∀ d', d' < d → SplitTailHyp T d' ∧ MorTailHyp T d') (t : ATree d) (top : Bool) (i : Nat)
    (v : Elem) (s : HSt) (depth addr : Nat) (hd : d ≤ depth) (hh : Holds s.heap d t)
    (hids : IdsOk addr s.ctx.ctr (slabIds d t)) (hfree : FreshFree addr s) (hinv : TreeInv T d top t)
    (hni : NotInl d t) (hv : ValueOk v) (hcnt : (hdr d t).count < 2^32) (hi : i < 2^64) :
    match ATree.set T d t i v s.ctx with
    | .ok (old, t', c') => ∃ s',
        TransSl.ArraySlab_Set (envH T) (TransSl.ArrayMetaDataSlab_Set (envH T) depth) (trTree d t) s addr (u64 i)
          (some v) = some (some old, none, trTree d t', s') ∧ s'.ctx = c' ∧ HeapPost s.heap s'.heap t t'
    | .error e => e = .indexOutOfBounds ∧
        TransSl.ArraySlab_Set (envH T) (TransSl.ArrayMetaDataSlab_Set (envH T) depth) (trTree d t) s addr (u64 i)
          (some v) = some (none, some .indexOutOfBounds, trTree d t, s) :=
  Sl_ArraySlab_Set_heap T hT d t top i v s depth addr hd hh hids hfree hinv hni hv hcnt hi
    (setTailsOn_of_hyps T addr hT d t i v s.ctx htl)

/-- **UNCONDITIONAL, no restructuring**: when no child on the path becomes full or underflows (`NoRestructure`, a
    statement about the model alone) there is no hypothesis about the tails -/
theorem Sl_ArraySlab_Set_heap_noRestructure (T : Nat) (hT : legalThreshold T = true) (d : Nat) (t : ATree d)
    (top : Bool) (i : Nat) (v : Elem) (s : HSt) (depth addr : Nat) (hd : d ≤ depth) (hh : Holds s.heap d t)
    (hids : IdsOk addr s.ctx.ctr (slabIds d t)) (hfree : FreshFree addr s) (hinv : TreeInv T d top t)
    (hni : NotInl d t) (hv : ValueOk v) (hcnt : (hdr d t).count < 2^32) (hi : i < 2^64)
    (hnr : NoRestructure T d t i v s.ctx) :
    match ATree.set T d t i v s.ctx with
    | .ok (old, t', c') => ∃ s',
        TransSl.ArraySlab_Set (envH T) (TransSl.ArrayMetaDataSlab_Set (envH T) depth) (trTree d t) s addr (u64 i)
          (some v) = some (some old, none, trTree d t', s') ∧ s'.ctx = c' ∧ HeapPost s.heap s'.heap t t'
    | .error e => e = .indexOutOfBounds ∧
        TransSl.ArraySlab_Set (envH T) (TransSl.ArrayMetaDataSlab_Set (envH T) depth) (trTree d t) s addr (u64 i)
          (some v) = some (none, some .indexOutOfBounds, trTree d t, s) :=
  Sl_ArraySlab_Set_heap T hT d t top i v s depth addr hd hh hids hfree hinv hni hv hcnt hi
    (setTailsOn_of_noRestructure T addr d t i v s.ctx hnr)

/-- **UNCONDITIONAL, a root data slab** (an array of depth 0) -/
theorem Sl_ArraySlab_Set_heap_rootData (T : Nat) (hT : legalThreshold T = true) (sl : DataSlab) (top : Bool) (i : Nat)
    (v : Elem) (s : HSt) (depth : Nat)
    (hctr : 1 ≤ sl.hdr.id.idx ∧ sl.hdr.id.idx ≤ s.ctx.ctr) (hinv : DataInv T top sl) (hni : sl.inlined = false)
    (hcnt : sl.hdr.count < 2^32) (hi : i < 2^64) :
    match sl.set T i v s.ctx with
    | .ok (old, sl', c') => ∃ s',
        TransSl.ArraySlab_Set (envH T) (TransSl.ArrayMetaDataSlab_Set (envH T) depth) (.dataSlab (trData sl)) s
          sl.hdr.id.addr (u64 i) (some v) = some (some old, none, .dataSlab (trData sl'), s') ∧ s'.ctx = c' ∧
          HeapPost s.heap s'.heap (ofData sl) (ofData sl')
    | .error e => e = .indexOutOfBounds ∧
        TransSl.ArraySlab_Set (envH T) (TransSl.ArrayMetaDataSlab_Set (envH T) depth) (.dataSlab (trData sl)) s
          sl.hdr.id.addr (u64 i) (some v) = some (none, some .indexOutOfBounds, .dataSlab (trData sl), s) := by
  have h := setPost_data T hT sl top i v s depth sl.hdr.id.addr
    ⟨by simp, fun id hid => by
      have : id = sl.hdr.id := by simpa using hid
      subst this; exact ⟨rfl, hctr.1, hctr.2⟩⟩
    ((treeInv_zero T top sl).2 hinv) hni hcnt hi
  unfold SetDispPost at h
  have e : ATree.set T 0 (ofData sl) i v s.ctx = sl.set T i v s.ctx := rfl
  rw [e] at h
  cases hset : sl.set T i v s.ctx with
  | error err =>
    rw [hset] at h
    exact h
  | ok r =>
    obtain ⟨old, sl', c'⟩ := r
    rw [hset] at h
    exact h

/-- `ArrayMetaDataSlab.Set`, UNCONDITIONAL without restructuring -/
theorem Sl_ArrayMetaDataSlab_Set_heap_noRestructure (T : Nat) (hT : legalThreshold T = true) (d : Nat)
    (m : MetaSlab (ATree d)) (top : Bool) (i : Nat) (v : Elem) (s : HSt) (depth addr : Nat) (hd : d ≤ depth)
    (hh : HoldsChildren s.heap m) (hids : IdsOk addr s.ctx.ctr (slabIds (d + 1) (ofMeta m))) (hfree : FreshFree addr s)
    (hinv : TreeInv T (d + 1) top (ofMeta m)) (hv : ValueOk v) (hcnt : m.hdr.count < 2^32) (hi : i < 2^64)
    (hnr : NoRestructure T (d + 1) (ofMeta m) i v s.ctx) :
    match ATree.set T (d + 1) (ofMeta m) i v s.ctx with
    | .ok (old, t', c') => ∃ s',
        TransSl.ArrayMetaDataSlab_Set (envH T) (depth + 1) (trMeta m) s addr (u64 i) (some v) =
          some (some old, none, trMeta (t' : MetaSlab (ATree d)), s') ∧ s'.ctx = c' ∧
          HeapPost s.heap s'.heap (ofMeta m) t'
    | .error e => e = .indexOutOfBounds ∧
        TransSl.ArrayMetaDataSlab_Set (envH T) (depth + 1) (trMeta m) s addr (u64 i) (some v) =
          some (none, some .indexOutOfBounds, trMeta m, s) :=
  Sl_ArrayMetaDataSlab_Set_heap T hT d m top i v s depth addr hd hh hids hfree hinv hv hcnt hi
    (setTailsOn_of_noRestructure T addr (d + 1) (ofMeta m) i v s.ctx hnr)

/-- the two heap-side hypotheses are re-established by a successful `Set`: the identifiers of the new tree are below the
    new counter and nothing is stored above it (so the theorems above can be chained) -/
theorem FreshFree.after_set {T d addr : Nat} (hT : legalThreshold T = true) {t t' : ATree d} {top : Bool} {i : Nat}
    {v old : Elem} {s s' : HSt} {c' : Ctx} (hinv : TreeInv T d top t) (hni : NotInl d t) (hv : ValueOk v)
    (hids : IdsOk addr s.ctx.ctr (slabIds d t)) (hfree : FreshFree addr s)
    (hset : ATree.set T d t i v s.ctx = .ok (old, t', c')) (hctx : s'.ctx = c') (hp : HeapPost s.heap s'.heap t t') :
    FreshFree addr s' ∧ IdsOk addr s'.ctx.ctr (slabIds d t') := by
  have hi : i < (flatten d t).length := by
    rcases Nat.lt_or_ge i (flatten d t).length with h | h
    · exact h
    · rw [set_err_gen d t top i v s.ctx (hinv.shape hni) h] at hset; cases hset
  obtain ⟨t'', c'', hset', hstep, _⟩ := set_gen hT d t top i v s.ctx hinv hni hv hi
  rw [hset] at hset'
  simp only [Except.ok.injEq, Prod.mk.injEq] at hset'
  obtain ⟨_, rfl, rfl⟩ := hset'
  have hids' : IdsOk addr s'.ctx.ctr (slabIds d t') := by
    rw [hctx]; exact repl_single_ids hstep.repl addr hids
  exact ⟨FreshFree.post hfree hp hids hids' (by rw [hctx]; exact hstep.repl.ctr), hids'⟩

/-- the depth argument is exhausted (the tree is deeper): the generated code leaves the modelled fragment -/
theorem Sl_ArrayMetaDataSlab_Set_depth0 (T : Nat) (a : GMeta) (s : HSt) (addr : Nat) (i : UInt64) (v : Option Elem) :
    TransSl.ArrayMetaDataSlab_Set (envH T) 0 a s addr i v = none := rfl

end

/-! ## non-vacuity -/
section examples
open ATree MetaSlab

/-- a root data slab under T = 256: four 50-byte elements, 5 + 200 bytes -/
def setExRoot : DataSlab :=
  { hdr := ⟨⟨1, 1⟩, 205, 4⟩, next := SlabID.undef,
    elems := [⟨50, .val 0⟩, ⟨50, .val 1⟩, ⟨50, .val 2⟩, ⟨50, .val 3⟩], root := true, inlined := false }

theorem setExRoot_inv : DataInv 256 true setExRoot := by
  refine ⟨rfl, rfl, ?_, rfl, fun _ => rfl, by decide, fun h => by cases h⟩
  intro e he
  simp only [setExRoot, List.mem_cons, List.not_mem_nil, or_false] at he
  rcases he with rfl | rfl | rfl | rfl <;> exact ⟨by decide, by decide⟩

def setExSt0 : HSt := ⟨fun id => if id = ⟨1, 1⟩ then some (.dataSlab (trData setExRoot)) else none, ⟨1, [], []⟩⟩

/-- the slab after `Set(1, 60 bytes)` -/
def setExRoot' : DataSlab :=
  { hdr := ⟨⟨1, 1⟩, 215, 4⟩, next := SlabID.undef,
    elems := [⟨50, .val 0⟩, ⟨60, .val 9⟩, ⟨50, .val 2⟩, ⟨50, .val 3⟩], root := true, inlined := false }

/-- non-vacuity of `Sl_ArraySlab_Set_heap_rootData`: its hypotheses hold for a concrete root slab, and its conclusion
    is the `ok` branch with the concrete old element, new slab and effect log -/
example : ∃ s', TransSl.ArraySlab_Set (envH 256) (TransSl.ArrayMetaDataSlab_Set (envH 256) 0)
      (.dataSlab (trData setExRoot)) setExSt0 1 (u64 1) (some ⟨60, .val 9⟩) =
        some (some ⟨50, .val 1⟩, none, .dataSlab (trData setExRoot'), s') ∧
      s'.ctx = ⟨1, [.store ⟨1, 1⟩], []⟩ ∧ HeapPost setExSt0.heap s'.heap (ofData setExRoot) (ofData setExRoot') :=
  Sl_ArraySlab_Set_heap_rootData 256 (by decide) setExRoot true 1 ⟨60, .val 9⟩ setExSt0 0
    ⟨by decide, by decide⟩ setExRoot_inv rfl (by decide) (by decide)


/-! a depth-1 tree (`exMeta` of Props/TransSafe.lean: two non-root leaves of four 50-byte elements under T = 256) -/

theorem setEx_mem {P : ATree 0 → Prop} (h2 : P (exSlab 2)) (h3 : P (exSlab 3)) : ∀ c ∈ exMeta.children, P c := by
  intro c hc
  have hc' : c ∈ [exSlab 2, exSlab 3] := hc
  rcases List.mem_cons.mp hc' with h | h
  · rw [h]; exact h2
  · rw [List.mem_singleton.mp h]; exact h3

theorem setEx_inv : TreeInv 256 1 true (ofMeta exMeta) := by
  refine (treeInv_succ 256 0 true exMeta).2 ⟨⟨rfl, rfl, rfl, rfl, rfl, ?_, ?_⟩, by decide, (fun h => by cases h),
    (fun _ => by decide)⟩
  · exact setEx_mem ((treeInv_zero 256 false _).2 (exSlab_inv 2)) ((treeInv_zero 256 false _).2 (exSlab_inv 3))
  · exact setEx_mem rfl rfl

def setExHeap : SlabID → Option GSlab := fun id =>
  if id = ⟨1, 1⟩ then some (.metaSlab (trMeta exMeta))
  else if id = ⟨1, 2⟩ then some (.dataSlab (trData (exSlab 2)))
  else if id = ⟨1, 3⟩ then some (.dataSlab (trData (exSlab 3)))
  else none

def setExSt1 : HSt := ⟨setExHeap, ⟨3, [], []⟩⟩

theorem setExHeap_holds : Holds setExHeap 1 (ofMeta exMeta) :=
  ⟨rfl, setEx_mem (P := fun c => Holds setExHeap 0 c) rfl rfl⟩

theorem setEx_ids : IdsOk 1 3 (slabIds 1 (ofMeta exMeta)) := by
  show IdsOk 1 3 [⟨1, 1⟩, ⟨1, 2⟩, ⟨1, 3⟩]
  refine ⟨by decide, ?_⟩
  intro id hid
  simp only [List.mem_cons, List.not_mem_nil, or_false] at hid
  rcases hid with rfl | rfl | rfl <;> decide

theorem setEx_fresh : FreshFree 1 setExSt1 := by
  intro id _ hlt
  have hlt : 3 < id.idx := hlt
  have h1 : id ≠ ⟨1, 1⟩ := by rintro rfl; simp at hlt
  have h2 : id ≠ ⟨1, 2⟩ := by rintro rfl; simp at hlt
  have h3 : id ≠ ⟨1, 3⟩ := by rintro rfl; simp at hlt
  show setExHeap id = none
  simp [setExHeap, h1, h2, h3]

/-- the leaf and the index slab after `Set(5, 60 bytes)` -/
def setExLeaf' : DataSlab :=
  { hdr := ⟨⟨1, 3⟩, 231, 4⟩, next := SlabID.undef,
    elems := [⟨50, .val 1⟩, ⟨60, .val 9⟩, ⟨50, .val 3⟩, ⟨50, .val 4⟩], root := false, inlined := false }
def setExMeta' : MetaSlab (ATree 0) :=
  { hdr := ⟨⟨1, 1⟩, 40, 8⟩, childHdrs := [(exSlab 2).hdr, setExLeaf'.hdr], countSum := [4, 8],
    children := [exSlab 2, setExLeaf'], root := true }

theorem setEx_noRestructure : NoRestructure 256 1 (ofMeta exMeta) 5 ⟨60, .val 9⟩ setExSt1.ctx := by
  rw [noRestructure_succ]
  have hr : exMeta.childSlabIndexInfo 5 = .ok (1, 1) := rfl
  rw [hr]
  intro child hc
  have : child = exSlab 3 := by
    have h : (some (exSlab 3) : Option (ATree 0)) = some child := hc
    exact (Option.some.inj h).symm
  subst this
  have hs : ATree.set 256 0 (exSlab 3) 1 ⟨60, .val 9⟩ setExSt1.ctx =
      .ok (⟨50, .val 2⟩, setExLeaf', ⟨3, [.store ⟨1, 3⟩], []⟩) := rfl
  rw [hs]
  exact ⟨trivial, rfl, rfl⟩

/-- non-vacuity of `Sl_ArraySlab_Set_heap_noRestructure` on a depth-1 tree: all hypotheses hold on a concrete heap;
    the conclusion is the `ok` branch: old element, the new index slab, the effect log (leaf stored, then parent) -/
example : ∃ s', TransSl.ArraySlab_Set (envH 256) (TransSl.ArrayMetaDataSlab_Set (envH 256) 1)
      (.metaSlab (trMeta exMeta)) setExSt1 1 (u64 5) (some ⟨60, .val 9⟩) =
        some (some ⟨50, .val 2⟩, none, .metaSlab (trMeta setExMeta'), s') ∧
      s'.ctx = ⟨3, [.store ⟨1, 3⟩, .store ⟨1, 1⟩], []⟩ ∧
      HeapPost setExSt1.heap s'.heap (ofMeta exMeta) (ofMeta setExMeta') :=
  Sl_ArraySlab_Set_heap_noRestructure 256 (by decide) 1 (ofMeta exMeta) true 5 ⟨60, .val 9⟩ setExSt1 1 1
    (Nat.le_refl _) setExHeap_holds setEx_ids setEx_fresh setEx_inv trivial ⟨by decide, 9, rfl⟩ (by decide) (by decide)
    setEx_noRestructure

end examples

end Atree.TransEq
