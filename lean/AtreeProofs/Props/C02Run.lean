import AtreeProofs.E2EMap.HistoryFull
import AtreeProofs.Map.DictSpec
import AtreeProofs.Map.GroupBound
import AtreeProofs.World.MapRef.Top
/-
  C02 — Ordered map behaves as a dictionary under every operation HISTORY.
  PROPERTY THEOREMS (history level, audit a2/F7, F6.2):

  * `setType_refines`  – `SetType` changes the type and nothing else;
  * `set_refines_any`  – `set_refines` for every value the model can be handed (`ValueOkR`: plain
                         values of any size, which are externalised into a large-value slab when they
                         exceed the limit for their key, AND references / already-storable values that
                         fit the limit, which are stored as they are);
  * `run_refines`      – for every list of requests (set / get / has / remove / count / setType /
                         pop) issued to a NEW map, the list of answers is an answer list of the
                         reference dictionary (an association list, `Map/DictSpec.lean`), and the map
                         invariant holds after every prefix.

  The answers of the model are read the way a client reads them: a returned storable that is a
  reference to a large-value slab created by the map (`Ctx.created`) stands for the value in that
  slab (`resolve`).  The dictionary stores the VALUES.
-/
namespace Atree.C02
open Atree Gen
open Atree.E2EM (MOp stepM stepS lookupR MGoodF specStepM newS)
open Atree.E2E (resolve)

variable {r : Nat}

/-! ### `SetType` -/

/-- `SetType` on a standalone map: the root slab is stored again (the type lives in its extra
    data); content, count, root ID, seed and the invariant are untouched. -/
theorem setType_refines (T : Nat) (D : DigestFn (r + 1)) (m : OMap r) (h : MapInv T D m) (ty : Nat)
    (c : Ctx) (hc : CtxOk m c) :
    (m.setType ty c).1.ty = ty ∧ (m.setType ty c).1.toList = m.toList ∧
    (m.setType ty c).1.count = m.count ∧ (m.setType ty c).1.rootID = m.rootID ∧
    (m.setType ty c).1.seed = m.seed ∧ MapInv T D (m.setType ty c).1 ∧
    CtxOk (m.setType ty c).1 (m.setType ty c).2 ∧ (m.setType ty c).2 = c.emit (.store m.rootID) := by
  have hst := h.standalone
  have hres : m.setType ty c = ({ m with ty := ty }, c.emit (.store m.rootID)) := by
    unfold OMap.setType; rw [hst]; rfl
  rw [hres]
  refine ⟨rfl, rfl, rfl, rfl, rfl, ⟨h.tree, h.chain, h.count_eq, h.distinct, ?_⟩, hc, rfl⟩
  obtain ⟨d, root, ty0, cnt, seed⟩ := m
  cases d <;> exact hst

/-! ### values that are not plain (F6.2) -/

/-- `set_refines` for EVERY value the map model accepts: `ValueOkR T k.size v` = at least one byte
    and (a plain value of ANY size – stored as a reference to a new large-value slab when it exceeds
    `maxInlineMapValue T k.size` – OR any storable, e.g. a reference to a child container's slab,
    that fits `maxInlineMapValue T k.size` – stored as it is). `get_refines`, `has_refines`,
    `remove_refines`, `pop_refines` put no condition on the values in the map at all, so together
    the C02 statements cover references and externalised values.  NOT covered here: a non-plain
    value larger than the limit (the caller's `Storable` must return a storable within the limit it
    is given: trusted-base assumption), inlined child containers (C10). -/
theorem set_refines_any (T : Nat) (hT : legalThreshold T = true) (D : DigestFn (r + 1)) (cfg : MCfg) (m : OMap r)
    (hcfg : CfgOk cfg T m) (h : MapInv T D m) (k : MKey) (hk : KeyOk T (r + 1) D k)
    (v : Elem) (hv : ValueOkR T k.size v) (c : Ctx) (hc : CtxOk m c) :
    (∃ old m' c', m.set cfg k v c = .ok (old, m', c') ∧
        old = dictLookup m.toList k ∧
        (∀ k', KeyOk T (r + 1) D k' →
           dictLookup m'.toList k' = if k'.same k then some (storedValue cfg k v c) else dictLookup m.toList k') ∧
        m'.count = (if (dictLookup m.toList k).isSome then m.count else m.count + 1) ∧
        MapInv T D m' ∧ CtxOk m' c' ∧ m'.rootID = m.rootID ∧ m'.ty = m.ty ∧ m'.seed = m.seed) ∨
    (m.set cfg k v c = .error .collisionLimit ∧ dictLookup m.toList k = none) := by
  have hs := OMap.set_spec_ref hT hcfg h hk hv c
  by_cases hl : TLimited cfg m.d m.root k
  · right
    exact ⟨hs.1 hl, (dictLookup_none_iff h.allKeyOk hk).mpr (tlimited_absent hT m.d true m.root h.sinv hl)⟩
  · left
    obtain ⟨old, m', c', heq, hp⟩ := hs.2 hl
    obtain ⟨e1, _, _, e4⟩ := hp.eff.spec h.allKeyOk h.distinct hk
    refine ⟨old, m', c', heq, e1, e4, ?_, hp.inv, hp.ctx hc, hp.rootID, hp.ty, hp.seed⟩
    rw [hp.count, ← e1]
    cases old <;> simp

/-- a reference value is stored as it is -/
theorem storedValue_of_ref (cfg : MCfg) (k : MKey) (v : Elem) (c : Ctx) (id : SlabID) (h : v.pay = .ref id) :
    storedValue cfg k v c = v := storedValue_ref cfg k v c id h

/-! ### requests, answers, the reference dictionary -/

/-- a request on a map -/
inductive MReq where
  | set (k : MKey) (v : Elem) | get (k : MKey) | has (k : MKey) | remove (k : MKey)
  | count | setType (ty : Nat) | pop

/-- what the client sees -/
inductive MResp where
  | prev (old : Option Elem)          -- `Set`: the value previously bound to the key
  | val (v : Elem)                    -- `Get`
  | bool (b : Bool)                   -- `Has`
  | removed (v : Elem)                -- `Remove`
  | num (n : Nat)                     -- `Count`
  | unit                              -- `SetType`
  | pairs (l : List (MKey × Elem))    -- `PopIterate`: the pairs handed to the callback, in order
  | err (e : MErr)
deriving DecidableEq, Repr

/-- keys carry the digests of the digest function and fit the inline key limit; values offered to
    `set` are plain values of at least one byte (ANY size) -/
def MReq.Ok (T : Nat) (D : DigestFn (r + 1)) : MReq → Prop
  | .set k v => KeyOk T (r + 1) D k ∧ ValueOkM v
  | .get k | .has k | .remove k => KeyOk T (r + 1) D k
  | _ => True

/-- One request against the map model.  Values are returned as the client reads them (`resolve`
    through the large-value slabs created so far).  A refused request returns its error and the
    unchanged state (that a refusal leaves no trace in the CODE is C18's subject). -/
def request (cfg : MCfg) (s : OMap r × Ctx) : MReq → (OMap r × Ctx) × MResp
  | .set k v =>
    match s.1.set cfg k v s.2 with
    | .ok (old, m', c') => ((m', c'), .prev (old.map (resolve c'.created)))
    | .error e => (s, .err e)
  | .get k =>
    match s.1.get cfg k with
    | .ok (_, v) => (s, .val (resolve s.2.created v))
    | .error e => (s, .err e)
  | .has k =>
    match s.1.has cfg k with
    | .ok b => (s, .bool b)
    | .error e => (s, .err e)
  | .remove k =>
    match s.1.remove cfg k s.2 with
    | .ok (_, v, m', c') => ((m', c'), .removed (resolve c'.created v))
    | .error e => (s, .err e)
  | .count => (s, .num s.1.count)
  | .setType ty => (s.1.setType ty s.2, .unit)
  | .pop =>
    let res := s.1.popIterate s.2
    (res.2, .pairs (res.1.map (fun p => (p.1, resolve res.2.2.created p.2))))

/-- a history: final state and the list of answers -/
def run (cfg : MCfg) (s : OMap r × Ctx) : List MReq → (OMap r × Ctx) × List MResp
  | [] => (s, [])
  | q :: qs =>
    let s1 := request cfg s q
    let s2 := run cfg s1.1 qs
    (s2.1, s1.2 :: s2.2)

/-- two association lists denote the same dictionary: distinct keys, same size, same lookups -/
def SameDict (T : Nat) (D : DigestFn (r + 1)) (ps l : List (MKey × Elem)) : Prop :=
  KeysDistinct ps ∧ AllKeyOk T (r + 1) D ps ∧ ps.length = l.length ∧
  ∀ k, KeyOk T (r + 1) D k → dictLookup ps k = dictLookup l k

/-- ONE request answered by the reference dictionary `l` (an association list of keys and VALUES),
    which becomes `l'`.  Deterministic, except that the insertion of a NEW key may be refused with
    the collision-limit error – only when more than `climit` keys of the dictionary already share the
    first-level digest of the new key (exactly when: C12 `limit_refuses_new_key` /
    `limit_allows_update_and_room`) – leaving the dictionary as it was; and `pop` may hand out the
    pairs in any order (the order is C12 `order_canonical` / C02 `pop_refines`). -/
def DictStep (T : Nat) (D : DigestFn (r + 1)) (climit : Nat) (l : List (MKey × Elem)) (q : MReq) (o : MResp)
    (l' : List (MKey × Elem)) : Prop :=
  match q with
  | .set k v =>
    (o = .prev (dictLookup l k) ∧ l' = dictSet l k v) ∨
    (dictLookup l k = none ∧ climit < sameFirstDigest l (k.dig 0) ∧ o = .err .collisionLimit ∧ l' = l)
  | .get k =>
    l' = l ∧ o = (match dictLookup l k with | some v => .val v | none => .err .keyNotFound)
  | .has k => l' = l ∧ o = .bool (dictLookup l k).isSome
  | .remove k =>
    (match dictLookup l k with
     | some v => o = .removed v ∧ l' = dictErase l k
     | none => o = .err .keyNotFound ∧ l' = l)
  | .count => l' = l ∧ o = .num l.length
  | .setType _ => l' = l ∧ o = .unit
  | .pop => l' = [] ∧ ∃ ps, o = .pairs ps ∧ SameDict T D ps l

/-- a list of answers is an answer list of the dictionary started at `l` -/
def DictHistory (T : Nat) (D : DigestFn (r + 1)) (climit : Nat) :
    List (MKey × Elem) → List MReq → List MResp → Prop
  | _, [], [] => True
  | l, q :: qs, o :: os => ∃ l', DictStep T D climit l q o l' ∧ DictHistory T D climit l' qs os
  | _, _, _ => False

/-! ### one step -/

/-- the identity codec (the storage state machine is carried along as ghost state only) -/
def idCodec (r : Nat) : Codec (E2EM.MSSlab r) (E2EM.MSSlab r) :=
  { enc := some, dec := fun _ b => some b, size := fun _ => 0 }

theorem idCodec_roundTrip (r : Nat) : RoundTrip (idCodec r) := by
  intro id v b h
  simp only [idCodec, Option.some.injEq] at h
  simp [idCodec, h]

/-- the state-changing part of a request -/
def MReq.toMOp : MReq → Option MOp
  | .set k v => some (.set k v)
  | .remove k => some (.remove k)
  | .setType ty => some (.setType ty)
  | .pop => some .popIterate
  | _ => none

theorem request_state (cfg : MCfg) (s : OMap r × Ctx) (q : MReq) :
    (request cfg s q).1 = match q.toMOp with | some op => stepM cfg s op | none => s := by
  cases q with
  | set k v => cases h : s.1.set cfg k v s.2 <;> simp [request, MReq.toMOp, stepM, h]
  | get k => cases h : s.1.get cfg k <;> simp [request, MReq.toMOp, h]
  | has k => cases h : s.1.has cfg k <;> simp [request, MReq.toMOp, h]
  | remove k => cases h : s.1.remove cfg k s.2 <;> simp [request, MReq.toMOp, stepM, h]
  | count => rfl
  | setType ty => rfl
  | pop => rfl

/-- the map represents the dictionary `l` -/
structure Rep (T : Nat) (D : DigestFn (r + 1)) (st : OMap r × Ctx) (l : List (MKey × Elem)) : Prop where
  look : ∀ k, KeyOk T (r + 1) D k → lookupR st k = dictLookup l k
  count : st.1.count = l.length
  keys : AllKeyOk T (r + 1) D l
  dist : KeysDistinct l
  perm : (st.1.toList.map (·.1)).Perm (l.map (·.1))

theorem dictLookup_map_val (g : Elem → Elem) (l : List (MKey × Elem)) (k : MKey) :
    dictLookup (l.map (fun p => (p.1, g p.2))) k = (dictLookup l k).map g := by
  induction l with
  | nil => rfl
  | cons p l ih =>
    rw [List.map_cons, dictLookup_cons, dictLookup_cons, ih]
    cases p.1.same k <;> simp

theorem keysDistinct_reverse {l : List (MKey × Elem)} (h : KeysDistinct l) : KeysDistinct l.reverse := by
  unfold KeysDistinct at h ⊢
  rw [List.pairwise_reverse]
  exact h.imp (fun hab => by rw [MKey.same_comm]; exact hab)

theorem dictLookup_reverse {T L : Nat} {D : DigestFn L} {l : List (MKey × Elem)} (hl : AllKeyOk T L D l)
    (hd : KeysDistinct l) {k : MKey} (hk : KeyOk T L D k) : dictLookup l.reverse k = dictLookup l k := by
  have hl' : AllKeyOk T L D l.reverse := fun p hp => hl p (List.mem_reverse.mp hp)
  cases h : dictLookup l k with
  | none =>
    rw [dictLookup_none_iff hl hk] at h
    rw [dictLookup_none_iff hl' hk]
    exact fun p hp => h p (List.mem_reverse.mp hp)
  | some v =>
    have := mem_of_dictLookup_some hl hk h
    exact dictLookup_some_of_mem (keysDistinct_reverse hd) (List.mem_reverse.mpr this)

theorem lookupR_isSome (st : OMap r × Ctx) (k : MKey) :
    (lookupR st k).isSome = (dictLookup st.1.toList k).isSome := by
  simp [lookupR]

section step
variable {T : Nat} {D : DigestFn (r + 1)} {cfg : MCfg}

/-- ONE REQUEST: the answer is the dictionary's, the representation and the invariant are kept. -/
theorem step_refines (hT : legalThreshold T = true) (m : OMap r) (ctx : Ctx)
    (s : St (E2EM.MSSlab r) (E2EM.MSSlab r))
    (hg : MGoodF (idCodec r) T D cfg ((m, ctx), s)) (l : List (MKey × Elem)) (hrep : Rep T D (m, ctx) l)
    (q : MReq) (hq : q.Ok T D) :
    ∃ x' l', x'.1 = (request cfg (m, ctx) q).1 ∧ MGoodF (idCodec r) T D cfg x' ∧ Rep T D x'.1 l' ∧
      DictStep T D cfg.climit l q (request cfg (m, ctx) q).2 l' := by
  have hlook : ∀ k, KeyOk T (r + 1) D k →
      (dictLookup m.toList k).map (resolve ctx.created) = dictLookup l k := hrep.look
  have hcnt0 : m.count = l.length := hrep.count
  cases q with
  | count =>
    refine ⟨((m, ctx), s), l, rfl, hg, hrep, rfl, ?_⟩
    show MResp.num m.count = MResp.num l.length
    rw [hcnt0]
  | get k =>
    have hgr := get_refines T hT D cfg m hg.cfg hg.inv k hq
    have hlk := hlook k hq
    cases hd : dictLookup m.toList k with
    | none =>
      rw [hd] at hgr hlk
      simp only at hgr
      have hreq : request cfg (m, ctx) (.get k) = ((m, ctx), .err .keyNotFound) := by
        simp only [request, hgr]
      rw [hreq]
      refine ⟨((m, ctx), s), l, rfl, hg, hrep, rfl, ?_⟩
      rw [← hlk]; rfl
    | some v =>
      rw [hd] at hgr hlk
      obtain ⟨k', hget, _⟩ := hgr
      have hreq : request cfg (m, ctx) (.get k) = ((m, ctx), .val (resolve ctx.created v)) := by
        simp only [request, hget]
      rw [hreq]
      refine ⟨((m, ctx), s), l, rfl, hg, hrep, rfl, ?_⟩
      rw [← hlk]; rfl
  | has k =>
    have hh := has_refines T hT D cfg m hg.cfg hg.inv k hq
    have hreq : request cfg (m, ctx) (.has k) = ((m, ctx), .bool (dictLookup m.toList k).isSome) := by
      simp only [request, hh]
    rw [hreq]
    refine ⟨((m, ctx), s), l, rfl, hg, hrep, rfl, ?_⟩
    rw [← hlook k hq, Option.isSome_map]
  | setType ty =>
    obtain ⟨hg', hd, _⟩ := E2EM.mgoodF_stepS (idCodec r) (idCodec_roundTrip r) T hT D cfg ((m, ctx), s) hg
      (.setType ty) trivial
    refine ⟨_, l, rfl, hg', ⟨?_, ?_, hrep.keys, hrep.dist, hrep.perm⟩, rfl, rfl⟩
    · intro k hk
      rcases hd with hd | ⟨⟨_, _, hop, _⟩, _⟩
      · rw [hd k hk]; exact hrep.look k hk
      · cases hop
    · show (m.setType ty ctx).1.count = l.length
      rw [← hcnt0]; rfl
  | pop =>
    obtain ⟨hg', hd, _⟩ := E2EM.mgoodF_stepS (idCodec r) (idCodec_roundTrip r) T hT D cfg ((m, ctx), s) hg
      .popIterate trivial
    obtain ⟨hlist, _, hcnt, _, _⟩ := pop_refines T hT D m hg.inv ctx hg.ctx
    obtain ⟨_, hcre⟩ := E2EM.omap_popKeep m ctx
    obtain ⟨_, hlist', _, _, _⟩ := pop_refines T hT D m hg.inv ctx hg.ctx
    refine ⟨_, [], rfl, hg', ⟨?_, ?_, ?_, ?_, ?_⟩, rfl, ?_⟩
    · intro k hk
      rcases hd with hd | ⟨⟨_, _, hop, _⟩, _⟩
      · rw [hd k hk]; rfl
      · cases hop
    · show (m.popIterate ctx).2.1.count = 0
      exact hcnt
    · intro p hp; cases hp
    · exact List.Pairwise.nil
    · show ((m.popIterate ctx).2.1.toList.map (·.1)).Perm _
      rw [hlist']
    · refine ⟨_, rfl, ?_⟩
      simp only [hlist, hcre]
      have hall := hg.inv.allKeyOk
      have hdist := hg.inv.distinct
      have hkeys : ∀ (g : Elem → Elem) (l0 : List (MKey × Elem)), KeysDistinct l0 →
          KeysDistinct (l0.map (fun p => (p.1, g p.2))) := by
        intro g l0 h0
        unfold KeysDistinct at h0 ⊢
        rw [List.pairwise_map]
        exact h0
      refine ⟨hkeys _ _ (keysDistinct_reverse hdist), ?_, ?_, ?_⟩
      · intro p hp
        obtain ⟨q, hq', rfl⟩ := List.mem_map.mp hp
        exact hall q (List.mem_reverse.mp hq')
      · rw [List.length_map, List.length_reverse, ← hg.inv.count_eq]; exact hcnt0
      · intro k hk
        rw [dictLookup_map_val, dictLookup_reverse hall hdist hk]
        exact hlook k hk
  | remove k =>
    obtain ⟨hg', hd, _⟩ := E2EM.mgoodF_stepS (idCodec r) (idCodec_roundTrip r) T hT D cfg ((m, ctx), s) hg
      (.remove k) hq
    have href := remove_refines T hT D cfg m hg.cfg hg.inv k hq ctx hg.ctx
    have hlk := hlook k hq
    cases hdl : dictLookup m.toList k with
    | none =>
      rw [hdl] at href hlk
      simp only at href
      have hst : (stepS (idCodec r) cfg ((m, ctx), s) (.remove k)).1 = (m, ctx) := by
        show stepM cfg (m, ctx) (.remove k) = _
        simp only [stepM, href]
      have hreq : request cfg (m, ctx) (.remove k) = ((m, ctx), .err .keyNotFound) := by
        simp only [request, href]
      rw [hreq]
      refine ⟨_, l, hst, hg', (by rw [hst]; exact hrep), ?_⟩
      show (match dictLookup l k with
        | some v => MResp.err MErr.keyNotFound = .removed v ∧ l = dictErase l k
        | none => MResp.err MErr.keyNotFound = .err .keyNotFound ∧ l = l)
      rw [← hlk]
      exact ⟨rfl, rfl⟩
    | some v =>
      rw [hdl] at href hlk
      obtain ⟨k0, m', c', hrem, _, hdict, hcount, hinv', _, _⟩ := href
      obtain ⟨E, hlogr, _⟩ := E2EM.omap_remove_created hT hg.cfg hg.inv hq ctx hg.ctx hg.ids hrem
      have hcre : c'.created = ctx.created := by rw [hlogr.created]; simp
      have hst : (stepS (idCodec r) cfg ((m, ctx), s) (.remove k)).1 = (m', c') := by
        show stepM cfg (m, ctx) (.remove k) = _
        simp only [stepM, hrem]
      rw [hst] at hd
      have hl_some : dictLookup l k = some (resolve ctx.created v) := by rw [← hlk]; rfl
      have hreq : request cfg (m, ctx) (.remove k) = ((m', c'), .removed (resolve ctx.created v)) := by
        simp only [request, hrem, hcre]
      have hrep' : Rep T D (m', c') (dictErase l k) := by
        refine ⟨?_, ?_, allKeyOk_dictErase hrep.keys, keysDistinct_dictErase hrep.dist, ?_⟩
        · intro k' hk'
          rcases hd with hd | ⟨⟨_, _, hop, _⟩, _⟩
          · rw [hd k' hk', dictLookup_dictErase]
            simp only [specStepM]
            split
            · rfl
            · exact hrep.look k' hk'
          · cases hop
        · have := length_dictErase hrep.dist hl_some
          show m'.count = _
          omega
        · -- the keys: both sides lose exactly the keys equal to `k`
          obtain ⟨m2, c2, heq2, hp2⟩ := (OMap.remove_spec hT hg.cfg hg.inv hq ctx hg.ctx).2 v
            (mem_of_dictLookup_some hg.inv.allKeyOk hq hdl)
          rw [hrem] at heq2
          simp only [Except.ok.injEq, Prod.mk.injEq] at heq2
          obtain ⟨_, _, rfl, _⟩ := heq2
          obtain ⟨A, B, hA, hB⟩ := hp2.eff
          have hdist := hg.inv.distinct
          rw [hA, KeysDistinct.append_iff, KeysDistinct.cons_iff] at hdist
          have hperm := hrep.perm
          show (m'.toList.map (·.1)).Perm ((dictErase l k).map (·.1))
          have e1 : (dictErase l k).map (·.1) = (l.map (·.1)).filter (fun k' => !k'.same k) := by
            unfold dictErase; rw [List.filter_map]; rfl
          have e2 : m'.toList.map (·.1) = (m.toList.map (·.1)).filter (fun k' => !k'.same k) := by
            rw [hA, hB]
            simp only [List.map_append, List.map_cons, List.filter_append, List.filter_cons, MKey.same_self,
              Bool.not_true, Bool.false_eq_true, if_false]
            congr 1
            · symm; rw [List.filter_eq_self]
              intro a ha
              obtain ⟨p, hp, rfl⟩ := List.mem_map.mp ha
              have := hdist.2.2 p hp (k, v) List.mem_cons_self
              simp [this]
            · symm; rw [List.filter_eq_self]
              intro a ha
              obtain ⟨p, hp, rfl⟩ := List.mem_map.mp ha
              have := hdist.2.1.1 p hp
              rw [MKey.same_comm] at this
              simp [this]
          rw [e1, e2]
          exact hperm.filter _
      rw [hreq]
      refine ⟨_, dictErase l k, hst, hg', (by rw [hst]; exact hrep'), ?_⟩
      show (match dictLookup l k with
        | some w => MResp.removed (resolve ctx.created v) = .removed w ∧ dictErase l k = dictErase l k
        | none => MResp.removed (resolve ctx.created v) = .err .keyNotFound ∧ dictErase l k = l)
      rw [hl_some]
      exact ⟨rfl, rfl⟩
  | set k v =>
    obtain ⟨hk, hv⟩ := hq
    obtain ⟨hg', hd, _⟩ := E2EM.mgoodF_stepS (idCodec r) (idCodec_roundTrip r) T hT D cfg ((m, ctx), s) hg
      (.set k v) ⟨hk, hv⟩
    have href := set_refines T hT D cfg m hg.cfg hg.inv k hk v hv ctx hg.ctx
    have hlk := hlook k hk
    cases hr : m.set cfg k v ctx with
    | error e =>
      have hst : (stepS (idCodec r) cfg ((m, ctx), s) (.set k v)).1 = (m, ctx) := by
        show stepM cfg (m, ctx) (.set k v) = _
        simp only [stepM, hr]
      rcases href with ⟨_, _, _, heq, _⟩ | ⟨herr, hnone⟩
      · rw [hr] at heq; cases heq
      · rw [hr] at herr
        cases herr
        have hreq : request cfg (m, ctx) (.set k v) = ((m, ctx), .err .collisionLimit) := by
          simp only [request, hr]
        rw [hreq]
        refine ⟨_, l, hst, hg', (by rw [hst]; exact hrep), Or.inr ?_⟩
        rw [hnone] at hlk
        refine ⟨hlk.symm, ?_, rfl, rfl⟩
        -- refused: the limit check saw more than `climit` entries, hence more than `climit` keys
        have hspec := OMap.set_spec hT hg.cfg hg.inv hk hv ctx
        have hlim : TLimited cfg m.d m.root k := by
          by_cases hl : TLimited cfg m.d m.root k
          · exact hl
          · exfalso
            obtain ⟨_, _, _, heq, _⟩ := hspec.2 hl
            rw [hr] at heq; cases heq
        have hcnt : cfg.climit + 1 ≤ groupCount m.d m.root (k.dig 0) :=
          ((tlimited_iff hT hg.inv.tree hg.inv.sinv k).mp hlim).2
        have hle : groupCount m.d m.root (k.dig 0) ≤ sameFirstDigest (MTree.toList m.d m.root) (k.dig 0) :=
          groupCount_le hg.inv.tree (k.dig 0)
        have hperm := hrep.perm
        have : sameFirstDigest l (k.dig 0) = sameFirstDigest m.toList (k.dig 0) := by
          unfold sameFirstDigest
          have e1 : ∀ (z : List (MKey × Elem)), z.countP (fun p => p.1.dig 0 == k.dig 0) =
              (z.map (·.1)).countP (fun k' => k'.dig 0 == k.dig 0) := by
            intro z; rw [List.countP_map]; rfl
          rw [e1, e1]
          exact (hperm.countP_eq _).symm
        rw [this]
        show cfg.climit < sameFirstDigest (MTree.toList m.d m.root) (k.dig 0)
        omega
    | ok res =>
      obtain ⟨old, m', c'⟩ := res
      rcases href with ⟨old2, m2, c2, heq, hold, hdict, hcount, hinv', _, _⟩ | ⟨herr, _⟩
      · rw [hr] at heq
        simp only [Except.ok.injEq, Prod.mk.injEq] at heq
        obtain ⟨rfl, rfl, rfl⟩ := heq
        have hst : (stepS (idCodec r) cfg ((m, ctx), s) (.set k v)).1 = (m', c') := by
          show stepM cfg (m, ctx) (.set k v) = _
          simp only [stepM, hr]
        rw [hst] at hd
        obtain ⟨E, C, hlog, _, _, _⟩ := E2EM.omap_set_created hT hg.cfg hg.inv hk hv ctx hg.ctx hg.ids hr
        have hcre : c'.created = ctx.created ++ C := hlog.created
        -- the previous value reads the same before and after (its slab, if any, is still there)
        have hold_res : old.map (resolve c'.created) = old.map (resolve ctx.created) := by
          cases ho : old with
          | none => rfl
          | some e =>
            have hmem : (k, e) ∈ m.toList :=
              mem_of_dictLookup_some hg.inv.allKeyOk hk (by rw [← hold, ho])
            simp only [Option.map_some, hcre]
            rw [E2E.resolve_append (hg.refs _ hmem)]
        have hlook' : ∀ k', KeyOk T (r + 1) D k' →
            lookupR (m', c') k' = if k'.same k then some v else lookupR (m, ctx) k' := by
          intro k' hk'
          rcases hd with hd | ⟨⟨k1, v1, hop, hnone⟩, hsame⟩
          · exact hd k' hk'
          · exfalso
            cases hop
            have h1 := hsame k
            have h2 : (lookupR (m', c') k).isSome = true := by
              rw [lookupR_isSome, hdict k hk, MKey.same_self]; rfl
            rw [h1, hnone] at h2
            cases h2
        have hreq : request cfg (m, ctx) (.set k v) = ((m', c'), .prev (old.map (resolve c'.created))) := by
          simp only [request, hr]
        have hrep' : Rep T D (m', c') (dictSet l k v) := by
          refine ⟨?_, ?_, allKeyOk_dictSet hrep.keys hk, keysDistinct_dictSet hrep.dist, ?_⟩
          · intro k' hk'
            rw [hlook' k' hk', dictLookup_dictSet]
            split
            · rfl
            · exact hrep.look k' hk'
          · show m'.count = _
            rw [length_dictSet, hcount, ← hlk, Option.isSome_map]
            split <;> omega
          · -- the keys: a new key is added on both sides, an overwrite keeps them
            have hspec := OMap.set_spec hT hg.cfg hg.inv hk hv ctx
            have hnl : ¬ TLimited cfg m.d m.root k := by
              intro hl; rw [hspec.1 hl] at hr; cases hr
            obtain ⟨old2, m2, c2, heq2, hp2⟩ := hspec.2 hnl
            rw [hr] at heq2
            simp only [Except.ok.injEq, Prod.mk.injEq] at heq2
            obtain ⟨rfl, rfl, _⟩ := heq2
            have hperm := hrep.perm
            show (m'.toList.map (·.1)).Perm ((dictSet l k v).map (·.1))
            rcases hp2.eff with ⟨ho, _, A, B, hA, hB⟩ | ⟨v0, A, B, ho, hA, hB⟩
            · have hnone : dictLookup l k = none := by rw [← hlk, ← hold, ho]; rfl
              have e1 : (dictSet l k v).map (·.1) = l.map (·.1) ++ [k] := by
                unfold dictSet; rw [hnone]; simp
              rw [e1, hB]
              rw [hA] at hperm
              simp only [List.map_append, List.map_cons] at hperm ⊢
              exact (List.perm_middle.trans (List.Perm.cons k hperm)).trans (List.perm_append_singleton k _).symm
            · have hsome : (dictLookup l k).isSome = true := by rw [← hlk, ← hold, ho]; rfl
              have e1 : (dictSet l k v).map (·.1) = l.map (·.1) := by
                unfold dictSet; rw [if_pos hsome, List.map_map]
                apply List.map_congr_left
                intro p _
                simp only [Function.comp]
                split <;> rfl
              rw [e1, hB]
              rw [hA] at hperm
              simpa using hperm
        rw [hreq]
        refine ⟨_, dictSet l k v, hst, hg', (by rw [hst]; exact hrep'), Or.inl ⟨?_, rfl⟩⟩
        rw [hold_res, hold, hlk]
      · rw [hr] at herr; cases herr

end step

/-! ### histories -/

theorem run_refines_from (T : Nat) (hT : legalThreshold T = true) (D : DigestFn (r + 1)) (cfg : MCfg) :
    ∀ (reqs : List MReq) (x : (OMap r × Ctx) × St (E2EM.MSSlab r) (E2EM.MSSlab r)) (l : List (MKey × Elem)),
      MGoodF (idCodec r) T D cfg x → Rep T D x.1 l → (∀ q ∈ reqs, q.Ok T D) →
      DictHistory T D cfg.climit l reqs (run cfg x.1 reqs).2 ∧
      ∃ x' l', x'.1 = (run cfg x.1 reqs).1 ∧ MGoodF (idCodec r) T D cfg x' ∧ Rep T D x'.1 l'
  | [], x, l, hg, hrep, _ => ⟨trivial, x, l, rfl, hg, hrep⟩
  | q :: qs, x, l, hg, hrep, hok => by
    obtain ⟨x1, l1, hx1, hg1, hrep1, hstep⟩ := step_refines hT x.1.1 x.1.2 x.2 hg l hrep q (hok q (by simp))
    obtain ⟨hh, x2, l2, hx2, hg2, hrep2⟩ := run_refines_from T hT D cfg qs x1 l1 hg1 hrep1
      (fun q' hq' => hok q' (by simp [hq']))
    rw [hx1] at hh hx2
    exact ⟨⟨l1, hstep, hh⟩, x2, l2, hx2, hg2, hrep2⟩

theorem run_take (cfg : MCfg) : ∀ (reqs : List MReq) (s : OMap r × Ctx) (n : Nat),
    (run cfg s (reqs.take n)).2 = (run cfg s reqs).2.take n
  | [], _, n => by simp [run]
  | _ :: _, _, 0 => by simp [run]
  | q :: qs, s, n + 1 => by
    simp only [List.take_succ_cons, run]
    rw [run_take cfg qs]

/-- RUN REFINES (C02 at history level).  For every legal threshold `T`, every digest function `D`
    (any hash distribution, any collisions), every number of digest levels, and EVERY list of
    requests – `set` (plain values of any size), `get`, `has`, `remove`, `count`, `setType`, `pop` –
    issued to a new map:
      * the list of answers is an answer list of the reference dictionary started empty
        (`DictHistory`: previous values, looked-up values, presence, removed values, counts, popped
        pairs all as in an association list; a refusal is either key-not-found for an absent key or
        the collision limit for a NEW key that shares its first-level digest with more than `climit`
        keys of the dictionary, and leaves the dictionary unchanged);
      * after every prefix of the history the map satisfies `MapInv` and its count is the number of
        pairs it holds. -/
theorem run_refines (T : Nat) (hT : legalThreshold T = true) (D : DigestFn (r + 1)) (cfg : MCfg)
    (hcT : cfg.T = T) (hcL : cfg.L = r + 1) (haddr : cfg.addr ≠ 0) (ty : Nat) (seedOf : SlabID → Nat)
    (reqs : List MReq) (hreqs : ∀ q ∈ reqs, q.Ok T D) :
    DictHistory T D cfg.climit [] reqs (run cfg (OMap.new (r := r) cfg.addr ty seedOf ⟨0, [], []⟩) reqs).2 ∧
    ∀ n, MapInv T D (run cfg (OMap.new (r := r) cfg.addr ty seedOf ⟨0, [], []⟩) (reqs.take n)).1.1 ∧
      (run cfg (OMap.new (r := r) cfg.addr ty seedOf ⟨0, [], []⟩) (reqs.take n)).1.1.count =
        (run cfg (OMap.new (r := r) cfg.addr ty seedOf ⟨0, [], []⟩) (reqs.take n)).1.1.toList.length := by
  obtain ⟨g0, _, _, _, hl0⟩ := E2EM.mgoodF_new (idCodec r) (idCodec_roundTrip r) T hT D cfg hcT hcL haddr ty seedOf
  have hrep0 : Rep T D (newS (idCodec r) cfg.addr ty seedOf).1 [] :=
    ⟨fun k _ => hl0 k, rfl, fun p hp => (by cases hp), List.Pairwise.nil, List.Perm.refl _⟩
  have hs0 : (newS (idCodec r) cfg.addr ty seedOf).1 = OMap.new (r := r) cfg.addr ty seedOf ⟨0, [], []⟩ := rfl
  constructor
  · have := (run_refines_from T hT D cfg reqs _ [] g0 hrep0 hreqs).1
    rw [hs0] at this
    exact this
  · intro n
    obtain ⟨_, x', l', hx', hg', _⟩ := run_refines_from T hT D cfg (reqs.take n) _ [] g0 hrep0
      (fun q hq => hreqs q (List.mem_of_mem_take hq))
    rw [hs0] at hx'
    rw [← hx']
    exact ⟨hg'.inv, hg'.inv.count_eq⟩

/-! ### Non-vacuity

A concrete history on the two-level digest function of `MapExample` (collision limit 1): fully
colliding keys (111, 112), a second second-level digest (121), a third one that the limit refuses
(131), a value of 5000 bytes (stored as a reference to a large-value slab and read back resolved),
lookups of present and absent keys, removals of present and absent keys, `SetType`, `Count`,
`PopIterate`.  The answers are computed by RUNNING the model; `run_refines` applies to it. -/
section NonVacuity
open MapExample

def big : Elem := { size := 5000, pay := .val 77 }

def hist : List MReq :=
  [.set (key 111) (val 1), .set (key 112) (val 2), .set (key 121) (val 3), .set (key 131) (val 4),
   .set (key 211) big, .count, .get (key 211), .get (key 112), .get (key 131), .has (key 121), .has (key 122),
   .set (key 112) (val 5), .remove (key 111), .remove (key 111), .setType 9, .count, .pop, .count, .get (key 112)]

theorem hist_ok : ∀ q ∈ hist, q.Ok 256 D2 := by
  intro q hq
  simp only [hist, List.mem_cons, List.not_mem_nil, or_false] at hq
  rcases hq with rfl | rfl | rfl | rfl | rfl | rfl | rfl | rfl | rfl | rfl | rfl | rfl | rfl | rfl | rfl | rfl | rfl |
    rfl | rfl
  all_goals first
    | exact ⟨key_ok _, val_ok _⟩
    | exact ⟨key_ok _, (by decide : 1 ≤ 5000), 77, rfl⟩
    | exact key_ok _
    | trivial

example : (run cfg2 (OMap.new (r := 1) cfg2.addr 0 (fun id => id.idx) ⟨0, [], []⟩) hist).2 =
    [.prev none, .prev none, .prev none, .err .collisionLimit, .prev none, .num 4, .val big, .val (val 2),
     .err .keyNotFound, .bool true, .bool false, .prev (some (val 2)), .removed (val 1), .err .keyNotFound,
     .unit, .num 3, .pairs [(key 211, big), (key 121, val 3), (key 112, val 5)], .num 0,
     .err .keyNotFound] := by decide

example := run_refines 256 legal256 D2 cfg2 rfl rfl (by decide) 0 (fun id => id.idx) hist hist_ok

/-- `setType_refines` and `set_refines_any` (with a reference value) apply to the concrete map of C02 -/
example := setType_refines 256 D2 MapExample.run.1 run_good.inv 5 MapExample.run.2 run_good.ctx
example := set_refines_any 256 legal256 D2 cfg2 MapExample.run.1 run_good.cfgok run_good.inv (key 312) (key_ok _)
  MapRefExample.refVal (MapRefExample.refVal_ok 312) MapExample.run.2 run_good.ctx

end NonVacuity

end Atree.C02
