import AtreeProofs.Props.TransMapDescentSetFull4
import AtreeProofs.Props.TransMapDescentRemoveFull
/-
  MAP DESCENT, round 4 (WP13): THE WHOLE `MTree.remove` / `OMap.remove` OVER THE HEAP composed over the tail predicates of
  `Set` (`mds_Pre`, `mds_Post`, `mds_FreshFree`, `MSplitTail`, `MMorTailH`, `MRootTailR`, `mds_RootPreR`, `mds_Delta`):
  mirrors TransMapDescentSetFull.lean .. SetFull3.lean with the step theorems of TransMapDescentRemove.lean /
  TransMapDescentTopRemove.lean.  No new provider work: the tails are the ones proved for `rsOf`.
  Helper names carry the prefix `mdsr_`.
-/
namespace Atree.TransEq
open Atree Atree.Gen.TransMapD

section
variable {r : Nat}

section
variable (eb : DEnvB r) (rs : DRestruct r)

/-- what the theorem assumes ALONG THE PATH of the key (`Remove` searches from "no child": when the search finds
    nothing the operation is `KeyNotFound` and nothing else is needed) -/
def mdsr_Path (cfg : MCfg) (k : MKey) (P : DG r → Prop) (L : MDataSlab r → Prop)
    (Qin : (d : Nat) → MTree r d → Prop) : (d : Nat) → MTree r d → Ctx → Prop
  | 0, (sl : MDataSlab r), _ => P sl.elems ∧ sl.hdr.id.addr = cfg.addr ∧ sl.inlined = false ∧ L sl
  | d + 1, (m : MMetaSlab (MTree r d)), c =>
    (∀ h ∈ m.childHdrs, h.firstKey < 2^64) ∧ m.childHdrs.length < 2^62 ∧ Gen.mapSlabHeaderSize ≤ m.hdr.size ∧
    m.childHdrs = m.children.map (MTree.hdr d) ∧ (∀ c' ∈ m.children, Qin d c') ∧
    ∀ i, MMetaSlab.findChild m.childHdrs (k.dig 0) 0 m.childHdrs.length none (m.childHdrs.length + 1) = some i →
      ∃ child : MTree r d, m.children[i]? = some child ∧
        mds_rootFlag d child = false ∧
        mdsr_Path cfg k P L Qin d child c ∧
        ∀ rk rv child' c1, MTree.remove cfg d child k c = .ok (rk, rv, child', c1) → (MTree.hdr d child').size < 2^32

/-- the generated descent on a subtree against the model's `MTree.remove`, every branch -/
def mdsr_rel (cfg : MCfg) (k : MKey) (depth d : Nat) (t : MTree r d) (x : Option DX) (s : MHSt r) : Prop :=
  match MTree.remove cfg d t k s.ctx with
  | .ok (rk, rv, t', c') =>
    ∃ s', MapSlab_Remove (envD cfg.T eb rs) (MapMetaDataSlab_Remove (envD cfg.T eb rs) depth) (md_tree d t x) s k (u64 0)
        (u64 (k.dig 0)) (.key k) = some (some (.key rk), some (.val rv), none, md_tree d t' x, s') ∧
      s'.ctx = c' ∧ s'.popped = s.popped ∧ mds_Post cfg.addr s s' d t t' x
  | .error e =>
    ∃ root' s', MapSlab_Remove (envD cfg.T eb rs) (MapMetaDataSlab_Remove (envD cfg.T eb rs) depth) (md_tree d t x) s k
        (u64 0) (u64 (k.dig 0)) (.key k) = some (none, none, some e, root', s')

/-- the leaf -/
theorem mdsr_leaf (cfg : MCfg) (k : MKey) (v : Elem) (P : DG r → Prop) (hE : ElemsSpec cfg k v P eb)
    (sl : MDataSlab r) (x x0 : Option DX) (hx : x.isSome = sl.root) (hP : P sl.elems) (s : MHSt r)
    (ha : sl.hdr.id.addr = cfg.addr) (hinl : sl.inlined = false) (hh : MHolds s.heap 0 sl x0)
    (hff : mds_FreshFree cfg.addr s)
    (hmono : ∀ rk rv sl' c', MDataSlab.remove cfg sl k s.ctx = .ok (rk, rv, sl', c') → s.ctx.ctr ≤ c'.ctr)
    (depth : Nat) : mdsr_rel eb rs cfg k depth 0 sl x s := by
  have h := Ob_MapDataSlab_Remove_heap cfg.T eb rs cfg k v P hE sl x hx hP s
  unfold mdsr_rel
  have hm : MTree.remove cfg 0 sl k s.ctx = MDataSlab.remove cfg sl k s.ctx := rfl
  rw [hm]
  rcases hq : MDataSlab.remove cfg sl k s.ctx with e | ⟨rk, rv, sl', c'⟩
  · rw [hq] at h
    refine ⟨.dataSlab (md_data sl x), s, ?_⟩
    show MapSlab_Remove _ _ (.dataSlab (md_data sl x)) _ _ _ _ _ = _
    simp only [MapSlab_Remove, h]
  · rw [hq] at h
    obtain ⟨hi', hid'⟩ := mdr_data_remove_inv hq
    have hi'' : sl'.inlined = false := by rw [hi', hinl]
    refine ⟨mdr_leafSt s sl' x c', ?_, rfl, rfl, ?_⟩
    · show MapSlab_Remove _ _ (.dataSlab (md_data sl x)) _ _ _ _ _ = _
      simp only [MapSlab_Remove, h]
      rfl
    · have hheap : ∀ i, (mdr_leafSt s sl' x c').heap i =
          if i = sl.hdr.id then some (.dataSlab (md_data sl' x)) else s.heap i := by
        intro i
        simp only [mdr_leafSt, hi'', Bool.false_eq_true, if_false, hid']
      have hrel : mds_HeapRel s.heap (mdr_leafSt s sl' x c').heap 0 sl sl' x := by
        refine ⟨?_, ?_, ?_⟩
        · show [sl'.hdr.id] = [sl.hdr.id]
          rw [hid']
        · show (mdr_leafSt s sl' x c').heap sl'.hdr.id = _
          rw [hheap, hid', if_pos rfl]
        · intro id hid
          have hne : id ≠ sl.hdr.id := fun e => hid (e ▸ List.mem_singleton.mpr rfl)
          rw [hheap, if_neg hne]
      exact mds_Post_of_HeapRel hrel (by show [sl.hdr.id].Nodup; simp)
        (fun id hid => by rw [List.mem_singleton.mp hid]; exact ha) hh hff (hmono rk rv sl' c' hq)

/-- one level: from the relation on the child to the relation on the index slab, all three tails -/
theorem mdsr_meta (cfg : MCfg) (k : MKey) (Q Qin : (d : Nat) → MTree r d → Prop)
    (hS : MSplitTail cfg.T rs Q) (hM : MMorTailH cfg.T rs Q)
    (hQin : ∀ d (t : MTree r d), Qin d t → Q d t)
    (hQrem : ∀ d (t t' : MTree r d) rk rv c c', Qin d t → MTree.remove cfg d t k c = .ok (rk, rv, t', c') → Q d t')
    (hT1 : maxThr cfg.T < 2^32) (hT2 : minThr cfg.T < 2^32) (hhk : k.dig 0 < 2^64)
    (d depth : Nat) (m : MMetaSlab (MTree r d)) (x x0 : Option DX) (s : MHSt r)
    (hfk : ∀ h ∈ m.childHdrs, h.firstKey < 2^64) (hlen : m.childHdrs.length < 2^62)
    (hrecv : Gen.mapSlabHeaderSize ≤ m.hdr.size)
    (hhdrs : m.childHdrs = m.children.map (MTree.hdr d)) (hQ : ∀ c ∈ m.children, Qin d c)
    (hh : MHolds s.heap (d + 1) m x0) (hnd : (md_ids (d + 1) m).Nodup)
    (haddr : ∀ id ∈ md_ids (d + 1) m, id.addr = cfg.addr)
    (hpath : ∀ i, MMetaSlab.findChild m.childHdrs (k.dig 0) 0 m.childHdrs.length none (m.childHdrs.length + 1) = some i →
      ∃ child : MTree r d, m.children[i]? = some child ∧
        (∀ rk rv child' c1, MTree.remove cfg d child k s.ctx = .ok (rk, rv, child', c1) →
          (MTree.hdr d child').size < 2^32) ∧
        mdsr_rel eb rs cfg k depth d child none s) :
    mdsr_rel eb rs cfg k (depth + 1) (d + 1) m x s := by
  unfold mdsr_rel
  rw [mdr_remove_succ]
  cases hfind : MMetaSlab.findChild m.childHdrs (k.dig 0) 0 m.childHdrs.length none (m.childHdrs.length + 1) with
  | none =>
    refine ⟨.metaSlab (md_meta m x), s, ?_⟩
    show MapSlab_Remove _ _ (.metaSlab (md_meta m x)) _ _ _ _ _ = _
    simp only [MapSlab_Remove]
    rw [Ob_MapMetaDataSlab_Remove_keyNotFound cfg.T eb rs m x s k (k.dig 0) depth hhk hfk hlen hfind]
  | some i =>
    obtain ⟨child, hci, hsz, ihc⟩ := hpath i hfind
    simp only [hci]
    have hheap : s.heap (MTree.hdr d child).id = some (md_tree d child none) :=
      (hh.2 child (List.mem_of_getElem? hci)).root
    have hhi : m.childHdrs[i]? = some (MTree.hdr d child) := by
      have : (m.children.map (MTree.hdr d))[i]? = some (MTree.hdr d child) := by
        rw [List.getElem?_map, hci]; rfl
      rw [← hhdrs] at this; exact this
    have hil : i < m.childHdrs.length := (List.getElem?_eq_some_iff.mp hhi).1
    have hgetD : m.childHdrs.getD i default = MTree.hdr d child := by simp [List.getD, hhi]
    have hheap' : s.heap (m.childHdrs.getD i default).id = some (md_tree d child none) := by
      rw [hgetD]; exact hheap
    unfold mdsr_rel at ihc
    rcases hq : MTree.remove cfg d child k s.ctx with e | ⟨rk, rv, child', c1⟩
    · rw [hq] at ihc
      obtain ⟨root', s1, h1⟩ := ihc
      refine ⟨.metaSlab (md_meta m x), s1, ?_⟩
      show MapSlab_Remove _ _ (.metaSlab (md_meta m x)) _ _ _ _ _ = _
      simp only [MapSlab_Remove]
      rw [Ob_MapMetaDataSlab_Remove_childErr cfg.T eb rs m x s k (k.dig 0) depth hhk hfk hlen i hfind hil
        (md_tree d child none) root' s1 none none e hheap' h1]
    · rw [hq] at ihc
      obtain ⟨s1, h1, h2, h3, hpost⟩ := ihc
      subst h2
      have hsz' := hsz rk rv child' s1.ctx hq
      obtain ⟨hpre, hk1, As, Bs, e1, e2⟩ := mds_Pre_after_child (Q := Q) m x0 child child' i hci hh hnd haddr hhdrs
        (fun c hc => hQin d c (hQ c hc)) (hQrem d child child' rk rv _ _ (hQ child (List.mem_of_getElem? hci)) hq) hpost
      have hm1 : mdr_m1 (md_meta m x) i (mdr_hdrOf (md_tree d child' none)) = md_meta (mds_metaAfter m child' i) x := by
        rw [mdr_hdrOf_md_tree]; exact mdr_m1_md_meta m child' i x
      have hgen : MapSlab_Remove (envD cfg.T eb rs) (MapMetaDataSlab_Remove (envD cfg.T eb rs) (depth + 1))
          (md_tree (d + 1) m x) s k (u64 0) (u64 (k.dig 0)) (.key k) =
          (mdr_after cfg.T eb rs (md_meta (mds_metaAfter m child' i) x) s1 (md_tree d child' none) i (some (.key rk))
            (some (.val rv))).map (fun r_ => (r_.1, r_.2.1, r_.2.2.1, MapSlab.metaSlab r_.2.2.2.1, r_.2.2.2.2)) := by
        show MapSlab_Remove _ _ (.metaSlab (md_meta m x)) _ _ _ _ _ = _
        simp only [MapSlab_Remove]
        rw [Ob_MapMetaDataSlab_Remove_step cfg.T eb rs m x s k (k.dig 0) depth hhk hfk hlen i hfind hil
          (md_tree d child none) (md_tree d child' none) s1 _ _ hheap' h1, hm1]
        generalize mdr_after _ _ _ _ _ _ _ _ _ = q
        cases q <;> rfl
      simp only [mdr_afterChild_eq]
      have hfullG := mdr_isFull_md_tree cfg.T eb rs d child' none hsz' hT1
      cases hf : MTree.isFull cfg.T d child' with
      | true =>
        have ht := hS cfg.addr d _ x child' _ s1 hpre hk1 hf
        rw [hf] at hfullG
        simp only [if_true]
        rcases hsp : MMetaSlab.splitChildSlab (mdr_model_m1 m child' i) child' i s1.ctx with e | ⟨m', c'⟩
        · have hsp' : MMetaSlab.splitChildSlab (mds_metaAfter m child' i) child' i s1.ctx = .error e := hsp
          rw [hsp'] at ht
          obtain ⟨a, s', w, hr⟩ := ht
          refine ⟨.metaSlab a, s', ?_⟩
          rw [hgen]; simp only [mdr_after, hfullG, hr]; rfl
        · have hsp' : MMetaSlab.splitChildSlab (mds_metaAfter m child' i) child' i s1.ctx = .ok (m', c') := hsp
          rw [hsp'] at ht
          obtain ⟨s', w, hr, hc, hpp, hpo⟩ := ht
          refine ⟨s', ?_, hc, by rw [hpp, h3], mds_compose_post e1 e2 hpost hpo⟩
          rw [hgen]; simp only [mdr_after, hfullG, hr]; rfl
      | false =>
        rw [hf] at hfullG
        simp only [Bool.false_eq_true, if_false]
        cases hu : MTree.isUnderflow cfg.T d child' with
        | some u =>
          have ht := hM cfg.addr d _ x child' _ u s1 hpre hrecv hk1 hf hu
          have hunG := mdr_isUnderflow_md_tree_some cfg.T eb rs d child' none u hsz' hT2 hu
          simp only []
          rcases hsp : MMetaSlab.mergeOrRebalanceChildSlab cfg.T (mdr_model_m1 m child' i) child' i u s1.ctx
            with e | ⟨m', c'⟩
          · have hsp' : MMetaSlab.mergeOrRebalanceChildSlab cfg.T (mds_metaAfter m child' i) child' i u s1.ctx =
                .error e := hsp
            rw [hsp'] at ht
            obtain ⟨a, s', w, hr⟩ := ht
            refine ⟨.metaSlab a, s', ?_⟩
            rw [hgen]; simp only [mdr_after, hfullG, hunG, hr]; rfl
          · have hsp' : MMetaSlab.mergeOrRebalanceChildSlab cfg.T (mds_metaAfter m child' i) child' i u s1.ctx =
                .ok (m', c') := hsp
            rw [hsp'] at ht
            obtain ⟨s', w, hr, hc, hpp, hpo⟩ := ht
            refine ⟨s', ?_, hc, by rw [hpp, h3], mds_compose_post e1 e2 hpost hpo⟩
            rw [hgen]; simp only [mdr_after, hfullG, hunG, hr]; rfl
        | none =>
          have hunG := mdr_isUnderflow_md_tree cfg.T eb rs d child' none hsz' hT2 hu
          simp only []
          refine ⟨s1.store m.hdr.id (.metaSlab (md_meta (mds_metaAfter m child' i) x)), ?_, rfl, h3,
            mds_compose_post e1 e2 hpost (mds_Post_store x hpre)⟩
          rw [hgen]; simp only [mdr_after, hfullG, hunG]; rfl

/-- THE WHOLE `MTree.remove` OVER THE HEAP, given the (Set) tails: results `(removed key, removed value, nil)`, the new
    subtree root `md_tree d t' x`, `s'.ctx = c'`, and `mds_Post` (heap holds `t'`, fresh / gone / frame relative to
    `md_ids t ∪ md_ids t'`, fresh identifiers free); a model error (`KeyNotFound` ..) comes back as that error value.
    `hQrem`: tight inputs give `Q` results; `hmono`: the model's leaf removal does not lower the counter. -/
theorem Ob_MapSlab_Remove_heap_of_tailsH (cfg : MCfg) (k : MKey) (v : Elem) (P : DG r → Prop) (L : MDataSlab r → Prop)
    (Q Qin : (d : Nat) → MTree r d → Prop) (hE : ElemsSpec cfg k v P eb)
    (hS : MSplitTail cfg.T rs Q) (hM : MMorTailH cfg.T rs Q)
    (hQin : ∀ d (t : MTree r d), Qin d t → Q d t)
    (hQrem : ∀ d (t t' : MTree r d) rk rv c c', Qin d t → MTree.remove cfg d t k c = .ok (rk, rv, t', c') → Q d t')
    (hmono : ∀ (sl : MDataSlab r) c rk rv sl' c', L sl → MDataSlab.remove cfg sl k c = .ok (rk, rv, sl', c') →
      c.ctr ≤ c'.ctr)
    (hT1 : maxThr cfg.T < 2^32) (hT2 : minThr cfg.T < 2^32) (hhk : k.dig 0 < 2^64) :
    ∀ (d depth : Nat) (t : MTree r d) (x x0 : Option DX) (s : MHSt r), d ≤ depth → MHolds s.heap d t x0 →
      x.isSome = mds_rootFlag d t → (md_ids d t).Nodup → (∀ id ∈ md_ids d t, id.addr = cfg.addr) →
      mds_FreshFree cfg.addr s → mdsr_Path cfg k P L Qin d t s.ctx →
      match MTree.remove cfg d t k s.ctx with
      | .ok (rk, rv, t', c') =>
        ∃ s', MapSlab_Remove (envD cfg.T eb rs) (MapMetaDataSlab_Remove (envD cfg.T eb rs) depth) (md_tree d t x) s k
            (u64 0) (u64 (k.dig 0)) (.key k) = some (some (.key rk), some (.val rv), none, md_tree d t' x, s') ∧
          s'.ctx = c' ∧ s'.popped = s.popped ∧ mds_Post cfg.addr s s' d t t' x
      | .error e =>
        ∃ root' s', MapSlab_Remove (envD cfg.T eb rs) (MapMetaDataSlab_Remove (envD cfg.T eb rs) depth) (md_tree d t x) s k
            (u64 0) (u64 (k.dig 0)) (.key k) = some (none, none, some e, root', s') := by
  intro d
  induction d with
  | zero =>
    intro depth t x x0 s _ hh hx _ _ ffs hp
    exact mdsr_leaf eb rs cfg k v P hE t x x0 hx hp.1 s hp.2.1 hp.2.2.1 hh ffs
      (fun rk rv sl' c' hq => hmono t s.ctx rk rv sl' c' hp.2.2.2 hq) depth
  | succ d ih =>
    intro depth t x x0 s hd hh _ hnd haddr ffs hp
    obtain ⟨hfk, hlen, hrecv, hhdrs, hQ, hpath⟩ := hp
    cases depth with
    | zero => omega
    | succ depth' =>
      refine mdsr_meta eb rs cfg k Q Qin hS hM hQin hQrem hT1 hT2 hhk d depth' t x x0 s hfk hlen hrecv hhdrs hQ hh hnd
        haddr (fun i hfind => ?_)
      obtain ⟨child, hci, hroot, hpc, hsz⟩ := hpath i hfind
      have hmem : child ∈ MMetaSlab.children t := List.mem_of_getElem? hci
      have hhc : MHolds s.heap d child none := hh.2 child hmem
      have hsub : ∀ id ∈ md_ids d child, id ∈ md_ids (d + 1) t :=
        fun id hid => List.mem_cons_of_mem _ (List.mem_flatMap.mpr ⟨child, hmem, hid⟩)
      have hndc : (md_ids d child).Nodup := by
        obtain ⟨A, B, hAB, _⟩ := mds_split_at (MMetaSlab.children t) _ child hci
        have hids : md_ids (d + 1) t =
            (MMetaSlab.hdr t).id :: (A.flatMap (md_ids d) ++ (md_ids d child ++ B.flatMap (md_ids d))) := by
          show (MMetaSlab.hdr t).id :: (MMetaSlab.children t).flatMap (md_ids d) = _
          rw [hAB]; simp
        rw [hids] at hnd
        exact (List.nodup_append.mp (List.nodup_append.mp (List.nodup_cons.mp hnd).2).2.1).1
      exact ⟨child, hci, hsz, ih depth' child none none s (by omega) hhc (by rw [hroot]; rfl) hndc
        (fun id hid => haddr id (hsub id hid)) ffs hpc⟩

end

/-! ### the top level -/

section
variable (T : Nat) (eb : DEnvB r) (rs : DRestruct r) (Q : (d : Nat) → MTree r d → Prop) (QR : OMap r → Prop)

/-- `if m.root.IsFull() { m.splitRoot() }` and the result `(removed key, removed value, nil)` -/
def mdsr_finish (rk rv : Option SV) (M : DMap r) : Option (Option SV × Option SV × Option GE × DMap r) :=
  match MapSlab_IsFull (envD T eb rs) M.root with
  | none => none
  | some true =>
    let q := rs.splitRoot M
    if (!q.1.isNone) then some (none, none, q.1, q.2) else some (rk, rv, none, q.2)
  | some false => some (rk, rv, none, M)

theorem mdsr_finish_model (hR : MRootTailR T rs QR) (hT1 : maxThr T < 2^32) (addr : Nat) (m2 : OMap r) (s2 : MHSt r)
    (x2 : Option DX) (rk rv : Option SV) (hpre : mds_RootPreR QR addr s2 m2 x2)
    (hsz : (MTree.hdr m2.d m2.root).size < 2^32) :
    match m2.splitRootIfFull T s2.ctx with
    | .ok (m3, c3) =>
      ∃ s3 x3, mdsr_finish T eb rs rk rv (md_map m2 s2) = some (rk, rv, none, md_map m3 s3) ∧ s3.ctx = c3 ∧
        s3.popped = s2.popped ∧ mds_RootPreR QR addr s3 m3 x3 ∧
        mds_Delta s2.heap s3.heap (md_ids m2.d m2.root) (md_ids m3.d m3.root)
    | .error e => ∃ M', mdsr_finish T eb rs rk rv (md_map m2 s2) = some (none, none, some e, M') := by
  have hfull : MapSlab_IsFull (envD T eb rs) (md_map m2 s2).root = some (MTree.isFull T m2.d m2.root) :=
    mds_isFull_tree T eb rs m2.d m2.root _ hsz hT1
  unfold mdsr_finish
  rw [hfull]
  unfold OMap.splitRootIfFull
  cases hf : MTree.isFull T m2.d m2.root with
  | false =>
    simp only [Bool.false_eq_true, if_false]
    exact ⟨s2, x2, rfl, rfl, rfl, hpre, mds_Delta.refl _ _⟩
  | true =>
    simp only [if_true]
    have ht := hR.splitRoot addr m2 s2 x2 hpre hf
    rcases hsp : m2.splitRoot s2.ctx with e | ⟨m3, c3⟩
    · rw [hsp] at ht
      obtain ⟨M', hr⟩ := ht
      exact ⟨M', by rw [hr]; rfl⟩
    · rw [hsp] at ht
      obtain ⟨s3, hr, hc, hpp, hpre3, hdl⟩ := ht
      exact ⟨s3, _, by rw [hr]; rfl, hc, hpp, hpre3, hdl⟩

theorem mdsr_promote_model (hR : MRootTailR T rs QR)
    (hQRhdrs : ∀ d (xr : MMetaSlab (MTree r d)) ty cnt seed, QR ⟨d + 1, xr, ty, cnt, seed⟩ →
      xr.childHdrs = xr.children.map (MTree.hdr d))
    (addr : Nat) (m1 : OMap r) (s1 : MHSt r) (x1 : Option DX) (hpre : mds_RootPreR QR addr s1 m1 x1) :
    ∃ s2 x2, mdr_promoteStep rs (md_map m1 s1) = (none, md_map (m1.promoteIfSingleChild s1.ctx).1 s2) ∧
      s2.ctx = (m1.promoteIfSingleChild s1.ctx).2 ∧ s2.popped = s1.popped ∧
      mds_RootPreR QR addr s2 (m1.promoteIfSingleChild s1.ctx).1 x2 ∧
      mds_Delta s1.heap s2.heap (md_ids m1.d m1.root) (md_ids _ (m1.promoteIfSingleChild s1.ctx).1.root) := by
  obtain ⟨d, root, ty, cnt, seed⟩ := m1
  cases d with
  | zero => exact ⟨s1, x1, rfl, rfl, rfl, hpre, mds_Delta.refl _ _⟩
  | succ d =>
    have hc : MMetaSlab.childHdrs root = (MMetaSlab.children root).map (MTree.hdr d) := hQRhdrs d root ty cnt seed hpre.inv
    have hroot : (md_map (⟨d + 1, root, ty, cnt, seed⟩ : OMap r) s1).root =
        .metaSlab (md_meta root (some (md_extra (⟨d + 1, root, ty, cnt, seed⟩ : OMap r)))) := rfl
    rcases hch : MMetaSlab.childHdrs root with _ | ⟨h, _ | ⟨h2, tl⟩⟩
    · have hm : OMap.promoteIfSingleChild ⟨d + 1, root, ty, cnt, seed⟩ s1.ctx = (⟨d + 1, root, ty, cnt, seed⟩, s1.ctx) := by
        simp only [OMap.promoteIfSingleChild, hch]
      rw [hm]
      refine ⟨s1, x1, ?_, rfl, rfl, hpre, mds_Delta.refl _ _⟩
      simp only [mdr_promoteStep, hroot, md_meta, hch, List.map_nil]
    · have ht := hR.promote addr d root ty cnt seed h s1 x1 hch hc hpre
      obtain ⟨s2, hr, hc2, hpp, hpre2, hdl⟩ := ht
      refine ⟨s2, _, ?_, hc2, hpp, hpre2, hdl⟩
      simp only [mdr_promoteStep, hroot, md_meta, hch, List.map_cons, List.map_nil, md_hdr]
      exact hr
    · have hm : OMap.promoteIfSingleChild ⟨d + 1, root, ty, cnt, seed⟩ s1.ctx = (⟨d + 1, root, ty, cnt, seed⟩, s1.ctx) := by
        simp only [OMap.promoteIfSingleChild, hch]
      rw [hm]
      refine ⟨s1, x1, ?_, rfl, rfl, hpre, mds_Delta.refl _ _⟩
      simp only [mdr_promoteStep, hroot, md_meta, hch, List.map_cons]

/-- the model's `OMap.remove` with its stages named -/
theorem mdsr_OMap_remove_eq (cfg : MCfg) (m : OMap r) (k : MKey) (c : Ctx) :
    OMap.remove cfg m k c =
      match MTree.remove cfg m.d m.root k c with
      | .error e => .error e
      | .ok (rk, rv, root', c1) =>
        match (OMap.promoteIfSingleChild ({ m with root := root', count := m.count - 1 } : OMap r) c1).1.splitRootIfFull
            cfg.T (OMap.promoteIfSingleChild ({ m with root := root', count := m.count - 1 } : OMap r) c1).2 with
        | .error e => .error e
        | .ok (m3, c3) => .ok (rk, rv, m3, c3) := by
  simp only [OMap.remove, bind, Except.bind, pure, Except.pure]
  rcases MTree.remove cfg m.d m.root k c with e | ⟨rk, rv, root', c1⟩
  · rfl
  · simp only []
    rcases OMap.splitRootIfFull cfg.T _ _ with e | ⟨m3, c3⟩ <;> rfl

end

section
variable (eb : DEnvB r) (rs : DRestruct r) (Q : (d : Nat) → MTree r d → Prop) (QR : OMap r → Prop)

/-- THE WHOLE `OMap.remove` OVER THE HEAP, given the (Set) tails -/
theorem Ob_OrderedMap_remove_heap_of_tailsH (Qin : (d : Nat) → MTree r d → Prop) (cfg : MCfg) (k : MKey) (v : Elem)
    (P : DG r → Prop) (L : MDataSlab r → Prop) (hE : ElemsSpec cfg k v P eb) (hS : MSplitTail cfg.T rs Q)
    (hM : MMorTailH cfg.T rs Q) (hR : MRootTailR cfg.T rs QR)
    (hQin : ∀ d (t : MTree r d), Qin d t → Q d t)
    (hQrem : ∀ d (t t' : MTree r d) rk rv c c', Qin d t → MTree.remove cfg d t k c = .ok (rk, rv, t', c') → Q d t')
    (hQRhdrs : ∀ d (xr : MMetaSlab (MTree r d)) ty cnt seed, QR ⟨d + 1, xr, ty, cnt, seed⟩ →
      xr.childHdrs = xr.children.map (MTree.hdr d))
    (hmono : ∀ (sl : MDataSlab r) c rk rv sl' c', L sl → MDataSlab.remove cfg sl k c = .ok (rk, rv, sl', c') →
      c.ctr ≤ c'.ctr)
    (hT1 : maxThr cfg.T < 2^32) (hT2 : minThr cfg.T < 2^32) (hhk : k.dig 0 < 2^64)
    (m : OMap r) (s : MHSt r) (x0 : Option DX) (depth : Nat) (hd : m.d ≤ depth)
    (hheld : MHolds s.heap m.d m.root x0) (hnd : (md_ids m.d m.root).Nodup)
    (haddr : ∀ id ∈ md_ids m.d m.root, id.addr = cfg.addr) (hff : mds_FreshFree cfg.addr s)
    (hroot : mds_rootFlag m.d m.root = true)
    (hp : mdsr_Path cfg k P L Qin m.d m.root s.ctx)
    (hcount : ∀ rk rv root' c1, MTree.remove cfg m.d m.root k s.ctx = .ok (rk, rv, root', c1) → 0 < m.count)
    (hQRrem : ∀ rk rv root' c1, MTree.remove cfg m.d m.root k s.ctx = .ok (rk, rv, root', c1) →
      QR ({ m with root := root', count := m.count - 1 } : OMap r))
    (hszR : ∀ rk rv root' c1, MTree.remove cfg m.d m.root k s.ctx = .ok (rk, rv, root', c1) →
      (MTree.hdr _ (OMap.promoteIfSingleChild ({ m with root := root', count := m.count - 1 } : OMap r) c1).1.root).size
        < 2^32) :
    match OMap.remove cfg m k s.ctx with
    | .ok (rk, rv, m', c') =>
      ∃ s' x', OrderedMap_remove (envD cfg.T eb rs) depth (md_map m s) (.key k) =
          some (some (.key rk), some (.val rv), none, md_map m' s') ∧
        s'.ctx = c' ∧ s'.popped = s.popped ∧ mds_RootPreR QR cfg.addr s' m' x' ∧
        mds_Delta s.heap s'.heap (md_ids m.d m.root) (md_ids m'.d m'.root)
    | .error e => ∃ M', OrderedMap_remove (envD cfg.T eb rs) depth (md_map m s) (.key k) = some (none, none, some e, M') := by
  have hT := Ob_MapSlab_Remove_heap_of_tailsH eb rs cfg k v P L Q Qin hE hS hM hQin hQrem hmono hT1 hT2 hhk m.d depth
    m.root (some (md_extra m)) x0 s hd hheld (by rw [hroot]; rfl) hnd haddr hff hp
  rw [mdsr_OMap_remove_eq]
  rcases hq : MTree.remove cfg m.d m.root k s.ctx with e | ⟨rk, rv, root', c1⟩
  · rw [hq] at hT
    obtain ⟨root'', s'', hg⟩ := hT
    exact ⟨_, Ob_OrderedMap_remove_err cfg.T eb rs (md_map m s) k depth root'' s'' none none e hg⟩
  · rw [hq] at hT
    obtain ⟨s1, h1, h2, h3, hpost⟩ := hT
    subst h2
    simp only []
    have hszR' := hszR rk rv root' s1.ctx hq
    have hQR1 := hQRrem rk rv root' s1.ctx hq
    have hc0 := hcount rk rv root' s1.ctx hq
    have hstep := Ob_OrderedMap_remove_step_md cfg.T eb rs m s k depth m.d root' s1 (some (.key rk)) (some (.val rv)) hc0 h1
    generalize hm1 : ({ m with root := root', count := m.count - 1 } : OMap r) = m1 at hszR' hQR1
    have hpre1 : mds_RootPreR QR cfg.addr s1 m1 (some (md_extra m)) := by
      subst hm1
      exact ⟨hpost.holds, hpost.nodup, hpost.addrOk, hpost.ff, hQR1⟩
    have hids1 : md_ids m1.d m1.root = md_ids m.d root' := by subst hm1; rfl
    have hx1 : md_extra ({ m with count := m.count - 1 } : OMap r) = md_extra m1 := by subst hm1; rfl
    have hM1 : (⟨s1, md_tree m.d root' (some (md_extra m1)), ()⟩ : DMap r) = md_map m1 s1 := by subst hm1; rfl
    obtain ⟨s2, x2, hg2, hc2, hp2, hpre2, hdl2⟩ :=
      mdsr_promote_model cfg.T rs QR hR hQRhdrs cfg.addr m1 s1 _ hpre1
    have hfin := mdsr_finish_model cfg.T eb rs QR hR hT1 cfg.addr (m1.promoteIfSingleChild s1.ctx).1 s2 x2
      (some (.key rk)) (some (.val rv)) hpre2 hszR'
    rw [hc2] at hfin
    have hgen : OrderedMap_remove (envD cfg.T eb rs) depth (md_map m s) (.key k) =
        mdsr_finish cfg.T eb rs (some (.key rk)) (some (.val rv)) (md_map (m1.promoteIfSingleChild s1.ctx).1 s2) := by
      rw [hstep, hx1, hM1, hg2]
      rfl
    rcases hsp : OMap.splitRootIfFull cfg.T (m1.promoteIfSingleChild s1.ctx).1 (m1.promoteIfSingleChild s1.ctx).2
      with e | ⟨m3, c3⟩
    · rw [hsp] at hfin
      obtain ⟨M', hr⟩ := hfin
      exact ⟨M', by rw [hgen, hr]⟩
    · rw [hsp] at hfin
      obtain ⟨s3, x3, hr, hc3, hp3, hpre3, hdl3⟩ := hfin
      refine ⟨s3, x3, by rw [hgen, hr], hc3, by rw [hp3, hp2, h3], hpre3, ?_⟩
      exact (hpost.delta.trans (hids1 ▸ hdl2)).trans hdl3

end

end

end Atree.TransEq
