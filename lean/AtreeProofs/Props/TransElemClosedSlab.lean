import AtreeProofs.Props.TransElemClosed
/-
  WP13, part 5: `MapDataSlab.Set / Remove` (and `Get` by method promotion) on a data slab of the slab tree under the CLOSED
  unit-B environment: `MapDataSlab_Set_eq_model` / `MapDataSlab_Remove_eq_model` (WP11) with no `EnvB` hypothesis left.
  Core Lean only.
-/
namespace Atree.TransEq
open Atree

section slab
variable {X : Type} (cfg : MCfg) (k : MKey) (v : Elem) (retr : mcl_Retrs X)
variable (hL : cfg.L < 2^64) (hT : cfg.T < 2^32) (hTe : maxInlineMapElem cfg.T < 2^32) (hcl : cfg.climit < 2^32)
include hL hT hTe hcl

/-- `MapDataSlab.Set` (generated, closed environment) on a data slab of the tree = the model's `MDataSlab.set` -/
theorem MapDataSlab_Set_eq_model_closed_of_guard {r : Nat} (s : MDataSlab r) (x : Option X) (hx : x.isSome = s.root)
    (c : Ctx) (ha : s.hdr.id.addr = cfg.addr) (hQ : mcl_QS cfg k v retr (r + 1) s.elems 0 c) :
    Gen.TransElem.MapDataSlab_Set (clEnvB cfg retr (r + 1)) (mei_cData s x) c () k (u64 0) (u64 (k.dig 0)) (.key k) (.val v) =
      match MDataSlab.set cfg s k v c with
      | .ok (ks, old, s', c') => some (some (.key ks), old.map .val, none, mei_cData s' x, c')
      | .error err => some (none, none, some err, mei_cData s x, c) :=
  MapDataSlab_Set_eq_model_on cfg k v _ (clEnvB_ok cfg k v retr hL hT hTe hcl (r + 1)) s x hx c () ha hQ

/-- `MapDataSlab.Remove` (generated, closed environment) on a data slab of the tree = the model's `MDataSlab.remove` -/
theorem MapDataSlab_Remove_eq_model_closed_of_guard {r : Nat} (s : MDataSlab r) (x : Option X) (hx : x.isSome = s.root)
    (c : Ctx) (hQ : mcl_QR cfg k retr (r + 1) s.elems 0 c) :
    Gen.TransElem.MapDataSlab_Remove (clEnvB cfg retr (r + 1)) (mei_cData s x) c k (u64 0) (u64 (k.dig 0)) (.key k) =
      match MDataSlab.remove cfg s k c with
      | .ok (rk, rv, s', c') => some (some (.key rk), some (.val rv), none, mei_cData s' x, c')
      | .error err => some (none, none, some err, mei_cData s x, c) :=
  MapDataSlab_Remove_eq_model_on cfg k default _ (clEnvB_ok cfg k default retr hL hT hTe hcl (r + 1)) s x hx c hQ

/-- `MapSlab.Get` on a data slab of the tree (method promotion to the closed `elements.Get`) = the model's `MDataSlab.get` -/
theorem MapDataSlab_Get_eq_model_closed_of_guard {r : Nat} (s : MDataSlab r) (x : Option X) (c : Ctx)
    (hQ : mcl_QG k retr (r + 1) s.elems 0 c) :
    (clEnvB cfg retr (r + 1)).MapSlab_Get (.dataSlab (mei_cData s x)) c k (u64 0) (u64 (k.dig 0)) (.key k) =
      mei_rGet c (MDataSlab.get cfg s k) :=
  (clEnvB_ok cfg k default retr hL hT hTe hcl (r + 1)).gGet s.elems c 0 (by decide) hQ

end slab
end Atree.TransEq
