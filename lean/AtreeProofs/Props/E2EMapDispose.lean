import AtreeProofs.E2EMapDisposeSpec
import AtreeProofs.E2EMap.Dispose
import AtreeProofs.Props.E2EMapFull
import AtreeProofs.Props.C09MapRefs
/-
  E2EMapDispose - C09 / C02 for ordered maps, LARGE-VALUE SLABS INCLUDED: "after any history in
  which the caller disposes of every value the library hands back on removal or overwrite, the set
  of slabs in storage is exactly the set reachable from the live root containers ... and nothing
  else remains.  Emptying a container releases every auxiliary slab it used (..., external
  collision groups, large-value slabs)."

  `E2EM.map_rep_history` (no disposal step) has `extra` = every large-value slab EVER created.
  Here the caller disposes (`stepD` = `E2EM.stepS` + `storage.Remove(id)` for every `.ref id` handed
  back: `E2EMapDisposeSpec.lean`), and the storage's view on the owner's address is EXACTLY
      tree slabs (data, index, external collision groups) ∪ large-value slabs of the CURRENT pairs.
  Definitions: `E2EMapDisposeSpec.lean` (`stepD`, `runD`, `handedBack`, `live`, `MGoodD`),
  `MapRefs.lean` (`MRefsOk`); proofs: `E2EMap/Dispose.lean`, `Map/Refs.lean`.
-/
namespace Atree.E2EMD
open Atree Gen St
open Atree.E2EM (MSSlab MOp mstored)

variable {β : Type} {r : Nat}

/-- `live st id = some v` iff some pair of the map holds the value `.ref id` and `v` is what the
    reference resolves to in `ctx.created` -/
theorem live_iff (st : OMap r × Ctx) (id : SlabID) (v : Elem) :
    live st id = some v ↔ (∃ p ∈ st.1.toList, p.2.pay = .ref id) ∧ AList.find? st.2.created id = some v := by
  unfold live
  rw [← OMap.mem_refsOf]
  constructor
  · intro h
    split at h
    · rename_i hin; exact ⟨hin, h⟩
    · cases h
  · rintro ⟨h1, h2⟩
    rw [if_pos (show id ∈ st.1.refIds from h1)]; exact h2

/-- disposal does not touch the model: the map and its context after `stepD` are those of the
    request alone (so every container-level theorem - C02 dictionary answers, C05 invariants -
    applies to histories with disposal unchanged) -/
theorem stepD_model (c : Codec (MSSlab r) β) (cfg : MCfg) (x : (OMap r × Ctx) × St (MSSlab r) β) (op : MOp) :
    (stepD c cfg x op).1 = E2EM.stepM cfg x.1 op := rfl

theorem runD_model (c : Codec (MSSlab r) β) (cfg : MCfg) (x : (OMap r × Ctx) × St (MSSlab r) β)
    (ops : List MOp) : (runD c cfg x ops).1 = E2EM.runM cfg x.1 ops := runD_fst c cfg ops x

/-- EXACT HEAP, ONE STEP: from any state satisfying the invariant `MGoodD`, a request followed by
    the disposal of what it handed back gives a state satisfying `MGoodD` again: in particular
    (`MGoodD.rep.view`) for every id of the owner's address the storage's view is the stored form
    of the tree slab with that id, else the large-value slab referenced by a CURRENT pair, else
    nothing. -/
theorem heap_exact_step (c : Codec (MSSlab r) β) (hc : RoundTrip c) (T : Nat) (hT : legalThreshold T = true)
    (D : DigestFn (r + 1)) (cfg : MCfg) (x : (OMap r × Ctx) × St (MSSlab r) β)
    (hg : MGoodD c T D cfg x) (op : MOp) (hop : op.Ok T D) :
    let y := stepD c cfg x op
    MGoodD c T D cfg y ∧ y.1 = E2EM.stepM cfg x.1 op ∧ y.1.1.rootID = x.1.1.rootID ∧
    (∀ id, id.addr = x.1.1.addr → y.2.view c id = mstored y.1.1 (live y.1) id) := by
  intro y
  obtain ⟨h1, h2⟩ := mgoodD_stepD c hc T hT D cfg x hg op hop
  have hrid : y.1.1.rootID = x.1.1.rootID := (E2EM.mgood_stepS c hc T hT D cfg x hg.toMGood op hop).2
  refine ⟨h1, h2, hrid, ?_⟩
  intro id hid
  exact h1.rep.view id (by rw [hid]; unfold OMap.addr; rw [hrid])

/-- the same for a list of requests from any good state -/
theorem heap_exact_run (c : Codec (MSSlab r) β) (hc : RoundTrip c) (T : Nat) (hT : legalThreshold T = true)
    (D : DigestFn (r + 1)) (cfg : MCfg) (x : (OMap r × Ctx) × St (MSSlab r) β)
    (hg : MGoodD c T D cfg x) (ops : List MOp) (hops : ∀ op ∈ ops, op.Ok T D) :
    MGoodD c T D cfg (runD c cfg x ops) ∧ (runD c cfg x ops).1 = E2EM.runM cfg x.1 ops :=
  ⟨mgoodD_runD c hc T hT D cfg ops x hg hops, runD_fst c cfg ops x⟩

/-- EXACT HEAP AFTER DISPOSAL (maps).  For every list of requests (set / remove / popIterate /
    setType; keys of any digests, values of any size ≥ 1; refused requests change nothing) issued
    to a new map on an empty storage by a caller that disposes of every reference handed back,
    with `m`, `ctx`, `s` the final map, context and storage (the statement holds for every list,
    hence after every prefix):
    * the model state is the one of the requests alone (`runM`), the dictionary of resolved values
      follows the dictionary semantics of the history (`DictRun`, as in `E2EM.map_rep_history`),
    * `MapInv`, `MIdsOk`, `MRefsOk`, `CtxOk`, `MAddrOk`, the storage invariant `Inv`, the root id is
      the one allocated by `NewMap`,
    * for EVERY id of the owner's address: `s.view c id = mstored m (live (m, ctx)) id`, where
      `live id = some v` iff some pair of `m.toList` has the value `.ref id` and `v` is the value the
      reference resolves to: the view is the tree slabs (data, index, external groups) and the
      large-value slabs of the CURRENT pairs, exactly - nothing else remains;
    * every reference held by the map is live (its slab is in storage). -/
theorem heap_exact_after_disposal (c : Codec (MSSlab r) β) (hc : RoundTrip c) (T : Nat)
    (hT : legalThreshold T = true) (D : DigestFn (r + 1)) (cfg : MCfg) (hcT : cfg.T = T)
    (hcL : cfg.L = r + 1) (haddr : cfg.addr ≠ 0) (ty : Nat) (seedOf : SlabID → Nat)
    (ops : List MOp) (hops : ∀ op ∈ ops, op.Ok T D) :
    let x := runD c cfg (E2EM.newS c cfg.addr ty seedOf) ops
    let m := x.1.1
    let ctx := x.1.2
    let s := x.2
    x.1 = E2EM.runM cfg (OMap.new (r := r) cfg.addr ty seedOf ⟨0, [], []⟩) ops ∧
    E2EM.DictRun T D (fun _ => none) ops (E2EM.lookupR x.1) ∧
    MapInv T D m ∧ MIdsOk m ∧ MRefsOk m ctx.ctr ∧ CtxOk m ctx ∧ E2EM.MAddrOk m ∧ Inv c s ∧
    m.rootID = ⟨cfg.addr, 1⟩ ∧
    (∀ id, id.addr = cfg.addr → s.view c id = mstored m (live x.1) id) ∧
    (∀ id v, live x.1 id = some v ↔
      (∃ p ∈ m.toList, p.2.pay = .ref id) ∧ AList.find? ctx.created id = some v) ∧
    (∀ p ∈ m.toList, ∀ id, p.2.pay = .ref id → (live x.1 id).isSome) := by
  intro x m ctx s
  have g0 := mgoodD_new c hc T hT D cfg hcT hcL haddr ty seedOf
  have g := mgoodD_runD c hc T hT D cfg ops _ g0 hops
  have hx : x.1 = E2EM.runM cfg (OMap.new (r := r) cfg.addr ty seedOf ⟨0, [], []⟩) ops :=
    runD_fst c cfg ops _
  obtain ⟨hS, _, _, _, _, _, _, _, _, hdict, hrid, _, _⟩ :=
    E2EM.map_rep_history c hc T hT D cfg hcT hcL haddr ty seedOf ops hops
  rw [hS, ← hx] at hdict hrid
  have haddr' : m.addr = cfg.addr := by
    show x.1.1.rootID.addr = cfg.addr
    rw [hrid]
  refine ⟨hx, hdict, g.inv, g.ids, g.refs, g.ctx, g.aok, g.st, hrid, ?_, fun id v => live_iff x.1 id v, ?_⟩
  · intro id hid
    exact g.rep.view id (hid.trans haddr'.symm)
  · intro p hp id hpay
    have hin : id ∈ m.refIds := OMap.mem_refsOf.2 ⟨p, hp, hpay⟩
    show (live x.1 id).isSome
    unfold live
    rw [if_pos hin]
    exact g.nodang id hin

/-- EMPTYING A MAP RELEASES EVERYTHING: after `PopIterate` and the disposal of the references it
    handed back, the map is empty and the storage's view on the owner's address is exactly the
    (empty) root slab - every data slab, index slab, external collision group AND every
    large-value slab is gone. -/
theorem pop_then_dispose_leaves_only_root (c : Codec (MSSlab r) β) (hc : RoundTrip c) (T : Nat)
    (hT : legalThreshold T = true) (D : DigestFn (r + 1)) (cfg : MCfg)
    (x : (OMap r × Ctx) × St (MSSlab r) β) (hg : MGoodD c T D cfg x) :
    let y := stepD c cfg x .popIterate
    MGoodD c T D cfg y ∧ y.1.1.toList = [] ∧ y.1.1.rootID = x.1.1.rootID ∧
    y.2.view c x.1.1.rootID
      = some (.tree (.data (emptyRoot r x.1.1.rootID)) (some (x.1.1.ty, 0, x.1.1.seed))) ∧
    (∀ id, id.addr = x.1.1.addr → id ≠ x.1.1.rootID → y.2.view c id = none) := by
  intro y
  obtain ⟨h1, _, hrid, hview⟩ := heap_exact_step c hc T hT D cfg x hg .popIterate trivial
  have hinl : x.1.1.isInlined = false := hg.inv.standalone
  have hy : y.1.1 = ⟨0, emptyRoot r x.1.1.rootID, x.1.1.ty, 0, x.1.1.seed⟩ := by
    show (x.1.1.popIterate x.1.2).2.1 = _
    simp only [OMap.popIterate, hinl, emptyRoot]
    rfl
  have hrefs : y.1.1.refIds = [] := by
    show OMap.refsOf y.1.1.toList = []
    rw [hy]; rfl
  have hlive : ∀ id, live y.1 id = none := by
    intro id; simp [live, hrefs]
  have hslabs : MTree.slabs y.1.1.d y.1.1.root
      = [(x.1.1.rootID, .data (emptyRoot r x.1.1.rootID))] := by rw [hy]; rfl
  refine ⟨h1, by rw [hy]; rfl, hrid, ?_, ?_⟩
  · rw [hview _ rfl]
    have hs : y.1.1.slabAt x.1.1.rootID
        = some (.data (emptyRoot r x.1.1.rootID), some (x.1.1.ty, 0, x.1.1.seed)) := by
      unfold OMap.slabAt
      rw [hslabs, hrid]
      simp only [AList.find?, if_true, Option.map_some]
      rw [hy]
    rw [E2EM.mstored_of_some hs]
    rfl
  · intro id hid hne
    rw [hview id hid]
    have hs : y.1.1.slabAt id = none := by
      unfold OMap.slabAt
      rw [hslabs]
      simp [AList.find?, hne.symm]
    rw [E2EM.mstored_of_none hs, hlive]
    rfl

/-! ### Non-vacuity

A short history on the example configuration of C09Map (two digest levels, T = 256, owner address
7), identity codec: a big value under key 111 (slab `7.2`), OVERWRITTEN by another big value (`7.3`
created, `7.2` handed back and disposed), a big value under key 222 (`7.4`), a small one under 333,
key 222 REMOVED (`7.4` handed back and disposed), a refused removal; then `PopIterate` (`7.3` handed
back and disposed). -/
section NonVacuity
open MapExample Atree.C09Map Atree.E2EM

def dhist : List MOp :=
  [.set (key 111) (big 1), .set (key 111) (big 2), .set (key 222) (big 3), .set (key 333) (val 3),
   .remove (key 222), .remove (key 12345)]

theorem dhist_ok : ∀ op ∈ dhist ++ [.popIterate], op.Ok 256 D2 := by
  intro op hop
  simp only [dhist, List.cons_append, List.nil_append, List.mem_cons, List.not_mem_nil, or_false] at hop
  rcases hop with rfl | rfl | rfl | rfl | rfl | rfl | rfl
  all_goals first
    | exact ⟨key_ok _, big_ok _⟩
    | exact ⟨key_ok _, val_ok _⟩
    | exact key_ok _
    | trivial

/-- the state after the history, with disposal … -/
def xD : (OMap 1 × Ctx) × St (MSSlab 1) (MSSlab 1) :=
  runD idCodecM cfg2 (newS idCodecM cfg2.addr 0 (fun id => id.idx)) dhist
/-- … and without -/
def xS : (OMap 1 × Ctx) × St (MSSlab 1) (MSSlab 1) :=
  runS idCodecM cfg2 (newS idCodecM cfg2.addr 0 (fun id => id.idx)) dhist

/-- the map: key 111 holds the reference `7.3`, key 333 a small value; three large-value slabs
    were created on the way -/
example : xD.1.1.toList.map (fun p => (p.1.pay, p.2.pay)) = [(111, .ref ⟨7, 3⟩), (333, .val 3)] := by decide
example : xD.1.2.created.map (·.1) = [⟨7, 2⟩, ⟨7, 3⟩, ⟨7, 4⟩] := by decide
example : xD.1.1.refIds = [⟨7, 3⟩] := by decide
/-- with disposal the slabs in storage are the root `7.1` and the live large-value slab `7.3` … -/
example : [1, 2, 3, 4, 5].map (fun i => (xD.2.view idCodecM ⟨7, i⟩).isSome) = [true, false, true, false, false] := by
  decide
/-- … without disposal `7.2` and `7.4` stay behind (what `E2EM.map_rep_history` describes) -/
example : [1, 2, 3, 4, 5].map (fun i => (xS.2.view idCodecM ⟨7, i⟩).isSome) = [true, true, true, true, false] := by
  decide
/-- the live function -/
example : [1, 2, 3, 4].map (fun i => (live xD.1 ⟨7, i⟩).isSome) = [false, false, true, false] := by decide

/-- `heap_exact_after_disposal` instantiated on this history -/
theorem xD_good : MGoodD idCodecM 256 D2 cfg2 xD :=
  mgoodD_runD idCodecM idCodecM_roundTrip 256 legal256 D2 cfg2 dhist _
    (mgoodD_new idCodecM idCodecM_roundTrip 256 legal256 D2 cfg2 rfl rfl (by decide) 0 _)
    (fun op hop => dhist_ok op (List.mem_append.2 (Or.inl hop)))
example := heap_exact_after_disposal idCodecM idCodecM_roundTrip 256 legal256 D2 cfg2 rfl rfl (by decide) 0
  (fun id => id.idx) dhist (fun op hop => dhist_ok op (List.mem_append.2 (Or.inl hop)))

/-- the exact-heap statement is not trivially true: the storage of the run WITHOUT disposal does not
    satisfy it (slab `7.2` is in storage but is neither a tree slab nor live) -/
example : (xS.2.view idCodecM ⟨7, 2⟩).isSome = true ∧ (mstored xS.1.1 (live xS.1) ⟨7, 2⟩).isSome = false := by
  decide

/-- then `PopIterate` + disposal: only the root is left (`pop_then_dispose_leaves_only_root`
    instantiated, and the same by evaluation) -/
def xP : (OMap 1 × Ctx) × St (MSSlab 1) (MSSlab 1) := stepD idCodecM cfg2 xD .popIterate
example := pop_then_dispose_leaves_only_root idCodecM idCodecM_roundTrip 256 legal256 D2 cfg2 xD xD_good
example : handedBack cfg2 xD.1 .popIterate = [val 3, ⟨19, .ref ⟨7, 3⟩⟩] := by decide
example : [1, 2, 3, 4, 5].map (fun i => (xP.2.view idCodecM ⟨7, i⟩).isSome) = [true, false, false, false, false] := by
  decide

end NonVacuity

end Atree.E2EMD
