import AtreeModel.SlabIdStorages
import AtreeProofs.AListLemmas
import AtreeProofs.SlabIdStorages
import AtreeProofs.Props.SlabId
/-
  `LedgerBaseStorage`, `InMemBaseStorage`, `BasicSlabStorage` — PROPERTY-LEVEL STATEMENTS
  (models: AtreeModel/SlabIdStorages.lean), in the style of Props/C15.lean: each storage refines
  a finite-map specification, request by request.

  * `LedgerBaseStorage` over ANY ledger that behaves as a map (`IsMapLedger`): it refines
    `SlabIDB → Option Bytes` where `none` = "register absent OR of length 0"
    (`lbs_step_refines`); storing zero bytes IS removing (`lbs_store_empty_is_remove`); whether the
    ledger keeps or deletes empty registers cannot be observed through it
    (`keepEmpty_unobservable`), although `ValueExists` would tell (`valueExists_tells`).
  * `InMemBaseStorage` keeps empty segments (`inmem_step_refines`,
    `inmem_and_ledger_differ_on_empty`): the two `BaseStorage`s agree exactly on non-empty data.
  * `BasicSlabStorage`: `basic_step_refines`, `basic_count`, generated identifiers never repeat
    below 2^64-1 requests (`basic_generated_ids_fresh`) and DO repeat after the wrap-around
    (`genNext_wraps`), the iterator is a snapshot (`iter_nexts_spec`), and the sentinel idiom
    `id == SlabIDUndefined` visits every stored slab iff `SlabIDUndefined` is not a key — which
    `BasicSlabStorage.Store` does not prevent (`drain_complete`, `drain_truncated`).
-/
namespace Atree.SlabIdB
open Atree

/-! ## 1. `LedgerBaseStorage` -/

/-- "The ledger is a map and a failing call has no effect" (DESIGN §6), as a contract on the
    `Ledger` interface.  `val l owner key` is the content of the register (`[]` when absent: the
    contract does not let an absent register and a zero-length one differ in `GetValue`). -/
structure IsMapLedger {Λ : Type} (L : Ledger Λ) (val : Λ → Bytes → Bytes → Bytes) : Prop where
  get_ok : ∀ l o k, (L.getValue l o k).2.2 = false → (L.getValue l o k).2.1 = val l o k
  get_frame : ∀ l o k o' k', val (L.getValue l o k).1 o' k' = val l o' k'
  set_ok : ∀ l o k v, (L.setValue l o k v).2 = false →
    ∀ o' k', val (L.setValue l o k v).1 o' k' = if o' = o ∧ k' = k then v else val l o' k'
  set_fail : ∀ l o k v, (L.setValue l o k v).2 = true →
    ∀ o' k', val (L.setValue l o k v).1 o' k' = val l o' k'
  alloc_frame : ∀ l o o' k', val (L.allocateSlabIndex l o).1 o' k' = val l o' k'

/-- What a `LedgerBaseStorage` holds under an identifier: the register
    `(address bytes, '$' ++ index bytes)`, read as "nothing" when it has length 0. -/
def LBS.view {Λ : Type} (val : Λ → Bytes → Bytes → Bytes) (s : LBS Λ) (id : SlabIDB) : Option Bytes :=
  let v := val s.ledger id.address.val (slabIndexToLedgerKey id.index)
  if v = [] then none else some v

private theorem reg_eq_iff (j id : SlabIDB) :
    (j.address.val = id.address.val ∧ slabIndexToLedgerKey j.index = slabIndexToLedgerKey id.index) ↔ j = id := by
  constructor
  · intro ⟨h1, h2⟩
    exact register_injective (by rw [h1, h2])
  · intro h; subst h; exact ⟨rfl, rfl⟩

/-- MAIN REFINEMENT for `LedgerBaseStorage`: every request acts on `view` as on a finite map
    `SlabIDB → Option Bytes`; a failed request changes nothing; DISTINCT IDENTIFIERS NEVER SHARE A
    REGISTER (the `j ≠ id` branches); a stored value of length 0 reads back as "not found". -/
theorem lbs_step_refines {Λ : Type} (L : Ledger Λ) (val : Λ → Bytes → Bytes → Bytes)
    (hL : IsMapLedger L val) (s : LBS Λ) (op : LOp) :
    let r := s.step L op
    let w := s.view val
    let w' := r.1.view val
    match op with
    | .retrieve id =>
        (∀ j, w' j = w j) ∧ (r.2 = .err ∨ r.2 = .data ((w id).getD []) (w id).isSome)
    | .store id d =>
        r.1.bytesStored = s.bytesStored + d.length ∧
        ((r.2 = .err ∧ ∀ j, w' j = w j) ∨
         (r.2 = .unit ∧ ∀ j, w' j = if j = id then (if d = [] then none else some d) else w j))
    | .remove id =>
        (r.2 = .err ∧ ∀ j, w' j = w j) ∨ (r.2 = .unit ∧ ∀ j, w' j = if j = id then none else w j)
    | .gen a => (∀ j, w' j = w j) ∧ (r.2 = .err ∨ ∃ i, r.2 = .id i ∧ i.address = a)
    | .reset => (∀ j, w' j = w j) ∧ r.2 = .unit ∧ r.1.bytesStored = 0 ∧ r.1.bytesRetrieved = 0 := by
  have vnil : ∀ v : Bytes, (if v = [] then (none : Option Bytes) else some v).getD [] = v ∧
      (if v = [] then (none : Option Bytes) else some v).isSome = decide (v.length > 0) := by
    intro v; cases v <;> simp
  have other : ∀ j id : SlabIDB, j ≠ id → ¬ (j.address.val = id.address.val ∧
      slabIndexToLedgerKey j.index = slabIndexToLedgerKey id.index) :=
    fun j id hj h => hj ((reg_eq_iff j id).1 h)
  cases op with
  | retrieve id =>
    dsimp only
    rw [LBS.step_retrieve]
    refine ⟨fun j => ?_, ?_⟩
    · simp only [LBS.view]; rw [hL.get_frame]
    · cases hf : (L.getValue s.ledger id.address.val (slabIndexToLedgerKey id.index)).2.2 with
      | true => left; rfl
      | false =>
        right
        simp only [LBS.view, Bool.false_eq_true, if_false]
        rw [hL.get_ok _ _ _ hf, (vnil _).1, (vnil _).2]
  | store id d =>
    dsimp only
    rw [LBS.step_store]
    refine ⟨rfl, ?_⟩
    cases hf : (L.setValue s.ledger id.address.val (slabIndexToLedgerKey id.index) d).2 with
    | true =>
      left
      refine ⟨rfl, fun j => ?_⟩
      simp only [LBS.view]; rw [hL.set_fail _ _ _ _ hf]
    | false =>
      right
      refine ⟨rfl, fun j => ?_⟩
      simp only [LBS.view]; rw [hL.set_ok _ _ _ _ hf]
      by_cases hj : j = id
      · subst hj; simp
      · rw [if_neg (other j id hj), if_neg hj]
  | remove id =>
    dsimp only
    rw [LBS.step_remove]
    cases hf : (L.setValue s.ledger id.address.val (slabIndexToLedgerKey id.index) []).2 with
    | true =>
      left
      refine ⟨rfl, fun j => ?_⟩
      simp only [LBS.view]; rw [hL.set_fail _ _ _ _ hf]
    | false =>
      right
      refine ⟨rfl, fun j => ?_⟩
      simp only [LBS.view]; rw [hL.set_ok _ _ _ _ hf]
      by_cases hj : j = id
      · subst hj; simp
      · rw [if_neg (other j id hj), if_neg hj]
  | gen a =>
    dsimp only
    rw [LBS.step_gen]
    refine ⟨fun j => ?_, ?_⟩
    · simp only [LBS.view]; rw [hL.alloc_frame]
    · cases hf : (L.allocateSlabIndex s.ledger a.val).2.2 with
      | true => left; rfl
      | false => right; exact ⟨_, rfl, rfl⟩
  | reset =>
    exact ⟨fun _ => rfl, rfl, rfl, rfl⟩

/-- `Store(id, <zero bytes>)` and `Remove(id)` are the same ledger call: same new ledger, same
    outcome.  (Only the `bytesStored` counter could differ, and it does not: `+ 0`.) -/
theorem lbs_store_empty_is_remove {Λ : Type} (L : Ledger Λ) (s : LBS Λ) (id : SlabIDB) :
    (s.store L id []).1.ledger = (s.remove L id).1.ledger ∧
    (s.store L id []).2 = (s.remove L id).2 ∧
    (s.store L id []).1.bytesStored = (s.remove L id).1.bytesStored := by
  cases h : (L.setValue s.ledger id.address.val (slabIndexToLedgerKey id.index) []).2 <;>
    simp [LBS.store, LBS.remove, h]

/-- Read-your-writes holds for NON-EMPTY data only: after a successful `Store(id, d)`, a successful
    `Retrieve(id)` returns `(d, true)` iff `d` is not empty, and `(·, false)` when it is. -/
theorem lbs_retrieve_after_store {Λ : Type} (L : Ledger Λ) (val : Λ → Bytes → Bytes → Bytes)
    (hL : IsMapLedger L val) (s : LBS Λ) (id : SlabIDB) (d : Bytes)
    (h1 : (s.step L (.store id d)).2 = .unit)
    (h2 : ((s.step L (.store id d)).1.step L (.retrieve id)).2 ≠ .err) :
    ((s.step L (.store id d)).1.step L (.retrieve id)).2 = .data d (decide (d ≠ [])) := by
  have a := lbs_step_refines L val hL s (.store id d)
  have b := lbs_step_refines L val hL (s.step L (.store id d)).1 (.retrieve id)
  dsimp only at a b
  rcases a.2 with ⟨e, _⟩ | ⟨_, hw⟩
  · rw [h1] at e; cases e
  · rcases b.2 with e | e
    · exact absurd e h2
    · rw [e, hw id]
      cases d <;> simp

/-! ### The stream's ledger is such a map, whichever way it treats empty values -/

theorem mapLedger_isMapLedger : IsMapLedger MapLedger.iface MapLedger.val := by
  constructor
  · intro l o k h
    simp only [MapLedger.iface, MapLedger.getValue_eq] at h ⊢
    simp [h]
  · intro l o k o' k'
    simp only [MapLedger.iface, MapLedger.getValue_eq]
    rfl
  · intro l o k v h o' k'
    simp only [MapLedger.iface, MapLedger.setValue_snd] at h
    simp only [MapLedger.iface, MapLedger.setValue_fst_val, h, Bool.false_eq_true, if_false]
  · intro l o k v h o' k'
    simp only [MapLedger.iface, MapLedger.setValue_snd] at h
    simp only [MapLedger.iface, MapLedger.setValue_fst_val, h, if_true]
  · intro l o o' k'
    simp only [MapLedger.iface, MapLedger.allocate_eq]
    cases l.failing <;> rfl

/-- two harness ledgers that agree on everything `LedgerBaseStorage` can see -/
def MapLedger.Sim (l1 l2 : MapLedger) : Prop :=
  l1.ctr = l2.ctr ∧ l1.calls = l2.calls ∧ l1.fail = l2.fail ∧ l1.junk = l2.junk ∧
  ∀ o k, l1.val o k = l2.val o k

def LBS.Sim (s1 s2 : LBS MapLedger) : Prop :=
  MapLedger.Sim s1.ledger s2.ledger ∧ s1.bytesRetrieved = s2.bytesRetrieved ∧
  s1.bytesStored = s2.bytesStored

private theorem sim_set (l1 l2 : MapLedger) (h : MapLedger.Sim l1 l2) (o k v : Bytes) :
    MapLedger.Sim (l1.setValue o k v).1 (l2.setValue o k v).1 ∧
    (l1.setValue o k v).2 = (l2.setValue o k v).2 := by
  obtain ⟨hc, hn, hfl, hj, hv⟩ := h
  have hfail : l1.failing = l2.failing := by simp [MapLedger.failing, hn, hfl]
  obtain ⟨a1, a2, a3, a4, _⟩ := MapLedger.setValue_fst_rest l1 o k v
  obtain ⟨b1, b2, b3, b4, _⟩ := MapLedger.setValue_fst_rest l2 o k v
  refine ⟨⟨by rw [a1, b1, hc], by rw [a2, b2, hn], by rw [a3, b3, hfl], by rw [a4, b4, hj], ?_⟩, ?_⟩
  · intro o' k'
    rw [MapLedger.setValue_fst_val, MapLedger.setValue_fst_val, hfail, hv]
  · rw [MapLedger.setValue_snd, MapLedger.setValue_snd, hfail]

private theorem sim_get (l1 l2 : MapLedger) (h : MapLedger.Sim l1 l2) (o k : Bytes) :
    MapLedger.Sim (l1.getValue o k).1 (l2.getValue o k).1 ∧
    (l1.getValue o k).2 = (l2.getValue o k).2 := by
  obtain ⟨hc, hn, hfl, hj, hv⟩ := h
  have hfail : l1.failing = l2.failing := by simp [MapLedger.failing, hn, hfl]
  rw [MapLedger.getValue_eq, MapLedger.getValue_eq]
  exact ⟨⟨hc, congrArg (· + 1) hn, hfl, hj, hv⟩, by rw [hfail, hj, hv]⟩

private theorem sim_alloc (l1 l2 : MapLedger) (h : MapLedger.Sim l1 l2) (o : Bytes) :
    MapLedger.Sim (l1.allocateSlabIndex o).1 (l2.allocateSlabIndex o).1 ∧
    (l1.allocateSlabIndex o).2 = (l2.allocateSlabIndex o).2 := by
  obtain ⟨hc, hn, hfl, hj, hv⟩ := h
  have hfail : l1.failing = l2.failing := by simp [MapLedger.failing, hn, hfl]
  rw [MapLedger.allocate_eq, MapLedger.allocate_eq, hfail, hc]
  cases l2.failing with
  | true => exact ⟨⟨rfl, congrArg (· + 1) hn, hfl, hj, hv⟩, rfl⟩
  | false => exact ⟨⟨rfl, congrArg (· + 1) hn, hfl, hj, hv⟩, rfl⟩

private theorem sim_step (s1 s2 : LBS MapLedger) (h : LBS.Sim s1 s2) (op : LOp) :
    LBS.Sim (s1.step MapLedger.iface op).1 (s2.step MapLedger.iface op).1 ∧
    (s1.step MapLedger.iface op).2 = (s2.step MapLedger.iface op).2 := by
  obtain ⟨hm, hr, hs⟩ := h
  have hm' := hm
  obtain ⟨hc, hn, hfl, hj, hv⟩ := hm'
  have hfail : s1.ledger.failing = s2.ledger.failing := by simp [MapLedger.failing, hn, hfl]
  cases op with
  | retrieve id =>
    rw [LBS.step_retrieve, LBS.step_retrieve]
    obtain ⟨g1, g2⟩ := sim_get _ _ hm id.address.val (slabIndexToLedgerKey id.index)
    simp only [MapLedger.iface, g2]
    exact ⟨⟨g1, by rw [hr], hs⟩, rfl⟩
  | store id d =>
    rw [LBS.step_store, LBS.step_store]
    obtain ⟨g1, g2⟩ := sim_set _ _ hm id.address.val (slabIndexToLedgerKey id.index) d
    simp only [MapLedger.iface, g2]
    exact ⟨⟨g1, hr, by rw [hs]⟩, rfl⟩
  | remove id =>
    rw [LBS.step_remove, LBS.step_remove]
    obtain ⟨g1, g2⟩ := sim_set _ _ hm id.address.val (slabIndexToLedgerKey id.index) []
    simp only [MapLedger.iface, g2]
    exact ⟨⟨g1, hr, hs⟩, rfl⟩
  | gen a =>
    rw [LBS.step_gen, LBS.step_gen]
    obtain ⟨g1, g2⟩ := sim_alloc _ _ hm a.val
    simp only [MapLedger.iface, g2]
    exact ⟨⟨g1, hr, hs⟩, rfl⟩
  | reset =>
    exact ⟨⟨hm, rfl, rfl⟩, rfl⟩

/-- "A REGISTER HOLDING ZERO BYTES IS INDISTINGUISHABLE FROM AN ABSENT ONE": run the same requests
    (same fault plan) on a ledger that KEEPS zero-length registers and on one that DELETES them —
    or on any two ledgers that differ only in which absent registers are represented by a
    zero-length entry: every observation of `LedgerBaseStorage`, and both byte counters, agree. -/
theorem keepEmpty_unobservable (s1 s2 : LBS MapLedger) (h : LBS.Sim s1 s2) (ops : List LOp) :
    (LBS.run MapLedger.iface s1 ops).2 = (LBS.run MapLedger.iface s2 ops).2 ∧
    LBS.Sim (LBS.run MapLedger.iface s1 ops).1 (LBS.run MapLedger.iface s2 ops).1 := by
  induction ops generalizing s1 s2 with
  | nil => exact ⟨rfl, h⟩
  | cons op ops ih =>
    obtain ⟨h1, h2⟩ := sim_step s1 s2 h op
    obtain ⟨i1, i2⟩ := ih _ _ h1
    simp only [LBS.run]
    exact ⟨by rw [h2, i1], i2⟩

/-- The two flavours of the harness ledger started empty are related (so the theorem applies to
    them), and they ARE different ledgers: after `Store(id, <zero bytes>)` `ValueExists` — which no
    atree function calls — tells them apart. -/
theorem valueExists_tells (id : SlabIDB) :
    let k : LBS MapLedger := LBS.new { keepEmpty := true }
    let d : LBS MapLedger := LBS.new { keepEmpty := false }
    LBS.Sim k d ∧
    ((k.step MapLedger.iface (.store id [])).1.ledger.valueExists id.address.val (slabIndexToLedgerKey id.index) = true) ∧
    ((d.step MapLedger.iface (.store id [])).1.ledger.valueExists id.address.val (slabIndexToLedgerKey id.index) = false) := by
  refine ⟨⟨⟨rfl, rfl, rfl, rfl, fun _ _ => rfl⟩, rfl, rfl⟩, ?_, ?_⟩
  · rw [LBS.step_store]
    simp [LBS.new, MapLedger.iface, MapLedger.setValue, MapLedger.failing,
      MapLedger.valueExists, AList.find?_insert]
  · rw [LBS.step_store]
    simp [LBS.new, MapLedger.iface, MapLedger.setValue, MapLedger.failing,
      MapLedger.valueExists, AList.find?_erase]

/-- The identifiers `LedgerBaseStorage.GenerateSlabID` hands out over the harness ledger: the
    requested address with the big-endian bytes of that owner's counter + 1 (mod 2^64). -/
theorem lbs_generate_mapLedger (s : LBS MapLedger) (a : Address) (hf : s.ledger.failing = false) :
    ∃ i, (s.step MapLedger.iface (.gen a)).2 = .id i ∧ i.address = a ∧
      i.indexAsUint64 = ((AList.find? s.ledger.ctr a.val).getD 0 + 1) % 2 ^ 64 := by
  rw [LBS.step_gen]
  simp only [MapLedger.iface, MapLedger.allocate_eq, hf, Bool.false_eq_true, if_false]
  refine ⟨_, rfl, rfl, ?_⟩
  simp only [newSlabID, SlabIDB.indexAsUint64, indexOfNat, Gen.SlabIndexLength]
  rw [beNat_putBE]
  exact Nat.mod_eq_of_lt (Nat.mod_lt _ (by omega))

/-! ## 2. `InMemBaseStorage` -/

/-- `InMemBaseStorage` refines the finite map `segments` — including EMPTY segments. -/
theorem inmem_step_refines (s : InMem) (id : SlabIDB) (d : Bytes) :
    -- Retrieve
    ((s.retrieve id).2 = ((AList.find? s.segments id).getD [], (AList.find? s.segments id).isSome) ∧
     (s.retrieve id).1.segments = s.segments ∧
     (s.retrieve id).1.bytesRetrieved = s.bytesRetrieved + ((AList.find? s.segments id).getD []).length) ∧
    -- Store
    (∀ j, AList.find? (s.store id d).segments j = if j = id then some d else AList.find? s.segments j) ∧
    (s.store id d).bytesStored = s.bytesStored + d.length ∧
    -- Remove
    (∀ j, AList.find? (s.remove id).segments j = if j = id then none else AList.find? s.segments j) := by
  refine ⟨⟨rfl, rfl, rfl⟩, ?_, rfl, ?_⟩
  · intro j
    simp only [InMem.store, AList.find?_insert]
    by_cases h : j = id
    · subst h; simp
    · have : ¬ id = j := fun x => h x.symm
      simp [h, this]
  · intro j
    simp only [InMem.remove, AList.find?_erase]
    by_cases h : j = id
    · subst h; simp
    · have : ¬ id = j := fun x => h x.symm
      simp [h, this]

/-- `SegmentCounts` is the number of distinct identifiers stored and not removed: the key list
    stays duplicate-free. -/
theorem inmem_keys_nodup (s : InMem) (h : (AList.keys s.segments).Nodup) (id : SlabIDB) (d : Bytes) :
    (AList.keys (s.store id d).segments).Nodup ∧ (AList.keys (s.remove id).segments).Nodup ∧
    (AList.keys (s.retrieve id).1.segments).Nodup ∧ s.segmentCounts = (AList.keys s.segments).length := by
  refine ⟨AList.nodup_keys_insert _ _ _ h, AList.nodup_keys_erase _ _ h, h, ?_⟩
  simp [InMem.segmentCounts, AList.keys]

/-- THE TWO `BaseStorage`S DISAGREE ON ZERO-LENGTH DATA: after `Store(id, [])`,
    `InMemBaseStorage.Retrieve` says "found", `LedgerBaseStorage.Retrieve` (over any map ledger,
    all calls succeeding) says "not found".  On non-empty data they agree (`lbs_retrieve_after_store`
    vs `inmem_step_refines`). -/
theorem inmem_and_ledger_differ_on_empty {Λ : Type} (L : Ledger Λ) (val : Λ → Bytes → Bytes → Bytes)
    (hL : IsMapLedger L val) (s : LBS Λ) (m : InMem) (id : SlabIDB)
    (h1 : (s.step L (.store id [])).2 = .unit)
    (h2 : ((s.step L (.store id [])).1.step L (.retrieve id)).2 ≠ .err) :
    ((m.store id []).retrieve id).2 = ([], true) ∧
    ((s.step L (.store id [])).1.step L (.retrieve id)).2 = .data [] false := by
  constructor
  · simp [InMem.retrieve, InMem.store, AList.find?_insert]
  · have := lbs_retrieve_after_store L val hL s id [] h1 h2
    simpa using this

/-! ## 3. `BasicSlabStorage` -/

/-- MAIN REFINEMENT for `BasicSlabStorage`: the finite map `id ↦ slab` (a stored `nil` slab is an
    entry).  `Retrieve` returns the last `Store` unless `Remove`d since; `Store` accepts EVERY
    identifier, `SlabIDUndefined` included. -/
theorem basic_step_refines {σ : Type} (s : Basic σ) (op : BOp σ) :
    let r := s.step op
    let m := fun j => AList.find? s.slabs j
    let m' := fun j => AList.find? r.1.slabs j
    match op with
    | .gen a => (∀ j, m' j = m j) ∧ ∃ i, r.2 = .id i ∧ i.address = a
    | .store id v => r.2 = .unit ∧ ∀ j, m' j = if j = id then some v else m j
    | .remove id => r.2 = .unit ∧ ∀ j, m' j = if j = id then none else m j
    | .retrieve id => r.1 = s ∧ r.2 = .slab ((m id).getD none) (m id).isSome
    | .retrieveIfLoaded id => r.1 = s ∧ r.2 = .loaded ((m id).getD none)
    | .count => r.1 = s ∧ r.2 = .n s.slabs.length := by
  cases op with
  | gen a => exact ⟨fun _ => rfl, _, rfl, rfl⟩
  | store id v =>
    refine ⟨rfl, fun j => ?_⟩
    simp only [Basic.step, Basic.store, AList.find?_insert]
    by_cases h : j = id
    · subst h; simp
    · have : ¬ id = j := fun x => h x.symm
      simp [h, this]
  | remove id =>
    refine ⟨rfl, fun j => ?_⟩
    simp only [Basic.step, Basic.remove, AList.find?_erase]
    by_cases h : j = id
    · subst h; simp
    · have : ¬ id = j := fun x => h x.symm
      simp [h, this]
  | retrieve id => exact ⟨rfl, rfl⟩
  | retrieveIfLoaded id => exact ⟨rfl, rfl⟩
  | count => exact ⟨rfl, rfl⟩

/-- `Count()` is the number of distinct identifiers stored and not removed (the key list stays
    duplicate-free under every request), and `SlabIDs()` lists exactly them. -/
theorem basic_count {σ : Type} (s : Basic σ) (h : (AList.keys s.slabs).Nodup) (op : BOp σ) :
    (AList.keys (s.step op).1.slabs).Nodup ∧ s.count = s.slabIDs.length ∧
    (∀ id, id ∈ s.slabIDs ↔ (s.retrieve id).2 = true) := by
  refine ⟨?_, by simp [Basic.count, Basic.slabIDs, AList.keys], ?_⟩
  · cases op with
    | gen a => exact h
    | store id v => exact AList.nodup_keys_insert _ _ _ h
    | remove id => exact AList.nodup_keys_erase _ _ h
    | retrieve id => exact h
    | retrieveIfLoaded id => exact h
    | count => exact h
  · intro id
    simp only [Basic.slabIDs, Basic.retrieve, ← AList.find?_ne_none_iff]
    cases AList.find? s.slabs id <;> simp

/-! ### `GenerateSlabID` (shared by `BasicSlabStorage` and `InMemBaseStorage`) -/

/-- the per-address counter, read as a number (0 for an address never used) -/
def counter (m : AList Address SlabIndex) (a : Address) : Nat :=
  beNat ((AList.find? m a).getD SlabIndexUndefined).val

theorem counter_nil (a : Address) : counter [] a = 0 := by
  simp [counter, SlabIndexUndefined, beNat_zeros]

/-- One allocation: the requested address, index = counter + 1 (mod 2^64), only that address's
    counter moves. -/
theorem genNext_spec (m : AList Address SlabIndex) (a : Address) :
    (genNext m a).1.address = a ∧
    (genNext m a).1.indexAsUint64 = (counter m a + 1) % 2 ^ 64 ∧
    counter (genNext m a).2 a = (counter m a + 1) % 2 ^ 64 ∧
    ∀ a', a' ≠ a → counter (genNext m a).2 a' = counter m a' := by
  refine ⟨rfl, ?_, ?_, ?_⟩
  · simp only [genNext, newSlabID, SlabIDB.indexAsUint64, counter]
    exact next_numeric _
  · simp only [genNext, counter, AList.find?_insert, if_true, Option.getD_some]
    exact next_numeric _
  · intro a' h
    have : ¬ a = a' := fun x => h x.symm
    simp only [genNext, counter, AList.find?_insert, this, if_false]

/-- The caller-must-prevent-overflow remark on `SlabIndex.Next` is not acted upon by
    `BasicSlabStorage.GenerateSlabID`: at counter 2^64-1 it hands out index 0 — an identifier that
    is not `Valid()` — and then 1, 2, … again. -/
theorem genNext_wraps (m : AList Address SlabIndex) (a : Address) (h : counter m a = 2 ^ 64 - 1) :
    (genNext m a).1.index = SlabIndexUndefined ∧ (genNext m a).1.valid ≠ .ok () ∧
    (genNext (genNext m a).2 a).1.indexAsUint64 = 1 := by
  obtain ⟨_, h2, h3, _⟩ := genNext_spec m a
  have i0 : (genNext m a).1.indexAsUint64 = 0 := by rw [h2, h]
  have c0 : counter (genNext m a).2 a = 0 := by rw [h3, h]
  refine ⟨?_, ?_, ?_⟩
  · apply (index_eq_iff _ _).2
    have : beNat SlabIndexUndefined.val = 0 := beNat_zeros _
    rw [this]; exact i0
  · intro hv
    exact ((valid_iff _).1.1 hv) i0
  · rw [(genNext_spec _ a).2.1, c0]

/-- the identifiers handed out by a request sequence -/
def Basic.gens {σ : Type} (s : Basic σ) (ops : List (BOp σ)) : List SlabIDB :=
  (Basic.run s ops).2.filterMap BObs.genID

private theorem gens_cons {σ : Type} (s : Basic σ) (op : BOp σ) (ops : List (BOp σ)) :
    Basic.gens s (op :: ops) =
      (match (s.step op).2.genID with | some i => [i] | none => []) ++ Basic.gens (s.step op).1 ops := by
  simp only [Basic.gens, Basic.run, List.filterMap_cons]
  cases (s.step op).2.genID <;> rfl

private theorem step_counter {σ : Type} (s : Basic σ) (op : BOp σ) :
    (∀ a, op = .gen a →
      (s.step op).2.genID = some (genNext s.slabIndex a).1 ∧ (s.step op).1.slabIndex = (genNext s.slabIndex a).2) ∧
    ((∀ a, op ≠ .gen a) → (s.step op).2.genID = none ∧ (s.step op).1.slabIndex = s.slabIndex) := by
  cases op <;> simp [Basic.step, Basic.generateSlabID, BObs.genID, Basic.store, Basic.remove]

private theorem gens_forward {σ : Type} (ops : List (BOp σ)) :
    ∀ (s : Basic σ) (n : Nat), (∀ a, counter s.slabIndex a ≤ n) → n + ops.length ≤ 2 ^ 64 - 1 →
      ∀ id ∈ Basic.gens s ops, counter s.slabIndex id.address < id.indexAsUint64 := by
  induction ops with
  | nil => intro s n _ _ id h; simp [Basic.gens, Basic.run] at h
  | cons op ops ih =>
    intro s n hn hlen id hid
    rw [gens_cons] at hid
    have hlen' : (n + 1) + ops.length ≤ 2 ^ 64 - 1 := by simp only [List.length_cons] at hlen; omega
    by_cases hg : ∃ a, op = .gen a
    · obtain ⟨a, rfl⟩ := hg
      obtain ⟨e1, e2⟩ := (step_counter s (.gen a)).1 a rfl
      obtain ⟨g1, g2, g3, g4⟩ := genNext_spec s.slabIndex a
      have hna := hn a
      have nowrap : (counter s.slabIndex a + 1) % 2 ^ 64 = counter s.slabIndex a + 1 :=
        Nat.mod_eq_of_lt (by omega)
      have hn' : ∀ a', counter (s.step (.gen a)).1.slabIndex a' ≤ n + 1 := by
        intro a'
        rw [e2]
        by_cases h : a' = a
        · subst h; rw [g3, nowrap]; omega
        · rw [g4 a' h]; have := hn a'; omega
      rw [e1] at hid
      simp only [List.cons_append, List.nil_append, List.mem_cons] at hid
      rcases hid with rfl | hid
      · rw [g1, g2, nowrap]; omega
      · have := ih _ (n + 1) hn' hlen' id hid
        rw [e2] at this
        by_cases h : id.address = a
        · rw [h, g3, nowrap] at this; rw [h]; omega
        · rw [g4 _ h] at this; exact this
    · have hg' : ∀ a, op ≠ .gen a := fun a h => hg ⟨a, h⟩
      obtain ⟨e1, e2⟩ := (step_counter s op).2 hg'
      rw [e1] at hid
      simp only [List.nil_append] at hid
      have hn' : ∀ a', counter (s.step op).1.slabIndex a' ≤ n + 1 := by
        intro a'; rw [e2]; have := hn a'; omega
      have := ih _ (n + 1) hn' hlen' id hid
      rw [e2] at this
      exact this

private theorem gens_nodup {σ : Type} (ops : List (BOp σ)) :
    ∀ (s : Basic σ) (n : Nat), (∀ a, counter s.slabIndex a ≤ n) → n + ops.length ≤ 2 ^ 64 - 1 →
      (Basic.gens s ops).Nodup := by
  induction ops with
  | nil => intro s n _ _; simp [Basic.gens, Basic.run]
  | cons op ops ih =>
    intro s n hn hlen
    rw [gens_cons]
    have hlen' : (n + 1) + ops.length ≤ 2 ^ 64 - 1 := by simp only [List.length_cons] at hlen; omega
    by_cases hg : ∃ a, op = .gen a
    · obtain ⟨a, rfl⟩ := hg
      obtain ⟨e1, e2⟩ := (step_counter s (.gen a)).1 a rfl
      obtain ⟨g1, g2, g3, g4⟩ := genNext_spec s.slabIndex a
      have hna := hn a
      have nowrap : (counter s.slabIndex a + 1) % 2 ^ 64 = counter s.slabIndex a + 1 :=
        Nat.mod_eq_of_lt (by omega)
      have hn' : ∀ a', counter (s.step (.gen a)).1.slabIndex a' ≤ n + 1 := by
        intro a'
        rw [e2]
        by_cases h : a' = a
        · subst h; rw [g3, nowrap]; omega
        · rw [g4 a' h]; have := hn a'; omega
      rw [e1]
      simp only [List.cons_append, List.nil_append, List.nodup_cons]
      refine ⟨?_, ih _ (n + 1) hn' hlen'⟩
      intro hmem
      have := gens_forward ops _ (n + 1) hn' hlen' _ hmem
      rw [e2, g1, g3, g2] at this
      omega
    · have hg' : ∀ a, op ≠ .gen a := fun a h => hg ⟨a, h⟩
      obtain ⟨e1, e2⟩ := (step_counter s op).2 hg'
      rw [e1]
      simp only [List.nil_append]
      have hn' : ∀ a', counter (s.step op).1.slabIndex a' ≤ n + 1 := by
        intro a'; rw [e2]; have := hn a'; omega
      exact ih _ (n + 1) hn' hlen'

/-- `GenerateSlabID` NEVER REPEATS: in any request sequence of at most 2^64-1 requests on a new
    `BasicSlabStorage` (stores, removes and reads interleaved at will, any number of addresses),
    the identifiers handed out are pairwise distinct, each has the requested address and a
    non-zero index (so each is `Valid()`). -/
theorem basic_generated_ids_fresh {σ : Type} (ops : List (BOp σ)) (h : ops.length ≤ 2 ^ 64 - 1) :
    (Basic.gens (Basic.new : Basic σ) ops).Nodup ∧
    ∀ id ∈ Basic.gens (Basic.new : Basic σ) ops, id.valid = .ok () := by
  have h0 : ∀ a, counter (Basic.new : Basic σ).slabIndex a ≤ 0 := by
    intro a; simp [Basic.new, counter_nil]
  refine ⟨gens_nodup ops _ 0 h0 (by omega), ?_⟩
  intro id hid
  have := gens_forward ops _ 0 h0 (by omega) id hid
  exact (valid_iff id).1.2 (by omega)

/-! ### `SlabIterator` -/

private theorem nexts_aux {σ : Type} (n : Nat) :
    ∀ (entries : List (SlabIDB × Option σ)) (i : Nat),
      BasicIter.nexts n ⟨entries, i⟩ =
        (entries.drop i).take n ++ List.replicate (n - (entries.length - i)) (SlabIDUndefined, none) := by
  induction n with
  | zero => intro entries i; simp [BasicIter.nexts]
  | succ n ih =>
    intro entries i
    simp only [BasicIter.nexts, BasicIter.next]
    cases h : entries[i]? with
    | none =>
      have hl : entries.length ≤ i := by
        rcases Nat.lt_or_ge i entries.length with hlt | hge
        · rw [List.getElem?_eq_getElem hlt] at h; cases h
        · exact hge
      have hd : entries.drop i = [] := List.drop_of_length_le hl
      simp only [ih, hd, List.take_nil, List.nil_append]
      have : entries.length - i = 0 := by omega
      rw [this, Nat.sub_zero, Nat.sub_zero, List.replicate_succ]
    | some e =>
      have hlt : i < entries.length := by
        rcases Nat.lt_or_ge i entries.length with hlt | hge
        · exact hlt
        · rw [List.getElem?_eq_none hge] at h; cases h
      have he : entries[i] = e := by rw [List.getElem?_eq_getElem hlt] at h; exact Option.some.inj h
      have hd : entries.drop i = e :: entries.drop (i + 1) := by
        rw [← he]; exact List.drop_eq_getElem_cons hlt
      simp only [ih, hd, List.take_succ_cons, List.cons_append]
      have : n + 1 - (entries.length - i) = n - (entries.length - (i + 1)) := by omega
      rw [this]

/-- The iterator of `BasicSlabStorage` is a SNAPSHOT: `n` calls return the first `n` entries the
    storage held when `SlabIterator()` was called (in Go: in map order), then `(SlabIDUndefined, nil)`
    for ever; later `Store`/`Remove` requests on the storage do not influence it (the iterator value
    does not mention the storage). -/
theorem iter_nexts_spec {σ : Type} (s : Basic σ) (n : Nat) :
    s.slabIterator.nexts n =
      s.slabs.take n ++ List.replicate (n - s.count) (SlabIDUndefined, none) := by
  have := nexts_aux n s.slabs 0
  simpa [Basic.slabIterator, Basic.count] using this

/-- Calling it `Count()` times yields every stored entry exactly once. -/
theorem iter_visits_all {σ : Type} (s : Basic σ) :
    s.slabIterator.nexts s.count = s.slabs ∧
    s.slabIterator.nexts (s.count + 2) = s.slabs ++ [(SlabIDUndefined, none), (SlabIDUndefined, none)] := by
  rw [iter_nexts_spec, iter_nexts_spec]
  simp only [Basic.count, Nat.sub_self, List.replicate_zero, List.append_nil, List.take_length, true_and]
  rw [List.take_of_length_le (by omega)]
  have : s.slabs.length + 2 - s.slabs.length = 2 := by omega
  rw [this]; rfl

private theorem drain_eq {σ : Type} (n : Nat) :
    ∀ it : BasicIter σ, it.drain n = (it.nexts n).takeWhile (fun e => decide (e.1 ≠ SlabIDUndefined)) := by
  induction n with
  | zero => intro it; rfl
  | succ n ih =>
    intro it
    simp only [BasicIter.drain, BasicIter.nexts, List.takeWhile_cons]
    by_cases h : it.next.2.1 = SlabIDUndefined
    · simp [h]
    · simp [h, ih]

/-- The consumer idiom of `CheckStorageHealth` (`for { id, slab := it(); if id == SlabIDUndefined
    { break } … }`) visits EVERY stored slab when `SlabIDUndefined` is not a key … -/
theorem drain_complete {σ : Type} (s : Basic σ) (h : SlabIDUndefined ∉ s.slabIDs) :
    s.slabIterator.drain (s.count + 1) = s.slabs := by
  rw [drain_eq, iter_nexts_spec]
  have ht : s.slabs.take (s.count + 1) = s.slabs := List.take_of_length_le (by simp [Basic.count])
  have hr : s.count + 1 - s.count = 1 := by omega
  rw [ht, hr]
  have hall : ∀ e ∈ s.slabs, decide (e.1 ≠ SlabIDUndefined) = true := by
    intro e he
    have : e.1 ∈ s.slabIDs := by
      simp only [Basic.slabIDs, AList.keys, List.mem_map]; exact ⟨e, he, rfl⟩
    simp only [decide_eq_true_eq]
    intro x; rw [x] at this; exact h this
  rw [List.takeWhile_append_of_pos hall]
  simp

/-- … and STOPS EARLY when it is: `BasicSlabStorage.Store` accepts `SlabIDUndefined` as a key
    (`basic_step_refines`), and then the entry filed under it — and every entry the map order
    puts after it — is never seen by a sentinel-driven consumer, whatever the fuel. -/
theorem drain_truncated {σ : Type} (s : Basic σ) (h : SlabIDUndefined ∈ s.slabIDs) (n : Nat) :
    (s.slabIterator.drain n).length < s.count ∧
    ∀ e ∈ s.slabIterator.drain n, e.1 ≠ SlabIDUndefined := by
  rw [drain_eq, iter_nexts_spec]
  constructor
  · -- the prefix before the sentinel key is a proper prefix of the entries
    have key : ∀ (l : List (SlabIDB × Option σ)) (tl : List (SlabIDB × Option σ)),
        SlabIDUndefined ∈ l.map (·.1) →
        ((l ++ tl).takeWhile (fun e => decide (e.1 ≠ SlabIDUndefined))).length < l.length := by
      intro l
      induction l with
      | nil => intro tl hm; simp at hm
      | cons x xs ih =>
        intro tl hm
        rw [List.cons_append]
        by_cases hx : x.1 = SlabIDUndefined
        · rw [List.takeWhile_cons_of_neg (by simp [hx])]; simp
        · rw [List.takeWhile_cons_of_pos (by simp [hx])]
          have hm' : SlabIDUndefined ∈ xs.map (·.1) := by
            simp only [List.map_cons, List.mem_cons] at hm
            rcases hm with e | e
            · exact absurd e.symm hx
            · exact e
          have := ih tl hm'
          simp only [List.length_cons]
          omega
    by_cases hn : s.count ≤ n
    · have ht : s.slabs.take n = s.slabs := List.take_of_length_le (by simpa [Basic.count] using hn)
      rw [ht]
      exact key s.slabs _ (by simpa [Basic.slabIDs, AList.keys] using h)
    · have hlen : (s.slabs.take n ++ List.replicate (n - s.count) (SlabIDUndefined, none)).length ≤ n := by
        simp only [List.length_append, List.length_take, List.length_replicate]; omega
      have := (List.takeWhile_sublist (fun e : SlabIDB × Option σ => decide (e.1 ≠ SlabIDUndefined))
        (l := s.slabs.take n ++ List.replicate (n - s.count) (SlabIDUndefined, none))).length_le
      omega
  · intro e he
    have hall := List.all_takeWhile (p := fun e : SlabIDB × Option σ => decide (e.1 ≠ SlabIDUndefined))
      (l := s.slabs.take n ++ List.replicate (n - s.count) (SlabIDUndefined, none))
    have := List.all_eq_true.mp hall e he
    simpa using this

/-! ### Non-vacuity -/
section NonVacuity

def ex1 : SlabIDB := ofModel ⟨1, 1⟩
def ex2 : SlabIDB := ofModel ⟨1, 2⟩

/-- a `BasicSlabStorage` history with overwrite, removal, a `nil` slab and `SlabIDUndefined` as key -/
def exOps : List (BOp Nat) :=
  [.gen ex1.address, .store ex1 (some 10), .gen ex1.address, .store ex2 (some 20), .store ex1 (some 11),
   .retrieve ex1, .remove ex2, .retrieve ex2, .store SlabIDUndefined (some 99), .store ex2 none, .count]

example : Basic.gens (Basic.new : Basic Nat) exOps = [ex1, ex2] := by decide
example : ((Basic.run (Basic.new : Basic Nat) exOps).1.slabs.map (fun p => (p.1.toModel.addr, p.1.toModel.idx, p.2))) =
    [(1, 2, none), (0, 0, some 99), (1, 1, some 11)] := by decide
/-- the sentinel idiom sees one of three entries here; calling `Count()` times sees all three -/
example : ((Basic.run (Basic.new : Basic Nat) exOps).1.slabIterator.drain 10).length = 1 ∧
    ((Basic.run (Basic.new : Basic Nat) exOps).1.slabIterator.nexts 3).length = 3 := by decide

/-- a `LedgerBaseStorage` history on the harness ledger with a failing call (call number 1) -/
def exL : LBS MapLedger := LBS.new { fail := [1], junk := [7, 7, 7] }
def exLOps : List LOp :=
  [.store ex1 [1, 2, 3], .retrieve ex1, .retrieve ex1, .store ex2 [], .retrieve ex2, .remove ex1, .retrieve ex1,
   .gen ex1.address, .gen ex1.address]

example : (LBS.run MapLedger.iface exL exLOps).2 =
    [.unit, .err, .data [1, 2, 3] true, .unit, .data [] false, .unit, .data [] false, .id ex1, .id ex2] := by
  decide
/-- the failed read returned 3 junk bytes with its error: they are counted -/
example : (LBS.run MapLedger.iface exL exLOps).1.bytesRetrieved = 6 ∧
    (LBS.run MapLedger.iface exL exLOps).1.bytesStored = 3 := by decide

end NonVacuity

end Atree.SlabIdB
