import AtreeModel.CommitPool
import AtreeProofs.PoolXLemmas
import AtreeProofs.StorageLemmas2
import AtreeProofs.StorageExample2
import AtreeProofs.Props.C16
/-
  C16 — the worker pools of `FastCommit` / `NondeterministicFastCommit` with the main goroutine,
  the `done` channel, the closing of `jobs` / `results` and the deferred closure
  (`wg.Wait(); close(results)`) made explicit (`AtreeModel/CommitPool.lean`, `Atree.PoolX`).

  For EVERY schedule (a list of actors `main | worker w`, a blocked actor's step is a no-op), every
  job list, every encoder function `f`, every error predicate, every fault plan, with the
  parameter values of the Go code (`Real P jobs`: capacity of `results` = number of jobs, the
  deferred closure waits before closing):
    a. no goroutine ever sends on the closed `results` channel        `no_send_on_closed_channel`
    b. the send on `results` never blocks                              `send_never_blocks`
    c. a non-final reachable state has an enabled actor (≥ 1 encoder)  `no_deadlock`
    d. every effective step decreases a measure; round robin finishes  `step_decreases_measure`,
                                                                       `effective_steps_bounded`,
                                                                       `terminates`
    e. no result is lost, duplicated or invented                       `results_sound`,
                                                                       `results_complete`
    f. an encoding error of any job makes main report it               `encode_error_reported`,
                                                                       `fastCommitPoolX_eq_fastCommit`
  The section TEETH shows that the two mutations found surviving by the audit falsify a. resp. c.:
    mA  delete `wg.Wait()` in the deferred closure  (`waitBeforeClose := false`)  → panic,
    mB  capacity of `results` := `numWorkers`       (`cap := workers`)            → deadlock,
  and that a pool with 0 encoders is stuck (the Go code hangs for `numWorkers = 0`: main blocks
  forever on `<-results`; for `numWorkers < 0` `wg.Add` panics; audit item F5).

  What is NOT covered: the Go memory model (data races), the fairness of the real scheduler, the
  capacity of the `jobs` channel (a send on it is modelled as never blocking; the capacity equals
  the number of sends), the atomicity of a single channel operation.
-/
namespace Atree.C16
open Atree PoolX
open Atree.St (sortedOwnedDeltaKeys encodeJob anyEncodeFails fastParamsX nondetParamsX faultPlan fastCommit
  commitKeys fastCommitPoolX fastCommitObserveX)

variable {ι ρ : Type}

/-- a. Whatever the schedule, no goroutine ever executes a send on the closed `results` channel
    (the process never panics): when `results` is closed every encoder has already returned. -/
theorem no_send_on_closed_channel (P : Params ι ρ) (jobs : List ι) (hR : Real P jobs) (n : Nat)
    (sched : List Actor) :
    let s := run P (init P jobs n) sched
    s.panicked = false ∧ (s.resultsClosed = true → allExited s.workers = true) := by
  intro s
  have h : Reach P jobs n s := reach_run hR sched _ (reach_init P jobs n)
  refine ⟨h.ctl.np, fun hc => ?_⟩
  rw [allExited_iff]
  exact h.ctl.lateExited (Or.inr (h.ctl.closedRet hc))

/-- b. Whatever the schedule, at every moment the number of buffered results plus the number of
    jobs held by encoders is at most the capacity of `results`; hence an encoder that is about to
    send always finds room: its step appends its result to `results` and it goes back to the head
    of its loop (the blocking branch of the send is never taken). -/
theorem send_never_blocks (P : Params ι ρ) (jobs : List ι) (hR : Real P jobs) (n : Nat)
    (sched : List Actor) :
    let s := run P (init P jobs n) sched
    s.results.length + (held s.workers).length ≤ P.cap ∧
    ∀ w j, s.workers[w]? = some (.sending j) →
      (step P s (.worker w)).results = s.results ++ [(j, P.f j)] ∧
      (step P s (.worker w)).workers = s.workers.set w .idle := by
  intro s
  have h : Reach P jobs n s := reach_run hR sched _ (reach_init P jobs n)
  refine ⟨results_held_le_cap hR h.data, fun w j hw => ?_⟩
  have hnp := h.ctl.np
  have hroom := sending_has_room hR h.data w j hw
  have hrc : s.resultsClosed = false := by
    cases hc : s.resultsClosed with
    | false => rfl
    | true =>
      have := h.ctl.lateExited (Or.inr (h.ctl.closedRet hc)) _ (List.mem_of_getElem? hw)
      cases this
  simp [step, encoderStep, hnp, hw, hrc, hroom]

/-- c. Whatever the schedule, with at least one encoder: in a reachable state that is not final
    (main returned and all encoders returned) some actor is enabled - its step changes the state
    (and decreases the termination measure).  No deadlock. -/
theorem no_deadlock (P : Params ι ρ) (jobs : List ι) (hR : Real P jobs) (n : Nat) (hn : 1 ≤ n)
    (sched : List Actor) :
    let s := run P (init P jobs n) sched
    final s = false →
    ∃ a ∈ actors n, step P s a ≠ s ∧ PoolX.measure P (step P s a) < PoolX.measure P s := by
  intro s hnf
  have h : Reach P jobs n s := reach_run hR sched _ (reach_init P jobs n)
  obtain ⟨a, ha, hen⟩ := progress hR h.data h.ctl (by rw [h.nworkers]; exact hn) hnf
  rw [h.nworkers] at ha
  exact ⟨a, ha, (step_ne_iff_enabled P s a).mpr hen, measure_of_enabled P s a hen⟩

/-- d1. In ANY state, for ANY parameter values: a scheduler step either leaves the state unchanged
    (the actor is blocked, has returned, does not exist, or the process has panicked) or strictly
    decreases the natural-number measure. -/
theorem step_decreases_measure (P : Params ι ρ) (s : XState ι ρ) (a : Actor) :
    step P s a = s ∨ PoolX.measure P (step P s a) < PoolX.measure P s := by
  rcases step_cases P s a with h | h
  · exact Or.inl h.2
  · exact Or.inr h.2

/-- d2. Every schedule performs at most `measure` state-changing steps. -/
theorem effective_steps_bounded (P : Params ι ρ) (s : XState ι ρ) (sched : List Actor) :
    effective P s sched ≤ PoolX.measure P s := by
  have := effective_le P sched s
  omega

/-- the measure of the initial states -/
theorem measure_initFast (P : Params ι ρ) (jobs : List ι) (n : Nat) :
    PoolX.measure P (initFast jobs n) = 4 * jobs.length + n + 5 := by
  simp [PoolX.measure, initFast, rank, pw, wt, List.map_replicate, List.sum_replicate_nat]

theorem measure_initNondet (P : Params ι ρ) (jobs : List ι) (n : Nat) :
    PoolX.measure P (initNondet jobs n) = 5 * jobs.length + n + P.dels + 7 := by
  simp [PoolX.measure, initNondet, rank, pw, wt, List.map_replicate, List.sum_replicate_nat]
  omega

/-- d3. With at least one encoder, the round-robin schedule over main and the encoders reaches the
    final state: main has returned, all encoders have returned (and, by a., nothing panicked).
    Together with c. and d1.: under every fair scheduler the commit functions return and leave no
    goroutine behind. -/
theorem terminates (P : Params ι ρ) (jobs : List ι) (hR : Real P jobs) (n : Nat) (hn : 1 ≤ n) :
    final (run P (init P jobs n) (roundRobin n (PoolX.measure P (init P jobs n)))) = true :=
  roundRobin_final hR hn

/-- the final state is stable: nothing moves any more -/
theorem final_stable (P : Params ι ρ) (s : XState ι ρ) (h : final s = true) (sched : List Actor) :
    run P s sched = s :=
  final_run P sched s h

/-- e1. Whatever the schedule AND whatever the parameter values (also for the mutants): at every
    moment the results received by main, those buffered in `results`, the jobs held by encoders,
    queued in `jobs`, not yet sent and dropped (by an encoder that saw `done` closed) together are
    exactly the jobs - nothing lost, nothing duplicated -, and every result is `(j, f j)`. -/
theorem results_sound (P : Params ι ρ) (jobs : List ι) (n : Nat) (sched : List Actor) :
    let s := run P (init P jobs n) sched
    (∀ r ∈ s.received ++ s.results, r.2 = P.f r.1) ∧
    ((s.received ++ s.results).map Prod.fst ++
        (held s.workers ++ (s.queue ++ (s.unsent ++ s.dropped)))).Perm jobs ∧
    ∃ rest, (s.received.map Prod.fst ++ rest).Perm jobs := by
  intro s
  have h : DataInv P jobs s := data_run P jobs sched _ (data_init P jobs n)
  exact ⟨h.vals, h.perm, received_extends h⟩

/-- e2. Whatever the schedule: when main has left the receive loop without an early exit, what it
    received is a permutation of `jobs` paired with `f job` (the statement of `pool_results_perm`,
    now for the channel `results` as seen by main), nothing is left in any channel or encoder, and
    the order of the received jobs is a permutation of the jobs - i.e. a legal value of the
    parameter `modOrder` of `St.nondetCommit`. -/
theorem results_complete (P : Params ι ρ) (jobs : List ι) (hR : Real P jobs) (n : Nat)
    (sched : List Actor) :
    let s := run P (init P jobs n) sched
    mainDone s = true → s.stop = none →
    s.received.Perm (jobs.map (fun j => (j, P.f j))) ∧ (s.received.map Prod.fst).Perm jobs ∧
    s.results = [] ∧ held s.workers = [] ∧ s.queue = [] ∧ s.unsent = [] ∧ s.dropped = [] := by
  intro s hdone hstop
  have h : Reach P jobs n s := reach_run hR sched _ (reach_init P jobs n)
  obtain ⟨h1, h2⟩ := received_perm h hdone hstop
  exact ⟨h2, h1, all_received h hdone hstop⟩

/-- f1. Whatever the schedule: if the result of some job is an error and main has left the receive
    loop, then main made an early exit (`close(done)`): on the encoding error, or - only in
    `NondeterministicFastCommit` - on an earlier failure (nil data, failing `Store` / `Remove`).
    In `FastCommit` the early exit is on the encoding error.  Conversely main reports an encoding
    error only if it received the erroneous result of some job. -/
theorem encode_error_reported (P : Params ι ρ) (jobs : List ι) (hR : Real P jobs) (n : Nat)
    (sched : List Actor) :
    let s := run P (init P jobs n) sched
    (mainDone s = true → (∃ j ∈ jobs, P.isErr (P.f j) = true) →
      s.stop ≠ none ∧ s.doneClosed = true ∧ (P.nondet = false → s.stop = some .encodeErr)) ∧
    (s.stop = some .encodeErr → ∃ j ∈ jobs, (j, P.f j) ∈ s.received ∧ P.isErr (P.f j) = true) := by
  intro s
  have h : Reach P jobs n s := reach_run hR sched _ (reach_init P jobs n)
  refine ⟨fun hdone ⟨j, hj, he⟩ => ?_, error_of_stop h⟩
  have hne := stop_of_error h hdone j hj he
  refine ⟨hne, ?_, fun hn => ?_⟩
  · rw [h.ctl.doneStop]
    cases hs : s.stop with
    | none => exact absurd hs hne
    | some _ => rfl
  · rcases h.ctl.fastStop hn with h0 | h0
    · exact absurd h0 hne
    · exact h0

variable {σ β : Type} (c : Codec σ β)

theorem real_fastParamsX (s : St σ β) :
    Real (fastParamsX c s (sortedOwnedDeltaKeys s).length) (sortedOwnedDeltaKeys s) := ⟨rfl, rfl⟩

theorem real_nondetParamsX (fault : Nat → Bool) (s : St σ β) (mo : List SlabID) (d : Nat) :
    Real (nondetParamsX c fault s mo.length d) mo := ⟨rfl, rfl⟩

/-- f2. `FastCommit` with pool, main goroutine and deferred closure explicit IS the sequential
    `St.fastCommit` (state, error, call log), for every worker count and EVERY schedule under
    which the final state is reached - including the schedules where main exits early on an
    encoding error while encoders are still busy.  (`1 ≤ workers` is what makes final states
    reachable, see `terminates`; it is not needed for the equality.) -/
theorem fastCommitPoolX_eq_fastCommit (s : St σ β) (h : Inv c s) (fault : Nat → Bool)
    (workers : Nat) (sched : List Actor)
    (hfin : (s.fastCommitObserveX c workers sched).final = true) :
    s.fastCommitPoolX c fault workers sched = s.fastCommit c fault := by
  unfold fastCommitPoolX
  dsimp only
  split
  · rename_i hk
    have hk' : sortedOwnedDeltaKeys s = [] := by simpa using hk
    unfold fastCommit commitKeys anyEncodeFails
    rw [hk']
    rfl
  · have hinit : initFast (sortedOwnedDeltaKeys s) (min workers (sortedOwnedDeltaKeys s).length) =
        init (fastParamsX c s (sortedOwnedDeltaKeys s).length) (sortedOwnedDeltaKeys s)
          (min workers (sortedOwnedDeltaKeys s).length) := rfl
    have hreach := reach_run (real_fastParamsX c s) sched _
      (reach_init (fastParamsX c s (sortedOwnedDeltaKeys s).length) (sortedOwnedDeltaKeys s)
        (min workers (sortedOwnedDeltaKeys s).length))
    rw [← hinit] at hreach
    have hdone := mainDone_of_final _ hfin
    unfold fastCommitObserveX observe at hfin ⊢
    dsimp only at hfin hdone ⊢
    split
    · rename_i r hs
      rcases hreach.ctl.fastStop rfl with h0 | h0
      · rw [h0] at hs; cases hs
      · obtain ⟨j, hj, _, he⟩ := error_of_stop hreach h0
        have hany : anyEncodeFails c s (sortedOwnedDeltaKeys s) = true := by
          rw [anyEncodeFails_iff]
          refine ⟨j, hj, ?_⟩
          have he' : (encodeJob c s j).isNone = true := he
          cases hx : encodeJob c s j with
          | none => rfl
          | some _ => rw [hx] at he'; cases he'
        unfold fastCommit
        dsimp only
        rw [hany]
        rfl
    · rename_i hs
      obtain ⟨_, hp⟩ := received_perm hreach hdone hs
      exact fastCommitPool_eq_of_results c fault s h.deltasNodup _ hp

/-- f3. Consequence for `FastCommit`: if some owned modified slab fails to encode, then under every
    schedule that reaches the final state the function reports the encoding error and has issued
    no base-storage call (the first branch of `St.fastCommit`). -/
theorem fastCommitPoolX_encode_error_first (s : St σ β) (h : Inv c s) (fault : Nat → Bool)
    (workers : Nat) (sched : List Actor)
    (hfin : (s.fastCommitObserveX c workers sched).final = true)
    (hany : anyEncodeFails c s (sortedOwnedDeltaKeys s) = true) :
    let r := s.fastCommitPoolX c fault workers sched
    r.err = some .encoding ∧ r.log = [] ∧ r.st = s := by
  intro r
  have : r = s.fastCommit c fault := fastCommitPoolX_eq_fastCommit c s h fault workers sched hfin
  rw [this]
  unfold fastCommit
  dsimp only
  rw [hany]
  exact ⟨rfl, rfl, rfl⟩

/-- e3. `NondeterministicFastCommit`: whatever the schedule, the jobs received by main so far extend
    to an enumeration of the modified owned keys, and when main ran its receive loop to the end
    the received order IS a permutation of them: a legal value of the parameter `modOrder` of
    `St.nondetCommit` (which consumes the results "in arrival order"). -/
theorem nondet_arrival_is_modOrder (fault : Nat → Bool) (s : St σ β) (modOrder delOrder : List SlabID)
    (workers : Nat) (sched : List Actor) :
    let o := s.nondetCommitPoolX c fault modOrder delOrder workers sched
    (∃ rest, (o.received.map Prod.fst ++ rest).Perm modOrder) ∧
    (∀ r ∈ o.received, r.2 = encodeJob c s r.1) ∧
    (o.final = true → o.stop = none → (o.received.map Prod.fst).Perm modOrder) ∧
    o.panicked = false := by
  intro o
  have hinit : initNondet modOrder (min workers modOrder.length) =
      init (nondetParamsX c fault s modOrder.length delOrder.length) modOrder
        (min workers modOrder.length) := rfl
  have hreach := reach_run (real_nondetParamsX c fault s modOrder delOrder.length) sched _
    (reach_init (nondetParamsX c fault s modOrder.length delOrder.length) modOrder
      (min workers modOrder.length))
  rw [← hinit] at hreach
  refine ⟨received_extends hreach.data, fun r hr => hreach.data.vals r (List.mem_append_left _ hr),
    fun hfin hstop => ?_, hreach.ctl.np⟩
  exact (received_perm hreach (mainDone_of_final _ hfin) hstop).1

/-- d4. `FastCommit(numWorkers)` with `numWorkers ≥ 1` on a storage with at least one owned pending
    identifier: under the round-robin scheduler (over main and the `min numWorkers #keys`
    encoders, `4·#keys + n + 5` rounds) main returns, all encoders return, nothing panics. -/
theorem fastCommit_pool_terminates (s : St σ β) (workers : Nat) (hw : 1 ≤ workers)
    (hk : sortedOwnedDeltaKeys s ≠ []) :
    let keys := sortedOwnedDeltaKeys s
    let n := min workers keys.length
    let o := s.fastCommitObserveX c workers (roundRobin n (4 * keys.length + n + 5))
    o.final = true ∧ o.panicked = false := by
  intro keys n o
  have hn : 1 ≤ n := by
    have : 1 ≤ keys.length := List.length_pos_iff.mpr hk
    exact Nat.le_min.mpr ⟨hw, this⟩
  have hinit : init (fastParamsX c s keys.length) keys n = initFast keys n := rfl
  have ht := terminates (fastParamsX c s keys.length) keys (real_fastParamsX c s) n hn
  have hp := (no_send_on_closed_channel (fastParamsX c s keys.length) keys (real_fastParamsX c s) n
    (roundRobin n (4 * keys.length + n + 5))).1
  rw [hinit] at ht hp
  rw [measure_initFast] at ht
  exact ⟨ht, hp⟩

/-- d5. The same for `NondeterministicFastCommit(numWorkers)` with `numWorkers ≥ 1` and at least two
    modified owned slabs (the case in which it starts goroutines), for every fault plan. -/
theorem nondetCommit_pool_terminates (fault : Nat → Bool) (s : St σ β) (modOrder delOrder : List SlabID)
    (workers : Nat) (hw : 1 ≤ workers) (hk : 2 ≤ modOrder.length) :
    let n := min workers modOrder.length
    let o := s.nondetCommitPoolX c fault modOrder delOrder workers
      (roundRobin n (5 * modOrder.length + n + delOrder.length + 7))
    o.final = true ∧ o.panicked = false := by
  intro n o
  have hn : 1 ≤ n := Nat.le_min.mpr ⟨hw, by omega⟩
  have hinit : init (nondetParamsX c fault s modOrder.length delOrder.length) modOrder n =
      initNondet modOrder n := rfl
  have ht := terminates (nondetParamsX c fault s modOrder.length delOrder.length) modOrder
    (real_nondetParamsX c fault s modOrder delOrder.length) n hn
  have hp := (no_send_on_closed_channel (nondetParamsX c fault s modOrder.length delOrder.length) modOrder
    (real_nondetParamsX c fault s modOrder delOrder.length) n
    (roundRobin n (5 * modOrder.length + n + delOrder.length + 7))).1
  rw [hinit] at ht hp
  rw [measure_initNondet] at ht
  exact ⟨ht, hp⟩

/-! ### Non-vacuity and TEETH

`P3 wait cap`: `FastCommit`-mode pool, jobs `10, 20, 30, 40`, `f = (· + 1)`, the result `21` (job
`20`) is an encoding error.  `sched1`: three encoders take `10, 20, 30` and pass the `done` check;
encoder 1 sends `(20, 21)`; main receives it, closes `done` and enters the deferred closure while
encoders 0 and 2 are still about to send; main is scheduled twice more (blocked in `wg.Wait()`);
then the encoders send, encoder 0 takes job `40`, sees `done` closed and returns, the others find
`jobs` drained and return; main closes `results` and returns. -/
section Teeth

def P3 (wait : Bool) (cap : Nat) : Params Nat Nat :=
  { f := (· + 1), isErr := (· == 21), isNil := fun _ => false, fault := fun _ => false, dels := 0,
    nondet := false, cap := cap, waitBeforeClose := wait }

def sched1 : List Actor :=
  [.worker 0, .worker 0, .worker 1, .worker 1, .worker 2, .worker 2, .worker 1, .main, .main, .main,
   .worker 0, .worker 2, .worker 0, .worker 0, .worker 2, .worker 1, .main, .main]

theorem real_P3 : Real (P3 true 4) [10, 20, 30, 40] := ⟨rfl, rfl⟩

/-- The real parameters: after main's early exit (10 steps) two encoders are still about to send
    and main is blocked in `wg.Wait()`; at the end of `sched1` the state is final, nothing
    panicked, main received only the failing result, job `40` was dropped, two results stay
    buffered. -/
example :
    let s := run (P3 true 4) (initFast [10, 20, 30, 40] 3) (sched1.take 10)
    s.phase = .waiting ∧ s.doneClosed = true ∧ s.workers = [.sending 10, .idle, .sending 30] ∧
    enabled (P3 true 4) s .main = false := by decide
example :
    let s := run (P3 true 4) (initFast [10, 20, 30, 40] 3) sched1
    final s = true ∧ s.panicked = false ∧ s.received = [(20, 21)] ∧ s.stop = some .encodeErr ∧
    s.dropped = [40] ∧ s.results = [(10, 11), (30, 31)] ∧ s.resultsClosed = true := by decide

/-- TEETH mA: the SAME schedule with `wg.Wait()` deleted from the deferred closure: main closes
    `results` while encoders 0 and 2 are about to send; encoder 0 sends on the closed channel:
    panic.  So `no_send_on_closed_channel` is false for the mutant. -/
example : (run (P3 false 4) (initFast [10, 20, 30, 40] 3) sched1).panicked = true := by decide

def PB (cap : Nat) : Params Nat Nat :=
  { f := (· + 1), isErr := (· == 11), isNil := fun _ => false, fault := fun _ => false, dels := 0,
    nondet := false, cap := cap, waitBeforeClose := true }

def schedB : List Actor :=
  [.worker 0, .worker 0, .worker 1, .worker 1, .worker 0, .worker 1, .worker 0, .worker 0,
   .worker 1, .worker 1, .main, .worker 0, .worker 0]

/-- TEETH mB: capacity of `results` = number of workers (2) < number of jobs (4), job `10` fails.
    Both encoders send (buffer full), take `30` and `40`, pass the `done` check; main receives the
    failing result, closes `done`, and waits in `wg.Wait()`; encoder 0 sends into the freed slot
    and returns; encoder 1 is blocked on the full channel forever; main is blocked in `wg.Wait()`
    forever: a non-final state in which NO actor can move.  So `no_deadlock` (and
    `send_never_blocks`) is false for the mutant. -/
example :
    let s := run (PB 2) (initFast [10, 20, 30, 40] 2) schedB
    final s = false ∧ s.panicked = false ∧ s.phase = .waiting ∧
    s.workers = [.exited, .sending 40] ∧ s.results.length = 2 ∧
    (∀ a ∈ actors 2, step (PB 2) s a = s) ∧ (∀ a ∈ actors 2, enabled (PB 2) s a = false) := by decide

/-- ... whereas with the real capacity the same schedule leaves encoder 1 able to send. -/
example :
    let s := run (PB 4) (initFast [10, 20, 30, 40] 2) schedB
    final s = false ∧ enabled (PB 4) s (.worker 1) = true := by decide

/-- 0 encoders (`numWorkers = 0`): main blocks in the receive loop forever - every schedule leaves
    the initial state of `FastCommit` unchanged, and it is not final.  (The Go function hangs; with
    other goroutines alive the runtime does not even report a deadlock.) -/
theorem zero_workers_stuck (P : Params ι ρ) (hn : P.nondet = false) (j : ι) (js : List ι)
    (sched : List Actor) :
    run P (init P (j :: js) 0) sched = init P (j :: js) 0 ∧ final (init P (j :: js) 0) = false := by
  have hi : init P (j :: js) 0 = initFast (j :: js) 0 := by simp [init, hn]
  rw [hi]
  refine ⟨?_, by simp [final, initFast]⟩
  induction sched with
  | nil => rfl
  | cons a as ih =>
    show run P (step P (initFast (j :: js) 0) a) as = _
    rw [step_of_not_enabled, ih]
    cases a <;> simp [enabled, initFast]

example : run (P3 true 1) (initFast [10] 0) (roundRobin 0 5) = initFast [10] 0 ∧
    final (initFast [10] 0 : XState Nat Nat) = false := by decide

/-- 0 encoders in `NondeterministicFastCommit`: main sends the jobs, closes `jobs`, performs the
    deletions and then blocks in the receive loop. -/
example :
    let P : Params Nat Nat := { P3 true 2 with nondet := true, dels := 1 }
    let s := run P (initNondet [10, 30] 0) (roundRobin 0 9)
    s.phase = .receiving ∧ s.queue = [10, 30] ∧ final s = false ∧
    (∀ a ∈ actors 0, step P s a = s) := by decide

end Teeth

section NonVacuity
open Atree.Example
set_option maxRecDepth 100000   -- `decide` on schedules of 50-100 steps

/-- the hypotheses of a.-f. hold on the instance of TEETH; instances of the theorems -/
example := no_send_on_closed_channel (P3 true 4) [10, 20, 30, 40] real_P3 3 sched1
example := send_never_blocks (P3 true 4) [10, 20, 30, 40] real_P3 3 (sched1.take 10)
example := no_deadlock (P3 true 4) [10, 20, 30, 40] real_P3 3 (by decide) (sched1.take 10) (by decide)
example := terminates (P3 true 4) [10, 20, 30, 40] real_P3 3 (by decide)
example := (encode_error_reported (P3 true 4) [10, 20, 30, 40] real_P3 3 sched1).1 (by decide)
  ⟨20, by decide, by decide⟩

/-- b.: a state with one buffered result and two encoders about to send (3 ≤ 4), and the step of an
    encoder that is about to send. -/
example :
    let s := run (P3 true 4) (initFast [10, 20, 30, 40] 3) (sched1.take 7)
    s.results = [(20, 21)] ∧ (held s.workers).length = 2 ∧
    s.workers[0]? = some (.sending 10) ∧
    (step (P3 true 4) s (.worker 0)).results = [(20, 21), (10, 11)] := by decide

/-- c.: in the state after main's early exit main is blocked but encoder 0 is enabled. -/
example :
    let s := run (P3 true 4) (initFast [10, 20, 30, 40] 3) (sched1.take 10)
    final s = false ∧ step (P3 true 4) s .main = s ∧ step (P3 true 4) s (.worker 0) ≠ s := by decide

/-- d.: the measure along `sched1` (24 initially, 3 at the end; 16 of the 18 steps are effective, the
    two `main` steps blocked in `wg.Wait()` are not); the round-robin schedule of `terminates` reaches
    the final state. -/
example :
    PoolX.measure (P3 true 4) (initFast [10, 20, 30, 40] 3) = 24 ∧
    effective (P3 true 4) (initFast [10, 20, 30, 40] 3) sched1 = 16 ∧
    PoolX.measure (P3 true 4) (run (P3 true 4) (initFast [10, 20, 30, 40] 3) sched1) = 3 := by decide
example : final (run (P3 true 4) (initFast [10, 20, 30, 40] 3) (roundRobin 3 24)) = true := by decide

/-- e.: a run without failing job: main receives all four results, out of order. -/
def P4 : Params Nat Nat := { P3 true 4 with isErr := fun _ => false }
example :
    let s := run P4 (initFast [10, 20, 30, 40] 3) (roundRobin 3 12)
    final s = true ∧ s.stop = none ∧ s.received = [(10, 11), (20, 21), (30, 31), (40, 41)] := by decide
example :
    let s := run P4 (initFast [10, 20, 30, 40] 3)
      ([.worker 2, .worker 2, .worker 2, .worker 0, .worker 0, .worker 0, .main] ++ roundRobin 3 12)
    final s = true ∧ s.stop = none ∧ s.received = [(10, 11), (20, 21), (30, 31), (40, 41)] := by decide
example := results_complete P4 [10, 20, 30, 40] ⟨rfl, rfl⟩ 3 (roundRobin 3 12) (by decide) (by decide)

/-- `NondeterministicFastCommit` mode: main sends the jobs while the encoders already run, one
    deletion, then the receive loop; a failing `Remove` (fault plan position 0) closes `done` before
    any result is received, and the pool still winds down without panic. -/
def PN (faults : List Nat) : Params Nat Nat :=
  { f := (· + 1), isErr := fun _ => false, isNil := fun _ => false, fault := faultPlan faults,
    dels := 1, nondet := true, cap := 3, waitBeforeClose := true }
example :
    let s := run (PN []) (initNondet [10, 20, 30] 2) (roundRobin 2 14)
    final s = true ∧ s.stop = none ∧ s.ncalls = 4 ∧ s.received.length = 3 := by decide
example :
    let s := run (PN [0]) (initNondet [10, 20, 30] 2) (roundRobin 2 14)
    final s = true ∧ s.stop = some .removeFailed ∧ s.received = [] ∧ s.panicked = false := by decide
example :
    let s := run (PN [2]) (initNondet [10, 20, 30] 2) (roundRobin 2 14)
    final s = true ∧ s.stop = some .storeFailed ∧ s.received.length = 2 ∧ s.panicked = false := by
  decide

/-- f2./f3. on `poolSt` (four owned pending identifiers, 3 encoders, round robin): without and
    with a slab that fails to encode. -/
example : (poolSt.fastCommitObserveX natCodec 3 (roundRobin 3 12)).final = true := by decide
example := fastCommitPoolX_eq_fastCommit natCodec poolSt poolInv (faultPlan [2]) 3 (roundRobin 3 12)
  (by decide)
example :
    let r := poolSt.fastCommitPoolX natCodec (faultPlan [2]) 3 (roundRobin 3 12)
    r.err = some .external ∧ r.log.map callRepr = [(⟨1, 1⟩, some 5), (⟨1, 2⟩, none), (⟨1, 5⟩, some 2)] := by
  decide
example :
    let cBad : Codec Nat Nat := { natCodec with enc := fun v => if v = 2 then none else some v }
    let o := poolSt.fastCommitObserveX cBad 3 (roundRobin 3 12)
    let r := poolSt.fastCommitPoolX cBad (fun _ => false) 3 (roundRobin 3 12)
    o.final = true ∧ o.stop = some .encodeErr ∧ o.panicked = false ∧
    r.err = some .encoding ∧ r.log.length = 0 ∧ r.st.base = poolSt.base := by decide

example := fastCommit_pool_terminates natCodec poolSt 3 (by decide) (by decide)
example := nondetCommit_pool_terminates natCodec (faultPlan [1]) poolSt poolSt.modifiedOwned
  poolSt.deletedOwned 3 (by decide) (by decide)

/-- e3. on `poolSt`: the arrival order under round robin is a legal `modOrder`. -/
example :
    let o := poolSt.nondetCommitPoolX natCodec (fun _ => false) poolSt.modifiedOwned poolSt.deletedOwned
      2 (roundRobin 2 14)
    o.final = true ∧ o.stop = none ∧ o.received.map Prod.fst = poolSt.modifiedOwned := by decide

end NonVacuity

end Atree.C16
