import AtreeModel.SlabIdBytes
import AtreeModel.Codec.Encode
import AtreeModel.Storage
import AtreeProofs.SlabIdBytes
/-
  Byte-level slab identifiers — PROPERTY-LEVEL STATEMENTS (helper lemmas: AtreeProofs/SlabIdBytes.lean).

  The model of the rest of the framework identifies a slab by two numbers `(addr, idx)`
  (`Atree.SlabID`); the Go code uses 8 + 8 bytes.  The theorems below show that every byte-level
  function of slab_id.go / value_id.go / slab_id_storable.go is, through `SlabIDB.toModel`
  (big-endian reading, a bijection onto the pairs below 2^64), exactly the numeric operation the
  model uses:

    C04  `compare_eq_numeric`, `sortedKeysLess_eq_lt`, `sortedKeysLess_iff_compare` — the order in
         which the deterministic commit writes (numeric, `SlabID.lt`) IS the byte order of `Compare`.
    C10  `valueID_is_raw_bytes`, `valueID_equal_iff` — a value identifier is the 16 raw bytes of the
         root slab identifier.
    C15/C03  `register_injective` — distinct identifiers never share a ledger register.
    C09  `next_numeric`, `next_injective`, `tempGenerate_numeric` — allocation is "+1 mod 2^64".
-/
namespace Atree.SlabIdB
open Atree

/-! ### Raw bytes: `ToRawBytes` / `NewSlabIDFromRawBytes` -/

/-- What `ToRawBytes` writes: the 16 identifier bytes over the start of the buffer, the rest of the
    buffer untouched, return value 16 — for every buffer of at least 16 bytes. -/
theorem toRawBytes_eq (id : SlabIDB) (b : Bytes) (h : 16 ≤ b.length) :
    id.toRawBytes b = .ok (16, id.address.val ++ id.index.val ++ b.drop 16) := by
  have ha := addr_len id.address
  have hi := index_len id.index
  unfold SlabIDB.toRawBytes
  have h16 : ¬ b.length < 16 := by omega
  simp only [Gen.SlabAddressLength, Gen.SlabIDLength, h16, if_false]
  rw [goCopy_of_le (by omega), ha]
  have t8 : (id.address.val ++ List.drop 8 b).take 8 = id.address.val := by
    rw [List.take_append_of_le_length (by omega), List.take_of_length_le (by omega)]
  have d8 : (id.address.val ++ List.drop 8 b).drop 8 = b.drop 8 := by
    rw [List.drop_append_of_le_length (by omega), List.drop_of_length_le (by omega), List.nil_append]
  rw [t8, d8, goCopy_of_le (by rw [List.length_drop]; omega), hi, List.drop_drop]
  simp [List.append_assoc]

/-- `ToRawBytes` fails exactly on buffers shorter than 16 bytes (and then reports that length). -/
theorem toRawBytes_error_iff (id : SlabIDB) (b : Bytes) (e : SlabIdErr) :
    id.toRawBytes b = .error e ↔ b.length < 16 ∧ e = .bufferLength b.length := by
  unfold SlabIDB.toRawBytes
  simp only [Gen.SlabIDLength]
  by_cases h : b.length < 16
  · simp only [h, if_true, true_and, Except.error.injEq]; exact eq_comm
  · simp [h]

/-- What `NewSlabIDFromRawBytes` reads: bytes 0..7 and 8..15; everything after is ignored. -/
theorem newSlabIDFromRawBytes_eq (b : Bytes) (h : 16 ≤ b.length) :
    ∃ id, newSlabIDFromRawBytes b = .ok id ∧ id.address.val = b.take 8 ∧
      id.index.val = (b.drop 8).take 8 := by
  unfold newSlabIDFromRawBytes
  have h16 : ¬ b.length < Gen.SlabIDLength := by simp only [Gen.SlabIDLength]; omega
  simp only [h16, if_false]
  refine ⟨_, rfl, ?_, ?_⟩
  · show (goCopy (zeros Gen.SlabAddressLength) b).1 = _
    simp only [Gen.SlabAddressLength]
    exact goCopy_zeros_of_le (by omega)
  · show (goCopy (zeros Gen.SlabIndexLength) (b.drop Gen.SlabAddressLength)).1 = _
    simp only [Gen.SlabAddressLength, Gen.SlabIndexLength]
    exact goCopy_zeros_of_le (by rw [List.length_drop]; omega)

/-- `NewSlabIDFromRawBytes` fails exactly on buffers shorter than 16 bytes.  In particular a LONGER
    buffer is not an error (see `newSlabIDFromRawBytes_ignores_tail`). -/
theorem newSlabIDFromRawBytes_error_iff (b : Bytes) (e : SlabIdErr) :
    newSlabIDFromRawBytes b = .error e ↔ b.length < 16 ∧ e = .bufferLength b.length := by
  unfold newSlabIDFromRawBytes
  simp only [Gen.SlabIDLength]
  by_cases h : b.length < 16
  · simp only [h, if_true, true_and, Except.error.injEq]; exact eq_comm
  · simp [h]

theorem newSlabIDFromRawBytes_ignores_tail (b tail : Bytes) (h : 16 ≤ b.length) :
    newSlabIDFromRawBytes (b ++ tail) = newSlabIDFromRawBytes b := by
  obtain ⟨i1, e1, a1, x1⟩ := newSlabIDFromRawBytes_eq (b ++ tail) (by rw [List.length_append]; omega)
  obtain ⟨i2, e2, a2, x2⟩ := newSlabIDFromRawBytes_eq b h
  rw [e1, e2]
  congr 1
  apply SlabIDB.ext'
  · rw [a1, a2, List.take_append_of_le_length (by omega)]
  · rw [x1, x2, List.drop_append_of_le_length (by omega),
      List.take_append_of_le_length (by rw [List.length_drop]; omega)]

/-- Round trip 1: what `ToRawBytes` wrote is read back by `NewSlabIDFromRawBytes`, whatever the
    buffer held before and however long it is (≥ 16). -/
theorem raw_roundtrip (id : SlabIDB) (b : Bytes) (h : 16 ≤ b.length) :
    ∃ b', id.toRawBytes b = .ok (16, b') ∧ b'.length = b.length ∧
      b'.take 16 = id.address.val ++ id.index.val ∧ b'.drop 16 = b.drop 16 ∧
      newSlabIDFromRawBytes b' = .ok id := by
  have ha := addr_len id.address
  have hi := index_len id.index
  refine ⟨_, toRawBytes_eq id b h, ?_, ?_, ?_, ?_⟩
  · simp only [List.length_append, List.length_drop, ha, hi]; omega
  · rw [List.take_append_of_le_length (by simp [ha, hi]), List.take_of_length_le (by simp [ha, hi])]
  · rw [List.drop_append_of_le_length (by simp [ha, hi]), List.drop_of_length_le (by simp [ha, hi]),
      List.nil_append]
  · obtain ⟨i, e, a, x⟩ := newSlabIDFromRawBytes_eq (id.address.val ++ id.index.val ++ b.drop 16)
      (by simp only [List.length_append, ha, hi]; omega)
    rw [e]
    congr 1
    apply SlabIDB.ext'
    · rw [a, List.append_assoc, List.take_append_of_le_length (by omega), List.take_of_length_le (by omega)]
    · rw [x, List.append_assoc, List.drop_append_of_le_length (by omega), List.drop_of_length_le (by omega),
        List.nil_append, List.take_append_of_le_length (by omega), List.take_of_length_le (by omega)]

/-- Round trip 2: an identifier read from a buffer writes the first 16 bytes of that buffer. -/
theorem raw_roundtrip' (b : Bytes) (h : 16 ≤ b.length) :
    ∃ id, newSlabIDFromRawBytes b = .ok id ∧ id.toRawBytes (zeros 16) = .ok (16, b.take 16) := by
  obtain ⟨id, e, a, x⟩ := newSlabIDFromRawBytes_eq b h
  refine ⟨id, e, ?_⟩
  rw [toRawBytes_eq id _ (by simp [length_zeros]), a, x]
  have : (zeros 16).drop 16 = [] := List.drop_of_length_le (by simp [length_zeros])
  rw [this, List.append_nil]
  congr 1; congr 1
  have h1 : b.take 16 = b.take 8 ++ (b.drop 8).take 8 := by
    rw [← List.take_add]
  exact h1.symm

/-! ### The numeric reading -/

/-- `toModel` is injective: the two big-endian numbers determine the 16 bytes. -/
theorem toModel_injective {a b : SlabIDB} (h : a.toModel = b.toModel) : a = b := by
  simp only [SlabIDB.toModel, SlabIDB.addressAsUint64, SlabIDB.indexAsUint64, SlabID.mk.injEq] at h
  exact SlabIDB.ext' (beNat_inj (by rw [addr_len, addr_len]) h.1) (beNat_inj (by rw [index_len, index_len]) h.2)

/-- … and onto the pairs of numbers below 2^64. -/
theorem toModel_ofModel (i : SlabID) (ha : i.addr < 2 ^ 64) (hi : i.idx < 2 ^ 64) :
    (ofModel i).toModel = i := by
  cases i with
  | mk a x =>
    simp only [SlabIDB.toModel, ofModel, SlabIDB.addressAsUint64, SlabIDB.indexAsUint64,
      Gen.SlabAddressLength, Gen.SlabIndexLength]
    rw [beNat_putBE_of_lt (by simpa using ha), beNat_putBE_of_lt (by simpa using hi)]

theorem ofModel_toModel (id : SlabIDB) : ofModel id.toModel = id := by
  apply toModel_injective
  exact toModel_ofModel _ (addressAsUint64_lt id) (indexAsUint64_lt id)

theorem toModel_bounds (id : SlabIDB) : id.toModel.addr < 2 ^ 64 ∧ id.toModel.idx < 2 ^ 64 :=
  ⟨addressAsUint64_lt id, indexAsUint64_lt id⟩

/-- `SlabIDUndefined` is the numeric `SlabID.undef`, and nothing else is. -/
theorem toModel_undef_iff (id : SlabIDB) : id.toModel = SlabID.undef ↔ id = SlabIDUndefined := by
  have hu : SlabIDUndefined.toModel = SlabID.undef := by
    simp [SlabIDB.toModel, SlabIDUndefined, AddressUndefined, SlabIndexUndefined,
      SlabIDB.addressAsUint64, SlabIDB.indexAsUint64, beNat_zeros, SlabID.undef]
  constructor
  · intro h; exact toModel_injective (h.trans hu.symm)
  · intro h; rw [h, hu]

/-! ### `Compare` and the commit order (C04) -/

/-- `Compare` (two `bytes.Compare`s) is the numeric lexicographic comparison of
    `(AddressAsUint64, IndexAsUint64)`, i.e. of the model's `SlabID.lt`. -/
theorem compare_eq_numeric (a b : SlabIDB) :
    a.compare b = if SlabID.lt a.toModel b.toModel then -1 else if a = b then 0 else 1 := by
  have hal : a.address.val.length = b.address.val.length := by rw [addr_len, addr_len]
  have hil : a.index.val.length = b.index.val.length := by rw [index_len, index_len]
  have hab : a = b ↔ a.toModel = b.toModel := ⟨fun h => by rw [h], toModel_injective⟩
  have key : ∀ A B I J : Nat,
      (if (if A < B then (-1 : Int) else if A = B then 0 else 1) = 0 then
          (if I < J then (-1 : Int) else if I = J then 0 else 1)
        else (if A < B then (-1 : Int) else if A = B then 0 else 1)) =
      if SlabID.lt ⟨A, I⟩ ⟨B, J⟩ = true then -1 else if (⟨A, I⟩ : SlabID) = ⟨B, J⟩ then 0 else 1 := by
    intro A B I J
    by_cases l : SlabID.lt ⟨A, I⟩ ⟨B, J⟩ = true
    · rw [if_pos l]
      rw [lt_iff] at l
      simp only at l
      rcases l with l | ⟨l1, l2⟩
      · simp [l]
      · subst l1; simp [l2]
    · rw [if_neg l]
      have l' := (lt_false_iff _ _).1 (by simpa using l)
      simp only at l'
      by_cases e : (⟨A, I⟩ : SlabID) = ⟨B, J⟩
      · rw [if_pos e]
        simp only [SlabID.mk.injEq] at e
        obtain ⟨e1, e2⟩ := e
        subst e1; subst e2; simp
      · rw [if_neg e]
        simp only [SlabID.mk.injEq] at e
        by_cases h1 : A < B
        · omega
        · by_cases h2 : A = B
          · subst h2
            have h3 : ¬ I < J := by omega
            have h4 : ¬ I = J := by omega
            simp [h3, h4]
          · simp [h1, h2]
  simp only [SlabIDB.compare, bytesCompare_eq_numeric _ _ hal, bytesCompare_eq_numeric _ _ hil, hab]
  exact key _ _ _ _

theorem compare_eq_zero_iff (a b : SlabIDB) : a.compare b = 0 ↔ a = b := by
  rw [compare_eq_numeric]
  by_cases h : SlabID.lt a.toModel b.toModel = true
  · have : a ≠ b := by
      intro e; subst e
      rw [lt_irrefl] at h; cases h
    simp [h, this]
  · by_cases e : a = b <;> simp [h, e, lt_irrefl]

theorem compare_lt_iff (a b : SlabIDB) : a.compare b = -1 ↔ SlabID.lt a.toModel b.toModel = true := by
  rw [compare_eq_numeric]
  by_cases h : SlabID.lt a.toModel b.toModel = true
  · simp [h]
  · by_cases e : a = b <;> simp [h, e]

theorem compare_gt_iff (a b : SlabIDB) : a.compare b = 1 ↔ SlabID.lt b.toModel a.toModel = true := by
  rw [compare_eq_numeric]
  have hab : a = b ↔ a.toModel = b.toModel := ⟨fun h => by rw [h], toModel_injective⟩
  by_cases h : SlabID.lt a.toModel b.toModel = true
  · have h' := (lt_iff _ _).1 h
    have : ¬ SlabID.lt b.toModel a.toModel = true := by rw [lt_iff]; omega
    simp [h, this]
  · by_cases e : a = b
    · subst e; simp [h]
    · have hne : ¬ (a.toModel.addr = b.toModel.addr ∧ a.toModel.idx = b.toModel.idx) :=
        fun x => e (hab.2 ((slabID_eq_iff _ _).2 x))
      have h' := (lt_false_iff _ _).1 (by simpa using h)
      have : SlabID.lt b.toModel a.toModel = true := by rw [lt_iff]; omega
      simp [h, e, this]

/-- `Compare` is antisymmetric: swapping the arguments negates the result. -/
theorem compare_antisymm (a b : SlabIDB) : b.compare a = - a.compare b := by
  have h3 := compare_eq_numeric a b
  by_cases h : SlabID.lt a.toModel b.toModel = true
  · rw [(compare_lt_iff a b).2 h, (compare_gt_iff b a).2 h]; rfl
  · by_cases e : a = b
    · subst e; rw [(compare_eq_zero_iff a a).2 rfl]; rfl
    · rw [if_neg h, if_neg e] at h3
      rw [h3, (compare_lt_iff b a).2 ((compare_gt_iff a b).1 h3)]

/-- `Compare … < 0` is a strict total order on identifiers. -/
theorem compare_strict_total (a b c : SlabIDB) :
    a.compare a = 0 ∧
    (a.compare b = -1 → b.compare c = -1 → a.compare c = -1) ∧
    (a ≠ b → (a.compare b = -1 ∨ b.compare a = -1)) ∧
    (a.compare b = -1 ∨ a.compare b = 0 ∨ a.compare b = 1) := by
  have hab : a = b ↔ a.toModel = b.toModel := ⟨fun h => by rw [h], toModel_injective⟩
  refine ⟨(compare_eq_zero_iff a a).2 rfl, ?_, ?_, ?_⟩
  · simp only [compare_lt_iff, lt_iff]
    omega
  · intro hne
    have hne' : ¬ (a.toModel.addr = b.toModel.addr ∧ a.toModel.idx = b.toModel.idx) :=
      fun x => hne (hab.2 ((slabID_eq_iff _ _).2 x))
    simp only [compare_lt_iff, lt_iff]
    omega
  · rw [compare_eq_numeric]
    by_cases h : SlabID.lt a.toModel b.toModel = true
    · simp [h]
    · by_cases e : a = b <;> simp [h, e, lt_irrefl]

/-- The comparison function of `sortedOwnedDeltaKeys` (numeric, written without `Compare`) is the
    model's `SlabID.lt` on the numeric reading … -/
theorem sortedKeysLess_eq_lt (a b : SlabIDB) :
    sortedKeysLess a b = SlabID.lt a.toModel b.toModel := by
  simp only [sortedKeysLess, SlabID.lt, SlabIDB.toModel]
  by_cases h : a.address = b.address
  · have : a.addressAsUint64 = b.addressAsUint64 := by simp [SlabIDB.addressAsUint64, h]
    rw [if_pos h]
    simp only [this, beq_self_eq_true, if_true]
    rfl
  · have : ¬ a.addressAsUint64 = b.addressAsUint64 := by
      intro e; exact h ((address_eq_iff _ _).2 e)
    have hb : (a.addressAsUint64 == b.addressAsUint64) = false := by simpa using this
    rw [if_neg h]
    simp only [hb, Bool.false_eq_true, if_false]
    rfl

/-- … and is the byte order of `Compare`: the deterministic commit writes in ascending
    `bytes.Compare` order of the 16 identifier bytes. -/
theorem sortedKeysLess_iff_compare (a b : SlabIDB) :
    sortedKeysLess a b = true ↔ a.compare b = -1 := by
  rw [sortedKeysLess_eq_lt, compare_lt_iff]

/-- Lexicographic order of the 16 raw bytes = `Compare` (one `bytes.Compare` over the
    concatenation gives the same answer as the two-stage comparison). -/
theorem compare_eq_raw_bytesCompare (a b : SlabIDB) :
    a.compare b = bytesCompare (a.address.val ++ a.index.val) (b.address.val ++ b.index.val) := by
  have key : ∀ (x y u v : Bytes), x.length = y.length →
      bytesCompare (x ++ u) (y ++ v) =
        if bytesCompare x y = 0 then bytesCompare u v else bytesCompare x y := by
    intro x
    induction x with
    | nil => intro y u v h; cases y with
      | nil => simp [bytesCompare]
      | cons _ _ => simp at h
    | cons p ps ih =>
      intro y u v h
      cases y with
      | nil => simp at h
      | cons q qs =>
        have h' : ps.length = qs.length := by simpa using h
        simp only [List.cons_append, bytesCompare]
        by_cases h1 : p < q
        · simp [h1]
        · by_cases h2 : q < p
          · simp [h1, h2]
          · simp only [h1, h2, if_false]
            exact ih qs u v h'
  rw [key _ _ _ _ (by rw [addr_len, addr_len])]
  rfl

/-! ### `Next` and allocation (C09) -/

/-- `SlabIndex.Next` is `+1 mod 2^64` on `IndexAsUint64`. -/
theorem next_numeric (i : SlabIndex) : beNat i.next.val = (beNat i.val + 1) % 2 ^ 64 := by
  simp only [SlabIndex.next, Gen.SlabIndexLength]
  rw [beNat_putBE]
  exact Nat.mod_eq_of_lt (Nat.mod_lt _ (by omega))

/-- Below the last index there is no wrap-around. -/
theorem next_numeric_of_lt (i : SlabIndex) (h : beNat i.val < 2 ^ 64 - 1) :
    beNat i.next.val = beNat i.val + 1 := by
  rw [next_numeric, Nat.mod_eq_of_lt (by omega)]

/-- The one wrap-around: the successor of `ff ff ff ff ff ff ff ff` is `SlabIndexUndefined`. -/
theorem next_wraps (i : SlabIndex) : i.next = SlabIndexUndefined ↔ beNat i.val = 2 ^ 64 - 1 := by
  rw [index_eq_iff, next_numeric]
  have h0 : beNat SlabIndexUndefined.val = 0 := beNat_zeros _
  have hlt : beNat i.val < 2 ^ 64 := by have := beNat_lt i.val; rwa [index_len] at this
  rw [h0]
  omega

theorem next_injective {i j : SlabIndex} (h : i.next = j.next) : i = j := by
  have hi : beNat i.val < 2 ^ 64 := by have := beNat_lt i.val; rwa [index_len] at this
  have hj : beNat j.val < 2 ^ 64 := by have := beNat_lt j.val; rwa [index_len] at this
  have := (index_eq_iff _ _).1 h
  rw [next_numeric, next_numeric] at this
  apply (index_eq_iff _ _).2
  omega

theorem next_ne_self (i : SlabIndex) : i.next ≠ i := by
  intro h
  have hi : beNat i.val < 2 ^ 64 := by have := beNat_lt i.val; rwa [index_len] at this
  have := (index_eq_iff _ _).1 h
  rw [next_numeric] at this
  omega

/-- The temporary-address allocator of `PersistentSlabStorage.GenerateSlabID` produces the bytes
    of counter+1 (mod 2^64) under the all-zero address: numerically `⟨0, tempIx + 1⟩`, the
    identifier `St.generateSlabID` of `AtreeModel/Storage.lean` hands out. -/
theorem tempGenerate_numeric (t : Nat) :
    (tempGenerate t).1.toModel = ⟨0, (t + 1) % 2 ^ 64⟩ ∧ (tempGenerate t).2 = (t + 1) % 2 ^ 64 ∧
    (tempGenerate t).1.hasTempAddress = true := by
  refine ⟨?_, rfl, ?_⟩
  · simp only [tempGenerate, SlabIDB.toModel, SlabIDB.addressAsUint64, SlabIDB.indexAsUint64,
      AddressUndefined, beNat_zeros, Gen.SlabIndexLength, SlabID.mk.injEq, true_and]
    rw [beNat_putBE]
    exact Nat.mod_eq_of_lt (Nat.mod_lt _ (by omega))
  · simp [tempGenerate, SlabIDB.hasTempAddress]

/-- `tempGenerate` on a counter that fits is `Next` of the counter's bytes. -/
theorem tempGenerate_eq_next (t : Nat) (h : t < 2 ^ 64) :
    (tempGenerate t).1 = ⟨AddressUndefined, (indexOfNat t).next⟩ := by
  apply toModel_injective
  rw [(tempGenerate_numeric t).1]
  simp only [SlabIDB.toModel, SlabIDB.addressAsUint64, SlabIDB.indexAsUint64, AddressUndefined,
    beNat_zeros, SlabID.mk.injEq, true_and]
  rw [next_numeric]
  simp only [indexOfNat, Gen.SlabIndexLength]
  rw [beNat_putBE_of_lt (by simpa using h)]

/-! ### `HasTempAddress`, `Valid` -/

/-- `HasTempAddress` ⇔ all eight address bytes are zero ⇔ `AddressAsUint64 = 0` ⇔ the model's `isTemp`. -/
theorem hasTempAddress_iff (id : SlabIDB) :
    (id.hasTempAddress = true ↔ id.address.val = zeros 8) ∧
    (id.hasTempAddress = true ↔ id.addressAsUint64 = 0) ∧
    id.hasTempAddress = id.toModel.isTemp := by
  have h1 : id.hasTempAddress = true ↔ id.address.val = zeros 8 := by
    unfold SlabIDB.hasTempAddress
    rw [beq_iff_eq]
    constructor
    · intro h; rw [h]; rfl
    · intro h; exact Subtype.ext h
  have h2 : id.address.val = zeros 8 ↔ id.addressAsUint64 = 0 := by
    rw [SlabIDB.addressAsUint64, beNat_eq_zero_iff, addr_len]
  refine ⟨h1, h1.trans h2, ?_⟩
  have := h1.trans h2
  simp only [SlabID.isTemp, SlabIDB.toModel]
  by_cases h : id.addressAsUint64 = 0
  · rw [this.2 h]; simp [h]
  · have : id.hasTempAddress = false := by
      cases hh : id.hasTempAddress
      · rfl
      · exact absurd (this.1 hh) h
    rw [this]; simp [h]

/-- `Valid()` accepts exactly the identifiers with a non-zero index; its two errors:
    "undefined slab ID" iff all 16 bytes are zero, "undefined slab index" iff the index is zero and
    the address is not. -/
theorem valid_iff (id : SlabIDB) :
    (id.valid = .ok () ↔ id.indexAsUint64 ≠ 0) ∧
    (id.valid = .error .undefinedSlabID ↔ id.addressAsUint64 = 0 ∧ id.indexAsUint64 = 0) ∧
    (id.valid = .error .undefinedSlabIndex ↔ id.addressAsUint64 ≠ 0 ∧ id.indexAsUint64 = 0) ∧
    (∀ n, id.valid ≠ .error (.bufferLength n)) := by
  have hU : id = SlabIDUndefined ↔ id.addressAsUint64 = 0 ∧ id.indexAsUint64 = 0 := by
    rw [← toModel_undef_iff]
    simp [SlabIDB.toModel, SlabID.undef]
  have hI : id.index = SlabIndexUndefined ↔ id.indexAsUint64 = 0 := by
    rw [index_eq_iff, SlabIDB.indexAsUint64]
    have : beNat SlabIndexUndefined.val = 0 := beNat_zeros _
    rw [this]
  unfold SlabIDB.valid
  by_cases h1 : id = SlabIDUndefined
  · have := hU.1 h1
    rw [if_pos h1]
    simp [this.1, this.2]
  · by_cases h2 : id.index = SlabIndexUndefined
    · have i0 := hI.1 h2
      have a0 : id.addressAsUint64 ≠ 0 := fun a => h1 (hU.2 ⟨a, i0⟩)
      simp [h1, h2, i0, a0]
    · have i0 : id.indexAsUint64 ≠ 0 := fun a => h2 (hI.2 a)
      simp [h1, h2, i0]

/-- `Valid()` is strictly stronger than the guard of `PersistentSlabStorage.Store` / `Remove`
    (`id == SlabIDUndefined`): an identifier with an address and index 0 passes the guard and is
    not valid. -/
theorem store_guard_weaker_than_valid :
    (∀ id : SlabIDB, id.valid = .ok () → id ≠ SlabIDUndefined) ∧
    (∃ id : SlabIDB, id ≠ SlabIDUndefined ∧ id.valid = .error .undefinedSlabIndex) := by
  constructor
  · intro id h e
    subst e
    simp [SlabIDB.valid] at h
  · exact ⟨ofModel ⟨1, 0⟩, by decide, rfl⟩

/-! ### The commit order on bytes (C04) -/

/-- THE COMMIT ORDER ON BYTES IS THE COMMIT ORDER OF THE NUMERIC MODEL: sorting the byte-level keys
    as `sortedOwnedDeltaKeys` does and reading the result as numbers gives exactly the list
    `St.sortIDs` (Storage.lean) computes from the numeric keys — the list whose ascending order
    `C04.fastcommit_order_sorted` is about. -/
theorem sortedOwnedKeysB_toModel (keys : List SlabIDB) :
    (sortedOwnedKeysB keys).map SlabIDB.toModel =
      St.sortIDs ((keys.map SlabIDB.toModel).filter (fun k => !k.isTemp)) := by
  have hins : ∀ (k : SlabIDB) (l : List SlabIDB),
      (insertSortedB k l).map SlabIDB.toModel = St.insertSorted k.toModel (l.map SlabIDB.toModel) := by
    intro k l
    induction l with
    | nil => rfl
    | cons x xs ih =>
      simp only [insertSortedB, St.insertSorted, List.map_cons, sortedKeysLess_eq_lt]
      cases SlabID.lt k.toModel x.toModel
      · simp [ih]
      · simp
  have hfil : (keys.filter (fun k => !k.hasTempAddress)).map SlabIDB.toModel =
      (keys.map SlabIDB.toModel).filter (fun k => !k.isTemp) := by
    induction keys with
    | nil => rfl
    | cons x xs ih =>
      have hx := (hasTempAddress_iff x).2.2
      cases ht : x.toModel.isTemp
      · rw [ht] at hx; simp [List.filter_cons, hx, ht, ih]
      · rw [ht] at hx; simp [List.filter_cons, hx, ht, ih]
  unfold sortedOwnedKeysB St.sortIDs
  rw [← hfil]
  generalize keys.filter (fun k => !k.hasTempAddress) = l
  induction l with
  | nil => rfl
  | cons x xs ih => simp only [List.foldr_cons, List.map_cons, hins, ih]

/-- … and that list is ascending in `Compare` (byte) order. -/
theorem sortedOwnedKeysB_insert_sorted (k : SlabIDB) (l : List SlabIDB)
    (h : l.Pairwise (fun a b => a.compare b = -1)) (hk : k ∉ l) :
    (insertSortedB k l).Pairwise (fun a b => a.compare b = -1) := by
  induction l with
  | nil => simp [insertSortedB]
  | cons x xs ih =>
    simp only [insertSortedB]
    have hx := List.pairwise_cons.1 h
    by_cases hl : sortedKeysLess k x = true
    · rw [if_pos hl]
      refine List.pairwise_cons.2 ⟨?_, h⟩
      intro b hb
      have kx := (sortedKeysLess_iff_compare k x).1 hl
      rcases List.mem_cons.1 hb with rfl | hb
      · exact kx
      · exact (compare_strict_total k x b).2.1 kx (hx.1 b hb)
    · rw [if_neg hl]
      have hkx : k ≠ x := fun e => hk (by rw [e]; exact List.mem_cons_self)
      have hkxs : k ∉ xs := fun e => hk (List.mem_cons_of_mem _ e)
      have xk : x.compare k = -1 := by
        rcases (compare_strict_total k x k).2.2.1 hkx with c | c
        · exact absurd ((sortedKeysLess_iff_compare k x).2 c) hl
        · exact c
      refine List.pairwise_cons.2 ⟨?_, ih hx.2 hkxs⟩
      intro b hb
      have : b = k ∨ b ∈ xs := by
        have hperm : ∀ (l : List SlabIDB) (b : SlabIDB), b ∈ insertSortedB k l → b = k ∨ b ∈ l := by
          intro l
          induction l with
          | nil => intro b hb; simpa [insertSortedB] using hb
          | cons y ys ihy =>
            intro b hb
            simp only [insertSortedB] at hb
            split at hb
            · simpa using hb
            · rcases List.mem_cons.1 hb with rfl | hb'
              · exact Or.inr List.mem_cons_self
              · rcases ihy b hb' with e | e
                · exact Or.inl e
                · exact Or.inr (List.mem_cons_of_mem _ e)
        exact hperm xs b hb
      rcases this with rfl | hb'
      · exact xk
      · exact hx.1 b hb'

/-- The byte-level write order of the deterministic commit is strictly ascending in `Compare`
    for every write set without duplicate keys (the keys of a Go map). -/
theorem sortedOwnedKeysB_sorted (keys : List SlabIDB) (h : keys.Nodup) :
    (sortedOwnedKeysB keys).Pairwise (fun a b => a.compare b = -1) := by
  unfold sortedOwnedKeysB
  have hn : (keys.filter (fun k => !k.hasTempAddress)).Nodup := h.sublist List.filter_sublist
  generalize keys.filter (fun k => !k.hasTempAddress) = l at hn
  have hmem : ∀ (l : List SlabIDB) (b : SlabIDB), b ∈ l.foldr insertSortedB [] → b ∈ l := by
    intro l
    induction l with
    | nil => intro b hb; simpa using hb
    | cons y ys ihy =>
      intro b hb
      simp only [List.foldr_cons] at hb
      have hperm : ∀ (l : List SlabIDB) (b : SlabIDB), b ∈ insertSortedB y l → b = y ∨ b ∈ l := by
        intro l
        induction l with
        | nil => intro b hb; simpa [insertSortedB] using hb
        | cons z zs ihz =>
          intro b hb
          simp only [insertSortedB] at hb
          split at hb
          · simpa using hb
          · rcases List.mem_cons.1 hb with rfl | hb'
            · exact Or.inr List.mem_cons_self
            · rcases ihz b hb' with e | e
              · exact Or.inl e
              · exact Or.inr (List.mem_cons_of_mem _ e)
      rcases hperm _ b hb with rfl | e
      · exact List.mem_cons_self
      · exact List.mem_cons_of_mem _ (ihy b e)
  induction l with
  | nil => simp
  | cons x xs ih =>
    have hx := List.nodup_cons.1 hn
    simp only [List.foldr_cons]
    exact sortedOwnedKeysB_insert_sorted x _ (ih hx.2) (fun e => hx.1 (hmem xs x e))

/-! ### Value identifiers (C10) -/

/-- A value identifier is the 16 raw bytes of the slab identifier it was made from
    (`slabIDToValueID` writes what `ToRawBytes` writes). -/
theorem valueID_is_raw_bytes (sid : SlabIDB) :
    (slabIDToValueID sid).val = sid.address.val ++ sid.index.val ∧
    sid.toRawBytes (zeros 16) = .ok (16, (slabIDToValueID sid).val) := by
  have ha := addr_len sid.address
  have hi := index_len sid.index
  have h1 : (slabIDToValueID sid).val = sid.address.val ++ sid.index.val := by
    show (goCopy (zeros Gen.ValueIDLength) sid.address.val).1.take (goCopy (zeros Gen.ValueIDLength) sid.address.val).2 ++
      (goCopy ((goCopy (zeros Gen.ValueIDLength) sid.address.val).1.drop (goCopy (zeros Gen.ValueIDLength) sid.address.val).2) sid.index.val).1 = _
    have hv : Gen.ValueIDLength = 16 := rfl
    rw [goCopy_snd, goCopy_of_le (by rw [length_zeros, hv]; omega), length_zeros, ha, hv]
    have m : min 16 8 = 8 := rfl
    rw [m, List.take_append_of_le_length (by omega), List.take_of_length_le (by omega),
      List.drop_append_of_le_length (by omega), List.drop_of_length_le (by omega), List.nil_append,
      goCopy_of_le (by simp [length_zeros, hi]), hi]
    have : (List.drop 8 (zeros 16)).drop 8 = [] := by
      rw [List.drop_drop]; exact List.drop_of_length_le (by simp [length_zeros])
    rw [this, List.append_nil]
  refine ⟨h1, ?_⟩
  rw [toRawBytes_eq _ _ (by simp [length_zeros]), h1]
  have : (zeros 16).drop 16 = [] := List.drop_of_length_le (by simp [length_zeros])
  rw [this, List.append_nil]

/-- `ValueID.equal(sid)` holds exactly when the value identifier is `slabIDToValueID sid`. -/
theorem valueID_equal_iff (vid : ValueID) (sid : SlabIDB) :
    vid.equal sid = true ↔ vid = slabIDToValueID sid := by
  have ha := addr_len sid.address
  have hv : vid.val.length = 16 := vid.property
  simp only [ValueID.equal, bytesEqual, Bool.and_eq_true, beq_iff_eq, ha]
  constructor
  · intro ⟨h1, h2⟩
    apply Subtype.ext
    rw [(valueID_is_raw_bytes sid).1, ← h1, ← h2, List.take_append_drop]
  · intro h
    rw [h, (valueID_is_raw_bytes sid).1]
    constructor
    · rw [List.take_append_of_le_length (by omega), List.take_of_length_le (by omega)]
    · rw [List.drop_append_of_le_length (by omega), List.drop_of_length_le (by omega), List.nil_append]

/-- Distinct slab identifiers have distinct value identifiers, and the slab identifier is
    recovered from the value identifier by `NewSlabIDFromRawBytes`. -/
theorem slabIDToValueID_injective {a b : SlabIDB} (h : slabIDToValueID a = slabIDToValueID b) : a = b := by
  have := congrArg Subtype.val h
  rw [(valueID_is_raw_bytes a).1, (valueID_is_raw_bytes b).1] at this
  have hl : a.address.val.length = b.address.val.length := by rw [addr_len, addr_len]
  obtain ⟨h1, h2⟩ := List.append_inj this hl
  exact SlabIDB.ext' h1 h2

theorem valueID_to_slabID (sid : SlabIDB) :
    newSlabIDFromRawBytes (slabIDToValueID sid).val = .ok sid := by
  obtain ⟨b', e, _, _, _, r⟩ := raw_roundtrip sid (zeros 16) (by simp [length_zeros])
  rw [(valueID_is_raw_bytes sid).2] at e
  simp only [Except.ok.injEq, Prod.mk.injEq, true_and] at e
  rw [e]; exact r

/-- `ValueID.String()` prints what `SlabID.String()` prints. -/
theorem valueID_toStr (sid : SlabIDB) : (slabIDToValueID sid).toStr = sid.toStr := by
  have ha := addr_len sid.address
  simp only [ValueID.toStr, SlabIDB.toStr, (valueID_is_raw_bytes sid).1, Gen.SlabAddressLength,
    SlabIDB.addressAsUint64, SlabIDB.indexAsUint64]
  rw [List.take_append_of_le_length (by omega), List.take_of_length_le (by omega),
    List.drop_append_of_le_length (by omega), List.drop_of_length_le (by omega), List.nil_append]

/-! ### Ledger keys (C15 / C03) -/

/-- `SlabIndexToLedgerKey`: 9 bytes, `'$'` then the index. -/
theorem ledgerKey_shape (i : SlabIndex) :
    (slabIndexToLedgerKey i).length = 9 ∧ (slabIndexToLedgerKey i).head? = some 0x24 ∧
    (slabIndexToLedgerKey i).tail = i.val ∧ ledgerKeyIsSlabKey (slabIndexToLedgerKey i) = true := by
  have := index_len i
  simp [slabIndexToLedgerKey, ledgerPrefix, ledgerKeyIsSlabKey, this, List.isPrefixOf]

theorem ledgerKey_injective {i j : SlabIndex} (h : slabIndexToLedgerKey i = slabIndexToLedgerKey j) :
    i = j := by
  simp only [slabIndexToLedgerKey, ledgerPrefix, List.cons_append, List.nil_append, List.cons.injEq,
    true_and] at h
  exact Subtype.ext h

/-- What `LedgerKeyIsSlabKey` checks: that the key is non-empty and its first byte is `'$'` —
    nothing else. -/
theorem ledgerKeyIsSlabKey_iff (key : Bytes) :
    ledgerKeyIsSlabKey key = true ↔ ∃ rest, key = 0x24 :: rest := by
  cases key with
  | nil => simp [ledgerKeyIsSlabKey, ledgerPrefix]
  | cons k ks => simp [ledgerKeyIsSlabKey, ledgerPrefix]; exact eq_comm

/-- So it accepts every slab-index key, but also keys that are NOT the key of any slab index
    (wrong length); it is a necessary, not a sufficient test. -/
theorem ledgerKeyIsSlabKey_not_exact :
    (∀ i, ledgerKeyIsSlabKey (slabIndexToLedgerKey i) = true) ∧
    (∃ key, ledgerKeyIsSlabKey key = true ∧ ∀ i, slabIndexToLedgerKey i ≠ key) := by
  refine ⟨fun i => (ledgerKey_shape i).2.2.2, [0x24], by decide, ?_⟩
  intro i h
  have := (ledgerKey_shape i).1
  rw [h] at this
  simp at this

/-- The register of a slab is `(owner = address bytes, key = '$' ++ index bytes)`: distinct slab
    identifiers never share a register. -/
theorem register_injective {a b : SlabIDB}
    (h : (a.address.val, slabIndexToLedgerKey a.index) = (b.address.val, slabIndexToLedgerKey b.index)) :
    a = b := by
  simp only [Prod.mk.injEq] at h
  exact SlabIDB.ext' h.1 (congrArg Subtype.val (ledgerKey_injective h.2))

/-! ### The storable form (`SlabIDStorable`) -/

/-- `Encode` writes `d8 ff 50` and the 16 raw bytes: 19 bytes = `ByteSize()` = the constant
    `slabIDStorableSize` used throughout the container model. -/
theorem storableEncode_eq (v : SlabIDB) :
    storableEncode v = [0xd8, 0xff, 0x50] ++ v.address.val ++ v.index.val ∧
    (storableEncode v).length = storableByteSize ∧ storableByteSize = 19 := by
  have ha := addr_len v.address
  have hi := index_len v.index
  have ht : (v.address.val ++ v.index.val).take Gen.SlabIDLength = v.address.val ++ v.index.val :=
    List.take_of_length_le (by simp [ha, hi, Gen.SlabIDLength])
  have h1 : storableEncode v = [0xd8, 0xff, 0x50] ++ v.address.val ++ v.index.val := by
    simp only [storableEncode, ht, List.length_append, ha, hi, cborBytesHead]
    simp [Gen.CBORTagSlabID]
  refine ⟨h1, ?_, rfl⟩
  rw [h1]
  simp [ha, hi, storableByteSize, Gen.SlabIDLength]

/-- `ByteSize()` is the constant the container model uses for every slab reference. -/
theorem storableByteSize_eq : storableByteSize = Atree.slabIDStorableSize := rfl

/-- Decoding reads back the identifier; byte strings shorter than 16 are rejected with the
    slab-ID error; LONGER byte strings are ACCEPTED and the extra bytes dropped (so two different
    encodings decode to the same reference: `DecodeSlabIDStorable` is not injective on inputs). -/
theorem storableDecode_spec (v : SlabIDB) (extra : Bytes) :
    decodeSlabIDStorable (some (v.address.val ++ v.index.val)) = .ok v ∧
    decodeSlabIDStorable (some (v.address.val ++ v.index.val ++ extra)) = .ok v ∧
    (∀ b : Bytes, b.length < 16 → decodeSlabIDStorable (some b) = .slabIDError (.bufferLength b.length)) ∧
    decodeSlabIDStorable none = .decodingError := by
  have ha := addr_len v.address
  have hi := index_len v.index
  have hv := valueID_to_slabID v
  rw [(valueID_is_raw_bytes v).1] at hv
  refine ⟨?_, ?_, ?_, rfl⟩
  · simp [decodeSlabIDStorable, hv]
  · have := newSlabIDFromRawBytes_ignores_tail (v.address.val ++ v.index.val) extra (by simp [ha, hi])
    simp only [decodeSlabIDStorable, this, hv]
  · intro b hb
    have := (newSlabIDFromRawBytes_error_iff b (.bufferLength b.length)).2 ⟨hb, rfl⟩
    simp [decodeSlabIDStorable, this]

/-! ### Tie to the byte codec of the container model (`AtreeModel/Codec`) -/

theorem map_toNat_putBE (k v : Nat) : (putBE k v).map UInt8.toNat = Codec.beBytes k v := by
  induction k with
  | zero => rfl
  | succ k ih =>
    have hb : (UInt8.ofNat (v / 256 ^ k % 256)).toNat = v / 256 ^ k % 256 := by
      rw [UInt8.toNat_ofNat']; exact Nat.mod_eq_of_lt (by omega)
    simp [putBE, Codec.beBytes, ih, hb]

/-- The codec model's `encodeSlabID` (numbers → 16 numbers below 256) produces exactly the raw
    bytes of the identifier. -/
theorem codec_encodeSlabID_eq (id : SlabIDB) :
    Codec.encodeSlabID id.toModel = (id.address.val ++ id.index.val).map UInt8.toNat := by
  have h1 := putBE_beNat id.address.val
  have h2 := putBE_beNat id.index.val
  rw [addr_len] at h1
  rw [index_len] at h2
  simp only [Codec.encodeSlabID, SlabIDB.toModel, SlabIDB.addressAsUint64, SlabIDB.indexAsUint64,
    Gen.SlabAddressLength, Gen.SlabIndexLength, List.map_append]
  rw [← map_toNat_putBE, ← map_toNat_putBE, h1, h2]

/-! ### Non-vacuity: concrete identifiers, including the boundaries -/
section NonVacuity
attribute [local instance] decEqExcept

def exA : SlabIDB := ofModel ⟨0x0102030405060708, 0x00000000000000ff⟩
def exB : SlabIDB := ofModel ⟨0x0102030405060708, 0x0000000000000100⟩
def exMax : SlabIndex := indexOfNat (2 ^ 64 - 1)

example : exA.address.val = [1, 2, 3, 4, 5, 6, 7, 8] ∧ exA.index.val = [0, 0, 0, 0, 0, 0, 0, 0xff] := by decide
/-- a carry across a byte boundary -/
example : exA.index.next = exB.index ∧ exB.index.val = [0, 0, 0, 0, 0, 0, 1, 0] := by decide
/-- carries across every byte boundary, and the wrap-around -/
example : (indexOfNat (2 ^ 56 - 1)).next.val = [1, 0, 0, 0, 0, 0, 0, 0] ∧ exMax.next = SlabIndexUndefined := by decide
example : exA.compare exB = -1 ∧ exB.compare exA = 1 ∧ exA.compare exA = 0 ∧ sortedKeysLess exA exB = true := by decide
/-- a write set with a temporary key, two addresses and a carry: sorted as bytes, read as numbers -/
example : (sortedOwnedKeysB [exB, ofModel ⟨0, 9⟩, ofModel ⟨2, 1⟩, exA, ofModel ⟨1, 2 ^ 64 - 1⟩]).map SlabIDB.toModel =
    [⟨1, 2 ^ 64 - 1⟩, ⟨2, 1⟩, ⟨0x0102030405060708, 255⟩, ⟨0x0102030405060708, 256⟩] := by decide
/-- byte order ≠ little-endian order: the last byte decides only when all others agree -/
example : (ofModel ⟨1, 2 ^ 56⟩).compare (ofModel ⟨1, 255⟩) = 1 := by decide
example : exA.toRawBytes (zeros 18) = .ok (16, [1, 2, 3, 4, 5, 6, 7, 8, 0, 0, 0, 0, 0, 0, 0, 0xff, 0, 0]) := by decide
example : exA.toRawBytes (zeros 15) = .error (.bufferLength 15) := by decide
example : newSlabIDFromRawBytes [1, 2, 3, 4, 5, 6, 7, 8, 0, 0, 0, 0, 0, 0, 0, 0xff, 9, 9] = .ok exA := by decide
example : slabIndexToLedgerKey exA.index = [0x24, 0, 0, 0, 0, 0, 0, 0, 0xff] := by decide
example : (slabIDToValueID exA).val = [1, 2, 3, 4, 5, 6, 7, 8, 0, 0, 0, 0, 0, 0, 0, 0xff] ∧
    (slabIDToValueID exA).equal exA = true ∧ (slabIDToValueID exA).equal exB = false := by decide
example : storableEncode exA = [0xd8, 0xff, 0x50, 1, 2, 3, 4, 5, 6, 7, 8, 0, 0, 0, 0, 0, 0, 0, 0xff] := by decide
example : (ofModel ⟨0, 5⟩).hasTempAddress = true ∧ exA.hasTempAddress = false ∧
    (ofModel ⟨7, 0⟩).valid = .error .undefinedSlabIndex ∧ SlabIDUndefined.valid = .error .undefinedSlabID ∧
    exA.valid = .ok () := by decide

end NonVacuity

end Atree.SlabIdB
