import AtreeProofs.E2EBytesSpec
import AtreeProofs.E2E.Bytes
import AtreeProofs.E2E.BytesHistory
import AtreeProofs.Props.E2E
/-
  E2EBytes — the END-TO-END theorems for arrays with the BYTE-LEVEL codec (`AtreeModel/Codec`,
  C06 / C07 / C19) in place of the abstract one: the hypotheses `RoundTrip c` and
  `NoEncodeFailure c s` are discharged.

  COVERED: arrays of plain values of any size (the `Arr` model): standalone array data slabs (root /
  non-root, with / without sibling link), array index slabs, large-value slabs.
  NOT COVERED: maps (their E2E theorems keep the abstract `RoundTrip`), nested containers / inlined
  children / wrapped values (World model; slab kinds `adata`, `mdata`, `mindex`, `storableG`).

  The keyed codec (`E2E.keyedCodec`): a register is the ledger entry `(key, bytes)`; see
  `AtreeProofs/E2EBytesSpec.lean` for why the abstract law (∀ identifier) needs the key, and
  `ledger_read_by_decodeSlab` below for the statement with `DecodeSlab(id, bytes)` itself.
-/
namespace Atree.E2E
open Atree Atree.Codec Gen St

/-- ROUND TRIP AT THE OWN KEY.  `DecodeSlab(id, EncodeSlab(slab)) = slab` for a stored slab of an
    array that meets the encoder's preconditions, `id` being the slab's own ID (C07). -/
theorem bytes_roundtrip_own_key (v : SSlab) (ok : OkS v) (id : SlabID)
    (hid : ownId v = id ∨ ∃ e, v = .large e) : decS id (encS v) = some v :=
  decS_encS v ok id hid

/-- The keyed byte codec satisfies the abstract round-trip law assumed by C15 / C03 / C14 / C08 and
    by the E2E theorems. -/
theorem keyed_codec_roundtrip : RoundTrip keyedCodec := keyedCodec_roundTrip

/-- STORED SLABS ARE ENCODABLE.  Every slab that the representation of an array (satisfying
    `ArrInv`, with encodable elements and address / counter / type info within their field widths)
    puts into the storage meets the encoder's preconditions (`SlabOK`: no `uint16` / `uint32`
    truncation, `count = len`, `size = prefix + Σ sizes`, children at the parent's address, valid
    sibling link, …) and is filed under its own ID. -/
theorem stored_slabs_encodable (T : Nat) (hT : legalThreshold T = true) (a : Arr)
    (extra : SlabID → Option Elem) (ctr : Nat) (hinv : ArrInv T a ctr) (henc : EncOk a extra ctr)
    (id : SlabID) (v : SSlab) (hv : stored a extra id = some v) :
    OkS v ∧ (ownId v = id ∨ ∃ e, v = .large e) :=
  stored_ok hT a extra ctr hinv henc id v hv

/-- the hypotheses of the histories below: address and final counter fit 64 bits -/
structure Bounds (addr ty ctr : Nat) : Prop where
  addr_pos : addr ≠ 0
  addr : addr < 2 ^ 64
  ty : ty < 2 ^ 64
  ctr : ctr < 2 ^ 64

theorem runS_addr (T : Nat) (hT : legalThreshold T = true) (addr ty : Nat) (haddr : addr ≠ 0)
    (ops : List AOp) (hops : ∀ op ∈ ops, op.Ok) :
    Good keyedCodec T (runS keyedCodec T (newS keyedCodec addr ty) ops) ∧
    (runS keyedCodec T (newS keyedCodec addr ty) ops).1.1.addr = addr := by
  obtain ⟨g0, _, r0, _⟩ := good_new keyedCodec keyedCodec_roundTrip T hT addr ty haddr
  obtain ⟨g, _, r, _⟩ := good_runS keyedCodec keyedCodec_roundTrip T hT ops _ g0 hops
  refine ⟨g, ?_⟩
  show (runS keyedCodec T (newS keyedCodec addr ty) ops).1.1.rootID.addr = addr
  rw [r, r0]

/-- NO ENCODING FAILURE ALONG HISTORIES.  After any history of requests with encodable values,
    every slab pending in the storage can be encoded by the byte codec. -/
theorem bytes_history_no_encode_failure (T : Nat) (hT : legalThreshold T = true) (addr ty : Nat)
    (ops : List AOp) (hops : ∀ op ∈ ops, op.Ok) (henc : ∀ op ∈ ops, op.Enc)
    (hb : Bounds addr ty (runS keyedCodec T (newS keyedCodec addr ty) ops).1.2.ctr) :
    NoEncodeFailure keyedCodec (runS keyedCodec T (newS keyedCodec addr ty) ops).2 := by
  obtain ⟨g, ha⟩ := runS_addr T hT addr ty hb.addr_pos ops hops
  obtain ⟨g0, _⟩ := good_new keyedCodec keyedCodec_roundTrip T hT addr ty hb.addr_pos
  have he := encSt_runS keyedCodec keyedCodec_roundTrip T hT ops _ g0
    (encSt_new keyedCodec addr ty hb.ty) hops henc
  exact noEncodeFailure_of_good T hT _ g he (by rw [ha]; exact hb.addr) hb.ctr

/-- END-TO-END WITH THE BYTE CODEC.  Every history of array requests (any positions; values of any
    size ≥ 1 that the harness can encode), run against the storage state machine, followed by a
    fault-free commit of either kind (any worker orders) and a reopen on a fresh storage, yields – by
    `DecodeSlab` on the registers, through `Retrieve` or any transparent fetch – exactly the same
    array: same slabs, same elements, same root ID, same type info.  No hypothesis on the codec. -/
theorem bytes_commit_reopen_identity (T : Nat) (hT : legalThreshold T = true) (addr ty : Nat)
    (ops : List AOp) (hops : ∀ op ∈ ops, op.Ok) (henc : ∀ op ∈ ops, op.Enc)
    (hb : Bounds addr ty (runS keyedCodec T (newS keyedCodec addr ty) ops).1.2.ctr)
    (kind : CommitKind) (mo dlo : List SlabID)
    (fetch : Fetch (St SSlab (SlabID × Bytes))) (hf : FetchOk keyedCodec fetch) (fuel : Nat) :
    let x := runS keyedCodec T (newS keyedCodec addr ty) ops
    x.1.1.d < fuel →
    (St.step keyedCodec x.2 (.commit kind [] mo dlo)).2 = .unit ∧
    let reopened := St.run keyedCodec x.2 [.commit kind [] mo dlo, .recreate]
    ∃ s', loadArrSt fetch reopened ⟨addr, 1⟩ fuel = .ok (some x.1.1, s') ∧
      values x.1 = specRun [] ops := by
  intro x hfuel
  obtain ⟨g, ha⟩ := runS_addr T hT addr ty hb.addr_pos ops hops
  have hne := bytes_history_no_encode_failure T hT addr ty ops hops henc hb
  obtain ⟨_, _, _, _, _, _, hval, hroot, _⟩ :=
    rep_history keyedCodec keyedCodec_roundTrip T hT addr ty hb.addr_pos ops hops
  obtain ⟨h1, h2⟩ := commit_reopen_identity keyedCodec keyedCodec_roundTrip T hT x.2 x.1.1 _ _ g.inv g.addr
    g.rep g.st hne kind mo dlo fetch hf fuel hfuel
  refine ⟨h1, ?_⟩
  intro reopened
  obtain ⟨_, _, _, s', h3, _⟩ := h2
  have hroot' : x.1.1.rootID = ⟨addr, 1⟩ := hroot
  rw [hroot'] at h3
  exact ⟨s', h3, hval⟩

/-- THE LEDGER READ BY `DecodeSlab(id, bytes)`.  After the history and the commit, decoding the
    bytes of every register of the owner with the REAL `DecodeSlab`, under the register's key, gives
    exactly the slab of the array (or the large value) that belongs there – and nothing where no
    slab belongs. -/
theorem ledger_read_by_decodeSlab (T : Nat) (hT : legalThreshold T = true) (addr ty : Nat)
    (ops : List AOp) (hops : ∀ op ∈ ops, op.Ok) (henc : ∀ op ∈ ops, op.Enc)
    (hb : Bounds addr ty (runS keyedCodec T (newS keyedCodec addr ty) ops).1.2.ctr)
    (kind : CommitKind) (mo dlo : List SlabID) :
    let x := runS keyedCodec T (newS keyedCodec addr ty) ops
    let committed := (St.step keyedCodec x.2 (.commit kind [] mo dlo)).1
    ∀ id, id.addr = addr →
      (AList.find? committed.base id).bind (fun p => decS id p.2)
        = stored x.1.1 (AList.find? x.1.2.created) id := by
  intro x committed id hid
  obtain ⟨g, ha⟩ := runS_addr T hT addr ty hb.addr_pos ops hops
  have hne := bytes_history_no_encode_failure T hT addr ty ops hops henc hb
  obtain ⟨g0, _⟩ := good_new keyedCodec keyedCodec_roundTrip T hT addr ty hb.addr_pos
  have he := encSt_runS keyedCodec keyedCodec_roundTrip T hT ops _ g0
    (encSt_new keyedCodec addr ty hb.ty) hops henc
  have hok := encOk_of_good keyedCodec T x g he (by rw [ha]; exact hb.addr) hb.ctr
  have hfp : ∀ n, faultPlan [] n = false := fun n => by simp [faultPlan]
  obtain ⟨_, _, g3⟩ := commitW_complete keyedCodec keyedCodec_roundTrip kind (faultPlan []) hfp mo dlo
    x.2 g.st hne
  have hcm : committed = (commitW keyedCodec kind (faultPlan []) mo dlo x.2).st := by
    show (St.step keyedCodec x.2 (.commit kind [] mo dlo)).1 = _
    rw [step_commit]
  rw [hcm, g3 id]
  have hida : id.addr = x.1.1.addr := by rw [ha]; exact hid
  have hnt : id.isTemp = false := isTemp_of_addr hid hb.addr_pos
  -- nothing was in the ledger or in the cache before the commit
  have hbase : x.2.base = [] := by
    have := runS_base keyedCodec T ops (newS keyedCodec addr ty)
    rw [this]
    exact (applyEffs_frame keyedCodec St.init _ _).2
  have hcache : x.2.cache = [] := by
    have key : ∀ (ops : List AOp) (y : (Arr × Ctx) × St SSlab (SlabID × Bytes)),
        (runS keyedCodec T y ops).2.cache = y.2.cache := by
      intro ops
      induction ops with
      | nil => intro y; rfl
      | cons op ops ih =>
        intro y
        show (runS keyedCodec T (stepS keyedCodec T y op) ops).2.cache = y.2.cache
        rw [ih]
        exact (applyEffs_frame keyedCodec y.2 _ _).1
    rw [key]
    exact (applyEffs_frame keyedCodec St.init _ _).1
  have hview := g.rep.view id hida
  unfold target
  cases hd : AList.find? x.2.deltas id with
  | none =>
    simp only
    have hv0 : x.2.view keyedCodec id = none := by simp [St.view, hd, hbase, hcache]
    have hb0 : AList.find? x.2.base id = none := by rw [hbase]; rfl
    rw [hb0]
    exact hv0.symm.trans hview
  | some ov =>
    cases ov with
    | none =>
      simp only [hnt]
      rw [← hview, view_of_deltas keyedCodec x.2 id none hd]
      rfl
    | some v =>
      simp only [hnt]
      have hv : stored x.1.1 (AList.find? x.1.2.created) id = some v := by
        rw [← hview, view_of_deltas keyedCodec x.2 id (some v) hd]
      obtain ⟨ok, hown⟩ := stored_ok hT x.1.1 _ _ g.inv hok id v hv
      rw [hv]
      simp only [keyedCodec, ok, if_true, Bool.false_eq_true, if_false, Option.bind_some]
      exact decS_encS v ok id hown

/-! ### Non-vacuity

A history like `hist` of `Props/E2E.lean` (root split, leaf split, a value too large to inline – 150
bytes, so that the registers stay small enough for kernel evaluation –, a rejected insert, a merge,
`SetType`) with the byte codec: its values are encodable, the bounds hold, the theorems are
instantiated; the registers are evaluated (`decide`), and `DecodeSlab` on them gives the slabs back. -/
section NonVacuity
open Atree.Example

def histB : List AOp :=
  [.append (elem 0), .append (elem 1), .append (elem 2), .append (elem 3),
   .insert 1 (elem 9), .insert 1 (elem 8), .set 3 ⟨150, .val 7⟩, .insert 99 (elem 5),
   .remove 0, .setType 42]

theorem histB_ok : ∀ op ∈ histB, op.Ok := by
  intro op hop
  simp only [histB, List.mem_cons, List.not_mem_nil, or_false] at hop
  rcases hop with rfl | rfl | rfl | rfl | rfl | rfl | rfl | rfl | rfl | rfl <;>
    first | exact value_ok _ | exact ⟨by decide, 7, rfl⟩ | trivial

theorem histB_enc : ∀ op ∈ histB, op.Enc := by
  intro op hop
  simp only [histB, List.mem_cons, List.not_mem_nil, or_false] at hop
  rcases hop with rfl | rfl | rfl | rfl | rfl | rfl | rfl | rfl | rfl | rfl <;>
    first | (show validElem _; decide) | (show (42 : Nat) < 2 ^ 64; decide) | trivial

def summaryR' (r : Except StErr (Option Arr × St SSlab (SlabID × Bytes))) :
    Option (Nat × List Elem × Nat × List SlabID) :=
  match r with
  | .ok (some a, _) => some (summary a)
  | _ => none

/-- the state after the history, with registers of bytes -/
def xB : (Arr × Ctx) × St SSlab (SlabID × Bytes) := runS keyedCodec T0 (newS keyedCodec 1 0) histB

example : summary xB.1.1 =
    (1, [elem 8, elem 9, ⟨19, .ref ⟨1, 5⟩⟩, elem 2, elem 3], 42, [⟨1, 1⟩, ⟨1, 2⟩, ⟨1, 3⟩]) := by decide
example : xB.1.2.created = [(⟨1, 5⟩, ⟨150, .val 7⟩)] := by decide
theorem xB_bounds : Bounds 1 0 xB.1.2.ctr := ⟨by decide, by decide, by decide, by decide⟩

example := bytes_history_no_encode_failure T0 legal 1 0 histB histB_ok histB_enc xB_bounds
example := bytes_commit_reopen_identity T0 legal 1 0 histB histB_ok histB_enc xB_bounds .det [] []
  _ (retrieve_is_fetch keyedCodec) 2 (by decide)
example := ledger_read_by_decodeSlab T0 legal 1 0 histB histB_ok histB_enc xB_bounds .nondet [⟨1, 3⟩] []

/-- the ledger after the commit: four registers, each filed under its own ID (the large-value slab
    carries none): the large value, the leaves 1.3 (two 100-byte elements) and 1.2 (two elements, one
    reference, the sibling link), the root index slab 1.1 -/
def reopenedB : St SSlab (SlabID × Bytes) := St.run keyedCodec xB.2 [.commit .det [] [] [], .recreate]

set_option maxRecDepth 100000 in
example : reopenedB.base.map (fun p => (p.1, p.2.1, p.2.2.length))
    = [(⟨1, 5⟩, SlabID.undef, 152), (⟨1, 3⟩, ⟨1, 3⟩, 205), (⟨1, 2⟩, ⟨1, 2⟩, 240), (⟨1, 1⟩, ⟨1, 1⟩, 43)] := by
  decide

-- the first bytes of the root register: version 1; flags "array index slab, root"; then the extra
-- data: a CBOR array of one item, the type info 42
set_option maxRecDepth 100000 in
example : ((reopenedB.base.map (·.2.2)).getLast?.map (List.take 5)) = some [0x10, 0x81, 0x81, 0x18, 42] := by
  decide

-- loading through `Retrieve` (= `DecodeSlab` on the registers) gives the array back
set_option maxRecDepth 100000 in
example : summaryR' (loadArrSt (fun s id => s.retrieve keyedCodec id) reopenedB ⟨1, 1⟩ 2)
    = some (summary xB.1.1) := by decide +kernel

-- `DecodeSlab(id, bytes)` itself on the registers: large value, two data slabs, index slab
set_option maxRecDepth 100000 in
example : (reopenedB.base.map (fun p => slabKind (decS p.1 p.2.2))) = [3, 1, 1, 2] := by decide +kernel

/-- the preconditions are not trivially true: a data slab whose count field disagrees with its
    elements is refused by the keyed codec (an encoding error) -/
example : keyedCodec.enc (.tree (.data ⟨⟨⟨1, 2⟩, 121, 5⟩, SlabID.undef, [elem 0], false, false⟩) none) = none := by
  decide

end NonVacuity

end Atree.E2E
