import AtreeProofs.Props.TransDescentGet
import AtreeProofs.Props.TransSlabs
import AtreeProofs.AListLemmas
/-
  TRANSLATION EQUIVALENCE, the DESCENT (WP12): `ArrayMetaDataSlab.PopIterate` / `ArraySlab.PopIterate` over a heap.

  The generated `ArrayMetaDataSlab_PopIterate` (Gen/TransSlabs.lean) walks the header copies from the LAST to the first:
  it reads the child from the storage (`getArraySlab`), calls `PopIterate` on it through dynamic dispatch (recursion on
  the depth argument), and removes the child from the storage (`storage.Remove(childID)`); the emptied child is NOT
  stored again.  On a heap that holds a model tree whose slab identifiers are pairwise distinct, with a depth argument
  that covers the tree, the generated code
    * hands the callback the elements the model's `ATree.popIterate` returns (last to first),
    * returns the translation of the model's emptied slab,
    * leaves the `Ctx` (effect log) of the model,
    * and the heap in which every slab BELOW the root is gone and every other identifier - the root included: its
      caller stores the emptied root - is untouched (`HSt.clear`).
  Hypotheses: `Holds`, `HdrsOk` (every index slab's header copies are its children's headers: Go takes the child
  identifier from the copy; from `TreeInv` by `HdrsOk.of_inv`), `(ATree.slabIds d t).Nodup` (needed: see the example
  `exDup` at the end).  Error exits: `_notFound` (last child missing, state untouched), `_notFound_at` (child `j`
  missing: the children to its right are already popped and removed, the receiver is returned unchanged).
-/
namespace Atree.TransEq
open Atree Atree.Gen

/-- the identifiers of the slabs strictly below the root -/
def belowIds : (d : Nat) → ATree d → List SlabID
  | 0, _ => []
  | d + 1, (m : MetaSlab (ATree d)) => m.children.flatMap (ATree.slabIds d)

theorem slabIds_eq_cons (d : Nat) (t : ATree d) : ATree.slabIds d t = (ATree.hdr d t).id :: belowIds d t := by
  cases d <;> rfl

/-- at every index slab of the tree the header copies are the headers of the children (Go takes the identifier of the
    child to pop from the header copy).  `HdrsOk.of_inv` derives this from the tree invariant. -/
def HdrsOk : (d : Nat) → ATree d → Prop
  | 0, _ => True
  | d + 1, (m : MetaSlab (ATree d)) => m.childHdrs = m.children.map (ATree.hdr d) ∧ ∀ c ∈ m.children, HdrsOk d c

theorem HdrsOk.of_inv {T : Nat} : ∀ {d : Nat} {top : Bool} (t : ATree d), TreeInv T d top t → HdrsOk d t
  | 0, _, _, _ => trivial
  | d + 1, _, (t : MetaSlab (ATree d)), hinv => by
    obtain ⟨_, hhdrs, _, _, _, hkids, _⟩ := (hinv : _ ∧ _)
    exact ⟨hhdrs, fun c hc => HdrsOk.of_inv c (hkids c hc)⟩

/-- the heap without the identifiers `ids`, with the `Ctx` `c` -/
def HSt.clear (s : HSt) (ids : List SlabID) (c : Ctx) : HSt :=
  ⟨fun i => if i ∈ ids then none else s.heap i, c⟩

@[simp] theorem HSt.clear_heap (s : HSt) (ids : List SlabID) (c : Ctx) (i : SlabID) :
    (s.clear ids c).heap i = if i ∈ ids then none else s.heap i := rfl
@[simp] theorem HSt.clear_ctx (s : HSt) (ids : List SlabID) (c : Ctx) : (s.clear ids c).ctx = c := rfl

theorem HSt.clear_nil (s : HSt) : s.clear [] s.ctx = s := by
  cases s; simp [HSt.clear]

theorem HSt.clear_remove (s : HSt) (ids : List SlabID) (c : Ctx) (id : SlabID) :
    (s.clear ids c).remove id = s.clear (id :: ids) (c.emit (.remove id)) := by
  simp only [HSt.clear, HSt.remove, List.mem_cons]
  congr 1
  funext i
  by_cases h1 : i = id <;> simp [h1]

theorem HSt.clear_clear (s : HSt) (a b : List SlabID) (c1 c2 : Ctx) :
    (s.clear a c1).clear b c2 = s.clear (b ++ a) c2 := by
  simp only [HSt.clear, List.mem_append]
  congr 1
  funext i
  by_cases h1 : i ∈ b <;> simp [h1]

/-- the step of the model's fold: pop the child, then remove it -/
def popStep (d : Nat) (acc : List Elem × Ctx) (child : ATree d) : List Elem × Ctx :=
  ((acc.1 ++ (ATree.popIterate d child acc.2).1),
    (ATree.popIterate d child acc.2).2.2.emit (.remove (ATree.hdr d child).id))

theorem popIterate_succ (d : Nat) (m : MetaSlab (ATree d)) (c : Ctx) :
    ATree.popIterate (d + 1) m c =
      ((m.children.reverse.foldl (popStep d) ([], c)).1,
        ({ m with childHdrs := [], countSum := [], children := [],
                  hdr := { m.hdr with count := 0, size := arrayMetaDataSlabPrefixSize } } : MetaSlab (ATree d)),
        (m.children.reverse.foldl (popStep d) ([], c)).2) := rfl

/-- the accumulated elements of the fold are a prefix that is passed through -/
theorem popFold_acc (d : Nat) (l : List (ATree d)) (a : List Elem) (c : Ctx) :
    l.foldl (popStep d) (a, c) = (a ++ (l.foldl (popStep d) ([], c)).1, (l.foldl (popStep d) ([], c)).2) := by
  induction l generalizing a c with
  | nil => simp
  | cons x l ih =>
    simp only [List.foldl_cons, popStep, List.nil_append]
    rw [ih (a ++ _), ih (ATree.popIterate d x c).1]
    simp [List.append_assoc]

/-- the statement for the dispatcher at depth `d` -/
def PopDisp (T d : Nat) : Prop :=
  ∀ (t : ATree d) (s : HSt) (acc : List (Option Elem)) (depth : Nat), d ≤ depth → Holds s.heap d t →
    HdrsOk d t → (ATree.slabIds d t).Nodup →
    TransSl.ArraySlab_PopIterate (envH T) (TransSl.ArrayMetaDataSlab_PopIterate (envH T) depth) (trTree d t) s acc =
      some (none, trTree d (ATree.popIterate d t s.ctx).2.1,
        s.clear (belowIds d t) (ATree.popIterate d t s.ctx).2.2,
        acc ++ (ATree.popIterate d t s.ctx).1.map some)

/-- the statement for an index slab whose children have depth `d` -/
def PopMeta (T d : Nat) : Prop :=
  ∀ (m : MetaSlab (ATree d)) (s : HSt) (acc : List (Option Elem)) (depth : Nat), d ≤ depth →
    HoldsChildren s.heap m → HdrsOk (d + 1) m → (m.children.flatMap (ATree.slabIds d)).Nodup →
    TransSl.ArrayMetaDataSlab_PopIterate (envH T) (depth + 1) (trMeta m) s acc =
      some (none, trMeta (ATree.popIterate (d + 1) m s.ctx).2.1,
        s.clear (m.children.flatMap (ATree.slabIds d)) (ATree.popIterate (d + 1) m s.ctx).2.2,
        acc ++ (ATree.popIterate (d + 1) m s.ctx).1.map some)

theorem popLoop_envH (T : Nat) (look) (a : GData) (k : Nat) (i : Int) (acc : List (Option Elem)) :
    TransSl.ArrayDataSlab_PopIterate.loop1 (envH T) a k i acc =
      TransSl.ArrayDataSlab_PopIterate.loop1 (envA T look) a k i acc := by
  induction k generalizing i acc with
  | zero => rfl
  | succ k ih =>
    simp only [TransSl.ArrayDataSlab_PopIterate.loop1, ih]
    rfl

/-- `ArrayDataSlab.PopIterate` over the heap environment (the function does not touch the storage) -/
theorem Sl_ArrayDataSlab_PopIterate_envH (T : Nat) (s : DataSlab) (acc : List (Option Elem)) :
    TransSl.ArrayDataSlab_PopIterate (envH T) (trData s) acc =
      some (none, trData (s.popIterate).2, acc ++ (s.popIterate).1.map some) := by
  rw [← Sl_ArrayDataSlab_PopIterate_eq_model T (fun _ => none) s acc]
  unfold TransSl.ArrayDataSlab_PopIterate
  rw [popLoop_envH]
  rfl

theorem popDisp_zero (T : Nat) : PopDisp T 0 := by
  intro t s acc depth _ _ _ _
  have := Sl_ArrayDataSlab_PopIterate_envH T t acc
  simp only [trTree, TransSl.ArraySlab_PopIterate, this, ATree.popIterate, belowIds]
  rw [HSt.clear_nil]

/-- the loop of `ArrayMetaDataSlab.PopIterate` after `k` steps from index `k - 1`: the first `k` children are popped
    (right to left) and removed with everything below them -/
theorem popLoop_meta (T d depth : Nat) (hd : d ≤ depth) (ih : PopDisp T d) (m : MetaSlab (ATree d))
    (hhdrs : m.childHdrs = m.children.map (ATree.hdr d)) (k : Nat) (hk : k ≤ m.children.length) (s : HSt)
    (acc : List (Option Elem)) (hh : ∀ c ∈ m.children.take k, Holds s.heap d c)
    (hok : ∀ c ∈ m.children, HdrsOk d c)
    (hn : ((m.children.take k).flatMap (ATree.slabIds d)).Nodup) :
    TransSl.ArrayMetaDataSlab_PopIterate.loop1 (envH T) (trMeta m) (TransSl.ArrayMetaDataSlab_PopIterate (envH T) depth)
        k (Int.ofNat k - 1) s acc =
      .done (s.clear ((m.children.take k).flatMap (ATree.slabIds d))
               ((m.children.take k).reverse.foldl (popStep d) ([], s.ctx)).2,
             acc ++ ((m.children.take k).reverse.foldl (popStep d) ([], s.ctx)).1.map some) := by
  induction k generalizing s acc with
  | zero =>
    simp only [TransSl.ArrayMetaDataSlab_PopIterate.loop1, List.take_zero, List.flatMap_nil, List.reverse_nil,
      List.foldl_nil, List.map_nil, List.append_nil, HSt.clear_nil]
  | succ k ihk =>
    have e : Int.ofNat (k + 1) - 1 = Int.ofNat k := by simp only [Int.ofNat_eq_natCast]; omega
    have hlt : k < m.children.length := by omega
    have htake : m.children.take (k + 1) = m.children.take k ++ [m.children[k]] := by
      rw [List.take_add_one, List.getElem?_eq_getElem hlt]; rfl
    rw [htake] at hh hn ⊢
    generalize hx : m.children[k] = x at hh hn ⊢
    have hget : (List.map trHdr m.childHdrs)[k]? = some (trHdr (ATree.hdr d x)) := by
      rw [hhdrs]; simp [List.getElem?_map, List.getElem?_eq_getElem hlt, hx]
    have hxh : Holds s.heap d x := hh x (by simp)
    rw [List.flatMap_append, List.flatMap_singleton, List.nodup_append] at hn
    obtain ⟨hn1, hn2, hn3⟩ := hn
    have e1 := ih x s acc depth hd hxh (hok x (hx ▸ List.getElem_mem hlt)) hn2
    -- the state after the child is popped and removed
    have hs1 : (s.clear (belowIds d x) (ATree.popIterate d x s.ctx).2.2).remove (ATree.hdr d x).id =
        s.clear (ATree.slabIds d x) ((ATree.popIterate d x s.ctx).2.2.emit (.remove (ATree.hdr d x).id)) := by
      rw [HSt.clear_remove, slabIds_eq_cons]
    have hh' : ∀ c ∈ m.children.take k, Holds
        (s.clear (ATree.slabIds d x) ((ATree.popIterate d x s.ctx).2.2.emit (.remove (ATree.hdr d x).id))).heap d c := by
      intro c hc
      refine (hh c (List.mem_append_left _ hc)).congr (fun id hid => ?_)
      have : id ∉ ATree.slabIds d x := fun hmem => hn3 id (List.mem_flatMap.2 ⟨c, hc, hid⟩) id hmem rfl
      simp [this]
    have e2 := ihk (by omega) _ (acc ++ (ATree.popIterate d x s.ctx).1.map some) hh' hn1
    simp only [TransSl.ArrayMetaDataSlab_PopIterate.loop1, e, int_dge0, if_true, goIdx_ofNat, trMeta_childrenHeaders,
      hget, trHdr_slabID, envH_getArraySlab, hxh.root, Option.isSome_none, Bool.false_eq_true, if_false, e1,
      envH_remove, hs1, e2, HSt.clear_clear, HSt.clear_ctx, List.reverse_append, List.reverse_cons, List.reverse_nil,
      List.nil_append, List.singleton_append, List.foldl_cons, List.flatMap_append, List.flatMap_singleton]
    have hstep : popStep d ([], s.ctx) x =
        ((ATree.popIterate d x s.ctx).1, (ATree.popIterate d x s.ctx).2.2.emit (.remove (ATree.hdr d x).id)) := by
      simp only [popStep, List.nil_append]
    rw [hstep, popFold_acc d _ (ATree.popIterate d x s.ctx).1]
    simp only [List.map_append, List.append_assoc]

theorem popMeta_of_disp (T d : Nat) (ih : PopDisp T d) : PopMeta T d := by
  intro m s acc depth hd hh hok hn
  obtain ⟨hhdrs, hok⟩ := hok
  have hlen : m.childHdrs.length = m.children.length := by rw [hhdrs, List.length_map]
  have e : (Int.ofNat m.children.length - 1 + 1).toNat = m.children.length := by
    simp only [Int.ofNat_eq_natCast]; omega
  have e' : Int.ofNat (trMeta m).childrenHeaders.length - 1 = Int.ofNat m.children.length - 1 := by
    simp only [trMeta_childrenHeaders, List.length_map, hlen]
  have hl := popLoop_meta T d depth hd ih m hhdrs m.children.length (Nat.le_refl _) s acc
    (by rw [List.take_length]; exact hh) hok (by rw [List.take_length]; exact hn)
  rw [List.take_length] at hl
  simp only [TransSl.ArrayMetaDataSlab_PopIterate, e', e, hl, popIterate_succ]
  simp [trMeta, trHdr]

theorem popDisp_succ (T d : Nat) (ih : PopMeta T d) : PopDisp T (d + 1) := by
  intro t s acc depth hd hh hok hn
  obtain ⟨depth, rfl⟩ : ∃ n, depth = n + 1 := ⟨depth - 1, by omega⟩
  have hn' : ((t : MetaSlab (ATree d)).children.flatMap (ATree.slabIds d)).Nodup := (List.nodup_cons.1 hn).2
  have := ih t s acc depth (by omega) hh.2 hok hn'
  show TransSl.ArraySlab_PopIterate (envH T) _ (.metaSlab (trMeta t)) s acc = _
  simp only [TransSl.ArraySlab_PopIterate, this]
  rfl

theorem popDisp_all (T : Nat) : ∀ d, PopDisp T d
  | 0 => popDisp_zero T
  | d + 1 => popDisp_succ T d (popMeta_of_disp T d (popDisp_all T d))

/-- a SEGMENT of the loop: from fuel `j + r` / index `j + r - 1` the children at positions `j + r - 1, .., j` are popped
    and removed; the loop continues at fuel `j` / index `j - 1` in the state that is left (`popLoop_meta` is `j = 0`);
    used for the error exit in the middle of the loop -/
theorem popLoop_meta_seg (T d depth : Nat) (hd : d ≤ depth) (m : MetaSlab (ATree d))
    (hhdrs : m.childHdrs = m.children.map (ATree.hdr d)) (hok : ∀ c ∈ m.children, HdrsOk d c) (j r : Nat)
    (hjr : j + r ≤ m.children.length) (s : HSt) (acc : List (Option Elem))
    (hh : ∀ c ∈ (m.children.drop j).take r, Holds s.heap d c)
    (hn : (((m.children.drop j).take r).flatMap (ATree.slabIds d)).Nodup) :
    TransSl.ArrayMetaDataSlab_PopIterate.loop1 (envH T) (trMeta m) (TransSl.ArrayMetaDataSlab_PopIterate (envH T) depth)
        (j + r) (Int.ofNat (j + r) - 1) s acc =
      TransSl.ArrayMetaDataSlab_PopIterate.loop1 (envH T) (trMeta m)
        (TransSl.ArrayMetaDataSlab_PopIterate (envH T) depth) j (Int.ofNat j - 1)
        (s.clear (((m.children.drop j).take r).flatMap (ATree.slabIds d))
          (((m.children.drop j).take r).reverse.foldl (popStep d) ([], s.ctx)).2)
        (acc ++ (((m.children.drop j).take r).reverse.foldl (popStep d) ([], s.ctx)).1.map some) := by
  induction r generalizing s acc with
  | zero =>
    simp only [Nat.add_zero, List.take_zero, List.flatMap_nil, List.reverse_nil, List.foldl_nil, List.map_nil,
      List.append_nil, HSt.clear_nil]
  | succ r ihr =>
    have e : Int.ofNat (j + r + 1) - 1 = Int.ofNat (j + r) := by simp only [Int.ofNat_eq_natCast]; omega
    have hlt : j + r < m.children.length := by omega
    have hlt' : r < (m.children.drop j).length := by rw [List.length_drop]; omega
    have htake : (m.children.drop j).take (r + 1) = (m.children.drop j).take r ++ [m.children[j + r]] := by
      rw [List.take_add_one, List.getElem?_eq_getElem hlt', List.getElem_drop]; rfl
    rw [htake] at hh hn ⊢
    generalize hx : m.children[j + r] = x at hh hn ⊢
    have hget : (List.map trHdr m.childHdrs)[j + r]? = some (trHdr (ATree.hdr d x)) := by
      rw [hhdrs]; simp [List.getElem?_map, List.getElem?_eq_getElem hlt, hx]
    have hxh : Holds s.heap d x := hh x (by simp)
    rw [List.flatMap_append, List.flatMap_singleton, List.nodup_append] at hn
    obtain ⟨hn1, hn2, hn3⟩ := hn
    have e1 := popDisp_all T d x s acc depth hd hxh (hok x (hx ▸ List.getElem_mem hlt)) hn2
    have hs1 : (s.clear (belowIds d x) (ATree.popIterate d x s.ctx).2.2).remove (ATree.hdr d x).id =
        s.clear (ATree.slabIds d x) ((ATree.popIterate d x s.ctx).2.2.emit (.remove (ATree.hdr d x).id)) := by
      rw [HSt.clear_remove, slabIds_eq_cons]
    have hh' : ∀ c ∈ (m.children.drop j).take r, Holds
        (s.clear (ATree.slabIds d x) ((ATree.popIterate d x s.ctx).2.2.emit (.remove (ATree.hdr d x).id))).heap d c := by
      intro c hc
      refine (hh c (List.mem_append_left _ hc)).congr (fun id hid => ?_)
      have : id ∉ ATree.slabIds d x := fun hmem => hn3 id (List.mem_flatMap.2 ⟨c, hc, hid⟩) id hmem rfl
      simp [this]
    have e2 := ihr (by omega) _ (acc ++ (ATree.popIterate d x s.ctx).1.map some) hh' hn1
    show TransSl.ArrayMetaDataSlab_PopIterate.loop1 (envH T) (trMeta m) _ (j + r + 1) (Int.ofNat (j + r + 1) - 1) s acc = _
    simp only [TransSl.ArrayMetaDataSlab_PopIterate.loop1, e, int_dge0, if_true, goIdx_ofNat, trMeta_childrenHeaders,
      hget, trHdr_slabID, envH_getArraySlab, hxh.root, Option.isSome_none, Bool.false_eq_true, if_false, e1,
      envH_remove, hs1, e2, HSt.clear_clear, HSt.clear_ctx, List.reverse_append, List.reverse_cons, List.reverse_nil,
      List.nil_append, List.singleton_append, List.foldl_cons, List.flatMap_append, List.flatMap_singleton]
    have hstep : popStep d ([], s.ctx) x =
        ((ATree.popIterate d x s.ctx).1, (ATree.popIterate d x s.ctx).2.2.emit (.remove (ATree.hdr d x).id)) := by
      simp only [popStep, List.nil_append]
    rw [hstep, popFold_acc d _ (ATree.popIterate d x s.ctx).1]
    simp only [List.map_append, List.append_assoc]

/-- **`ArraySlab.PopIterate` over a heap** (dynamic dispatch; an index slab descends through the storage): on a heap
    that holds the tree, whose identifiers are pairwise distinct and whose header copies name the children, with a
    depth argument that covers the tree, the generated code hands the callback the elements of the model's
    `ATree.popIterate` (last to first), returns the translation of the emptied slab and no error, leaves the model's
    `Ctx`, and the heap without the slabs BELOW the root (`HSt.clear`; see `Sl_ArraySlab_PopIterate_heap_post`). -/
theorem Sl_ArraySlab_PopIterate_heap (T : Nat) (d : Nat) (t : ATree d) (s : HSt) (acc : List (Option Elem))
    (depth : Nat) (hd : d ≤ depth) (hh : Holds s.heap d t) (hok : HdrsOk d t) (hn : (ATree.slabIds d t).Nodup) :
    TransSl.ArraySlab_PopIterate (envH T) (TransSl.ArrayMetaDataSlab_PopIterate (envH T) depth) (trTree d t) s acc =
      some (none, trTree d (ATree.popIterate d t s.ctx).2.1,
        s.clear (belowIds d t) (ATree.popIterate d t s.ctx).2.2,
        acc ++ (ATree.popIterate d t s.ctx).1.map some) :=
  popDisp_all T d t s acc depth hd hh hok hn

/-- **`ArrayMetaDataSlab.PopIterate` over a heap**: the receiver is the translation of a model index slab (passed by
    value), its children are held by the heap; depth argument `depth + 1` for children of depth `d ≤ depth`. -/
theorem Sl_ArrayMetaDataSlab_PopIterate_heap (T : Nat) (d : Nat) (m : MetaSlab (ATree d)) (s : HSt)
    (acc : List (Option Elem)) (depth : Nat) (hd : d ≤ depth) (hh : HoldsChildren s.heap m) (hok : HdrsOk (d + 1) m)
    (hn : (m.children.flatMap (ATree.slabIds d)).Nodup) :
    TransSl.ArrayMetaDataSlab_PopIterate (envH T) (depth + 1) (trMeta m) s acc =
      some (none, trMeta (ATree.popIterate (d + 1) m s.ctx).2.1,
        s.clear (m.children.flatMap (ATree.slabIds d)) (ATree.popIterate (d + 1) m s.ctx).2.2,
        acc ++ (ATree.popIterate (d + 1) m s.ctx).1.map some) :=
  popMeta_of_disp T d (popDisp_all T d) m s acc depth hd hh hok hn

/-- the same in the form "result, `Ctx`, gone, frame": every slab below the root is gone, every other identifier is
    untouched - the ROOT included (it still holds the slab as it was before: `PopIterate` does not store the emptied
    root, its caller does) -/
theorem Sl_ArraySlab_PopIterate_heap_post (T : Nat) (d : Nat) (t : ATree d) (s : HSt) (acc : List (Option Elem))
    (depth : Nat) (hd : d ≤ depth) (hh : Holds s.heap d t) (hok : HdrsOk d t) (hn : (ATree.slabIds d t).Nodup) :
    ∃ s' : HSt,
      TransSl.ArraySlab_PopIterate (envH T) (TransSl.ArrayMetaDataSlab_PopIterate (envH T) depth) (trTree d t) s acc =
        some (none, trTree d (ATree.popIterate d t s.ctx).2.1, s', acc ++ (ATree.popIterate d t s.ctx).1.map some) ∧
      s'.ctx = (ATree.popIterate d t s.ctx).2.2 ∧
      (∀ id ∈ belowIds d t, s'.heap id = none) ∧
      (∀ id, id ∉ belowIds d t → s'.heap id = s.heap id) ∧
      s'.heap (ATree.hdr d t).id = some (trTree d t) := by
  refine ⟨_, Sl_ArraySlab_PopIterate_heap T d t s acc depth hd hh hok hn, rfl, ?_, ?_, ?_⟩
  · intro id hid; simp [hid]
  · intro id hid; simp [hid]
  · have hroot : (ATree.hdr d t).id ∉ belowIds d t := by
      rw [slabIds_eq_cons] at hn; exact (List.nodup_cons.1 hn).1
    simp [hroot, hh.root]

/-- the hypotheses on the header copies from the tree invariant -/
theorem Sl_ArraySlab_PopIterate_heap_inv (T : Nat) (d : Nat) (top : Bool) (t : ATree d) (hinv : TreeInv T d top t)
    (s : HSt) (acc : List (Option Elem)) (depth : Nat) (hd : d ≤ depth) (hh : Holds s.heap d t)
    (hn : (ATree.slabIds d t).Nodup) :
    TransSl.ArraySlab_PopIterate (envH T) (TransSl.ArrayMetaDataSlab_PopIterate (envH T) depth) (trTree d t) s acc =
      some (none, trTree d (ATree.popIterate d t s.ctx).2.1,
        s.clear (belowIds d t) (ATree.popIterate d t s.ctx).2.2,
        acc ++ (ATree.popIterate d t s.ctx).1.map some) :=
  Sl_ArraySlab_PopIterate_heap T d t s acc depth hd hh (HdrsOk.of_inv t hinv) hn

/-- the depth argument is exhausted (the tree is deeper): the generated code leaves the modelled fragment -/
theorem Sl_ArrayMetaDataSlab_PopIterate_depth0 (T : Nat) (a : GMeta) (s : HSt) (acc : List (Option Elem)) :
    TransSl.ArrayMetaDataSlab_PopIterate (envH T) 0 a s acc = none := rfl

/-- **the error exit**: the heap does not hold the LAST child (the first one visited): `SlabNotFoundError` from
    `getArraySlab`, the receiver, the storage and the callback world are untouched.  (The model has no such case:
    `Holds` excludes it.) -/
theorem Sl_ArrayMetaDataSlab_PopIterate_notFound (T : Nat) {α : Type} (m : MetaSlab α) (pre : List Hdr) (h : Hdr)
    (hhdrs : m.childHdrs = pre ++ [h]) (s : HSt) (hnone : s.heap h.id = none) (acc : List (Option Elem))
    (depth : Nat) :
    TransSl.ArrayMetaDataSlab_PopIterate (envH T) (depth + 1) (trMeta m) s acc =
      some (some .slabNotFound, trMeta m, s, acc) := by
  have hlen : (List.map trHdr m.childHdrs).length = pre.length + 1 := by
    simp only [List.length_map, hhdrs, List.length_append, List.length_singleton]
  have e' : Int.ofNat (pre.length + 1) - 1 = Int.ofNat pre.length := by
    simp only [Int.ofNat_eq_natCast]; omega
  have e : (Int.ofNat pre.length + 1).toNat = pre.length + 1 := by
    simp only [Int.ofNat_eq_natCast]; omega
  have hget : (List.map trHdr m.childHdrs)[pre.length]? = some (trHdr h) := by
    rw [hhdrs]; simp
  simp only [TransSl.ArrayMetaDataSlab_PopIterate, trMeta_childrenHeaders, hlen, e', e,
    TransSl.ArrayMetaDataSlab_PopIterate.loop1, int_dge0, if_true, goIdx_ofNat, hget, trHdr_slabID, envH_getArraySlab, hnone, Option.isSome_some]

/-- **the error exit in the middle of the loop**: the children to the right of position `j` are held, child `j` is not
    in the heap: `SlabNotFoundError`; the RECEIVER is returned unchanged (all header copies still there), but the
    children to the right of `j` HAVE been popped and removed (with everything below them) and their elements handed
    to the callback: the storage is left with an index slab whose header copies name removed slabs.  (The model has
    no such case: `Holds` excludes it.)  `j = length - 1` is `Sl_ArrayMetaDataSlab_PopIterate_notFound`. -/
theorem Sl_ArrayMetaDataSlab_PopIterate_notFound_at (T : Nat) (d : Nat) (m : MetaSlab (ATree d)) (s : HSt)
    (acc : List (Option Elem)) (depth : Nat) (hd : d ≤ depth) (hok : HdrsOk (d + 1) m) (j : Nat)
    (hj : j < m.children.length) (hh : ∀ c ∈ m.children.drop (j + 1), Holds s.heap d c)
    (hn : ((m.children.drop (j + 1)).flatMap (ATree.slabIds d)).Nodup)
    (hnone : s.heap (ATree.hdr d m.children[j]).id = none) :
    TransSl.ArrayMetaDataSlab_PopIterate (envH T) (depth + 1) (trMeta m) s acc =
      some (some .slabNotFound, trMeta m,
        s.clear ((m.children.drop (j + 1)).flatMap (ATree.slabIds d))
          ((m.children.drop (j + 1)).reverse.foldl (popStep d) ([], s.ctx)).2,
        acc ++ ((m.children.drop (j + 1)).reverse.foldl (popStep d) ([], s.ctx)).1.map some) := by
  obtain ⟨hhdrs, hok⟩ := hok
  have hlen : m.childHdrs.length = m.children.length := by rw [hhdrs, List.length_map]
  obtain ⟨r, hr⟩ : ∃ r, m.children.length = j + 1 + r := ⟨m.children.length - (j + 1), by omega⟩
  have htk : (m.children.drop (j + 1)).take r = m.children.drop (j + 1) := by
    rw [List.take_of_length_le]; rw [List.length_drop]; omega
  have e : (Int.ofNat (j + 1 + r) - 1 + 1).toNat = j + 1 + r := by
    simp only [Int.ofNat_eq_natCast]; omega
  have e' : (List.map trHdr m.childHdrs).length = j + 1 + r := by
    simp only [List.length_map, hlen, hr]
  have e'' : Int.ofNat (j + 1) - 1 = Int.ofNat j := by simp only [Int.ofNat_eq_natCast]; omega
  have hl := popLoop_meta_seg T d depth hd m hhdrs hok (j + 1) r (by omega) s acc
    (by rw [htk]; exact hh) (by rw [htk]; exact hn)
  rw [htk] at hl
  have hget : (List.map trHdr m.childHdrs)[j]? = some (trHdr (ATree.hdr d m.children[j])) := by
    rw [hhdrs]; simp [List.getElem?_map, List.getElem?_eq_getElem hj]
  have hnone' : (if (ATree.hdr d m.children[j]).id ∈ (m.children.drop (j + 1)).flatMap (ATree.slabIds d) then none
      else s.heap (ATree.hdr d m.children[j]).id) = none := by
    split
    · rfl
    · exact hnone
  simp only [TransSl.ArrayMetaDataSlab_PopIterate, trMeta_childrenHeaders, e', e, hl,
    TransSl.ArrayMetaDataSlab_PopIterate.loop1, e'', int_dge0, if_true, goIdx_ofNat, hget, trHdr_slabID, envH_getArraySlab, HSt.clear_heap, hnone',
    Option.isSome_some]

/-! ### non-vacuity: the two-level tree `exMeta` (Props/TransSafe.lean) on its heap, `PopIterate` evaluated -/

section
private def exPopSt : HSt := ⟨heapOf 1 exMeta, { ctr := 7, eff := [] }⟩

/-- the generated code EVALUATED: no error, the emptied root, the two `remove` effects (right child first), the eight
    elements last to first -/
example : (TransSl.ArrayMetaDataSlab_PopIterate (envH 256) 1 (trMeta exMeta) exPopSt []).map
      (fun r => (r.1, r.2.1, r.2.2.1.ctx.eff, r.2.2.2)) =
    some (none, trMeta ({ exMeta with hdr := ⟨⟨1, 1⟩, 12, 0⟩, childHdrs := [], countSum := [], children := [] } :
        MetaSlab (ATree 0)),
      [.remove ⟨1, 3⟩, .remove ⟨1, 2⟩],
      [some ⟨50, .val 4⟩, some ⟨50, .val 3⟩, some ⟨50, .val 2⟩, some ⟨50, .val 1⟩,
       some ⟨50, .val 4⟩, some ⟨50, .val 3⟩, some ⟨50, .val 2⟩, some ⟨50, .val 1⟩]) := by rfl

/-- the heap afterwards: both children gone, the root still the OLD root -/
example : (TransSl.ArrayMetaDataSlab_PopIterate (envH 256) 1 (trMeta exMeta) exPopSt []).map
      (fun r => (r.2.2.1.heap ⟨1, 1⟩, r.2.2.1.heap ⟨1, 2⟩, r.2.2.1.heap ⟨1, 3⟩)) =
    some (some (.metaSlab (trMeta exMeta)), none, none) := by rfl

/-- the hypotheses of the theorem hold for it -/
example : Holds exPopSt.heap 1 exMeta ∧ HdrsOk 1 exMeta ∧ (ATree.slabIds 1 exMeta).Nodup :=
  ⟨⟨by simp [exPopSt, heapOf], fun c hc => by
      have hcs : exMeta.children = [exSlab 2, exSlab 3] := rfl
      rw [hcs] at hc
      rcases List.mem_cons.mp hc with rfl | hc
      · rfl
      · rcases List.mem_singleton.mp hc with rfl; rfl⟩,
   ⟨rfl, fun _ _ => trivial⟩, by decide⟩

/-- the right child missing from the heap: `SlabNotFoundError`, nothing popped -/
example : TransSl.ArrayMetaDataSlab_PopIterate (envH 256) 1 (trMeta exMeta) ⟨fun _ => none, { ctr := 7, eff := [] }⟩ [] =
    some (some .slabNotFound, trMeta exMeta, ⟨fun _ => none, { ctr := 7, eff := [] }⟩, []) := by rfl
/-- the LEFT child missing from the heap: `SlabNotFoundError` AFTER the right child was popped and removed; the
    receiver still lists both children (`Sl_ArrayMetaDataSlab_PopIterate_notFound_at`) -/
example : (TransSl.ArrayMetaDataSlab_PopIterate (envH 256) 1 (trMeta exMeta)
      ⟨fun id => if id = ⟨1, 2⟩ then none else heapOf 1 exMeta id, { ctr := 7, eff := [] }⟩ []).map
      (fun r => (r.1, r.2.1, r.2.2.1.ctx.eff, r.2.2.1.heap ⟨1, 3⟩, r.2.2.2)) =
    some (some .slabNotFound, trMeta exMeta, [.remove ⟨1, 3⟩], none,
      [some ⟨50, .val 4⟩, some ⟨50, .val 3⟩, some ⟨50, .val 2⟩, some ⟨50, .val 1⟩]) := by rfl

/-- a THREE-level tree (an index slab over the index slab `exMeta`), depth argument 2: the recursion through the
    dynamic dispatch; the slabs are removed bottom-up, right to left -/
private def exMeta2 : MetaSlab (ATree 1) :=
  { hdr := ⟨⟨1, 9⟩, 28, 8⟩, childHdrs := [exMeta.hdr], countSum := [8], children := [exMeta], root := true }

example : (TransSl.ArrayMetaDataSlab_PopIterate (envH 256) 2 (trMeta exMeta2)
      ⟨heapOf 2 exMeta2, { ctr := 9, eff := [] }⟩ []).map
      (fun r => (r.1, r.2.1, r.2.2.1.ctx.eff, r.2.2.1.heap ⟨1, 9⟩, r.2.2.1.heap ⟨1, 1⟩, r.2.2.1.heap ⟨1, 2⟩,
        r.2.2.1.heap ⟨1, 3⟩, r.2.2.2.length)) =
    some (none, trMeta ({ exMeta2 with hdr := ⟨⟨1, 9⟩, 12, 0⟩, childHdrs := [], countSum := [], children := [] } :
        MetaSlab (ATree 1)),
      [.remove ⟨1, 3⟩, .remove ⟨1, 2⟩, .remove ⟨1, 1⟩], some (.metaSlab (trMeta exMeta2)), none, none, none, 8) := by
  rfl

/-- the depth argument does not cover the tree: outside the modelled fragment -/
example : TransSl.ArrayMetaDataSlab_PopIterate (envH 256) 1 (trMeta exMeta2)
      ⟨heapOf 2 exMeta2, { ctr := 9, eff := [] }⟩ [] = none := by rfl
/-- the distinctness hypothesis is NEEDED: an index slab that lists the same (held) child twice - the model pops it
    twice (8 elements), the generated code removes it after the first visit and fails on the second -/
private def exDup : MetaSlab (ATree 0) :=
  { hdr := ⟨⟨1, 1⟩, 40, 8⟩, childHdrs := [(exSlab 2).hdr, (exSlab 2).hdr], countSum := [4, 8],
    children := [exSlab 2, exSlab 2], root := true }

example : (TransSl.ArrayMetaDataSlab_PopIterate (envH 256) 1 (trMeta exDup)
      ⟨heapOf 1 exDup, { ctr := 7, eff := [] }⟩ []).map (fun r => (r.1, r.2.2.2.length)) =
    some (some .slabNotFound, 4) ∧ (ATree.popIterate 1 exDup { ctr := 7, eff := [] }).1.length = 8 ∧
    HoldsChildren (heapOf 1 exDup) exDup ∧ HdrsOk 1 exDup := by
  refine ⟨by rfl, by rfl, fun c hc => ?_, rfl, fun _ _ => trivial⟩
  have hcs : exDup.children = [exSlab 2, exSlab 2] := rfl
  rw [hcs] at hc
  rcases List.mem_cons.mp hc with rfl | hc
  · rfl
  · rcases List.mem_singleton.mp hc with rfl; rfl
end

end Atree.TransEq
