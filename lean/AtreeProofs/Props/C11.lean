import AtreeProofs.WorldInv
import AtreeProofs.WorldLemmas
/-
  C11 — Detached containers and stale handles cannot corrupt a former parent.
  PROPERTY THEOREMS about the World model.
-/
namespace Atree.C11
open Atree Gen World

/-- A child whose recorded slot in its former ARRAY parent is gone (index unknown) notifies
    nobody: the callback answers "not found" before any write; every container, every index table
    and the effect log are untouched; only the child's own callback is cleared. -/
theorem detached_array_child_leaves_parent_unchanged (fuel : Nat) (w : World) (x : SlabID) (hi : HInfo) (cx : Ctx)
    (c : Cont) (pa : Arr)
    (hh : AList.find? w.hinfo x = some hi) (hc : w.cont? x = some c)
    (hpa : w.cont? hi.parent = some (.arr pa))
    (hgone : AList.find? (w.idxOf hi.parent) x = none) :
    notifyParent (fuel + 1) w x cx = .ok (w, cx) ∨
    notifyParent (fuel + 1) w x cx = .ok ({ w with hinfo := AList.erase w.hinfo x }, cx) := by
  sorry

/-- … and the same when the recorded slot now holds something else (another value or another
    container): the identity check precedes the write. -/
theorem replaced_slot_leaves_parent_unchanged (fuel : Nat) (w : World) (x : SlabID) (hi : HInfo) (cx : Ctx)
    (c : Cont) (pa : Arr) (idx : Nat) (el : Elem)
    (hh : AList.find? w.hinfo x = some hi) (hc : w.cont? x = some c)
    (hpa : w.cont? hi.parent = some (.arr pa))
    (hidx : AList.find? (w.idxOf hi.parent) x = some idx) (hget : pa.get idx = .ok el) (hother : el.pay ≠ .ref x) :
    notifyParent (fuel + 1) w x cx = .ok (w, cx) ∨
    notifyParent (fuel + 1) w x cx = .ok ({ w with hinfo := AList.erase w.hinfo x }, cx) := by
  sorry

/-- MAP parent: the key is absent, or holds something else: same conclusion. -/
theorem detached_map_child_leaves_parent_unchanged (fuel : Nat) (w : World) (x : SlabID) (hi : HInfo) (cx : Ctx)
    (c : Cont) (pm : OMap 3) (k : MKey)
    (hh : AList.find? w.hinfo x = some hi) (hc : w.cont? x = some c) (hk : hi.key = some k)
    (hpm : w.cont? hi.parent = some (.map pm))
    (hslot : pm.get w.mcfg k = .error .keyNotFound ∨ ∃ k' el, pm.get w.mcfg k = .ok (k', el) ∧ el.pay ≠ .ref x) :
    notifyParent (fuel + 1) w x cx = .ok (w, cx) ∨
    notifyParent (fuel + 1) w x cx = .ok ({ w with hinfo := AList.erase w.hinfo x }, cx) := by
  sorry

/-- Removing a child from an array parent forgets its index, so later mutations of the child fall
    under `detached_array_child_leaves_parent_unchanged`. -/
theorem remove_forgets_index (w : World) (p : SlabID) (i : Nat) (cx : Ctx) (old : Elem) (x : SlabID)
    (w' : World) (cx' : Ctx) (h : w.arrRemove p i cx = .ok (old, w', cx')) (hx : old.pay = .ref x)
    (hcont : (w.cont? x).isSome) :
    AList.find? (w'.idxOf p) x = none := by
  sorry

end Atree.C11
