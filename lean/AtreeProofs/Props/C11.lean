import AtreeProofs.WorldInv
import AtreeProofs.WorldLemmas
/-
  C11 — Detached containers and stale handles cannot corrupt a former parent.
  PROPERTY THEOREMS about the World model.
-/
namespace Atree.C11
open Atree Gen World

/-- A child whose recorded slot in its former ARRAY parent is gone (index unknown) notifies
    nobody: the callback answers "not found" before any write; every container, every index table
    and the effect log are untouched; only the child's own callback is cleared. -/
theorem detached_array_child_leaves_parent_unchanged (fuel : Nat) (w : World) (x : SlabID) (hi : HInfo) (cx : Ctx)
    (c : Cont) (pa : Arr)
    (hh : AList.find? w.hinfo x = some hi) (hc : w.cont? x = some c)
    (hpa : w.cont? hi.parent = some (.arr pa))
    (hgone : AList.find? (w.idxOf hi.parent) x = none) :
    notifyParent (fuel + 1) w x cx = .ok (w, cx) ∨
    notifyParent (fuel + 1) w x cx = .ok ({ w with hinfo := AList.erase w.hinfo x }, cx) := by
  rw [notifyParent]
  simp only [hh, hc, hpa, hgone]
  split
  · left; rfl
  · right; rfl

/-- … and the same when the recorded slot now holds something else (another value or another
    container): the identity check precedes the write.
    VACUOUS ON VALID WORLDS (audit a5, S5): `hidx`, `hget`, `hother` contradict `MutIdxOk`, a clause
    of the invariant (`C11.replaced_slot_hyps_contradict_invariant`) — `Array.Set` erases the index
    of the child it overwrites, so "the slot now holds ANOTHER container" reaches the callback
    through the index-unknown branch.  SUPERSEDED by `C11.overwritten_child_leaves_parent_unchanged`
    (Props/C11Slot.lean) and `C11.detached_by_arrSet` + `C11.detached_*` (Props/C11W.lean).  Kept as a
    reading of the identity check of the Go callback (array.go:813-822), which guards states with a
    second, stale index (the dual-handle findings F2b). -/
theorem replaced_slot_leaves_parent_unchanged (fuel : Nat) (w : World) (x : SlabID) (hi : HInfo) (cx : Ctx)
    (c : Cont) (pa : Arr) (idx : Nat) (el : Elem)
    (hh : AList.find? w.hinfo x = some hi) (hc : w.cont? x = some c)
    (hpa : w.cont? hi.parent = some (.arr pa))
    (hidx : AList.find? (w.idxOf hi.parent) x = some idx) (hget : pa.get idx = .ok el) (hother : el.pay ≠ .ref x) :
    notifyParent (fuel + 1) w x cx = .ok (w, cx) ∨
    notifyParent (fuel + 1) w x cx = .ok ({ w with hinfo := AList.erase w.hinfo x }, cx) := by
  rw [notifyParent]
  simp only [hh, hc, hpa, hidx, hget]
  split
  · left; rfl
  · right; first | rfl | (rw [if_pos hother])

/-- MAP parent: the key is absent, or holds something else: same conclusion. -/
theorem detached_map_child_leaves_parent_unchanged (fuel : Nat) (w : World) (x : SlabID) (hi : HInfo) (cx : Ctx)
    (c : Cont) (pm : OMap 3) (k : MKey)
    (hh : AList.find? w.hinfo x = some hi) (hc : w.cont? x = some c) (hk : hi.key = some k)
    (hpm : w.cont? hi.parent = some (.map pm))
    (hslot : pm.get w.mcfg k = .error .keyNotFound ∨ ∃ k' el, pm.get w.mcfg k = .ok (k', el) ∧ el.pay ≠ .ref x) :
    notifyParent (fuel + 1) w x cx = .ok (w, cx) ∨
    notifyParent (fuel + 1) w x cx = .ok ({ w with hinfo := AList.erase w.hinfo x }, cx) := by
  rw [notifyParent]
  simp only [hh, hc, hpm, hk]
  split
  · left; rfl
  · right
    rcases hslot with h | ⟨k', el, h, hne⟩
    · rw [h]
    · rw [h]; first | rfl | (simp only; rw [if_pos hne])

/-- Removing a child from an array parent forgets its index, so later mutations of the child fall
    under `detached_array_child_leaves_parent_unchanged`. -/
theorem remove_forgets_index (w : World) (p : SlabID) (i : Nat) (cx : Ctx) (old : Elem) (x : SlabID)
    (w' : World) (cx' : Ctx) (h : w.arrRemove p i cx = .ok (old, w', cx')) (hx : old.pay = .ref x)
    (hcont : (w.cont? x).isSome) :
    AList.find? (w'.idxOf p) x = none := by
  unfold arrRemove at h
  split at h
  · rename_i a hpa
    split at h
    · cases h
    · rename_i old1 a' cx1 hrem
      simp only [bind, Except.bind] at h
      have d1 : DomRel False w (w.setCont p (.arr a')) := DomRel.setCont hpa (fun hF => hF.elim)
      have d2 : DomRel False (w.setCont p (.arr a'))
          ((w.setCont p (.arr a')).shiftIdx p (fun j => if j > i then j - 1 else j)) := DomRel.shiftIdx _ _ _
      split at h
      · cases h
      · rename_i r hnp
        obtain ⟨w3, cx3⟩ := r
        simp only at h
        have d3 : DomRel False _ w3 := (notifyParent_domRel hnp).mono (fun hF => hF.elim)
        have hsome : (w3.cont? x).isSome := (d1.trans (d2.trans d3)).keeps_isSome hcont
        split at h
        · cases h
        · rename_i r2 hun
          obtain ⟨old2, ov, w4, cx4⟩ := r2
          simp only [pure, Except.pure] at h
          cases h
          obtain ⟨hpay, _, _, _, _, hcase⟩ := uninlineIfNeeded_ok hun
          have hx1 : old1.pay = .ref x := by rw [← hpay]; exact hx
          rcases hcase with ⟨_, _, _, _, hnone⟩ | ⟨x', c, hov, hp', _, _⟩
          · rw [hnone x hx1] at hsome; cases hsome
          · rw [hx1] at hp'; cases hp'; subst hov
            simp [AList.find?_erase]
  · cases h

section NonVacuity
/-! Same run as in C10 (`AtreeProofs/World/Scenario.lean`).  `mid11` is the state at the call of
    `notifyParent` inside the removal of a value from the DETACHED child `X` (after `X` has been
    removed from `R`): `X` still has its callback, would fit inline again, but its slot is gone. -/
open Atree.Scenario

/-- The hypotheses of `detached_array_child_leaves_parent_unchanged` are met at `mid11`, and the
    second alternative of its conclusion is the one that happens (the callback is cleared). -/
theorem detached_hyps_met :
    ∃ (c : Cont) (pa : Arr),
      AList.find? mid11.1.hinfo X = some ⟨R, none, 117, 0⟩ ∧ mid11.1.cont? X = some c ∧
      mid11.1.cont? R = some (.arr pa) ∧ AList.find? (mid11.1.idxOf R) X = none ∧
      notifyParent (3 + 1) mid11.1 X mid11.2 =
        .ok ({ mid11.1 with hinfo := AList.erase mid11.1.hinfo X }, mid11.2) ∧
      ¬ (c.isInlined = false ∧ c.inlinable 117 = false) := by
  refine ⟨.arr (arrOf mid11.1 X), arrOf mid11.1 R, by decide, rfl, rfl, by decide, ?_, by decide⟩
  rw [notifyParent_eq_notifyS]; rfl

/-- what the operations return around the detachment: the removal hands back the 19-byte reference
    and forgets the index; the later mutation of the detached child writes only the child
    (`store X`), leaves `R` empty and clears the stale callback -/
theorem detached_run_facts :
    s9.1.arrRemove R 0 s9.2 = .ok s10 ∧ s10.1.pay = .ref X ∧ (s9.1.cont? X).isSome = true ∧
    AList.find? (s10.2.1.idxOf R) X = none ∧
    s10.2.1.arrRemove X 0 s10.2.2 = .ok s11 ∧
    s11.1 = ⟨20, .val 1⟩ ∧ s11.2.2.eff = s10.2.2.eff ++ [.store X] ∧
    (s11.2.1.cont? R).map Cont.storedElems = (s10.2.1.cont? R).map Cont.storedElems ∧
    (s11.2.1.cont? R).map Cont.rootSize = (s10.2.1.cont? R).map Cont.rootSize ∧
    s11.2.1.hinfo = [] ∧ s10.2.1.hinfo = [(X, ⟨R, none, 117, 0⟩)] := by
  refine ⟨run_ok.2.2.2.2.2.2.2.1, by decide, by decide, by decide, run_ok.2.2.2.2.2.2.2.2,
    by decide, by decide, by decide, by decide, by decide, by decide⟩

/-- `remove_forgets_index` applies to the removal of `X` from `R` -/
theorem remove_forgets_index_applies : AList.find? (s10.2.1.idxOf R) X = none :=
  remove_forgets_index s9.1 R 0 s9.2 s10.1 X s10.2.1 s10.2.2 detached_run_facts.1 (by decide) (by decide)

end NonVacuity

end Atree.C11
