import AtreeProofs.Props.TransMapDescentSetFull
/-
  WP13 (map descent, top level of `Set`, the WHOLE `OMap.set`): the generated `OrderedMap_set` over the heap equals the
  model's `OMap.set` (count, promotion of a single child, split of a full root), given the tail hypotheses on the four
  restructuring calls (`MSplitTail`, `MMorTail`, `MRootTail`).
-/
namespace Atree.TransEq
open Atree Atree.Gen.TransMapD

section
variable {r : Nat}

/-- how a step changes the heap, relative to the identifier lists of the tree before / after: identifiers that entered
    were free, identifiers that left are gone, everything else is untouched -/
structure mds_Delta (h h' : SlabID → Option (DSlab r)) (I I' : List SlabID) : Prop where
  fresh : ∀ id ∈ I', id ∉ I → h id = none
  gone : ∀ id ∈ I, id ∉ I' → h' id = none
  frame : ∀ id, id ∉ I → id ∉ I' → h' id = h id

theorem mds_Delta.refl (h : SlabID → Option (DSlab r)) (I : List SlabID) : mds_Delta h h I I :=
  ⟨fun _ hi hn => absurd hi hn, fun _ hi hn => absurd hi hn, fun _ _ _ => rfl⟩

theorem mds_Delta.trans {h h1 h2 : SlabID → Option (DSlab r)} {I I1 I2 : List SlabID}
    (a : mds_Delta h h1 I I1) (b : mds_Delta h1 h2 I1 I2) : mds_Delta h h2 I I2 := by
  obtain ⟨f, g, fr⟩ := mds_compose (h := h) (h1 := h1) (h' := h2) (I := I) (I1 := I1) (I' := I2) (J := I) (J' := I1)
    (fun _ hi => hi) (fun _ hi => hi) (fun _ hi => Or.inr hi) (fun _ hi => Or.inr hi)
    a.fresh a.gone a.frame b.fresh b.gone b.frame
  exact ⟨f, g, fr⟩

theorem mds_Post.delta {addr : Nat} {s s' : MHSt r} {d : Nat} {t t' : MTree r d} {x : Option DX}
    (hp : mds_Post addr s s' d t t' x) : mds_Delta s.heap s'.heap (md_ids d t) (md_ids d t') :=
  ⟨hp.fresh, hp.gone, hp.frame⟩

/-- the state invariant of a map handle over the heap: the heap holds the tree (the stored root possibly with another
    extra data `x0` than the handle's: the handle's count may be ahead of the stored copy), identifiers pairwise distinct
    and the owner's, fresh identifiers free, the provider's invariant `Q` on the root -/
structure mds_RootPre (Q : (d : Nat) → MTree r d → Prop) (addr : Nat) (s : MHSt r) (m : OMap r) (x0 : Option DX) :
    Prop where
  held : MHolds s.heap m.d m.root x0
  nodup : (md_ids m.d m.root).Nodup
  addrOk : ∀ id ∈ md_ids m.d m.root, id.addr = addr
  ff : mds_FreshFree addr s
  inv : Q m.d m.root

/-- TAIL hypotheses on `rs.promote` (`promoteChildAsNewRoot`) and `rs.splitRoot` (`OrderedMap.splitRoot`) on `md_map`:
    they return the model's `OMap.promoteIfSingleChild` / `OMap.splitRoot` as generated records with the model's `Ctx`,
    re-establish the handle invariant (the new root stored WITH the handle's extra data) and change the heap as
    `mds_Delta` says; a model error of `splitRoot` comes back as the error value -/
structure MRootTail (T : Nat) (rs : DRestruct r) (Q : (d : Nat) → MTree r d → Prop) : Prop where
  promote : ∀ (addr d : Nat) (xr : MMetaSlab (MTree r d)) (ty cnt seed : Nat) (h : MHdr) (s1 : MHSt r) (x0 : Option DX),
    xr.childHdrs = [h] → xr.childHdrs = xr.children.map (MTree.hdr d) →
    mds_RootPre Q addr s1 ⟨d + 1, xr, ty, cnt, seed⟩ x0 →
    ∃ s2, rs.promote (md_map ⟨d + 1, xr, ty, cnt, seed⟩ s1) h.id =
        (none, md_map (OMap.promoteIfSingleChild ⟨d + 1, xr, ty, cnt, seed⟩ s1.ctx).1 s2) ∧
      s2.ctx = (OMap.promoteIfSingleChild ⟨d + 1, xr, ty, cnt, seed⟩ s1.ctx).2 ∧ s2.popped = s1.popped ∧
      mds_RootPre Q addr s2 (OMap.promoteIfSingleChild ⟨d + 1, xr, ty, cnt, seed⟩ s1.ctx).1
        (some (md_extra (OMap.promoteIfSingleChild ⟨d + 1, xr, ty, cnt, seed⟩ s1.ctx).1)) ∧
      mds_Delta s1.heap s2.heap (md_ids (d + 1) xr)
        (md_ids _ (OMap.promoteIfSingleChild ⟨d + 1, xr, ty, cnt, seed⟩ s1.ctx).1.root)
  splitRoot : ∀ (addr : Nat) (m2 : OMap r) (s2 : MHSt r) (x0 : Option DX),
    mds_RootPre Q addr s2 m2 x0 → MTree.isFull T m2.d m2.root = true →
    match m2.splitRoot s2.ctx with
    | .ok (m3, c3) =>
      ∃ s3, rs.splitRoot (md_map m2 s2) = (none, md_map m3 s3) ∧ s3.ctx = c3 ∧ s3.popped = s2.popped ∧
        mds_RootPre Q addr s3 m3 (some (md_extra m3)) ∧
        mds_Delta s2.heap s3.heap (md_ids m2.d m2.root) (md_ids m3.d m3.root)
    | .error e => ∃ M', rs.splitRoot (md_map m2 s2) = (some e, M')

theorem mds_tree_extra (d : Nat) (t : MTree r d) (x : Option DX) : (md_tree d t x).extraData_ = x := by
  cases d <;> rfl

theorem mds_tree_withExtra (d : Nat) (t : MTree r d) (x y : Option DX) :
    (md_tree d t x).with_extraData_ y = md_tree d t y := by
  cases d <;> rfl

section
variable (T : Nat) (eb : DEnvB r) (rs : DRestruct r) (Q : (d : Nat) → MTree r d → Prop)

/-- `if m.root.IsFull() { m.splitRoot() }` against the model's `splitRootIfFull` -/
theorem mds_topFinish_model (hR : MRootTail T rs Q) (hT1 : maxThr T < 2^32) (addr : Nat) (m2 : OMap r) (s2 : MHSt r)
    (x2 : Option DX) (o : Option SV) (hpre : mds_RootPre Q addr s2 m2 x2)
    (hsz : (MTree.hdr m2.d m2.root).size < 2^32) :
    match m2.splitRootIfFull T s2.ctx with
    | .ok (m3, c3) =>
      ∃ s3 x3, mds_topFinish (envD T eb rs) (md_map m2 s2) o = some (o, none, md_map m3 s3) ∧ s3.ctx = c3 ∧
        s3.popped = s2.popped ∧ mds_RootPre Q addr s3 m3 x3 ∧
        mds_Delta s2.heap s3.heap (md_ids m2.d m2.root) (md_ids m3.d m3.root)
    | .error e => ∃ M', mds_topFinish (envD T eb rs) (md_map m2 s2) o = some (none, some e, M') := by
  have hfull : MapSlab_IsFull (envD T eb rs) (md_map m2 s2).root = some (MTree.isFull T m2.d m2.root) :=
    mds_isFull_tree T eb rs m2.d m2.root _ hsz hT1
  rw [mds_topFinish_envD, hfull]
  unfold OMap.splitRootIfFull
  cases hf : MTree.isFull T m2.d m2.root with
  | false =>
    simp only [Bool.false_eq_true, if_false]
    exact ⟨s2, x2, rfl, rfl, rfl, hpre, mds_Delta.refl _ _⟩
  | true =>
    simp only [if_true]
    have ht := hR.splitRoot addr m2 s2 x2 hpre hf
    rcases hsp : m2.splitRoot s2.ctx with e | ⟨m3, c3⟩
    · rw [hsp] at ht
      obtain ⟨M', hr⟩ := ht
      exact ⟨M', by rw [hr]; rfl⟩
    · rw [hsp] at ht
      obtain ⟨s3, hr, hc, hpp, hpre3, hdl⟩ := ht
      exact ⟨s3, _, by rw [hr]; rfl, hc, hpp, hpre3, hdl⟩

/-- the promotion of a single child against the model's `promoteIfSingleChild` -/
theorem mds_topPromote_model (hR : MRootTail T rs Q)
    (hQhdrs : ∀ d (m : MMetaSlab (MTree r d)), Q (d + 1) m → m.childHdrs = m.children.map (MTree.hdr d))
    (addr : Nat) (m1 : OMap r) (s1 : MHSt r) (x1 : Option DX) (o : Option SV) (hpre : mds_RootPre Q addr s1 m1 x1) :
    ∃ s2 x2, mds_topPromote (envD T eb rs) (md_map m1 s1) o =
        mds_topFinish (envD T eb rs) (md_map (m1.promoteIfSingleChild s1.ctx).1 s2) o ∧
      s2.ctx = (m1.promoteIfSingleChild s1.ctx).2 ∧ s2.popped = s1.popped ∧
      mds_RootPre Q addr s2 (m1.promoteIfSingleChild s1.ctx).1 x2 ∧
      mds_Delta s1.heap s2.heap (md_ids m1.d m1.root) (md_ids _ (m1.promoteIfSingleChild s1.ctx).1.root) := by
  obtain ⟨d, root, ty, cnt, seed⟩ := m1
  cases d with
  | zero => exact ⟨s1, x1, rfl, rfl, rfl, hpre, mds_Delta.refl _ _⟩
  | succ d =>
    have hc : MMetaSlab.childHdrs root = (MMetaSlab.children root).map (MTree.hdr d) := hQhdrs d root hpre.inv
    rw [mds_topPromote_envD]
    rcases hch : MMetaSlab.childHdrs root with _ | ⟨h, _ | ⟨h2, tl⟩⟩
    · have hm : OMap.promoteIfSingleChild ⟨d + 1, root, ty, cnt, seed⟩ s1.ctx = (⟨d + 1, root, ty, cnt, seed⟩, s1.ctx) := by
        simp only [OMap.promoteIfSingleChild, hch]
      rw [hm]
      refine ⟨s1, x1, ?_, rfl, rfl, hpre, mds_Delta.refl _ _⟩
      simp only [md_map, md_tree, md_meta, hch, List.map_nil]
    · have ht := hR.promote addr d root ty cnt seed h s1 x1 hch hc hpre
      obtain ⟨s2, hr, hc2, hpp, hpre2, hdl⟩ := ht
      refine ⟨s2, _, ?_, hc2, hpp, hpre2, hdl⟩
      have hroot : (md_map (⟨d + 1, root, ty, cnt, seed⟩ : OMap r) s1).root =
          .metaSlab (md_meta root (some (md_extra (⟨d + 1, root, ty, cnt, seed⟩ : OMap r)))) := rfl
      simp only [hroot, md_meta, hch, List.map_cons, List.map_nil, md_hdr]
      rw [hr]
      rfl
    · have hm : OMap.promoteIfSingleChild ⟨d + 1, root, ty, cnt, seed⟩ s1.ctx = (⟨d + 1, root, ty, cnt, seed⟩, s1.ctx) := by
        simp only [OMap.promoteIfSingleChild, hch]
      rw [hm]
      refine ⟨s1, x1, ?_, rfl, rfl, hpre, mds_Delta.refl _ _⟩
      simp only [md_map, md_tree, md_meta, hch, List.map_cons]

/-- the model's `OMap.set` with its three stages named -/
theorem mds_OMap_set_eq (cfg : MCfg) (m : OMap r) (k : MKey) (v : Elem) (c : Ctx) :
    OMap.set cfg m k v c =
      match MTree.set cfg m.d m.root k v c with
      | .error e => .error e
      | .ok (_, old, root', c1) =>
        match (OMap.promoteIfSingleChild
            ({ m with root := root', count := if old.isNone then m.count + 1 else m.count } : OMap r) c1).1.splitRootIfFull
            cfg.T (OMap.promoteIfSingleChild
            ({ m with root := root', count := if old.isNone then m.count + 1 else m.count } : OMap r) c1).2 with
        | .error e => .error e
        | .ok (m3, c3) => .ok (old, m3, c3) := by
  simp only [OMap.set, bind, Except.bind, pure, Except.pure]
  rcases MTree.set cfg m.d m.root k v c with e | ⟨ks, old, root', c1⟩
  · rfl
  · simp only []
    rcases OMap.splitRootIfFull cfg.T _ _ with e | ⟨m3, c3⟩ <;> rfl

/-- THE WHOLE `OMap.set` OVER THE HEAP, given the tails: for a handle `m` whose tree the heap holds (`mds_RootPre`), the
    generated `OrderedMap.set` returns `(old value, nil, md_map m' s')` for the model's
    `OMap.set cfg m k v s.ctx = .ok (old, m', c')`, with `s'.ctx = c'`, the handle invariant re-established for `m'` (the
    heap holds `m'.root`; the stored root carries the extra data `x'`: the handle's own after a promotion / root split,
    else the one `Set` stored, i.e. the OLD count) and the heap changed as `mds_Delta` says; a model error comes back.
    `hszR`: the size of the (possibly promoted) root fits `uint32`. -/
theorem Ob_OrderedMap_set_heap_of_tails (cfg : MCfg) (k : MKey) (v : Elem) (P : DG r → Prop)
    (hE : ElemsSpec cfg k v P eb) (hS : MSplitTail cfg.T rs Q) (hM : MMorTail cfg.T rs Q) (hR : MRootTail cfg.T rs Q)
    (hQset : ∀ d (t t' : MTree r d) ks old c c', Q d t → MTree.set cfg d t k v c = .ok (ks, old, t', c') → Q d t')
    (hQhdrs : ∀ d (m : MMetaSlab (MTree r d)), Q (d + 1) m → m.childHdrs = m.children.map (MTree.hdr d))
    (hmono : ∀ (sl : MDataSlab r) c ks old sl' c', MDataSlab.set cfg sl k v c = .ok (ks, old, sl', c') → c.ctr ≤ c'.ctr)
    (hT1 : maxThr cfg.T < 2^32) (hT2 : minThr cfg.T < 2^32) (hhk : k.dig 0 < 2^64)
    (m : OMap r) (s : MHSt r) (x0 : Option DX) (depth : Nat) (hd : m.d ≤ depth)
    (hpre : mds_RootPre Q cfg.addr s m x0) (hroot : mds_rootFlag m.d m.root = true)
    (hp : mds_PathF cfg k v P Q m.d m.root s.ctx)
    (hszR : ∀ ks old root' c1, MTree.set cfg m.d m.root k v s.ctx = .ok (ks, old, root', c1) →
      (MTree.hdr _ (OMap.promoteIfSingleChild
        ({ m with root := root', count := if old.isNone then m.count + 1 else m.count } : OMap r) c1).1.root).size < 2^32) :
    match OMap.set cfg m k v s.ctx with
    | .ok (old, m', c') =>
      ∃ s' x', OrderedMap_set (envD cfg.T eb rs) depth (md_map m s) (.key k) (.val v) =
          some (old.map .val, none, md_map m' s') ∧
        s'.ctx = c' ∧ s'.popped = s.popped ∧ mds_RootPre Q cfg.addr s' m' x' ∧
        mds_Delta s.heap s'.heap (md_ids m.d m.root) (md_ids m'.d m'.root)
    | .error e => ∃ M', OrderedMap_set (envD cfg.T eb rs) depth (md_map m s) (.key k) (.val v) = some (none, some e, M') := by
  have hT := Ob_MapSlab_Set_heap_of_tails eb rs cfg k v P Q hE hS hM hQset hmono hT1 hT2 hhk m.d depth m.root
    (some (md_extra m)) x0 s hd hpre.held (by rw [hroot]; rfl) hpre.nodup hpre.addrOk hpre.ff hp
  rw [mds_OMap_set_eq]
  rcases hq : MTree.set cfg m.d m.root k v s.ctx with e | ⟨ks, old, root', c1⟩
  · rw [hq] at hT
    obtain ⟨root'', s'', hg⟩ := hT
    exact ⟨_, Ob_OrderedMap_set_step_err cfg.T eb rs (md_map m s) k (.val v) depth none none e root'' s'' hg⟩
  · rw [hq] at hT
    obtain ⟨s1, h1, h2, h3, hpost⟩ := hT
    subst h2
    simp only []
    have hszR' := hszR ks old root' s1.ctx hq
    generalize hm1 : ({ m with root := root', count := if old.isNone then m.count + 1 else m.count } : OMap r) = m1
      at hszR'
    -- the count
    have hcount : mds_topCount ({ Storage := s1, root := md_tree m.d root' (some (md_extra m)), digesterBuilder := () } :
        DMap r) (old.map .val) = some (md_map m1 s1) := by
      subst hm1
      unfold mds_topCount
      cases old with
      | none =>
        simp only [Option.map_none, Option.isNone_none, if_true, mds_tree_extra, mds_tree_withExtra]
        show some _ = some _
        congr 1
        show _ = md_map _ s1
        have e : u64 m.count + 1 = u64 (m.count + 1) := (UInt64.ofNat_add m.count 1).symm
        unfold md_map md_extra
        simp only [if_true, e]
      | some ov =>
        simp only [Option.map_some, Option.isNone_some, Bool.false_eq_true, if_false]
        rfl
    have hpre1 : mds_RootPre Q cfg.addr s1 m1 (some (md_extra m)) := by
      subst hm1
      exact ⟨hpost.holds, hpost.nodup, hpost.addrOk, hpost.ff, hQset m.d m.root root' ks old _ _ hpre.inv hq⟩
    have hids1 : md_ids m1.d m1.root = md_ids m.d root' := by subst hm1; rfl
    obtain ⟨s2, x2, hg2, hc2, hp2, hpre2, hdl2⟩ :=
      mds_topPromote_model cfg.T eb rs Q hR hQhdrs cfg.addr m1 s1 _ (old.map .val) hpre1
    have hfin := mds_topFinish_model cfg.T eb rs Q hR hT1 cfg.addr (m1.promoteIfSingleChild s1.ctx).1 s2 x2
      (old.map .val) hpre2 hszR'
    rw [hc2] at hfin
    have hgen : OrderedMap_set (envD cfg.T eb rs) depth (md_map m s) (.key k) (.val v) =
        mds_topFinish (envD cfg.T eb rs) (md_map (m1.promoteIfSingleChild s1.ctx).1 s2) (old.map .val) := by
      rw [Ob_OrderedMap_set_step_map cfg.T eb rs m s k v depth (.key ks) (old.map .val) _ s1 h1]
      unfold mds_topSpec
      rw [hcount]
      exact hg2
    rcases hsp : OMap.splitRootIfFull cfg.T (m1.promoteIfSingleChild s1.ctx).1 (m1.promoteIfSingleChild s1.ctx).2
      with e | ⟨m3, c3⟩
    · rw [hsp] at hfin
      obtain ⟨M', hr⟩ := hfin
      exact ⟨M', by rw [hgen, hr]⟩
    · rw [hsp] at hfin
      obtain ⟨s3, x3, hr, hc3, hp3, hpre3, hdl3⟩ := hfin
      refine ⟨s3, x3, by rw [hgen, hr], hc3, by rw [hp3, hp2, h3], hpre3, ?_⟩
      exact (hpost.delta.trans (hids1 ▸ hdl2)).trans hdl3

end

end

/-! ### the non-tail hypotheses are satisfiable: the concrete 2-child tree of `mdsEx` (threshold 40, model element layer)
    The tail hypotheses (and the counter monotonicity of the model's `MDataSlab.set`) stay hypotheses here: they are
    discharged by Props/TransMapRestruct*.lean for `rsOf T`. -/
namespace mdsEx

theorem ex_ff : mds_FreshFree (r := 0) cfg2.addr s2 := by
  intro id _ hlt
  have h0 : id ≠ id0 := fun e => by rw [e] at hlt; exact absurd hlt (by decide)
  have h1 : id ≠ id1 := fun e => by rw [e] at hlt; exact absurd hlt (by decide)
  have h2 : id ≠ id2 := fun e => by rw [e] at hlt; exact absurd hlt (by decide)
  show (if id = id0 then _ else if id = id1 then _ else if id = id2 then _ else none) = none
  rw [if_neg h0, if_neg h1, if_neg h2]

theorem ex_pathF : mds_PathF (r := 0) cfg2 kk vv (fun _ => True) (fun _ _ => True) 1 mm s2.ctx := by
  refine ⟨by decide, by decide, rfl, fun _ _ => trivial, d2, rfl, rfl, ⟨trivial, rfl, rfl⟩, ?_⟩
  intro ks old child' c1 h
  have hv := ex_child_ok
  rw [h] at hv
  simp only [Bool.and_eq_true, decide_eq_true_eq, Bool.not_eq_true', Option.isNone_iff_eq_none] at hv
  exact hv.1.1

example (rs : DRestruct 0) (hS : MSplitTail cfg2.T rs (fun _ _ => True)) (hM : MMorTail cfg2.T rs (fun _ _ => True))
    (hmono : ∀ (sl : MDataSlab 0) c ks old sl' c', MDataSlab.set cfg2 sl kk vv c = .ok (ks, old, sl', c') → c.ctr ≤ c'.ctr) :=
  Ob_MapSlab_Set_heap_of_tails eb2 rs cfg2 kk vv (fun _ => True) (fun _ _ => True) (eb2_spec kk vv) hS hM
    (fun _ _ _ _ _ _ _ _ _ => trivial) hmono (by decide) (by decide) (by decide) 1 1 mm (some xx) (some xx) s2
    (Nat.le_refl 1) ⟨rfl, fun c hc => by
      rcases List.mem_cons.mp hc with rfl | hc
      · rfl
      · rcases List.mem_cons.mp hc with rfl | hc
        · rfl
        · cases hc⟩ rfl (by decide) (by decide) ex_ff ex_pathF

end mdsEx

end Atree.TransEq
