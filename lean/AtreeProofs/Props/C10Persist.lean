import AtreeProofs.Props.C09W
import AtreeProofs.Props.C09WHist
import AtreeProofs.World.HeapWrites
import AtreeProofs.Props.C10WPopOps
/-
  C10 "… IS PERSISTED BY THE NEXT COMMIT" (and C03 for nested containers): the World model, its effect
  logs, and the storage state machine (`PersistentSlabStorage`: write set, cache, ledger; commit;
  reopen) tied together.  PROPERTY THEOREMS.

  Generic layer (any content function `K : SlabID → Option σ`):
  * `rep_step`           — if the storage represents `K` and the log `E` is a complete account of the
                           change from `K` to `K'`, running `E` (every store writing the content
                           `K'`) gives a storage that represents `K'`;
  * `rep_commit_reopen`  — a storage that represents `K`, after a fault-free commit of either kind
                           and a reopen on a brand-new storage over the same ledger (empty write
                           set, empty cache), still shows exactly `K`.

  World layer, with `K w := w.slabAt` (the heap of `AtreeProofs/WorldHeap.lean`: every slab of every
  standalone container, root slabs with their extra data):
  * `op_persisted`       — one World operation (with its whole callback chain), then commit, then
                           reopen: the new storage holds exactly the heap of the new world, which is
                           the heap of `w'.reopen` (`World.reopen`: all handles dropped);
  * `history_persisted`  — the same after ANY history from the empty world.

  WHAT IS AND IS NOT COVERED.  `w.slabAt id` is the slab with the elements AS THE PARENT STORES THEM:
  an element referring to a child is `{size, ref vid}` whether the child is inlined or standalone.
  So the theorems above say: after the commit the ledger holds every slab of every standalone
  container with the right elements, sizes, headers and extra data — in particular every change to a
  STANDALONE child and every inline <-> standalone flip is persisted.  For an INLINED child the
  bytes of the child travel inside the slab of its (outermost standalone) host; that this slab is
  re-stored whenever the inlined child changes is the statement `DeepStored` below.  It is proved
  here for everything the shallow account sees (any change of the child's size, of the element, of
  the form); the remaining case — the child's content changes while its inlined SIZE does not, and
  the parent is a multi-slab tree — needs the lemma "`Array.set` / `OrderedMap.set` store the data
  slab that holds the slot they write" about the core B+-tree code, which the C09 accounts (stated
  in terms of changed content) do not provide.  The deep statement is given in full
  (`DeepComplete`, `deep_op_persisted`) with that single hypothesis explicit.
-/
namespace Atree.C10Persist
open Atree Gen World St
open Atree.C09 (newEffects newCreated)

variable {σ β : Type}

/-! ### generic layer -/

/-- `E` is a complete account of the change from the content `K` to the content `K'` -/
structure Complete (K K' : SlabID → Option σ) (E : List Eff) : Prop where
  changed_stored : ∀ id, (K' id).isSome → K' id ≠ K id → lastAction E id = some true
  gone_removed : ∀ id, (K id).isSome → (K' id).isNone → lastAction E id = some false
  stored_in : ∀ id, lastAction E id = some true → (K' id).isSome
  removed_out : ∀ id, lastAction E id = some false → (K' id).isNone

/-- the storage shows exactly `K` (through write set, cache and ledger) -/
def Rep (c : Codec σ β) (s : St σ β) (K : SlabID → Option σ) : Prop :=
  ∀ id, id ≠ SlabID.undef → s.view c id = K id

/-- REP STEP -/
theorem rep_step (c : Codec σ β) (s : St σ β) (K K' : SlabID → Option σ) (E : List Eff)
    (hrep : Rep c s K) (h : Complete K K' E) : Rep c (WE2E.applyEffs c s K' E) K' := by
  intro id hid
  rw [WE2E.view_applyEffs c s K' E id hid (h.stored_in id)]
  cases hl : lastAction E id with
  | none =>
    simp only
    rw [hrep id hid]
    cases hk' : K' id with
    | none =>
      cases hk : K id with
      | none => rfl
      | some v =>
        have := h.gone_removed id (by rw [hk]; rfl) (by rw [hk']; rfl)
        rw [hl] at this; cases this
    | some v' =>
      by_cases he : K' id = K id
      · rw [← he, hk']
      · have := h.changed_stored id (by rw [hk']; rfl) he
        rw [hl] at this; cases this
  | some b =>
    cases b with
    | true => rfl
    | false =>
      have := h.removed_out id hl
      simp only
      cases hk' : K' id with
      | none => rfl
      | some v => rw [hk'] at this; cases this

theorem applyEffs_keeps_inv (c : Codec σ β) (hc : RoundTrip c) (s : St σ β) (K' : SlabID → Option σ) (E : List Eff)
    (hI : Inv c s) : Inv c (WE2E.applyEffs c s K' E) :=
  WE2E.applyEffs_inv c hc s K' E hI

/-- COMMIT, REOPEN: the new storage shows exactly `K` -/
theorem rep_commit_reopen (c : Codec σ β) (hc : RoundTrip c) (s : St σ β) (K : SlabID → Option σ)
    (hrep : Rep c s K) (hI : Inv c s) (henc : NoEncodeFailure c s)
    (kind : CommitKind) (mo dlo : List SlabID) :
    (St.step c s (.commit kind [] mo dlo)).2 = .unit ∧
    let reopened := St.run c s [.commit kind [] mo dlo, .recreate]
    reopened.deltas = [] ∧ reopened.cache = [] ∧ Inv c reopened ∧
    ∀ id, id.isTemp = false → reopened.view c id = K id := by
  have hfp : ∀ n, faultPlan [] n = false := fun n => by simp [faultPlan]
  obtain ⟨g1, g2, _⟩ := commitW_complete c hc kind (faultPlan []) hfp mo dlo s hI henc
  obtain ⟨h1, h2, _⟩ := commitW_spec c hc kind (faultPlan []) mo dlo s hI
  have hrun : St.run c s [.commit kind [] mo dlo, .recreate] =
      (St.fresh (commitW c kind (faultPlan []) mo dlo s).st.base
        (commitW c kind (faultPlan []) mo dlo s).st.alloc : St σ β) := by
    simp only [St.run, List.foldl_cons, List.foldl_nil, step_commit]
    rfl
  refine ⟨by rw [step_commit, g1], ?_⟩
  intro reopened
  have hre : reopened = _ := hrun
  refine ⟨by rw [hre]; rfl, by rw [hre]; rfl, by rw [hre]; exact inv_fresh c _ h1, ?_⟩
  intro id ht
  have hne : id ≠ SlabID.undef := by
    intro e; rw [e] at ht; simp [SlabID.isTemp, SlabID.undef] at ht
  rw [hre, view_fresh, ← hrep id hne]
  exact h2.committed_eq_view h1 g2 id ht

/-! ### the World: shallow content (the heap of `WorldHeap.lean`) -/

/-- a complete World account (no large-value slab created) is a complete account of `slabAt` -/
theorem complete_of_world {w w' : World} {E : List Eff} (h : WEffectsComplete w w' E []) :
    Complete w.slabAt w'.slabAt E := by
  refine ⟨h.changed_stored, h.gone_removed, ?_, h.removed_not_in_heap⟩
  intro id hl
  rcases h.stored_in_heap id hl with h1 | h1
  · exact h1
  · cases h1

/-- every heap slab is owned by the world's (non-temporary) address -/
theorem heap_not_temp {w : World} {ctr : Nat} (Hh : HeapOk w ctr) (ha : w.addr ≠ 0) (id : SlabID)
    (h : (w.slabAt id).isSome) : id.isTemp = false := by
  have := (World.slabAt_isSome w id).1 h
  obtain ⟨x, c, hx, hm⟩ := this
  have := Hh.addr x c id hx (c.heapIds_sub_treeIds id hm)
  simp [SlabID.isTemp, this, ha]

/-- ONE OPERATION, THEN COMMIT, THEN REOPEN.  `hpost` is what every operation theorem of C09W
    delivers (`*_effects_complete`); `hcr`: the operation created no large-value slab. -/
theorem op_persisted (c : Codec WSlab β) (hc : RoundTrip c) (s : St WSlab β) (w w' : World) (cx cx' : Ctx)
    (hrep : Rep c s w.slabAt) (hI : Inv c s)
    (hcomp : WEffectsComplete w w' (newEffects cx cx') (newCreated cx cx')) (hcr : newCreated cx cx' = [])
    (kind : CommitKind) (mo dlo : List SlabID) :
    let s' := WE2E.applyEffs c s w'.slabAt (newEffects cx cx')
    Rep c s' w'.slabAt ∧ Inv c s' ∧
    (NoEncodeFailure c s' →
      (St.step c s' (.commit kind [] mo dlo)).2 = .unit ∧
      let reopened := St.run c s' [.commit kind [] mo dlo, .recreate]
      reopened.deltas = [] ∧ reopened.cache = [] ∧
      ∀ id, id.isTemp = false → reopened.view c id = w'.reopen.slabAt id) := by
  intro s'
  rw [hcr] at hcomp
  have hrep' : Rep c s' w'.slabAt := rep_step c s _ _ _ hrep (complete_of_world hcomp)
  have hI' : Inv c s' := applyEffs_keeps_inv c hc s _ _ hI
  refine ⟨hrep', hI', fun henc => ?_⟩
  obtain ⟨k1, k2⟩ := rep_commit_reopen c hc s' _ hrep' hI' henc kind mo dlo
  refine ⟨k1, ?_⟩
  intro reopened
  obtain ⟨k3, k4, _, k5⟩ := k2
  exact ⟨k3, k4, fun id ht => by rw [k5 id ht]; rfl⟩

/-! ### histories run against the storage -/

/-- a history of World operations (`C09W.Hist`) together with the storage it was run against:
    every operation's storage calls are applied to the storage state machine -/
inductive HistS (D : SlabID → DigestFn 4) (c : Codec WSlab β) : World → Ctx → St WSlab β → Prop
  | new (T addr : Nat) (hT : legalThreshold T = true) : HistS D c { T := T, addr := addr } ⟨0, [], []⟩ St.init
  | step {w cx s w' cx'} : HistS D c w cx s → C09W.Hist D w' cx' →
      WEffectsComplete w w' (newEffects cx cx') (newCreated cx cx') → newCreated cx cx' = [] →
      HistS D c w' cx' (WE2E.applyEffs c s w'.slabAt (newEffects cx cx'))
  | commit {w cx s} (kind : CommitKind) (faults : List Nat) (mo dlo : List SlabID) : HistS D c w cx s →
      HistS D c w cx (St.step c s (.commit kind faults mo dlo)).1

/-- ANY HISTORY, WITH COMMITS (failing or not) ANYWHERE: the storage represents the heap of the world
    and satisfies the storage invariant; hence (`rep_commit_reopen`) a successful commit followed by
    a reopen yields exactly the heap of `w.reopen`. -/
theorem history_persisted (D : SlabID → DigestFn 4) (c : Codec WSlab β) (hc : RoundTrip c)
    (w : World) (cx : Ctx) (s : St WSlab β) (h : HistS D c w cx s) :
    Rep c s w.slabAt ∧ Inv c s ∧
    ∀ (kind : CommitKind) (mo dlo : List SlabID), NoEncodeFailure c s →
      (St.step c s (.commit kind [] mo dlo)).2 = .unit ∧
      let reopened := St.run c s [.commit kind [] mo dlo, .recreate]
      reopened.deltas = [] ∧ reopened.cache = [] ∧
      ∀ id, id.isTemp = false → reopened.view c id = w.reopen.slabAt id := by
  have key : Rep c s w.slabAt ∧ Inv c s := by
    induction h with
    | new T addr hT =>
      refine ⟨?_, inv_init c⟩
      intro id _
      have h1 : (St.init : St WSlab β).view c id = none := by simp [St.view, St.init, St.fresh]
      rw [h1]
      have : ¬ ({ T := T, addr := addr } : World).InHeap id := by
        rintro ⟨x, cc, hx, _⟩; cases hx
      have := (World.slabAt_isNone _ id).2 this
      cases hs : ({ T := T, addr := addr } : World).slabAt id with
      | none => rfl
      | some _ => rw [hs] at this; cases this
    | step _ _ hcomp hcr ih =>
      obtain ⟨h1, h2⟩ := ih
      rw [hcr] at hcomp
      exact ⟨rep_step c _ _ _ _ h1 (complete_of_world hcomp), applyEffs_keeps_inv c hc _ _ _ h2⟩
    | commit kind faults mo dlo _ ih =>
      obtain ⟨h1, h2⟩ := ih
      rw [step_commit]
      obtain ⟨k1, k2, _⟩ := commitW_spec c hc kind (faultPlan faults) mo dlo _ h2
      exact ⟨fun id hid => by rw [k2.view id]; exact h1 id hid, k1⟩
  refine ⟨key.1, key.2, fun kind mo dlo henc => ?_⟩
  obtain ⟨k1, k2⟩ := rep_commit_reopen c hc s _ key.1 key.2 henc kind mo dlo
  refine ⟨k1, ?_⟩
  intro reopened
  obtain ⟨k3, k4, _, k5⟩ := k2
  exact ⟨k3, k4, fun id ht => by rw [k5 id ht]; rfl⟩

/-! ### the deep statement: inlined children travel inside the slab of their host -/

/-- the elements stored in one slab (for a map data slab: its single elements and inline collision
    groups — the elements of an EXTERNAL group are in the group's own slab) -/
def localVals : (r : Nat) → MElems r → List Elem
  | 0, (e : SingleElems) => e.elems.map (·.val)
  | r + 1, (he : HkeyElems (MElems r)) =>
    he.elems.flatMap (fun el =>
      match el with
      | .single x => [x.val]
      | .inl g => localVals r g
      | .ext _ _ _ => [])

def slabElems : WSlab → List Elem
  | .arr (.data s) _ => s.elems
  | .arr (.index ..) _ => []
  | .map (.data s) _ => localVals 4 s.elems
  | .map (.index ..) _ => []
  | .map (.group g) _ => localVals 3 g.elems

/-- container `x` is INLINED and embedded, directly or through other inlined containers, in a slab
    whose elements are `es` -/
inductive EmbIn (w : World) : List Elem → SlabID → Prop
  | direct {es : List Elem} {e : Elem} {x : SlabID} {cx : Cont} : e ∈ es → e.pay = .ref x → w.cont? x = some cx →
      cx.isInlined = true → EmbIn w es x
  | nested {es : List Elem} {y x : SlabID} {cy : Cont} : EmbIn w es y → w.cont? y = some cy →
      EmbIn w cy.storedElems x → EmbIn w es x

/-- THE DEEP CONTENT of the slab stored under `id`: the slab and every inlined container embedded in
    it (each with its whole content) — what the bytes of the register encode -/
noncomputable def deepAt (w : World) (id : SlabID) : Option (WSlab × (SlabID → Option Cont)) :=
  (w.slabAt id).map (fun s => (s, fun x => by
    classical exact if EmbIn w (slabElems s) x then w.cont? x else none))

/-- the hypothesis about the core `set` operations that the deep statement needs: a slab that is
    still in the heap with the same (shallow) content, but in which an embedded inlined container
    changed, was stored -/
def DeepStored (w w' : World) (E : List Eff) : Prop :=
  ∀ id, (w'.slabAt id).isSome → w'.slabAt id = w.slabAt id → (deepAt w') id ≠ (deepAt w) id → lastAction E id = some true

/-- with `DeepStored`, a complete World account is a complete account of the DEEP content -/
theorem deepComplete_of {w w' : World} {E : List Eff} (h : WEffectsComplete w w' E []) (hd : DeepStored w w' E) :
    Complete (deepAt w) (deepAt w') E := by
  have hsome : ∀ (v : World) id, ((deepAt v) id).isSome = (v.slabAt id).isSome := by
    intro v id; unfold deepAt; cases v.slabAt id <;> rfl
  have hnone : ∀ (v : World) id, ((deepAt v) id).isNone = (v.slabAt id).isNone := by
    intro v id; unfold deepAt; cases v.slabAt id <;> rfl
  refine ⟨?_, ?_, ?_, ?_⟩
  · intro id h1 h2
    rw [hsome] at h1
    by_cases he : w'.slabAt id = w.slabAt id
    · exact hd id h1 he h2
    · exact h.changed_stored id h1 he
  · intro id h1 h2
    rw [hsome] at h1; rw [hnone] at h2
    exact h.gone_removed id h1 h2
  · intro id hl
    rw [hsome]
    rcases h.stored_in_heap id hl with h1 | h1
    · exact h1
    · cases h1
  · intro id hl
    rw [hnone]
    exact h.removed_not_in_heap id hl

/-- DEEP: one operation, commit, reopen — the new storage holds, for every heap slab, the slab AND
    the full content of every inlined container embedded in it, as of the new world. -/
theorem deep_op_persisted (c : Codec (WSlab × (SlabID → Option Cont)) β) (hc : RoundTrip c)
    (s : St (WSlab × (SlabID → Option Cont)) β) (w w' : World) (E : List Eff)
    (hrep : Rep c s (deepAt w)) (hI : Inv c s) (hcomp : WEffectsComplete w w' E []) (hdeep : DeepStored w w' E)
    (kind : CommitKind) (mo dlo : List SlabID) :
    let s' := WE2E.applyEffs c s (deepAt w') E
    Rep c s' (deepAt w') ∧ Inv c s' ∧
    (NoEncodeFailure c s' →
      (St.step c s' (.commit kind [] mo dlo)).2 = .unit ∧
      let reopened := St.run c s' [.commit kind [] mo dlo, .recreate]
      reopened.deltas = [] ∧ reopened.cache = [] ∧
      ∀ id, id.isTemp = false → reopened.view c id = (deepAt w') id) := by
  intro s'
  have hrep' : Rep c s' (deepAt w') := rep_step c s _ _ _ hrep (deepComplete_of hcomp hdeep)
  have hI' : Inv c s' := applyEffs_keeps_inv c hc s _ _ hI
  refine ⟨hrep', hI', fun henc => ?_⟩
  obtain ⟨k1, k2⟩ := rep_commit_reopen c hc s' _ hrep' hI' henc kind mo dlo
  exact ⟨k1, k2.1, k2.2.1, k2.2.2.2⟩

/-
  FULL-STRENGTH STATEMENT (NOT PROVED): `deep_op_persisted` WITHOUT the hypothesis `hdeep`, i.e.

    theorem deepStored_of_op : (every operation `op` of the World model, under `WorldOk'`, `HeapOk`, valid values)
        op w … cx = .ok (…, w', cx') → DeepStored w w' (newEffects cx cx')

  What is missing is one lemma about the container cores, for arrays and for maps: a successful
  `Arr.set T a i v c = .ok (old, a', c')` on a standalone valid array stores the data slab of `a'`
  that holds position `i` (`lastAction (newEffects c c') id = some true`), whatever `v` is — also
  when `v` equals the element it overwrites (the C09 accounts only speak about slabs whose content
  changed).  With it, `DeepStored` follows along the callback chain exactly as `WAcct` does in
  `World/HeapNotify.lean`.  `history_persisted` / `op_persisted` above are the part that is proved
  unconditionally (PARTIAL with respect to the deep statement); the real code at the excluded point:
  `harness/cmd/probe_deepstored` (persisted in all scenarios).
-/

end Atree.C10Persist
