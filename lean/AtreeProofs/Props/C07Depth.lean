import AtreeProofs.Codec.VDepthSlab
import AtreeProofs.Props.C07
/-
  C07 — the nesting limit of the CBOR validator, EXACTLY (audit item A1).

  The round-trip theorems of C07 for slabs with inlined children carry a nesting hypothesis; the older
  ones (`MapDataOKC.nest`, `ArrDataOKC.nest`, …) phrase it with `vneedI`, which charges 3 levels per
  inlined array and 5 per inlined map where the library's validator needs 2 and 4.  Here the hypothesis
  is `Slab.vdepth ≤ maxNestedLevels` (`Slab.vdepth`: AtreeModel/Codec/Limits.lean — one level per
  definite-length array, one per tag number that DIRECTLY follows a tag number), it is implied by the
  old one, and it is TIGHT: with every other hypothesis in place a register whose `vdepth` exceeds the
  limit does not decode (`decode_rejects_too_deep_*`), so the register decodes iff `vdepth ≤ 32`
  (`decodes_iff_depth_*`).

  `maxNestedLevels` is the model constant 32 = `MaxNestedLevels` of the default `cbor.DecOptions{}` the
  library and the harness decode with; that the storage's `DecMode` has this limit is an ASSUMPTION
  ABOUT THE CALLER (a `DecMode` with a larger limit accepts deeper registers; the validator model
  `wfRun` is stated for the constant, not generalised over the limit).

  Consequence the audit observed on the real library, now a theorem of the model: 16 nested inlined
  arrays / 8 nested inlined maps are encoded (and commit) but do not reload — `nesting_bound_tight_*`.
-/
namespace Atree.C07
open Atree Atree.Codec Atree.Gen

/-! ### Part 1: exact acceptance of the element encodings -/

/-- The validator accepts what the element encoders write EXACTLY up to the depth `vd`: started at an
    item frame of depth `d` (within the limit) it accepts the bytes iff `d + vd ≤ 32`, where for a
    storable `vd` depends on whether the item directly follows a tag number. -/
theorem validator_exact :
    (∀ (s : Stor) (xs : List XD), s.RTI → s.nodupKeys → ExX (encSt s xs).1 s.vd) ∧
    (∀ (els : MEls) (xs : List XD), els.RTI → els.nodupKeys → ExX (encMEls els xs).1 (fun _ => els.vd)) ∧
    (∀ (e : MEl) (xs : List XD), e.RTI → e.nodupKeys → ExF (encMEl e xs).1 e.vd) ∧
    (∀ (e : SEl) (xs : List XD), e.RTI → e.nodupKeys → ExX (encSEl e xs).1 (fun _ => e.vd)) ∧
    (∀ (l : List Stor), rtiSts l → nodupKeysSts l → l.length < 65536 →
      ExX (arrayHead16 l.length ++ (encSts l []).1) (fun _ => vdSts l + 1)) :=
  ⟨exStX, exMElsX, exMElX, exSElX, exX_arrElements⟩

/-- As the next top-level item of a stream decoder (`prepareNext`): validated iff `vd false ≤ 32`. -/
theorem validates_iff_depth (s : Stor) (xs : List XD) (h : s.RTI) (nd : s.nodupKeys) (rest : Bytes) :
    wfNext ((encSt s xs).1 ++ rest) = some rest ↔ s.vd false ≤ maxNestedLevels :=
  wfNext_exX_iff (exStX s xs h nd) rest

/-- The exact depth never exceeds the older over-approximation, so every theorem stated with `vneedI`
    follows from its `vdepth` version. -/
theorem vdepth_le_vneed :
    (∀ (s : Stor) (t : Bool), s.vd t ≤ s.vneedI) ∧ (∀ (els : MEls), els.vd ≤ els.vneedI) ∧
    (∀ (l : List Stor), vdSts l ≤ vneedISts l) ∧
    (∀ (s : MapData), s.els.vneedI ≤ maxNestedLevels → (Slab.mdata s).vdepth ≤ maxNestedLevels) ∧
    (∀ (a : ArrData), vneedISts a.elems + 1 ≤ maxNestedLevels → (Slab.adata a).vdepth ≤ maxNestedLevels) := by
  refine ⟨Stor.vd_le_vneedI, MEls.vd_le_vneedI, vdSts_le_vneedI, ?_, ?_⟩
  · intro s h
    exact (vdepth_mdata_le_iff s (by decide)).2 (Nat.le_trans (MEls.vd_le_vneedI s.els) h)
  · intro a h
    exact (vdepth_adata_le_iff a (by decide)).2 (by have := vdSts_le_vneedI a.elems; omega)

/-- the hypotheses of the older theorems imply the new ones -/
theorem okc_implies_okx : (∀ s, MapDataOKC s → MapDataOKX s) ∧ (∀ a, ArrDataOKC a → ArrDataOKX a) :=
  ⟨fun _ ok => ok.toX, fun _ ok => ok.toX⟩

/-- … also those of the theorems for slabs without the compact form (`noCompact` implies `nodupKeys`) -/
theorem oki_implies_okx : (∀ s, MapDataOKI s → MapDataOKX s) ∧ (∀ a, ArrDataOKI a → ArrDataOKX a) :=
  ⟨fun _ ok => ok.toX, fun _ ok => ok.toX⟩

/-- The validator depth also pays for the depth of the harness's `decodeStorable` recursion (limit
    `maxDecodeDepth = 64`): no separate hypothesis is needed for it. -/
theorem decode_depth_le_vdepth :
    (∀ (s : Stor), s.dneed ≤ s.vd true ∧ s.vd true ≤ s.vd false + 1) ∧
    (∀ (els : MEls), els.dneed ≤ els.vd) ∧ (∀ (l : List Stor), dneedSts l ≤ vdSts l + 1) :=
  ⟨fun s => ⟨Stor.dneed_le_vd s, Stor.vd_true_le s⟩, MEls.dneed_le_vd, dneedSts_le_vd⟩

/-! ### Part 2: round trip under the exact bound -/

/-- Decoding the encoding of a map data / collision-group slab whose elements contain inlined slabs
    in any form gives the slab with its elements as `normMEls` describes them, provided the validator
    depth of the register is within the limit. -/
theorem decode_encode_mdata_exact (s : MapData) (ok : MapDataOKX s) (n : Nat) :
    decodeSlab s.id (encodeMapData s) n
      = .ok (.mdata { s with els := normMEls s.els [] })
          (n + iedAllocsC (encMEls s.els []).2 + (normMEls s.els []).allocsI) := by
  have := decodeSlab_encodeMapDataX s ok [] n
  simpa using this

/-- The same for an array data slab. -/
theorem decode_encode_adata_exact (a : ArrData) (ok : ArrDataOKX a) (n : Nat) :
    decodeSlab a.id (encodeArrData a) n
      = .ok (.adata { a with elems := normSts a.elems [] })
          (n + iedAllocsC (encSts a.elems []).2 + a.elems.length + allocsISts (normSts a.elems [])) := by
  have := decodeSlab_encodeArrDataX a ok [] n
  simpa using this

/-- Without compact maps the slab itself comes back (the exact-bound version of
    `decode_encode_mdata_inlined` / `decode_encode_adata_inlined`). -/
theorem decode_encode_mdata_inlined_exact (s : MapData) (ok : MapDataOKX s) (nc : s.els.noCompact) (n : Nat) :
    decodeSlab s.id (encodeMapData s) n
      = .ok (.mdata s) (n + iedAllocsC (encMEls s.els []).2 + s.els.allocsI) := by
  have := decode_encode_mdata_exact s ok n
  rw [normMEls_noCompact s.els [] nc] at this
  exact this

theorem decode_encode_adata_inlined_exact (a : ArrData) (ok : ArrDataOKX a) (nc : noCompactSts a.elems) (n : Nat) :
    decodeSlab a.id (encodeArrData a) n
      = .ok (.adata a) (n + iedAllocsC (encSts a.elems []).2 + a.elems.length + allocsISts a.elems) := by
  have := decode_encode_adata_exact a ok n
  rw [normSts_noCompact a.elems [] nc] at this
  exact this

/-- … and followed by extra bytes it is rejected. -/
theorem decode_rejects_trailing_adata_exact (a : ArrData) (ok : ArrDataOKX a) (extra : Bytes)
    (hex : extra ≠ []) (n : Nat) :
    decodeSlab a.id (encodeArrData a ++ extra) n
      = .error .decoding (n + iedAllocsC (encSts a.elems []).2 + a.elems.length + allocsISts (normSts a.elems [])) := by
  rw [decodeSlab_encodeArrDataX a ok extra n, if_pos hex]

/-- Re-encoding whatever the decoder returns for the register yields the identical byte string. -/
theorem reencode_fixpoint_mdata_exact (s : MapData) (ok : MapDataOKX s) (n : Nat) (s' : Slab) (k : Nat)
    (h : decodeSlab s.id (encodeMapData s) n = .ok s' k) : encodeSlab s' = encodeMapData s := by
  rw [decode_encode_mdata_exact s ok n] at h
  cases h
  exact encodeMapData_normX s ok.pre

theorem reencode_fixpoint_adata_exact (a : ArrData) (ok : ArrDataOKX a) (n : Nat) (s' : Slab) (k : Nat)
    (h : decodeSlab a.id (encodeArrData a) n = .ok s' k) : encodeSlab s' = encodeArrData a := by
  rw [decode_encode_adata_exact a ok n] at h
  cases h
  exact encodeArrData_normX a ok.pre

/-! ### Part 3: tightness — one level above the bound the register does not decode -/

/-- A map data slab that meets every hypothesis of `decode_encode_mdata_exact` except the nesting bound
    does NOT decode: after the extra-data sections (hence the allocation count) the validation of the
    elements item fails. -/
theorem decode_rejects_too_deep_mdata (s : MapData) (pre : MapDataPre s)
    (h : maxNestedLevels < (Slab.mdata s).vdepth) (n : Nat) :
    decodeSlab s.id (encodeMapData s) n = .error .decoding (n + iedAllocsC (encMEls s.els []).2) := by
  have := decodeSlab_encodeMapData_tooDeep s pre h [] n
  simpa using this

theorem decode_rejects_too_deep_adata (a : ArrData) (pre : ArrDataPre a)
    (h : maxNestedLevels < (Slab.adata a).vdepth) (n : Nat) :
    decodeSlab a.id (encodeArrData a) n = .error .decoding (n + iedAllocsC (encSts a.elems []).2) := by
  have := decodeSlab_encodeArrData_tooDeep a pre h [] n
  simpa using this

/-- the statement in the form of the work order -/
theorem decode_rejects_too_deep_mdata_exists (s : MapData) (pre : MapDataPre s)
    (h : maxNestedLevels < (Slab.mdata s).vdepth) (n : Nat) :
    ∃ e k, decodeSlab s.id (encodeMapData s) n = .error e k :=
  ⟨_, _, decode_rejects_too_deep_mdata s pre h n⟩

theorem decode_rejects_too_deep_adata_exists (a : ArrData) (pre : ArrDataPre a)
    (h : maxNestedLevels < (Slab.adata a).vdepth) (n : Nat) :
    ∃ e k, decodeSlab a.id (encodeArrData a) n = .error e k :=
  ⟨_, _, decode_rejects_too_deep_adata a pre h n⟩

/-- The register of a map data slab decodes IFF its validator depth is within the limit. -/
theorem decodes_iff_depth_mdata (s : MapData) (pre : MapDataPre s) (n : Nat) :
    (∃ s' k, decodeSlab s.id (encodeMapData s) n = .ok s' k) ↔ (Slab.mdata s).vdepth ≤ maxNestedLevels := by
  constructor
  · rintro ⟨s', k, hd⟩
    by_cases hc : (Slab.mdata s).vdepth ≤ maxNestedLevels
    · exact hc
    · rw [decode_rejects_too_deep_mdata s pre (by omega) n] at hd; cases hd
  · intro hc
    exact ⟨_, _, decode_encode_mdata_exact s ⟨pre.rt, pre.nodup, hc, pre.entries, pre.next, pre.extra, pre.size⟩ n⟩

theorem decodes_iff_depth_adata (a : ArrData) (pre : ArrDataPre a) (n : Nat) :
    (∃ s' k, decodeSlab a.id (encodeArrData a) n = .ok s' k) ↔ (Slab.adata a).vdepth ≤ maxNestedLevels := by
  constructor
  · rintro ⟨s', k, hd⟩
    by_cases hc : (Slab.adata a).vdepth ≤ maxNestedLevels
    · exact hc
    · rw [decode_rejects_too_deep_adata a pre (by omega) n] at hd; cases hd
  · intro hc
    exact ⟨_, _, decode_encode_adata_exact a
      ⟨pre.rt, pre.nodup, hc, pre.count, pre.inlined, pre.entries, pre.next, pre.ty, pre.size⟩ n⟩

/-! ### Part 4: the concrete families (non-vacuity of both directions)

  `arrNest k`: `k` inlined arrays inside one another around a plain value; `mapNest k`: `k` inlined maps
  inside one another (plain type, so never the compact form).  The audit's experiment on the real
  library (`./exp B 1024 16`, `./exp C 1024 8`): 16 nested arrays / 8 nested maps commit and do not
  reload. -/

def arrNest : Nat → List Stor
  | 0 => [.val 2 7]
  | k + 1 => [.arr (.plain 1) (k + 2) (arrNest k)]

def mapNest : Nat → MEls
  | 0 => .hkey 0 [5] [.single (.mk (.val 2 1) (.val 2 7))]
  | k + 1 => .hkey 0 [5] [.single (.mk (.val 2 1) (.map ⟨.plain 1, 1, 9⟩ (k + 2) (mapNest k)))]

/-- a root array data slab holding `arrNest k` -/
def ad (k : Nat) : ArrData := { id := ⟨1, 1⟩, next := SlabID.undef, ty := some (.plain 1), elems := arrNest k }
/-- a root map data slab holding `mapNest k` -/
def md (k : Nat) : MapData :=
  { id := ⟨1, 1⟩, next := SlabID.undef, extra := some ⟨.plain 1, 1, 9⟩, els := mapNest k, anySize := false, group := false }

theorem length_arrNest : ∀ k, (arrNest k).length = 1
  | 0 => rfl
  | _ + 1 => rfl

theorem vdSts_arrNest : ∀ k, vdSts (arrNest k) = 2 * k
  | 0 => by decide
  | k + 1 => by simp only [arrNest, vdSts, Stor.vd, vdSts_arrNest k]; simp; omega

theorem vneedISts_arrNest : ∀ k, vneedISts (arrNest k) = 1 + 3 * k
  | 0 => by decide
  | k + 1 => by simp only [arrNest, vneedISts, Stor.vneedI, vneedISts_arrNest k]; omega

theorem sizeSts_arrNest : ∀ k, sizeSts (arrNest k) = 2 + 17 * k
  | 0 => by decide
  | k + 1 => by
    simp only [arrNest, sizeSts, Stor.size, sizeSts_arrNest k, inlinedArrayDataSlabPrefixSize]; omega

theorem validElem_2_7 : validElem { size := 2, pay := .val 7 } := by decide
theorem validElem_2_1 : validElem { size := 2, pay := .val 1 } := by decide

theorem rtiSts_arrNest : ∀ k, k < 2 ^ 20 → rtiSts (arrNest k)
  | 0, _ => ⟨validElem_2_7, trivial⟩
  | k + 1, hk => by
    refine ⟨⟨?_, ?_, ?_, rtiSts_arrNest k (by omega), ?_⟩, trivial⟩
    · show (1 : Nat) < 2 ^ 64; decide
    · omega
    · rw [length_arrNest]; decide
    · rw [sizeSts_arrNest]; simp only [inlinedArrayDataSlabPrefixSize, maxUint32]; omega

theorem nodupKeysSts_arrNest : ∀ k, nodupKeysSts (arrNest k)
  | 0 => ⟨trivial, trivial⟩
  | k + 1 => ⟨nodupKeysSts_arrNest k, trivial⟩

theorem addArrayXD_plain1 : addArrayXD [.arr (.plain 1)] (.plain 1) = (0, [.arr (.plain 1)]) := by decide

theorem encSts_arrNest_state : ∀ k, (encSts (arrNest k) [.arr (.plain 1)]).2 = [.arr (.plain 1)]
  | 0 => rfl
  | k + 1 => by
    simp only [arrNest, encSts, encSt, addArrayXD_plain1]
    exact encSts_arrNest_state k

theorem encSts_arrNest_xs (k : Nat) : (encSts (arrNest (k + 1)) []).2 = [.arr (.plain 1)] := by
  have h0 : addArrayXD [] (.plain 1) = (0, [.arr (.plain 1)]) := by decide
  simp only [arrNest, encSts, encSt, h0]
  exact encSts_arrNest_state k

theorem arrDataPre_ad (k : Nat) (hk : k + 1 < 2 ^ 20) : ArrDataPre (ad (k + 1)) where
  rt := rtiSts_arrNest (k + 1) hk
  nodup := nodupKeysSts_arrNest (k + 1)
  count := by show (arrNest (k + 1)).length < 65536; rw [length_arrNest]; decide
  inlined := by show (encSts (arrNest (k + 1)) []).2 ≠ []; rw [encSts_arrNest_xs]; simp
  entries := by show (encSts (arrNest (k + 1)) []).2.length ≤ 256; rw [encSts_arrNest_xs]; decide
  next := by show (SlabID.undef.addr < 2 ^ 64 ∧ SlabID.undef.idx < 2 ^ 64); decide
  ty := by intro t ht; cases ht; show (1 : Nat) < 2 ^ 64; decide
  size := by
    show (ad (k + 1)).size ≤ maxUint32
    simp only [ArrData.size, ad, Option.isSome_some, ↓reduceIte, sizeSts_arrNest, arrayRootDataSlabPrefixSize, maxUint32]
    omega

theorem vdepth_ad_le_iff (k : Nat) : (Slab.adata (ad k)).vdepth ≤ maxNestedLevels ↔ k ≤ 15 := by
  rw [vdepth_adata_le_iff (ad k) (by decide)]
  show vdSts (arrNest k) + 1 ≤ maxNestedLevels ↔ k ≤ 15
  rw [vdSts_arrNest]; simp only [maxNestedLevels]; omega

/-- `k = 0`: no inlined child at all — the register is that of a plain data slab (first part of the model) -/
def ad0Flat : DataSlab :=
  { hdr := ⟨⟨1, 1⟩, arrayRootDataSlabPrefixSize + 2, 1⟩, next := SlabID.undef, elems := [⟨2, .val 7⟩], root := true,
    inlined := false }

theorem encode_ad0 : encodeArrData (ad 0) = encodeDataSlab (.plain 1) ad0Flat := by decide

theorem ad0_decodes (n : Nat) : ∃ s' m, decodeSlab (ad 0).id (encodeArrData (ad 0)) n = .ok s' m := by
  rw [encode_ad0]
  refine ⟨_, _, decode_encode_data (.plain 1) ad0Flat ?_ n⟩
  refine ⟨?_, by decide, rfl, rfl, by decide, by decide,
    (by show (SlabID.undef.addr < 2 ^ 64 ∧ SlabID.undef.idx < 2 ^ 64); decide),
    fun _ => (by show (1 : Nat) < 2 ^ 64; decide)⟩
  intro e he
  simp only [ad0Flat, List.mem_cons, List.not_mem_nil, or_false] at he
  subst he; exact validElem_2_7

/-- the element array of `ad k` needs exactly `2 k + 1` levels — directly by induction on `k`, for EVERY `k`
    (the general theorem asks for sizes within `uint32`, which the validator does not look at) -/
theorem exX_arrNest : ∀ (k : Nat) (xs : List XD),
    ExX (arrayHead16 (arrNest k).length ++ (encSts (arrNest k) xs).1) (fun _ => 2 * k + 1)
  | 0, xs => by
    have hleaf := (exX_encodeVal 2 7 validElem_2_7).toF
    have := ExX.array16 (l := [((encodeElem { size := 2, pay := .val 7 }), 0)]) (N := 0) (by decide)
      (by intro p hp; simp only [List.mem_cons, List.not_mem_nil, or_false] at hp; subst hp; exact hleaf.cast rfl (by decide))
      ⟨by intro p hp; simp only [List.mem_cons, List.not_mem_nil, or_false] at hp; subst hp; exact Nat.le_refl _,
       Or.inl rfl⟩
    exact this.cast (by simp [arrNest, encSts, encSt]) (fun _ => rfl)
  | k + 1, xs => by
    have ih := exX_arrNest k (addArrayXD xs (.plain 1)).2
    have hin := (exX_inlined CBORTagInlinedArray (addArrayXD xs (.plain 1)).1 (k + 2) ih.toF).toF
    have := ExX.array16
      (l := [(inlinedHead CBORTagInlinedArray (addArrayXD xs (.plain 1)).1 ++ encodeIdx (k + 2) ++
              (arrayHead16 (arrNest k).length ++ (encSts (arrNest k) (addArrayXD xs (.plain 1)).2).1), 2 * k + 1 + 1)])
      (N := 2 * k + 1 + 1) (by simp)
      (by intro p hp; simp only [List.mem_cons, List.not_mem_nil, or_false] at hp; subst hp
          exact hin.cast rfl (by simp))
      ⟨by intro p hp; simp only [List.mem_cons, List.not_mem_nil, or_false] at hp; subst hp; exact Nat.le_refl _,
       Or.inr ⟨_, List.mem_cons_self .., rfl⟩⟩
    exact this.cast (by simp [arrNest, encSts, encSt, List.append_assoc]) (fun _ => by omega)

/-- 16 or more nested arrays — ANY number: the register is rejected -/
theorem ad_rejected (k : Nat) (hk : 16 ≤ k) (n : Nat) :
    decodeSlab (ad k).id (encodeArrData (ad k)) n = .error .decoding (n + 1) := by
  obtain ⟨j, rfl⟩ : ∃ j, k = j + 1 := ⟨k - 1, by omega⟩
  have hx : (encSts (ad (j + 1)).elems []).2 = [.arr (.plain 1)] := encSts_arrNest_xs j
  have hxok : XOKC (encSts (ad (j + 1)).elems []).2 := by
    rw [hx]; exact XOKC.single (by show (1 : Nat) < 2 ^ 64; decide)
  have hw := wfNext_none_of_exX (exX_arrNest (j + 1) []) (by simp only [maxNestedLevels]; omega) []
  have hred := decodeSlab_encodeArrData_red' (ad (j + 1)) hxok (by rw [hx]; simp) (by rw [hx]; decide)
    (by show (SlabID.undef.addr < 2 ^ 64 ∧ SlabID.undef.idx < 2 ^ 64); decide)
    (by intro t ht; cases ht; show (1 : Nat) < 2 ^ 64; decide) [] n
  simp only [List.append_nil] at hred hw
  rw [hred, hx]
  exact arrDataContentG_rej _ _ _ _ _ _ _ (by simp [arrayDataSlabElementHeadSize, length_arrayHead16]) hw _

/-- `k` nested inlined arrays, for EVERY `k`: the register decodes iff `k ≤ 15` (the library commits 16 and
    fails to reload them). -/
theorem nesting_bound_tight_arrays (k : Nat) (n : Nat) :
    (∃ s' m, decodeSlab (ad k).id (encodeArrData (ad k)) n = .ok s' m) ↔ k ≤ 15 := by
  by_cases hk : k ≤ 15
  · refine ⟨fun _ => hk, fun _ => ?_⟩
    cases k with
    | zero => exact ad0_decodes n
    | succ j =>
      exact (decodes_iff_depth_adata (ad (j + 1)) (arrDataPre_ad j (by omega)) n).2 ((vdepth_ad_le_iff (j + 1)).2 hk)
  · refine ⟨fun ⟨s', m, hd⟩ => ?_, fun h => absurd h hk⟩
    rw [ad_rejected k (by omega) n] at hd; cases hd

/-- `arrNest 15` meets the exact hypotheses … -/
theorem arrDataOKX_ad15 : ArrDataOKX (ad 15) :=
  have pre := arrDataPre_ad 14 (by decide)
  ⟨pre.rt, pre.nodup, (vdepth_ad_le_iff 15).2 (by decide), pre.count, pre.inlined, pre.entries, pre.next, pre.ty, pre.size⟩

/-- … but NOT the older ones (`vneedISts (arrNest 15) + 1 = 47`): it is outside `decode_encode_adata_compact`. -/
theorem not_arrDataOKC_ad15 : ¬ ArrDataOKC (ad 15) := by
  intro ok
  have := ok.nest
  have h : vneedISts (ad 15).elems = 1 + 3 * 15 := vneedISts_arrNest 15
  rw [h] at this
  simp only [maxNestedLevels] at this
  omega

/-- 16 nested arrays: every other hypothesis holds, the register is rejected -/
theorem ad16_rejected (n : Nat) :
    decodeSlab (ad 16).id (encodeArrData (ad 16)) n = .error .decoding (n + 1) := by
  have h := decode_rejects_too_deep_adata (ad 16) (arrDataPre_ad 15 (by decide))
    (by have := (vdepth_ad_le_iff 16); omega) n
  have hx : (encSts (ad 16).elems []).2 = [.arr (.plain 1)] := encSts_arrNest_xs 15
  rw [hx] at h
  exact h

/-! #### maps -/

theorem compactKeys_plain (c s : Nat) (es : List MEl) : compactKeys ⟨.plain 1, c, s⟩ es = none := by
  simp [compactKeys, TyInfo.isComposite]

theorem vd_mapNest : ∀ k, (mapNest k).vd = 3 + 4 * k
  | 0 => by decide
  | k + 1 => by
    simp only [mapNest, MEls.vd, vdMElList, MEl.vd, SEl.vd, Stor.vd]
    have h := vd_mapNest k
    cases hk : mapNest k with
    | hkey l hs es =>
      rw [hk] at h
      simp only [Stor.vd, compactKeys_plain]
      simp [h]; omega
    | single l es =>
      rw [hk] at h
      simp only [Stor.vd]
      simp [h]; omega

theorem vneedI_mapNest : ∀ k, (mapNest k).vneedI = 4 + 5 * k
  | 0 => by decide
  | k + 1 => by
    simp only [mapNest, MEls.vneedI, vneedIMElList, MEl.vneedI, SEl.vneedI, Stor.vneedI, vneedI_mapNest k]
    omega

theorem size_mapNest : ∀ k, (mapNest k).size = 21 + 33 * k
  | 0 => by decide
  | k + 1 => by
    simp only [mapNest, MEls.size, sizeMEl, MEl.size, SEl.size, Stor.size, size_mapNest k, hkeyElementsPrefixSize,
      digestSize, singleElementPrefixSize, inlinedMapDataSlabPrefixSize]
    omega

theorem rti_mapNest : ∀ k, k < 2 ^ 20 → (mapNest k).RTI
  | 0, _ => by
    refine ⟨by decide, rfl, by decide, by decide, ⟨⟨validElem_2_1, validElem_2_7, by decide⟩, trivial⟩, by decide⟩
  | k + 1, hk => by
    have ih := rti_mapNest k (by omega)
    have hs := size_mapNest k
    refine ⟨by decide, rfl, by simp, by decide, ⟨⟨validElem_2_1, ⟨⟨?_, ?_, ?_⟩, ?_, ih, ?_⟩, ?_⟩, trivial⟩, ?_⟩
    · show (1 : Nat) < 2 ^ 64; decide
    · show (1 : Nat) < 2 ^ 64; decide
    · show (9 : Nat) < 2 ^ 64; decide
    · omega
    · rw [hs]; simp only [inlinedMapDataSlabPrefixSize, maxUint32]; omega
    · simp only [Stor.size, hs, singleElementPrefixSize, inlinedMapDataSlabPrefixSize, maxUint32]; omega
    · simp only [sizeMEl, MEl.size, SEl.size, Stor.size, hs, hkeyElementsPrefixSize, digestSize,
        singleElementPrefixSize, inlinedMapDataSlabPrefixSize, maxUint32]; omega

theorem nodupKeys_mapNest : ∀ k, (mapNest k).nodupKeys
  | 0 => ⟨⟨trivial, trivial⟩, trivial⟩
  | k + 1 => by
    have ih := nodupKeys_mapNest k
    refine ⟨⟨trivial, ?_⟩, trivial⟩
    cases hk : mapNest k with
    | hkey l hs es =>
      rw [hk] at ih
      exact ⟨fun keys hc => (by rw [compactKeys_plain] at hc; cases hc), ih⟩
    | single l es =>
      rw [hk] at ih
      exact ih

theorem encMEls_mapNest_len : ∀ k (xs : List XD), (encMEls (mapNest k) xs).2.length = xs.length + k
  | 0, xs => rfl
  | k + 1, xs => by
    have ih := encMEls_mapNest_len k (addMapXD xs ⟨.plain 1, 1, 9⟩).2
    cases hk : mapNest k with
    | hkey l hs es =>
      rw [hk] at ih
      simp only [mapNest, hk, encMEls, encMElList, encMEl, encSEl, encSt, compactKeys_plain] at ih ⊢
      rw [ih]; simp [addMapXD]; omega
    | single l es =>
      rw [hk] at ih
      simp only [mapNest, hk, encMEls, encMElList, encMEl, encSEl, encSt] at ih ⊢
      rw [ih]; simp [addMapXD]; omega

theorem mapDataPre_md (k : Nat) (hk : k ≤ 256) : MapDataPre (md k) where
  rt := rti_mapNest k (by omega)
  nodup := nodupKeys_mapNest k
  entries := by show (encMEls (mapNest k) []).2.length ≤ 256; rw [encMEls_mapNest_len]; simpa using hk
  next := by show (SlabID.undef.addr < 2 ^ 64 ∧ SlabID.undef.idx < 2 ^ 64); decide
  extra := by
    intro x hx; cases hx
    exact ⟨by show (1 : Nat) < 2 ^ 64; decide, by decide, by decide⟩
  size := by
    show (md k).size ≤ maxUint32
    simp only [MapData.size, md, Option.isSome_some, ↓reduceIte, size_mapNest, versionAndFlagSize, maxUint32]
    omega

theorem vdepth_md_le_iff (k : Nat) : (Slab.mdata (md k)).vdepth ≤ maxNestedLevels ↔ k ≤ 7 := by
  rw [vdepth_mdata_le_iff (md k) (by decide)]
  show (mapNest k).vd ≤ maxNestedLevels ↔ k ≤ 7
  rw [vd_mapNest]; simp only [maxNestedLevels]; omega

/-- `k` nested inlined maps: the register decodes iff `k ≤ 7` (the library commits 8 and fails to reload
    them).  For every `k` the encoder accepts (`k ≤ 256`: one extra-data entry per inlined map, and the
    extra-data index is one byte). -/
theorem nesting_bound_tight_maps (k : Nat) (hk : k ≤ 256) (n : Nat) :
    (∃ s' m, decodeSlab (md k).id (encodeMapData (md k)) n = .ok s' m) ↔ k ≤ 7 := by
  rw [decodes_iff_depth_mdata (md k) (mapDataPre_md k hk) n, vdepth_md_le_iff]

/-- `mapNest 7` meets the exact hypotheses … -/
theorem mapDataOKX_md7 : MapDataOKX (md 7) :=
  have pre := mapDataPre_md 7 (by decide)
  ⟨pre.rt, pre.nodup, (vdepth_md_le_iff 7).2 (by decide), pre.entries, pre.next, pre.extra, pre.size⟩

/-- … but NOT the older ones (`(mapNest 7).vneedI = 39`): it is outside `decode_encode_mdata_compact`. -/
theorem not_mapDataOKC_md7 : ¬ MapDataOKC (md 7) := by
  intro ok
  have := ok.nest
  have h : (md 7).els.vneedI = 4 + 5 * 7 := vneedI_mapNest 7
  rw [h] at this
  simp only [maxNestedLevels] at this
  omega

/-- 8 nested maps: every other hypothesis holds, the register is rejected -/
theorem md8_rejected (n : Nat) : ∃ e m, decodeSlab (md 8).id (encodeMapData (md 8)) n = .error e m :=
  decode_rejects_too_deep_mdata_exists (md 8) (mapDataPre_md 8 (by decide))
    (by have := (vdepth_md_le_iff 8); omega) n

end Atree.C07
