import AtreeProofs.Props.TransMapDescentRemove
/-
  WP13 (map descent, Remove, top level): the generated `OrderedMap_remove` of `Gen/TransMapDescent.lean` over a heap
  (`envD T eb rs`), for ANY restructuring record `rs` and ANY element layer `eb`, at the level of generated records:
  digester from the builder, `root.Remove` (dynamic dispatch), `decrementCount`, `promoteChildAsNewRoot` iff the new root
  is an index slab with exactly ONE child header, `splitRoot` iff the (possibly promoted) root is full,
  `notifyParentIfNeeded`.
-/
namespace Atree.TransEq
open Atree Atree.Gen.TransMapD

section top
variable {r : Nat} (T : Nat) (eb : DEnvB r) (rs : DRestruct r)

/-- `m.root.ExtraData().decrementCount()` written back into the root -/
def mdr_decr (root' : DSlab r) (x : DX) : DSlab r := MapSlab.with_extraData_ root' (some (x.1, x.2.1 - 1, x.2.2))

/-- the promotion step of `OrderedMap.remove`: `promoteChildAsNewRoot(childrenHeaders[0].slabID)` iff the root is an
    index slab with exactly one child header -/
def mdr_promoteStep (m1 : DMap r) : Option GE × DMap r :=
  match m1.root with
  | .metaSlab root =>
    match root.childrenHeaders with
    | [h] => rs.promote m1 h.slabID
    | _ => (none, m1)
  | _ => (none, m1)

/-- what `OrderedMap.remove` does after a successful `root.Remove` returned `(rk, rv, nil)`, the new root `root'` and the
    storage `s1` -/
def mdr_topAfter (root' : DSlab r) (s1 : MHSt r) (rk rv : Option SV) :
    Option (Option SV × Option SV × Option GE × DMap r) :=
  match MapSlab.extraData_ root' with
  | none => none
  | some x =>
    let pr := mdr_promoteStep rs { Storage := s1, root := mdr_decr root' x, digesterBuilder := () }
    if (!pr.1.isNone) then some (none, none, pr.1, pr.2)
    else
      match MapSlab_IsFull (envD T eb rs) pr.2.root with
      | none => none
      | some true =>
        let q := rs.splitRoot pr.2
        if (!q.1.isNone) then some (none, none, q.1, q.2) else some (rk, rv, none, q.2)
      | some false => some (rk, rv, none, pr.2)

theorem mdr_len_ne_one (h1 h2 : MapSlabHeader) (t : List MapSlabHeader) :
    ¬ (Int.ofNat (h1 :: h2 :: t).length = (1 : Int)) := by
  simp only [List.length_cons, Int.ofNat_eq_natCast]; omega


theorem mdr_ite_ret {ρ γ : Type} (c : Prop) [Decidable c] (a r_ : ρ) (b : γ)
    (h : (if c then Loop.ret a else Loop.done b : Loop ρ γ) = Loop.ret r_) : c ∧ a = r_ := by
  by_cases hc : c
  · rw [if_pos hc] at h; injection h with h; exact ⟨hc, h⟩
  · rw [if_neg hc] at h; cases h

theorem mdr_ite_done {ρ γ : Type} (c : Prop) [Decidable c] (a : ρ) (b m : γ)
    (h : (if c then Loop.ret a else Loop.done b : Loop ρ γ) = Loop.done m) : ¬ c ∧ b = m := by
  by_cases hc : c
  · rw [if_pos hc] at h; cases h
  · rw [if_neg hc] at h; injection h with h; exact ⟨hc, h⟩

/-- the tail of `OrderedMap.remove` (`splitRoot` iff full, `notifyParentIfNeeded`), after the promotion step -/
local macro "mdr_tl" : tactic => `(tactic| (
  generalize MapSlab_IsFull (envD _ _ _) _ = f
  cases f with
  | none => rfl
  | some b =>
    cases b with
    | false => rfl
    | true =>
      simp only [if_true, envD_splitRoot, envD_notify]
      split
      · rename_i h
        obtain ⟨hc, h2⟩ := mdr_ite_ret _ _ _ _ h
        subst h2
        exact (if_pos hc).symm
      · rename_i h
        obtain ⟨hc, h2⟩ := mdr_ite_done _ _ _ _ h
        subst h2
        exact (if_neg hc).symm))

variable (m : DMap r) (k : MKey) (depth : Nat)

/-- `OrderedMap.remove` given the result of the root's `Remove`: `decrementCount`, then promotion iff the new root is an
    index slab with exactly one child header, then `splitRoot` iff the root is full; the removed key / value returned -/
theorem Ob_OrderedMap_remove_step (root' : DSlab r) (s1 : MHSt r) (rk rv : Option SV)
    (hdisp : MapSlab_Remove (envD T eb rs) (MapMetaDataSlab_Remove (envD T eb rs) depth) m.root m.Storage k (u64 0)
      (u64 (k.dig 0)) (.key k) = some (rk, rv, none, root', s1)) :
    OrderedMap_remove (envD T eb rs) depth m (.key k) = mdr_topAfter T eb rs root' s1 rk rv := by
  unfold OrderedMap_remove
  simp only [envD_builder, envD_dig, Option.isNone_none, Bool.not_true, Bool.false_eq_true, if_false,
    show (u64 0).toNat = 0 from rfl, show (0 : UInt64) = u64 0 from rfl, hdisp, mdr_topAfter]
  cases root' with
  | nil => rfl
  | dataSlab o =>
    simp only [MapSlab.extraData_]
    cases o.extraData with
    | none => rfl
    | some xd =>
      simp only [envD_decr, mdr_decr, MapSlab.with_extraData_, MapSlab_IsData, MapDataSlab_IsData, Bool.not_true,
        Bool.false_eq_true, if_false, mdr_promoteStep, Option.isNone_none]
      mdr_tl
  | metaSlab o =>
    simp only [MapSlab.extraData_]
    obtain ⟨oh, hdrs, ox⟩ := o
    cases ox with
    | none => rfl
    | some xd =>
      simp only [envD_decr, mdr_decr, MapSlab.with_extraData_, MapSlab_IsData, MapMetaDataSlab_IsData, Bool.not_false,
        if_true, envD_promote, mdr_promoteStep]
      match hdrs with
      | [] =>
        simp only [List.length_nil, show ¬ (Int.ofNat 0 = (1 : Int)) by decide, decide_false, Bool.false_eq_true, if_false,
          Option.isNone_none, Bool.not_true]
        mdr_tl
      | [h] =>
        simp only [List.length_cons, List.length_nil, show (Int.ofNat (0 + 1) = (1 : Int)) by decide, decide_true, if_true,
          show goIdx [h] (0 : Int) = some h from rfl]
        split
        · rename_i hh
          split at hh
          · rename_i h3
            obtain ⟨hc, h2⟩ := mdr_ite_ret _ _ _ _ h3
            subst h2
            injection hh with hh
            subst hh
            exact (if_pos hc).symm
          · cases hh
        · rename_i hh
          split at hh
          · cases hh
          · rename_i h3
            obtain ⟨hc, h2⟩ := mdr_ite_done _ _ _ _ h3
            subst h2
            injection hh with hh
            subst hh
            refine Eq.trans ?_ (if_neg hc).symm
            mdr_tl
      | h1 :: h2 :: t =>
        simp only [mdr_len_ne_one h1 h2 t, decide_false, Bool.false_eq_true, if_false, Option.isNone_none, Bool.not_true]
        mdr_tl

/-- an error of the root's `Remove` is passed on; the count is untouched (no `decrementCount`) -/
theorem Ob_OrderedMap_remove_err (root' : DSlab r) (s1 : MHSt r) (rk rv : Option SV) (e : GE)
    (hdisp : MapSlab_Remove (envD T eb rs) (MapMetaDataSlab_Remove (envD T eb rs) depth) m.root m.Storage k (u64 0)
      (u64 (k.dig 0)) (.key k) = some (rk, rv, some e, root', s1)) :
    OrderedMap_remove (envD T eb rs) depth m (.key k) =
      some (none, none, some e, { Storage := s1, root := root', digesterBuilder := m.digesterBuilder }) := by
  unfold OrderedMap_remove
  simp only [envD_builder, envD_dig, Option.isNone_none, Bool.not_true, Bool.false_eq_true, if_false,
    show (u64 0).toNat = 0 from rfl, show (0 : UInt64) = u64 0 from rfl, hdisp, Option.isNone_some, Bool.not_false, if_true]

end top
/-! ## on the translation of a model handle; non-vacuity -/

section md
variable {r : Nat} (T : Nat) (eb : DEnvB r) (rs : DRestruct r)

/-- `decrementCount` on the translation of a model tree: the count of the handle goes down by one (no wrap-around
    for a non-empty map) -/
theorem mdr_decr_md_tree (m : OMap r) (d' : Nat) (t' : MTree r d') (hc : 0 < m.count) :
    mdr_decr (md_tree d' t' (some (md_extra m))) (md_extra m) =
      md_tree d' t' (some (md_extra { m with count := m.count - 1 })) := by
  have e : u64 m.count - 1 = u64 (m.count - 1) := by
    have : (1 : UInt64) = u64 1 := rfl
    rw [this]
    exact (UInt64.ofNat_sub hc).symm
  cases d' with
  | zero => simp only [mdr_decr, md_tree, MapSlab.with_extraData_, md_data, md_extra, e]
  | succ d' => simp only [mdr_decr, md_tree, MapSlab.with_extraData_, md_meta, md_extra, e]

/-- `Ob_OrderedMap_remove_step` on the translation `md_map m s` of a model handle, the root's `Remove` having returned
    the translation of a model tree -/
theorem Ob_OrderedMap_remove_step_md (m : OMap r) (s : MHSt r) (k : MKey) (depth : Nat) (d' : Nat) (t' : MTree r d')
    (s1 : MHSt r) (rk rv : Option SV) (hc : 0 < m.count)
    (hdisp : MapSlab_Remove (envD T eb rs) (MapMetaDataSlab_Remove (envD T eb rs) depth)
      (md_tree m.d m.root (some (md_extra m))) s k (u64 0) (u64 (k.dig 0)) (.key k) =
        some (rk, rv, none, md_tree d' t' (some (md_extra m)), s1)) :
    OrderedMap_remove (envD T eb rs) depth (md_map m s) (.key k) =
      (let pr := mdr_promoteStep rs { Storage := s1, root := md_tree d' t' (some (md_extra { m with count := m.count - 1 })),
                                      digesterBuilder := () }
       if (!pr.1.isNone) then some (none, none, pr.1, pr.2)
       else
         match MapSlab_IsFull (envD T eb rs) pr.2.root with
         | none => none
         | some true =>
           let q := rs.splitRoot pr.2
           if (!q.1.isNone) then some (none, none, q.1, q.2) else some (rk, rv, none, q.2)
         | some false => some (rk, rv, none, pr.2)) := by
  rw [Ob_OrderedMap_remove_step T eb rs (md_map m s) k depth _ s1 rk rv hdisp]
  have hx : MapSlab.extraData_ (md_tree d' t' (some (md_extra m))) = some (md_extra m) := by
    cases d' <;> rfl
  simp only [mdr_topAfter, hx, mdr_decr_md_tree m d' t' hc] <;> rfl
end md

namespace MdrEx
open MeiEx

theorem stepEx64 : MapMetaDataSlab_Remove (envD 64 ebx rsx) 1 (md_meta mm xx) s0 k1 (u64 0) (u64 5) (.key k1) =
    some (some (.key k1), some (.val v1), none, mm1, mdr_leafSt s0 dA' none cA) :=
  Ob_MapMetaDataSlab_Remove_step_merge 64 ebx rsx mm xx s0 k1 5 0 (by decide) (by decide) (by decide) 0 rfl (by decide)
    _ _ _ _ _ rfl (hdispA 64 0) rfl (u32 10) rfl _ _ _ rfl

/-- the model handle: 2 entries, root = the 2-child index slab -/
def om : OMap 0 := { d := 1, root := mm, ty := 0, count := 2, seed := 0 }

theorem hdispTop64 : MapSlab_Remove (envD 64 ebx rsx) (MapMetaDataSlab_Remove (envD 64 ebx rsx) 1) (md_map om s0).root s0 k1
    (u64 0) (u64 (k1.dig 0)) (.key k1) =
    some (some (.key k1), some (.val v1), none, .metaSlab mm1, mdr_leafSt s0 dA' none cA) := by
  have e : (md_map om s0).root = .metaSlab (md_meta mm xx) := rfl
  rw [e]
  simp only [MapSlab_Remove]
  rw [show u64 (k1.dig 0) = u64 5 from rfl, stepEx64]

/-- non-vacuity of `Ob_OrderedMap_remove_step`: count 2 -> 1, two child headers -> no promotion, 50 <= 96 -> no split -/
example : OrderedMap_remove (envD 64 ebx rsx) 1 (md_map om s0) (.key k1) =
    some (some (.key k1), some (.val v1), none,
      { Storage := mdr_leafSt s0 dA' none cA, root := .metaSlab { mm1 with extraData := some (0, 1, 0) }, digesterBuilder := () }) :=
  (Ob_OrderedMap_remove_step 64 ebx rsx (md_map om s0) k1 1 _ _ _ _ hdispTop64).trans rfl

/-- an absent key: the root's `Remove` returns `KeyNotFoundError`; the count stays 2 -/
example : OrderedMap_remove (envD 64 ebx rsx) 1 (md_map om s0) (.key k4) =
    some (none, none, some .keyNotFound, md_map om s0) := by
  have h : MapSlab_Remove (envD 64 ebx rsx) (MapMetaDataSlab_Remove (envD 64 ebx rsx) 1) (md_map om s0).root s0 k4
      (u64 0) (u64 (k4.dig 0)) (.key k4) = some (none, none, some .keyNotFound, .metaSlab (md_meta mm xx), s0) := by
    have e : (md_map om s0).root = .metaSlab (md_meta mm xx) := rfl
    rw [e]
    simp only [MapSlab_Remove]
    rw [show u64 (k4.dig 0) = u64 3 from rfl,
      Ob_MapMetaDataSlab_Remove_keyNotFound 64 ebx rsx mm xx s0 k4 3 0 (by decide) (by decide) (by decide) rfl]
  exact Ob_OrderedMap_remove_err 64 ebx rsx (md_map om s0) k4 1 _ _ _ _ _ h

/-- an index root with ONE child (what a merge leaves behind) -/
def mmP : MMetaSlab (MTree 0 0) :=
  { hdr := { id := ⟨1, 1⟩, size := 30, firstKey := 5 }, childHdrs := [dA.hdr], children := [dA], root := true }
def omP : OMap 0 := { d := 1, root := mmP, ty := 0, count := 1, seed := 0 }
/-- a restructuring record whose `promote` installs the stored child as the root (keeping the extra data) and whose
    `splitRoot` fails (so a call shows) -/
def rsP : DRestruct 0 :=
  { splitChild := fun m s c _ => (none, m, s, c), mergeOrRebalance := fun m s c _ _ => (none, m, s, c),
    splitRoot := fun m => (some .slabSplit, m),
    promote := fun m id => (none, { m with root := ((m.Storage.heap id).getD .nil).with_extraData_ m.root.extraData_ }) }
def mmP1 : MapMetaDataSlab DX :=
  { header := { slabID := ⟨1, 1⟩, size := 30, firstKey := 0 },
    childrenHeaders := [{ slabID := ⟨1, 2⟩, size := 22, firstKey := 0 }], extraData := some (0, 1, 0) }

theorem hdispA' (T depth : Nat) :
    MapSlab_Remove (envD T ebx rsP) (MapMetaDataSlab_Remove (envD T ebx rsP) depth) (.dataSlab (md_data dA none)) s0 k1 (u64 0)
      (u64 5) (.key k1) =
    some (some (.key k1), some (.val v1), none, .dataSlab (md_data dA' none), mdr_leafSt s0 dA' none cA) := by
  simp only [MapSlab_Remove]
  rw [show u64 5 = u64 (k1.dig 0) from rfl, Ob_MapDataSlab_Remove_heap T ebx rsP cfg k1 v3 _ ebx_ok dA none rfl trivial s0]
  rfl

theorem hdispTopP : MapSlab_Remove (envD 16 ebx rsP) (MapMetaDataSlab_Remove (envD 16 ebx rsP) 1) (md_map omP s0).root s0 k1
    (u64 0) (u64 (k1.dig 0)) (.key k1) =
    some (some (.key k1), some (.val v1), none, .metaSlab mmP1,
      (mdr_leafSt s0 dA' none cA).store ⟨1, 1⟩ (.metaSlab mmP1)) := by
  have e : (md_map omP s0).root = .metaSlab (md_meta mmP (some (0, 1, 0))) := rfl
  rw [e]
  simp only [MapSlab_Remove]
  rw [show u64 (k1.dig 0) = u64 5 from rfl,
    Ob_MapMetaDataSlab_Remove_step_store 16 ebx rsP mmP (some (0, 1, 0)) s0 k1 5 0 (by decide) (by decide) (by decide) 0 rfl
      (by decide) _ _ _ _ _ rfl (hdispA' 16 0) rfl 0 rfl]
  rfl

/-- the promotion: the new root is an index slab with exactly one child header -> `promote` is called with that child's
    identifier (here it installs the stored data slab as the root); count 1 -> 0; the data root is not full -> no split -/
example : OrderedMap_remove (envD 16 ebx rsP) 1 (md_map omP s0) (.key k1) =
    some (some (.key k1), some (.val v1), none,
      { Storage := (mdr_leafSt s0 dA' none cA).store ⟨1, 1⟩ (.metaSlab mmP1),
        root := .dataSlab (md_data dA' (some (0, 0, 0))), digesterBuilder := () }) :=
  (Ob_OrderedMap_remove_step 16 ebx rsP (md_map omP s0) k1 1 _ _ _ _ hdispTopP).trans rfl

/-- the split of the root: with `T = 4` the promoted data root (22 > 6) is full -> `splitRoot` is called (its error shows) -/
example : (OrderedMap_remove (envD 4 ebx rsP) 1 (md_map omP s0) (.key k1)).map (·.2.2.1) = some (some .slabSplit) := by
  have h : MapSlab_Remove (envD 4 ebx rsP) (MapMetaDataSlab_Remove (envD 4 ebx rsP) 1) (md_map omP s0).root s0 k1
      (u64 0) (u64 (k1.dig 0)) (.key k1) =
      some (some (.key k1), some (.val v1), none, .metaSlab mmP1, mdr_leafSt s0 dA' none cA) := by
    have e : (md_map omP s0).root = .metaSlab (md_meta mmP (some (0, 1, 0))) := rfl
    rw [e]
    simp only [MapSlab_Remove]
    rw [show u64 (k1.dig 0) = u64 5 from rfl,
      Ob_MapMetaDataSlab_Remove_step_split 4 ebx rsP mmP (some (0, 1, 0)) s0 k1 5 0 (by decide) (by decide) (by decide) 0 rfl
        (by decide) _ _ _ _ _ rfl (hdispA' 4 0) rfl _ _ _ rfl]
    rfl
  rw [Ob_OrderedMap_remove_step 4 ebx rsP (md_map omP s0) k1 1 _ _ _ _ h]
  rfl
end MdrEx

end Atree.TransEq
