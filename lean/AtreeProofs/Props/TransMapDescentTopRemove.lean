import AtreeProofs.Props.TransMapDescentRemove
/-
  WP13 (map descent, Remove, top level): the generated `OrderedMap_remove` of `Gen/TransMapDescent.lean` over a heap
  (`envD T eb rs`), for ANY restructuring record `rs` and ANY element layer `eb`, at the level of generated records:
  digester from the builder, `root.Remove` (dynamic dispatch), `decrementCount`, `promoteChildAsNewRoot` iff the new root
  is an index slab with exactly ONE child header, `splitRoot` iff the (possibly promoted) root is full,
  `notifyParentIfNeeded`.
-/
namespace Atree.TransEq
open Atree Atree.Gen.TransMapD

section top
variable {r : Nat} (T : Nat) (eb : DEnvB r) (rs : DRestruct r)

/-- `m.root.ExtraData().decrementCount()` written back into the root -/
def mdr_decr (root' : DSlab r) (x : DX) : DSlab r := MapSlab.with_extraData_ root' (some (x.1, x.2.1 - 1, x.2.2))

/-- the promotion step of `OrderedMap.remove`: `promoteChildAsNewRoot(childrenHeaders[0].slabID)` iff the root is an
    index slab with exactly one child header -/
def mdr_promoteStep (m1 : DMap r) : Option GE × DMap r :=
  match m1.root with
  | .metaSlab root =>
    match root.childrenHeaders with
    | [h] => rs.promote m1 h.slabID
    | _ => (none, m1)
  | _ => (none, m1)

/-- what `OrderedMap.remove` does after a successful `root.Remove` returned `(rk, rv, nil)`, the new root `root'` and the
    storage `s1` -/
def mdr_topAfter (root' : DSlab r) (s1 : MHSt r) (rk rv : Option SV) :
    Option (Option SV × Option SV × Option GE × DMap r) :=
  match MapSlab.extraData_ root' with
  | none => none
  | some x =>
    let pr := mdr_promoteStep rs { Storage := s1, root := mdr_decr root' x, digesterBuilder := () }
    if (!pr.1.isNone) then some (none, none, pr.1, pr.2)
    else
      match MapSlab_IsFull (envD T eb rs) pr.2.root with
      | none => none
      | some true =>
        let q := rs.splitRoot pr.2
        if (!q.1.isNone) then some (none, none, q.1, q.2) else some (rk, rv, none, q.2)
      | some false => some (rk, rv, none, pr.2)

theorem mdr_len_ne_one (h1 h2 : MapSlabHeader) (t : List MapSlabHeader) :
    ¬ (Int.ofNat (h1 :: h2 :: t).length = (1 : Int)) := by
  simp only [List.length_cons, Int.ofNat_eq_natCast]; omega


theorem mdr_ite_ret {ρ γ : Type} (c : Prop) [Decidable c] (a r_ : ρ) (b : γ)
    (h : (if c then Loop.ret a else Loop.done b : Loop ρ γ) = Loop.ret r_) : c ∧ a = r_ := by
  by_cases hc : c
  · rw [if_pos hc] at h; injection h with h; exact ⟨hc, h⟩
  · rw [if_neg hc] at h; cases h

theorem mdr_ite_done {ρ γ : Type} (c : Prop) [Decidable c] (a : ρ) (b m : γ)
    (h : (if c then Loop.ret a else Loop.done b : Loop ρ γ) = Loop.done m) : ¬ c ∧ b = m := by
  by_cases hc : c
  · rw [if_pos hc] at h; cases h
  · rw [if_neg hc] at h; injection h with h; exact ⟨hc, h⟩

/-- the tail of `OrderedMap.remove` (`splitRoot` iff full, `notifyParentIfNeeded`), after the promotion step -/
local macro "mdr_tl" : tactic => `(tactic| (
  generalize MapSlab_IsFull (envD _ _ _) _ = f
  cases f with
  | none => rfl
  | some b =>
    cases b with
    | false => rfl
    | true =>
      simp only [if_true, envD_splitRoot, envD_notify]
      split
      · rename_i h
        obtain ⟨hc, h2⟩ := mdr_ite_ret _ _ _ _ h
        subst h2
        exact (if_pos hc).symm
      · rename_i h
        obtain ⟨hc, h2⟩ := mdr_ite_done _ _ _ _ h
        subst h2
        exact (if_neg hc).symm))

variable (m : DMap r) (k : MKey) (depth : Nat)

/-- `OrderedMap.remove` given the result of the root's `Remove`: `decrementCount`, then promotion iff the new root is an
    index slab with exactly one child header, then `splitRoot` iff the root is full; the removed key / value returned -/
theorem Ob_OrderedMap_remove_step (root' : DSlab r) (s1 : MHSt r) (rk rv : Option SV)
    (hdisp : MapSlab_Remove (envD T eb rs) (MapMetaDataSlab_Remove (envD T eb rs) depth) m.root m.Storage k (u64 0)
      (u64 (k.dig 0)) (.key k) = some (rk, rv, none, root', s1)) :
    OrderedMap_remove (envD T eb rs) depth m (.key k) = mdr_topAfter T eb rs root' s1 rk rv := by
  unfold OrderedMap_remove
  simp only [envD_builder, envD_dig, Option.isNone_none, Bool.not_true, Bool.false_eq_true, if_false,
    show (u64 0).toNat = 0 from rfl, show (0 : UInt64) = u64 0 from rfl, hdisp, mdr_topAfter]
  cases root' with
  | nil => rfl
  | dataSlab o =>
    simp only [MapSlab.extraData_]
    cases o.extraData with
    | none => rfl
    | some xd =>
      simp only [envD_decr, mdr_decr, MapSlab.with_extraData_, MapSlab_IsData, MapDataSlab_IsData, Bool.not_true,
        Bool.false_eq_true, if_false, mdr_promoteStep, Option.isNone_none]
      mdr_tl
  | metaSlab o =>
    simp only [MapSlab.extraData_]
    obtain ⟨oh, hdrs, ox⟩ := o
    cases ox with
    | none => rfl
    | some xd =>
      simp only [envD_decr, mdr_decr, MapSlab.with_extraData_, MapSlab_IsData, MapMetaDataSlab_IsData, Bool.not_false,
        if_true, envD_promote, mdr_promoteStep]
      match hdrs with
      | [] =>
        simp only [List.length_nil, show ¬ (Int.ofNat 0 = (1 : Int)) by decide, decide_false, Bool.false_eq_true, if_false,
          Option.isNone_none, Bool.not_true]
        mdr_tl
      | [h] =>
        simp only [List.length_cons, List.length_nil, show (Int.ofNat (0 + 1) = (1 : Int)) by decide, decide_true, if_true,
          show goIdx [h] (0 : Int) = some h from rfl]
        split
        · rename_i hh
          split at hh
          · rename_i h3
            obtain ⟨hc, h2⟩ := mdr_ite_ret _ _ _ _ h3
            subst h2
            injection hh with hh
            subst hh
            exact (if_pos hc).symm
          · cases hh
        · rename_i hh
          split at hh
          · cases hh
          · rename_i h3
            obtain ⟨hc, h2⟩ := mdr_ite_done _ _ _ _ h3
            subst h2
            injection hh with hh
            subst hh
            refine Eq.trans ?_ (if_neg hc).symm
            mdr_tl
      | h1 :: h2 :: t =>
        simp only [mdr_len_ne_one h1 h2 t, decide_false, Bool.false_eq_true, if_false, Option.isNone_none, Bool.not_true]
        mdr_tl

/-- an error of the root's `Remove` is passed on; the count is untouched (no `decrementCount`) -/
theorem Ob_OrderedMap_remove_err (root' : DSlab r) (s1 : MHSt r) (rk rv : Option SV) (e : GE)
    (hdisp : MapSlab_Remove (envD T eb rs) (MapMetaDataSlab_Remove (envD T eb rs) depth) m.root m.Storage k (u64 0)
      (u64 (k.dig 0)) (.key k) = some (rk, rv, some e, root', s1)) :
    OrderedMap_remove (envD T eb rs) depth m (.key k) =
      some (none, none, some e, { Storage := s1, root := root', digesterBuilder := m.digesterBuilder }) := by
  unfold OrderedMap_remove
  simp only [envD_builder, envD_dig, Option.isNone_none, Bool.not_true, Bool.false_eq_true, if_false,
    show (u64 0).toNat = 0 from rfl, show (0 : UInt64) = u64 0 from rfl, hdisp, Option.isNone_some, Bool.not_false, if_true]

end top
end Atree.TransEq
