import AtreeProofs.E2EDisposeSpec
import AtreeProofs.E2E.DisposeOps
import AtreeProofs.Props.E2E
/-
  E2ED — END-TO-END with DISPOSAL (arrays; audit a1 F2): the exact heap.

  C09: "After any history in which the caller disposes of every value the library hands back on
  removal or overwrite, the set of slabs in storage is exactly the set reachable from the live root
  containers ... and nothing else remains.  Emptying a container releases every auxiliary slab it
  used (... large-value slabs)."

  PROPERTY THEOREMS (definitions: `AtreeProofs/E2EDisposeSpec.lean`; `stepD` = `E2E.stepS` followed by
  `storage.Remove(id)` for every reference the request handed back):
  * `heap_exact_step`            – one request + disposal, from ANY state satisfying the invariant;
  * `heap_exact_after_disposal`  – every history from `NewArray` (rejected requests included, values
                                   of any size ≥ 1): on the owner address the storage view is EXACTLY
                                   the slabs of the tree plus the large-value slabs of the CURRENT
                                   elements (each holding the value its reference resolves to);
  * `live_spec`                  – what `live` is, in words of the elements;
  * `pop_then_dispose_leaves_only_root` – after `PopIterate` + disposal only the empty root remains.
-/
namespace Atree.E2ED
open Atree Gen E2E St

variable {β : Type}

/-- `live st id = some v` iff some current element is a reference to `id` and the reference resolves
    to `v` (the value the caller stored). -/
theorem live_spec (st : Arr × Ctx) (id : SlabID) (v : Elem) :
    live st id = some v ↔
      (∃ e ∈ st.1.toList, e.pay = .ref id) ∧ AList.find? st.2.created id = some v := by
  unfold live
  constructor
  · intro h
    split at h
    · rename_i hin; exact ⟨mem_refIdsOf.1 hin, h⟩
    · cases h
  · rintro ⟨h1, h2⟩
    have hin : id ∈ st.1.refIds := mem_refIdsOf.2 h1
    rw [if_pos hin]; exact h2

/-- ONE REQUEST + DISPOSAL, from any state satisfying the invariant: the invariant is kept — in
    particular the view is again exactly tree slabs ∪ live large-value slabs —, the values follow
    the `List` semantics, root ID and type info are as specified. -/
theorem heap_exact_step (c : Codec SSlab β) (hc : RoundTrip c) (T : Nat) (hT : legalThreshold T = true)
    (x : (Arr × Ctx) × St SSlab β) (hg : GoodD c T x) (op : AOp) (hop : op.Ok) :
    let y := stepD c T x op
    GoodD c T y ∧
    (∀ id, id.addr = x.1.1.addr → y.2.view c id = stored y.1.1 (live y.1) id) ∧
    y.1 = stepA T x.1 op ∧
    values y.1 = specStep (values x.1) op ∧
    y.1.1.rootID = x.1.1.rootID ∧ y.1.1.ty = specTy x.1.1.ty [op] := by
  intro y
  obtain ⟨g1, g2, g3, g4⟩ := goodD_stepD c hc T hT x hg op hop
  refine ⟨g1, ?_, rfl, g2, g3, g4⟩
  intro id hid
  refine g1.rep.view id ?_
  show id.addr = y.1.1.rootID.addr
  rw [g3]; exact hid

theorem runD_fst (c : Codec SSlab β) (T : Nat) :
    ∀ (ops : List AOp) (x : (Arr × Ctx) × St SSlab β), (runD c T x ops).1 = runA T x.1 ops
  | [], _ => rfl
  | op :: ops, x => by
    show (runD c T (stepD c T x op) ops).1 = runA T (stepA T x.1 op) ops
    rw [runD_fst c T ops]
    rfl

/-- EVERY HISTORY with disposal, from `NewArray` on an empty storage: with `a`, `ctx`, `s` the final
    array / context / storage,
    * the model side is the plain run of the array model (disposal touches the storage only),
    * for EVERY id of the owner address, `s.view c id = stored a (live (a, ctx)) id`: the slabs of
      the tree, the large-value slabs of the current elements, and NOTHING else,
    * `ArrInv`, `ARefsOk`, the storage invariant, the allocation counters agree,
    * every reference resolves; the values are the `List` semantics of the history; root ID and
      type info as specified. -/
theorem heap_exact_after_disposal (c : Codec SSlab β) (hc : RoundTrip c) (T : Nat)
    (hT : legalThreshold T = true) (addr ty : Nat) (haddr : addr ≠ 0) (ops : List AOp)
    (hops : ∀ op ∈ ops, op.Ok) :
    let x := runD c T (newS c addr ty) ops
    let a := x.1.1
    let ctx := x.1.2
    let s := x.2
    x.1 = runA T (Arr.new addr ty ⟨0, [], []⟩) ops ∧
    (∀ id, id.addr = addr → s.view c id = stored a (live (a, ctx)) id) ∧
    ArrInv T a ctx.ctr ∧ ARefsOk a ctx.ctr ∧
    Inv c s ∧ AllocSync s addr ctx.ctr ∧
    (∀ id ∈ a.refIds, (AList.find? ctx.created id).isSome) ∧
    values x.1 = specRun [] ops ∧ a.rootID = ⟨addr, 1⟩ ∧ a.ty = specTy ty ops := by
  intro x a ctx s
  have g0 := goodD_new c hc T hT addr ty haddr
  obtain ⟨g, v, r, t⟩ := goodD_runD c hc T hT ops (newS c addr ty) g0 hops
  have hroot : a.rootID = ⟨addr, 1⟩ := r
  have haddr' : a.addr = addr := by
    show a.rootID.addr = addr
    rw [hroot]
  refine ⟨runD_fst c T ops _, ?_, g.inv, g.refsR, g.st, ?_, g.res, v, hroot, t⟩
  · intro id hid
    exact g.rep.view id (hid.trans haddr'.symm)
  · have := g.sync
    rw [haddr'] at this
    exact this

/-- what is stored for a single-slab array -/
theorem stored_single (sl : DataSlab) (ty : Nat) (extra : SlabID → Option Elem) (id : SlabID)
    (hex : extra id = none) :
    stored ⟨0, sl, ty⟩ extra id = if id = sl.hdr.id then some (.tree (.data sl) (some ty)) else none := by
  have hs : ATree.slabs 0 (sl : ATree 0) = [(sl.hdr.id, .data sl)] := rfl
  have hroot : (⟨0, sl, ty⟩ : Arr).rootID = sl.hdr.id := rfl
  unfold stored Arr.slabAt
  rw [hs, AList.find?_cons, hroot]
  by_cases h : id = sl.hdr.id
  · subst h; simp
  · have h' : ¬ sl.hdr.id = id := fun e => h e.symm
    simp [h, h', AList.find?, hex]

/-- the root slab of an emptied array -/
def emptyRoot (a : Arr) : DataSlab :=
  { hdr := { id := a.rootID, count := 0, size := arrayRootDataSlabPrefixSize },
    next := SlabID.undef, elems := [], root := true, inlined := false }

/-- EMPTYING: after `PopIterate` and disposal of every element handed back, the storage holds, on
    the owner address, exactly the (empty) root slab: every index slab, data slab AND large-value
    slab the array used is gone. -/
theorem pop_then_dispose_leaves_only_root (c : Codec SSlab β) (hc : RoundTrip c) (T : Nat)
    (hT : legalThreshold T = true) (x : (Arr × Ctx) × St SSlab β) (hg : GoodD c T x) :
    let y := stepD c T x .popIterate
    ∀ id, id.addr = x.1.1.addr →
      y.2.view c id =
        if id = x.1.1.rootID then some (.tree (.data (emptyRoot x.1.1)) (some x.1.1.ty)) else none := by
  intro y id hid
  obtain ⟨g1, hview, _, _, _, _⟩ := heap_exact_step c hc T hT x hg .popIterate trivial
  rw [hview id hid]
  obtain ⟨⟨a, ctx⟩, s⟩ := x
  have hst : a.isInlined = false := hg.inv.standalone
  have ha' : (stepD c T ((a, ctx), s) .popIterate).1.1 = ⟨0, emptyRoot a, a.ty⟩ := by
    show (a.popIterate ctx).2.1 = _
    unfold Arr.popIterate emptyRoot
    simp [hst]
  have hlive : live (stepD c T ((a, ctx), s) .popIterate).1 id = none := by
    unfold live
    rw [if_neg]
    rw [ha']
    exact List.not_mem_nil
  rw [ha', stored_single _ _ _ _ hlive]
  rfl

/-! ### Non-vacuity

A concrete history (T = 256, identity codec): four small appends (the root splits), a 5000-byte
value inserted (large-value slab 1.4), overwritten by another large value (1.5; 1.4 handed back and
disposed), the reference removed (1.5 disposed), one more large value (1.6), then `PopIterate`
(1.6 and the leaves disposed / removed). -/
section NonVacuity
open Atree.Example

def big (n : Nat) : Elem := ⟨5000, .val n⟩
theorem big_ok (n : Nat) : ValueOk (big n) := ⟨by show 1 ≤ 5000; decide, n, rfl⟩

def histD : List AOp :=
  [.append (elem 0), .append (elem 1), .append (elem 2), .append (elem 3),
   .insert 1 (big 7), .set 1 (big 8), .set 9 (big 5), .remove 1, .append (big 9), .popIterate]

theorem histD_ok : ∀ op ∈ histD, op.Ok := by
  intro op hop
  simp only [histD, List.mem_cons, List.not_mem_nil, or_false] at hop
  rcases hop with rfl | rfl | rfl | rfl | rfl | rfl | rfl | rfl | rfl | rfl <;>
    first | exact value_ok _ | exact big_ok _ | trivial

def xD (n : Nat) : (Arr × Ctx) × St SSlab SSlab := runD idCodec T0 (newS idCodec 1 0) (histD.take n)

/-- which ids of address 1 are visible, with their kind (1 data, 2 index, 3 large value) -/
def visible (s : St SSlab SSlab) (n : Nat) : List (Nat × Nat) :=
  ((List.range n).map (fun k => (k + 1, slabKind (s.view idCodec ⟨1, k + 1⟩)))).filter (fun p => p.2 != 0)

/-- after the insert of the first large value: index slab 1, leaves 2 and 3, large-value slab 4 -/
example : visible (xD 5).2 8 = [(1, 2), (2, 1), (3, 1), (4, 3)] ∧ (xD 5).1.1.refIds = [⟨1, 4⟩] := by decide
/-- after overwriting it: 4 is GONE (disposed), 5 is the live one -/
example : visible (xD 6).2 8 = [(1, 2), (2, 1), (3, 1), (5, 3)] ∧ (xD 6).1.1.refIds = [⟨1, 5⟩] := by decide
/-- a rejected request changes nothing -/
example : visible (xD 7).2 8 = [(1, 2), (2, 1), (3, 1), (5, 3)] := by decide
/-- after removing the reference: no large-value slab remains -/
example : visible (xD 8).2 8 = [(1, 2), (2, 1), (3, 1)] ∧ (xD 8).1.1.refIds = [] := by decide
example : visible (xD 9).2 8 = [(1, 2), (2, 1), (3, 1), (6, 3)] := by decide
/-- after `PopIterate` + disposal: only the root -/
example : visible (xD 10).2 8 = [(1, 1)] := by decide
/-- WITHOUT disposal (`E2E.runS`) the large-value slabs 4, 5, 6 all remain -/
example : visible (runS idCodec T0 (newS idCodec 1 0) histD).2 8 = [(1, 1), (4, 3), (5, 3), (6, 3)] := by decide

/-- the theorem instantiated on the history (its hypotheses hold) -/
example := heap_exact_after_disposal idCodec idCodec_roundTrip T0 legal 1 0 (by decide) (histD.take 9)
  (fun op hop => histD_ok op (List.mem_of_mem_take hop))
theorem xD9_good : GoodD idCodec T0 (xD 9) :=
  (goodD_runD idCodec idCodec_roundTrip T0 legal (histD.take 9) _
    (goodD_new idCodec idCodec_roundTrip T0 legal 1 0 (by decide))
    (fun op hop => histD_ok op (List.mem_of_mem_take hop))).1
example := pop_then_dispose_leaves_only_root idCodec idCodec_roundTrip T0 legal (xD 9) xD9_good
/-- what `live` is in that state -/
example : live (xD 9).1 ⟨1, 6⟩ = some (big 9) ∧ live (xD 9).1 ⟨1, 5⟩ = none ∧
    AList.find? (xD 9).1.2.created ⟨1, 5⟩ = some (big 8) := by decide

end NonVacuity

end Atree.E2ED
