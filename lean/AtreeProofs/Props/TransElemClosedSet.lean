import AtreeProofs.Props.TransElemClosedA
/-
  WP13, part 3b: `element.Set` of the closed unit-A environment (`mcl_envA`: the GENERATED dispatcher `element_Set` of unit
  B, the result element decoded with `mcl_dElS`) = the model's `MElemF.set` on guarded elements (`mcl_envA_set`).  The
  slab of an external group in the RESULT is recovered from generated code: `MapDataSlab_Set` on the receiver's slab
  (`mcl_slabAfterSet_eq`), resp. the receiver state of `inlineCollisionGroup_Set` when an inline group is exported
  (`mcl_export_eq`).  Core Lean only.
-/
namespace Atree.TransEq
open Atree

section stepASet
variable {α X : Type} (o : ElemsOps α) (cfg : MCfg) (k : MKey) (v : Elem) (G : mcl_GOps α) (retr : mcl_Retr α X)
variable {Qg Qs Qr : α → Nat → Ctx → Prop} {Qn : Nat → SElem → Prop}
variable (hB : EnvBOn o cfg k v (mcl_envBG cfg G retr) Qg Qs Qr Qn)
include hB

/-- the slab of an external group after the generated `MapDataSlab_Set` = the model's `groupSlabUpdate` -/
theorem mcl_slabAfterSet_eq (s : GroupSlab α) (c : Ctx) (lvl : Nat) (hl : lvl + 1 < 2^64) (ha : s.hdr.id.addr = cfg.addr)
    (hQ : Qs s.elems (lvl + 1) c)
    (ks : MKey) (old : Option Elem) (g' : α) (c' : Ctx) (hr : o.set cfg s.elems (lvl + 1) k v c = .ok (ks, old, g', c'))
    (h1 : (MElemF.groupSlabUpdate o s g' c').1.hdr.size < 2^32) (h2 : (MElemF.groupSlabUpdate o s g' c').1.hdr.firstKey < 2^64) :
    mcl_slabAfterSet (mcl_envBG cfg G retr) k s c (u64 lvl) (.key k) (.val v) = (MElemF.groupSlabUpdate o s g' c').1 := by
  unfold mcl_slabAfterSet
  rw [mei_u64_succ, hB.dig k (lvl + 1) hl, MapDataSlab_Set_groupSlab_on o cfg k v _ hB s c (lvl + 1) () hl ha hQ, hr]
  exact mcl_dGroupSlab_c _ h1 h2

/-- export of an inline group: the slab rebuilt from the receiver state of the generated `inlineCollisionGroup_Set` is
    the slab the model embeds in the new external group -/
theorem mcl_export_eq (g : α) (c : Ctx) (lvl : Nat) (hk : UInt64) (hl : lvl + 1 < 2^64) (hL : cfg.L < 2^64)
    (hTe : maxInlineMapElem cfg.T < 2^32) (hQ : Qs g (lvl + 1) c)
    (hsz : ∀ ks old g' c', o.set cfg g (lvl + 1) k v c = .ok (ks, old, g', c') → o.size g' + 2 < 2^32)
    (id' : SlabID) (sz' : Nat) (s' : GroupSlab α) (ks : MKey) (old : Option Elem) (c' : Ctx)
    (h : MElemF.inlSet o cfg g lvl k v c = .ok (.ext id' sz' s', ks, old, c'))
    (h1 : s'.hdr.size < 2^32) (h2 : s'.hdr.firstKey < 2^64) :
    mcl_exportSlab (mcl_envBG cfg G retr) id'
      (mcl_groupAfterSet (mcl_envBG cfg G retr) k g c cfg.addr (u64 lvl) hk (.key k) (.val v)) = s' := by
  unfold mcl_groupAfterSet
  rw [inlineCollisionGroup_Set_eq_model_on o cfg k v _ hB g c lvl hk () hl hL hTe hsz hQ]
  simp only [MElemF.inlSet, bind, Except.bind, pure, Except.pure, throw, throwThe, MonadExceptOf.throw] at h
  by_cases hlv : lvl + 1 > cfg.L
  · rw [if_pos hlv] at h; simp at h
  · rw [if_neg hlv] at h
    simp only [hlv, if_false]
    rcases hr : o.set cfg g (lvl + 1) k v c with err | ⟨ks1, old1, g', c1⟩
    · rw [hr] at h; simp at h
    · rw [hr] at h
      simp only at h ⊢
      split at h
      · simp only [Except.ok.injEq, Prod.mk.injEq, MElemF.ext.injEq] at h
        obtain ⟨⟨hid, _, hs'⟩, _⟩ := h
        subst hs'
        simp only at h1 h2
        unfold mcl_exportSlab
        rw [hB.gSize, hB.gFirst]
        have e1 : UInt32.ofNat Gen.mapDataSlabPrefixSize + u32 (o.size g') = u32 (Gen.mapDataSlabPrefixSize + o.size g') :=
          msl_u32_add' _ _
        rw [e1, u32_toNat h1, u64_toNat h2, hid]
      · simp at h

/-- the inline group `singleElement.Set` builds on a collision is the model's `newWith` -/
theorem mcl_freshGroup_eq (x : SElem) (g : α) (lvl : Nat) (hl : lvl + 1 < 2^64) (hL : cfg.L < 2^64) (hx : x.size < 2^32)
    (hQn : Qn (lvl + 1) x) (hg : o.newWith cfg (lvl + 1) x = .ok g) :
    mcl_freshGroup (mcl_envBG cfg G retr) k x (u64 lvl) = g := by
  have hN := hB.newWith (lvl + 1) x g hl hx hQn hg
  unfold mcl_freshGroup
  rw [mei_u64_succ, hB.levels, hB.dig x.key (lvl + 1) hl]
  simp only [msl_u64_inj hl hL]
  by_cases h : lvl + 1 = cfg.L
  · rw [if_pos h] at hN ⊢; exact hN
  · rw [if_neg h] at hN ⊢; exact hN

theorem mcl_envA_set (el : MElemF α) (c : Ctx) (lvl : Nat) (hk : UInt64) (hL : cfg.L < 2^64)
    (hTe : maxInlineMapElem cfg.T < 2^32) (hP : mcl_Ps o cfg k v retr Qs Qn el lvl c) :
    (mcl_envA cfg (mcl_envBG cfg G retr) k).element_Set el c cfg.addr (u64 lvl) hk (.key k) (.val v) =
      mel_rESet c (el.set o cfg lvl k v c) := by
  have hgen := element_Set_eq_model_on o cfg k v _ hB el c lvl hk () hP.hl hL hTe hP.sz hP.single hP.ret
    (mcl_envBG_hset cfg G retr) hP.nested hP.new
  show (match Gen.TransElem.element_Set (mcl_envBG cfg G retr) (mei_cEl el) c cfg.addr () k (u64 lvl) hk (.key k) (.val v) with
    | some r => (mcl_dElS (mcl_envBG cfg G retr) k el c cfg.addr (u64 lvl) hk (.key k) (.val v) r.1, r.2.1, r.2.2.1, r.2.2.2.1, r.2.2.2.2.2)
    | none => (none, none, none, some .goPanic, c)) = _
  rcases hrun : Gen.TransElem.element_Set (mcl_envBG cfg G retr) (mei_cEl el) c cfg.addr () k (u64 lvl) hk (.key k) (.val v) with _ | r
  · rw [hrun] at hgen; exact absurd hgen (by simp)
  · rw [hrun, Option.map_some, Option.some.injEq] at hgen
    show (mcl_dElS (mcl_envBG cfg G retr) k el c cfg.addr (u64 lvl) hk (.key k) (.val v) r.1, r.2.1, r.2.2.1, r.2.2.2.1, r.2.2.2.2.2) = _
    have e1 : r.1 = (mei_rESet c (el.set o cfg lvl k v c)).1 := by rw [← hgen]
    have e2 : r.2.1 = (mei_rESet c (el.set o cfg lvl k v c)).2.1 := by rw [← hgen]
    have e3 : r.2.2.1 = (mei_rESet c (el.set o cfg lvl k v c)).2.2.1 := by rw [← hgen]
    have e4 : r.2.2.2.1 = (mei_rESet c (el.set o cfg lvl k v c)).2.2.2.1 := by rw [← hgen]
    have e5 : r.2.2.2.2.2 = (mei_rESet c (el.set o cfg lvl k v c)).2.2.2.2 := by rw [← hgen]
    rw [e1, e2, e3, e4, e5]
    have hres := hP.res
    rcases hm : el.set o cfg lvl k v c with err | ⟨el', ks, old, c'⟩
    · rfl
    · have hfit := hres el' ks old c' hm
      cases el' with
      | single x =>
        simp only [mei_rESet, mei_cEl, mcl_dElS, mel_rESet, mei_il_inv_cE x hfit]
      | inl g => rfl
      | ext id' sz' s' =>
        obtain ⟨hf1, hf2, hf3⟩ := hfit
        cases el with
        | single x =>
          obtain ⟨_, hxs, hnw⟩ := hP.single x rfl
          rcases hsame : x.key.same k with _ | _
          · obtain ⟨g, hg⟩ := hnw hsame
            have hset : MElemF.set o cfg (.single x) lvl k v c = MElemF.inlSet o cfg g lvl k v c := by
              simp [MElemF.set, hsame, hg, bind, Except.bind]
            rw [hset] at hm
            have hfresh := mcl_freshGroup_eq o cfg k v G retr hB x g lvl hP.hl hL hxs (hP.new x rfl) hg
            have hexp := mcl_export_eq o cfg k v G retr hB g c lvl hk hP.hl hL hTe
              (hP.nested g (Or.inr ⟨x, rfl, hg⟩)) (hP.sz g (Or.inr ⟨x, rfl, hg⟩)) id' sz' s' ks old c' hm hf2 hf3
            simp only [mei_rESet, mei_cEl, mcl_dElS, mel_rESet, hfresh, hexp, u32_toNat hf1]
          · simp [MElemF.set, hsame] at hm
        | inl g =>
          have hset : MElemF.set o cfg (.inl g) lvl k v c = MElemF.inlSet o cfg g lvl k v c := rfl
          rw [hset] at hm
          have hexp := mcl_export_eq o cfg k v G retr hB g c lvl hk hP.hl hL hTe
            (hP.nested g (Or.inl rfl)) (hP.sz g (Or.inl rfl)) id' sz' s' ks old c' hm hf2 hf3
          simp only [mei_rESet, mei_cEl, mcl_dElS, mel_rESet, hexp, u32_toNat hf1]
        | ext id sz s =>
          obtain ⟨ha, _⟩ := hP.ret id sz s rfl
          simp only [MElemF.set, bind, Except.bind, pure, Except.pure, throw, throwThe, MonadExceptOf.throw] at hm
          split at hm
          · simp at hm
          · rcases hr : o.set cfg s.elems (lvl + 1) k v c with e | ⟨a, b, g2, c2⟩
            · rw [hr] at hm; simp at hm
            · rw [hr] at hm
              simp only [Except.ok.injEq, Prod.mk.injEq, MElemF.ext.injEq] at hm
              obtain ⟨⟨hid, hsz', hs'⟩, _⟩ := hm
              subst hid hsz'
              have hslab := mcl_slabAfterSet_eq o cfg k v G retr hB s c lvl hP.hl ha (hP.nested s.elems (Or.inl rfl))
                a b g2 c2 hr (by rw [hs']; exact hf2) (by rw [hs']; exact hf3)
              simp only [mei_rESet, mei_cEl, mcl_dElS, mel_rESet, hslab, hs', u32_toNat hf1]

end stepASet
end Atree.TransEq
