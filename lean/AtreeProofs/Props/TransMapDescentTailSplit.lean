import AtreeProofs.Props.TransMapDescentInv
import AtreeProofs.Map.Root
/-
  MAP DESCENT, round 3 (WP13): the SPLIT tail of the `Set` composition discharged for the restructuring record built from
  the GENERATED code, `rs := rsOf T`, with the provider invariant `Q := MQ T D` (Props/TransMapDescentInv.lean):
  `MSplitTail_rsOf : MSplitTail T (rsOf T) (MQ T D)` (`MSplitTail` of Props/TransMapDescentSetFull.lean).
  From `MQ` of the full child: the model's `split` succeeds (`MTree.split_spec`), the range hypotheses of the generated
  `Split` hold (`msl_SplitOK`: exact size bookkeeping, sizes below `2 * maxThr`), both halves are valid slabs whose element
  groups are in the `uint` ranges (`mr_RootFit`); from `mds_Pre`: the allocated identifier is free (`mds_FreshFree`) and
  different from every identifier of the subtree (they all have a heap entry).  Then `Ob_SplitChildSlab_heap` /
  `Ob_SplitChildSlab_heapPost` (Props/TransMapRestructSplit.lean) give the call and the heap, and `mds_Post` is assembled.
  Helper names carry the prefix `mts_`.
-/
namespace Atree.TransEq
open Atree

section
variable {r : Nat} {T : Nat} {D : DigestFn (r + 1)}

/-! ## from the provider invariant to the hypotheses of the heap theorems -/

/-- the range hypotheses of the generated `Split` from the loose invariant and the slack bound -/
theorem mts_SplitOK_of_MQ (hT : legalThreshold T = true) : ∀ (d : Nat) (t : MTree r d), MQ T D d t → msl_SplitOK d t
  | 0, (s : MDataSlab r), hq => by
    have hs : MDataLoose T D false s := hq.sinv
    have hle : s.hdr.size ≤ maxThr T + (maxEntry T + 16) := hq.size_le
    have hei := hs.elems_inv
    simp only [ElemsInv] at hei
    have hpre := hs.prefix_nontop
    have hsz := hs.size_eq
    have hfit := msafe_elem_fits hT
    have hw : MDataWork T s := by
      refine ⟨hei.2.2.1, hei.2.2.2.2.1, by rw [hei.2.1]; decide, ?_⟩
      simp only [maxEntry, Gen.mapDataSlabPrefixSize] at hle hpre hfit
      omega
    have hf := msafe_work_fits hT hw
    have hl := hw.hkeys_len
    exact ⟨by omega, by simp only [Gen.mapDataSlabPrefixSize]; omega, hf.2.2.2, by omega⟩
  | d + 1, (m : MMetaSlab (MTree r d)), hq => by
    have hs : MetaLoose T D d false m ∧ 1 ≤ m.children.length := hq.sinv
    have hw : MMetaWork m := by
      show m.hdr.size = _
      rw [hs.1.2.2.1, hs.1.2.1, List.length_map]
    exact msafe_meta_hcov hw

/-- a valid non-root slab whose first-level digests are `uint64` values is in the `uint` ranges of the way back -/
theorem mts_RootFit_of_inv (hT : legalThreshold T = true) : ∀ (d : Nat) (t : MTree r d), MTreeInv T D d false t →
    (∀ x ∈ MTree.digests0 d t, x < 2^64) → mr_RootFit d t
  | 0, (s : MDataSlab r), hi, hd => by
    have hs : MDataInv T D false s := (mtreeInv_zero_iff T D false s).mp hi
    obtain ⟨hlv, _, _⟩ := msafe_elemsInv_top hs
    have h1 := hs.le_max
    have h2 := hs.size_eq
    have := thresholds_fit hT
    exact ⟨by omega, by rw [hlv]; decide, hd⟩
  | _ + 1, _, _, _ => trivial

theorem mts_RootFit_of_MQ (hT : legalThreshold T = true) : ∀ (d : Nat) (t : MTree r d), MQ T D d t → mr_RootFit d t
  | 0, (s : MDataSlab r), hq => by
    have hs : MDataLoose T D false s := hq.sinv
    have hle : s.hdr.size ≤ maxThr T + (maxEntry T + 16) := hq.size_le
    have hei := hs.elems_inv
    simp only [ElemsInv] at hei
    have hsz := hs.size_eq
    have hfit := msafe_elem_fits hT
    have := thresholds_fit hT
    refine ⟨?_, by rw [hei.2.1]; decide, hq.dig⟩
    simp only [maxEntry] at hle hfit
    omega
  | _ + 1, _, _ => trivial

theorem mts_isFull_lt (d : Nat) (t : MTree r d) (h : MTree.isFull T d t = true) : maxThr T < (MTree.hdr d t).size := by
  cases d with
  | zero => exact of_decide_eq_true h
  | succ d => exact of_decide_eq_true h

/-! ## identifiers -/

/-- `Split` distributes the slabs below the root over the halves, in order -/
theorem mts_split_kidIds (d : Nat) (child l rr : MTree r d) (c c1 : Ctx) (hsp : MTree.split d child c = .ok (l, rr, c1)) :
    mrs_kidIds d l ++ mrs_kidIds d rr = mrs_kidIds d child := by
  cases d with
  | zero => rfl
  | succ d =>
    simp only [MTree.split, MMetaSlab.split] at hsp
    split at hsp
    · cases hsp
    · cases hsp
      show List.flatMap _ (List.take _ _) ++ List.flatMap _ (List.drop _ _) = List.flatMap _ _
      rw [← List.flatMap_append, List.take_append_drop]

theorem mts_kidsHeld_of_holds (h : SlabID → Option (DSlab r)) (d : Nat) (t : MTree r d) (x : Option DX)
    (hh : MHolds h d t x) : mrs_KidsHeld h d t := by
  cases d with
  | zero => trivial
  | succ d => exact hh.2

theorem mts_set_insert {α : Type} (A B : List α) (c l rr : α) :
    ((A ++ c :: B).set A.length l).insertIdx (A.length + 1) rr = A ++ l :: rr :: B := by
  rw [mds_set_at]
  induction A with
  | nil => rfl
  | cons a A ih => simp [List.insertIdx_succ_cons, ih]

/-! ## the SPLIT tail -/

/-- **the SPLIT tail of the `Set` composition holds for the generated restructuring code** -/
theorem MSplitTail_rsOf (D : DigestFn (r + 1)) (hT : legalThreshold T = true) :
    MSplitTail T (rsOf (r := r) T) (MQ T D) := by
  intro addr d m1 x child' k s1 hpre hck hfull
  have hcm : child' ∈ m1.children := List.mem_of_getElem? hck
  have hQ := hpre.inv child' hcm
  have hfull' := mts_isFull_lt d child' hfull
  obtain ⟨l, rr, heq, hl, hr, hid1, hid2, _, hdg, _, _⟩ := MTree.split_spec hT d child' s1.ctx hQ.sinv hfull' hQ.size_le
  have hok := mts_SplitOK_of_MQ hT d child' hQ
  have hdl : ∀ y ∈ MTree.digests0 d l, y < 2^64 := fun y hy => hQ.dig y (by rw [hdg]; exact List.mem_append_left _ hy)
  have hdr : ∀ y ∈ MTree.digests0 d rr, y < 2^64 := fun y hy => hQ.dig y (by rw [hdg]; exact List.mem_append_right _ hy)
  have hfl := mts_RootFit_of_inv hT d l hl hdl
  have hfr := mts_RootFit_of_inv hT d rr hr hdr
  have hklen : k < m1.childHdrs.length := by
    rw [hpre.hdrs, List.length_map]
    exact (List.getElem?_eq_some_iff.mp hck).1
  rcases hm : m1.splitChildSlab child' k s1.ctx with e | ⟨m', c'⟩
  · exfalso
    simp only [MMetaSlab.splitChildSlab, heq, bind, Except.bind, pure, Except.pure] at hm
    cases hm
  · show ∃ s' w, _ ∧ _ ∧ _ ∧ _
    have hshape : m'.children = (m1.children.set k l).insertIdx (k + 1) rr ∧ m'.hdr.id = m1.hdr.id ∧
        c'.ctr = s1.ctx.ctr + 1 := by
      have hm2 := hm
      simp only [MMetaSlab.splitChildSlab, heq, bind, Except.bind, pure, Except.pure] at hm2
      cases hm2
      exact ⟨rfl, rfl, rfl⟩
    obtain ⟨hch0, hmid, hctr⟩ := hshape
    obtain ⟨hres, hctx⟩ := Ob_SplitChildSlab_heap T d m1 x child' k s1 hklen hok hm heq hfl hfr
    refine ⟨_, _, hres, hctx, rfl, ?_⟩
    -- identifiers
    have hsome : ∀ id ∈ md_ids (d + 1) m1, (s1.heap id).isSome = true := by
      intro id hid
      rcases List.mem_cons.mp hid with e | hmem
      · rw [e]; exact hpre.rootSome
      · obtain ⟨c, hc, hic⟩ := List.mem_flatMap.mp hmem
        exact mds_MHolds_some d c none s1.heap (hpre.held c hc) id hic
    obtain ⟨A, B, hAB, hAl⟩ := mds_split_at m1.children k child' hck
    have hI1 : md_ids (d + 1) m1 =
        m1.hdr.id :: (A.flatMap (md_ids d) ++ (md_ids d child' ++ B.flatMap (md_ids d))) := by
      show m1.hdr.id :: m1.children.flatMap (md_ids d) = _
      rw [hAB]; simp
    have hsubc : ∀ id ∈ md_ids d child', id ∈ md_ids (d + 1) m1 := fun id h => by
      rw [hI1]; exact List.mem_cons_of_mem _ (List.mem_append_right _ (List.mem_append_left _ h))
    have hcid : (MTree.hdr d child').id ∈ md_ids d child' := by rw [mrs_md_ids_eq]; exact List.mem_cons_self
    have hfaddr : (MTree.hdr d rr).id.addr = addr := by
      rw [hid2, mctx_alloc_addr]; exact hpre.addrOk _ (hsubc _ hcid)
    have hfidx : (MTree.hdr d rr).id.idx = s1.ctx.ctr + 1 := by rw [hid2, mctx_alloc_idx]
    have hfnone : s1.heap (MTree.hdr d rr).id = none := hpre.ff _ hfaddr (by rw [hfidx]; omega)
    have hfI1 : (MTree.hdr d rr).id ∉ md_ids (d + 1) m1 := fun h => by
      have := hsome _ h; rw [hfnone] at this; cases this
    have hndI := hpre.nodup
    rw [hI1] at hndI
    obtain ⟨hhead, htail⟩ := List.nodup_cons.mp hndI
    obtain ⟨_, hcB, hdisjA⟩ := List.nodup_append.mp htail
    obtain ⟨hcnd, _, hdisjB⟩ := List.nodup_append.mp hcB
    have hrootc : m1.hdr.id ∉ md_ids d child' := fun h =>
      hhead (List.mem_append_right _ (List.mem_append_left _ h))
    have hnd : (MTree.hdr d child').id ∉ mrs_kidIds d child' := by
      rw [mrs_md_ids_eq] at hcnd; exact (List.nodup_cons.mp hcnd).1
    have hroot1 : m1.hdr.id ∈ md_ids (d + 1) m1 := List.mem_cons_self
    obtain ⟨hp1, hp2, hp3, hp4⟩ := Ob_SplitChildSlab_heapPost d m1 m' x child' l rr k c' _ s1 hm heq
      (mts_kidsHeld_of_holds s1.heap d child' none (hpre.held child' hcm))
      (fun h => hfI1 (hsubc _ h)) (fun e => hfI1 (e ▸ hroot1)) hrootc hnd
    -- the identifier list of the new parent
    have hkid := mts_split_kidIds d child' l rr s1.ctx _ heq
    have hch' : m'.children = A ++ l :: rr :: B := by rw [hch0, hAB, ← hAl, mts_set_insert]
    have hI' : md_ids (d + 1) m' =
        (m1.hdr.id :: (A.flatMap (md_ids d) ++ (MTree.hdr d child').id :: mrs_kidIds d l)) ++
          (MTree.hdr d rr).id :: (mrs_kidIds d rr ++ B.flatMap (md_ids d)) := by
      show m'.hdr.id :: m'.children.flatMap (md_ids d) = _
      rw [hch', hmid]
      simp only [List.flatMap_append, List.flatMap_cons, mrs_md_ids_eq d l, mrs_md_ids_eq d rr, hid1,
        List.cons_append, List.append_assoc]
    have hI12 : md_ids (d + 1) m1 =
        (m1.hdr.id :: (A.flatMap (md_ids d) ++ (MTree.hdr d child').id :: mrs_kidIds d l)) ++
          (mrs_kidIds d rr ++ B.flatMap (md_ids d)) := by
      rw [hI1, mrs_md_ids_eq d child', ← hkid]
      simp only [List.cons_append, List.append_assoc]
    have hperm : (md_ids (d + 1) m').Perm ((MTree.hdr d rr).id :: md_ids (d + 1) m1) := by
      rw [hI', hI12]; exact List.perm_middle
    have hmem : ∀ id, id ∈ md_ids (d + 1) m' ↔ id = (MTree.hdr d rr).id ∨ id ∈ md_ids (d + 1) m1 := fun id => by
      rw [hperm.mem_iff, List.mem_cons]
    have hlI1 : (MTree.hdr d l).id ∈ md_ids (d + 1) m1 := by rw [hid1]; exact hsubc _ hcid
    -- frame for anything that is not one of the three stored identifiers
    have hframe : ∀ id, id ≠ (MTree.hdr d child').id → id ≠ (MTree.hdr d rr).id → id ≠ m1.hdr.id → _ = s1.heap id :=
      fun id h1 h2 h3 => hp4 id (by rw [hid1]; exact h1) h2 (by rw [hmid]; exact h3)
    have hsib : ∀ c ∈ m1.children, (∀ id ∈ md_ids d c, id ≠ (MTree.hdr d child').id) →
        MHolds (mrs_splitChildSt s1 m' x l rr (s1.ctx.alloc (MTree.hdr d child').id.addr).2).heap d c none := by
      intro c hc hne
      refine mrs_MHolds_congr d c none s1.heap _ (fun id hid => ?_) (hpre.held c hc)
      have hin : id ∈ md_ids (d + 1) m1 := List.mem_cons_of_mem _ (List.mem_flatMap.mpr ⟨c, hc, hid⟩)
      refine hframe id (hne id hid) (fun e => hfI1 (e ▸ hin)) (fun e => ?_)
      have hnd1 := hpre.nodup
      have : m1.hdr.id ∉ m1.children.flatMap (md_ids d) := (List.nodup_cons.mp hnd1).1
      exact this (e ▸ List.mem_flatMap.mpr ⟨c, hc, hid⟩)
    refine ⟨hperm.nodup_iff.mpr (List.nodup_cons.mpr ⟨hfI1, hpre.nodup⟩), ?_, ⟨hp3, ?_⟩, ?_, ?_, ?_, ?_⟩
    · intro id hid
      rcases (hmem id).mp hid with e | h
      · rw [e]; exact hfaddr
      · exact hpre.addrOk id h
    · intro c hc
      rw [hch'] at hc
      rcases List.mem_append.mp hc with hcA | hc2
      · refine hsib c (by rw [hAB]; exact List.mem_append_left _ hcA) (fun id hid e => ?_)
        exact hdisjA id (List.mem_flatMap.mpr ⟨c, hcA, hid⟩) _ (List.mem_append_left _ hcid) e
      · rcases List.mem_cons.mp hc2 with e | hc3
        · rw [e]; exact hp1
        · rcases List.mem_cons.mp hc3 with e | hcB'
          · rw [e]; exact hp2
          · refine hsib c (by rw [hAB]; exact List.mem_append_right _ (List.mem_cons_of_mem _ hcB'))
              (fun id hid e => ?_)
            exact hdisjB _ hcid id (List.mem_flatMap.mpr ⟨c, hcB', hid⟩) e.symm
    · intro id hid hn
      rcases (hmem id).mp hid with e | h
      · rw [e]; exact hfnone
      · exact absurd h hn
    · intro id hid hn
      exact absurd ((hmem id).mpr (Or.inr hid)) hn
    · intro id hn hn'
      exact hframe id (fun e => hn (e ▸ hsubc _ hcid)) (fun e => hn' ((hmem id).mpr (Or.inl e)))
        (fun e => hn (e ▸ hroot1))
    · intro id ha hlt
      have hlt' : c'.ctr < id.idx := hctx ▸ hlt
      have hnone : s1.heap id = none := hpre.ff id ha (by omega)
      have hnI : id ∉ md_ids (d + 1) m1 := fun h => by
        have := hsome id h; rw [hnone] at this; cases this
      have hnf : id ≠ (MTree.hdr d rr).id := fun e => by rw [e, hfidx] at hlt'; omega
      rw [hframe id (fun e => hnI (e ▸ hsubc _ hcid)) hnf (fun e => hnI (e ▸ hroot1))]
      exact hnone

/-! ## the `splitRoot` field of `MRootTail`

  NOTE (model-level finding): the field `MRootTail.splitRoot` CANNOT be proved for `Q := MQ T D` as it stands.  `MQ` fixes
  `top := false` (`SInv T D d false`: `MetaLoose .. false m` demands `m.root = false`, `MDataLoose .. false s` demands
  `s.root = false` and the non-root prefix), while the new root built by `OMap.splitRoot` has `root := true`, so
  `mds_RootPre (MQ T D) addr s3 m3 _` (its field `inv : MQ T D m3.d m3.root`) is false for the model's result; for the same
  reason `mds_RootPre (MQ T D)` does not hold of a real handle (whose root slab has `root = true`).  The handle-level
  predicate has to be a `top := true` variant of `MQ`.  What is proved here is the field for ANY `Q`, with the facts about
  `Q` as explicit hypotheses ABOUT MODEL VALUES ONLY:
  * `hHyp`: `Q` of the root gives the range hypotheses `root_splitHyp` of the generated `splitRoot`;
  * `hFit`: the halves of the model's split of the old root are in the `uint` ranges (`mr_RootFit`);
  * `hFitRoot` (error case only): the root is in the `uint` ranges;
  * `hQ'`: the model's `OMap.splitRoot` re-establishes `Q` on the new root. -/

theorem mts_split_ctx (d : Nat) (child l rr : MTree r d) (c c1 : Ctx) (hsp : MTree.split d child c = .ok (l, rr, c1)) :
    c1 = (c.alloc (MTree.hdr d child).id.addr).2 := by
  cases d with
  | zero =>
    simp only [MTree.split, MDataSlab.split] at hsp
    split at hsp
    · cases hsp
    · cases hsp; rfl
  | succ d =>
    simp only [MTree.split, MMetaSlab.split] at hsp
    split at hsp
    · cases hsp
    · cases hsp; rfl

/-- the `splitRoot` field of `MRootTail T (rsOf T) Q`, for any provider invariant `Q` (see the note above) -/
theorem MRootTail_splitRoot_rsOf_partial (Q : (d : Nat) → MTree r d → Prop)
    (hHyp : ∀ m : OMap r, Q m.d m.root → root_splitHyp m)
    (hFit : ∀ (m : OMap r) (c : Ctx) (l rr : MTree r m.d) (c2 : Ctx), Q m.d m.root → MTree.isFull T m.d m.root = true →
      MTree.split m.d (mrs_rootOld m c) (c.alloc m.rootID.addr).2 = .ok (l, rr, c2) → mr_RootFit m.d l ∧ mr_RootFit m.d rr)
    (hFitRoot : ∀ m : OMap r, Q m.d m.root → mr_RootFit m.d m.root)
    (hQ' : ∀ (m : OMap r) (c : Ctx) (m3 : OMap r) (c3 : Ctx), Q m.d m.root → MTree.isFull T m.d m.root = true →
      m.splitRoot c = .ok (m3, c3) → Q m3.d m3.root) :
    ∀ (addr : Nat) (m2 : OMap r) (s2 : MHSt r) (x0 : Option DX),
      mds_RootPre Q addr s2 m2 x0 → MTree.isFull T m2.d m2.root = true →
      match m2.splitRoot s2.ctx with
      | .ok (m3, c3) =>
        ∃ s3, (rsOf T).splitRoot (md_map m2 s2) = (none, md_map m3 s3) ∧ s3.ctx = c3 ∧ s3.popped = s2.popped ∧
          mds_RootPre Q addr s3 m3 (some (md_extra m3)) ∧
          mds_Delta s2.heap s3.heap (md_ids m2.d m2.root) (md_ids m3.d m3.root)
      | .error e => ∃ M', (rsOf T).splitRoot (md_map m2 s2) = (some e, M') := by
  intro addr m2 s2 x0 hpre hfull
  have hmod := mrs_splitRoot_model m2 s2.ctx
  rcases hsp : MTree.split m2.d (mrs_rootOld m2 s2.ctx) (s2.ctx.alloc m2.rootID.addr).2 with e | ⟨l, rr, c2⟩
  · simp only [hsp] at hmod
    rw [hmod]
    exact ⟨_, Ob_splitRoot_heap_error T m2 s2 (hHyp m2 hpre.inv) hmod (hFitRoot m2 hpre.inv)⟩
  · simp only [hsp] at hmod
    obtain ⟨hfl, hfr⟩ := hFit m2 s2.ctx l rr c2 hpre.inv hfull hsp
    obtain ⟨hres, hctx, _⟩ := Ob_splitRoot_heap T m2 s2 (hHyp m2 hpre.inv) hmod hsp hfl hfr
    have hQ3 := hQ' m2 s2.ctx _ _ hpre.inv hfull hmod
    rw [hmod]
    show ∃ s3, _ ∧ _ ∧ _ ∧ _ ∧ _
    refine ⟨_, hres, hctx, rfl, ?_⟩
    -- identifiers
    obtain ⟨hoid, hokids, _⟩ := mrs_rootOld_shape m2 s2.ctx
    obtain ⟨hlid, hrid, _, _⟩ := mrs_split_shape m2.d (mrs_rootOld m2 s2.ctx) l rr _ c2 hsp
    have hkid := mts_split_kidIds m2.d (mrs_rootOld m2 s2.ctx) l rr _ c2 hsp
    rw [hokids] at hkid
    have hc2 := mts_split_ctx m2.d (mrs_rootOld m2 s2.ctx) l rr _ c2 hsp
    have hI : md_ids m2.d m2.root = m2.rootID :: mrs_kidIds m2.d m2.root := mrs_md_ids_eq m2.d m2.root
    have hsome : ∀ id ∈ md_ids m2.d m2.root, (s2.heap id).isSome = true :=
      mds_MHolds_some m2.d m2.root x0 s2.heap hpre.held
    have hrootI : m2.rootID ∈ md_ids m2.d m2.root := by rw [hI]; exact List.mem_cons_self
    have hraddr : m2.rootID.addr = addr := hpre.addrOk _ hrootI
    have hl1 : (MTree.hdr m2.d l).id = (s2.ctx.alloc m2.rootID.addr).1 := by rw [hlid, hoid]
    have hladdr : (MTree.hdr m2.d l).id.addr = addr := by rw [hl1, mctx_alloc_addr]; exact hraddr
    have hlidx : (MTree.hdr m2.d l).id.idx = s2.ctx.ctr + 1 := by rw [hl1, mctx_alloc_idx]
    have hraddr2 : (MTree.hdr m2.d rr).id.addr = addr := by
      rw [hrid, mctx_alloc_addr, ← hlid]; exact hladdr
    have hridx : (MTree.hdr m2.d rr).id.idx = s2.ctx.ctr + 2 := by
      rw [hrid, mctx_alloc_idx, mctx_alloc_ctr]
    have hlnone : s2.heap (MTree.hdr m2.d l).id = none := hpre.ff _ hladdr (by rw [hlidx]; omega)
    have hrnone : s2.heap (MTree.hdr m2.d rr).id = none := hpre.ff _ hraddr2 (by rw [hridx]; omega)
    have hlI : (MTree.hdr m2.d l).id ∉ md_ids m2.d m2.root := fun h => by
      have := hsome _ h; rw [hlnone] at this; cases this
    have hrI : (MTree.hdr m2.d rr).id ∉ md_ids m2.d m2.root := fun h => by
      have := hsome _ h; rw [hrnone] at this; cases this
    have hrl : (MTree.hdr m2.d rr).id ≠ (MTree.hdr m2.d l).id := fun e => by
      have := congrArg SlabID.idx e; rw [hlidx, hridx] at this; omega
    have hndI := hpre.nodup
    rw [hI] at hndI
    have hrootK : m2.rootID ∉ mrs_kidIds m2.d m2.root := (List.nodup_cons.mp hndI).1
    have hKI : ∀ id ∈ mrs_kidIds m2.d m2.root, id ∈ md_ids m2.d m2.root := fun id h => by
      rw [hI]; exact List.mem_cons_of_mem _ h
    obtain ⟨hheld, hframe⟩ := Ob_splitRoot_heapPost m2 s2 hsp
      (mts_kidsHeld_of_holds s2.heap m2.d m2.root x0 hpre.held)
      (fun h => hlI (hKI _ h)) (fun h => hrI (hKI _ h)) hrl (fun e => hlI (e ▸ hrootI)) (fun e => hrI (e ▸ hrootI)) hrootK
    -- the identifier list of the new tree
    have hI' : md_ids (m2.d + 1) (mrs_newRoot m2 l rr) =
        (m2.rootID :: (MTree.hdr m2.d l).id :: mrs_kidIds m2.d l) ++ (MTree.hdr m2.d rr).id :: mrs_kidIds m2.d rr := by
      show m2.rootID :: List.flatMap (md_ids m2.d) [l, rr] = _
      simp only [List.flatMap_cons, List.flatMap_nil, List.append_nil, mrs_md_ids_eq m2.d l, mrs_md_ids_eq m2.d rr,
        List.cons_append]
    have hperm : (md_ids (m2.d + 1) (mrs_newRoot m2 l rr)).Perm
        ((MTree.hdr m2.d rr).id :: (MTree.hdr m2.d l).id :: md_ids m2.d m2.root) := by
      rw [hI', hI, ← hkid]
      refine List.perm_middle.trans (List.Perm.cons _ ?_)
      exact List.Perm.swap _ _ _
    have hmem : ∀ id, id ∈ md_ids (m2.d + 1) (mrs_newRoot m2 l rr) ↔
        id = (MTree.hdr m2.d rr).id ∨ id = (MTree.hdr m2.d l).id ∨ id ∈ md_ids m2.d m2.root := fun id => by
      rw [hperm.mem_iff, List.mem_cons, List.mem_cons]
    have hnd' : (md_ids (m2.d + 1) (mrs_newRoot m2 l rr)).Nodup := by
      refine hperm.nodup_iff.mpr (List.nodup_cons.mpr ⟨fun h => ?_, List.nodup_cons.mpr ⟨hlI, hpre.nodup⟩⟩)
      rcases List.mem_cons.mp h with e | h
      · exact hrl e
      · exact hrI h
    have hctr3 : ∀ id : SlabID, id.addr = addr → s2.ctx.ctr + 2 < id.idx → s2.heap id = none ∧
        id ≠ (MTree.hdr m2.d l).id ∧ id ≠ (MTree.hdr m2.d rr).id ∧ id ≠ m2.rootID := by
      intro id ha hlt
      have hnone : s2.heap id = none := hpre.ff id ha (by omega)
      refine ⟨hnone, fun e => ?_, fun e => ?_, fun e => ?_⟩
      · rw [e, hlidx] at hlt; omega
      · rw [e, hridx] at hlt; omega
      · have := hsome _ hrootI; rw [← e, hnone] at this; cases this
    refine ⟨⟨hheld, hnd', ?_, ?_, hQ3⟩, ⟨?_, ?_, ?_⟩⟩
    · intro id hid
      rcases (hmem id).mp hid with e | e | h
      · rw [e]; exact hraddr2
      · rw [e]; exact hladdr
      · exact hpre.addrOk id h
    · intro id ha hlt
      have hlt' : s2.ctx.ctr + 2 < id.idx := by
        have h1 : (((c2.emit (.store (MTree.hdr m2.d l).id)).emit (.store (MTree.hdr m2.d rr).id)).emit
          (.store m2.rootID)).ctr < id.idx := hctx ▸ hlt
        rw [hc2] at h1
        exact h1
      obtain ⟨hnone, h1, h2, h3⟩ := hctr3 id ha hlt'
      rw [hframe id h1 h2 h3]; exact hnone
    · intro id hid hn
      rcases (hmem id).mp hid with e | e | h
      · rw [e]; exact hrnone
      · rw [e]; exact hlnone
      · exact absurd h hn
    · intro id hid hn
      exact absurd ((hmem id).mpr (Or.inr (Or.inr hid))) hn
    · intro id hn hn'
      exact hframe id (fun e => hn' ((hmem id).mpr (Or.inr (Or.inl e)))) (fun e => hn' ((hmem id).mpr (Or.inl e)))
        (fun e => hn (e ▸ hrootI))

/-- EVIDENCE for the note above: `MQ T D` is false of every root `OMap.splitRoot` builds (its `root` flag is `true`, `MQ`
    demands `top = false`), so `mds_RootPre (MQ T D) _ _ m3 _` cannot hold of the model's result -/
theorem mts_MQ_newRoot_false (m : OMap r) (l rr : MTree r m.d) : ¬ MQ T D (m.d + 1) (mrs_newRoot m l rr) := by
  intro h
  have h1 : MetaLoose T D m.d false (mrs_newRoot m l rr) ∧ 1 ≤ (mrs_newRoot m l rr).children.length := h.sinv
  have h2 : (mrs_newRoot m l rr).root = false := h1.1.1
  cases h2

theorem mts_MQ_splitRoot_false (m m3 : OMap r) (c c3 : Ctx) (h : m.splitRoot c = .ok (m3, c3)) : ¬ MQ T D m3.d m3.root := by
  rw [mrs_splitRoot_model] at h
  rcases hsp : MTree.split m.d (mrs_rootOld m c) (c.alloc m.rootID.addr).2 with e | ⟨l, rr, c2⟩
  · simp only [hsp] at h; cases h
  · simp only [hsp] at h
    cases h
    exact mts_MQ_newRoot_false m l rr

/-! ## the `splitRoot` field for a handle-level (`top := true`) provider invariant -/

/-- the `top := true` variant of `MQ`: what the handle's root satisfies when `splitRootIfFull` looks at it (loose root
    invariant, not inlined, at most one entry / header over the band, `uint64` digests) -/
def mts_MQtop (T : Nat) (D : DigestFn (r + 1)) (d : Nat) (t : MTree r d) : Prop :=
  SInv T D d true t ∧ treeInl d t = false ∧ (MTree.hdr d t).size ≤ maxThr T + slack1 T d ∧
    ∀ x ∈ MTree.digests0 d t, x < 2^64

/-- the old root of Props/TransMapRestructRoot.lean is the model proofs' `deroot` -/
theorem mts_rootOld_eq (d : Nat) (root : MTree r d) (ty cnt seed : Nat) (c : Ctx) :
    mrs_rootOld (⟨d, root, ty, cnt, seed⟩ : OMap r) c = deroot d root (c.alloc (MTree.hdr d root).id.addr).1 := by
  cases d <;> rfl

/-- under `mts_MQtop` a full root is split by the model into two valid non-root slabs -/
theorem mts_rootSplit (hT : legalThreshold T = true) (d : Nat) (root : MTree r d) (ty cnt seed : Nat) (c : Ctx)
    (hq : mts_MQtop T D d root) (hfull : MTree.isFull T d root = true) :
    ∃ l rr c2, MTree.split d (mrs_rootOld (⟨d, root, ty, cnt, seed⟩ : OMap r) c)
        (c.alloc (OMap.rootID (⟨d, root, ty, cnt, seed⟩ : OMap r)).addr).2 = .ok (l, rr, c2) ∧
      MTreeInv T D d false l ∧ MTreeInv T D d false rr ∧
      (MTree.hdr d l).id.addr = (MTree.hdr d root).id.addr ∧ (MTree.hdr d rr).id.addr = (MTree.hdr d root).id.addr ∧
      MTree.digests0 d root = MTree.digests0 d l ++ MTree.digests0 d rr := by
  obtain ⟨hS, hinl, hle, _⟩ := hq
  have F := deroot_facts (T := T) (D := D) d root (c.alloc (MTree.hdr d root).id.addr).1 hS hinl rfl
  obtain ⟨l, rr, heq, hl, hr, hid1, hid2, _, hdg, _, _⟩ := MTree.split_spec hT d
    (deroot d root (c.alloc (MTree.hdr d root).id.addr).1) (c.alloc (MTree.hdr d root).id.addr).2
    F.sinv (F.full (mts_isFull_lt d root hfull)) (F.le hle)
  have heq' := heq
  rw [← mts_rootOld_eq d root ty cnt seed c] at heq'
  refine ⟨l, rr, _, heq', hl, hr, ?_, ?_, ?_⟩
  · rw [hid1, F.id]; rfl
  · rw [hid2, F.id]; rfl
  · rw [← F.digs]; exact hdg

theorem mts_SplitOK_of_top (hT : legalThreshold T = true) : ∀ (d : Nat) (t : MTree r d), mts_MQtop T D d t → msl_SplitOK d t
  | 0, (s : MDataSlab r), hq => by
    have hs : MDataLoose T D true s := hq.1
    have hle : s.hdr.size ≤ maxThr T + maxEntry T := hq.2.2.1
    have hei := hs.elems_inv
    simp only [ElemsInv] at hei
    have hsz := hs.size_eq
    have hfit := msafe_elem_fits hT
    have hw : MDataWork T s := by
      refine ⟨hei.2.2.1, hei.2.2.2.2.1, by rw [hei.2.1]; decide, ?_⟩
      simp only [maxEntry] at hle hfit
      omega
    have hf := msafe_work_fits hT hw
    have hl := hw.hkeys_len
    exact ⟨by omega, by simp only [Gen.mapDataSlabPrefixSize]; omega, hf.2.2.2, by omega⟩
  | d + 1, (m : MMetaSlab (MTree r d)), hq => by
    have hs : MetaLoose T D d true m ∧ 1 ≤ m.children.length := hq.1
    have hw : MMetaWork m := by
      show m.hdr.size = _
      rw [hs.1.2.2.1, hs.1.2.1, List.length_map]
    exact msafe_meta_hcov hw

theorem mts_hHyp_top (hT : legalThreshold T = true) (m : OMap r) (hq : mts_MQtop T D m.d m.root) : root_splitHyp m := by
  obtain ⟨d, root, ty, cnt, seed⟩ := m
  cases d with
  | zero => exact mts_SplitOK_of_top hT 0 root hq
  | succ d => exact mts_SplitOK_of_top hT (d + 1) root hq

theorem mts_RootFit_of_top (hT : legalThreshold T = true) : ∀ (d : Nat) (t : MTree r d), mts_MQtop T D d t → mr_RootFit d t
  | 0, (s : MDataSlab r), hq => by
    have hs : MDataLoose T D true s := hq.1
    have hle : s.hdr.size ≤ maxThr T + maxEntry T := hq.2.2.1
    have hei := hs.elems_inv
    simp only [ElemsInv] at hei
    have hsz := hs.size_eq
    have hfit := msafe_elem_fits hT
    have := thresholds_fit hT
    refine ⟨?_, by rw [hei.2.1]; decide, hq.2.2.2⟩
    simp only [maxEntry] at hle hfit
    omega
  | _ + 1, _, _ => trivial

/-- **the `splitRoot` field of `MRootTail T (rsOf T) Q` for the handle-level invariant `Q := mts_MQtop T D`** -/
theorem MRootTail_splitRoot_rsOf_top (D : DigestFn (r + 1)) (hT : legalThreshold T = true) :
    ∀ (addr : Nat) (m2 : OMap r) (s2 : MHSt r) (x0 : Option DX),
      mds_RootPre (mts_MQtop T D) addr s2 m2 x0 → MTree.isFull T m2.d m2.root = true →
      match m2.splitRoot s2.ctx with
      | .ok (m3, c3) =>
        ∃ s3, (rsOf T).splitRoot (md_map m2 s2) = (none, md_map m3 s3) ∧ s3.ctx = c3 ∧ s3.popped = s2.popped ∧
          mds_RootPre (mts_MQtop T D) addr s3 m3 (some (md_extra m3)) ∧
          mds_Delta s2.heap s3.heap (md_ids m2.d m2.root) (md_ids m3.d m3.root)
      | .error e => ∃ M', (rsOf T).splitRoot (md_map m2 s2) = (some e, M') := by
  refine MRootTail_splitRoot_rsOf_partial (mts_MQtop T D) (fun m hq => mts_hHyp_top hT m hq) ?_
    (fun m hq => mts_RootFit_of_top hT m.d m.root hq) ?_
  · intro m c l rr c2 hq hfull hsp
    obtain ⟨d, root, ty, cnt, seed⟩ := m
    obtain ⟨l', rr', c2', heq, hl, hr, _, _, hdg⟩ := mts_rootSplit hT d root ty cnt seed c hq hfull
    have hsp' : MTree.split d (mrs_rootOld (⟨d, root, ty, cnt, seed⟩ : OMap r) c)
        (c.alloc (OMap.rootID (⟨d, root, ty, cnt, seed⟩ : OMap r)).addr).2 = .ok (l, rr, c2) := hsp
    rw [heq] at hsp'
    cases hsp'
    exact ⟨mts_RootFit_of_inv hT d l hl (fun y hy => hq.2.2.2 y (by rw [hdg]; exact List.mem_append_left _ hy)),
      mts_RootFit_of_inv hT d rr hr (fun y hy => hq.2.2.2 y (by rw [hdg]; exact List.mem_append_right _ hy))⟩
  · intro m c m3 c3 hq hfull hsr
    obtain ⟨d, root, ty, cnt, seed⟩ := m
    obtain ⟨l, rr, c2, heq, hl, hr, ha1, ha2, hdg⟩ := mts_rootSplit hT d root ty cnt seed c hq hfull
    have hmod := mrs_splitRoot_model (⟨d, root, ty, cnt, seed⟩ : OMap r) c
    simp only [heq] at hmod
    rw [hmod] at hsr
    cases hsr
    have hb := map_legal_bounds hT
    have hdigs : MTree.digests0 (d + 1) (mrs_newRoot (⟨d, root, ty, cnt, seed⟩ : OMap r) l rr) = MTree.digests0 d root := by
      show List.flatMap (MTree.digests0 d) [l, rr] = _
      simp only [List.flatMap_cons, List.flatMap_nil, List.append_nil]
      exact hdg.symm
    refine ⟨⟨MetaLoose.mk' rfl rfl rfl rfl ?_ ?_, by show 1 ≤ 2; omega⟩, rfl, ?_, ?_⟩
    · intro x hx
      have hx' : x ∈ [l, rr] := hx
      simp only [List.mem_cons, List.mem_nil_iff, or_false] at hx'
      rcases hx' with rfl | rfl
      · exact ⟨hl, ha1, hl.fk hT⟩
      · exact ⟨hr, ha2, hr.fk hT⟩
    · show (MTree.digests0 (d + 1) (mrs_newRoot (⟨d, root, ty, cnt, seed⟩ : OMap r) l rr)).Pairwise (· < ·)
      rw [hdigs]; exact SInv.sorted d true root hq.1
    · show Gen.mapMetaDataSlabPrefixSize + Gen.mapSlabHeaderSize * 2 ≤ maxThr T + Gen.mapSlabHeaderSize
      simp only [Gen.mapMetaDataSlabPrefixSize, Gen.mapSlabHeaderSize, maxThr]; omega
    · intro y hy
      have hy' : y ∈ MTree.digests0 (d + 1) (mrs_newRoot (⟨d, root, ty, cnt, seed⟩ : OMap r) l rr) := hy
      rw [hdigs] at hy'
      exact hq.2.2.2 y hy'

end

end Atree.TransEq
