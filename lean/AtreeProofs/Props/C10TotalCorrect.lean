import AtreeProofs.Props.C10Total
import AtreeProofs.Props.C10WPopOps
/-
  C10 — TOTAL CORRECTNESS, assembled: success (`Props/C10Total.lean`) together with what the
  successful operation did (`Props/C10WPopOps.lean`, `Props/C10WPop.lean`) and the invariance of
  `KeyedClosures`.  PROPERTY THEOREMS.  The pair `WorldOk' ∧ KeyedClosures` is an invariant of
  every operation, from the empty world on; under it, an operation through a current handle with
  in-range / well-formed arguments SUCCEEDS AND has its list-level effect: the statements below are
  the unconditional forms ("there is a result, and it is the right one") of the operation theorems
  of `C10WPopOps` (which start from `w.op … = .ok …`).
-/
namespace Atree.C10Total
open Atree Gen World

/-- the invariant of the totality theorems -/
def Inv (D : SlabID → DigestFn 4) (w : World) (ctr : Nat) : Prop := WorldOk' D w ctr ∧ KeyedClosures w

/-- the empty world satisfies it -/
theorem inv_new (D : SlabID → DigestFn 4) (T addr ctr : Nat) (hT : legalThreshold T = true) :
    Inv D { T := T, addr := addr } ctr :=
  ⟨C10W.worldOk'_new D T addr ctr hT, keyed_empty T addr⟩

theorem inv_newArr (D : SlabID → DigestFn 4) (w : World) (ty : Nat) (cx : Ctx) (H : Inv D w cx.ctr) :
    Inv D (w.newArr ty cx).2.1 (w.newArr ty cx).2.2.ctr :=
  ⟨(C10W.worldOk'_newArr D w ty cx H.1).1, keyed_newArr ty cx H.2⟩

theorem inv_newMap (D : SlabID → DigestFn 4) (w : World) (ty seed : Nat) (cx : Ctx) (H : Inv D w cx.ctr) :
    Inv D (w.newMap ty seed cx).2.1 (w.newMap ty seed cx).2.2.ctr :=
  ⟨(C10W.worldOk'_newMap D w ty seed cx H.1).1, (keyedClosures_init D).2.2.1 w ty seed cx H.1 H.2⟩

/-- `Array.Insert` through a current handle, index in range, array not full: SUCCEEDS, keeps the
    invariant, inserts the element at `i` (`InsertedAt`), keeps the handle current and every other
    container's content -/
theorem arrInsert_total_correct (D : SlabID → DigestFn 4) (w : World) (p : SlabID) (i : Nat) (v : WVal) (cx : Ctx)
    (a : Arr) (H : Inv D w cx.ctr) (hh : HandleOk w p) (hv : WValOk w p (maxInlineArr w.T) v)
    (hpa : w.cont? p = some (.arr a)) (hi : i ≤ a.toList.length) (hcount : a.count < maxArrayElementCount) :
    ∃ w' cx', w.arrInsert p i v cx = .ok (w', cx') ∧ Inv D w' cx'.ctr ∧ cx.ctr ≤ cx'.ctr ∧
      InsertedAt w w' p i v ∧ HandleOk w' p ∧ SigFrame w w' p := by
  obtain ⟨w', cx', h⟩ := arrInsert_total D w p i v cx a H.1 H.2 hh hv hpa hi hcount
  obtain ⟨g1, g2, g3, g4, g5⟩ := C10W.worldOk'_arrInsert D w p i v cx w' cx' H.1 hh hv h
  exact ⟨w', cx', h, ⟨g1, (kstep_arrInsert h).2 H.2⟩, g2, g3, g4, g5⟩

/-- `Array.Set`, index in range -/
theorem arrSet_total_correct (D : SlabID → DigestFn 4) (w : World) (p : SlabID) (i : Nat) (v : WVal) (cx : Ctx)
    (a : Arr) (H : Inv D w cx.ctr) (hh : HandleOk w p) (hv : WValOk w p (maxInlineArr w.T) v)
    (hpa : w.cont? p = some (.arr a)) (hi : i < a.toList.length) :
    ∃ old w' cx', w.arrSet p i v cx = .ok (old, w', cx') ∧ Inv D w' cx'.ctr ∧ cx.ctr ≤ cx'.ctr ∧
      SetAt w w' p i v old ∧ HandleOk w' p ∧ SigFrame w w' p := by
  obtain ⟨old, w', cx', h⟩ := arrSet_total D w p i v cx a H.1 H.2 hh hv hpa hi
  obtain ⟨g1, g2, g3, g4, g5⟩ := C10W.worldOk'_arrSet D w p i v cx old w' cx' H.1 hh hv h
  exact ⟨old, w', cx', h, ⟨g1, (kstep_arrSet h).2 H.2⟩, g2, g3, g4, g5⟩

/-- `Array.Remove`, index in range -/
theorem arrRemove_total_correct (D : SlabID → DigestFn 4) (w : World) (p : SlabID) (i : Nat) (cx : Ctx)
    (a : Arr) (H : Inv D w cx.ctr) (hh : HandleOk w p)
    (hpa : w.cont? p = some (.arr a)) (hi : i < a.toList.length) :
    ∃ old w' cx', w.arrRemove p i cx = .ok (old, w', cx') ∧ Inv D w' cx'.ctr ∧ cx.ctr ≤ cx'.ctr ∧
      RemovedAt w w' p i old ∧ HandleOk w' p ∧ SigFrame w w' p := by
  obtain ⟨old, w', cx', h⟩ := arrRemove_total D w p i cx a H.1 H.2 hh hpa hi
  obtain ⟨g1, g2, g3, g4, g5⟩ := C10W.worldOk'_arrRemove D w p i cx old w' cx' H.1 hh h
  exact ⟨old, w', cx', h, ⟨g1, (kstep_arrRemove h).2 H.2⟩, g2, g3, g4, g5⟩

/-- `OrderedMap.Set`, unless the collision limit refuses the key -/
theorem mapSet_total_correct (D : SlabID → DigestFn 4) (w : World) (p : SlabID) (k : MKey) (v : WVal) (cx : Ctx)
    (m : OMap 3) (H : Inv D w cx.ctr) (hh : HandleOk w p) (hk : KeyOk w.T 4 (D p) k)
    (hv : WValOk w p (maxInlineMapValue w.T k.size) v) (hpm : w.cont? p = some (.map m))
    (hnl : ¬ TLimited w.mcfg m.d m.root k) :
    ∃ old w' cx', w.mapSet p k v cx = .ok (old, w', cx') ∧ Inv D w' cx'.ctr ∧ cx.ctr ≤ cx'.ctr ∧
      MapSetAt w w' p k v old ∧ HandleOk w' p ∧ SigFrame w w' p := by
  obtain ⟨old, w', cx', h⟩ := mapSet_total D w p k v cx m H.1 H.2 hh hk hv hpm hnl
  obtain ⟨g1, g2, g3, g4, g5⟩ := C10W.worldOk'_mapSet D w p k v cx old w' cx' H.1 hh hk hv h
  exact ⟨old, w', cx', h, ⟨g1, (kstep_mapSet h).2 H.2⟩, g2, g3, g4, g5⟩

/-- `OrderedMap.Remove`, key present -/
theorem mapRemove_total_correct (D : SlabID → DigestFn 4) (w : World) (p : SlabID) (k : MKey) (cx : Ctx)
    (m : OMap 3) (rv : Elem) (H : Inv D w cx.ctr) (hh : HandleOk w p) (hk : KeyOk w.T 4 (D p) k)
    (hpm : w.cont? p = some (.map m)) (hmem : (k, rv) ∈ m.toList) :
    ∃ rv' w' cx', w.mapRemove p k cx = .ok (k, rv', w', cx') ∧ Inv D w' cx'.ctr ∧ cx.ctr ≤ cx'.ctr ∧
      MapRemovedAt w w' p k k rv' ∧ HandleOk w' p ∧ SigFrame w w' p := by
  obtain ⟨rv', w', cx', h⟩ := mapRemove_total D w p k cx m rv H.1 H.2 hh hk hpm hmem
  obtain ⟨g1, g2, g3, g4, g5⟩ := C10W.worldOk'_mapRemove D w p k cx k rv' w' cx' H.1 hh hk h
  exact ⟨rv', w', cx', h, ⟨g1, (kstep_mapRemove h).2 H.2⟩, g2, g3, g4, g5⟩

/-- `SetType` through a current handle of a live container -/
theorem setType_total_correct (D : SlabID → DigestFn 4) (w : World) (p : SlabID) (ty : Nat) (cx : Ctx)
    (H : Inv D w cx.ctr) (hh : HandleOk w p) (hlive : (w.cont? p).isSome) :
    ∃ w' cx', w.setType p ty cx = .ok (w', cx') ∧ Inv D w' cx'.ctr ∧ cx.ctr ≤ cx'.ctr ∧ HandleOk w' p := by
  obtain ⟨w', cx', h⟩ := setType_total D w p ty cx H.1 H.2 hh hlive
  obtain ⟨g1, g2, _, g4⟩ := C10W.worldOk'_setType D w p ty cx w' cx' H.1 hh h
  exact ⟨w', cx', h, ⟨g1, (kstep_setType h).2 H.2⟩, g2, g4⟩

/-- `Array.PopIterate` through a current handle -/
theorem arrPop_total_correct (D : SlabID → DigestFn 4) (w : World) (h : SlabID) (cx : Ctx)
    (a : Arr) (H : Inv D w cx.ctr) (hh : HandleOk w h) (hc : w.cont? h = some (.arr a)) :
    ∃ w' cx', w.arrPop h cx = .ok (a.toList.reverse, w', cx') ∧ Inv D w' cx'.ctr ∧ cx.ctr ≤ cx'.ctr ∧
      PoppedAt w' h (.arr a) ∧ PopFrame w w' h (.arr a) [] ∧ HandleOk w' h := by
  obtain ⟨w', cx', hp⟩ := arrPop_total D w h cx a H.1 H.2 hh hc
  obtain ⟨a2, g1, _, g3, g4, g5, g6, g7, _⟩ := C10W.worldOk_arrPop D w h cx _ w' cx' H.1 hh hp
  rw [hc] at g1; cases g1
  exact ⟨w', cx', hp, ⟨g3, ((keyedClosures_kept w H.2).2.2.2.2.2.2.2.2.1) h cx _ w' cx' hp⟩, g4, g5, g6, g7⟩

/-- `OrderedMap.PopIterate` through a current handle -/
theorem mapPop_total_correct (D : SlabID → DigestFn 4) (w : World) (h : SlabID) (cx : Ctx)
    (m : OMap 3) (H : Inv D w cx.ctr) (hh : HandleOk w h) (hc : w.cont? h = some (.map m)) :
    ∃ w' cx', w.mapPop h cx = .ok (m.toList.reverse, w', cx') ∧ Inv D w' cx'.ctr ∧ cx.ctr ≤ cx'.ctr ∧
      PoppedAt w' h (.map m) ∧ PopFrame w w' h (.map m) [] ∧ HandleOk w' h := by
  obtain ⟨w', cx', hp⟩ := mapPop_total D w h cx m H.1 H.2 hh hc
  obtain ⟨m2, g1, _, g3, g4, g5, g6, g7, _⟩ := C10W.worldOk_mapPop D w h cx _ w' cx' H.1 hh hp
  rw [hc] at g1; cases g1
  exact ⟨w', cx', hp, ⟨g3, ((keyedClosures_kept w H.2).2.2.2.2.2.2.2.2.2.1) h cx _ w' cx' hp⟩, g4, g5, g6, g7⟩

end Atree.C10Total
