import AtreeProofs.WorldOk
import AtreeProofs.World.OpsMisc
import AtreeProofs.World.OkScenario
/-
  C10 — THE GLOBAL INVARIANT of nested containers (`WorldOk`, AtreeProofs/WorldOk.lean) is kept by
  every operation of the World model, and the list-level facts about `Arr.set / insert / remove /
  get` on arrays holding REFERENCE elements and on INLINED roots — taken as hypotheses by the
  theorems of `Props/C10.lean` — are theorems.  PROPERTY THEOREMS.

  Hypotheses shared by the operation theorems (besides `WorldOk` itself):
  * `HandleOk w p` — the mutation goes through a CURRENT handle (obtained on creation, on insertion,
    by lookup, by mutable iteration; hereditarily up to the root).  Mutating through any other
    handle is finding F2 / F2b, and genuinely breaks the invariant (`stale_handle_breaks`).
  * `WValOk w p lim v` — the value stored is a plain value that fits the slot, or a live container
    that is referenced nowhere (a container value may be inserted only once), is not the target or
    one of the containers the target is nested in, and whose wrapped reference fits the slot.
  * for maps: the key is a proper key of the target (`KeyOk`).
  Every operation theorem concludes: `WorldOk` afterwards; the counter never decreases; the
  list-level result in the target (`InsertedAt`, `SetAt`, `RemovedAt`, `MapSetAt`, `MapRemovedAt`,
  including "the container handed back is standalone, unreferenced, same data, same value ID");
  the handle used stays current; no other container's content changes (`SigFrame`).
-/
namespace Atree.C10W
open Atree Gen World

/-! ### 1. The array core for reference elements and inlined roots -/

/-- `Arr.get` reads the list — standalone arrays AND inlined roots, any payloads. -/
theorem get_refines_any (T : Nat) (hT : legalThreshold T = true) (a : Arr) (ctr : Nat) (h : ArrOk T a ctr) (i : Nat) :
    (i < a.toList.length → a.get i = .ok (a.toList.getD i default)) ∧
    (a.toList.length ≤ i → a.get i = .error .indexOutOfBounds) :=
  h.get_spec hT i

/-- `Arr.insert` of an element within the inline limit — e.g. a reference to a child container —
    into a standalone array: refines `List.insertIdx` with the element AS IT IS, keeps `ArrInv`,
    the root ID and the type. -/
theorem insert_refines_ref (T : Nat) (hT : legalThreshold T = true) (a : Arr) (c : Ctx) (i : Nat) (e : Elem)
    (he : ElemOk T e) (h : ArrInv T a c.ctr) (hcount : a.count < maxArrayElementCount)
    (hi : i ≤ a.toList.length) :
    ∃ a' c', a.insert T i e c = .ok (a', c') ∧ ArrInv T a' c'.ctr ∧
      a'.toList = a.toList.insertIdx i e ∧ a'.rootID = a.rootID ∧ a'.ty = a.ty := by
  obtain ⟨a', c', h1, h2, h3, h4, h5, _⟩ := arr_insert_okR hT a c i e (StorOk.of_elemOk he) h hcount hi
  rw [toStorable_fit T a.addr e c he.2] at h3
  exact ⟨a', c', h1, h2, h3, h4, h5⟩

/-- the same for `Arr.set` -/
theorem set_refines_ref (T : Nat) (hT : legalThreshold T = true) (a : Arr) (c : Ctx) (i : Nat) (e : Elem)
    (he : ElemOk T e) (h : ArrInv T a c.ctr) (hi : i < a.toList.length) :
    ∃ a' c', a.set T i e c = .ok (a.toList.getD i default, a', c') ∧ ArrInv T a' c'.ctr ∧
      a'.toList = a.toList.set i e ∧ a'.rootID = a.rootID ∧ a'.ty = a.ty := by
  obtain ⟨a', c', h1, h2, h3, h4, h5, _⟩ := arr_set_okR hT a c i e (StorOk.of_elemOk he) h hi
  rw [toStorable_fit T a.addr e c he.2] at h3
  exact ⟨a', c', h1, h2, h3, h4, h5⟩

/-- INLINED ROOT with room (its size plus one element within the inline limit stays within
    `maxThr T`; the inline budget of the parent slot guarantees it): `Arr.insert` refines
    `List.insertIdx`, the root stays ONE inlined slab, keeps its ID and type.  Without room the
    model (like the Go code) lets the inlined root split: `inlined_root_can_split`. -/
theorem insert_refines_inlined (T : Nat) (hT : legalThreshold T = true) (a : Arr) (c : Ctx) (i : Nat) (e : Elem)
    (he : ElemOk T e) (h : ArrInvInl T a c.ctr) (hroom : a.rootHdr.size + maxInlineArr T ≤ maxThr T)
    (hcount : a.count < maxArrayElementCount) (hi : i ≤ a.toList.length) :
    ∃ a' c', a.insert T i e c = .ok (a', c') ∧ ArrInvInl T a' c'.ctr ∧
      a'.toList = a.toList.insertIdx i e ∧ a'.rootID = a.rootID ∧ a'.ty = a.ty ∧
      a'.rootHdr.size = a.rootHdr.size + e.size := by
  obtain ⟨a', c', h1, h2, h3, h4, h5, _, h7⟩ := arrInl_insert hT h (StorOk.of_elemOk he) hroom hcount hi
  rw [toStorable_fit T a.addr e c he.2] at h3 h7
  exact ⟨a', c', h1, h2, h3, h4, h5, h7⟩

theorem set_refines_inlined (T : Nat) (hT : legalThreshold T = true) (a : Arr) (c : Ctx) (i : Nat) (e : Elem)
    (he : ElemOk T e) (h : ArrInvInl T a c.ctr) (hroom : a.rootHdr.size + maxInlineArr T ≤ maxThr T)
    (hi : i < a.toList.length) :
    ∃ a' c', a.set T i e c = .ok (a.toList.getD i default, a', c') ∧ ArrInvInl T a' c'.ctr ∧
      a'.toList = a.toList.set i e ∧ a'.rootID = a.rootID ∧ a'.ty = a.ty ∧
      a'.rootHdr.size + (a.toList.getD i default).size = a.rootHdr.size + e.size := by
  obtain ⟨a', c', h1, h2, h3, h4, h5, _, h7⟩ := arrInl_set hT h (StorOk.of_elemOk he) hroom hi
  rw [toStorable_fit T a.addr e c he.2] at h3 h7
  exact ⟨a', c', h1, h2, h3, h4, h5, h7⟩

theorem remove_refines_inlined (T : Nat) (a : Arr) (c : Ctx) (i : Nat)
    (h : ArrInvInl T a c.ctr) (hi : i < a.toList.length) :
    ∃ a' c', a.remove T i c = .ok (a.toList.getD i default, a', c') ∧ ArrInvInl T a' c'.ctr ∧
      a'.toList = a.toList.eraseIdx i ∧ a'.rootID = a.rootID ∧ a'.ty = a.ty ∧
      a'.rootHdr.size + (a.toList.getD i default).size = a.rootHdr.size := by
  obtain ⟨a', c', h1, h2, h3, h4, h5, _, h7⟩ := arrInl_remove h hi
  exact ⟨a', c', h1, h2, h3, h4, h5, h7⟩

/-- the model lets an inlined root split when it has no room (concrete instance) -/
theorem inlined_root_can_split :
    let s : DataSlab := ⟨⟨⟨1, 2⟩, 17 + 400, 2⟩, SlabID.undef, [⟨200, .val 0⟩, ⟨200, .val 1⟩], true, true⟩
    (match Arr.insert 256 ⟨0, s, 0⟩ 2 ⟨100, .val 2⟩ ⟨5, [], []⟩ with
     | .ok (a', _) => some (a'.d, a'.isInlined)
     | .error _ => none) = some (1, false) := inlined_root_splits

/-- the map core for reference values: `OMap.set` of a value within the inline limit of its key
    (e.g. a reference to a child) has the zipper effect `SetEffect` with the value AS IT IS, keeps
    `MapInv` and the root ID (`OSetPost`), unless the collision limit refuses a new key. -/
theorem map_set_refines_ref (T : Nat) (hT : legalThreshold T = true) (D : DigestFn 4) (cfg : MCfg) (m : OMap 3)
    (hcfg : CfgOk cfg T m) (h : MapInv T D m) (k : MKey) (hk : KeyOk T 4 D k) (v : Elem) (r : SlabID)
    (hr : v.pay = .ref r) (h1 : 1 ≤ v.size) (h2 : v.size ≤ maxInlineMapValue T k.size) (c : Ctx) :
    (TLimited cfg m.d m.root k → m.set cfg k v c = .error .collisionLimit) ∧
    (¬ TLimited cfg m.d m.root k → ∃ old m' c', m.set cfg k v c = .ok (old, m', c') ∧
      OSetPost T D cfg m m' k v old c c' ∧ (k, v) ∈ m'.toList) := by
  obtain ⟨s1, s2⟩ := OMap.set_spec_ref hT hcfg h hk (⟨h1, Or.inr h2⟩ : ValueOkR T k.size v) c
  refine ⟨s1, fun hl => ?_⟩
  obtain ⟨old, m', c', heq, hp⟩ := s2 hl
  exact ⟨old, m', c', heq, hp, hp.mem_ref r hr⟩

/-! ### 2. The notification re-establishes the invariant -/

/-- THE MAIN INDUCTION.  A notification from a container `y` whose parent slot is out of date (it has
    just been mutated: `WorldOkGen … (some y)`), issued through a current handle, re-establishes the
    global invariant.  It changes no signature (kind / keys / payloads) of any container, leaves
    every container that is not above `y` untouched, keeps the data and the value ID of `y`, keeps
    every current handle current, and never lowers the counter. -/
theorem notify_restores (D : SlabID → DigestFn 4) (rank : SlabID → Nat) (fuel : Nat) (w : World) (y : SlabID)
    (cx : Ctx) (w' : World) (cx' : Ctx)
    (H : WorldOkGen D rank (some y) (fun _ => False) w cx.ctr) (hh : HandleOk w y)
    (h : notifyParent fuel w y cx = .ok (w', cx')) :
    WorldOkGen D rank none (fun _ => False) w' cx'.ctr ∧ cx.ctr ≤ cx'.ctr ∧ w'.T = w.T ∧
      (∀ q, (w'.cont? q).map Cont.sig = (w.cont? q).map Cont.sig) ∧
      (∀ z, z ≠ y → rank y ≤ rank z → w'.cont? z = w.cont? z) ∧
      (∀ c, w.cont? y = some c → ∃ c', w'.cont? y = some c' ∧ c'.vid = c.vid ∧ c'.storedElems = c.storedElems) ∧
      (∀ z, HandleOk w z → HandleOk w' z) := by
  obtain ⟨H3, F3, hc⟩ := notify_ok D rank (fun _ => False) fuel w y cx w' cx' H hh (fun z hz _ => absurd hz id) h
  refine ⟨H3, hc, F3.T, F3.sig.sig, F3.above, ?_, fun z hz => hz.transfer (fun q x => (F3.sig.holds_iff q x).mp) F3.cur⟩
  intro c hcy
  have := F3.self
  rw [hcy] at this
  obtain ⟨c', hc', hsd⟩ := this.get_some
  exact ⟨c', hc', hsd.vid, hsd.storedElems⟩

/-! ### 3. What `WorldOk` contains -/

theorem worldOk_idsOk {D : SlabID → DigestFn 4} {w : World} {ctr : Nat} (H : WorldOk D w ctr) : World.IdsOk w := by
  obtain ⟨_, H0⟩ := H; exact H0.ids

/-- `ElemSync` (AtreeProofs/WorldInv.lean) is part of `WorldOk` -/
theorem worldOk_elemSync {D : SlabID → DigestFn 4} {w : World} {ctr : Nat} (H : WorldOk D w ctr) : ElemSync w := by
  obtain ⟨_, H0⟩ := H
  intro p pc hp e he x c hx hc
  rw [← Cont.slots_map_snd w.T] at he
  obtain ⟨le, hle, rfl⟩ := List.mem_map.mp he
  obtain ⟨wr, _, h2, _, _⟩ := H0.slots p pc hp le hle x c hx hc
  exact ⟨wr, (h2 (by intro h; cases h)).1⟩

/-- `MutIdxOk` (AtreeProofs/WorldInv.lean) is part of `WorldOk` -/
theorem worldOk_mutIdxOk {D : SlabID → DigestFn 4} {w : World} {ctr : Nat} (H : WorldOk D w ctr) : MutIdxOk w := by
  obtain ⟨_, H0⟩ := H
  intro p a hp x i hi
  have := H0.mutIdx p a hp x i hi id
  rw [Cont.pays, Cont.storedElems, List.getElem?_map] at this
  cases he : a.toList[i]? with
  | none => rw [he] at this; cases this
  | some e =>
    rw [he] at this
    exact ⟨e, rfl, by simpa using this⟩

/-- every container is structurally valid in its form -/
theorem worldOk_contOk {D : SlabID → DigestFn 4} {w : World} {ctr : Nat} (H : WorldOk D w ctr) (x : SlabID) (c : Cont)
    (hc : w.cont? x = some c) : ContOk w.T (D x) ctr c ∧ c.vid = x := by
  obtain ⟨_, H0⟩ := H; exact ⟨H0.conts x c hc, H0.ids x c hc⟩

/-- "A child is stored inline in its parent exactly when it occupies one slab that fits the parent's
    per-element limit": every element that refers to a live container has the size of that
    container's current form behind `wrap` wrappers, and the container is inline exactly when it is
    inlinable within the slot limit minus the wrappers. -/
theorem worldOk_inline_iff_fits {D : SlabID → DigestFn 4} {w : World} {ctr : Nat} (H : WorldOk D w ctr)
    (p : SlabID) (pc : Cont) (hp : w.cont? p = some pc) (lim : Nat) (e : Elem) (hle : (lim, e) ∈ pc.slots w.T)
    (x : SlabID) (c : Cont) (hx : e.pay = .ref x) (hc : w.cont? x = some c) :
    ∃ wrap, slabIDStorableSize + 2 * wrap ≤ lim ∧ e.size = slotSize c wrap ∧
      c.isInlined = c.inlinable (lim - 2 * wrap) := by
  obtain ⟨_, H0⟩ := H
  obtain ⟨wr, h1, h2, _, _⟩ := H0.slots p pc hp (lim, e) hle x c hx hc
  obtain ⟨a, b⟩ := h2 (by intro h; cases h)
  exact ⟨wr, h1, a, b⟩

/-- an inlined container is referenced by exactly one element of one live container -/
theorem worldOk_inlined_referenced_once {D : SlabID → DigestFn 4} {w : World} {ctr : Nat} (H : WorldOk D w ctr)
    (x : SlabID) (c : Cont) (hc : w.cont? x = some c) (hi : c.isInlined = true) :
    (∃ p, Holds w p x) ∧
    ∀ p p' pc pc' (i j : Nat), w.cont? p = some pc → w.cont? p' = some pc' →
      pc.pays[i]? = some (Pay.ref x) → pc'.pays[j]? = some (Pay.ref x) → p = p' ∧ i = j := by
  obtain ⟨_, H0⟩ := H
  exact ⟨H0.inlRef x c hc hi id,
    fun p p' pc pc' i j h1 h2 h3 h4 => H0.unique p p' pc pc' i j x h1 h2 h3 h4 (by rw [hc]; rfl)⟩

/-! ### 4. The operations keep `WorldOk` -/

/-- a new standalone array: fresh value ID, empty, its handle is current -/
theorem worldOk_newArr (D : SlabID → DigestFn 4) (w : World) (ty : Nat) (cx : Ctx) (H : WorldOk D w cx.ctr) :
    WorldOk D (w.newArr ty cx).2.1 (w.newArr ty cx).2.2.ctr ∧ (w.newArr ty cx).2.2.ctr = cx.ctr + 1 ∧
      w.cont? (w.newArr ty cx).1 = none ∧
      (∃ a, (w.newArr ty cx).2.1.cont? (w.newArr ty cx).1 = some (.arr a) ∧ a.toList = [] ∧ a.isInlined = false) ∧
      (∀ z, z ≠ (w.newArr ty cx).1 → (w.newArr ty cx).2.1.cont? z = w.cont? z) ∧
      HandleOk (w.newArr ty cx).2.1 (w.newArr ty cx).1 :=
  newArr_ok H

theorem worldOk_newMap (D : SlabID → DigestFn 4) (w : World) (ty seed : Nat) (cx : Ctx) (H : WorldOk D w cx.ctr) :
    WorldOk D (w.newMap ty seed cx).2.1 (w.newMap ty seed cx).2.2.ctr ∧ (w.newMap ty seed cx).2.2.ctr = cx.ctr + 1 ∧
      w.cont? (w.newMap ty seed cx).1 = none ∧
      (∃ m, (w.newMap ty seed cx).2.1.cont? (w.newMap ty seed cx).1 = some (.map m) ∧ m.toList = [] ∧ m.isInlined = false) ∧
      (∀ z, z ≠ (w.newMap ty seed cx).1 → (w.newMap ty seed cx).2.1.cont? z = w.cont? z) ∧
      HandleOk (w.newMap ty seed cx).2.1 (w.newMap ty seed cx).1 :=
  newMap_ok H

/-- the empty world satisfies the invariant (so every world built by the operations from it does) -/
theorem worldOk_new (D : SlabID → DigestFn 4) (T addr ctr : Nat) (hT : legalThreshold T = true) :
    WorldOk D { T := T, addr := addr } ctr := by
  refine ⟨fun _ => 0, hT, ?_, ?_, ?_, ?_, ?_, ?_, ?_, ?_, ?_, ?_, ?_, ?_, ?_⟩
  all_goals first
    | (intro a b hh; cases hh; done)
    | (intro a b c hh; cases hh; done)
    | (intro a b hh; simp [World.cont?, AList.find?] at hh; done)
    | (intro a b hh hx; obtain ⟨pc, hpc, _⟩ := hh; cases hpc; done)
    | (intro a b c d e f g hh; cases hh; done)
    | skip
  all_goals first
    | (intro p pc hp; cases hp; done)
    | (intro p a hp; cases hp; done)
    | (intro x hi hx; cases hx; done)
    | (intro p x i hi; simp [World.idxOf, AList.find?] at hi; done)
    | skip

/-- `Array.Insert` through a current handle keeps the global invariant.
    (Projection of `worldOk_arrInsert_all`, Props/C10WAll.lean, which also concludes that ALL current
    handles stay current and the strong frame; the same for the five theorems below.) -/
theorem worldOk_arrInsert (D : SlabID → DigestFn 4) (w : World) (p : SlabID) (i : Nat) (v : WVal) (cx : Ctx)
    (w' : World) (cx' : Ctx) (H : WorldOk D w cx.ctr) (hh : HandleOk w p)
    (hv : WValOk w p (maxInlineArr w.T) v) (h : w.arrInsert p i v cx = .ok (w', cx')) :
    WorldOk D w' cx'.ctr ∧ cx.ctr ≤ cx'.ctr ∧ InsertedAt w w' p i v ∧ HandleOk w' p ∧ SigFrame w w' p :=
  arrInsert_ok H hh hv h

/-- `Array.Set` -/
theorem worldOk_arrSet (D : SlabID → DigestFn 4) (w : World) (p : SlabID) (i : Nat) (v : WVal) (cx : Ctx)
    (old : Elem) (w' : World) (cx' : Ctx) (H : WorldOk D w cx.ctr) (hh : HandleOk w p)
    (hv : WValOk w p (maxInlineArr w.T) v) (h : w.arrSet p i v cx = .ok (old, w', cx')) :
    WorldOk D w' cx'.ctr ∧ cx.ctr ≤ cx'.ctr ∧ SetAt w w' p i v old ∧ HandleOk w' p ∧ SigFrame w w' p :=
  arrSet_ok H hh hv h

/-- `Array.Remove` -/
theorem worldOk_arrRemove (D : SlabID → DigestFn 4) (w : World) (p : SlabID) (i : Nat) (cx : Ctx)
    (old : Elem) (w' : World) (cx' : Ctx) (H : WorldOk D w cx.ctr) (hh : HandleOk w p)
    (h : w.arrRemove p i cx = .ok (old, w', cx')) :
    WorldOk D w' cx'.ctr ∧ cx.ctr ≤ cx'.ctr ∧ RemovedAt w w' p i old ∧ HandleOk w' p ∧ SigFrame w w' p :=
  arrRemove_ok H hh h

/-- `OrderedMap.Set` -/
theorem worldOk_mapSet (D : SlabID → DigestFn 4) (w : World) (p : SlabID) (k : MKey) (v : WVal) (cx : Ctx)
    (old : Option Elem) (w' : World) (cx' : Ctx) (H : WorldOk D w cx.ctr) (hh : HandleOk w p)
    (hk : KeyOk w.T 4 (D p) k) (hv : WValOk w p (maxInlineMapValue w.T k.size) v)
    (h : w.mapSet p k v cx = .ok (old, w', cx')) :
    WorldOk D w' cx'.ctr ∧ cx.ctr ≤ cx'.ctr ∧ MapSetAt w w' p k v old ∧ HandleOk w' p ∧ SigFrame w w' p :=
  mapSet_ok H hh hk hv h

/-- `OrderedMap.Remove` -/
theorem worldOk_mapRemove (D : SlabID → DigestFn 4) (w : World) (p : SlabID) (k : MKey) (cx : Ctx)
    (rk : MKey) (rv : Elem) (w' : World) (cx' : Ctx) (H : WorldOk D w cx.ctr) (hh : HandleOk w p)
    (hk : KeyOk w.T 4 (D p) k) (h : w.mapRemove p k cx = .ok (rk, rv, w', cx')) :
    WorldOk D w' cx'.ctr ∧ cx.ctr ≤ cx'.ctr ∧ MapRemovedAt w w' p k rk rv ∧ HandleOk w' p ∧ SigFrame w w' p :=
  mapRemove_ok H hh hk h

/-- `Array.Get` (also: the mutable iterator arriving at index `i`): no container changes, the
    element is the list's, every current handle stays current, and the handle of the child handed
    out is current. -/
theorem worldOk_arrGet (D : SlabID → DigestFn 4) (w : World) (p : SlabID) (i : Nat) (el : Elem) (w' : World)
    (ctr : Nat) (H : WorldOk D w ctr) (hh : HandleOk w p) (h : w.arrGet p i = .ok (el, w')) :
    WorldOk D w' ctr ∧ (∀ z, w'.cont? z = w.cont? z) ∧
      (∃ a, w.cont? p = some (.arr a) ∧ a.toList[i]? = some el) ∧
      (∀ z, HandleOk w z → HandleOk w' z) ∧
      (∀ x, el.pay = .ref x → (w.cont? x).isSome → HandleOk w' x) :=
  arrGet_ok H hh h

/-- `OrderedMap.Get` -/
theorem worldOk_mapGet (D : SlabID → DigestFn 4) (w : World) (p : SlabID) (k : MKey) (el : Elem) (w' : World)
    (ctr : Nat) (H : WorldOk D w ctr) (hh : HandleOk w p) (hk : KeyOk w.T 4 (D p) k)
    (h : w.mapGet p k = .ok (el, w')) :
    WorldOk D w' ctr ∧ (∀ z, w'.cont? z = w.cont? z) ∧
      (∃ m, w.cont? p = some (.map m) ∧ (k, el) ∈ m.toList) ∧
      (∀ z, HandleOk w z → HandleOk w' z) ∧
      (∀ x, el.pay = .ref x → (w.cont? x).isSome → HandleOk w' x) :=
  mapGet_ok H hh hk h

/-- reopening the storage: every container is kept, every closure and index is dropped; the
    handles of the unreferenced containers (the roots) are current. -/
theorem worldOk_reopen (D : SlabID → DigestFn 4) (w : World) (ctr : Nat) (H : WorldOk D w ctr) :
    WorldOk D w.reopen ctr ∧ (∀ z, w.reopen.cont? z = w.cont? z) ∧
      (∀ z, (∀ q, ¬ Holds w q z) → HandleOk w.reopen z) :=
  reopen_ok H

/-- `SetType` through a current handle -/
theorem worldOk_setType (D : SlabID → DigestFn 4) (w : World) (p : SlabID) (ty : Nat) (cx : Ctx) (w' : World)
    (cx' : Ctx) (H : WorldOk D w cx.ctr) (hh : HandleOk w p) (h : w.setType p ty cx = .ok (w', cx')) :
    WorldOk D w' cx'.ctr ∧ cx.ctr ≤ cx'.ctr ∧
      (∃ c c', w.cont? p = some c ∧ w'.cont? p = some c' ∧ c'.storedElems = c.storedElems ∧ c'.vid = c.vid) ∧
      HandleOk w' p :=
  setType_ok H hh h

/-! ### 5. Read-through: the crown statement of C10 -/

/-- Any mutation (here: `Array.Insert`; the same follows from the other operation theorems)
    performed through a current handle to a container `x` that lives inside another container `p`
    (at any depth, wrapped or not, array or map parent):
    * `WorldOk` holds afterwards — every ancestor is structurally valid (`worldOk_contOk`);
    * `x` keeps its value ID and holds the list-level result;
    * the parent still refers to `x`, and — reading through the parent — the element that refers to
      `x` has the size of `x`'s NEW form behind its wrappers, `x` being inline exactly when it fits
      the per-element limit of that slot. -/
theorem read_through_arrInsert (D : SlabID → DigestFn 4) (w : World) (x p : SlabID) (i : Nat) (v : WVal) (cx : Ctx)
    (w' : World) (cx' : Ctx) (H : WorldOk D w cx.ctr) (hh : HandleOk w x) (hpx : Holds w p x)
    (hv : WValOk w x (maxInlineArr w.T) v) (h : w.arrInsert x i v cx = .ok (w', cx')) :
    WorldOk D w' cx'.ctr ∧ InsertedAt w w' x i v ∧
      ∃ pc le c', w'.cont? p = some pc ∧ le ∈ pc.slots w'.T ∧ le.2.pay = .ref x ∧ w'.cont? x = some c' ∧
        c'.vid = x ∧ ∃ wrap, slabIDStorableSize + 2 * wrap ≤ le.1 ∧ le.2.size = slotSize c' wrap ∧
          c'.isInlined = c'.inlinable (le.1 - 2 * wrap) := by
  obtain ⟨H', _, hins, _, hsig⟩ := arrInsert_ok H hh hv h
  obtain ⟨rank0, H0⟩ := H
  have hpx' : p ≠ x := by
    intro he
    obtain ⟨pc, hpc, _⟩ := id hpx
    have := H0.rank p x hpx (by rw [← he, hpc]; rfl)
    rw [he] at this
    omega
  have hholds := hsig.holds hpx' hpx
  obtain ⟨pc, le, hpc, hle, hpay⟩ := holds_slot hholds
  obtain ⟨a, a', e, _, hx', _⟩ := hins
  obtain ⟨wr, h1, h2, h3⟩ := worldOk_inline_iff_fits H' p pc hpc le.1 le.2 hle x (.arr a') hpay hx'
  exact ⟨H', ⟨a, a', e, by assumption, hx', by assumption⟩, pc, le, .arr a', hpc, hle, hpay, hx',
    (worldOk_contOk H' x _ hx').2, wr, h1, h2, h3⟩

/-! ### 6. The hypothesis-laden theorems of `Props/C10.lean`, from world invariants only

`C10.notify_updates_array_parent` takes `hset` (a fact about `Arr.set` for ARBITRARY elements and
contexts — too strong to be a theorem: elements must respect the inline limit), `hmax` (now part
of `ClosureOk`) and `hacyc` (acyclicity of the CLOSURE pointers — not an invariant: stale closures
may form cycles; what is invariant is the acyclicity of the "is an element of" relation, `CRank`).
`C10.mutIdx_ok_arrInsert` takes list-level facts relative to an abstract array invariant.  Their
counterparts below only assume world invariants. -/

/-- The notification reaches the parent (ARRAY OR MAP): after `notifyParentIfNeeded` from a mutated
    container `x` (current handle) that the container `p` holds, `x` has kept its value ID and its
    data, `p` still holds `x`, and the element of `p` that refers to `x` has the size of `x`'s
    current form behind its wrappers, `x` being inline exactly when it fits the slot's limit. -/
theorem notify_updates_parent (D : SlabID → DigestFn 4) (rank : SlabID → Nat) (fuel : Nat) (w : World)
    (x p : SlabID) (cx : Ctx) (c : Cont) (w' : World) (cx' : Ctx)
    (H : WorldOkGen D rank (some x) (fun _ => False) w cx.ctr) (hh : HandleOk w x)
    (hc : w.cont? x = some c) (hp : Holds w p x) (h : notifyParent fuel w x cx = .ok (w', cx')) :
    ∃ c' pc le, w'.cont? x = some c' ∧ c'.vid = c.vid ∧ c'.storedElems = c.storedElems ∧
      w'.cont? p = some pc ∧ le ∈ pc.slots w'.T ∧ le.2.pay = .ref x ∧
      ∃ wrap, slabIDStorableSize + 2 * wrap ≤ le.1 ∧ le.2.size = slotSize c' wrap ∧
        c'.isInlined = c'.inlinable (le.1 - 2 * wrap) := by
  obtain ⟨H3, F3, _⟩ := notify_ok D rank (fun _ => False) fuel w x cx w' cx' H hh (fun z hz _ => absurd hz id) h
  have hself := F3.self
  rw [hc] at hself
  obtain ⟨c', hc', hsd⟩ := hself.get_some
  obtain ⟨pc, le, hpc, hle, hpay⟩ := holds_slot (F3.sig.holds hp)
  obtain ⟨wr, h1, h2, _, _⟩ := H3.slots p pc hpc le hle x c' hpay hc'
  obtain ⟨a, b⟩ := h2 (by intro h; cases h)
  exact ⟨c', pc, le, hc', hsd.vid, hsd.storedElems, hpc, hle, hpay, wr, h1, a, b⟩

/-- `mutableElementIndex` stays correct through `Array.Insert` — no hypothesis about the array
    operations. -/
theorem mutIdx_ok_arrInsert (D : SlabID → DigestFn 4) (w : World) (p : SlabID) (i : Nat) (v : WVal) (cx : Ctx)
    (w' : World) (cx' : Ctx) (H : WorldOk D w cx.ctr) (hh : HandleOk w p)
    (hv : WValOk w p (maxInlineArr w.T) v) (h : w.arrInsert p i v cx = .ok (w', cx')) : MutIdxOk w' :=
  worldOk_mutIdxOk (arrInsert_ok H hh hv h).1

/-- value identifiers never change and parent elements stay in sync (`IdsOk`, `ElemSync` of
    AtreeProofs/WorldInv.lean) through every operation: they are part of `WorldOk`. -/
theorem ids_and_sync_arrInsert (D : SlabID → DigestFn 4) (w : World) (p : SlabID) (i : Nat) (v : WVal) (cx : Ctx)
    (w' : World) (cx' : Ctx) (H : WorldOk D w cx.ctr) (hh : HandleOk w p)
    (hv : WValOk w p (maxInlineArr w.T) v) (h : w.arrInsert p i v cx = .ok (w', cx')) :
    World.IdsOk w' ∧ ElemSync w' :=
  ⟨worldOk_idsOk (arrInsert_ok H hh hv h).1, worldOk_elemSync (arrInsert_ok H hh hv h).1⟩

/-! ### 7. Non-vacuity

`AtreeProofs/World/OkScenario.lean`: a world obtained by RUNNING the model (T = 256) — root array
`R`; map `M` inlined in `R` (array parent); array `A` inlined in `M` behind one wrapper (map
parent, depth 3) and mutated there; array `B` standalone in `R` after six inserts through its
handle — satisfies `WorldOk`, by chaining the operation theorems above along the 14 steps of the
run: at every step `HandleOk`, `WValOk`, `KeyOk` are established (decidable checks). -/
section NonVacuity
open Atree.OkScenario

theorem scenario_shape :
    (t14.1.cont? R).map Cont.pays = some [.ref M, .ref B] ∧
    (t14.1.cont? M).map Cont.isInlined = some true ∧ (t14.1.cont? M).map Cont.isArr = some false ∧
    (t14.1.cont? M).map Cont.pays = some [.ref A] ∧
    (t14.1.cont? A).map Cont.isInlined = some true ∧ (t14.1.cont? A).map Cont.pays = some [.val 1] ∧
    (t14.1.cont? B).map Cont.isInlined = some false ∧
    (t14.1.cont? R).map (fun c => c.storedElems.map (·.size)) = some [80, 19] ∧
    (t14.1.cont? M).map (fun c => c.storedElems.map (·.size)) = some [39] := by
  have := final_facts
  exact ⟨this.2.2.2.2.2.1, this.2.2.2.2.2.2.1, this.2.2.2.2.2.2.2.1, this.2.2.2.2.2.2.2.2.1,
    this.2.2.2.2.2.2.2.2.2.1, this.2.2.2.2.2.2.2.2.2.2.1, this.2.2.2.2.2.2.2.2.2.2.2.1,
    this.2.2.2.2.2.2.2.2.2.2.2.2.2.1, this.2.2.2.2.2.2.2.2.2.2.2.2.2.2⟩

/-- the final world of the run satisfies the global invariant -/
theorem scenario_worldOk : WorldOk OkScenario.D t14.1 t14.2.ctr ∧ HandleOk t14.1 B := OkScenario.scenario_worldOk

/-- the step at depth 3 (an insert through `A`, inside the map `M`, inside the array `R`) is an
    instance of `worldOk_arrInsert` -/
example : WorldOk OkScenario.D t7.1 t7.2.ctr := ok7.1

/-- reopening, then fetching `M` again through `R`: invariant kept, handle current -/
theorem scenario_reopen_get :
    WorldOk OkScenario.D t14.1.reopen t14.2.ctr ∧
    ∃ el w', t14.1.reopen.arrGet R 0 = .ok (el, w') ∧ el.pay = .ref M ∧ WorldOk OkScenario.D w' t14.2.ctr ∧
      HandleOk w' M := OkScenario.scenario_reopen_get

/-- `HandleOk` is needed: after reopening, inserting through `A` opened by its own ID (a handle
    that is not current) succeeds and BREAKS the invariant (the dual-handle findings F2 / F2b). -/
theorem stale_handle_breaks :
    ¬ HandleOk t14.1.reopen A ∧ t14.1.reopen.arrInsert A 1 (pl 9) t14.2 = .ok bad ∧
      ∀ ctr, ¬ WorldOk OkScenario.D bad.1 ctr :=
  ⟨OkScenario.stale_handle_breaks.1, run_bad, OkScenario.stale_handle_breaks.2⟩

/-- the CLOSURE pointers may form a cycle in a world that satisfies `WorldOk` (a stale closure left
    behind by a removal, `X ↦ P`, then `P` inserted into `X`): `hacyc` of
    `C10.notify_updates_array_parent` is not an invariant, `CRank` is. -/
theorem closure_pointers_may_cycle :
    WorldOk OkScenario.D u5.1 u5.2.ctr ∧ ¬ ∃ rank : SlabID → Nat, RankOk rank u5.1 :=
  closure_cycle_in_valid_world

end NonVacuity

end Atree.C10W
