import AtreeProofs.WorldOk
import AtreeProofs.World.OpsArr2
/-
  C10 — THE GLOBAL INVARIANT of nested containers (`WorldOk`, AtreeProofs/WorldOk.lean) is kept by
  every operation of the World model, and the list-level facts about `Arr.set / insert / remove /
  get` on arrays holding REFERENCE elements and on INLINED roots — taken as hypotheses by the
  theorems of `Props/C10.lean` — are theorems.  PROPERTY THEOREMS.

  Hypotheses shared by the operation theorems (besides `WorldOk` itself):
  * `HandleOk w p` — the mutation goes through a CURRENT handle (obtained on insertion, by lookup,
    by mutable iteration; hereditarily up to the root).  Mutating through any other handle is
    finding F2 / F2b.
  * `WValOk w p lim v` — the value stored is a plain value that fits the slot, or a live container
    that is referenced nowhere (a container value may be inserted only once), is not the target or
    one of the containers the target is nested in, and whose wrapped reference fits the slot.
-/
namespace Atree.C10W
open Atree Gen World

/-! ### 1. The array core for reference elements and inlined roots -/

/-- `Arr.get` reads the list — standalone arrays AND inlined roots, any payloads. -/
theorem get_refines_any (T : Nat) (hT : legalThreshold T = true) (a : Arr) (ctr : Nat) (h : ArrOk T a ctr) (i : Nat) :
    (i < a.toList.length → a.get i = .ok (a.toList.getD i default)) ∧
    (a.toList.length ≤ i → a.get i = .error .indexOutOfBounds) :=
  h.get_spec hT i

/-- `Arr.insert` of an element within the inline limit — e.g. a reference to a child container —
    into a standalone array: refines `List.insertIdx` with the element AS IT IS, keeps `ArrInv`,
    the root ID and the type. -/
theorem insert_refines_ref (T : Nat) (hT : legalThreshold T = true) (a : Arr) (c : Ctx) (i : Nat) (e : Elem)
    (he : ElemOk T e) (h : ArrInv T a c.ctr) (hcount : a.count < maxArrayElementCount)
    (hi : i ≤ a.toList.length) :
    ∃ a' c', a.insert T i e c = .ok (a', c') ∧ ArrInv T a' c'.ctr ∧
      a'.toList = a.toList.insertIdx i e ∧ a'.rootID = a.rootID ∧ a'.ty = a.ty := by
  obtain ⟨a', c', h1, h2, h3, h4, h5, _⟩ := arr_insert_okR hT a c i e (StorOk.of_elemOk he) h hcount hi
  rw [toStorable_fit T a.addr e c he.2] at h3
  exact ⟨a', c', h1, h2, h3, h4, h5⟩

/-- the same for `Arr.set` -/
theorem set_refines_ref (T : Nat) (hT : legalThreshold T = true) (a : Arr) (c : Ctx) (i : Nat) (e : Elem)
    (he : ElemOk T e) (h : ArrInv T a c.ctr) (hi : i < a.toList.length) :
    ∃ a' c', a.set T i e c = .ok (a.toList.getD i default, a', c') ∧ ArrInv T a' c'.ctr ∧
      a'.toList = a.toList.set i e ∧ a'.rootID = a.rootID ∧ a'.ty = a.ty := by
  obtain ⟨a', c', h1, h2, h3, h4, h5, _⟩ := arr_set_okR hT a c i e (StorOk.of_elemOk he) h hi
  rw [toStorable_fit T a.addr e c he.2] at h3
  exact ⟨a', c', h1, h2, h3, h4, h5⟩

/-- INLINED ROOT with room (its size plus one element within the inline limit stays within
    `maxThr T`; the inline budget of the parent slot guarantees it): `Arr.insert` refines
    `List.insertIdx`, the root stays ONE inlined slab, keeps its ID and type.  Without room the
    model (like the Go code) lets the inlined root split: `inlined_root_splits`. -/
theorem insert_refines_inlined (T : Nat) (hT : legalThreshold T = true) (a : Arr) (c : Ctx) (i : Nat) (e : Elem)
    (he : ElemOk T e) (h : ArrInvInl T a c.ctr) (hroom : a.rootHdr.size + maxInlineArr T ≤ maxThr T)
    (hcount : a.count < maxArrayElementCount) (hi : i ≤ a.toList.length) :
    ∃ a' c', a.insert T i e c = .ok (a', c') ∧ ArrInvInl T a' c'.ctr ∧
      a'.toList = a.toList.insertIdx i e ∧ a'.rootID = a.rootID ∧ a'.ty = a.ty ∧
      a'.rootHdr.size = a.rootHdr.size + e.size := by
  obtain ⟨a', c', h1, h2, h3, h4, h5, _, h7⟩ := arrInl_insert hT h (StorOk.of_elemOk he) hroom hcount hi
  rw [toStorable_fit T a.addr e c he.2] at h3 h7
  exact ⟨a', c', h1, h2, h3, h4, h5, h7⟩

theorem set_refines_inlined (T : Nat) (hT : legalThreshold T = true) (a : Arr) (c : Ctx) (i : Nat) (e : Elem)
    (he : ElemOk T e) (h : ArrInvInl T a c.ctr) (hroom : a.rootHdr.size + maxInlineArr T ≤ maxThr T)
    (hi : i < a.toList.length) :
    ∃ a' c', a.set T i e c = .ok (a.toList.getD i default, a', c') ∧ ArrInvInl T a' c'.ctr ∧
      a'.toList = a.toList.set i e ∧ a'.rootID = a.rootID ∧ a'.ty = a.ty ∧
      a'.rootHdr.size + (a.toList.getD i default).size = a.rootHdr.size + e.size := by
  obtain ⟨a', c', h1, h2, h3, h4, h5, _, h7⟩ := arrInl_set hT h (StorOk.of_elemOk he) hroom hi
  rw [toStorable_fit T a.addr e c he.2] at h3 h7
  exact ⟨a', c', h1, h2, h3, h4, h5, h7⟩

theorem remove_refines_inlined (T : Nat) (a : Arr) (c : Ctx) (i : Nat)
    (h : ArrInvInl T a c.ctr) (hi : i < a.toList.length) :
    ∃ a' c', a.remove T i c = .ok (a.toList.getD i default, a', c') ∧ ArrInvInl T a' c'.ctr ∧
      a'.toList = a.toList.eraseIdx i ∧ a'.rootID = a.rootID ∧ a'.ty = a.ty ∧
      a'.rootHdr.size + (a.toList.getD i default).size = a.rootHdr.size := by
  obtain ⟨a', c', h1, h2, h3, h4, h5, _, h7⟩ := arrInl_remove h hi
  exact ⟨a', c', h1, h2, h3, h4, h5, h7⟩

/-- the model lets an inlined root split when it has no room (concrete instance) -/
theorem inlined_root_can_split :
    let s : DataSlab := ⟨⟨⟨1, 2⟩, 17 + 400, 2⟩, SlabID.undef, [⟨200, .val 0⟩, ⟨200, .val 1⟩], true, true⟩
    (match Arr.insert 256 ⟨0, s, 0⟩ 2 ⟨100, .val 2⟩ ⟨5, [], []⟩ with
     | .ok (a', _) => some (a'.d, a'.isInlined)
     | .error _ => none) = some (1, false) := inlined_root_splits

/-! ### 2. The notification re-establishes the invariant -/

/-- A notification from a container `y` whose parent slot is out of date (it has just been
    mutated), issued through a current handle, re-establishes the global invariant; it only
    changes `y` in form and containers `y` is nested in (`NFrame`: same signatures everywhere,
    containers of rank ≥ rank `y` untouched, `y` keeps its data), and never lowers the counter. -/
theorem notify_restores (D : SlabID → DigestFn 4) (rank : SlabID → Nat) (fuel : Nat) (w : World) (y : SlabID)
    (cx : Ctx) (w' : World) (cx' : Ctx)
    (H : WorldOkGen D rank (some y) (fun _ => False) w cx.ctr) (hh : HandleOk w y)
    (h : notifyParent fuel w y cx = .ok (w', cx')) :
    WorldOkGen D rank none (fun _ => False) w' cx'.ctr ∧ NFrame rank w w' y ∧ cx.ctr ≤ cx'.ctr :=
  notify_ok D rank (fun _ => False) fuel w y cx w' cx' H hh (fun z hz _ => absurd hz id) h

/-! ### 3. The operations keep `WorldOk` -/

/-- `Array.Insert` through a current handle keeps the global invariant; the target holds the
    list-level result; its handle stays current. -/
theorem worldOk_arrInsert (D : SlabID → DigestFn 4) (w : World) (p : SlabID) (i : Nat) (v : WVal) (cx : Ctx)
    (w' : World) (cx' : Ctx) (H : WorldOk D w cx.ctr) (hh : HandleOk w p)
    (hv : WValOk w p (maxInlineArr w.T) v) (h : w.arrInsert p i v cx = .ok (w', cx')) :
    WorldOk D w' cx'.ctr ∧ cx.ctr ≤ cx'.ctr ∧ InsertedAt w w' p i v ∧ HandleOk w' p :=
  arrInsert_ok H hh hv h

/-- `Array.Set` -/
theorem worldOk_arrSet (D : SlabID → DigestFn 4) (w : World) (p : SlabID) (i : Nat) (v : WVal) (cx : Ctx)
    (old : Elem) (w' : World) (cx' : Ctx) (H : WorldOk D w cx.ctr) (hh : HandleOk w p)
    (hv : WValOk w p (maxInlineArr w.T) v) (h : w.arrSet p i v cx = .ok (old, w', cx')) :
    WorldOk D w' cx'.ctr ∧ cx.ctr ≤ cx'.ctr ∧ SetAt w w' p i v old ∧ HandleOk w' p :=
  arrSet_ok H hh hv h

/-- `Array.Remove` -/
theorem worldOk_arrRemove (D : SlabID → DigestFn 4) (w : World) (p : SlabID) (i : Nat) (cx : Ctx)
    (old : Elem) (w' : World) (cx' : Ctx) (H : WorldOk D w cx.ctr) (hh : HandleOk w p)
    (h : w.arrRemove p i cx = .ok (old, w', cx')) :
    WorldOk D w' cx'.ctr ∧ cx.ctr ≤ cx'.ctr ∧ RemovedAt w w' p i old ∧ HandleOk w' p :=
  arrRemove_ok H hh h

end Atree.C10W
