import AtreeModel.StorageOps
import AtreeProofs.StorageLemmas
import AtreeProofs.CommitLemmas
import AtreeProofs.StorageExample
/-
  C15 — Slab storage is a write-back overlay: read-your-writes, last-commit recovery.

  PROPERTY THEOREMS.  Statements only change together with obligations.json; helper lemmas live in
  AtreeProofs/StorageLemmas.lean.  Everything is for an arbitrary slab type `σ`, register type `β`,
  codec `c` and ANY finite sequence of operations (no bound on identifiers, versions or length).
-/
namespace Atree.C15
open Atree St

variable {σ β : Type} (c : Codec σ β)

/-- Every reachable state satisfies the storage invariant (cache coherent with the ledger, unique
    keys, nothing owned by the temporary address in the ledger, every register decodes). -/
theorem inv_reachable (hc : RoundTrip c) (ops : List (Op σ)) :
    Inv c (St.run c (St.init : St σ β) ops) := by
  exact inv_run c hc ops _ (inv_init c)

/-- The invariant is preserved by every single operation (incl. faulty commits and re-creation). -/
theorem inv_step (hc : RoundTrip c) (s : St σ β) (op : Op σ) (h : Inv c s) :
    Inv c (St.step c s op).1 := by
  exact inv_step_aux c hc s op h

/-- Read-your-writes: `Retrieve` returns exactly the overlay view, and never changes it. -/
theorem retrieve_eq_view (s : St σ β) (h : Inv c s) (id : SlabID) :
    ∃ s', s.retrieve c id = .ok (s.view c id, s') ∧ s'.view c = s.view c ∧ Inv c s' := by
  obtain ⟨s', h1, h2, h3, _⟩ := retrieve_spec c s h id
  exact ⟨s', h1, h3, h2⟩

/-- Main refinement: every operation acts on the abstraction `abs` exactly as the overlay
    specification says, and returns what the specification returns. -/
theorem step_refines (hc : RoundTrip c) (s : St σ β) (h : Inv c s) (op : Op σ) :
    let (s', obs) := St.step c s op
    let o := s.abs c
    let o' := s'.abs c
    match op with
    | .store id v =>
        if id = SlabID.undef then obs = .err .slabIDUndefined ∧ s' = s
        else obs = .unit ∧ o'.pend = (o.store id v).pend ∧ o'.comm = o.comm
    | .remove id =>
        if id = SlabID.undef then obs = .err .slabIDUndefined ∧ s' = s
        else obs = .unit ∧ o'.pend = (o.remove id).pend ∧ o'.comm = o.comm
    | .retrieve id => obs = .slab (o.view id) ∧ o'.pend = o.pend ∧ o'.comm = o.comm
    | .retrieveIfLoaded id =>
        s' = s ∧ obs = .slab (if AList.contains s.deltas id || AList.contains s.cache id then o.view id else none)
    | .retrieveIgnoringDeltas id _ =>
        obs = .slab (match AList.find? s.cache id with | some v => v | none => o.comm id) ∧
        o'.pend = o.pend ∧ o'.comm = o.comm
    | .commit _ faults _ _ =>
        -- any commit, with any faults: the overlay VIEW never changes
        (∀ id, o'.view id = o.view id) ∧
        -- a fault-free commit of encodable slabs is the specification's commit
        (faults = [] → NoEncodeFailure c s →
           obs = .unit ∧ (∀ id, o'.pend id = (o.commitAll).pend id) ∧ (∀ id, o'.comm id = (o.commitAll).comm id))
    | .dropDeltas => obs = .unit ∧ (∀ id, o'.pend id = none) ∧ o'.comm = o.comm
    | .dropCache => obs = .unit ∧ o'.pend = o.pend ∧ o'.comm = o.comm
    | .preload _ => o'.pend = o.pend ∧ o'.comm = o.comm ∧ (∀ id, o'.view id = o.view id)
    | .recreate => obs = .unit ∧ (∀ id, o'.pend id = none) ∧ o'.comm = o.comm
    | .genID a => o'.pend = o.pend ∧ o'.comm = o.comm ∧ (∃ i, obs = .id i ∧ i.addr = a ∧ i ≠ SlabID.undef)
    := by
  cases op with
  | store id v =>
    by_cases hid : id = SlabID.undef
    · simp [St.step, St.store, hid]
    · simp only [St.step, St.store, hid, if_false, true_and]
      refine ⟨?_, rfl⟩
      funext j
      simp only [St.abs, Overlay.store, AList.find?_insert]
      by_cases hj : id = j
      · simp [hj]
      · have : ¬ j = id := fun e => hj e.symm
        simp [hj, this]
  | remove id =>
    by_cases hid : id = SlabID.undef
    · simp [St.step, St.remove, hid]
    · simp only [St.step, St.remove, hid, if_false, true_and]
      refine ⟨?_, rfl⟩
      funext j
      simp only [St.abs, Overlay.remove, AList.find?_insert]
      by_cases hj : id = j
      · simp [hj]
      · have : ¬ j = id := fun e => hj e.symm
        simp [hj, this]
  | retrieve id =>
    obtain ⟨s', h1, _, _, h4, h5⟩ := retrieve_spec c s h id
    simp only [St.step, h1]
    exact ⟨by rw [abs_view c s h id], abs_pend_of_deltas c s s' h4, abs_comm_of_base c s s' h5⟩
  | retrieveIfLoaded id =>
    simp only [St.step, true_and]
    congr 1
    unfold St.retrieveIfLoaded
    simp only [AList.contains_eq, Overlay.view, St.abs]
    have hd : AList.find? s.deltas id = none ∨ ∃ v, AList.find? s.deltas id = some v := by
      cases AList.find? s.deltas id <;> simp
    have hcache : AList.find? s.cache id = none ∨ ∃ v, AList.find? s.cache id = some v := by
      cases AList.find? s.cache id <;> simp
    rcases hd with hd | ⟨v, hd⟩
    · rcases hcache with hcache | ⟨v, hcache⟩
      · simp [hd, hcache]
      · simpa [hd, hcache] using h.coherent id v hcache
    · simp [hd]
  | retrieveIgnoringDeltas id ch =>
    obtain ⟨s', h1, _, _, h4, h5⟩ := retrieveIgnoringDeltas_spec c s h id ch
    simp only [St.step, h1]
    exact ⟨rfl, abs_pend_of_deltas c s s' h4, abs_comm_of_base c s s' h5⟩
  | commit kind faults mo dlo =>
    rw [step_commit]
    dsimp only
    obtain ⟨h1, h2, _⟩ := commitW_spec c hc kind (faultPlan faults) mo dlo s h
    refine ⟨?_, ?_⟩
    · intro id
      rw [abs_view c _ h1 id, abs_view c s h id, h2.view id]
    · intro hf hne
      have hf' : ∀ n, faultPlan faults n = false := by
        intro n; subst hf; simp [faultPlan]
      obtain ⟨g1, g2, _⟩ := commitW_complete c hc kind (faultPlan faults) hf' mo dlo s h hne
      refine ⟨by rw [g1], ?_, ?_⟩
      · intro id
        simp only [St.abs, Overlay.commitAll]
        cases ht : id.isTemp with
        | true => simpa using h2.temp id ht
        | false => simpa using g2 id ht
      · intro id
        have hv := abs_view c s h id
        simp only [St.abs, Overlay.commitAll] at hv ⊢
        cases ht : id.isTemp with
        | true =>
          simp [St.committed, h1.noTempBase id ht, h.noTempBase id ht]
        | false =>
          simp only [Bool.false_eq_true, if_false]
          rw [hv]
          exact h2.committed_eq_view h1 g2 id ht
  | dropDeltas =>
    exact ⟨rfl, fun _ => rfl, rfl⟩
  | dropCache => exact ⟨rfl, rfl, rfl⟩
  | preload ids =>
    obtain ⟨_, _, h3, h4⟩ := batchPreload_spec c s h ids
    have hfst := step_preload_fst c s ids
    generalize St.step c s (Op.preload ids) = p at hfst ⊢
    obtain ⟨s', obs⟩ := p
    dsimp only at hfst ⊢
    subst hfst
    have hp := abs_pend_of_deltas c s _ h3
    have hcm := abs_comm_of_base c s _ h4
    refine ⟨hp, hcm, fun id => ?_⟩
    simp only [Overlay.view, hp, hcm]
  | recreate => exact ⟨rfl, fun _ => rfl, rfl⟩
  | genID a =>
    by_cases ha : a = 0
    · simp only [St.step, St.generateSlabID, ha, if_true]
      refine ⟨rfl, rfl, _, rfl, rfl, ?_⟩
      simp [SlabID.undef]
    · simp only [St.step, St.generateSlabID, ha, if_false]
      refine ⟨rfl, rfl, _, rfl, rfl, ?_⟩
      simp [SlabID.undef, ha]

/-- Dropping the write set and the cache reverts the view to the last commit. -/
theorem dropAll_reverts (s : St σ β) :
    (s.dropDeltas.dropCache).view c = s.committed c := by
  funext id
  simp [St.view, St.committed, St.dropDeltas, St.dropCache]

/-- Commit makes the ledger equal to the view for all owned identifiers, empties the owned write
    set, keeps temporary identifiers pending and never writes them to the ledger. -/
theorem commit_makes_base_eq_view (hc : RoundTrip c) (s : St σ β) (h : Inv c s)
    (hne : NoEncodeFailure c s) :
    let r := s.fastCommit c (fun _ => false)
    r.err = none ∧
    (∀ id, id.isTemp = false → r.st.committed c id = s.view c id) ∧
    (∀ id, id.isTemp = false → AList.find? r.st.deltas id = none) ∧
    (∀ id, id.isTemp = true → AList.find? r.st.deltas id = AList.find? s.deltas id) ∧
    (∀ id, id.isTemp = true → AList.find? r.st.base id = none) := by
  intro r
  have hr : r = commitW c .det (fun _ => false) [] [] s := rfl
  obtain ⟨h1, h2, _⟩ := commitW_spec c hc .det (fun _ => false) [] [] s h
  obtain ⟨g1, g2, _⟩ := commitW_complete c hc .det (fun _ => false) (fun _ => rfl) [] [] s h hne
  rw [hr]
  exact ⟨g1, fun id ht => h2.committed_eq_view h1 g2 id ht, g2, fun id ht => h2.temp id ht,
    h1.noTempBase⟩

/-- Auxiliary observations agree with the overlay model. -/
theorem observers_consistent (s : St σ β) (h : Inv c s) :
    s.deltasCount = (AList.keys s.deltas).length ∧ (AList.keys s.deltas).Nodup ∧
    s.deltasWithoutTemp = ((AList.keys s.deltas).filter (fun k => !k.isTemp)).length ∧
    (∀ a, s.hasUnsavedChanges a = true ↔ ∃ id, id.addr = a ∧ (s.abs c).pend id ≠ none) ∧
    (∀ id, s.retrieveIfLoaded id ≠ none → s.retrieveIfLoaded id = s.view c id) := by
  refine ⟨?_, h.deltasNodup, ?_, ?_, ?_⟩
  · simp [St.deltasCount, AList.keys]
  · simp [St.deltasWithoutTemp, AList.keys, List.filter_map, Function.comp_def]
  · intro a
    simp only [St.hasUnsavedChanges, List.any_eq_true, St.abs, AList.find?_ne_none_iff, AList.keys,
      List.mem_map, beq_iff_eq]
    constructor
    · rintro ⟨p, hp, hpa⟩
      exact ⟨p.1, hpa, p, hp, rfl⟩
    · rintro ⟨id, hid, p, hp, rfl⟩
      exact ⟨p, hp, hid⟩
  · intro id hne
    unfold St.retrieveIfLoaded at hne ⊢
    unfold St.view
    cases hd : AList.find? s.deltas id with
    | some v => rfl
    | none =>
      cases hcache : AList.find? s.cache id with
      | some v => rfl
      | none => simp [hd, hcache] at hne

/-- Pending changes under the temporary address are never written to the ledger, in any history. -/
theorem temp_never_in_ledger (hc : RoundTrip c) (ops : List (Op σ)) (id : SlabID) (ht : id.isTemp = true) :
    AList.find? (St.run c (St.init : St σ β) ops).base id = none := by
  exact (inv_reachable c hc ops).noTempBase id ht

/-! ### Non-vacuity

The hypotheses used above (`RoundTrip`, `Inv`, `NoEncodeFailure`) hold together on the concrete state
`Example.exSt` (AtreeProofs/StorageExample.lean): a pending store (`1.1`), a pending deletion
(`1.2`), a pending temporary slab (`0.1`), a cached entry (`1.3`) and committed entries
(`1.2`, `1.3`, `1.4`).  The theorems are instantiated on it and the instances are checked against
direct evaluation of the model. -/
section NonVacuity
open Atree.Example

example : RoundTrip natCodec ∧ Inv natCodec exSt ∧ NoEncodeFailure natCodec exSt :=
  ⟨roundTrip, inv, noEncodeFailure exSt⟩

/-- `Inv` is not trivially true: a cache entry disagreeing with the ledger violates it. -/
example : ¬ Inv natCodec { exSt with cache := [(⟨1, 3⟩, some 8)] } := by
  intro h
  have := h.coherent ⟨1, 3⟩ (some 8) (by decide)
  revert this
  decide

/-- `NoEncodeFailure` is not trivially true either. -/
example : ¬ NoEncodeFailure ({ natCodec with enc := fun _ => none } : Codec Nat Nat) exSt := by
  intro h
  have := h ⟨1, 1⟩ 5 (by decide)
  revert this
  decide

/-- `retrieve_eq_view` on the pending store and on the pending deletion. -/
example : ∃ s', exSt.retrieve natCodec ⟨1, 1⟩ = .ok (some 5, s') ∧ s'.view natCodec = exSt.view natCodec ∧
    Inv natCodec s' := retrieve_eq_view natCodec exSt inv ⟨1, 1⟩
example : ∃ s', exSt.retrieve natCodec ⟨1, 2⟩ = .ok (none, s') ∧ s'.view natCodec = exSt.view natCodec ∧
    Inv natCodec s' := retrieve_eq_view natCodec exSt inv ⟨1, 2⟩

/-- `commit_makes_base_eq_view` instantiated, and the same facts by evaluation. -/
example : (exSt.fastCommit natCodec (fun _ => false)).err = none :=
  (commit_makes_base_eq_view natCodec roundTrip exSt inv (noEncodeFailure exSt)).1
example :
    let r := exSt.fastCommit natCodec (fun _ => false)
    r.n = 2 ∧ AList.find? r.st.base ⟨1, 1⟩ = some 5 ∧ AList.find? r.st.base ⟨1, 2⟩ = none ∧
    AList.find? r.st.deltas ⟨1, 1⟩ = none ∧ AList.find? r.st.deltas ⟨0, 1⟩ = some (some 8) ∧
    AList.find? r.st.base ⟨0, 1⟩ = none := by decide

/-- `step_refines` for a commit: both antecedents of the second conjunct are satisfiable (first
    example), and a commit with a fault really fails while keeping the view (second example). -/
example : ([] : List Nat) = [] ∧ NoEncodeFailure natCodec exSt := ⟨rfl, noEncodeFailure exSt⟩
example :
    let r := exSt.fastCommit natCodec (faultPlan [0])
    r.err = some .external ∧ r.st.view natCodec ⟨1, 1⟩ = some 5 ∧
    AList.find? r.st.deltas ⟨1, 1⟩ = some (some 5) := by decide

/-- `temp_never_in_ledger` / `inv_reachable` on a non-trivial history (it builds `exSt`). -/
example : AList.find? (St.run natCodec (St.init : St Nat Nat) exOps).base ⟨0, 1⟩ = none :=
  temp_never_in_ledger natCodec roundTrip exOps ⟨0, 1⟩ rfl
example : AList.find? (St.run natCodec (St.init : St Nat Nat) exOps).deltas ⟨0, 1⟩ = some (some 8) := by
  decide

/-- `observers_consistent`: the hypothesis `retrieveIfLoaded id ≠ none` is satisfiable. -/
example : exSt.retrieveIfLoaded ⟨1, 3⟩ ≠ none ∧ exSt.hasUnsavedChanges 1 = true ∧
    exSt.deltasCount = 3 ∧ exSt.deltasWithoutTemp = 2 := by decide

end NonVacuity

end Atree.C15
