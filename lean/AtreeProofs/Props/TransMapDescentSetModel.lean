import AtreeProofs.Props.TransMapDescentSet
/-
  WP13 (map descent, `Set`, MODEL form): when the model's `MTree.set` restructures nowhere on the path, the generated
  descent `MapSlab_Set (envD ..) (MapMetaDataSlab_Set (envD ..) depth) (md_tree d t x) s ..` over a heap that holds the
  tree returns the translation of the model's result (`Ob_MapSlab_Set_heap_noRestructure`).
-/
namespace Atree.TransEq
open Atree Atree.Gen.TransMapD

section
variable {r : Nat} (T : Nat) (eb : DEnvB r) (rs : DRestruct r)

theorem mds_hdr_tree (d : Nat) (t : MTree r d) (x : Option DX) :
    MapSlab_Header (envD T eb rs) (md_tree d t x) = some (md_hdr (MTree.hdr d t)) := by
  cases d <;> rfl

theorem mds_isFull_tree (d : Nat) (t : MTree r d) (x : Option DX) (hs : (MTree.hdr d t).size < 2^32)
    (hT : maxThr T < 2^32) : MapSlab_IsFull (envD T eb rs) (md_tree d t x) = some (MTree.isFull T d t) := by
  cases d with
  | zero =>
    show some (if false then false else decide (u32 (MTree.hdr 0 t).size > u32 (maxThr T))) = _
    rw [u32_dgt hs hT]
    rfl
  | succ d =>
    show some (decide (u32 (MTree.hdr (d + 1) t).size > u32 (maxThr T))) = _
    rw [u32_dgt hs hT]
    rfl

theorem mds_isUnderflow_tree (d : Nat) (t : MTree r d) (x : Option DX) (hs : (MTree.hdr d t).size < 2^32)
    (hT : minThr T < 2^32) (hu : MTree.isUnderflow T d t = none) :
    MapSlab_IsUnderflow (envD T eb rs) (md_tree d t x) = some ((0 : UInt32), false) := by
  have hn : ¬ (minThr T > (MTree.hdr d t).size) := by
    cases d with
    | zero =>
      intro h
      have : MTree.isUnderflow T 0 t = some (minThr T - (MTree.hdr 0 t).size) := if_pos h
      rw [this] at hu; cases hu
    | succ d =>
      intro h
      have : MTree.isUnderflow T (d + 1) t = some (minThr T - (MTree.hdr (d + 1) t).size) := if_pos h
      rw [this] at hu; cases hu
  have hdec : decide (u32 (minThr T) > u32 (MTree.hdr d t).size) = false := by
    rw [u32_dgt hT hs]; exact decide_eq_false hn
  cases d with
  | zero =>
    have e : MapDataSlab_IsUnderflow (envD T eb rs) (md_data t x) = ((0 : UInt32), false) := by
      show (if false then ((0 : UInt32), false) else
        if decide (u32 (minThr T) > u32 (MTree.hdr 0 t).size) then (u32 (minThr T) - u32 (MTree.hdr 0 t).size, true)
        else ((0 : UInt32), false)) = _
      rw [hdec]; rfl
    show some ((MapDataSlab_IsUnderflow (envD T eb rs) (md_data t x)).1,
      (MapDataSlab_IsUnderflow (envD T eb rs) (md_data t x)).2) = _
    rw [e]
  | succ d =>
    have e : MapMetaDataSlab_IsUnderflow (envD T eb rs) (md_meta t x) = ((0 : UInt32), false) := by
      show (if decide (u32 (minThr T) > u32 (MTree.hdr (d + 1) t).size) then
        (u32 (minThr T) - u32 (MTree.hdr (d + 1) t).size, true) else ((0 : UInt32), false)) = _
      rw [hdec]; rfl
    show some ((MapMetaDataSlab_IsUnderflow (envD T eb rs) (md_meta t x)).1,
      (MapMetaDataSlab_IsUnderflow (envD T eb rs) (md_meta t x)).2) = _
    rw [e]

/-- the heap after a `Set` that restructures nowhere: the same identifiers, the new tree is held, everything else is
    untouched -/
structure mds_HeapRel (h h' : SlabID → Option (DSlab r)) (d : Nat) (t t' : MTree r d) (x : Option DX) : Prop where
  ids : md_ids d t' = md_ids d t
  holds : MHolds h' d t' x
  frame : ∀ id, id ∉ md_ids d t → h' id = h id

theorem mds_HeapRel.post {h h' : SlabID → Option (DSlab r)} {d : Nat} {t t' : MTree r d} {x : Option DX}
    (hr : mds_HeapRel h h' d t t' x) : MHeapPost h h' t t' x where
  holds := hr.holds
  gone := fun id hin hnot => absurd (hr.ids ▸ hin) hnot
  frame := fun id h1 _ => hr.frame id h1

/-- `MHolds` only looks at the identifiers of the tree -/
theorem mds_MHolds_congr : ∀ (d : Nat) (t : MTree r d) (x : Option DX) (h h' : SlabID → Option (DSlab r)),
    (∀ id ∈ md_ids d t, h' id = h id) → MHolds h d t x → MHolds h' d t x
  | 0, t, x, h, h', hyp, hh => by
    have e : h' (MTree.hdr 0 t).id = h (MTree.hdr 0 t).id := hyp _ (List.mem_singleton.mpr rfl)
    exact e.trans hh
  | d + 1, t, x, h, h', hyp, hh => by
    refine ⟨?_, fun c hc => ?_⟩
    · have e : h' (MTree.hdr (d + 1) t).id = h (MTree.hdr (d + 1) t).id := hyp _ (List.mem_cons_self)
      exact e.trans hh.1
    · exact mds_MHolds_congr d c none h h'
        (fun id hid => hyp id (List.mem_cons_of_mem _ (List.mem_flatMap.mpr ⟨c, hc, hid⟩))) (hh.2 c hc)

theorem mds_split_at {α : Type} : ∀ (l : List α) (i : Nat) (a : α), l[i]? = some a →
    ∃ A B, l = A ++ a :: B ∧ A.length = i
  | [], i, a, h => by simp at h
  | b :: l, 0, a, h => ⟨[], l, by simp at h; simp [h], rfl⟩
  | b :: l, i + 1, a, h => by
    obtain ⟨A, B, e, hl⟩ := mds_split_at l i a (by simpa using h)
    exact ⟨b :: A, B, by simp [e], by simp [hl]⟩

theorem mds_set_at {α : Type} (A B : List α) (a b : α) : (A ++ a :: B).set A.length b = A ++ b :: B := by
  induction A with
  | nil => rfl
  | cons c A ih => simp [ih]

/-- the result of the generated descent on a subtree against the model's -/
def mds_setRel (cfg : MCfg) (k : MKey) (v : Elem) (depth d : Nat) (t : MTree r d) (x : Option DX) (s : MHSt r) : Prop :=
  match MTree.set cfg d t k v s.ctx with
  | .ok (ks, old, t', c') =>
    ∃ s', MapSlab_Set (envD cfg.T eb rs) (MapMetaDataSlab_Set (envD cfg.T eb rs) depth) (md_tree d t x) s () k (u64 0)
        (u64 (k.dig 0)) (.key k) (.val v) = some (some (.key ks), old.map .val, none, md_tree d t' x, s') ∧
      s'.ctx = c' ∧ s'.popped = s.popped ∧ mds_HeapRel s.heap s'.heap d t t' x
  | .error e =>
    MapSlab_Set (envD cfg.T eb rs) (MapMetaDataSlab_Set (envD cfg.T eb rs) depth) (md_tree d t x) s () k (u64 0)
        (u64 (k.dig 0)) (.key k) (.val v) = some (none, none, some e, md_tree d t x, s)

theorem mds_set_data (cfg : MCfg) (k : MKey) (v : Elem) (P : DG r → Prop) (hE : ElemsSpec cfg k v P eb)
    (sl : MDataSlab r) (x : Option DX) (hx : x.isSome = sl.root) (hP : P sl.elems) (s : MHSt r)
    (ha : sl.hdr.id.addr = cfg.addr) (hinl : sl.inlined = false) (depth : Nat) :
    mds_setRel eb rs cfg k v depth 0 sl x s := by
  have h := Ob_MapDataSlab_Set_heap cfg.T eb rs cfg k v P hE sl x hx hP s ha
  unfold mds_setRel
  rcases hq : HkeyElems.set (MElems.ops r) cfg sl.elems 0 k v s.ctx with err | ⟨ks, old, g', c0⟩
  · rw [hq] at h
    obtain ⟨h1, h2⟩ := h
    have h1' : MTree.set cfg 0 sl k v s.ctx = .error err := h1
    rw [h1']
    show MapSlab_Set _ _ (.dataSlab (md_data sl x)) _ _ _ _ _ _ _ = _
    simp only [MapSlab_Set, h2]
    rfl
  · rw [hq] at h
    obtain ⟨h1, h2⟩ := h
    have h1' : MTree.set cfg 0 sl k v s.ctx =
      .ok (ks, old, mds_dataAfter sl g', (mds_dataAfter sl g').storeIfNotInlined c0) := h1
    rw [h1']
    refine ⟨if sl.inlined = true then s.withCtx c0
        else (s.withCtx c0).store sl.hdr.id (MapSlab.dataSlab (md_data (mds_dataAfter sl g') x)), ?_, ?_, ?_, ?_⟩
    · show MapSlab_Set _ _ (.dataSlab (md_data sl x)) _ _ _ _ _ _ _ = _
      simp only [MapSlab_Set, h2]
      rfl
    · cases hi : sl.inlined <;> simp [MDataSlab.storeIfNotInlined, mds_dataAfter, hi]
    · cases hi : sl.inlined <;> simp
    · simp only [hinl, Bool.false_eq_true, if_false]
      refine ⟨rfl, ?_, ?_⟩
      · show (if sl.hdr.id = sl.hdr.id then _ else _) = _
        rw [if_pos rfl]
      · intro id hid
        have hne : id ≠ sl.hdr.id := fun e => hid (e ▸ List.mem_singleton.mpr rfl)
        show (if id = sl.hdr.id then _ else _) = _
        rw [if_neg hne]
        rfl

/-- the root flag of a subtree -/
def mds_rootFlag : (d : Nat) → MTree r d → Bool
  | 0, (sl : MDataSlab r) => sl.root
  | _ + 1, (m : MMetaSlab _) => m.root

/-- what the model form assumes ALONG THE PATH of the key: digests / lengths in machine range, the child header list
    agrees with the embedded child, the data slab's elements satisfy `P` and belong to the owner address, and the
    model restructures nowhere (the new child is neither full nor underflowing, its size fits `uint32`) -/
def mds_Path (cfg : MCfg) (k : MKey) (v : Elem) (P : DG r → Prop) : (d : Nat) → MTree r d → Ctx → Prop
  | 0, (sl : MDataSlab r), _ => P sl.elems ∧ sl.hdr.id.addr = cfg.addr ∧ sl.inlined = false
  | d + 1, (m : MMetaSlab (MTree r d)), c =>
    (∀ h ∈ m.childHdrs, h.firstKey < 2^64) ∧ m.childHdrs.length < 2^62 ∧
    ∃ child : MTree r d, m.children[mds_idx m.childHdrs (k.dig 0)]? = some child ∧
      m.childHdrs[mds_idx m.childHdrs (k.dig 0)]? = some (MTree.hdr d child) ∧
      mds_rootFlag d child = false ∧
      mds_Path cfg k v P d child c ∧
      ∀ ks old child' c1, MTree.set cfg d child k v c = .ok (ks, old, child', c1) →
        (MTree.hdr d child').size < 2^32 ∧ MTree.isFull cfg.T d child' = false ∧
          MTree.isUnderflow cfg.T d child' = none

theorem mds_model_set_succ (cfg : MCfg) (d : Nat) (m : MMetaSlab (MTree r d)) (k : MKey) (v : Elem) (c : Ctx)
    (child : MTree r d) (hci : m.children[mds_idx m.childHdrs (k.dig 0)]? = some child) :
    MTree.set cfg (d + 1) m k v c =
      match MTree.set cfg d child k v c with
      | .error e => .error e
      | .ok (ks, old, child', c1) =>
        match m.afterChild cfg.T child' (mds_idx m.childHdrs (k.dig 0)) c1 with
        | .error e => .error e
        | .ok (m', c2) => .ok (ks, old, m', c2) := by
  have hci' := hci
  unfold mds_idx at hci'
  simp only [MTree.set, hci', bind, Except.bind, pure, Except.pure]
  rcases MTree.set cfg d child k v c with e | ⟨ks, old, child', c1⟩
  · rfl
  · simp only [mds_idx]
    rcases MMetaSlab.afterChild cfg.T m child' _ c1 with e | ⟨m', c2⟩ <;> rfl

/-- the model's index slab after the child `i` was replaced, no restructuring (`m1` of `MMetaSlab.afterChild`) -/
def mds_metaAfter {d : Nat} (m : MMetaSlab (MTree r d)) (child' : MTree r d) (i : Nat) : MMetaSlab (MTree r d) :=
  { m with childHdrs := m.childHdrs.set i (MTree.hdr d child'), children := m.children.set i child',
           hdr := { m.hdr with firstKey := if i == 0 then (MTree.hdr d child').firstKey else m.hdr.firstKey } }

theorem mds_afterChild_plain {d : Nat} (T : Nat) (m : MMetaSlab (MTree r d)) (child' : MTree r d) (i : Nat) (c : Ctx)
    (hf : MTree.isFull T d child' = false) (hu : MTree.isUnderflow T d child' = none) :
    m.afterChild T child' i c = .ok (mds_metaAfter m child' i, c.emit (.store m.hdr.id)) := by
  simp only [MMetaSlab.afterChild, hf, hu, Bool.false_eq_true, if_false]
  rfl

/-- one level of the model form: from the relation on the child to the relation on the index slab -/
theorem mds_set_meta (cfg : MCfg) (k : MKey) (v : Elem) (hT1 : maxThr cfg.T < 2^32) (hT2 : minThr cfg.T < 2^32)
    (hhk : k.dig 0 < 2^64) (d depth : Nat) (m : MMetaSlab (MTree r d)) (x : Option DX) (s : MHSt r)
    (hfk : ∀ h ∈ m.childHdrs, h.firstKey < 2^64) (hlen : m.childHdrs.length < 2^62)
    (child : MTree r d) (hci : m.children[mds_idx m.childHdrs (k.dig 0)]? = some child)
    (hhi : m.childHdrs[mds_idx m.childHdrs (k.dig 0)]? = some (MTree.hdr d child))
    (hh : MHolds s.heap (d + 1) m x) (hnd : (md_ids (d + 1) m).Nodup)
    (hres : ∀ ks old child' c1, MTree.set cfg d child k v s.ctx = .ok (ks, old, child', c1) →
        (MTree.hdr d child').size < 2^32 ∧ MTree.isFull cfg.T d child' = false ∧
          MTree.isUnderflow cfg.T d child' = none)
    (ihc : mds_setRel eb rs cfg k v depth d child none s) :
    mds_setRel eb rs cfg k v (depth + 1) (d + 1) m x s := by
  have hheap : s.heap (MTree.hdr d child).id = some (md_tree d child none) :=
    (hh.2 child (List.mem_of_getElem? hci)).root
  unfold mds_setRel at ihc ⊢
  rw [mds_model_set_succ cfg d m k v s.ctx child hci]
  have hil : mds_idx m.childHdrs (k.dig 0) < m.childHdrs.length := (List.getElem?_eq_some_iff.mp hhi).1
  have hgetD : m.childHdrs.getD (mds_idx m.childHdrs (k.dig 0)) default = MTree.hdr d child := by
    simp [List.getD, hhi]
  have hheap' : s.heap (m.childHdrs.getD (mds_idx m.childHdrs (k.dig 0)) default).id = some (md_tree d child none) := by
    rw [hgetD]; exact hheap
  rcases hq : MTree.set cfg d child k v s.ctx with e | ⟨ks, old, child', c1⟩
  · rw [hq] at ihc
    show MapSlab_Set _ _ (.metaSlab (md_meta m x)) _ _ _ _ _ _ _ = _
    simp only [MapSlab_Set]
    rw [Ob_MapMetaDataSlab_Set_step_childErr cfg.T eb rs m x s s k v depth hhk hfk hlen hil (md_tree d child none)
      (md_tree d child none) none none e hheap' ihc]
    rfl
  · rw [hq] at ihc
    obtain ⟨s1, h1, h2, h3, hrel⟩ := ihc
    obtain ⟨hsz, hfull, hund⟩ := hres ks old child' c1 hq
    simp only [mds_afterChild_plain cfg.T m child' _ c1 hfull hund]
    refine ⟨s1.store m.hdr.id (.metaSlab (md_meta (mds_metaAfter m child' (mds_idx m.childHdrs (k.dig 0))) x)), ?_, ?_, ?_,
      ?_⟩
    · show MapSlab_Set _ _ (.metaSlab (md_meta m x)) _ _ _ _ _ _ _ = _
      simp only [MapSlab_Set]
      rw [Ob_MapMetaDataSlab_Set_step cfg.T eb rs m x s s1 k v depth hhk hfk hlen hil (md_tree d child none)
        (md_tree d child' none) _ _ hheap' h1]
      simp only [mds_stepSpec, mds_hdr_tree, mds_isFull_tree cfg.T eb rs d child' none hsz hT1, hfull,
        mds_isUnderflow_tree cfg.T eb rs d child' none hsz hT2 hund, Option.getD_some, Bool.false_eq_true, if_false,
        mds_refresh_md_meta m x _ (MTree.hdr d child') (m.children.set (mds_idx m.childHdrs (k.dig 0)) child')]
      rfl
    · simp [h2]
    · simp [h3]
    · -- the heap
      obtain ⟨A, B, hAB, hAl⟩ := mds_split_at m.children _ child hci
      have hids : md_ids (d + 1) m = m.hdr.id :: (A.flatMap (md_ids d) ++ (md_ids d child ++ B.flatMap (md_ids d))) := by
        show m.hdr.id :: m.children.flatMap (md_ids d) = _
        rw [hAB]; simp
      have hch1 : (mds_metaAfter m child' (mds_idx m.childHdrs (k.dig 0))).children = A ++ child' :: B := by
        show m.children.set _ child' = _
        rw [hAB, ← hAl, mds_set_at]
      rw [hids] at hnd
      obtain ⟨hhead, htail⟩ := List.nodup_cons.mp hnd
      obtain ⟨_, hcB, hdisjA⟩ := List.nodup_append.mp htail
      obtain ⟨_, _, hdisjB⟩ := List.nodup_append.mp hcB
      have hidc : m.hdr.id ∉ md_ids d child := fun hc =>
        hhead (List.mem_append_right _ (List.mem_append_left _ hc))
      refine ⟨?_, ⟨?_, ?_⟩, ?_⟩
      · show m.hdr.id :: (mds_metaAfter m child' (mds_idx m.childHdrs (k.dig 0))).children.flatMap (md_ids d) = _
        rw [hids, hch1]; simp [hrel.ids]
      · show (if m.hdr.id = m.hdr.id then _ else _) = _
        rw [if_pos rfl]
      · intro c hc
        rw [hch1] at hc
        have hstore : ∀ id, id ≠ m.hdr.id → (s1.store m.hdr.id
            (.metaSlab (md_meta (mds_metaAfter m child' (mds_idx m.childHdrs (k.dig 0))) x))).heap id = s1.heap id :=
          fun id hne => by show (if id = m.hdr.id then _ else _) = _; rw [if_neg hne]
        rcases List.mem_append.mp hc with hcA | hcB'
        · refine mds_MHolds_congr d c none s.heap _ (fun id hid => ?_)
            (hh.2 c (by rw [hAB]; exact List.mem_append_left _ hcA))
          have hidA : id ∈ A.flatMap (md_ids d) := List.mem_flatMap.mpr ⟨c, hcA, hid⟩
          have hne : id ≠ m.hdr.id := fun e => hhead (e ▸ List.mem_append_left _ hidA)
          have hnc : id ∉ md_ids d child := fun hc' => hdisjA id hidA id (List.mem_append_left _ hc') rfl
          rw [hstore id hne, hrel.frame id hnc]
        · rcases List.mem_cons.mp hcB' with rfl | hcB''
          · refine mds_MHolds_congr d c none s1.heap _ (fun id hid => ?_) hrel.holds
            have hne : id ≠ m.hdr.id := fun e => hidc (hrel.ids ▸ (e ▸ hid))
            exact hstore id hne
          · refine mds_MHolds_congr d c none s.heap _ (fun id hid => ?_)
              (hh.2 c (by rw [hAB]; exact List.mem_append_right _ (List.mem_cons_of_mem _ hcB'')))
            have hidB : id ∈ B.flatMap (md_ids d) := List.mem_flatMap.mpr ⟨c, hcB'', hid⟩
            have hne : id ≠ m.hdr.id :=
              fun e => hhead (e ▸ List.mem_append_right _ (List.mem_append_right _ hidB))
            have hnc : id ∉ md_ids d child := fun hc' => hdisjB id hc' id hidB rfl
            rw [hstore id hne, hrel.frame id hnc]
      · intro id hid
        rw [hids] at hid
        have hne : id ≠ m.hdr.id := fun e => hid (e ▸ List.mem_cons_self)
        have hnc : id ∉ md_ids d child := fun hc' =>
          hid (List.mem_cons_of_mem _ (List.mem_append_right _ (List.mem_append_left _ hc')))
        show (if id = m.hdr.id then _ else _) = _
        rw [if_neg hne]
        exact hrel.frame id hnc

/-- MODEL FORM of the descent: for a tree `t` held by the heap, when the model's `MTree.set` restructures nowhere on
    the path of the key (`mds_Path`), the generated `MapSlab.Set` dispatch over the heap returns the translation of the
    model's result: stored key, old value, no error, the new subtree root `md_tree d t' x`, and a storage whose `Ctx`
    is the model's; when the model returns an error, so does the code, with nothing changed. -/
theorem Ob_MapSlab_Set_heap_noRestructure (cfg : MCfg) (k : MKey) (v : Elem) (P : DG r → Prop)
    (hE : ElemsSpec cfg k v P eb) (hT1 : maxThr cfg.T < 2^32) (hT2 : minThr cfg.T < 2^32) (hhk : k.dig 0 < 2^64) :
    ∀ (d depth : Nat) (t : MTree r d) (x : Option DX) (s : MHSt r), d ≤ depth → MHolds s.heap d t x →
      x.isSome = mds_rootFlag d t → (md_ids d t).Nodup → mds_Path cfg k v P d t s.ctx →
      match MTree.set cfg d t k v s.ctx with
      | .ok (ks, old, t', c') =>
        ∃ s', MapSlab_Set (envD cfg.T eb rs) (MapMetaDataSlab_Set (envD cfg.T eb rs) depth) (md_tree d t x) s () k
            (u64 0) (u64 (k.dig 0)) (.key k) (.val v) =
              some (some (.key ks), old.map .val, none, md_tree d t' x, s') ∧
          s'.ctx = c' ∧ s'.popped = s.popped ∧ mds_HeapRel s.heap s'.heap d t t' x
      | .error e =>
        MapSlab_Set (envD cfg.T eb rs) (MapMetaDataSlab_Set (envD cfg.T eb rs) depth) (md_tree d t x) s () k (u64 0)
          (u64 (k.dig 0)) (.key k) (.val v) = some (none, none, some e, md_tree d t x, s) := by
  intro d
  induction d with
  | zero =>
    intro depth t x s _ _ hx _ hp
    exact mds_set_data eb rs cfg k v P hE t x hx hp.1 s hp.2.1 hp.2.2 depth
  | succ d ih =>
    intro depth t x s hd hh _ hnd hp
    obtain ⟨hfk, hlen, child, hci, hhi, hroot, hpc, hres⟩ := hp
    cases depth with
    | zero => omega
    | succ depth' =>
      have hhc : MHolds s.heap d child none := hh.2 child (List.mem_of_getElem? hci)
      have hndc : (md_ids d child).Nodup := by
        obtain ⟨A, B, hAB, _⟩ := mds_split_at (MMetaSlab.children t) _ child hci
        have hids : md_ids (d + 1) t =
            (MMetaSlab.hdr t).id :: (A.flatMap (md_ids d) ++ (md_ids d child ++ B.flatMap (md_ids d))) := by
          show (MMetaSlab.hdr t).id :: (MMetaSlab.children t).flatMap (md_ids d) = _
          rw [hAB]; simp
        rw [hids] at hnd
        exact (List.nodup_append.mp (List.nodup_append.mp (List.nodup_cons.mp hnd).2).2.1).1
      exact mds_set_meta eb rs cfg k v hT1 hT2 hhk d depth' t x s hfk hlen child hci hhi hh hnd hres
        (ih depth' child none s (by omega) hhc (by rw [hroot]; rfl) hndc hpc)

end

/-! ### non-vacuity: the concrete 2-child index slab, threshold 40, the MODEL's element layer -/
namespace mdsEx

def cfg2 : MCfg := { T := 40, L := 4, climit := 0, addr := 1 }

/-- the element layer given by the MODEL for `cfg2` -/
def eb2 : DEnvB 0 :=
  { eb0 with
    elements_Get := fun g c d _ _ _ => mei_rGet c (HkeyElems.get (MElems.ops 0) cfg2 g 0 d)
    elements_Remove := fun g c d _ _ _ => mei_rGRemove g c (HkeyElems.remove (MElems.ops 0) cfg2 g 0 d c)
    elements_Set := fun g c _ _ d _ _ _ w' =>
      match w' with
      | .val v => mei_rGSet g c (HkeyElems.set (MElems.ops 0) cfg2 g 0 d v c)
      | .key _ => (none, none, none, g, c) }

theorem eb2_spec (k : MKey) (v : Elem) : ElemsSpec cfg2 k v (fun _ => True) eb2 where
  size := fun _ => rfl
  first := fun _ => rfl
  get := fun _ _ _ => rfl
  set := fun _ _ _ => rfl
  remove := fun _ _ _ => rfl

/-- a heap that holds the whole tree `mm` (root with the extra data `xx`) -/
def s2 : MHSt 0 where
  heap := fun i => if i = id0 then some (.metaSlab (md_meta mm (some xx)))
    else if i = id1 then some (.dataSlab (md_data d1 none))
    else if i = id2 then some (.dataSlab (md_data d2 none)) else none
  ctx := { ctr := 3, eff := [] }

def vv : Elem := default

theorem ex_child_ok : (match MTree.set (r := 0) cfg2 0 d2 kk vv s2.ctx with
    | .ok (_, _, t', _) => decide ((MTree.hdr 0 t').size < 2^32) && !(MTree.isFull cfg2.T 0 t') &&
        (MTree.isUnderflow cfg2.T 0 t').isNone
    | .error _ => true) = true := by decide

theorem ex_path : mds_Path (r := 0) cfg2 kk vv (fun _ => True) 1 mm s2.ctx := by
  refine ⟨by decide, by decide, d2, rfl, rfl, rfl, ⟨trivial, rfl, rfl⟩, ?_⟩
  intro ks old child' c1 h
  have hv := ex_child_ok
  rw [h] at hv
  simp only [Bool.and_eq_true, decide_eq_true_eq, Bool.not_eq_true', Option.isNone_iff_eq_none] at hv
  exact ⟨hv.1.1, hv.1.2, hv.2⟩

/-- `Ob_MapSlab_Set_heap_noRestructure` applies to the concrete tree over the concrete heap, and the model's `Set`
    succeeds there (so the `.ok` branch is the one that is met) -/
example : (∃ r, MTree.set (r := 0) cfg2 1 mm kk vv s2.ctx = .ok r) ∧
    (match MTree.set (r := 0) cfg2 1 mm kk vv s2.ctx with
      | .ok (ks, old, t', c') =>
        ∃ s', MapSlab_Set (envD cfg2.T eb2 rs0) (MapMetaDataSlab_Set (envD cfg2.T eb2 rs0) 1) (md_tree 1 mm (some xx)) s2 ()
            kk (u64 0) (u64 (kk.dig 0)) (.key kk) (.val vv) =
              some (some (.key ks), old.map .val, none, md_tree 1 t' (some xx), s') ∧
          s'.ctx = c' ∧ s'.popped = s2.popped ∧ mds_HeapRel s2.heap s'.heap 1 mm t' (some xx)
      | .error e =>
        MapSlab_Set (envD cfg2.T eb2 rs0) (MapMetaDataSlab_Set (envD cfg2.T eb2 rs0) 1) (md_tree 1 mm (some xx)) s2 () kk
          (u64 0) (u64 (kk.dig 0)) (.key kk) (.val vv) = some (none, none, some e, md_tree 1 mm (some xx), s2)) :=
  ⟨by
    have h : (match MTree.set (r := 0) cfg2 1 mm kk vv s2.ctx with | .ok _ => true | .error _ => false) = true := by
      decide
    rcases hq : MTree.set (r := 0) cfg2 1 mm kk vv s2.ctx with e | r
    · rw [hq] at h; cases h
    · exact ⟨r, rfl⟩,
   Ob_MapSlab_Set_heap_noRestructure eb2 rs0 cfg2 kk vv (fun _ => True) (eb2_spec kk vv) (by decide) (by decide)
    (by decide) 1 1 mm (some xx) s2 (Nat.le_refl 1) ⟨rfl, fun c hc => by
      rcases List.mem_cons.mp hc with rfl | hc
      · rfl
      · rcases List.mem_cons.mp hc with rfl | hc
        · rfl
        · cases hc⟩ rfl (by decide) ex_path⟩

end mdsEx

end Atree.TransEq
