import AtreeProofs.Props.TransMapDescentSet
/-
  WP13 (map descent, `Set`, MODEL form): when the model's `MTree.set` restructures nowhere on the path, the generated
  descent `MapSlab_Set (envD ..) (MapMetaDataSlab_Set (envD ..) depth) (md_tree d t x) s ..` over a heap that holds the
  tree returns the translation of the model's result (`Ob_MapSlab_Set_heap_noRestructure`).
-/
namespace Atree.TransEq
open Atree Atree.Gen.TransMapD

section
variable {r : Nat} (T : Nat) (eb : DEnvB r) (rs : DRestruct r)

theorem mds_hdr_tree (d : Nat) (t : MTree r d) (x : Option DX) :
    MapSlab_Header (envD T eb rs) (md_tree d t x) = some (md_hdr (MTree.hdr d t)) := by
  cases d <;> rfl

theorem mds_isFull_tree (d : Nat) (t : MTree r d) (x : Option DX) (hs : (MTree.hdr d t).size < 2^32)
    (hT : maxThr T < 2^32) : MapSlab_IsFull (envD T eb rs) (md_tree d t x) = some (MTree.isFull T d t) := by
  cases d with
  | zero =>
    show some (if false then false else decide (u32 (MTree.hdr 0 t).size > u32 (maxThr T))) = _
    rw [u32_dgt hs hT]
    rfl
  | succ d =>
    show some (decide (u32 (MTree.hdr (d + 1) t).size > u32 (maxThr T))) = _
    rw [u32_dgt hs hT]
    rfl

theorem mds_isUnderflow_tree (d : Nat) (t : MTree r d) (x : Option DX) (hs : (MTree.hdr d t).size < 2^32)
    (hT : minThr T < 2^32) (hu : MTree.isUnderflow T d t = none) :
    MapSlab_IsUnderflow (envD T eb rs) (md_tree d t x) = some ((0 : UInt32), false) := by
  have hn : ¬ (minThr T > (MTree.hdr d t).size) := by
    cases d with
    | zero =>
      intro h
      have : MTree.isUnderflow T 0 t = some (minThr T - (MTree.hdr 0 t).size) := if_pos h
      rw [this] at hu; cases hu
    | succ d =>
      intro h
      have : MTree.isUnderflow T (d + 1) t = some (minThr T - (MTree.hdr (d + 1) t).size) := if_pos h
      rw [this] at hu; cases hu
  have hdec : decide (u32 (minThr T) > u32 (MTree.hdr d t).size) = false := by
    rw [u32_dgt hT hs]; exact decide_eq_false hn
  cases d with
  | zero =>
    have e : MapDataSlab_IsUnderflow (envD T eb rs) (md_data t x) = ((0 : UInt32), false) := by
      show (if false then ((0 : UInt32), false) else
        if decide (u32 (minThr T) > u32 (MTree.hdr 0 t).size) then (u32 (minThr T) - u32 (MTree.hdr 0 t).size, true)
        else ((0 : UInt32), false)) = _
      rw [hdec]; rfl
    show some ((MapDataSlab_IsUnderflow (envD T eb rs) (md_data t x)).1,
      (MapDataSlab_IsUnderflow (envD T eb rs) (md_data t x)).2) = _
    rw [e]
  | succ d =>
    have e : MapMetaDataSlab_IsUnderflow (envD T eb rs) (md_meta t x) = ((0 : UInt32), false) := by
      show (if decide (u32 (minThr T) > u32 (MTree.hdr (d + 1) t).size) then
        (u32 (minThr T) - u32 (MTree.hdr (d + 1) t).size, true) else ((0 : UInt32), false)) = _
      rw [hdec]; rfl
    show some ((MapMetaDataSlab_IsUnderflow (envD T eb rs) (md_meta t x)).1,
      (MapMetaDataSlab_IsUnderflow (envD T eb rs) (md_meta t x)).2) = _
    rw [e]

/-- the result of the generated descent on a subtree against the model's -/
def mds_setRel (cfg : MCfg) (k : MKey) (v : Elem) (depth d : Nat) (t : MTree r d) (x : Option DX) (s : MHSt r) : Prop :=
  match MTree.set cfg d t k v s.ctx with
  | .ok (ks, old, t', c') =>
    ∃ s', MapSlab_Set (envD cfg.T eb rs) (MapMetaDataSlab_Set (envD cfg.T eb rs) depth) (md_tree d t x) s () k (u64 0)
        (u64 (k.dig 0)) (.key k) (.val v) = some (some (.key ks), old.map .val, none, md_tree d t' x, s') ∧
      s'.ctx = c' ∧ s'.popped = s.popped
  | .error e =>
    MapSlab_Set (envD cfg.T eb rs) (MapMetaDataSlab_Set (envD cfg.T eb rs) depth) (md_tree d t x) s () k (u64 0)
        (u64 (k.dig 0)) (.key k) (.val v) = some (none, none, some e, md_tree d t x, s)

theorem mds_set_data (cfg : MCfg) (k : MKey) (v : Elem) (P : DG r → Prop) (hE : ElemsSpec cfg k v P eb)
    (sl : MDataSlab r) (x : Option DX) (hx : x.isSome = sl.root) (hP : P sl.elems) (s : MHSt r)
    (ha : sl.hdr.id.addr = cfg.addr) (depth : Nat) : mds_setRel eb rs cfg k v depth 0 sl x s := by
  have h := Ob_MapDataSlab_Set_heap cfg.T eb rs cfg k v P hE sl x hx hP s ha
  unfold mds_setRel
  rcases hq : HkeyElems.set (MElems.ops r) cfg sl.elems 0 k v s.ctx with err | ⟨ks, old, g', c0⟩
  · rw [hq] at h
    obtain ⟨h1, h2⟩ := h
    have h1' : MTree.set cfg 0 sl k v s.ctx = .error err := h1
    rw [h1']
    show MapSlab_Set _ _ (.dataSlab (md_data sl x)) _ _ _ _ _ _ _ = _
    simp only [MapSlab_Set, h2]
    rfl
  · rw [hq] at h
    obtain ⟨h1, h2⟩ := h
    have h1' : MTree.set cfg 0 sl k v s.ctx =
      .ok (ks, old, mds_dataAfter sl g', (mds_dataAfter sl g').storeIfNotInlined c0) := h1
    rw [h1']
    refine ⟨if sl.inlined = true then s.withCtx c0
        else (s.withCtx c0).store sl.hdr.id (MapSlab.dataSlab (md_data (mds_dataAfter sl g') x)), ?_, ?_, ?_⟩
    · show MapSlab_Set _ _ (.dataSlab (md_data sl x)) _ _ _ _ _ _ _ = _
      simp only [MapSlab_Set, h2]
      rfl
    · cases hi : sl.inlined <;> simp [MDataSlab.storeIfNotInlined, mds_dataAfter, hi]
    · cases hi : sl.inlined <;> simp

/-- the root flag of a subtree -/
def mds_rootFlag : (d : Nat) → MTree r d → Bool
  | 0, (sl : MDataSlab r) => sl.root
  | _ + 1, (m : MMetaSlab _) => m.root

/-- what the model form assumes ALONG THE PATH of the key: digests / lengths in machine range, the child header list
    agrees with the embedded child, the data slab's elements satisfy `P` and belong to the owner address, and the
    model restructures nowhere (the new child is neither full nor underflowing, its size fits `uint32`) -/
def mds_Path (cfg : MCfg) (k : MKey) (v : Elem) (P : DG r → Prop) : (d : Nat) → MTree r d → Ctx → Prop
  | 0, (sl : MDataSlab r), _ => P sl.elems ∧ sl.hdr.id.addr = cfg.addr
  | d + 1, (m : MMetaSlab (MTree r d)), c =>
    (∀ h ∈ m.childHdrs, h.firstKey < 2^64) ∧ m.childHdrs.length < 2^62 ∧
    ∃ child : MTree r d, m.children[mds_idx m.childHdrs (k.dig 0)]? = some child ∧
      m.childHdrs[mds_idx m.childHdrs (k.dig 0)]? = some (MTree.hdr d child) ∧
      mds_rootFlag d child = false ∧
      mds_Path cfg k v P d child c ∧
      ∀ ks old child' c1, MTree.set cfg d child k v c = .ok (ks, old, child', c1) →
        (MTree.hdr d child').size < 2^32 ∧ MTree.isFull cfg.T d child' = false ∧
          MTree.isUnderflow cfg.T d child' = none

theorem mds_model_set_succ (cfg : MCfg) (d : Nat) (m : MMetaSlab (MTree r d)) (k : MKey) (v : Elem) (c : Ctx)
    (child : MTree r d) (hci : m.children[mds_idx m.childHdrs (k.dig 0)]? = some child) :
    MTree.set cfg (d + 1) m k v c =
      match MTree.set cfg d child k v c with
      | .error e => .error e
      | .ok (ks, old, child', c1) =>
        match m.afterChild cfg.T child' (mds_idx m.childHdrs (k.dig 0)) c1 with
        | .error e => .error e
        | .ok (m', c2) => .ok (ks, old, m', c2) := by
  have hci' := hci
  unfold mds_idx at hci'
  simp only [MTree.set, hci', bind, Except.bind, pure, Except.pure]
  rcases MTree.set cfg d child k v c with e | ⟨ks, old, child', c1⟩
  · rfl
  · simp only [mds_idx]
    rcases MMetaSlab.afterChild cfg.T m child' _ c1 with e | ⟨m', c2⟩ <;> rfl

/-- the model's index slab after the child `i` was replaced, no restructuring (`m1` of `MMetaSlab.afterChild`) -/
def mds_metaAfter {d : Nat} (m : MMetaSlab (MTree r d)) (child' : MTree r d) (i : Nat) : MMetaSlab (MTree r d) :=
  { m with childHdrs := m.childHdrs.set i (MTree.hdr d child'), children := m.children.set i child',
           hdr := { m.hdr with firstKey := if i == 0 then (MTree.hdr d child').firstKey else m.hdr.firstKey } }

theorem mds_afterChild_plain {d : Nat} (T : Nat) (m : MMetaSlab (MTree r d)) (child' : MTree r d) (i : Nat) (c : Ctx)
    (hf : MTree.isFull T d child' = false) (hu : MTree.isUnderflow T d child' = none) :
    m.afterChild T child' i c = .ok (mds_metaAfter m child' i, c.emit (.store m.hdr.id)) := by
  simp only [MMetaSlab.afterChild, hf, hu, Bool.false_eq_true, if_false]
  rfl

/-- one level of the model form: from the relation on the child to the relation on the index slab -/
theorem mds_set_meta (cfg : MCfg) (k : MKey) (v : Elem) (hT1 : maxThr cfg.T < 2^32) (hT2 : minThr cfg.T < 2^32)
    (hhk : k.dig 0 < 2^64) (d depth : Nat) (m : MMetaSlab (MTree r d)) (x : Option DX) (s : MHSt r)
    (hfk : ∀ h ∈ m.childHdrs, h.firstKey < 2^64) (hlen : m.childHdrs.length < 2^62)
    (child : MTree r d) (hci : m.children[mds_idx m.childHdrs (k.dig 0)]? = some child)
    (hhi : m.childHdrs[mds_idx m.childHdrs (k.dig 0)]? = some (MTree.hdr d child))
    (hheap : s.heap (MTree.hdr d child).id = some (md_tree d child none))
    (hres : ∀ ks old child' c1, MTree.set cfg d child k v s.ctx = .ok (ks, old, child', c1) →
        (MTree.hdr d child').size < 2^32 ∧ MTree.isFull cfg.T d child' = false ∧
          MTree.isUnderflow cfg.T d child' = none)
    (ihc : mds_setRel eb rs cfg k v depth d child none s) :
    mds_setRel eb rs cfg k v (depth + 1) (d + 1) m x s := by
  unfold mds_setRel at ihc ⊢
  rw [mds_model_set_succ cfg d m k v s.ctx child hci]
  have hil : mds_idx m.childHdrs (k.dig 0) < m.childHdrs.length := (List.getElem?_eq_some_iff.mp hhi).1
  have hgetD : m.childHdrs.getD (mds_idx m.childHdrs (k.dig 0)) default = MTree.hdr d child := by
    simp [List.getD, hhi]
  have hheap' : s.heap (m.childHdrs.getD (mds_idx m.childHdrs (k.dig 0)) default).id = some (md_tree d child none) := by
    rw [hgetD]; exact hheap
  rcases hq : MTree.set cfg d child k v s.ctx with e | ⟨ks, old, child', c1⟩
  · rw [hq] at ihc
    show MapSlab_Set _ _ (.metaSlab (md_meta m x)) _ _ _ _ _ _ _ = _
    simp only [MapSlab_Set]
    rw [Ob_MapMetaDataSlab_Set_step_childErr cfg.T eb rs m x s s k v depth hhk hfk hlen hil (md_tree d child none)
      (md_tree d child none) none none e hheap' ihc]
    rfl
  · rw [hq] at ihc
    obtain ⟨s1, h1, h2, h3⟩ := ihc
    obtain ⟨hsz, hfull, hund⟩ := hres ks old child' c1 hq
    simp only [mds_afterChild_plain cfg.T m child' _ c1 hfull hund]
    refine ⟨s1.store m.hdr.id (.metaSlab (md_meta (mds_metaAfter m child' (mds_idx m.childHdrs (k.dig 0))) x)), ?_, ?_, ?_⟩
    · show MapSlab_Set _ _ (.metaSlab (md_meta m x)) _ _ _ _ _ _ _ = _
      simp only [MapSlab_Set]
      rw [Ob_MapMetaDataSlab_Set_step cfg.T eb rs m x s s1 k v depth hhk hfk hlen hil (md_tree d child none)
        (md_tree d child' none) _ _ hheap' h1]
      simp only [mds_stepSpec, mds_hdr_tree, mds_isFull_tree cfg.T eb rs d child' none hsz hT1, hfull,
        mds_isUnderflow_tree cfg.T eb rs d child' none hsz hT2 hund, Option.getD_some, Bool.false_eq_true, if_false,
        mds_refresh_md_meta m x _ (MTree.hdr d child') (m.children.set (mds_idx m.childHdrs (k.dig 0)) child')]
      rfl
    · simp [h2]
    · simp [h3]

/-- MODEL FORM of the descent: for a tree `t` held by the heap, when the model's `MTree.set` restructures nowhere on
    the path of the key (`mds_Path`), the generated `MapSlab.Set` dispatch over the heap returns the translation of the
    model's result: stored key, old value, no error, the new subtree root `md_tree d t' x`, and a storage whose `Ctx`
    is the model's; when the model returns an error, so does the code, with nothing changed. -/
theorem Ob_MapSlab_Set_heap_noRestructure (cfg : MCfg) (k : MKey) (v : Elem) (P : DG r → Prop)
    (hE : ElemsSpec cfg k v P eb) (hT1 : maxThr cfg.T < 2^32) (hT2 : minThr cfg.T < 2^32) (hhk : k.dig 0 < 2^64) :
    ∀ (d depth : Nat) (t : MTree r d) (x : Option DX) (s : MHSt r), d ≤ depth → MHolds s.heap d t x →
      x.isSome = mds_rootFlag d t → mds_Path cfg k v P d t s.ctx →
      match MTree.set cfg d t k v s.ctx with
      | .ok (ks, old, t', c') =>
        ∃ s', MapSlab_Set (envD cfg.T eb rs) (MapMetaDataSlab_Set (envD cfg.T eb rs) depth) (md_tree d t x) s () k
            (u64 0) (u64 (k.dig 0)) (.key k) (.val v) =
              some (some (.key ks), old.map .val, none, md_tree d t' x, s') ∧
          s'.ctx = c' ∧ s'.popped = s.popped
      | .error e =>
        MapSlab_Set (envD cfg.T eb rs) (MapMetaDataSlab_Set (envD cfg.T eb rs) depth) (md_tree d t x) s () k (u64 0)
          (u64 (k.dig 0)) (.key k) (.val v) = some (none, none, some e, md_tree d t x, s) := by
  intro d
  induction d with
  | zero =>
    intro depth t x s _ _ hx hp
    exact mds_set_data eb rs cfg k v P hE t x hx hp.1 s hp.2 depth
  | succ d ih =>
    intro depth t x s hd hh _ hp
    obtain ⟨hfk, hlen, child, hci, hhi, hroot, hpc, hres⟩ := hp
    cases depth with
    | zero => omega
    | succ depth' =>
      have hhc : MHolds s.heap d child none := hh.2 child (List.mem_of_getElem? hci)
      exact mds_set_meta eb rs cfg k v hT1 hT2 hhk d depth' t x s hfk hlen child hci hhi hhc.root hres
        (ih depth' child none s (by omega) hhc (by rw [hroot]; rfl) hpc)

end

end Atree.TransEq
