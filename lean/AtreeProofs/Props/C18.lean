import AtreeModel.Errors
/-
  C18 — Rejected requests are categorised and leave no trace.
  PROPERTY THEOREMS of this file: the error CATEGORIES (read from the table regenerated from errors.go
  on every run) and two statements about the request-level wrapper `Arr.request`.

  HONEST LABEL (audit a2/F1): `Arr.request` is DEFINED to return its input state when the operation
  returns an error, so `reject_is_noop` and `history_with_rejections_same_state` below hold by
  construction of that wrapper, for ANY array code; they say nothing about the order of checks and
  mutations in the implementation.  They are kept because the correspondence check uses exactly
  this wrapper semantics ("EFF -" after a refused request), i.e. they state what the replayer
  assumes.  The statements that depend on the code order are
    * `Props/C18Order.lean`  `arg_checks_precede_effects` – the regenerated statement order of the Go
      request-level functions (a reordering such as seeded changes s06 / s23 breaks it);
    * `Props/C18Reject.lean` `reject_leaves_no_trace`, `map_set_reject_leaves_no_trace`,
      `map_remove_reject_leaves_no_trace` – in-place programs whose state survives an error, tied to
      the functional model by `inplace_request_agrees` / `map_set_inplace_agrees` /
      `map_remove_inplace_agrees`; `history_with_rejections_commits_same_registers` (+ maps) at the
      level of the storage state machine.
-/
namespace Atree.C18
open Atree

/-- Caller mistakes are `User` errors; limit / internal failures are `Fatal`. -/
theorem arg_error_category :
    ctorCategory "NewIndexOutOfBoundsError" = .user ∧
    ctorCategory "NewSliceOutOfBoundsError" = .user ∧
    ctorCategory "NewInvalidSliceIndexError" = .user ∧
    ctorCategory "NewKeyNotFoundError" = .user ∧
    ctorCategory "NewCollisionLimitError" = .fatal ∧
    ctorCategory "NewSlabIDError" = .fatal ∧
    ctorCategory "NewSlabNotFoundError" = .fatal := by
  decide

/-- Every error kind the array and map models can return for an argument mistake carries the
    matching category. -/
theorem model_error_categories :
    AErr.category .indexOutOfBounds = .user ∧ AErr.category .sliceOutOfBounds = .user ∧
    AErr.category .invalidSliceIndex = .user ∧ MErr.category .keyNotFound = .user ∧
    MErr.category .collisionLimit = .fatal := by
  decide

/-- An error raised by a caller-supplied component (uncategorised) surfaces as External; an
    already categorised error is passed through unchanged (shape of
    `wrapErrorfAsExternalErrorIfNeeded`, regenerated: `Gen.wrapShapeOk`). -/
theorem callback_failure_is_external :
    wrapExternal .uncategorised = .external ∧
    (∀ c, c ≠ .uncategorised → wrapExternal c = c) ∧
    (∀ c, wrapExternal (wrapExternal c) = wrapExternal c) ∧
    Gen.wrapShapeOk = true := by
  refine ⟨rfl, ?_, ?_, by decide⟩
  · intro c hc; cases c <;> simp_all [wrapExternal]
  · intro c; cases c <;> rfl

/-- (BY CONSTRUCTION of `Arr.request`, see the file comment.)  A rejected array request leaves the
    array and the storage context (allocation counter, effect log, created slabs) exactly as they
    were – in the wrapper's semantics.  The statement about the in-place programs is
    `C18.reject_leaves_no_trace` (Props/C18Reject.lean); `C18.reject_is_noop_inplace` links the two. -/
theorem reject_is_noop (T : Nat) (s : Arr × Ctx) (r : AReq) (e : AErr)
    (h : (Arr.request T s r).2 = .err e) : (Arr.request T s r).1 = s := by
  cases r <;> simp only [Arr.request] at h ⊢ <;> split at h <;> simp_all

/-- (BY CONSTRUCTION of `Arr.request`: induction over `reject_is_noop`.)  A history with rejected
    requests ends in the same state (same tree, same effect log) as the history without them.  The
    statement with in-place semantics and the storage state machine (same pending write set, same
    ledger, hence the same registers at the next commit) is
    `C18.history_with_rejections_commits_same_registers` (Props/C18Reject.lean). -/
theorem history_with_rejections_same_state (T : Nat) (s : Arr × Ctx) (rs : List AReq) :
    (Arr.runRequests T s (Arr.served T s rs)).1 = (Arr.runRequests T s rs).1 := by
  induction rs generalizing s with
  | nil => rfl
  | cons r rs ih =>
    have key : ∀ (s1 : Arr × Ctx) (o : AResp), Arr.request T s r = (s1, o) →
        (Arr.runRequests T s (Arr.served T s (r :: rs))).1 = (Arr.runRequests T s (r :: rs)).1 := by
      intro s1 o hreq
      cases o with
      | err e =>
        have hs : s1 = s := by
          have := reject_is_noop T s r e (by rw [hreq])
          rw [hreq] at this; exact this
        subst hs
        simp only [Arr.served, Arr.runRequests, hreq, AResp.isErr, if_true]
        exact ih s1
      | ok => simp only [Arr.served, Arr.runRequests, hreq, AResp.isErr]; simp [Arr.runRequests, hreq, ih]
      | elem e => simp only [Arr.served, Arr.runRequests, hreq, AResp.isErr]; simp [Arr.runRequests, hreq, ih]
    exact key _ _ rfl

end Atree.C18
