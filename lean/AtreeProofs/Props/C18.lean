import AtreeModel.Errors
/-
  C18 — Rejected requests are categorised and leave no trace.
  PROPERTY THEOREMS.  The model's operations return `Except`: an error carries no new state, so
  "leaves the container, its ancestors and the pending write set exactly as they were" is stated
  on the request-level step function `Arr.request` (maps: C02's `remove_refines`/`set_refines`
  already state that a rejected request returns only an error).  Categories are read from the
  table regenerated from errors.go on every run.
-/
namespace Atree.C18
open Atree

/-- Caller mistakes are `User` errors; limit / internal failures are `Fatal`. -/
theorem arg_error_category :
    ctorCategory "NewIndexOutOfBoundsError" = .user ∧
    ctorCategory "NewSliceOutOfBoundsError" = .user ∧
    ctorCategory "NewInvalidSliceIndexError" = .user ∧
    ctorCategory "NewKeyNotFoundError" = .user ∧
    ctorCategory "NewCollisionLimitError" = .fatal ∧
    ctorCategory "NewSlabIDError" = .fatal ∧
    ctorCategory "NewSlabNotFoundError" = .fatal := by
  decide

/-- Every error kind the array and map models can return for an argument mistake carries the
    matching category. -/
theorem model_error_categories :
    AErr.category .indexOutOfBounds = .user ∧ AErr.category .sliceOutOfBounds = .user ∧
    AErr.category .invalidSliceIndex = .user ∧ MErr.category .keyNotFound = .user ∧
    MErr.category .collisionLimit = .fatal := by
  decide

/-- An error raised by a caller-supplied component (uncategorised) surfaces as External; an
    already categorised error is passed through unchanged (shape of
    `wrapErrorfAsExternalErrorIfNeeded`, regenerated: `Gen.wrapShapeOk`). -/
theorem callback_failure_is_external :
    wrapExternal .uncategorised = .external ∧
    (∀ c, c ≠ .uncategorised → wrapExternal c = c) ∧
    (∀ c, wrapExternal (wrapExternal c) = wrapExternal c) ∧
    Gen.wrapShapeOk = true := by
  refine ⟨rfl, ?_, ?_, by decide⟩
  · intro c hc; cases c <;> simp_all [wrapExternal]
  · intro c; cases c <;> rfl

/-- A rejected array request leaves the array and the storage context (allocation counter, effect
    log, created slabs) exactly as they were. -/
theorem reject_is_noop (T : Nat) (s : Arr × Ctx) (r : AReq) (e : AErr)
    (h : (Arr.request T s r).2 = .err e) : (Arr.request T s r).1 = s := by
  cases r <;> simp only [Arr.request] at h ⊢ <;> split at h <;> simp_all

/-- A history with rejected requests ends in the same state (same tree, same effect log, hence
    the same registers at the next commit) as the history without them. -/
theorem history_with_rejections_same_state (T : Nat) (s : Arr × Ctx) (rs : List AReq) :
    (Arr.runRequests T s (Arr.served T s rs)).1 = (Arr.runRequests T s rs).1 := by
  induction rs generalizing s with
  | nil => rfl
  | cons r rs ih =>
    have key : ∀ (s1 : Arr × Ctx) (o : AResp), Arr.request T s r = (s1, o) →
        (Arr.runRequests T s (Arr.served T s (r :: rs))).1 = (Arr.runRequests T s (r :: rs)).1 := by
      intro s1 o hreq
      cases o with
      | err e =>
        have hs : s1 = s := by
          have := reject_is_noop T s r e (by rw [hreq])
          rw [hreq] at this; exact this
        subst hs
        simp only [Arr.served, Arr.runRequests, hreq, AResp.isErr, if_true]
        exact ih s1
      | ok => simp only [Arr.served, Arr.runRequests, hreq, AResp.isErr]; simp [Arr.runRequests, hreq, ih]
      | elem e => simp only [Arr.served, Arr.runRequests, hreq, AResp.isErr]; simp [Arr.runRequests, hreq, ih]
    exact key _ _ rfl

end Atree.C18
