import AtreeProofs.Props.SlabIdStorages
import AtreeProofs.Props.E2EBytes
/-
  Does the model of `PersistentSlabStorage` rely on non-empty registers?

  `AtreeModel/Storage.lean` takes the base storage to be a finite map `SlabID → β`
  (`St.base : AList SlabID β`): a register that was stored is found.  `LedgerBaseStorage` is such a
  map ONLY for non-empty registers (`lbs_step_refines`: a stored value of length 0 reads back as
  "not found"; `Remove` writes the empty value).  So the assumption "BaseStorage behaves as a map"
  (DESIGN §6), instantiated with `LedgerBaseStorage`, needs

      every register a commit writes has at least one byte.

  This is not a hypothesis of any theorem of the storage model (they are about the model's map);
  it is what makes the model a model of the code.  It FOLLOWS from what is already proved: a codec
  that round-trips and whose decoder rejects the empty register cannot produce the empty register —
  and `DecodeSlab` rejects it (`len(data) < versionAndFlagSize`).
-/
namespace Atree.SlabIdB
open Atree

/-- A round-tripping codec whose decoder rejects the empty register never encodes to it. -/
theorem encoded_nonempty_of_roundTrip {σ ν : Type} (c : Codec σ (List ν)) (hc : RoundTrip c)
    (hdec : ∀ id, c.dec id [] = none) (v : σ) (b : List ν) (h : c.enc v = some b) : b ≠ [] := by
  intro e
  subst e
  have := hc SlabID.undef v [] h
  rw [hdec] at this
  cases this

/-- `DecodeSlab(id, <no bytes>)` fails for every identifier (model of decode.go / array / map
    `new…FromData`: "data is too short"). -/
theorem decodeSlab_rejects_empty (id : SlabID) : E2E.decS id [] = none := rfl

/-- THE REAL BYTE CODEC NEVER WRITES AN EMPTY REGISTER: whatever slab the (array) commit encodes,
    the bytes handed to `BaseStorage.Store` are non-empty — so over `LedgerBaseStorage` a committed
    slab is never mistaken for a removed one. -/
theorem real_codec_register_nonempty (v : E2E.SSlab) (p : SlabID × Codec.Bytes)
    (h : E2E.keyedCodec.enc v = some p) : p.2 ≠ [] := by
  intro e
  have rt := E2E.keyed_codec_roundtrip SlabID.undef v p h
  simp only [E2E.keyedCodec] at rt
  rw [e, decodeSlab_rejects_empty] at rt
  cases rt

end Atree.SlabIdB
