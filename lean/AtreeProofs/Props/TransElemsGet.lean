import AtreeProofs.Trans.MapElems
import AtreeProofs.Trans.MapElemsOn
import AtreeProofs.Map.Search
/-
  The GENERATED `hkeyElements.getElement` / `hkeyElements.Get` (`AtreeModel/Gen/TransMapElems.lean`) against the model's
  `HkeyElems.findEq` / `HkeyElems.get` (`AtreeModel/Map/Elems.lean`).  Core Lean only.
-/
namespace Atree.TransEq
open Atree Atree.Gen.TransElems

theorem mel_getD_lt (l : List Nat) (h : ∀ x ∈ l, x < 2^64) (n : Nat) : l.getD n 0 < 2^64 := by
  rw [List.getD_eq_getElem?_getD]
  rcases Option.eq_none_or_eq_some l[n]? with h1 | ⟨v, h1⟩
  · rw [h1]; decide
  · rw [h1]; exact h v (List.mem_of_getElem? h1)

theorem mel_fuel_len (n : Nat) : (Int.ofNat n - (0 : Int) + 1).toNat = n + 1 := by
  simp only [Int.ofNat_eq_natCast]; omega

section
variable {α : Type} (o : ElemsOps α) (cfg : MCfg) (k : MKey) (v : Elem) (env : Env (MElemF α) SV SW Ctx GE)

/-- the binary search of `getElement`: the generated fuel loop computes the model's `findEq` (given enough fuel, which the caller provides) -/
theorem mel_getElement_loop (e : HkeyElems α) (hok : mel_HOk e) (hk : Nat) (hhk : hk < 2^64) :
    ∀ (fuel i j : Nat) (eq0 : Int), i ≤ j → j ≤ e.hkeys.length → j - i < fuel →
      ∃ i' j' : Int, hkeyElements_getElement.loop1 env (mel_cH e) (u64 hk) fuel eq0 (Int.ofNat i) (Int.ofNat j) =
        .done ((match HkeyElems.findEq e.hkeys hk i j fuel with | some h => Int.ofNat h | none => eq0), i', j') := by
  intro fuel
  induction fuel with
  | zero => intro i j eq0 _ _ h; omega
  | succ fuel ih =>
    intro i j eq0 hij hj hf
    have hshort := hok.short
    simp only [hkeyElements_getElement.loop1, HkeyElems.findEq, int_dlt]
    by_cases c : i < j
    · simp only [c, decide_true, if_true]
      rw [mid_eq i j (by omega)]
      have hlt : (i + j) / 2 < e.hkeys.length := by omega
      simp only [mel_goIdx_hkeys e _ hlt]
      have hm := mel_getD_lt e.hkeys hok.dig ((i + j) / 2)
      generalize e.hkeys.getD ((i + j) / 2) 0 = mv at *
      rw [u64_dgt hm hhk, u64_dlt hm hhk]
      by_cases c1 : mv > hk
      · simp only [c1, decide_true, if_true]
        exact ih i ((i + j) / 2) eq0 (by omega) (by omega) (by omega)
      · simp only [c1, decide_false, if_false, Bool.false_eq_true]
        by_cases c2 : mv < hk
        · simp only [c2, decide_true, if_true]
          exact ih ((i + j) / 2 + 1) j eq0 (by omega) hj (by omega)
        · simp only [c2, decide_false, if_false, Bool.false_eq_true]
          exact ⟨_, _, rfl⟩
    · simp only [c, decide_false, if_false, Bool.false_eq_true]
      exact ⟨_, _, rfl⟩

/-- (relativised environment `EnvAOn`) `hkeyElements.getElement` = the model's search: hash-level error, key-not-found, or the element at the index found -/
theorem hkeyElements_getElement_eq_model_on {Pg Ps Pr : MElemF α → Nat → Ctx → Prop}
    (hE : EnvAOn o cfg k v env Pg Ps Pr) (e : HkeyElems α) (hok : mel_HOk e) (level hk : Nat)
    (hl : level < 2^64) (hL : cfg.L < 2^64) (hhk : hk < 2^64) (w : SW) :
    hkeyElements_getElement env (mel_cH e) (u64 level) (u64 hk) w =
      if level ≥ cfg.L then some (none, 0, some .hashLevel)
      else match HkeyElems.findEq e.hkeys hk 0 e.hkeys.length (e.hkeys.length + 1) with
        | none => some (none, 0, some .keyNotFound)
        | some i => (e.elems[i]?).map (fun el => (some el, Int.ofNat i, none)) := by
  unfold hkeyElements_getElement
  rw [hE.levels, u64_dge hl hL]
  by_cases c : level ≥ cfg.L
  · simp only [c, decide_true, if_true, hE.eHashLevel]
  · simp only [c, decide_false, if_false, Bool.false_eq_true]
    rw [mel_cH_hkeys_length, mel_fuel_len]
    obtain ⟨i', j', h⟩ := mel_getElement_loop env e hok hk hhk (e.hkeys.length + 1) 0 e.hkeys.length (-1)
      (Nat.zero_le _) (Nat.le_refl _) (by omega)
    have h0 : (0 : Int) = Int.ofNat 0 := rfl
    rw [h0, h]
    rcases Option.eq_none_or_eq_some (HkeyElems.findEq e.hkeys hk 0 e.hkeys.length (e.hkeys.length + 1)) with hf | ⟨x, hf⟩
    · rw [hf]
      simp only [decide_true, if_true, hE.eKeyNotFound]
    · rw [hf]
      have hne : ¬ (Int.ofNat x = (-1 : Int)) := by
        simp only [Int.ofNat_eq_natCast]; omega
      simp only [hne, decide_false, if_false, Bool.false_eq_true, mel_goIdx_elems]
      rcases Option.eq_none_or_eq_some (e.elems[x]?) with hx | ⟨el, hx⟩
      · rw [hx]; rfl
      · rw [hx]; rfl

/-- `hkeyElements.getElement` = the model's search: hash-level error, key-not-found, or the element at the index found -/
theorem hkeyElements_getElement_eq_model (hE : EnvA o cfg k v env) (e : HkeyElems α) (hok : mel_HOk e) (level hk : Nat)
    (hl : level < 2^64) (hL : cfg.L < 2^64) (hhk : hk < 2^64) (w : SW) :
    hkeyElements_getElement env (mel_cH e) (u64 level) (u64 hk) w =
      if level ≥ cfg.L then some (none, 0, some .hashLevel)
      else match HkeyElems.findEq e.hkeys hk 0 e.hkeys.length (e.hkeys.length + 1) with
        | none => some (none, 0, some .keyNotFound)
        | some i => (e.elems[i]?).map (fun el => (some el, Int.ofNat i, none)) := by
  exact hkeyElements_getElement_eq_model_on o cfg k v env hE.toOn e hok level hk hl hL hhk w

/-- (relativised environment `EnvAOn`; the guard `Pg` holds for the elements of the table) `hkeyElements.Get` = `HkeyElems.get` (for every well-formed digest table; never panics) -/
theorem hkeyElements_Get_eq_model_on {Pg Ps Pr : MElemF α → Nat → Ctx → Prop}
    (hE : EnvAOn o cfg k v env Pg Ps Pr) (e : HkeyElems α) (hok : mel_HOk e) (level : Nat) (c : Ctx)
    (hl : level < 2^64) (hL : cfg.L < 2^64) (hd : k.dig level < 2^64)
    (hPg : ∀ (i : Nat) (el : MElemF α), e.elems[i]? = some el → Pg el level c) :
    hkeyElements_Get env (mel_cH e) c (u64 level) (u64 (k.dig level)) (.key k) =
      some (mel_rGet c (HkeyElems.get o cfg e level k)) := by
  unfold hkeyElements_Get
  rw [hkeyElements_getElement_eq_model_on o cfg k v env hE e hok level (k.dig level) hl hL hd]
  unfold HkeyElems.get
  by_cases cl : level ≥ cfg.L
  · simp only [cl, if_true]
    rfl
  · simp only [cl, if_false]
    rcases Option.eq_none_or_eq_some (HkeyElems.findEq e.hkeys (k.dig level) 0 e.hkeys.length (e.hkeys.length + 1))
      with hf | ⟨x, hf⟩
    · rw [hf]; rfl
    · rw [hf]
      have hx := HkeyElems.findEq_some _ _ _ (Nat.le_refl _) hf
      have hxl : x < e.elems.length := by
        rw [hok.len]; exact (List.getElem?_eq_some_iff.mp hx).1
      have hel : e.elems[x]? = some e.elems[x] := List.getElem?_eq_getElem hxl
      simp only [hel, Option.map_some, Option.isNone_none, Bool.not_true, Bool.false_eq_true, if_false]
      rw [hE.get _ c level _ hl (hPg _ _ hel)]

/-- `hkeyElements.Get` = `HkeyElems.get` (for every well-formed digest table; never panics) -/
theorem hkeyElements_Get_eq_model (hE : EnvA o cfg k v env) (e : HkeyElems α) (hok : mel_HOk e) (level : Nat) (c : Ctx)
    (hl : level < 2^64) (hL : cfg.L < 2^64) (hd : k.dig level < 2^64) :
    hkeyElements_Get env (mel_cH e) c (u64 level) (u64 (k.dig level)) (.key k) =
      some (mel_rGet c (HkeyElems.get o cfg e level k)) := by
  exact hkeyElements_Get_eq_model_on o cfg k v env hE.toOn e hok level c hl hL hd (fun _ _ _ => trivial)

/-- `hkeyElements.getElementAndNextKey` finds the same element as `hkeyElements.Get`: if `element.getElementAndNextKey` returns
    the key, the value and the error of `element.Get` (`hnk`) and `firstKeyInElement` does not fail (`hfk`; its error would
    replace the result), then it never panics and its key, value and error are those of `HkeyElems.get`.
    (The next key and the storage state are not described here.) -/
theorem hkeyElements_getElementAndNextKey_get (hE : EnvA o cfg k v env) (e : HkeyElems α) (hok : mel_HOk e) (level : Nat) (c : Ctx)
    (hl : level < 2^64) (hL : cfg.L < 2^64) (hd : k.dig level < 2^64)
    (hnk : ∀ el c lvl hk, lvl < 2^64 →
      ((env.element_getElementAndNextKey el c (u64 lvl) hk (.key k)).1,
       (env.element_getElementAndNextKey el c (u64 lvl) hk (.key k)).2.1,
       (env.element_getElementAndNextKey el c (u64 lvl) hk (.key k)).2.2.2.1) =
      ((mel_rGet c (el.get o cfg lvl k)).1, (mel_rGet c (el.get o cfg lvl k)).2.1, (mel_rGet c (el.get o cfg lvl k)).2.2.1))
    (hfk : ∀ c el, (env.firstKeyInElement c el).2.1 = none) :
    ∃ r, hkeyElements_getElementAndNextKey env (mel_cH e) c (u64 level) (u64 (k.dig level)) (.key k) = some r ∧
      (r.1, r.2.1, r.2.2.2.1) =
        ((mel_rGet c (HkeyElems.get o cfg e level k)).1, (mel_rGet c (HkeyElems.get o cfg e level k)).2.1,
         (mel_rGet c (HkeyElems.get o cfg e level k)).2.2.1) := by
  unfold hkeyElements_getElementAndNextKey
  rw [hkeyElements_getElement_eq_model o cfg k v env hE e hok level (k.dig level) hl hL hd]
  unfold HkeyElems.get
  by_cases cl : level ≥ cfg.L
  · simp only [cl, if_true]
    exact ⟨_, rfl, rfl⟩
  · simp only [cl, if_false]
    rcases Option.eq_none_or_eq_some (HkeyElems.findEq e.hkeys (k.dig level) 0 e.hkeys.length (e.hkeys.length + 1))
      with hf | ⟨x, hf⟩
    · rw [hf]; exact ⟨_, rfl, rfl⟩
    · rw [hf]
      have hx := HkeyElems.findEq_some _ _ _ (Nat.le_refl _) hf
      have hxl : x < e.elems.length := by
        rw [hok.len]; exact (List.getElem?_eq_some_iff.mp hx).1
      have hel : e.elems[x]? = some e.elems[x] := List.getElem?_eq_getElem hxl
      simp only [hel, Option.map_some, Option.isNone_none, Bool.not_true, Bool.false_eq_true, if_false]
      have h1 := hnk e.elems[x] c level (u64 (k.dig level)) hl
      generalize env.element_getElementAndNextKey e.elems[x] c (u64 level) (u64 (k.dig level)) (.key k) = r4 at h1 ⊢
      obtain ⟨a, b, nk, er, st⟩ := r4
      generalize MElemF.get o cfg e.elems[x] level k = g at h1 ⊢
      have hidx : Int.ofNat x + 1 = Int.ofNat (x + 1) := rfl
      rw [hidx, mel_cH_elems_length, int_dlt, mel_goIdx_elems]
      cases g with
      | error err =>
        simp only [mel_rGet] at h1 ⊢
        simp only [Prod.mk.injEq] at h1
        obtain ⟨rfl, rfl, rfl⟩ := h1
        exact ⟨_, rfl, rfl⟩
      | ok kv =>
        obtain ⟨k', v'⟩ := kv
        simp only [mel_rGet] at h1 ⊢
        simp only [Prod.mk.injEq] at h1
        obtain ⟨rfl, rfl, rfl⟩ := h1
        cases nk with
        | some n => exact ⟨_, rfl, rfl⟩
        | none =>
          simp only [Option.isNone_none, Bool.not_true, Bool.false_eq_true, if_false]
          by_cases c3 : x + 1 < e.elems.length
          · have hel' : e.elems[x + 1]? = some e.elems[x + 1] := List.getElem?_eq_getElem c3
            simp only [c3, decide_true, if_true, hel', Option.map_some, hfk]
            exact ⟨_, rfl, rfl⟩
          · have c4 : x + 1 = e.elems.length := by omega
            simp only [c3, decide_false, Bool.false_eq_true, if_false]
            rw [if_pos (decide_eq_true (by rw [c4]))]
            exact ⟨_, rfl, rfl⟩
end

/-! ## non-vacuity: an environment satisfying `EnvA` (nested level = `SingleElems`), a 3-digest table -/

/-- a concrete instance of the parameters: the element methods are the model's (level read back with `toNat`) -/
def mel_getEnv0 (cfg : MCfg) : Env (MElemF SingleElems) SV SW Ctx GE where
  Digester_Levels := u64 cfg.L
  NewCollisionLimitError := some .collisionLimit
  NewHashLevelErrorf := some .hashLevel
  NewKeyNotFoundError := some .keyNotFound
  NewMapElementCountError := some .mapElementCount
  NewUnreachableError := some .goPanic
  element_Count := fun el c => (u32 (el.count SingleElems.ops), none, c)
  element_Get := fun el c lvl _ w => match w with
    | .key k => mel_rGet c (el.get SingleElems.ops cfg lvl.toNat k)
    | .val _ => (none, none, some .goPanic, c)
  element_Remove := fun el c lvl _ w => match w with
    | .key k => mel_rERemove c (el.remove SingleElems.ops cfg lvl.toNat k c)
    | .val _ => (none, none, none, some .goPanic, c)
  element_Set := fun el c _ lvl _ kw vw => match kw, vw with
    | .key k, .val v => mel_rESet c (el.set SingleElems.ops cfg lvl.toNat k v c)
    | _, _ => (none, none, none, some .goPanic, c)
  element_Size := fun el => u32 (el.size SingleElems.ops)
  element_getElementAndNextKey := fun el c lvl _ w => match w with
    | .key k => ((mel_rGet c (el.get SingleElems.ops cfg lvl.toNat k)).1, (mel_rGet c (el.get SingleElems.ops cfg lvl.toNat k)).2.1,
                 none, (mel_rGet c (el.get SingleElems.ops cfg lvl.toNat k)).2.2.1, c)
    | .val _ => (none, none, none, some .goPanic, c)
  element_ofSingleElement := fun s => match s.key, s.value with
    | some (.key k), some (.val v) => .single { key := k, val := v, size := s.size.toNat }
    | _, _ => .single default
  errors_As_KeyNotFoundError := fun err => decide (err = .keyNotFound)
  firstKeyInElement := fun c _ => (none, none, c)
  maxCollisionLimitPerDigest := u32 cfg.climit
  newSingleElement := fun c addr kw vw => match kw, vw with
    | .key k, .val v => (mel_cE (newSingleElement cfg.T addr k v c).1, none, (newSingleElement cfg.T addr k v c).2)
    | _, _ => ({}, some .goPanic, c)

theorem mel_getEnv0_ok (cfg : MCfg) (k : MKey) (v : Elem) : EnvA SingleElems.ops cfg k v (mel_getEnv0 cfg) where
  levels := rfl
  climit := rfl
  size := fun _ => rfl
  count := fun _ _ => rfl
  get := fun el c lvl hk h => by
    show mel_rGet c (el.get SingleElems.ops cfg (u64 lvl).toNat k) = _
    rw [u64_toNat h]
  set := fun el c lvl hk h => by
    show mel_rESet c (el.set SingleElems.ops cfg (u64 lvl).toNat k v c) = _
    rw [u64_toNat h]
  remove := fun el c lvl hk h => by
    show mel_rERemove c (el.remove SingleElems.ops cfg (u64 lvl).toNat k c) = _
    rw [u64_toNat h]
  newElem := fun _ => rfl
  inj := fun x hx => by
    show MElemF.single { key := x.key, val := x.val, size := (u32 x.size).toNat } = _
    rw [u32_toNat hx]
  asKNF := fun _ => rfl
  eHashLevel := rfl
  eKeyNotFound := rfl
  eCollisionLimit := rfl
  eElementCount := rfl

def mel_gCfgEx : MCfg := { T := 1024, L := 1, climit := 255, addr := 7 }
def mel_gK1Ex : MKey := { size := 9, pay := 1, digs := [3] }
def mel_gK2Ex : MKey := { size := 9, pay := 2, digs := [8] }
def mel_gK3Ex : MKey := { size := 9, pay := 3, digs := [20] }
def mel_gK4Ex : MKey := { size := 9, pay := 4, digs := [9] }
def mel_gV1Ex : Elem := { size := 3, pay := .val 10 }
def mel_gV2Ex : Elem := { size := 4, pay := .val 20 }
def mel_gHEx : HkeyElems SingleElems :=
  { hkeys := [3, 8, 20],
    elems := [.single { key := mel_gK1Ex, val := mel_gV1Ex, size := 13 }, .single { key := mel_gK2Ex, val := mel_gV2Ex, size := 14 },
              .single { key := mel_gK3Ex, val := mel_gV1Ex, size := 13 }],
    size := 100, level := 0 }
def mel_gCEx : Ctx := { ctr := 0, eff := [] }

theorem mel_gHEx_ok : mel_HOk mel_gHEx where
  len := rfl
  dig := by decide
  short := by decide

/-- the search finds digest 8 at index 1 / does not find digest 9 (through the theorem) -/
example : hkeyElements_getElement (mel_getEnv0 mel_gCfgEx) (mel_cH mel_gHEx) (u64 0) (u64 8) (.key mel_gK2Ex) =
    some (some (.single { key := mel_gK2Ex, val := mel_gV2Ex, size := 14 }), 1, none) := by
  rw [hkeyElements_getElement_eq_model _ mel_gCfgEx mel_gK2Ex mel_gV1Ex _ (mel_getEnv0_ok _ _ _) mel_gHEx mel_gHEx_ok 0 8
    (by decide) (by decide) (by decide)]; rfl
example : hkeyElements_getElement (mel_getEnv0 mel_gCfgEx) (mel_cH mel_gHEx) (u64 0) (u64 9) (.key mel_gK4Ex) =
    some (none, 0, some .keyNotFound) := by
  rw [hkeyElements_getElement_eq_model _ mel_gCfgEx mel_gK4Ex mel_gV1Ex _ (mel_getEnv0_ok _ _ _) mel_gHEx mel_gHEx_ok 0 9
    (by decide) (by decide) (by decide)]; rfl

/-- the same search by evaluating the generated code directly (no theorem involved) -/
example : (hkeyElements_getElement (mel_getEnv0 mel_gCfgEx) (mel_cH mel_gHEx) (u64 0) (u64 8) (.key mel_gK2Ex)).map (·.2.1) =
    some 1 := by decide
example : (hkeyElements_getElement (mel_getEnv0 mel_gCfgEx) (mel_cH mel_gHEx) (u64 0) (u64 9) (.key mel_gK4Ex)).map (·.2) =
    some (0, some .keyNotFound) := by decide

/-- Get of the second key: found; of a key with an absent digest: KeyNotFoundError; at level 1 = Levels(): HashLevelError -/
example : hkeyElements_Get (mel_getEnv0 mel_gCfgEx) (mel_cH mel_gHEx) mel_gCEx (u64 0) (u64 (mel_gK2Ex.dig 0)) (.key mel_gK2Ex) =
    some (some (.key mel_gK2Ex), some (.val mel_gV2Ex), none, mel_gCEx) := by
  rw [hkeyElements_Get_eq_model _ mel_gCfgEx mel_gK2Ex mel_gV1Ex _ (mel_getEnv0_ok _ _ _) mel_gHEx mel_gHEx_ok 0 mel_gCEx
    (by decide) (by decide) (by decide)]; rfl
example : hkeyElements_Get (mel_getEnv0 mel_gCfgEx) (mel_cH mel_gHEx) mel_gCEx (u64 0) (u64 (mel_gK4Ex.dig 0)) (.key mel_gK4Ex) =
    some (none, none, some .keyNotFound, mel_gCEx) := by
  rw [hkeyElements_Get_eq_model _ mel_gCfgEx mel_gK4Ex mel_gV1Ex _ (mel_getEnv0_ok _ _ _) mel_gHEx mel_gHEx_ok 0 mel_gCEx
    (by decide) (by decide) (by decide)]; rfl
example : hkeyElements_Get (mel_getEnv0 mel_gCfgEx) (mel_cH mel_gHEx) mel_gCEx (u64 1) (u64 (mel_gK2Ex.dig 1)) (.key mel_gK2Ex) =
    some (none, none, some .hashLevel, mel_gCEx) := by
  rw [hkeyElements_Get_eq_model _ mel_gCfgEx mel_gK2Ex mel_gV1Ex _ (mel_getEnv0_ok _ _ _) mel_gHEx mel_gHEx_ok 1 mel_gCEx
    (by decide) (by decide) (by decide)]; rfl

/-- the hypotheses `hnk`, `hfk` of `hkeyElements_getElementAndNextKey_get` hold in that environment; the generated
    `getElementAndNextKey` evaluated directly on the second key (next key: `firstKeyInElement` of the environment = nil) -/
example : ∃ r, hkeyElements_getElementAndNextKey (mel_getEnv0 mel_gCfgEx) (mel_cH mel_gHEx) mel_gCEx (u64 0) (u64 (mel_gK2Ex.dig 0))
      (.key mel_gK2Ex) = some r ∧ (r.1, r.2.1, r.2.2.2.1) = (some (.key mel_gK2Ex), some (.val mel_gV2Ex), none) := by
  obtain ⟨r, h1, h2⟩ := hkeyElements_getElementAndNextKey_get _ mel_gCfgEx mel_gK2Ex mel_gV1Ex _ (mel_getEnv0_ok _ _ _) mel_gHEx
    mel_gHEx_ok 0 mel_gCEx (by decide) (by decide) (by decide)
    (fun el c lvl hk h => by
      show ((mel_rGet c (el.get SingleElems.ops mel_gCfgEx (u64 lvl).toNat mel_gK2Ex)).1,
            (mel_rGet c (el.get SingleElems.ops mel_gCfgEx (u64 lvl).toNat mel_gK2Ex)).2.1,
            (mel_rGet c (el.get SingleElems.ops mel_gCfgEx (u64 lvl).toNat mel_gK2Ex)).2.2.1) = _
      rw [u64_toNat h])
    (fun _ _ => rfl)
  exact ⟨r, h1, h2⟩
example : (hkeyElements_getElementAndNextKey (mel_getEnv0 mel_gCfgEx) (mel_cH mel_gHEx) mel_gCEx (u64 0) (u64 8) (.key mel_gK2Ex)).map
      (fun r => (r.1, r.2.1, r.2.2.1, r.2.2.2.1)) =
    some (some (.key mel_gK2Ex), some (.val mel_gV2Ex), none, none) := by decide

end Atree.TransEq
